"""Shared machinery of the checks: regeneration, Coq proof gate, builds, case running,
comparison, violation reporting, evidence."""
import fcntl, hashlib, json, os, re, subprocess, sys, time

ROOT = os.path.dirname(os.path.dirname(os.path.abspath(__file__)))
COQ = os.path.join(ROOT, "coq")
CACHE = os.path.join(ROOT, ".cache")
TARGET = os.path.join(CACHE, "target")
OUT = os.path.join(ROOT, "out")
REPO = os.environ.get("PV_REPO", "/repo")
RUNNER = os.path.join(ROOT, "model_runner", "runner")
NPROC = os.cpu_count() or 4

FORBIDDEN = re.compile(r"\b(Admitted|admit|Axiom|Axioms|Parameter|Parameters|Conjecture|Conjectures|Unset Guard Checking|bypass_check|type-in-type|impredicative-set|Admit Obligations)\b")
# axioms declared by the standard library that proofs may depend on (named in DESIGN.md §7)
AXIOM_ALLOW = set()

ENV = dict(os.environ, CARGO_NET_OFFLINE="true", CARGO_TARGET_DIR=TARGET)


# A "family" is a self-contained sub-project (its own Coq project depending on the base
# library in /verif/coq, its own extracted runner and Rust harness crate) so that families can
# be developed and built independently.  The main family lives at the top level.
class Family:
    def __init__(self, name):
        self.name = name
        if name == "main":
            self.coq = COQ
            self.runner_dir = os.path.join(ROOT, "model_runner")
            self.harness_dir = os.path.join(ROOT, "harness")
            self.target = TARGET
            self.bin_name = "pv-harness"
        else:
            base = os.path.join(ROOT, "fam", name)
            self.coq = os.path.join(base, "coq")
            self.runner_dir = os.path.join(base, "runner")
            self.harness_dir = os.path.join(base, "harness")
            self.target = os.path.join(CACHE, "target_" + name)
            self.bin_name = "pv-harness-" + name
        self.runner = os.path.join(self.runner_dir, "runner")

MAIN = Family("main")


class Lock:
    def __init__(self, name):
        os.makedirs(CACHE, exist_ok=True)
        self.path = os.path.join(CACHE, name + ".lock")
    def __enter__(self):
        self.f = open(self.path, "w")
        fcntl.flock(self.f, fcntl.LOCK_EX)
        return self
    def __exit__(self, *a):
        fcntl.flock(self.f, fcntl.LOCK_UN)
        self.f.close()


def sh(cmd, cwd=None, timeout=3600, env=None, input=None):
    p = subprocess.run(cmd, cwd=cwd, env=env or ENV, input=input, stdout=subprocess.PIPE,
                       stderr=subprocess.STDOUT, timeout=timeout, text=True,
                       shell=isinstance(cmd, str))
    return p.returncode, p.stdout


def regen(fam=None):
    """translator: regenerate coq/Generated (and the family's Generated) from /repo's working tree"""
    # one writer at a time (the tables are shared files of the Coq projects; the translators write only on change)
    with Lock("regen"):
        rc, out = sh([sys.executable, os.path.join(ROOT, "tools", "extract.py"), "--repo", REPO, "--family", "main"])
        if rc == 0 and fam is not None and fam.name != "main":
            rc, out2 = sh([sys.executable, os.path.join(ROOT, "tools", "extract.py"), "--repo", REPO, "--family", fam.name])
            out += out2
    return rc == 0, out


def base_targets(fam):
    """.vo targets of the main family that the family's sources name in `From PV Require ...` lines"""
    mods = set()
    for d, _, fs in os.walk(fam.coq):
        for f in fs:
            if f.endswith(".v"):
                txt = open(os.path.join(d, f), encoding="utf-8").read()
                for m in re.finditer(r"From\s+PV\s+Require\s+(?:Import\s+|Export\s+)?(.*?)\.(?:\s|$)", txt, flags=re.S):
                    mods.update(x for x in m.group(1).split() if re.fullmatch(r"[A-Za-z_]\w*(?:\.[A-Za-z_]\w*)*", x))
                for m in re.finditer(r"(?<!PV )Require\s+(?:Import\s+|Export\s+)?(.*?)\.(?:\s|$)", txt, flags=re.S):
                    mods.update(x[3:] for x in m.group(1).split() if x.startswith("PV."))
    t = sorted(m.replace(".", "/") + ".vo" for m in mods if os.path.exists(os.path.join(COQ, m.replace(".", "/") + ".v")))
    return t or ["Base/Bytes.vo"]


def coq_make(targets, timeout=1500, fam=None):
    """full .vo build of the given targets (and what they depend on)"""
    fam = fam or MAIN
    if fam.name != "main":
        # the modules of the base library this family imports first (families see it through -Q); only those, so
        # that an unrelated file of the main family that does not build cannot break this family's checks
        ok, out = coq_make(base_targets(fam), timeout=timeout)
        if not ok:
            return ok, out
    with Lock("coq_" + fam.name):
        if not os.path.exists(os.path.join(fam.coq, "Makefile")) or \
           os.path.getmtime(os.path.join(fam.coq, "_CoqProject")) > os.path.getmtime(os.path.join(fam.coq, "Makefile")):
            sh(["coq_makefile", "-f", "_CoqProject", "-o", "Makefile"], cwd=fam.coq)
        rc, out = sh(["timeout", str(timeout), "make", "-j%d" % NPROC] + targets, cwd=fam.coq, timeout=timeout + 30)
    return rc == 0, out


def grep_forbidden(fam=None):
    hits = []
    dirs = [COQ] + ([fam.coq] if fam and fam.name != "main" else [])
    for d, _, fs in (x for dd in dirs for x in os.walk(dd)):
        for f in fs:
            if f.endswith(".v"):
                p = os.path.join(d, f)
                txt = open(p, encoding="utf-8").read()
                # drop comments (non-nested is enough for this development's style; nested handled by loop)
                prev = None
                while prev != txt:
                    prev = txt
                    txt = re.sub(r"\(\*(?:(?!\(\*|\*\)).)*\*\)", " ", txt, flags=re.S)
                for m in FORBIDDEN.finditer(txt):
                    hits.append("%s: %s" % (os.path.relpath(p, COQ), m.group(0)))
    return hits


GATED = []     # (family, property) pairs that went through a proof gate in this process (for the thorough tier's coqchk)


def coqchk(fam, prop, timeout=1500):
    """independent re-check of the compiled property file and everything it depends on (coqchk -o): returns (ok, axioms text)"""
    qargs = ["-Q", COQ, "PV"]
    mod = "PV.Properties." + prop
    if fam.name != "main":
        lr = "PV" + fam.name.capitalize()
        qargs += ["-Q", fam.coq, lr]
        mod = lr + ".Properties." + prop
    with Lock("coq_" + fam.name):
        rc, out = sh(["timeout", str(timeout), "coqchk", "-o", "-silent"] + qargs + [mod], cwd=fam.coq, timeout=timeout + 30)
    m = re.search(r"\* Axioms:(.*?)\n\s*\n\* Constants/Inductives relying on type-in-type:(.*?)\n\s*\n\* Constants/Inductives relying on unsafe \(co\)fixpoints:(.*?)\n\s*\n\* Inductives whose positivity is assumed:(.*?)(?:\n\s*\n|\Z)", out, flags=re.S)
    if rc != 0 or not m:
        return False, "coqchk failed: " + out[-400:]
    parts = [x.strip() for x in m.groups()]
    axioms = [a for a in re.split(r"\s+", parts[0]) if a and a != "<none>" and a not in AXIOM_ALLOW]
    ok = not axioms and all(x == "<none>" for x in parts[1:])
    return ok, "axioms: %s; type-in-type: %s; unsafe fixpoints: %s; assumed positivity: %s" % tuple(parts)


def gate_source(src):
    """the gate copy of a property file announces every theorem by name (`Check T.`) right before its Print Assumptions, so
    that the answer is attributed to that theorem and not merely counted"""
    return re.sub(r"^Print Assumptions\s+(\w+)\s*\.", lambda m: "Check %s.\nPrint Assumptions %s." % (m.group(1), m.group(1)), src, flags=re.M)


def gate_verdict(src, thms, out, fam, res):
    """reads coqc's output for the gate copy: axioms, forbidden vernacular, and per theorem a closed Print Assumptions answer"""
    axioms = []
    for blk in re.findall(r"Axioms:\n((?:.+\n?)+?)(?:\n|\Z)", out):
        for ln in blk.splitlines():
            mm = re.match(r"^(\S+)\s*:", ln)
            if mm:
                axioms.append(mm.group(1))
    res["axioms"] = sorted(set(axioms))
    bad_ax = [a for a in res["axioms"] if a not in AXIOM_ALLOW]
    printed = re.findall(r"^Print Assumptions\s+(\w+)\s*\.", src, flags=re.M)
    forb = grep_forbidden(fam)
    if bad_ax:
        res["failed"] = "axioms not in allowlist: " + ", ".join(bad_ax)
    elif forb:
        res["failed"] = "forbidden vernacular: " + "; ".join(forb[:5])
    elif [t for t in thms if t not in printed]:
        res["failed"] = "a theorem without Print Assumptions: " + ", ".join([t for t in thms if t not in printed][:6])
    else:
        pos, marks = 0, []
        for t in printed:
            mm = re.compile(r"^%s\b" % re.escape(t), flags=re.M).search(out, pos)
            marks.append((t, mm.start() if mm else None))
            if mm:
                pos = mm.end()
        done = []
        for i, (t, st) in enumerate(marks):
            if st is None:
                continue
            en = next((e for _, e in marks[i + 1:] if e is not None), len(out))
            seg = out[st:en]
            if "Closed under the global context" in seg or "Axioms:" in seg:      # listed axioms were checked against the allowlist above
                done.append(t)
        missing = [t for t in thms if t not in done]
        res["discharged"] = len(thms) - len(missing)
        if missing:
            res["failed"] = "no Print Assumptions answer for: " + ", ".join(missing[:6])
        else:
            res["ok"] = True
    return res


def proof_gate(prop, fam=None):
    """Builds Properties/<prop>.vo (and its dependencies) from the regenerated tables, re-runs
    coqc on the property file to capture Print Assumptions, checks axioms and forbidden words.
    Returns dict(ok, obligations, discharged, theorems, axioms, failed, log)."""
    res = dict(ok=False, obligations=0, discharged=0, theorems=[], axioms=[], failed=None, log="")
    fam = fam or MAIN
    GATED.append((fam, prop))
    vfile = os.path.join(fam.coq, "Properties", prop + ".v")
    src = open(vfile, encoding="utf-8").read()
    thms = re.findall(r"^(?:Theorem|Corollary)\s+(\w+)", src, flags=re.M)
    res["theorems"] = thms
    res["obligations"] = len(thms)
    ok, log = coq_make(["Properties/%s.vo" % prop], fam=fam)
    res["log"] = log[-6000:]
    if not ok:
        m = re.findall(r'File "\./([^"]+)", line (\d+)', log)
        res["failed"] = ("%s:%s" % m[-1]) if m else "make failed"
        em = re.search(r"Error:(.*?)(?:\n\n|\Z)", log, flags=re.S)
        res["error"] = (em.group(1).strip()[:600] if em else log[-600:])
        return res
    gdir = os.path.join(CACHE, "gate")
    os.makedirs(gdir, exist_ok=True)
    gfile = os.path.join(gdir, prop + ".v")
    open(gfile, "w").write(gate_source(src))
    qargs = ["-Q", COQ, "PV"]
    if fam.name != "main":
        qargs += ["-Q", fam.coq, "PV" + fam.name.capitalize()]
    with Lock("coq_" + fam.name):
        rc, out = sh(["timeout", "600", "coqc"] + qargs + ["-w", "-notation-overridden", gfile],
                     cwd=gdir, timeout=630)
    if rc != 0:
        res["failed"] = "Properties/%s.v" % prop
        res["error"] = out[-600:]
        return res
    return gate_verdict(src, thms, out, fam, res)


def build_runner(fam=None):
    fam = fam or MAIN
    with Lock("runner_" + fam.name):
        ok, log = coq_make(["Extract/Extract.vo"], fam=fam)
        if not ok:
            return False, log
        ml = os.path.join(fam.coq, "model.ml")
        srcs = [ml] + [os.path.join(fam.runner_dir, f) for f in os.listdir(fam.runner_dir) if f.endswith(".ml")]
        srcs.append(os.path.join(ROOT, "model_runner", "util.ml"))
        if (not os.path.exists(fam.runner)) or any(os.path.getmtime(x) > os.path.getmtime(fam.runner) for x in srcs):
            rc, out = sh(["sh", os.path.join(fam.runner_dir, "build.sh")], timeout=900)
            if rc != 0:
                return False, out
    return True, ""


def build_harness(release=False, rustflags=None, fam=None, features=None):
    """cargo build of the Rust harness against /repo's working tree"""
    fam = fam or MAIN
    hd = fam.harness_dir
    target = fam.target
    if os.path.realpath(REPO) != "/repo":
        # PV_REPO=<scratch copy of the repository>: build a copy of the harness crate whose path
        # dependencies point into that copy, with its own target directory
        import shutil
        tag = hashlib.sha1(os.path.realpath(REPO).encode()).hexdigest()[:8]
        alt = os.path.join(CACHE, "harness_%s_%s" % (fam.name, tag))
        shutil.rmtree(alt, ignore_errors=True)
        shutil.copytree(hd, alt, ignore=shutil.ignore_patterns("target", "Cargo.lock"))
        for d, _, fs in os.walk(alt):
            for f in fs:
                if f == "Cargo.toml":
                    q = os.path.join(d, f)
                    t = open(q).read().replace('"/repo/', '"%s/' % os.path.realpath(REPO))
                    open(q, "w").write(t)
        hd = alt
        target = fam.target + "_" + tag
    with Lock("cargo_" + fam.name):
        lock_src = os.path.join(REPO, "Cargo.lock")
        lock_dst = os.path.join(hd, "Cargo.lock")
        if os.path.exists(lock_src) and not os.path.exists(lock_dst):
            open(lock_dst, "w").write(open(lock_src).read())
        env = dict(ENV, CARGO_TARGET_DIR=target)
        if rustflags:
            env["RUSTFLAGS"] = rustflags
        cmd = ["cargo", "build", "--offline", "--quiet"] + (["--release"] if release else [])
        if features:
            cmd += ["--features", features]
        rc, out = sh(cmd, cwd=hd, env=env, timeout=3000)
        if rc != 0 and "Cargo.lock" in out:
            open(lock_dst, "w").write(open(lock_src).read())
            rc, out = sh(cmd, cwd=hd, env=env, timeout=3000)
    binp = os.path.join(target, "release" if release else "debug", fam.bin_name)
    errs = "\n".join(l for l in out.splitlines() if l.startswith("error") or "-->" in l)[:3000]
    return rc == 0, binp, (errs or out[-3000:])


def run_lines(binary, lines, shards=None, timeout=1800, args=(), stall=None, per=200):
    """feeds case lines to a line-oriented runner (one answer line per case line, in order); returns the answer lines.
    A process that dies only costs the line it was working on (`CRASH ...`), the rest of the shard goes to a fresh
    process.  For binaries that flush every answer (the Rust harnesses: detected by their path, or stall= given), a
    case that produces no answer within `stall` seconds is answered `HANG ...`, the process is killed and the rest of
    the shard restarted -- so a decoder that loops forever is reported with its input instead of stalling the check."""
    import threading, queue
    if not lines:
        return []
    if stall is None and os.sep + "target" in binary:
        stall = float(os.environ.get("PV_STALL_S", "30"))
    # the thorough tier gives every batch more time (set by ./check): an extracted model working through long inputs on a
    # loaded machine must not be mistaken for a crash
    timeout = max(timeout, int(os.environ.get("PV_RUN_TIMEOUT", "0") or 0))
    shards = shards or min(NPROC, max(1, len(lines) // per))
    idx = [list(range(i, len(lines), shards)) for i in range(shards)]
    out = [None] * len(lines)
    deadline = time.time() + timeout
    hangs = [0]

    def work(ix):
        pos, restarts = 0, 0
        while pos < len(ix):
            if hangs[0] >= 6:
                # every hang costs `stall` seconds: after a handful the point is made
                for j in ix[pos:]:
                    out[j] = "HANG (not run: the runner had stopped answering on 6 earlier cases of this batch)"
                return
            if restarts > 200 or time.time() > deadline:
                for j in ix[pos:]:
                    out[j] = "CRASH runner produced no output (too many restarts or overall timeout)"
                return
            chunk = ix[pos:]
            p = subprocess.Popen([binary] + list(args), stdin=subprocess.PIPE, stdout=subprocess.PIPE,
                                 stderr=subprocess.DEVNULL, text=True, errors="replace", env=ENV)
            q = queue.Queue()

            def feed():
                try:
                    p.stdin.write("\n".join(lines[j] for j in chunk) + "\n")
                    p.stdin.close()
                except (BrokenPipeError, OSError, ValueError):
                    pass

            def drain():
                try:
                    for ln in p.stdout:
                        q.put(ln.rstrip("\n"))
                except Exception:       # a reader that dies must still release the consumer
                    pass
                q.put(None)
            tf = threading.Thread(target=feed, daemon=True); tf.start()
            td = threading.Thread(target=drain, daemon=True); td.start()
            k = 0
            verdict = None
            while k < len(chunk):
                wait = stall if stall is not None else max(1.0, deadline - time.time())
                try:
                    ln = q.get(timeout=wait)
                except queue.Empty:
                    verdict = ("HANG no answer within %d s (process killed)" % wait) if stall is not None else \
                        "CRASH runner produced no output (crash, abort or timeout)"
                    if stall is not None:
                        hangs[0] += 1
                    break
                if ln is None:
                    try:
                        rc = p.wait(timeout=5)
                    except subprocess.TimeoutExpired:      # stdout closed / unreadable but the process still runs
                        p.kill()
                        rc = p.wait()
                    verdict = "CRASH process died (exit %s)" % rc
                    break
                out[chunk[k]] = ln
                k += 1
            try:
                p.kill()
            except OSError:
                pass
            p.wait()
            if k < len(chunk):
                out[chunk[k]] = verdict or "CRASH runner produced no output"
                k += 1
                restarts += 1
            pos += k
    ths = [threading.Thread(target=work, args=(ix,)) for ix in idx]
    for t in ths: t.start()
    for t in ths: t.join()
    return [o if o is not None else "CRASH runner produced no output (crash, abort or timeout)" for o in out]


class Check:
    """One run of one property's check."""
    def __init__(self, prop, tier, seed, level="proof"):
        self.prop, self.tier, self.seed, self.level = prop, tier, seed, level
        self.t0 = time.time()
        self.violations = []      # (replay_path, no_input)
        self.known_hits = {}
        self.cov = dict(evaluations=0, distinct_nontrivial=0, rule="", samples=[], obligations=0,
                        discharged=0, checker_cmd="", trusted_base=[], disagreements_checked=0)
        self.assumptions = []
        self._distinct = set()
        self.notes = []
        self._part = None         # name of the part being run (checks made of several levels, see run_parts)
        self._parts = {}
        os.makedirs(os.path.join(OUT, "replay"), exist_ok=True)
        kf = os.path.join(ROOT, "known_findings.json")
        self.known = [k for k in json.load(open(kf))["findings"] if k["property"] == prop] if os.path.exists(kf) else []

    # ---- counting
    def count(self, case, nontrivial=True):
        self.cov["evaluations"] += 1
        if nontrivial:
            self._distinct.add(hashlib.sha1(case.encode()).digest()[:8])
    def sample(self, x):
        if len(self.cov["samples"]) < 6:
            self.cov["samples"].append(x)

    # ---- reporting
    def known_finding(self, cls):
        """returns the open known-findings entry of class cls, if any"""
        for k in self.known:
            if k.get("status") == "open" and k.get("class") == cls:
                return k
        return None

    def violation(self, what, replay, no_input=False, cls=None):
        if cls is not None:
            k = self.known_finding(cls)
            if k is not None:
                self.known_hits.setdefault(k["id"], (k, replay))
                return
        n = len(self.violations)
        path = os.path.join(OUT, "replay", "%s_%d.json" % (self.prop, n))
        obj = dict(property=self.prop, what=what, seed=self.seed, tier=self.tier, replay=replay)
        if no_input:
            obj["no_failing_input_found"] = True
        json.dump(obj, open(path, "w"), indent=1)
        self.violations.append((path, no_input, what))

    # ---- checks made of several parts (primitive level + generated-code level): each part is an ordinary
    #      run function ending in chk.finish(); inside run_parts that call only stashes the part's coverage
    PART_KEYS = ("rule", "obligations", "discharged", "theorems", "axioms", "checker_cmd", "distribution",
                 "disagreements_checked", "model_impl_mismatches", "trusted_base", "exhaustive")

    def run_parts(self, parts):
        """parts: list of (name, fn(chk)); returns the exit code of the combined check"""
        for name, fn in parts:
            self._part = name
            for k in ("rule", "distribution", "theorems", "axioms", "checker_cmd"):
                self.cov.pop(k, None)
            self.cov.update(obligations=0, discharged=0, disagreements_checked=0)
            try:
                fn(self)
            except Exception as e:      # a part that crashes is a broken check, reported as such
                import traceback
                self.violation("part %s of the check crashed: %r" % (name, e),
                               dict(kind="check-crash", part=name, traceback=traceback.format_exc()[-3000:]), no_input=True)
                self._parts[name] = dict(rule="crashed")
        self._part = None
        ps = self._parts
        self.cov["parts"] = ps
        self.cov["rule"] = " || ".join("[%s] %s" % (n, ps[n].get("rule", "")) for n in ps)
        self.cov["obligations"] = sum(ps[n].get("obligations", 0) for n in ps)
        self.cov["discharged"] = sum(ps[n].get("discharged", 0) for n in ps)
        self.cov["theorems"] = [t for n in ps for t in ps[n].get("theorems", [])]
        self.cov["axioms"] = sorted(set(a for n in ps for a in ps[n].get("axioms", [])))
        self.cov["checker_cmd"] = " ; ".join(ps[n].get("checker_cmd", "") for n in ps if ps[n].get("checker_cmd"))
        self.cov["disagreements_checked"] = sum(ps[n].get("disagreements_checked", 0) for n in ps)
        self.cov["model_impl_mismatches"] = sum(ps[n].get("model_impl_mismatches", 0) for n in ps)
        tb = []
        for n in ps:
            for t in ps[n].get("trusted_base", []):
                if t not in tb:
                    tb.append(t)
        self.cov["trusted_base"] = tb
        self.cov.pop("distribution", None)
        return self.finish()

    def finish(self):
        if self._part is not None:
            self._parts[self._part] = {k: self.cov[k] for k in self.PART_KEYS if k in self.cov}
            return 1 if self.violations else 0
        self.cov["distinct_nontrivial"] = len(self._distinct)
        if self.tier == "thorough" and GATED and not os.environ.get("PV_NO_COQCHK"):
            # the thorough tier re-checks the compiled proofs with the independent checker
            done, res = set(), {}
            for fam, prop in GATED:
                if (fam.name, prop) in done:
                    continue
                done.add((fam.name, prop))
                ok, txt = coqchk(fam, prop)
                res["%s/%s" % (fam.name, prop)] = txt
                if not ok:
                    self.violation("coqchk does not accept %s/Properties/%s.vo: %s" % (fam.name, prop, txt[:300]),
                                   dict(kind="proof", checker="coqchk -o", family=fam.name, theorem_file="Properties/%s.v" % prop, output=txt), no_input=True)
            self.cov["coqchk"] = res
        if not self.assumptions:
            # what the verdict of this run rests on besides the Coq kernel: the trusted base as recorded for this check, plus
            # the standing assumptions of the whole development (DESIGN.md section 7)
            self.assumptions = list(self.cov.get("trusted_base") or []) + [
                "the hand-written Coq models describe the Rust code only as far as the correspondence run of this check compared them (inputs: coverage.distribution / samples)",
                "open known findings listed under coverage.known_findings_reproduced are excluded from the theorems by decidable classes and reported as KNOWN-FINDING, not as violations",
            ]
        ev = dict(property_id=self.prop, tier=self.tier, seed=self.seed, level=self.level,
                  coverage=self.cov, assumptions=self.assumptions, wall_s=round(time.time() - self.t0, 2),
                  violations=len(self.violations))
        if self.notes:
            ev["coverage"]["notes"] = self.notes
        ev["coverage"]["known_findings_reproduced"] = sorted(self.known_hits)
        evdir = os.environ.get("PV_EVIDENCE_DIR") or os.path.join(ROOT, "evidence")
        os.makedirs(evdir, exist_ok=True)
        json.dump(ev, open(os.path.join(evdir, self.prop + ".json"), "w"), indent=1)
        for kid, (k, _) in sorted(self.known_hits.items()):
            print("KNOWN-FINDING: property=%s %s: %s" % (self.prop, kid, k["description"]))
        seen = set()
        # a concrete failing input is the better replay: list those first; a broken obligation / correspondence for which
        # no input was found is listed (with no-failing-input-found) only when no concrete input was found at all
        concrete = [v for v in self.violations if not v[1]]
        listed = concrete if concrete else self.violations
        for path, no_input, what in listed:
            if len(seen) >= 5:
                break
            seen.add(path)
            print("# %s" % what)
            print("VIOLATION property=%s replay=%s%s" % (self.prop, path, " no-failing-input-found" if no_input else ""))
        sys.stdout.flush()
        return 1 if self.violations else 0


TRUSTED_BASE = [
    "Coq 8.16.1 kernel (coqc full .vo build; vm_compute used by reflection over finite tables; no native_compute)",
    "tools/extract.py (regex-level translator of Rust tables/constants into coq/Generated)",
    "Coq extraction with ExtrOcamlBasic only (bool, option, unit, list, prod, sumbool, sumor mapped to OCaml's; no Extract Constant), OCaml 4.13.1, hand-written model_runner/*.ml glue (byte <-> int via Obj.magic, self-tested at start-up)",
    "Rust harness /verif/harness (value interpreter over the real API, printing) and the Python generators/oracles in /verif/pv",
    "hand-written Gallina models of pilota's method bodies (tied to the code by the differential correspondence run, not verified)",
    "modelled, not verified: bytes 1.8, integer-encoding 4.0.2, linkedbytes 0.1.8, tokio AsyncReadExt contracts",
]


def std_setup(chk, need_runner=True, need_harness=True, release=False, fam=None):
    """regenerate, proof gate, build runner + harness.  Returns (gate, harness_bin or None)."""
    fam = fam or MAIN
    ok, out = regen(fam)
    gate = None
    if not ok:
        chk.violation("translator failed: " + out.strip()[-400:], dict(kind="translator", output=out[-2000:]), no_input=True)
    gate = proof_gate(chk.prop, fam)
    chk.cov["obligations"] = gate["obligations"]
    chk.cov["discharged"] = gate["discharged"]
    chk.cov["checker_cmd"] = "make -C coq Properties/%s.vo && coqc -Q . PV Properties/%s.v (Print Assumptions allowlist, forbidden-vernacular grep)" % (chk.prop, chk.prop)
    chk.cov["trusted_base"] = TRUSTED_BASE
    chk.cov["theorems"] = gate["theorems"]
    chk.cov["axioms"] = gate["axioms"]
    hb = None
    if need_runner:
        ok, log = build_runner(fam)
        if not ok and gate["ok"]:
            gate["ok"] = False
            gate["failed"] = "model extraction/runner build failed"
            gate["error"] = log[-800:]
    if need_harness:
        ok, hb, log = build_harness(release=release, fam=fam)
        if not ok:
            chk.violation("harness does not build against the working tree: " + log[-300:],
                          dict(kind="harness-build", output=log), no_input=True)
            hb = None
    return gate, hb
