(* C13, recovery (binary protocols): the emitted encoder, run on what the keep decoder returned, writes byte for
   byte the runtime writer's encoding of the value tree [reenc S T tv] -- per keeping struct the known fields in
   declaration order (defaults filled) followed by the ignored fields exactly as they were, in wire order.  With the
   proved runtime round trip (C01) the self-describing reader therefore reads the re-encoded message back to that tree.
   Induction on the value tree; writer algebra only (the binary writers never fail and never change their context). *)
From PVGen Require Import Gen GenKeep GenSpec EvoSpec KeepSpec Proofs.GenBase Proofs.EncP Proofs.EvoBase Proofs.EvoErrP
  Proofs.KeepBase Proofs.KeepP Proofs.KeepTopP Proofs.KeepViewP.
From PV Require Import Proofs.TablesP Proofs.PrimP Proofs.HeaderP Proofs.RoundtripP Proofs.LenP.
From Coq Require Import ZifyN ZifyNat ZifyBool.
Open Scope Z_scope.

(* ---------- names for the loops of reenc ---------- *)
Section RNames.
  Variable S : schema.
  Definition reenc_elems (et : ty) : list tval -> list tval :=
    fix go (l : list tval) : list tval := match l with [] => [] | x :: r => reenc S et x :: go r end.
  Definition reenc_pairs (kt vt : ty) : list (tval * tval) -> list (tval * tval) :=
    fix go (l : list (tval * tval)) : list (tval * tval) :=
      match l with [] => [] | (a, b) :: r => (reenc S kt a, reenc S vt b) :: go r end.
  Definition reenc_fields (dfs : list field) (keep : bool)
    : list (Z * tval) -> list (option tval) -> list (Z * tval) -> list (option tval) * list (Z * tval) :=
    fix go (fs : list (Z * tval)) (tvars : list (option tval)) (U : list (Z * tval)) {struct fs}
      : list (option tval) * list (Z * tval) :=
      match fs with
      | [] => (tvars, U)
      | (id, x) :: r =>
          match match_field S dfs O (Some id) (ttype_of x) with
          | Some (i, f) => go r (set_nth i (Some (reenc S (f_ty f) x)) tvars) U
          | None => go r tvars (if keep then U ++ [(id, x)] else U)
          end
      end.
  Definition reenc_variants (vs : list (Z * ty)) : list (Z * tval) -> list (Z * tval) :=
    fix go (fs : list (Z * tval)) : list (Z * tval) :=
      match fs with
      | [] => []
      | (id, x) :: r =>
          match variant_by_id S vs id with
          | Some vt => [(id, reenc S vt x)]
          | None => go r
          end
      end.

  Lemma reenc_list t a l : reenc S t (VList a l) =
    match resolve S t with TyList et => VList (ttype_of_ty S et) (reenc_elems et l) | _ => VList a l end.
  Proof. reflexivity. Qed.
  Lemma reenc_set t a l : reenc S t (VSet a l) =
    match resolve S t with TySet et => VSet (ttype_of_ty S et) (reenc_elems et l) | _ => VSet a l end.
  Proof. reflexivity. Qed.
  Lemma reenc_map t ka va l : reenc S t (VMap ka va l) =
    match resolve S t with
    | TyMap kt vt => VMap (ttype_of_ty S kt) (ttype_of_ty S vt) (reenc_pairs kt vt l)
    | _ => VMap ka va l
    end.
  Proof. reflexivity. Qed.
  Lemma reenc_struct t fs : reenc S t (VStruct fs) =
    match resolve S t with
    | TyRef n =>
        match lookup S n with
        | Some (DStruct dfs keep _) =>
            let r := reenc_fields dfs keep fs (map (init_tvar S) dfs) [] in
            VStruct (finish_tv S dfs (fst r) ++ snd r)
        | Some (DUnion vs _ true) =>
            match fs with
            | [] => VStruct []
            | (id, x) :: _ =>
                match variant_by_id S vs id with
                | Some vt => VStruct [(id, reenc S vt x)]
                | None => VStruct [(id, x)]
                end
            end
        | Some (DUnion vs _ false) => VStruct (reenc_variants vs fs)
        | _ => VStruct fs
        end
    | _ => VStruct fs
    end.
  Proof. reflexivity. Qed.
  Lemma reenc_fields_cons dfs keep id x r tvars U : reenc_fields dfs keep ((id, x) :: r) tvars U =
    match match_field S dfs O (Some id) (ttype_of x) with
    | Some (i, f) => reenc_fields dfs keep r (set_nth i (Some (reenc S (f_ty f) x)) tvars) U
    | None => reenc_fields dfs keep r tvars (if keep then U ++ [(id, x)] else U)
    end.
  Proof. reflexivity. Qed.

  Lemma reenc_ttype t v : ttype_of (reenc S t v) = ttype_of v.
  Proof.
    destruct v; try reflexivity.
    - rewrite reenc_struct. destruct (resolve S t); try reflexivity.
      destruct (lookup S n) as [[? ? ?|vs ? [|]|?|?]|]; try reflexivity.
      destruct fs as [|[id x] r]; [reflexivity|]. destruct (variant_by_id S vs id); reflexivity.
    - rewrite reenc_list. destruct (resolve S t); reflexivity.
    - rewrite reenc_set. destruct (resolve S t); reflexivity.
    - rewrite reenc_map. destruct (resolve S t); reflexivity.
  Qed.
End RNames.

(* ---------- the binary writers are total and leave the context alone ---------- *)
Section BinTotal.
  Variable p : pk.
  Hypothesis Hbin : p <> PCompact.
  Variable k : bk.

  Lemma bin_bytes_w l c : exists ss, w_bytes p k l c = Ok (ss, c).
  Proof.
    unfold w_bytes. destruct (w_len_ok p (Z.of_nat (length l)) c) as (lb & Hw & _).
    destruct (w_bwl_ok k l c) as (s & Hs & _). eexists. eapply wseq_ok; eauto.
  Qed.

  Lemma bin_coll_w et n c : exists ss, w_coll_begin p et n c = Ok (ss, c).
  Proof using Hbin. clear k. destruct p; try congruence; cbn [w_coll_begin]; eexists; reflexivity. Qed.
  Lemma bin_map_w kt vt n c : exists ss, w_map_begin p kt vt n c = Ok (ss, c).
  Proof using Hbin. clear k. destruct p; try congruence; cbn [w_map_begin]; eexists; reflexivity. Qed.
  Lemma bin_stop_w c : w_field_stop p c = Ok ([Copy [x00]], c).
  Proof using Hbin. clear k. destruct p; try congruence; reflexivity. Qed.
  Lemma bin_field_end_w c : w_field_end p c = Ok ([], c).
  Proof using Hbin. clear k. destruct p; try congruence; reflexivity. Qed.

  Theorem bin_write_total v : forall c, exists ss, write_val p k v c = Ok (ss, c).
  Proof.
    induction v using tval_ind'; intros c.
    - destruct p; try congruence; eexists; reflexivity.
    - eexists; reflexivity.
    - destruct p; try congruence; eexists; reflexivity.
    - destruct p; try congruence; eexists; reflexivity.
    - destruct p; try congruence; eexists; reflexivity.
    - destruct p; try congruence; eexists; reflexivity.
    - apply bin_bytes_w.
    - eexists; reflexivity.
    - (* struct *)
      assert (G : exists sf, write_fields p k fs c = Ok (sf, c)).
      { induction fs as [|[i x] r IHr]; [eexists; reflexivity|]. inversion H as [|? ? Hx Hr]; subst. cbn [snd] in Hx.
        destruct (Hx c) as (s2 & Hw2). destruct (IHr Hr) as (s3 & Hw3).
        change (write_fields p k ((i, x) :: r)) with
          (w_field_begin p (ttype_of x) i ;; write_val p k x ;; w_field_end p ;; write_fields p k r).
        eexists. eapply wseq_ok; [eapply wseq_ok; [eapply wseq_ok; [apply bin_field_begin_w; exact Hbin|exact Hw2]|apply bin_field_end_w]|exact Hw3]. }
      destruct G as (sf & Hf).
      change (write_val p k (VStruct fs)) with (w_struct_begin p ;; write_fields p k fs ;; w_field_stop p ;; w_struct_end p).
      eexists. eapply wseq_ok; [eapply wseq_ok; [eapply wseq_ok; [apply bin_struct_begin_w; exact Hbin|exact Hf]|apply bin_stop_w]|apply bin_struct_end_w; exact Hbin].
    - (* list *)
      assert (G : exists s2, write_elems p k l c = Ok (s2, c)).
      { induction l as [|x r IHr]; [eexists; reflexivity|]. inversion H as [|? ? Hx Hr]; subst.
        destruct (Hx c) as (sa & Ha). destruct (IHr Hr) as (sb & Hb).
        change (write_elems p k (x :: r)) with (write_val p k x ;; write_elems p k r). eexists. eapply wseq_ok; eauto. }
      destruct G as (s2 & Hw2). destruct (bin_coll_w et (Z.of_nat (length l)) c) as (s1 & Hw1).
      eexists. cbn [write_val]. eapply wseq_ok; eauto.
    - (* set *)
      assert (G : exists s2, write_elems p k l c = Ok (s2, c)).
      { induction l as [|x r IHr]; [eexists; reflexivity|]. inversion H as [|? ? Hx Hr]; subst.
        destruct (Hx c) as (sa & Ha). destruct (IHr Hr) as (sb & Hb).
        change (write_elems p k (x :: r)) with (write_val p k x ;; write_elems p k r). eexists. eapply wseq_ok; eauto. }
      destruct G as (s2 & Hw2). destruct (bin_coll_w et (Z.of_nat (length l)) c) as (s1 & Hw1).
      eexists. cbn [write_val]. eapply wseq_ok; eauto.
    - (* map *)
      assert (G : exists s2, write_pairs p k l c = Ok (s2, c)).
      { induction l as [|[a b] r IHr]; [eexists; reflexivity|]. inversion H as [|? ? [Ha Hb] Hr]; subst. cbn [fst snd] in *.
        destruct (Ha c) as (sa & Hwa). destruct (Hb c) as (sb & Hwb). destruct (IHr Hr) as (sc & Hwc).
        change (write_pairs p k ((a, b) :: r)) with (write_val p k a ;; write_val p k b ;; write_pairs p k r).
        eexists. eapply wseq_ok; [eapply wseq_ok|]; eauto. }
      destruct G as (s2 & Hw2). destruct (bin_map_w kt vt (Z.of_nat (length l)) c) as (s1 & Hw1).
      eexists. cbn [write_val]. eapply wseq_ok; eauto.
  Qed.

  (* one field *)
  Lemma bin_field_w id x c : exists s2, write_val p k x c = Ok (s2, c) /\
    (w_field_begin p (ttype_of x) id ;; write_val p k x ;; w_field_end p) c = Ok (([Copy (hdrb p (ttype_of x) id)] ++ s2) ++ [], c) /\
    fbytes p k c id x = hdrb p (ttype_of x) id ++ flat s2.
  Proof.
    destruct (bin_write_total x c) as (s2 & Hw2). exists s2. split; [exact Hw2|].
    assert (Hwhole : (w_field_begin p (ttype_of x) id ;; write_val p k x ;; w_field_end p) c
                     = Ok (([Copy (hdrb p (ttype_of x) id)] ++ s2) ++ [], c)).
    { eapply wseq_ok; [eapply wseq_ok; [apply bin_field_begin_w; exact Hbin|exact Hw2]|apply bin_field_end_w]. }
    split; [exact Hwhole|]. unfold fbytes. rewrite Hwhole, app_nil_r, flat_app, flat_copy. reflexivity.
  Qed.

  Lemma write_fields_app a : forall b c sa sb, write_fields p k a c = Ok (sa, c) -> write_fields p k b c = Ok (sb, c) ->
    write_fields p k (a ++ b) c = Ok (sa ++ sb, c).
  Proof.
    induction a as [|[i x] r IH]; intros b c sa sb Ha Hb.
    - cbn [write_fields] in Ha. unfold wnop in Ha. injection Ha as <-. exact Hb.
    - cbn [app].
      change (write_fields p k ((i, x) :: r)) with
        (w_field_begin p (ttype_of x) i ;; write_val p k x ;; w_field_end p ;; write_fields p k r) in Ha.
      change (write_fields p k ((i, x) :: r ++ b)) with
        (w_field_begin p (ttype_of x) i ;; write_val p k x ;; w_field_end p ;; write_fields p k (r ++ b)).
      apply wseq_inv in Ha as (s1 & c1 & s2 & H1 & H2 & ->).
      destruct (bin_field_w i x c) as (sx & _ & Hf & _). rewrite Hf in H1. injection H1 as <- <-.
      rewrite <- app_assoc. eapply wseq_ok; [exact Hf|]. apply IH; assumption.
  Qed.

  (* the ignored fields, written again, are their retained chunks *)
  Lemma write_unknown_same U c : w_pend c = None ->
    exists sU sU', w_unknown k (map (fun q => fbytes p k c (fst q) (snd q)) U) c = Ok (sU, c) /\
                   write_fields p k U c = Ok (sU', c) /\ flat sU = flat sU'.
  Proof.
    intros Hc. induction U as [|[i x] r IH].
    - exists [], []. repeat split; reflexivity.
    - destruct IH as (s1 & s1' & Hu & Hw & E).
      destruct (bin_field_w i x c) as (sx & _ & Hf & Hfb).
      destruct (w_bwl_ok k (fbytes p k c i x) c) as (sg & Hs & Hbytes).
      exists ([sg] ++ s1), ((([Copy (hdrb p (ttype_of x) i)] ++ sx) ++ []) ++ s1'). split; [|split].
      + cbn [map fst snd]. change (w_unknown k (fbytes p k c i x :: map (fun q => fbytes p k c (fst q) (snd q)) r))
          with (w_bytes_without_len k (fbytes p k c i x) ;; w_unknown k (map (fun q => fbytes p k c (fst q) (snd q)) r)).
        eapply wseq_ok; eauto.
      + change (write_fields p k ((i, x) :: r)) with
          (w_field_begin p (ttype_of x) i ;; write_val p k x ;; w_field_end p ;; write_fields p k r).
        eapply wseq_ok; eauto.
      + assert (Esg : flat [sg] = fbytes p k c i x) by (unfold flat; cbn [map concat]; rewrite Hbytes, app_nil_r; reflexivity).
        rewrite !flat_app, Esg, E, Hfb, flat_copy, flat_nil, app_nil_r. reflexivity.
  Qed.
End BinTotal.

(* ---------- the emitted encoder on the decoded value = the runtime writer on reenc ---------- *)
Section Ret.
  Variable S : schema.
  Hypothesis Hwf : wf_schema S = true.
  Variable p : pk.
  Hypothesis Hbin : p <> PCompact.
  Variable k : bk.
  Variable c : wctx.
  Hypothesis Hc : w_pend c = None.

  Notation VK := (viewk S p k c).
  Notation fb := (fun q : Z * tval => fbytes p k c (fst q) (snd q)).

  (* same bytes *)
  Definition SAME (t : ty) (g : gval) (x' : tval) : Prop :=
    exists s s', enc_ty S p k t g c = Ok (s, c) /\ write_val p k x' c = Ok (s', c) /\ flat s = flat s'.

  Definition REL (v : tval) : Prop :=
    forall t g, no_retyped_variant S t v = true -> VK t v = Ok g -> SAME t g (reenc S t v).

  Lemma same_leaf v : leaf v = true -> REL v.
  Proof.
    intros Hl t g _ Hv. destruct (bin_write_total p Hbin k v c) as (s & Hw).
    assert (E : enc_ty S p k t g c = write_val p k v c /\ reenc S t v = v).
    { destruct v; try discriminate Hl; cbn [viewk] in Hv; split; try reflexivity;
        destruct (resolve S t) eqn:Er; try discriminate Hv;
        try (injection Hv as <-; cbn [enc_ty write_val]; rewrite Er; reflexivity).
      destruct (lookup S n) as [[]|] eqn:El; try discriminate Hv. injection Hv as <-. cbn [enc_ty write_val]. rewrite Er, El. reflexivity. }
    destruct E as [E1 E2]. rewrite E2. exists s, s. rewrite E1. auto.
  Qed.

  (* ----- containers ----- *)
  Lemma same_elems et l : Forall REL l -> walk_elems S (fun _ => true) false et l = true ->
    forall ys, viewk_elems S p k c et l = Ok ys ->
    exists s s', enc_elems S p k et ys c = Ok (s, c) /\ write_elems p k (reenc_elems S et l) c = Ok (s', c) /\
                 flat s = flat s' /\ length ys = length l /\ length (reenc_elems S et l) = length l.
  Proof.
    induction l as [|x r IH]; intros HF Hw ys Hv.
    - injection Hv as <-. exists [], []. repeat split; reflexivity.
    - inversion HF as [|? ? Hx Hr]; subst. rewrite walk_elems_cons in Hw. apply andb_prop in Hw as [Hw1 Hw2].
      rewrite viewk_elems_cons in Hv. apply bind_ok_inv in Hv as (y & Hy & Hv). apply bind_ok_inv in Hv as (ys' & Hys & Hv).
      injection Hv as <-.
      destruct (Hx et y Hw1 Hy) as (s1 & s1' & He1 & Hw1' & E1).
      destruct (IH Hr Hw2 ys' Hys) as (s2 & s2' & He2 & Hw2' & E2 & L1 & L2).
      exists (s1 ++ s2), (s1' ++ s2'). split; [|split; [|split; [|split]]].
      + rewrite enc_elems_cons. eapply wseq_ok; eauto.
      + cbn [reenc_elems]. change (write_elems p k (reenc S et x :: reenc_elems S et r)) with
          (write_val p k (reenc S et x) ;; write_elems p k (reenc_elems S et r)). eapply wseq_ok; eauto.
      + rewrite !flat_app, E1, E2. reflexivity.
      + cbn [length]. lia.
      + cbn [reenc_elems length]. lia.
  Qed.

  Lemma same_pairs kt vt l : Forall (fun q => REL (fst q) /\ REL (snd q)) l ->
    walk_pairs S (fun _ => true) false kt vt l = true ->
    forall ys, viewk_pairs S p k c kt vt l = Ok ys ->
    exists s s', enc_pairs S p k kt vt ys c = Ok (s, c) /\ write_pairs p k (reenc_pairs S kt vt l) c = Ok (s', c) /\
                 flat s = flat s' /\ length ys = length l /\ length (reenc_pairs S kt vt l) = length l.
  Proof.
    induction l as [|[a b] r IH]; intros HF Hw ys Hv.
    - injection Hv as <-. exists [], []. repeat split; reflexivity.
    - inversion HF as [|? ? [Ha Hb] Hr]; subst. cbn [fst snd] in *.
      rewrite walk_pairs_cons in Hw. apply andb_prop in Hw as [Hw Hw3]. apply andb_prop in Hw as [Hw1 Hw2].
      rewrite viewk_pairs_cons in Hv. apply bind_ok_inv in Hv as (a' & Hya & Hv). apply bind_ok_inv in Hv as (b' & Hyb & Hv).
      apply bind_ok_inv in Hv as (ys' & Hys & Hv). injection Hv as <-.
      destruct (Ha kt a' Hw1 Hya) as (s1 & s1' & He1 & Hw1' & E1).
      destruct (Hb vt b' Hw2 Hyb) as (s2 & s2' & He2 & Hw2' & E2).
      destruct (IH Hr Hw3 ys' Hys) as (s3 & s3' & He3 & Hw3' & E3 & L1 & L2).
      exists ((s1 ++ s2) ++ s3), ((s1' ++ s2') ++ s3'). split; [|split; [|split; [|split]]].
      + rewrite enc_pairs_cons. eapply wseq_ok; [eapply wseq_ok|]; eauto.
      + cbn [reenc_pairs]. change (write_pairs p k ((reenc S kt a, reenc S vt b) :: reenc_pairs S kt vt r)) with
          (write_val p k (reenc S kt a) ;; write_val p k (reenc S vt b) ;; write_pairs p k (reenc_pairs S kt vt r)).
        eapply wseq_ok; [eapply wseq_ok|]; eauto.
      + rewrite !flat_app, E1, E2, E3. reflexivity.
      + cbn [length]. lia.
      + cbn [reenc_pairs length]. lia.
  Qed.

  (* ----- struct fields: the variables of the two folds stay related ----- *)
  Definition OPT (f : field) (v : option gval) (tv : option tval) : Prop :=
    match v, tv with
    | Some y, Some x' => SAME (f_ty f) y x' /\ ttype_of x' = ttype_of_ty S (f_ty f)
    | None, None => True
    | _, _ => False
    end.

  Inductive INV : list field -> list (option gval) -> list (option tval) -> Prop :=
  | INV_nil : INV [] [] []
  | INV_cons f r v vs tv tvs : OPT f v tv -> INV r vs tvs -> INV (f :: r) (v :: vs) (tv :: tvs).

  Lemma INV_set dfs vars tvars : INV dfs vars tvars ->
    forall i f y x', nth_error dfs i = Some f -> OPT f (Some y) (Some x') ->
    INV dfs (set_nth i (Some y) vars) (set_nth i (Some x') tvars).
  Proof.
    induction 1 as [|f0 r v vs tv tvs Ho Hi IH]; intros i f y x' Hn Hopt; [destruct i; discriminate|].
    destruct i as [|i]; cbn [nth_error set_nth] in *.
    - injection Hn as ->. constructor; assumption.
    - constructor; [assumption|]. eapply IH; eauto.
  Qed.

  Lemma default_same f b d : field_ok S f = true -> f_dflt f = Some (b, d) ->
    SAME (f_ty f) d (to_tval S (f_ty f) d) /\ ttype_of (to_tval S (f_ty f) d) = ttype_of_ty S (f_ty f).
  Proof.
    intros Hok Hd. destruct (field_ok_inv _ _ Hok) as (_ & _ & _ & Ht). rewrite Hd in Ht.
    split; [|apply (to_tval_ttype S _ _ Ht)].
    destruct (bin_write_total p Hbin k (to_tval S (f_ty f) d) c) as (s & Hw).
    exists s, s. rewrite (enc_as_tval S Hwf p k d (f_ty f) Ht). auto.
  Qed.

  Lemma INV_init dfs : (forall f, In f dfs -> field_ok S f = true) -> INV dfs (map init_var dfs) (map (init_tvar S) dfs).
  Proof.
    induction dfs as [|f r IH]; intros Hok; [constructor|]. cbn [map]. constructor; [|apply IH; intros g Hg; apply Hok; right; exact Hg].
    unfold init_tvar, init_var. destruct (f_dflt f) as [[[|] d]|] eqn:Ed; cbn [option_map OPT]; auto.
    eapply default_same; [apply Hok; left; reflexivity|exact Ed].
  Qed.

  Lemma same_fields dfs keep fs : Forall (fun q => REL (snd q)) fs ->
    walk_fields S (fun _ => true) false dfs fs = true ->
    forall vars unk tvars U vars' unk', INV dfs vars tvars -> unk = map fb U ->
      viewk_fields S p k c dfs keep fs vars unk = Ok (vars', unk') ->
      INV dfs vars' (fst (reenc_fields S dfs keep fs tvars U)) /\ unk' = map fb (snd (reenc_fields S dfs keep fs tvars U)).
  Proof.
    induction fs as [|[id x] r IH]; intros HF Hw vars unk tvars U vars' unk' Hinv Hu Hv.
    - injection Hv as <- <-. cbn [reenc_fields fst snd]. auto.
    - inversion HF as [|? ? Hx Hr]; subst. cbn [snd] in Hx.
      rewrite walk_fields_cons in Hw. apply andb_prop in Hw as [Hw1 Hw2]. unfold walk_field in Hw1.
      rewrite viewk_fields_cons in Hv. rewrite reenc_fields_cons.
      destruct (match_field S dfs 0 (Some id) (ttype_of x)) as [[i fl]|] eqn:Em.
      + apply bind_ok_inv in Hv as (y & Hy & Hv).
        destruct (match_field_nth _ _ _ _ _ _ _ Em) as (j & Hj & Hnth & _ & _). cbn [Nat.add] in Hj. subst j.
        destruct (match_field_inv _ _ _ _ _ _ _ Em) as (_ & _ & Hft).
        eapply IH; [exact Hr|exact Hw2| |reflexivity|exact Hv].
        eapply INV_set; [exact Hinv|exact Hnth|]. cbn [OPT]. split; [apply Hx; assumption|].
        rewrite reenc_ttype. symmetry. exact Hft.
      + eapply IH; [exact Hr|exact Hw2|exact Hinv| |exact Hv].
        destruct keep; [rewrite map_app; reflexivity|reflexivity].
  Qed.

  Lemma same_finish DFS : nodup_ids (map f_id DFS) = true -> (forall f, In f DFS -> field_ok S f = true) ->
    forall dfs vars tvars, INV dfs vars tvars -> incl dfs DFS ->
    forall out, finish_fields dfs vars = Ok out ->
    exists s s', enc_fields S p k DFS out c = Ok (s, c) /\ write_fields p k (finish_tv S dfs tvars) c = Ok (s', c) /\
                 flat s = flat s'.
  Proof.
    intros Hnd Hok. induction 1 as [|f r v vs tv tvs Ho Hi IH]; intros Hincl out Hf.
    - injection Hf as <-. exists [], []. repeat split; reflexivity.
    - cbn [finish_fields] in Hf. apply bind_ok_inv in Hf as (rest & Hrest & Hf).
      destruct (IH (fun g Hg => Hincl g (or_intror Hg)) rest Hrest) as (s2 & s2' & He2 & Hw2 & E2).
      assert (Hin : In f DFS) by (apply Hincl; left; reflexivity).
      pose proof (find_field_nodup DFS f Hnd Hin) as Hff.
      destruct (field_ok_inv _ _ (Hok f Hin)) as (_ & _ & Hnv & _).
      assert (Emit : forall y x', SAME (f_ty f) y x' -> ttype_of x' = ttype_of_ty S (f_ty f) ->
                exists s s', enc_fields S p k DFS ((f_id f, y) :: rest) c = Ok (s, c) /\
                             write_fields p k ((f_id f, x') :: finish_tv S r tvs) c = Ok (s', c) /\ flat s = flat s').
      { intros y x' (s1 & s1' & He1 & Hw1 & E1) Hty.
        exists ((([Copy (hdrb p (ttype_of_ty S (f_ty f)) (f_id f))] ++ s1) ++ []) ++ s2),
               ((([Copy (hdrb p (ttype_of x') (f_id f))] ++ s1') ++ []) ++ s2'). split; [|split].
        - rewrite enc_fields_cons, Hff. unfold enc_field. rewrite Hnv.
          eapply wseq_ok; [eapply wseq_ok; [eapply wseq_ok; [apply bin_field_begin_w; exact Hbin|exact He1]|apply bin_field_end_w; exact Hbin]|exact He2].
        - change (write_fields p k ((f_id f, x') :: finish_tv S r tvs)) with
            (w_field_begin p (ttype_of x') (f_id f) ;; write_val p k x' ;; w_field_end p ;; write_fields p k (finish_tv S r tvs)).
          eapply wseq_ok; [eapply wseq_ok; [eapply wseq_ok; [apply bin_field_begin_w; exact Hbin|exact Hw1]|apply bin_field_end_w; exact Hbin]|exact Hw2].
        - rewrite Hty, !flat_app, E1, E2. reflexivity. }
      destruct v as [y|], tv as [x'|]; cbn [OPT] in Ho; try contradiction; cbn [finish_tv].
      + injection Hf as <-. destruct Ho as [Hs Ht]. exact (Emit y x' Hs Ht).
      + destruct (f_dflt f) as [[b d]|] eqn:Ed.
        * injection Hf as <-. destruct (default_same f b d (Hok f Hin) Ed) as [Hs Ht]. exact (Emit d _ Hs Ht).
        * destruct (f_req f); [discriminate|]. injection Hf as <-. exists s2, s2'. auto.
  Qed.

  (* ----- unions ----- *)
  Lemma union_known_same t n vs vok kp id vt y x :
    resolve S t = TyRef n -> lookup S n = Some (DUnion vs vok kp) ->
    find_variant vs id = Some vt -> is_void (resolve S vt) = false -> ttype_of x = ttype_of_ty S vt ->
    SAME vt y (reenc S vt x) -> SAME t (GUnion id y) (VStruct [(id, reenc S vt x)]).
  Proof.
    intros Er El Hf Hnv Hty (s1 & s1' & He1 & Hw1 & E1). unfold SAME. rewrite enc_ty_union, Er, El, Hf, Hnv.
    exists ((([] ++ (([Copy (hdrb p (ttype_of_ty S vt) id)] ++ s1) ++ [])) ++ [Copy [x00]]) ++ []),
           ((([] ++ ((([Copy (hdrb p (ttype_of (reenc S vt x)) id)] ++ s1') ++ []) ++ [])) ++ [Copy [x00]]) ++ []).
    split; [|split].
    - eapply wseq_ok; [eapply wseq_ok; [eapply wseq_ok; [apply bin_struct_begin_w; exact Hbin|]|apply bin_stop_w; exact Hbin]|apply bin_struct_end_w; exact Hbin].
      eapply wseq_ok; [eapply wseq_ok; [apply bin_field_begin_w; exact Hbin|exact He1]|apply bin_field_end_w; exact Hbin].
    - change (write_val p k (VStruct [(id, reenc S vt x)])) with
        (w_struct_begin p ;;
         (w_field_begin p (ttype_of (reenc S vt x)) id ;; write_val p k (reenc S vt x) ;; w_field_end p ;; wnop) ;;
         w_field_stop p ;; w_struct_end p).
      eapply wseq_ok; [eapply wseq_ok; [eapply wseq_ok; [apply bin_struct_begin_w; exact Hbin|]|apply bin_stop_w; exact Hbin]|apply bin_struct_end_w; exact Hbin].
      eapply wseq_ok; [eapply wseq_ok; [eapply wseq_ok; [apply bin_field_begin_w; exact Hbin|exact Hw1]|apply bin_field_end_w; exact Hbin]|reflexivity].
    - rewrite reenc_ttype, Hty, !flat_app, E1. cbn [flat map concat app]. rewrite !app_nil_r. reflexivity.
  Qed.

  Lemma union_void_same t n id0 t0 vs' kp :
    resolve S t = TyRef n -> lookup S n = Some (DUnion ((id0, t0) :: vs') true kp) ->
    SAME t (GUnion id0 GVoid) (VStruct []).
  Proof.
    intros Er El. unfold SAME. rewrite enc_ty_union, Er, El. cbn [find_variant]. rewrite Z.eqb_refl.
    assert (Hv : is_void (resolve S t0) = true).
    { pose proof (wf_lookup S Hwf _ _ El) as Hd. cbn [decl_ok] in Hd. apply andb_prop in Hd as [_ Hd].
      apply andb_prop in Hd as [Hd _]. apply andb_prop in Hd as [Hd _]. destruct (is_void (resolve S t0)); [reflexivity|discriminate]. }
    rewrite Hv.
    exists ((([] ++ []) ++ [Copy [x00]]) ++ []), ((([] ++ []) ++ [Copy [x00]]) ++ []). split; [|split; [|reflexivity]].
    - eapply wseq_ok; [eapply wseq_ok; [eapply wseq_ok; [apply bin_struct_begin_w; exact Hbin|reflexivity]|apply bin_stop_w; exact Hbin]|apply bin_struct_end_w; exact Hbin].
    - change (write_val p k (VStruct [])) with (w_struct_begin p ;; wnop ;; w_field_stop p ;; w_struct_end p).
      eapply wseq_ok; [eapply wseq_ok; [eapply wseq_ok; [apply bin_struct_begin_w; exact Hbin|reflexivity]|apply bin_stop_w; exact Hbin]|apply bin_struct_end_w; exact Hbin].
  Qed.

  Lemma vk_after vs r ret0 ret : ret0 <> UNone -> viewk_variantsk S p k c vs r ret0 = Ok ret -> r = [] /\ ret = ret0.
  Proof.
    intros Hne H. destruct r as [|[id x] r]; [injection H as <-; auto|].
    rewrite viewk_variantsk_cons in H. destruct (variant_by_id S vs id); destruct ret0; try discriminate; congruence.
  Qed.

  Lemma vp_after vs : forall r r0 ret, viewk_variants S p k c vs r (Some r0) = Ok ret -> ret = Some r0.
  Proof.
    induction r as [|[id x] r IH]; intros r0 ret H; [injection H as <-; reflexivity|].
    rewrite viewk_variants_cons in H. destruct (variant_by_id S vs id); [discriminate|eauto].
  Qed.

  Lemma same_variants vs fs : Forall (fun q => REL (snd q)) fs ->
    walk_variants S (fun _ => true) false vs fs = true ->
    forall ret, viewk_variants S p k c vs fs None = Ok ret ->
    match ret with
    | Some (id, y) => exists x vt, reenc_variants S vs fs = [(id, reenc S vt x)] /\ find_variant vs id = Some vt /\
                                   is_void (resolve S vt) = false /\ ttype_of x = ttype_of_ty S vt /\ SAME vt y (reenc S vt x)
    | None => reenc_variants S vs fs = []
    end.
  Proof.
    induction fs as [|[id x] r IH]; intros HF Hw ret Hv; [injection Hv as <-; reflexivity|].
    inversion HF as [|? ? Hx Hr]; subst. cbn [snd] in Hx.
    rewrite walk_variants_cons in Hw. apply andb_prop in Hw as [Hw1 Hw2].
    rewrite viewk_variants_cons in Hv. cbn [reenc_variants].
    destruct (variant_by_id S vs id) as [vt|] eqn:Ev; [|apply IH; auto].
    apply bind_ok_inv in Hv as (y & Hy & Hv). apply vp_after in Hv. subst ret.
    destruct (variant_typed S vs id x vt Hw1 Ev) as (Hty & Hf & Hnv).
    exists x, vt. repeat split; auto. apply Hx; [|exact Hy]. eapply variant_walk2; eauto.
  Qed.

  Lemma REL_struct fs : Forall (fun q => REL (snd q)) fs -> REL (VStruct fs).
  Proof.
    intros HF t g Hn Hv. unfold no_retyped_variant in Hn. rewrite walk_struct in Hn. rewrite viewk_struct in Hv. rewrite reenc_struct.
    destruct (resolve S t) eqn:Er; try discriminate Hv.
    destruct (lookup S n) as [[dfs kp ia|vs vok kp|?|?]|] eqn:El; try discriminate Hv.
    - (* struct *)
      destruct (wf_struct S Hwf _ _ _ _ El) as [Hnd Hok].
      apply bind_ok_inv in Hv as ([vars unk] & Hvf & Hv). apply bind_ok_inv in Hv as (out & Hfin & Hv). injection Hv as <-.
      cbn [fst snd] in *.
      destruct (same_fields dfs kp fs HF Hn (map init_var dfs) [] (map (init_tvar S) dfs) [] vars unk (INV_init dfs Hok) eq_refl Hvf)
        as [Hinv Hunk].
      cbv zeta. set (R := reenc_fields S dfs kp fs (map (init_tvar S) dfs) []) in *.
      destruct (same_finish dfs Hnd Hok dfs vars (fst R) Hinv (incl_refl _) out Hfin) as (sK & sK' & HeK & HwK & EK).
      destruct (write_unknown_same p Hbin k (snd R) c Hc) as (sU & sU' & HeU & HwU & EU).
      unfold SAME. rewrite enc_ty_struct, Er, El.
      exists ((((([] ++ sK) ++ sU) ++ [Copy [x00]]) ++ [])), ((([] ++ (sK' ++ sU')) ++ [Copy [x00]]) ++ []).
      split; [|split].
      + eapply wseq_ok; [eapply wseq_ok; [eapply wseq_ok; [eapply wseq_ok; [apply bin_struct_begin_w; exact Hbin|exact HeK]|rewrite Hunk; exact HeU]
                                         |apply bin_stop_w; exact Hbin]|apply bin_struct_end_w; exact Hbin].
      + change (write_val p k (VStruct (finish_tv S dfs (fst R) ++ snd R))) with
          (w_struct_begin p ;; write_fields p k (finish_tv S dfs (fst R) ++ snd R) ;; w_field_stop p ;; w_struct_end p).
        eapply wseq_ok; [eapply wseq_ok; [eapply wseq_ok; [apply bin_struct_begin_w; exact Hbin|apply write_fields_app; eauto]
                                         |apply bin_stop_w; exact Hbin]|apply bin_struct_end_w; exact Hbin].
      + rewrite !flat_app, EK, EU. cbn [flat map concat app]. rewrite !app_nil_r. reflexivity.
    - (* union *)
      destruct kp.
      + apply bind_ok_inv in Hv as (ret & Hvf & Hv). destruct fs as [|[id x] r].
        * cbn [viewk_variantsk] in Hvf. injection Hvf as <-. unfold union_resultk in Hv.
          destruct vok; [|discriminate]. destruct vs as [|[id0 t0] vs']; [discriminate|]. injection Hv as <-.
          eapply union_void_same; eauto.
        * inversion HF as [|? ? Hx Hr]; subst. cbn [snd] in Hx.
          rewrite walk_variants_cons in Hn. apply andb_prop in Hn as [Hn1 _].
          rewrite viewk_variantsk_cons in Hvf. destruct (variant_by_id S vs id) as [vt|] eqn:Ev.
          -- apply bind_ok_inv in Hvf as (y & Hy & Hvf). apply vk_after in Hvf as [-> ->]; [|discriminate].
             unfold union_resultk in Hv. injection Hv as <-.
             destruct (variant_typed S vs id x vt Hn1 Ev) as (Hty & Hf & Hnv).
             eapply union_known_same; eauto. apply Hx; [|exact Hy]. eapply variant_walk2; eauto.
          -- apply vk_after in Hvf as [-> ->]; [|discriminate]. unfold union_resultk in Hv. injection Hv as <-.
             destruct (bin_field_w p Hbin k id x c) as (sx & Hwx & Hf & Hfb).
             destruct (w_bwl_ok k (fbytes p k c id x) c) as (sg & Hs & Hbytes).
             unfold SAME. cbn [enc_ty]. rewrite Er, El.
             exists ((([] ++ [sg]) ++ [Copy [x00]]) ++ []),
                    ((([] ++ (((([Copy (hdrb p (ttype_of x) id)] ++ sx) ++ []) ++ []))) ++ [Copy [x00]]) ++ []).
             split; [|split].
             ++ eapply wseq_ok; [eapply wseq_ok; [eapply wseq_ok; [apply bin_struct_begin_w; exact Hbin|exact Hs]|apply bin_stop_w; exact Hbin]
                                |apply bin_struct_end_w; exact Hbin].
             ++ change (write_val p k (VStruct [(id, x)])) with
                  (w_struct_begin p ;; (w_field_begin p (ttype_of x) id ;; write_val p k x ;; w_field_end p ;; wnop) ;;
                   w_field_stop p ;; w_struct_end p).
                eapply wseq_ok; [eapply wseq_ok; [eapply wseq_ok; [apply bin_struct_begin_w; exact Hbin|]|apply bin_stop_w; exact Hbin]
                                |apply bin_struct_end_w; exact Hbin].
                eapply wseq_ok; [exact Hf|reflexivity].
             ++ rewrite !flat_app, flat_copy. unfold flat at 2. cbn [map concat]. rewrite Hbytes, Hfb. cbn [flat map concat app].
                rewrite !app_nil_r. reflexivity.
      + apply bind_ok_inv in Hv as (ret & Hvf & Hv).
        pose proof (same_variants vs fs HF Hn ret Hvf) as Hs. unfold union_result in Hv.
        destruct ret as [[id y]|].
        * injection Hv as <-. destruct Hs as (x & vt & -> & Hf & Hnv & Hty & Hsame). eapply union_known_same; eauto.
        * rewrite Hs. destruct vok; [|discriminate]. destruct vs as [|[id0 t0] vs']; [discriminate|]. injection Hv as <-.
          eapply union_void_same; eauto.
  Qed.

  Lemma REL_coll (isl : bool) a l : Forall REL l -> REL (if isl then VList a l else VSet a l).
  Proof.
    intros HF t g Hn Hv. unfold no_retyped_variant in Hn.
    destruct isl.
    - rewrite walk_list in Hn. rewrite viewk_list in Hv. rewrite reenc_list.
      destruct (resolve S t) eqn:Er; try discriminate Hv. apply andb_prop in Hn as [_ Hn].
      apply bind_ok_inv in Hv as (ys & Hys & Hv). injection Hv as <-.
      destruct (same_elems _ _ HF Hn ys Hys) as (s2 & s2' & He2 & Hw2 & E2 & L1 & L2).
      destruct (bin_coll_w p Hbin (ttype_of_ty S t0) (Z.of_nat (length l)) c) as (s1 & Hw1).
      unfold SAME. rewrite enc_ty_list, Er. exists (s1 ++ s2), (s1 ++ s2'). split; [|split].
      + rewrite L1. eapply wseq_ok; eauto.
      + cbn [write_val]. rewrite L2. eapply wseq_ok; eauto.
      + rewrite !flat_app, E2. reflexivity.
    - rewrite walk_set in Hn. rewrite viewk_set in Hv. rewrite reenc_set.
      destruct (resolve S t) eqn:Er; try discriminate Hv. apply andb_prop in Hn as [_ Hn].
      apply bind_ok_inv in Hv as (ys & Hys & Hv). injection Hv as <-.
      destruct (same_elems _ _ HF Hn ys Hys) as (s2 & s2' & He2 & Hw2 & E2 & L1 & L2).
      destruct (bin_coll_w p Hbin (ttype_of_ty S t0) (Z.of_nat (length l)) c) as (s1 & Hw1).
      unfold SAME. rewrite enc_ty_set, Er. exists (s1 ++ s2), (s1 ++ s2'). split; [|split].
      + rewrite L1. eapply wseq_ok; eauto.
      + cbn [write_val]. rewrite L2. eapply wseq_ok; eauto.
      + rewrite !flat_app, E2. reflexivity.
  Qed.

  Lemma REL_map ka va l : Forall (fun q => REL (fst q) /\ REL (snd q)) l -> REL (VMap ka va l).
  Proof.
    intros HF t g Hn Hv. unfold no_retyped_variant in Hn. rewrite walk_map in Hn. rewrite viewk_map in Hv. rewrite reenc_map.
    destruct (resolve S t) eqn:Er; try discriminate Hv. apply andb_prop in Hn as [_ Hn].
    apply bind_ok_inv in Hv as (ys & Hys & Hv). injection Hv as <-.
    destruct (same_pairs _ _ _ HF Hn ys Hys) as (s2 & s2' & He2 & Hw2 & E2 & L1 & L2).
    destruct (bin_map_w p Hbin (ttype_of_ty S t0_1) (ttype_of_ty S t0_2) (Z.of_nat (length l)) c) as (s1 & Hw1).
    unfold SAME. rewrite enc_ty_map, Er. exists (s1 ++ s2), (s1 ++ s2'). split; [|split].
    - rewrite L1. eapply wseq_ok; eauto.
    - cbn [write_val]. rewrite L2. eapply wseq_ok; eauto.
    - rewrite !flat_app, E2. reflexivity.
  Qed.

  Theorem REL_all v : REL v.
  Proof.
    induction v using tval_ind'; try (apply same_leaf; reflexivity).
    - apply REL_struct; assumption.
    - apply (REL_coll true); assumption.
    - apply (REL_coll false); assumption.
    - apply REL_map; assumption.
  Qed.
End Ret.

(* under the binary protocols the wire forgets nothing the value tree carries *)
Lemma canon_bin p v : p <> PCompact -> canon p v = v.
Proof.
  intros Hb. induction v using tval_ind'; try reflexivity.
  - cbn [canon]. f_equal. induction fs as [|[i x] r IHr]; [reflexivity|]. inversion H as [|? ? Hx Hr]; subst.
    cbn [map snd] in *. rewrite Hx, IHr; auto.
  - cbn [canon]. f_equal. induction l as [|x r IHr]; [reflexivity|]. inversion H as [|? ? Hx Hr]; subst.
    cbn [map]. rewrite Hx, IHr; auto.
  - cbn [canon]. f_equal. induction l as [|x r IHr]; [reflexivity|]. inversion H as [|? ? Hx Hr]; subst.
    cbn [map]. rewrite Hx, IHr; auto.
  - cbn [canon]. assert (E : map (fun '(a, b) => (canon p a, canon p b)) l = l).
    { induction l as [|[a b] r IHr]; [reflexivity|]. inversion H as [|? ? [Ha Hb'] Hr]; subst. cbn [fst snd] in *.
      cbn [map]. rewrite Ha, Hb', IHr; auto. }
    rewrite E. destruct p; try congruence; reflexivity.
Qed.

(* ---------- C13_retain ---------- *)
Theorem keep_retain : forall S p k c T tv g,
  wf_schema S = true -> p <> PCompact -> w_pend c = None ->
  no_retyped_variant S T tv = true ->
  viewk S p k c T tv = Ok g -> wt (reenc S T tv) = true ->
  exists ss, enc_ty S p k T g c = Ok (ss, c) /\
    forall fuel r rcx, (vsize (reenc S T tv) <= fuel)%nat -> idle rcx ->
      read_val p fuel (ttype_of tv) (mkS (flat ss ++ r) rcx) = Ok (reenc S T tv, mkS r rcx).
Proof.
  intros S p k c T tv g Hwf Hbin Hc Hn Hv Hwt.
  destruct (REL_all S Hwf p Hbin k c Hc tv T g Hn Hv) as (s & s' & He & Hw & E).
  exists s. split; [exact He|]. intros fuel r rcx Hf Hi.
  destruct (roundtrip_val p k _ Hwt c Hc) as (s'' & Hw'' & _ & Hr). rewrite Hw in Hw''. injection Hw'' as <-.
  rewrite E. pose proof (Hr fuel r rcx Hf Hi) as Hr'. rewrite (reenc_ttype S T tv), (canon_bin p _ Hbin) in Hr'. exact Hr'.
Qed.

(* the ignored fields of a keeping struct are in the re-read tree exactly as they were *)
Lemma reenc_fields_unknown S dfs fs : forall tvars U id x,
  In (id, x) fs -> match_field S dfs 0 (Some id) (ttype_of x) = None ->
  In (id, x) (snd (reenc_fields S dfs true fs tvars U)).
Proof.
  assert (Mono : forall fs tvars U q, In q U -> In q (snd (reenc_fields S dfs true fs tvars U))).
  { induction fs0 as [|[i y] r IH]; intros tvars U q Hq; [exact Hq|]. rewrite reenc_fields_cons.
    destruct (match_field S dfs 0 (Some i) (ttype_of y)) as [[j fl]|]; [apply IH; exact Hq|].
    apply IH. apply in_or_app. left. exact Hq. }
  induction fs as [|[i y] r IH]; intros tvars U id x Hin Hm; [destruct Hin|]. rewrite reenc_fields_cons.
  destruct Hin as [E|Hin].
  - injection E as -> ->. rewrite Hm. apply Mono. apply in_or_app. right. left. reflexivity.
  - destruct (match_field S dfs 0 (Some i) (ttype_of y)) as [[j fl]|]; apply IH; assumption.
Qed.

Theorem keep_retain_unknown : forall S T n dfs ia fs id x,
  resolve S T = TyRef n -> lookup S n = Some (DStruct dfs true ia) ->
  In (id, x) fs -> match_field S dfs 0 (Some id) (ttype_of x) = None ->
  exists fs', reenc S T (VStruct fs) = VStruct fs' /\ In (id, x) fs'.
Proof.
  intros S T n dfs ia fs id x Er El Hin Hm. rewrite reenc_struct, Er, El. cbv zeta. eexists. split; [reflexivity|].
  apply in_or_app. right. apply reenc_fields_unknown; assumption.
Qed.
