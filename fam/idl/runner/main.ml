(* Model runner of family idl: one case per input line, one result per output line.
   case line   :=  <entry> <hex of the text | ->
   result line :=  OK <remaining bytes> <canonical AST> | ERR E|F <remaining bytes at the error> <ErrorKind>
                |  PANIC <site> | FUEL loop|depth | BADCASE <why>
   The canonical AST format is documented in fam/idl/harness/src/canon.rs. Hand-written, trusted glue. *)
open Model
(* the extracted model defines Coq's [string]; give the name back to OCaml's *)
type string = Stdlib.String.t

(* byte: 256 constant constructors in order X00..Xff -> immediate ints 0..255 *)
let byte_of_int (i : int) : byte = Obj.magic (i land 255)
let int_of_byte (b : byte) : int = (Obj.magic b : int)

let rec pos_to_int = function XH -> 1 | XO p -> 2 * pos_to_int p | XI p -> 2 * pos_to_int p + 1
let n_to_int = function N0 -> 0 | Npos p -> pos_to_int p

let () =
  (* self-test of the representation trick against the extracted Byte.to_N *)
  List.iter (fun i -> if n_to_int (bn (byte_of_int i)) <> i then failwith "byte representation self-test failed")
    [0; 1; 39; 65; 127; 128; 254; 255]

let rec pos_to_i64 = function
  | XH -> 1L
  | XO p -> Int64.mul 2L (pos_to_i64 p)
  | XI p -> Int64.add (Int64.mul 2L (pos_to_i64 p)) 1L
let string_of_z = function
  | Z0 -> "0"
  | Zpos p -> Int64.to_string (pos_to_i64 p)
  | Zneg p -> Int64.to_string (Int64.neg (pos_to_i64 p))

let rec nat_of_int (i : int) : nat = if i <= 0 then O else S (nat_of_int (i - 1))

let hexval c =
  match c with
  | '0'..'9' -> Char.code c - 48
  | 'a'..'f' -> Char.code c - 87
  | 'A'..'F' -> Char.code c - 55
  | _ -> failwith "bad hex"

let bytes_of_hex (s : string) : byte list =
  if s = "-" then [] else begin
    let n = String.length s in
    if n land 1 = 1 then failwith "odd hex";
    let rec go i acc = if i < 0 then acc else go (i - 2) (byte_of_int (hexval s.[i] * 16 + hexval s.[i + 1]) :: acc) in
    go (n - 2) []
  end

(* ---- canonical rendering ---- *)
let raw (b : Buffer.t) (l : byte list) = List.iter (fun c -> Buffer.add_char b (Char.chr (int_of_byte c))) l
let lit (b : Buffer.t) (l : byte list) =
  Buffer.add_char b '"';
  List.iter (fun c ->
      let c = int_of_byte c in
      if c >= 0x21 && c <= 0x7e && c <> 0x22 && c <> 0x5c then Buffer.add_char b (Char.chr c)
      else Buffer.add_string b (Printf.sprintf "\\%02x" c)) l;
  Buffer.add_char b '"'
let sp b = Buffer.add_char b ' '
let str b s = Buffer.add_string b s
let lst b f xs =
  Buffer.add_char b '(';
  List.iteri (fun i x -> if i > 0 then sp b; f b x) xs;
  Buffer.add_char b ')'
let optn b f = function None -> Buffer.add_char b '-' | Some x -> f b x
let path b (p : path) = List.iteri (fun i s -> if i > 0 then Buffer.add_char b '.'; raw b s) p
let anns b (a : annotations) =
  Buffer.add_char b '[';
  List.iteri (fun i x -> if i > 0 then sp b; raw b x.a_key; Buffer.add_char b '='; lit b x.a_value) a;
  Buffer.add_char b ']'
let rec type_c b (MkType (t, a)) = str b "(type "; ty_c b t; sp b; anns b a; str b ")"
and ty_c b = function
  | TString -> str b "string" | TVoid -> str b "void" | TByte -> str b "byte" | TBool -> str b "bool"
  | TBinary -> str b "binary" | TI8 -> str b "i8" | TI16 -> str b "i16" | TI32 -> str b "i32"
  | TI64 -> str b "i64" | TDouble -> str b "double" | TUuid -> str b "uuid"
  | TList (v, c) -> str b "(list "; type_c b v; sp b; optn b lit c; str b ")"
  | TSet (v, c) -> str b "(set "; type_c b v; sp b; optn b lit c; str b ")"
  | TMap (k, v, c) -> str b "(map "; type_c b k; sp b; type_c b v; sp b; optn b lit c; str b ")"
  | TPath p -> str b "(path "; path b p; str b ")"
let rec cv_c b = function
  | CBool true -> str b "(bool true)"
  | CBool false -> str b "(bool false)"
  | CPath p -> str b "(path "; path b p; str b ")"
  | CString l -> str b "(str "; lit b l; str b ")"
  | CInt z -> str b "(int "; str b (string_of_z z); str b ")"
  | CDouble t -> str b "(double "; lit b t; str b ")"
  | CList l -> str b "(list"; List.iter (fun x -> sp b; cv_c b x) l; str b ")"
  | CMap l -> str b "(map"; List.iter (fun (k, v) -> str b " ("; cv_c b k; sp b; cv_c b v; str b ")") l; str b ")"
let attr_c b = function ARequired -> str b "required" | AOptional -> str b "optional" | ADefault -> str b "default"
let zc b z = str b (string_of_z z)
let field_c b (f : field) =
  str b "(field "; zc b f.f_id; sp b; attr_c b f.f_attribute; sp b; type_c b f.f_ty; sp b; raw b f.f_name; sp b;
  optn b cv_c f.f_default; sp b; anns b f.f_annotations; str b ")"
let sl_c b (s : structLike) = raw b s.s_name; sp b; lst b field_c s.s_fields; sp b; anns b s.s_annotations
let ev_c b (e : enumValue) =
  str b "(ev "; raw b e.ev_name; sp b; optn b zc e.ev_value; sp b; anns b e.ev_annotations; str b ")"
let enum_c b (e : enum) = str b "(enum "; raw b e.e_name; sp b; lst b ev_c e.e_values; sp b; anns b e.e_annotations; str b ")"
let fn_c b (f : function0) =
  str b "(fn "; raw b f.fn_name; str b (if f.fn_oneway then " oneway " else " twoway "); type_c b f.fn_result_type; sp b;
  lst b field_c f.fn_arguments; sp b; lst b field_c f.fn_throws; sp b; anns b f.fn_annotations; str b ")"
let service_c b (s : service) =
  str b "(service "; raw b s.sv_name; sp b; optn b path s.sv_extends; sp b; lst b fn_c s.sv_functions; sp b;
  anns b s.sv_annotations; str b ")"
let ns_c b (n : namespace) =
  str b "(namespace "; raw b n.ns_scope; sp b; path b n.ns_name; sp b; optn b anns n.ns_annotations; str b ")"
let typedef_c b (t : typedef) = str b "(typedef "; type_c b t.td_type; sp b; raw b t.td_alias; sp b; anns b t.td_annotations; str b ")"
let const_c b (c : constant) =
  str b "(const "; raw b c.c_name; sp b; type_c b c.c_type; sp b; cv_c b c.c_value; sp b; anns b c.c_annotations; str b ")"
let kw_sl kw b s = str b ("(" ^ kw ^ " "); sl_c b s; str b ")"
let include_c b l = str b "(include "; lit b l; str b ")"
let cpp_include_c b l = str b "(cpp_include "; lit b l; str b ")"
let item_c b = function
  | IInclude l -> include_c b l
  | ICppInclude l -> cpp_include_c b l
  | INamespace n -> ns_c b n
  | ITypedef t -> typedef_c b t
  | IConstant c -> const_c b c
  | IEnum e -> enum_c b e
  | IStruct s -> kw_sl "struct" b s
  | IUnion s -> kw_sl "union" b s
  | IException s -> kw_sl "exception" b s
  | IService s -> service_c b s
let file_c b (f : file) =
  str b "(file "; optn b path f.file_package; List.iter (fun it -> sp b; item_c b it) f.file_items; str b ")"

let kind_s = function
  | KTag -> "Tag" | KMapRes -> "MapRes" | KAlt -> "Alt" | KSeparatedList -> "SeparatedList" | KMany0 -> "Many0"
  | KMany1 -> "Many1" | KManyTill -> "ManyTill" | KMany0Count -> "Many0Count" | KTakeUntil -> "TakeUntil"
  | KDigit -> "Digit" | KHexDigit -> "HexDigit" | KMultiSpace -> "MultiSpace" | KEof -> "Eof" | KOneOf -> "OneOf"
  | KNoneOf -> "NoneOf" | KEscaped -> "Escaped" | KNot -> "Not" | KPermutation -> "Permutation"
  | KSatisfy -> "Satisfy" | KFail -> "Fail"

let show (f : Buffer.t -> 'a -> unit) (r : 'a pres) : string =
  match r with
  | POk (rest, v) ->
    let b = Buffer.create 256 in
    f b v;
    Printf.sprintf "OK %d %s" (List.length rest) (Buffer.contents b)
  | PErr (at, k) -> Printf.sprintf "ERR E %d %s" (List.length at) (kind_s k)
  | PFail (at, k) -> Printf.sprintf "ERR F %d %s" (List.length at) (kind_s k)
  | PPanic s -> "PANIC " ^ (match s with SiteUnwrap -> "unwrap" | SiteNeg -> "negate" | SiteSlice -> "slice")
  | PFuel FLoop -> "FUEL loop"
  | PFuel FDepth -> "FUEL depth"

(* ---- reader of serialized concrete syntax trees (printer tie of C15; format: the cst_ functions of pv/idlgen.py) ---- *)
let hex_of_bytes (l : byte list) : string =
  if l = [] then "-" else String.concat "" (List.map (fun b -> Printf.sprintf "%02x" (int_of_byte b)) l)
let string_of_bytes (l : byte list) : string =
  String.init (List.length l) (fun i -> Char.chr (int_of_byte (List.nth l i)))

(* token stream of the serialized tree *)
let q : string list ref = ref []
let next () = match !q with [] -> failwith "cst: eof" | t :: r -> q := r; t
let payload t = bytes_of_hex (String.sub t 1 (String.length t - 1))
let count t = int_of_string (String.sub t 1 (String.length t - 1))
let rec times n f = if n <= 0 then [] else let x = f () in x :: times (n - 1) f
let expect c what = let t = next () in if t = "" || t.[0] <> c then failwith ("cst: " ^ what ^ " at " ^ t); t
let atom () = let t = next () in
  match t.[0] with
  | 'w' -> BWs (payload t) | 'l' -> BLine (payload t) | 'h' -> BHash (payload t) | 'k' -> BBlock (payload t)
  | _ -> failwith "cst: atom"
let blank () = let t = expect 'b' "blank" in times (count t) atom
let r_lit () = let t = next () in
  match t.[0] with
  | 'q' -> { l_dq = false; l_body = payload t } | 'Q' -> { l_dq = true; l_body = payload t }
  | _ -> failwith "cst: lit"
let sep () = match next () with
  | "s0" -> SepNone | "s," -> let b = blank () in SepSome (false, b) | "s;" -> let b = blank () in SepSome (true, b)
  | _ -> failwith "cst: sep"
let ident () = payload (expect 'i' "ident")
let ann () =
  let b1 = blank () in let key = ident () in let b2 = blank () in let b3 = blank () in let l = r_lit () in
  let b4 = blank () in let s = sep () in
  { ca_b1 = b1; ca_key = key; ca_b2 = b2; ca_b3 = b3; ca_lit = l; ca_b4 = b4; ca_sep = s }
let anns_list () = let n = count (expect 'n' "annotation count") in times n ann
let oanns () = match next () with "N" -> None | "A" -> Some (anns_list ()) | _ -> failwith "cst: oanns"
let anns2 () = match next () with
  | "N" -> None | "A" -> let l = anns_list () in let b = blank () in Some (l, b) | _ -> failwith "cst: anns2"
let tail () = let b = blank () in let a = oanns () in let s = sep () in { t_b = b; t_anns = a; t_sep = s }
let cpp () = match next () with
  | "c0" -> None
  | "c1" -> let b1 = blank () in let b2 = blank () in let l = r_lit () in Some { cc_b1 = b1; cc_b2 = b2; cc_lit = l }
  | _ -> failwith "cst: cpp"
let base = function
  | "string" -> BString | "void" -> BVoid | "byte" -> BByte | "bool" -> BBool | "binary" -> BBinary | "i8" -> BI8
  | "i16" -> BI16 | "i32" -> BI32 | "i64" -> BI64 | "double" -> BDouble | "uuid" -> BUuid | _ -> failwith "cst: base"
let cpath () =
  let h = ident () in let n = count (expect 'p' "path count") in
  let tl = times n (fun () -> let b1 = blank () in let b2 = blank () in let s = ident () in ((b1, b2), s)) in
  { cp_head = h; cp_tail = tl }
let rec ty () = match next () with
  | "base" -> CTBase (base (next ()))
  | "list" -> let b1 = blank () in let b2 = blank () in let t = typ () in let b3 = blank () in let c = cpp () in
    CTList (b1, b2, t, b3, c)
  | "set" -> let c = cpp () in let b1 = blank () in let b2 = blank () in let t = typ () in let b3 = blank () in
    CTSet (c, b1, b2, t, b3)
  | "map" -> let c = cpp () in let b1 = blank () in let b2 = blank () in let k = typ () in let b3 = blank () in
    let semi = (match next () with "," -> false | ";" -> true | _ -> failwith "cst: mapsep") in
    let b4 = blank () in let v = typ () in let b5 = blank () in
    CTMap (c, b1, b2, k, b3, semi, b4, v, b5)
  | "path" -> CTPath (cpath ())
  | _ -> failwith "cst: ty"
and typ () =
  (match next () with "T" -> () | _ -> failwith "cst: T");
  let t = ty () in
  match next () with
  | "N" -> CType (t, None)
  | "A" -> let b = blank () in let l = anns_list () in CType (t, Some (b, l))
  | _ -> failwith "cst: annopt"
let cint () =
  (match next () with "I" | "CI" -> () | _ -> failwith "cst: int");
  let m = int_of_string (next ()) in
  let hex = (match next () with "h" -> true | "d" -> false | _ -> failwith "cst: radix") in
  let d = ident () in
  { ci_minus = nat_of_int m; ci_hex = hex; ci_digits = d }
let cexp () = let u = (match next () with "E" -> true | "e" -> false | _ -> failwith "cst: exp") in
  let i = cint () in { ce_upper = u; ce_int = i }
let oexp () = match next () with "x0" -> None | "x1" -> Some (cexp ()) | _ -> failwith "cst: oexp"
let cdbl () =
  let m = next () = "1" in let p = next () = "1" in
  let body = (match next () with
    | "A" -> let ip = ident () in let fp = ident () in let e = oexp () in DBodyA (ip, fp, e)
    | "B" -> let fp = ident () in let e = oexp () in DBodyB (fp, e)
    | "C" -> let ip = ident () in let e = cexp () in DBodyC (ip, e)
    | _ -> failwith "cst: dbody") in
  { cd_minus = m; cd_plus = p; cd_body = body }
let rec cconst () = match next () with
  | "CL" -> CCLit (r_lit ())
  | "CB1" -> CCBool true
  | "CB0" -> CCBool false
  | "CP" -> CCPath (cpath ())
  | "CD" -> CCDbl (cdbl ())
  | "CI" -> q := "I" :: !q; CCInt (cint ())
  | "CLIST" -> let b0 = blank () in let n = count (expect 'm' "element count") in
    let rec els k = if k <= 0 then CLNil else
        let v = cconst () in let b = blank () in let s = sep () in let r = els (k - 1) in CLCons (v, b, s, r) in
    let l = els n in CCList (b0, l)
  | "CMAP" -> let b0 = blank () in let n = count (expect 'm' "element count") in
    let rec els k = if k <= 0 then CMNil else
        let key = cconst () in let b1 = blank () in let b2 = blank () in let v = cconst () in let b3 = blank () in
        let s = sep () in let r = els (k - 1) in CMCons (key, b1, b2, v, b3, s, r) in
    let l = els n in CCMap (b0, l)
  | t -> failwith ("cst: const " ^ t)
let cfield () =
  ignore (expect 'F' "field");
  let id = ident () in let b1 = blank () in let b2 = blank () in
  let attr = (match next () with
    | "a0" -> None | "ar" -> let b = blank () in Some (true, b) | "ao" -> let b = blank () in Some (false, b)
    | _ -> failwith "cst: attr") in
  let t = typ () in let b3 = blank () in let name = ident () in let b4 = blank () in
  let d = (match next () with
    | "d0" -> None | "d1" -> let b5 = blank () in let v = cconst () in let b6 = blank () in Some ((b5, v), b6)
    | _ -> failwith "cst: default") in
  let a = anns2 () in let s = sep () in
  { cf_id = id; cf_b1 = b1; cf_b2 = b2; cf_attr = attr; cf_type = t; cf_b3 = b3; cf_name = name; cf_b4 = b4;
    cf_default = d; cf_anns = a; cf_sep = s }
let cfields () = let n = count (expect 'f' "field count") in times n cfield
let cstruct () =
  let name = ident () in let b1 = blank () in let b0 = blank () in let fs = cfields () in let t = tail () in
  { cs_name = name; cs_b1 = b1; cs_b0 = b0; cs_fields = fs; cs_tail = t }
let cenumval () =
  let name = ident () in let b1 = blank () in
  let v = (match next () with
    | "v0" -> None | "v1" -> let b2 = blank () in let i = cint () in let b3 = blank () in Some ((b2, i), b3)
    | _ -> failwith "cst: enum value") in
  let a = oanns () in let s = sep () in let b4 = blank () in
  { ev_cname = name; ev_b1 = b1; ev_val = v; ev_canns = a; ev_sep = s; ev_b4 = b4 }
let cenum () =
  let b1 = blank () in let name = ident () in let b2 = blank () in let b0 = blank () in
  let n = count (expect 'e' "enum value count") in let vs = times n cenumval in
  let b3 = blank () in let a = oanns () in
  { ce_b1 = b1; ce_name = name; ce_b2 = b2; ce_b0 = b0; ce_vals = vs; ce_b3 = b3; ce_anns = a }
let cfunction () =
  let ow = (match next () with "o0" -> None | "o1" -> Some (blank ()) | _ -> failwith "cst: oneway") in
  let t = typ () in let b1 = blank () in let name = ident () in let b2 = blank () in let b0 = blank () in
  let args = cfields () in let b3 = blank () in
  let th = (match next () with
    | "t0" -> None
    | "t1" -> let t1 = blank () in let t0 = blank () in let fs = cfields () in let t2 = blank () in
      Some { th_b1 = t1; th_b0 = t0; th_fields = fs; th_b2 = t2 }
    | _ -> failwith "cst: throws") in
  let a = oanns () in let s = sep () in
  { fn_coneway = ow; fn_type = t; fn_b1 = b1; fn_cname = name; fn_b2 = b2; fn_b0 = b0; fn_args = args; fn_b3 = b3;
    fn_cthrows = th; fn_canns = a; fn_sep = s }
let cservice () =
  let b1 = blank () in let name = ident () in
  let ext = (match next () with
    | "x0" -> None | "x1" -> let e1 = blank () in let e2 = blank () in let p = cpath () in Some ((e1, e2), p)
    | _ -> failwith "cst: extends") in
  let b2 = blank () in let n = count (expect 'g' "function count") in
  let fns = times n (fun () -> let b = blank () in let f = cfunction () in (b, f)) in
  let b3 = blank () in let t = tail () in
  { sv_b1 = b1; sv_cname = name; sv_cextends = ext; sv_b2 = b2; sv_fns = fns; sv_b3 = b3; sv_tail = t }
let cnamespace () =
  let b1 = blank () in let sc = ident () in let b2 = blank () in let p = cpath () in let b3 = blank () in
  let a = anns2 () in let s = sep () in
  { ns_b1 = b1; ns_cscope = sc; ns_b2 = b2; ns_path = p; ns_b3 = b3; ns_canns = a; ns_sep = s }
let citem () = match next () with
  | "include" -> let b = blank () in let l = r_lit () in let s = sep () in CIInclude (b, l, s)
  | "cpp_include" -> let b = blank () in let l = r_lit () in let s = sep () in CICppInclude (b, l, s)
  | "namespace" -> CINamespace (cnamespace ())
  | "typedef" -> let b1 = blank () in let t = typ () in let b2 = blank () in let a = ident () in let tl = tail () in
    CITypedef { ctd_b1 = b1; ctd_type = t; ctd_b2 = b2; ctd_alias = a; ctd_tail = tl }
  | "const" -> let b1 = blank () in let t = typ () in let b2 = blank () in let name = ident () in let b3 = blank () in
    let b4 = blank () in let v = cconst () in let tl = tail () in
    CIConst { ck_b1 = b1; ck_type = t; ck_b2 = b2; ck_name = name; ck_b3 = b3; ck_b4 = b4; ck_val = v; ck_tail = tl }
  | "enum" -> CIEnum (cenum ())
  | "struct" -> let b = blank () in CIStruct (SKStruct, b, cstruct ())
  | "union" -> let b = blank () in CIStruct (SKUnion, b, cstruct ())
  | "exception" -> let b = blank () in CIStruct (SKException, b, cstruct ())
  | "service" -> CIService (cservice ())
  | t -> failwith ("cst: item " ^ t)
let cfile () =
  let b0 = blank () in let n = count (expect 'm' "item count") in
  let items = times n (fun () -> let it = citem () in let b = blank () in (it, b)) in
  { fl_b0 = b0; fl_items = items }

let with_tokens (text : byte list) (f : unit -> 'a) : 'a =
  q := List.filter (fun s -> s <> "") (String.split_on_char ' ' (string_of_bytes text));
  let r = f () in
  if !q <> [] then failwith "cst: trailing tokens"; r

let run_case (entry : string) (text : byte list) : string =
  let n = S (nat_of_int (List.length text)) in
  let raw_c b l = lit b l in
  let unit_c b () = str b "()" in
  match entry with
  | "file" -> show file_c (parse_file text)
  | "nesting" -> "NEST " ^ string_of_z (nesting text)
  | "print-type" ->
    (* the Coq printer on a serialized concrete syntax tree: text, well-formedness, the erased tree *)
    let c = with_tokens text typ in
    let b = Buffer.create 256 in
    type_c b (erase_type c);
    Printf.sprintf "TEXT %s WF %b SIMPLE %b ERASE %s" (hex_of_bytes (pr_type c [])) (wf_type c) (simple_type c) (Buffer.contents b)
  | "print-file" ->
    (* the Coq printer on a serialized concrete syntax tree of a whole document *)
    let c = with_tokens text cfile in
    let b = Buffer.create 1024 in
    file_c b (erase_file c);
    Printf.sprintf "TEXT %s WF %b ERASE %s" (hex_of_bytes (pr_file c [])) (wf_file c) (Buffer.contents b)
  | "filemin" ->
    (* File::parse with the least depth fuel C16_depth allows: nesting + 1 *)
    let d = int_of_string (string_of_z (nesting text)) + 1 in
    show file_c (p_file n (nat_of_int d) text)
  | "item" -> show item_c (p_item n n text)
  | "include" -> show include_c (p_include n text)
  | "cppinclude" -> show cpp_include_c (p_cpp_include n text)
  | "namespace" -> show ns_c (p_namespace n text)
  | "scope" -> show raw (p_scope text)
  | "typedef" -> show typedef_c (p_typedef n n text)
  | "constant" -> show const_c (p_constant n n text)
  | "enum" -> show enum_c (p_enum n text)
  | "enumvalue" -> show ev_c (p_enum_value n text)
  | "struct" -> show (kw_sl "struct") (p_struct n n text)
  | "union" -> show (kw_sl "union") (p_union n n text)
  | "exception" -> show (kw_sl "exception") (p_exception n n text)
  | "structlike" -> show sl_c (p_struct_like n n text)
  | "service" -> show service_c (p_service n n text)
  | "function" -> show fn_c (p_function n n text)
  | "field" -> show field_c (p_field n n text)
  | "attribute" -> show attr_c (p_attribute text)
  | "type" -> show type_c (p_type n n text)
  | "ty" -> show ty_c (p_ty n n text)
  | "cpptype" -> show raw_c (p_cpp_type n text)
  | "cv" -> show cv_c (p_const_value n n text)
  | "int" -> show zc (p_int_constant n text)
  | "double" -> show raw_c (p_double_constant n text)
  | "annotations" -> show anns (p_annotations n text)
  | "literal" -> show raw_c (p_literal n text)
  | "ident" -> show raw (p_ident text)
  | "path" -> show path (p_path n text)
  | "blank" -> show unit_c (p_blank n text)
  | _ -> failwith ("unknown entry " ^ entry)

let () =
  let ic = if Array.length Sys.argv > 1 then open_in Sys.argv.(1) else stdin in
  (try
     while true do
       let line = input_line ic in
       let out =
         match String.split_on_char ' ' (String.trim line) with
         | [] | [""] -> ""
         | [entry; hex] ->
           (try run_case entry (bytes_of_hex hex) with
            | Failure m -> "BADCASE " ^ m
            | Stack_overflow -> "BADCASE stack overflow in the model runner"
            | Invalid_argument m -> "BADCASE " ^ m)
         | _ -> "BADCASE malformed line"
       in
       print_string out; print_char '\n'
     done
   with End_of_file -> ());
  flush stdout
