(* C01, completeness side of the regenerated PrimOps table.  [forall r, In r prim_ops -> ...] says
   nothing about a method that has dropped out of the table.  Generated/TraitMethods.v is regenerated
   from the trait definitions of pilota/src/thrift/mod.rs; the keys the table MUST contain are, for every
   protocol impl, the required methods of its trait minus an explicit list of methods the table does
   not cover; conversely every row is a method of its impl's trait or one of the named helpers. *)
From Coq Require Import String List Bool.
From PV Require Import Thrift.PrimOp Generated.PrimOps Generated.TraitMethods.
Import ListNotations.
Open Scope string_scope.

Definition mem (x : string) (l : list string) : bool := existsb (String.eqb x) l.

(* (protocol, class, flavour, trait) of every impl the table is built from *)
Definition impls : list (string * string * string * string) :=
  flat_map (fun proto =>
    [(proto, "len", "any", "TLengthProtocol"); (proto, "write", "bytesmut", "TOutputProtocol");
     (proto, "write", "linked", "TOutputProtocol"); (proto, "read", "sync", "TInputProtocol");
     (proto, "read", "async", "TAsyncInputProtocol")]) ["binary"; "binary_le"; "compact"].

(* trait methods the table does not cover, by name -- the complete list of exceptions:
   accessors / transport plumbing (no wire format in them), the skippers (modelled by Thrift/Skip.v, C07),
   and the reader methods the translator does not lower (Thrift/PrimOpsRSem.v: the stateful compact
   readers and the envelope readers; covered by the hand-written model and the correspondence runs only) *)
Definition not_tabled (proto cls : string) : list string :=
  ["flush"; "buf_mut"; "reset"; "zero_copy_len"; "buf"; "get_bytes"; "skip"; "skip_till_depth"] ++
  (if String.eqb cls "read" then
     if String.eqb proto "compact"
     then ["read_field_begin"; "read_bool"; "read_map_begin"; "read_message_begin"; "read_struct_begin"; "read_struct_end"]
     else ["read_message_begin"]
   else []).

Definition methods_of (tr : string) : list (string * bool) :=
  match find (fun q => String.eqb (fst q) tr) trait_methods with Some q => snd q | None => [] end.

Definition expected_keys : list (string * string * string * string) :=
  flat_map (fun '(proto, cls, flav, tr) =>
    map (fun m => (proto, cls, flav, fst m))
        (filter (fun m => snd m && negb (mem (fst m) (not_tabled proto cls))) (methods_of tr))) impls.

Definition key_of (r : prow) : string * string * string * string := (r_proto r, r_class r, r_flavour r, r_method r).
Definition key_eqb (a b : string * string * string * string) : bool :=
  let '(a1, a2, a3, a4) := a in let '(b1, b2, b3, b4) := b in
  String.eqb a1 b1 && String.eqb a2 b2 && String.eqb a3 b3 && String.eqb a4 b4.
Definition has_row (k : string * string * string * string) : bool := existsb (fun r => key_eqb k (key_of r)) prim_ops.

(* rows that are not trait methods: the private helpers of the compact writer and the expanded macro *)
Definition helper_rows : list string :=
  ["write_varint"; "write_field_header"; "write_collection_begin"; "macro write_field_header_len"].

Definition row_expected (r : prow) : bool :=
  existsb (fun '(proto, cls, flav, tr) =>
             String.eqb proto (r_proto r) && String.eqb cls (r_class r) && String.eqb flav (r_flavour r) &&
             (mem (r_method r) (map fst (methods_of tr)) || mem (r_method r) helper_rows)) impls.

Definition dup_free (l : list (string * string * string * string)) : bool :=
  (fix go l := match l with [] => true | x :: t => negb (existsb (key_eqb x) t) && go t end) l.

(* every required trait method of every impl (minus the named exceptions) has a row *)
Theorem prim_ops_complete : forallb has_row expected_keys = true.
Proof. vm_compute. reflexivity. Qed.

(* every row is a method of its impl's trait (required or overridden default) or a named helper, and no key occurs twice *)
Theorem prim_ops_only_expected : forallb row_expected prim_ops = true /\ dup_free (map key_of prim_ops) = true.
Proof. split; vm_compute; reflexivity. Qed.

(* in Prop form: a (protocol, class, flavour, method) key is expected iff ..., and then a row exists *)
Theorem prim_ops_complete_In : forall k, In k expected_keys -> exists r, In r prim_ops /\ key_of r = k.
Proof.
  intros k Hk. pose proof (proj1 (forallb_forall _ _) prim_ops_complete k Hk) as H.
  unfold has_row in H. apply existsb_exists in H as (r & Hr & He). exists r. split; [exact Hr|].
  destruct k as [[[k1 k2] k3] k4]. unfold key_of, key_eqb in *.
  repeat (apply andb_prop in He as [He ?]).
  repeat match goal with H : String.eqb _ _ = true |- _ => apply String.eqb_eq in H end. congruence.
Qed.

(* non-vacuity: the sizes, and the table does contain the methods one would miss first *)
Example prim_ops_complete_nonvacuous :
  List.length expected_keys = 359 /\ List.length impls = 15 /\
  In ("compact", "write", "linked", "write_i64") expected_keys /\
  In ("binary_le", "read", "async", "read_double") expected_keys /\
  In ("binary", "len", "any", "map_begin_len") expected_keys /\
  ~ In ("compact", "read", "sync", "read_bool") expected_keys.
Proof.
  split; [vm_compute; reflexivity|]. split; [reflexivity|].
  assert (D : forall k, existsb (key_eqb k) expected_keys = true -> In k expected_keys).
  { intros k H. apply existsb_exists in H as (x & Hx & He). destruct k as [[[k1 k2] k3] k4], x as [[[x1 x2] x3] x4].
    unfold key_eqb in He. repeat (apply andb_prop in He as [He ?]).
    repeat match goal with H : String.eqb _ _ = true |- _ => apply String.eqb_eq in H end. subst. exact Hx. }
  split; [apply D; vm_compute; reflexivity|]. split; [apply D; vm_compute; reflexivity|]. split; [apply D; vm_compute; reflexivity|].
  intros H. assert (E : existsb (key_eqb ("compact", "read", "sync", "read_bool")) expected_keys = true).
  { apply existsb_exists. eexists; split; [exact H|]. unfold key_eqb. rewrite !String.eqb_refl. reflexivity. }
  vm_compute in E. discriminate.
Qed.
