#!/bin/bash
# confirm_seed.sh <id> <cargo package> <demo file name in /tmp/mut_out/<id>/> <dest path relative to repo> <cargo test args for the demo>
# Confirms in the scratch worktree /tmp/mut_<id>: patch applies on a clean tree, package builds, the package's existing
# tests pass with the patch, the demo FAILS with the patch and PASSES without. Writes /verif/seeded/<id>/.
set -u
ID=$1; PKG=$2; DEMO=$3; DEST=$4; shift 4; TESTARGS="$*"
WT=/tmp/mut_$ID; OUT=/tmp/mut_out/$ID; SD=/verif/seeded/$ID
export CARGO_TARGET_DIR=$WT/target CARGO_NET_OFFLINE=true
cd $WT || exit 2
git checkout -q -- . ; git clean -fdq -e target
git apply --check $OUT/patch.diff || { echo "patch does not apply"; exit 2; }
git apply $OUT/patch.diff
LOG=$OUT/confirm.log; : > $LOG
echo "== build with patch" >> $LOG
cargo build -p $PKG --offline >> $LOG 2>&1; B=$?
echo "== existing tests with patch" >> $LOG
cargo test -p $PKG --offline >> $LOG 2>&1; T=$?
mkdir -p $(dirname $DEST); cp $OUT/$DEMO $DEST
echo "== demo with patch (expected to fail)" >> $LOG
cargo test -p $PKG --offline $TESTARGS >> $LOG 2>&1; D1=$?
git apply -R $OUT/patch.diff
echo "== demo without patch (expected to pass)" >> $LOG
cargo test -p $PKG --offline $TESTARGS >> $LOG 2>&1; D0=$?
rm -f $DEST
echo "build=$B existing_tests=$T demo_with_patch=$D1 demo_without_patch=$D0" | tee -a $LOG
if [ $B -eq 0 ] && [ $T -eq 0 ] && [ $D1 -ne 0 ] && [ $D0 -eq 0 ]; then
  mkdir -p $SD; cp $OUT/patch.diff $SD/patch.diff; cp $OUT/$DEMO $SD/$DEMO; cp $OUT/notes.md $SD/notes.md 2>/dev/null
  tail -1 $LOG > $SD/confirm.txt
  echo "CONFIRMED $ID"
else
  echo "NOT CONFIRMED $ID"
fi
rm -rf $WT/target
