(* C12 for the decoders built on the field loop: ApplicationException::decode_async = decode, and the
   asynchronous message envelope reader = the in-memory one, on EVERY byte string (value direction
   and error direction).
   The skippers are tied to the readers in both directions first: C07 (Proofs/SkipP.v) says that a
   skipper succeeds where its reader does; here: a skipper FAILS where its reader fails, so a
   skipper's outcome is a function of the reader's outcome, and the in-memory / asynchronous
   comparison of the skippers follows from that of the readers (Proofs/AsyncP.v, AsyncErrP.v). *)
From PV Require Import Thrift.Skip Thrift.Msg Thrift.AppMsg Proofs.VarintP Proofs.TablesP Proofs.PrimP Proofs.HeaderP
  Proofs.RoundtripP Proofs.TotalP Proofs.AsyncP Proofs.AsyncErrP Proofs.SkipP Proofs.FieldLoopP.
From Coq Require Import ZifyN ZifyNat ZifyBool.
Open Scope Z_scope.

Lemma bind_err {A B} (o : res A) (f : A -> res B) e :
  bind o f = Err e -> o = Err e \/ exists x, o = Ok x /\ f x = Err e.
Proof. destruct o as [x| |]; cbn; intros H; try discriminate; eauto. injection H as <-. auto. Qed.

Ltac berr H :=
  let x := fresh "x" in let s := fresh "s" in let E := fresh "E" in
  apply bind_err in H; destruct H as [H|[[x s] [E H]]].

(* ================================================================== *)
(* (A) the in-memory skipper fails where the in-memory reader fails *)

Lemma take_err_adv n s e : r_take n s = Err e -> adv n s = Err e.
Proof. unfold adv. intros ->. reflexivity. Qed.

Lemma via_err {A} (m : rm A) s e : m s = Err e -> via m s = Err e.
Proof. unfold via. intros ->. reflexivity. Qed.

Section LoopsSKE.
  Variable p : pk.
  Variable rec : ttype -> rst -> res (tval * rst).
  Variable srec : ttype -> rst -> res (Z * rst).
  Hypothesis Hok : forall ty s v s', rec ty s = Ok (v, s') ->
    (exists c, srec ty s = Ok (c, s')) \/ (exists e, srec ty s = Err e).
  Hypothesis Herr : forall ty s e, rec ty s = Err e -> exists e', srec ty s = Err e'.

  Lemma fields_ske : forall n s acc e, fields_loop p rec n s acc = Err e ->
    forall az, exists e', skip_fields p srec n s az = Err e'.
  Proof.
    induction n as [|n IH]; intros s acc e H az; [cbn; eauto|].
    cbn [fields_loop] in H. cbn [skip_fields]. berr H; [rewrite H; cbn; eauto|].
    rewrite E. cbn [bind]. destruct (ttype_eqb (fst x) TStop); [discriminate|].
    berr H.
    - destruct (Herr _ _ _ H) as [e' ->]. cbn. eauto.
    - destruct (Hok _ _ _ _ E0) as [[c ->]|[e' ->]]; cbn [bind]; eauto.
  Qed.

  Lemma elems_ske : forall m et n s acc e, elems_loop rec m et n s acc = Err e ->
    forall az, exists e', skip_elems srec m et n s az = Err e'.
  Proof.
    induction m as [|m IH]; intros et n s acc e H az; cbn [elems_loop] in H; cbn [skip_elems].
    - destruct (n <=? 0); [discriminate|eauto].
    - destruct (n <=? 0); [discriminate|]. berr H.
      + destruct (Herr _ _ _ H) as [e' ->]. cbn. eauto.
      + destruct (Hok _ _ _ _ E) as [[c ->]|[e' ->]]; cbn [bind]; eauto.
  Qed.

  Lemma pairs_ske : forall m kt vt n s acc e, pairs_loop rec m kt vt n s acc = Err e ->
    forall az, exists e', skip_pairs srec m kt vt n s az = Err e'.
  Proof.
    induction m as [|m IH]; intros kt vt n s acc e H az; cbn [pairs_loop] in H; cbn [skip_pairs].
    - destruct (n <=? 0); [discriminate|eauto].
    - destruct (n <=? 0); [discriminate|]. berr H.
      + destruct (Herr _ _ _ H) as [e' ->]. cbn. eauto.
      + destruct (Hok _ _ _ _ E) as [[c ->]|[e' ->]]; cbn [bind]; eauto. berr H.
        * destruct (Herr _ _ _ H) as [e' ->]. cbn. eauto.
        * destruct (Hok _ _ _ _ E0) as [[c2 ->]|[e' ->]]; cbn [bind]; eauto.
  Qed.
End LoopsSKE.

Lemma sk_dich p f d ty s v s' : read_val p f ty s = Ok (v, s') ->
  (exists c, skip_val p f d ty s = Ok (c, s')) \/ (exists e, skip_val p f d ty s = Err e).
Proof.
  intros H. destruct (skip_sim p f _ _ _ _ H d) as [A B].
  destruct (Nat.le_gt_cases (vdepth v) d); [left; eexists; apply A; auto|right; eexists; apply B; auto].
Qed.

Ltac bin_scalar H :=
  unfold r_bool, r_i8, r_i16, r_i32, r_i64, r_double, r_uuid, r_fixed, r_byte in H;
  repeat (berr H; [|try discriminate H]);
  try (apply take_err_adv in H; rewrite H; eauto).

Theorem read_err_skip_err p : forall f ty s e, read_val p f ty s = Err e ->
  forall d, exists e', skip_val p f d ty s = Err e'.
Proof.
  induction f as [|f IH]; intros ty s e H d; [cbn; eauto|].
  destruct d as [|d]; [cbn; eauto|].
  rewrite read_val_S in H. cbn [skip_val].
  assert (Hok := fun ty s v s' => sk_dich p f d ty s v s').
  assert (Herr := fun ty s e (H : read_val p f ty s = Err e) => IH ty s e H d).
  destruct ty; try (eauto; fail).
  - berr H; [|discriminate]. destruct p; cbn [is_compact]; try (bin_scalar H; fail). rewrite (via_err _ _ _ H). eauto.
  - berr H; [|discriminate]. destruct p; cbn [is_compact]; try (bin_scalar H; fail). rewrite (via_err _ _ _ H). eauto.
  - berr H; [|discriminate]. destruct p; cbn [is_compact]; try (bin_scalar H; fail). rewrite (via_err _ _ _ H). eauto.
  - berr H; [|discriminate]. destruct p; cbn [is_compact]; try (bin_scalar H; fail). rewrite (via_err _ _ _ H). eauto.
  - berr H; [|discriminate]. destruct p; cbn [is_compact]; try (bin_scalar H; fail). rewrite (via_err _ _ _ H). eauto.
  - berr H; [|discriminate]. destruct p; cbn [is_compact]; try (bin_scalar H; fail). rewrite (via_err _ _ _ H). eauto.
  - (* binary *)
    berr H; [|discriminate]. destruct p; cbn [is_compact]; [| |rewrite (via_err _ _ _ H); eauto].
    all: unfold r_bytes, r_len in H; berr H;
      [berr H; [rewrite H; cbn; eauto|discriminate]|];
      binv E; injection E as <- <-; rewrite E0; cbn [bind];
      unfold r_split in H; unfold blen; destruct (_ <=? _); [rewrite H|]; cbn; eauto.
  - (* struct *)
    berr H; [rewrite H; cbn; eauto|]. rewrite E. cbn [bind]. berr H.
    + destruct (fields_ske p _ _ Hok Herr _ _ _ _ H 0) as [e' ->]. cbn. eauto.
    + berr H; [|discriminate].
      destruct (fields_sk p (read_val p f) (skip_val p f d) d (fun ty s v s' Hr => skip_sim p f ty s v s' Hr d) _ _ _ _ _ E0)
        as (new & _ & Hn). destruct (Hn 0) as [Hn1 Hn2].
      destruct (Nat.le_gt_cases (fmax new) d); [rewrite Hn1 by auto|rewrite Hn2 by auto]; cbn [bind]; eauto.
      rewrite H. cbn. eauto.
  - (* map *)
    berr H; [rewrite H; cbn; eauto|]. rewrite E. cbn [bind]. berr H; [|discriminate].
    eapply (pairs_ske _ _ Hok Herr); eauto.
  - (* set *)
    berr H; [rewrite H; cbn; eauto|]. rewrite E. cbn [bind]. berr H; [|discriminate].
    eapply (elems_ske _ _ Hok Herr); eauto.
  - (* list *)
    berr H; [rewrite H; cbn; eauto|]. rewrite E. cbn [bind]. berr H; [|discriminate].
    eapply (elems_ske _ _ Hok Herr); eauto.
  - berr H; [|discriminate]. destruct p; cbn [is_compact]; try (bin_scalar H; fail). rewrite (via_err _ _ _ H). eauto.
Qed.

(* ================================================================== *)
(* (B) the asynchronous skipper fails where the asynchronous reader fails *)

Lemma drop_err {A} (m : rm A) s e : m s = Err e -> drop m s = Err e.
Proof. unfold drop. intros ->. reflexivity. Qed.

Section ALoopsSKE.
  Variable p : pk.
  Variable rec : ttype -> rst -> res (tval * rst).
  Variable srec : ttype -> rst -> res (unit * rst).
  Hypothesis Hok : forall ty s v s', rec ty s = Ok (v, s') ->
    srec ty s = Ok (tt, s') \/ (exists e, srec ty s = Err e).
  Hypothesis Herr : forall ty s e, rec ty s = Err e -> exists e', srec ty s = Err e'.

  Lemma afields_ske : forall n s acc e, afields_loop p rec n s acc = Err e ->
    exists e', askip_fields p srec n s = Err e'.
  Proof.
    induction n as [|n IH]; intros s acc e H; [cbn; eauto|].
    cbn [afields_loop] in H. cbn [askip_fields]. berr H; [rewrite H; cbn; eauto|].
    rewrite E. cbn [bind]. destruct (ttype_eqb (fst x) TStop); [discriminate|].
    berr H.
    - destruct (Herr _ _ _ H) as [e' ->]. cbn. eauto.
    - destruct (Hok _ _ _ _ E0) as [->|[e' ->]]; cbn [bind]; eauto.
  Qed.

  Lemma aelems_ske : forall m et n s acc e, elems_loop rec m et n s acc = Err e ->
    exists e', askip_elems srec m et n s = Err e'.
  Proof.
    induction m as [|m IH]; intros et n s acc e H; cbn [elems_loop] in H; cbn [askip_elems].
    - destruct (n <=? 0); [discriminate|eauto].
    - destruct (n <=? 0); [discriminate|]. berr H.
      + destruct (Herr _ _ _ H) as [e' ->]. cbn. eauto.
      + destruct (Hok _ _ _ _ E) as [->|[e' ->]]; cbn [bind]; eauto.
  Qed.

  Lemma apairs_ske : forall m kt vt n s acc e, pairs_loop rec m kt vt n s acc = Err e ->
    exists e', askip_pairs srec m kt vt n s = Err e'.
  Proof.
    induction m as [|m IH]; intros kt vt n s acc e H; cbn [pairs_loop] in H; cbn [askip_pairs].
    - destruct (n <=? 0); [discriminate|eauto].
    - destruct (n <=? 0); [discriminate|]. berr H.
      + destruct (Herr _ _ _ H) as [e' ->]. cbn. eauto.
      + destruct (Hok _ _ _ _ E) as [->|[e' ->]]; cbn [bind]; eauto. berr H.
        * destruct (Herr _ _ _ H) as [e' ->]. cbn. eauto.
        * destruct (Hok _ _ _ _ E0) as [->|[e' ->]]; cbn [bind]; eauto.
  Qed.
End ALoopsSKE.

Lemma ask_dich p f d ty s v s' : aread_val p f ty s = Ok (v, s') ->
  askip_val p f d ty s = Ok (tt, s') \/ (exists e, askip_val p f d ty s = Err e).
Proof.
  intros H. destruct (askip_sim p f _ _ _ _ H d) as [A B].
  destruct (Nat.le_gt_cases (vdepth v) d); [left; apply A; auto|right; eexists; apply B; auto].
Qed.

Theorem aread_err_askip_err p : forall f ty s e, aread_val p f ty s = Err e ->
  forall d, exists e', askip_val p f d ty s = Err e'.
Proof.
  induction f as [|f IH]; intros ty s e H d; [cbn; eauto|].
  destruct d as [|d]; [cbn; eauto|].
  cbn [aread_val] in H. cbn [askip_val].
  assert (Hok := fun ty s v s' => ask_dich p f d ty s v s').
  assert (Herr := fun ty s e (H : aread_val p f ty s = Err e) => IH ty s e H d).
  destruct ty; try (eauto; fail).
  1-7,12: berr H; [|discriminate]; rewrite (drop_err _ _ _ H); eauto.
  - (* struct *)
    berr H; [rewrite H; cbn; eauto|]. rewrite E. cbn [bind]. berr H.
    + destruct (afields_ske p _ _ Hok Herr _ _ _ _ H) as [e' ->]. cbn. eauto.
    + berr H; [|discriminate].
      destruct (afields_sk p (aread_val p f) (askip_val p f d) d (fun ty s v s' Hr => askip_sim p f ty s v s' Hr d) _ _ _ _ _ E0)
        as (new & _ & Hn1 & Hn2).
      destruct (Nat.le_gt_cases (fmax new) d); [rewrite Hn1 by auto|rewrite Hn2 by auto]; cbn [bind]; eauto.
  - berr H; [rewrite H; cbn; eauto|]. rewrite E. cbn [bind]. berr H; [|discriminate].
    eapply (apairs_ske _ _ Hok Herr); eauto.
  - berr H; [rewrite H; cbn; eauto|]. rewrite E. cbn [bind]. berr H; [|discriminate].
    eapply (aelems_ske _ _ Hok Herr); eauto.
  - berr H; [rewrite H; cbn; eauto|]. rewrite E. cbn [bind]. berr H; [|discriminate].
    eapply (aelems_ske _ _ Hok Herr); eauto.
Qed.

(* ================================================================== *)
(* (C) in-memory skipper vs asynchronous skipper, through the readers.  [E] switches the error
   direction on: it needs the no-stale-bool invariant of AsyncErrP ([pend_ok]) at entry and gives
   [npb] back; the value direction holds from any state. *)
Definition srel (E : Prop) (s : rst) (o1 : res (Z * rst)) (o2 : res (unit * rst)) : Prop :=
  match o1 with
  | Ok (_, s') => o2 = Ok (tt, s') /\ inv s' /\ (blen s' <= blen s)%nat /\ (E -> npb s')
  | Err _ => E -> exists e', o2 = Err e'
  | Panic _ => True
  end.

Theorem skip_askip (E : Prop) p f d ty s :
  inv s -> (blen s < f)%nat -> (E -> pend_ok p ty s) ->
  srel E s (skip_val p f d ty s) (askip_val p f d ty s).
Proof.
  intros Hi Hf Hp. pose proof (read_val_good p f ty s Hf) as G.
  destruct (read_val p f ty s) as [[v s']|e|sp] eqn:R; [| |cbn in G; contradiction].
  - pose proof (aread_val_sim p f ty s Hi) as S. rewrite R in S. destruct S as (A & Hi' & Hl).
    destruct (skip_sim p f _ _ _ _ R d) as [S1 S2]. destruct (askip_sim p f _ _ _ _ A d) as [A1 A2].
    destruct (Nat.le_gt_cases (vdepth v) d) as [Hd|Hd].
    + rewrite S1, A1 by auto. cbn [srel]. split; [reflexivity|]. split; [exact Hi'|]. split; [exact Hl|]. intros HE.
      pose proof (arec_pend p (aread_val p f) f (aread_ag1 p f)
                    (fun Hc s0 => aread_ag_bool p f s0 (or_introl Hc)) ty s (Hp HE)) as G2.
      rewrite A in G2. apply G2.
    + rewrite S2, A2 by auto. cbn [srel]. eauto.
  - destruct (read_err_skip_err p f ty s e R d) as [e1 ->]. cbn [srel]. intros HE.
    pose proof (aread_val_esim p f ty s Hi (Hp HE)) as S. rewrite R in S. destruct S as [e' A].
    exact (aread_err_askip_err p f ty s e' A d).
Qed.

(* ================================================================== *)
(* (D) ApplicationException::decode_async vs decode *)

(* [esim] with the error direction switchable *)
Definition arel {A} (E : Prop) (s : rst) (o1 o2 : res (A * rst)) : Prop :=
  match o1 with
  | Ok (x, s') => o2 = Ok (x, s') /\ inv s' /\ (blen s' <= blen s)%nat
  | Err _ => E -> exists e', o2 = Err e'
  | Panic _ => True
  end.

Lemma arel_mono {A} E s0 s (o1 o2 : res (A * rst)) : (blen s <= blen s0)%nat -> arel E s o1 o2 -> arel E s0 o1 o2.
Proof. destruct o1 as [[x s']| |]; cbn [arel]; auto. intros Hl (A1 & A2 & A3). repeat split; auto; try apply A2. lia. Qed.

(* the condition under which the ERROR direction is proved for the compact protocol: whenever the
   decoder meets a header with id 1 or 2, it does not announce a bool.  (decode reads fields 1 / 2
   with read_faststr / read_i32 whatever their announced type; after a compact bool header this
   leaves the header's bool value parked, and the progress argument of AsyncErrP -- every value costs
   a byte -- has one byte of slack from then on.  The VALUE direction needs no such condition.) *)
Fixpoint app_typed (p : pk) (fuel n : nat) (s : rst) : Prop :=
  match n with
  | O => True
  | S n' =>
      match r_field_begin p s with
      | Ok (h, s1) =>
          if ttype_eqb (fst h) TStop then True
          else match snd h with
               | None => True
               | Some id =>
                   if id =? 1 then fst h <> TBool /\ match r_bytes p s1 with Ok (_, s2) => app_typed p fuel n' s2 | _ => True end
                   else if id =? 2 then fst h <> TBool /\ match r_i32 p s1 with Ok (_, s2) => app_typed p fuel n' s2 | _ => True end
                   else match skip p fuel (fst h) s1 with Ok (_, s2) => app_typed p fuel n' s2 | _ => True end
               end
      | _ => True
      end
  end.

Lemma pend_npb p ty s : pend_ok p ty s -> (p = PCompact -> ty <> TBool) -> npb s.
Proof. intros [H|[Hc Ht]] Hn; [exact H|]. destruct (Hn Hc Ht). Qed.

Lemma app_fields_rel (E : Prop) p fuel : forall n msg kind s,
  inv s -> (blen s < fuel)%nat -> (E -> npb s) -> (E -> p = PCompact -> app_typed p fuel n s) ->
  arel E s (app_fields p fuel n msg kind s) (aapp_fields p fuel n msg kind s).
Proof.
  induction n as [|n IH]; intros msg kind s Hi Hf Hn Ht; [cbn; eauto|].
  cbn [app_fields aapp_fields].
  pose proof (field_begin_esim p s Hi) as S1.
  destruct (r_field_begin p s) as [[h s1]|e|sp] eqn:E1; cbn [esim bind] in *; [|intros _; destruct S1 as [e' ->]; cbn; eauto|exact I].
  destruct S1 as (A1 & Hi1 & Hl1). rewrite A1. cbn [bind].
  assert (Hp : E -> pend_ok p (fst h) s1).
  { intros HE. pose proof (a_field_begin_ag p s (Hn HE)) as G. rewrite A1 in G. apply G. }
  assert (Ht' : E -> p = PCompact -> match snd h with
            | None => True
            | Some id =>
                if ttype_eqb (fst h) TStop then True else
                if id =? 1 then fst h <> TBool /\ match r_bytes p s1 with Ok (_, s2) => app_typed p fuel n s2 | _ => True end
                else if id =? 2 then fst h <> TBool /\ match r_i32 p s1 with Ok (_, s2) => app_typed p fuel n s2 | _ => True end
                else match skip p fuel (fst h) s1 with Ok (_, s2) => app_typed p fuel n s2 | _ => True end
            end).
  { intros HE Hc. specialize (Ht HE Hc). cbn [app_typed] in Ht. rewrite E1 in Ht.
    destruct (snd h); [|exact I]. destruct (ttype_eqb (fst h) TStop); [exact I|exact Ht]. }
  clear Ht.
  destruct (ttype_eqb (fst h) TStop) eqn:Es; [cbn [arel]; auto|].
  destruct (snd h) as [id|]; [|exact I].
  destruct (id =? 1).
  { pose proof (bytes_esim p s1 Hi1) as S2.
    destruct (r_bytes p s1) as [[m s2]|e|sp] eqn:E2; cbn [esim bind] in *; [|intros _; destruct S2 as [e' ->]; cbn; eauto|exact I].
    destruct S2 as (A2 & Hi2 & Hl2). rewrite A2. cbn [bind].
    apply (arel_mono E s s2); [lia|]. apply IH; [exact Hi2|lia| |].
    - intros HE. assert (Hn1 : npb s1) by (apply (pend_npb p (fst h)); [auto|intros Hc; apply (Ht' HE Hc)]).
      pose proof (a_bytes_ag True p s1 Hn1) as G. rewrite A2 in G. apply G.
    - intros HE Hc. apply (Ht' HE Hc). }
  destruct (id =? 2).
  { pose proof (i32_esim p s1 Hi1) as S2.
    destruct (r_i32 p s1) as [[m s2]|e|sp] eqn:E2; cbn [esim bind] in *; [|intros _; destruct S2 as [e' ->]; cbn; eauto|exact I].
    destruct S2 as (A2 & Hi2 & Hl2). rewrite A2. cbn [bind].
    apply (arel_mono E s s2); [lia|]. apply IH; [exact Hi2|lia| |].
    - intros HE. assert (Hn1 : npb s1) by (apply (pend_npb p (fst h)); [auto|intros Hc; apply (Ht' HE Hc)]).
      pose proof (a_i32_ag True p s1 Hn1) as G. rewrite A2 in G. apply G.
    - intros HE Hc. apply (Ht' HE Hc). }
  pose proof (skip_askip E p fuel skip_depth (fst h) s1 Hi1 ltac:(lia) Hp) as S2.
  unfold skip, askip in *.
  destruct (skip_val p fuel skip_depth (fst h) s1) as [[c s2]|e|sp] eqn:E2; cbn [srel bind] in *;
    [|intros HE; destruct (S2 HE) as [e' ->]; cbn; eauto|exact I].
  destruct S2 as (A2 & Hi2 & Hl2 & Hn2). rewrite A2. cbn [bind].
  apply (arel_mono E s s2); [lia|]. apply IH; [exact Hi2|lia|exact Hn2|]. intros HE Hc. apply (Ht' HE Hc).
Qed.

Definition app_typed_top (p : pk) (fuel : nat) (s : rst) : Prop :=
  match r_struct_begin p s with Ok (_, s1) => app_typed p fuel fuel s1 | _ => True end.

Lemma app_decode_rel (E : Prop) p fuel s :
  inv s -> (blen s < fuel)%nat -> (E -> npb s) -> (E -> p = PCompact -> app_typed_top p fuel s) ->
  arel E s (app_decode p fuel s) (app_decode_async p fuel s).
Proof.
  intros Hi Hf Hn Ht. unfold app_decode, app_decode_async, app_typed_top in *.
  pose proof (struct_begin_esim p s Hi) as S1.
  destruct (r_struct_begin p s) as [[u s1]|e|sp] eqn:E1; cbn [esim bind] in *; [|intros _; destruct S1 as [e' ->]; cbn; eauto|exact I].
  destruct S1 as (A1 & Hi1 & Hl1). rewrite A1. cbn [bind].
  assert (Hn1 : E -> npb s1).
  { intros HE. pose proof (a_struct_begin_ag True p s (Hn HE)) as G. rewrite A1 in G. apply G. }
  pose proof (app_fields_rel E p fuel fuel app_default_msg 0 s1 Hi1 ltac:(lia) Hn1 Ht) as S2.
  destruct (app_fields p fuel fuel app_default_msg 0 s1) as [[r s2]|e|sp]; cbn [arel bind] in *;
    [|intros HE; destruct (S2 HE) as [e' ->]; cbn; eauto|exact I].
  destruct S2 as (A2 & Hi2 & Hl2). rewrite A2. cbn [bind].
  pose proof (struct_end_esim p s2 Hi2) as S3.
  destruct (r_struct_end p s2) as [[u3 s3]|e|sp]; cbn [esim bind] in *; [|intros _; destruct S3 as [e' ->]; cbn; eauto|exact I].
  destruct S3 as (A3 & Hi3 & Hl3). rewrite A3. cbn [bind]. repeat split; auto; try apply Hi3. lia.
Qed.

(* C12_app_exception_async_eq, value direction: on EVERY byte string and from every reader state,
   whenever decode returns (message, kind) and stops in state s', decode_async returns the same and
   has pulled exactly the same bytes *)
Theorem app_async_value p fuel l rcx r s' :
  r_pfield rcx = false -> Z.of_nat (length l) < 2 ^ 63 -> (length l < fuel)%nat ->
  app_decode p fuel (mkS l rcx) = Ok (r, s') ->
  app_decode_async p fuel (mkS l rcx) = Ok (r, s').
Proof.
  intros Hp Hl Hf H.
  pose proof (app_decode_rel False p fuel (mkS l rcx) (conj Hp Hl) Hf ltac:(intros []) ltac:(intros [])) as S.
  rewrite H in S. apply S.
Qed.

(* error direction: a reader started idle on ANY byte string: whenever decode reports an error, so
   does decode_async -- never a value, never a panic.  Binary and binary-LE: unconditionally; compact:
   for inputs on which fields 1 / 2 are not announced as bool ([app_typed_top]) *)
Theorem app_async_error p fuel l rcx e :
  idle rcx -> Z.of_nat (length l) < 2 ^ 63 -> (length l < fuel)%nat ->
  (p = PCompact -> app_typed_top p fuel (mkS l rcx)) ->
  app_decode p fuel (mkS l rcx) = Err e ->
  exists e', app_decode_async p fuel (mkS l rcx) = Err e'.
Proof.
  intros [Hb Hp] Hl Hf Ht H.
  pose proof (app_decode_rel True p fuel (mkS l rcx) (conj Hp Hl) Hf (fun _ => Hb) (fun _ => Ht)) as S.
  rewrite H in S. apply S. exact I.
Qed.

(* both directions in one statement *)
Theorem app_async_outcome p fuel l rcx :
  idle rcx -> Z.of_nat (length l) < 2 ^ 63 -> (length l < fuel)%nat ->
  (p = PCompact -> app_typed_top p fuel (mkS l rcx)) ->
  match app_decode p fuel (mkS l rcx) with
  | Ok (r, s') => app_decode_async p fuel (mkS l rcx) = Ok (r, s')
  | Err _ => exists e', app_decode_async p fuel (mkS l rcx) = Err e'
  | Panic _ => True
  end.
Proof.
  intros [Hb Hp] Hl Hf Ht.
  pose proof (app_decode_rel True p fuel (mkS l rcx) (conj Hp Hl) Hf (fun _ => Hb) (fun _ => Ht)) as S.
  destruct (app_decode p fuel (mkS l rcx)) as [[r s']| |]; cbn [arel] in S; auto. apply S.
Qed.

(* non-vacuity: an exception with unknown fields around 1 / 2 (a bool, a list), all protocols: typed,
   decoded identically; cut short: both report an error *)
Example app_async_examples :
  forall p, match write_val p BContig (VStruct [(7, VBool true); (1, VBinary [x61]); (2, VI32 5); (9, VList TI32 [VI32 1])]) w0 with
            | Ok (ss, _) =>
                let l := flat ss in
                app_typed_top p 30 (mkS l r0) /\
                app_decode p 30 (mkS (l ++ [xff]) r0) = Ok (([x61], 5), mkS [xff] r0) /\
                app_decode_async p 30 (mkS (l ++ [xff]) r0) = Ok (([x61], 5), mkS [xff] r0) /\
                (exists e, app_decode p 30 (mkS (removelast l) r0) = Err e) /\
                (exists e, app_decode_async p 30 (mkS (removelast l) r0) = Err e)
            | _ => False
            end.
Proof.
  intros p. destruct p; vm_compute; (split; [repeat split; discriminate|]);
    (split; [reflexivity|]); (split; [reflexivity|]); split; eexists; reflexivity.
Qed.

(* the corner the error-direction condition excludes: compact field 1 announced as a bool.  decode reads
   a string all the same and leaves the header's value parked; decode_async does exactly the same *)
Example app_async_untyped_example :
  let l := [x11; x01; x61; x00] in
  ~ app_typed_top PCompact 9 (mkS l r0) /\
  app_decode PCompact 9 (mkS l r0) = Ok (([x61], 0), mkS [] (mkR 0 [] (Some true) false)) /\
  app_decode_async PCompact 9 (mkS l r0) = app_decode PCompact 9 (mkS l r0).
Proof. cbv zeta. split; [vm_compute; intros [H _]; apply H; reflexivity|]. split; vm_compute; reflexivity. Qed.

(* composed with C07_app_exception_tolerant: decode_async on what pilota wrote *)
Theorem app_exception_tolerant_async p k fs c :
  wt (VStruct fs) = true -> w_pend c = None -> Forall app_field_ok fs ->
  exists ss, write_val p k (VStruct fs) c = Ok (ss, c) /\
    forall fuel r, (vsize (VStruct fs) <= fuel)%nat -> (length (flat ss ++ r) < fuel)%nat ->
      Z.of_nat (length (flat ss ++ r)) < 2 ^ 63 ->
      app_decode_async p fuel (mkS (flat ss ++ r) r0) = Ok (app_pick fs app_default_msg 0, mkS r r0).
Proof.
  intros Hwt Hp Hok. destruct (app_exception_tolerant p k fs c Hwt Hp Hok) as (ss & Hw & Hr).
  exists ss. split; [exact Hw|]. intros fuel r Hv Hf Hl.
  apply app_async_value; auto. apply Hr; auto. apply idle_r0.
Qed.

(* ================================================================== *)
(* (E) the asynchronous message envelope reader = the in-memory one, on every byte string *)

Theorem message_begin_esim p s : inv s -> esim s (r_message_begin p s) (a_message_begin p s).
Proof.
  intros Hi. destruct p; cbn [r_message_begin a_message_begin].
  1,2: eapply esim_bind; [apply i32_esim; auto|]; intros size s1 _ Hi1 Hl1;
       (destruct (0 <? size); [apply esim_err|]);
       (destruct (mtype_of_code (Z.land size 15)); [|apply esim_err]);
       (destruct (negb _); [apply esim_err|]);
       eapply esim_bind; [apply bytes_esim; auto|]; intros name s2 _ Hi2 Hl2;
       eapply esim_bind; [apply i32_esim; auto|]; intros seq s3 _ Hi3 Hl3; apply esim_ret; auto.
  eapply esim_bind; [apply byte_esim; auto|]. intros id s1 _ Hi1 Hl1.
  destruct (negb (id =? compact_protocol_id)); [apply esim_err|].
  eapply esim_bind; [apply byte_esim; auto|]. intros tb s2 _ Hi2 Hl2.
  destruct (negb _); [apply esim_err|].
  destruct (mtype_of_code _); [|apply esim_err].
  eapply esim_bind; [apply varint_esim; auto|]. intros n s3 _ Hi3 Hl3.
  eapply esim_bind; [apply bytes_esim; auto|]. intros name s4 _ Hi4 Hl4. apply esim_ret; auto.
Qed.

Lemma ag_npb {A} P (o : res (A * rst)) s k x s' : ag P o s k -> o = Ok (x, s') -> npb s'.
Proof. intros G ->. apply G. Qed.

Lemma a_message_begin_npb p s m s' : npb s -> a_message_begin p s = Ok (m, s') -> npb s'.
Proof.
  intros Hn H. destruct p; cbn [a_message_begin] in H.
  1,2: binv H; pose proof (ag_npb _ _ _ _ _ _ (a_i32_ag True _ s Hn) E) as Hn1;
       (destruct (0 <? x); [discriminate|]);
       (destruct (mtype_of_code (Z.land x 15)); [|discriminate]);
       (destruct (negb _); [discriminate|]);
       binv H; pose proof (ag_npb _ _ _ _ _ _ (a_bytes_ag True _ s0 Hn1) E0) as Hn2;
       binv H; pose proof (ag_npb _ _ _ _ _ _ (a_i32_ag True _ s1 Hn2) E1) as Hn3;
       injection H as _ <-; exact Hn3.
  binv H. pose proof (ag_npb _ _ _ _ _ _ (a_byte_ag True s Hn) E) as Hn1.
  destruct (negb (x =? compact_protocol_id)); [discriminate|].
  binv H. pose proof (ag_npb _ _ _ _ _ _ (a_byte_ag True s0 Hn1) E0) as Hn2.
  destruct (negb _); [discriminate|]. destruct (mtype_of_code _); [|discriminate].
  binv H. pose proof (ag_npb _ _ _ _ _ _ (a_varint_ag True _ s1 Hn2) E1) as Hn3.
  binv H. pose proof (ag_npb _ _ _ _ _ _ (a_bytes_ag True _ s2 Hn3) E2) as Hn4.
  injection H as _ <-. exact Hn4.
Qed.

(* envelope + value, messages back to back on one reader *)
Theorem read_msgs_esim p fuel : forall tys s, inv s -> npb s ->
  esim s (read_msgs p fuel tys s) (aread_msgs p fuel tys s).
Proof.
  induction tys as [|ty t IH]; intros s Hi Hn; [apply esim_ret; auto|].
  cbn [read_msgs aread_msgs].
  eapply esim_bind; [apply message_begin_esim; auto|]. intros m s1 E1 Hi1 Hl1.
  pose proof (a_message_begin_npb p s m s1 Hn E1) as Hn1.
  eapply esim_bind; [apply aread_val_esim; [auto|left; exact Hn1]|]. intros v s2 E2 Hi2 Hl2.
  assert (Hn2 : npb s2) by (exact (ag_npb _ _ _ _ _ _ (aread_ag1 p fuel ty s1 Hn1) E2)).
  eapply esim_bind; [apply IH; auto|]. intros r s3 _ Hi3 Hl3. apply esim_ret; auto.
Qed.

Theorem message_async_outcome p l rcx :
  r_pfield rcx = false -> Z.of_nat (length l) < 2 ^ 63 ->
  match r_message_begin p (mkS l rcx) with
  | Ok (m, s') => a_message_begin p (mkS l rcx) = Ok (m, s')
  | Err _ => exists e', a_message_begin p (mkS l rcx) = Err e'
  | Panic _ => True
  end.
Proof.
  intros Hp Hl. pose proof (message_begin_esim p (mkS l rcx) (conj Hp Hl)) as S.
  destruct (r_message_begin p (mkS l rcx)) as [[m s']| |]; cbn [esim] in S; auto. apply S.
Qed.

Theorem messages_async_outcome p fuel tys l rcx :
  idle rcx -> Z.of_nat (length l) < 2 ^ 63 ->
  match read_msgs p fuel tys (mkS l rcx) with
  | Ok (r, s') => aread_msgs p fuel tys (mkS l rcx) = Ok (r, s')
  | Err _ => exists e', aread_msgs p fuel tys (mkS l rcx) = Err e'
  | Panic _ => True
  end.
Proof.
  intros [Hb Hp] Hl. pose proof (read_msgs_esim p fuel tys (mkS l rcx) (conj Hp Hl) Hb) as S.
  destruct (read_msgs p fuel tys (mkS l rcx)) as [[m s']| |]; cbn [esim] in S; auto. apply S.
Qed.

(* non-vacuity: two messages written back to back are read identically; a wrong protocol id / version
   word is an error for both (the compact readers even disagree on the kind: InvalidData / BadVersion) *)
Example message_async_examples :
  let ms := [(mkMsg [x61; x62] MCall 7, VStruct [(1, VBool true)]); (mkMsg [] MReply (-1), VStruct [])] in
  (forall p, match write_msgs p BContig ms w0 with
             | Ok (ss, _) =>
                 exists r, read_msgs p 9 [TStruct; TStruct] (mkS (flat ss ++ [xff]) r0) = Ok (r, mkS [xff] r0) /\
                           aread_msgs p 9 [TStruct; TStruct] (mkS (flat ss ++ [xff]) r0) = Ok (r, mkS [xff] r0) /\
                           map fst r = map fst ms
             | _ => False
             end) /\
  r_message_begin PCompact (mkS [x83; x21; x00; x00] r0) = Err EInvalidData /\
  a_message_begin PCompact (mkS [x83; x21; x00; x00] r0) = Err EBadVersion /\
  r_message_begin PBinary (mkS [x00; x01; x00; x01; x00] r0) = Err EBadVersion /\
  a_message_begin PBinary (mkS [x00; x01; x00; x01; x00] r0) = Err EBadVersion.
Proof.
  cbv zeta. split; [|vm_compute; repeat split; reflexivity].
  intros p. destruct p; vm_compute; eexists; (split; [reflexivity|]); split; reflexivity.
Qed.
