(* The small statement / expression language the translator (tools/extract.py gen_prim_ops, parser
   tools/rustmini.py) lowers the METHOD BODIES of pilota's Thrift protocols into
   (pilota/src/thrift/{binary,binary_le,compact}.rs: the TOutputProtocol writers over BytesMut and LinkedBytes,
   the TLengthProtocol methods).  Generated/PrimOps.v is a table of rows in this language, regenerated on every
   run; Thrift/PrimOpsSem.v gives the language a denotation over the byte model; Proofs/PrimOpsP.v proves that every
   regenerated row denotes the hand-written primitive of Proto.v / Len.v.  Syntax only, no proofs. *)
From Coq Require Import String List ZArith Bool.
Import ListNotations.
Open Scope bool_scope.

Inductive expr :=
| EVar (x : string)                         (* parameter, local, or a field of an identifier parameter: "identifier.size" *)
| ESelf (f : string)                        (* self.<f> *)
| EK (z : Z)
| ENamed (c : string)                       (* TType::Stop, TCompactType::BooleanTrue, COMPACT_PROTOCOL_ID, ZERO_COPY_THRESHOLD ... *)
| ELen (e : expr)                           (* e.len() *)
| ECast (t : string) (e : expr)             (* e as t ; t = "into" for e.into() *)
| ETyped (t : string) (e : expr)            (* argument of a generic VarInt function: its static integer type *)
| EBin (o : string) (a b : expr)
| ENot (e : expr)
| EIfE (c a b : expr)
| ECompact (e : expr)                       (* tcompact_get_compact(e)? / TCompactType::try_from(e)? *)
| ECompactU (e : expr)                      (* ... .unwrap() *)
| EUnwrap (e : expr)                        (* Option::unwrap / expect *)
| EIsSome (e : expr)
| EReqSpace (e : expr)                      (* VarInt::required_space(e) *)
| ECallLen (m : string) (args : list expr)  (* self.<m>(args), m a *_len method *)
| EByteOf (en : string) (w i : Z) (e : expr)(* e.to_<en>_bytes()[i], e of width w bytes *)
| EBytes (en : string) (w : Z) (e : expr)   (* e.to_<en>_bytes() *)
(* readers *)
| EGet (k : string)                         (* self.trans.read_<k>()? / self.reader.read_<k>().await? *)
| ERead (m : string)                        (* self.<m>()[.await]? , m a sibling read method *)
| EVarintR (t : string)                     (* self.read_varint[_async]::<t>()[.await]? *)
| ETryTType (e : expr)                      (* u8 -> TType (field_type_from_u8 / try_into().map_err(..)) *)
| ECheckSize (e : expr)                     (* checked_container_size(e, self.trans.len())? *)
| ESplit (how : string) (e : expr)          (* split_to_checked(self.trans, e)? | self.trans.read_to_string(e)? | read_exact_to_vec(reader, e).await? *)
| ETuple (es : list expr)                   (* T*Identifier::new(..) / a tuple *)
| EGetSlice (n : Z).                        (* let mut u = [0; n]; read_to_slice(&mut u)? / read_exact(&mut u).await? *)

Inductive stmt :=
| SPut (k : string) (e : expr)              (* self.trans[.bytes_mut()].write_<k>(e) *)
| SPutArr (es : list expr)                  (* write_slice(&[e1, e2, ...]) *)
| SVarint (e : expr)                        (* let size = e.encode_var(&mut buf); write_slice(&buf[0..size]) *)
| SCall (m : string) (args : list expr)     (* self.<m>(args)[?] *)
| SLet (x : string) (e : expr)
| SIf (c : expr) (t f : list stmt)
| SIfV (c : expr) (t : list stmt) (tv : expr) (f : list stmt) (fv : expr)   (* arms ending in a value, bound to "$match" *)
| SSet (f : string) (e : expr)              (* self.<f> = e *)
| SAdd (f : string) (e : expr)              (* self.<f> += e *)
| SAddVar (x : string) (e : expr)           (* x += e *)
| SPushLast                                 (* self.<..>_field_id_stack.push(self.last_<..>_field_id) *)
| SPopLast                                  (* self.last_.. = self.<..>_stack.pop().ok_or_else(..)? *)
| SPopLastUnwrap                            (* ... .unwrap() *)
| SAssertNoPending                          (* self.assert_no_pending_bool_write() *)
| SPanic
| SSetPending (e : expr)                    (* self.pending_.. = Some(TFieldIdentifier { .. id: Some(e) }) *)
| SSetPendingOpt (e : expr)                 (* ... id: e, e an Option<i16> *)
| STakePending (x : string) (s n : list stmt)                               (* match self.pending_...take() { Some(x) => s, None => n } *)
| STakePendingV (x : string) (s : list stmt) (sv : expr) (n : list stmt) (nv : expr)
| SHeaderLen (ax : string) (t id : expr)    (* write_field_header_len!(self, ax, t, id) *)
| SInsert (e : expr)                        (* self.trans.insert(e) / insert_faststr(e) *)
| SReturnOk                                 (* return Ok(()) *)
| SLet2 (x y : string) (e : expr)           (* let (x, y) = e *)
| SFail (kind : string).                    (* return Err(new_protocol_exception(ProtocolExceptionKind::<kind>, ..)) *)

Record prow := mkRow {
  r_proto : string;          (* binary | binary_le | compact *)
  r_class : string;          (* write | len | read *)
  r_flavour : string;        (* bytesmut | linked | any | sync | async *)
  r_method : string;
  r_params : list string;
  r_body : list stmt;
  r_value : option expr      (* the tail value of a length method *)
}.

(* ---- decidable equality of rows' bodies (for the table comparison by computation) ---- *)
Fixpoint expr_eqb (a b : expr) {struct a} : bool :=
  let fix list_eqb (l1 l2 : list expr) {struct l1} : bool :=
    match l1, l2 with
    | [], [] => true
    | x :: t, y :: u => expr_eqb x y && list_eqb t u
    | _, _ => false
    end in
  match a, b with
  | EVar x, EVar y | ESelf x, ESelf y | ENamed x, ENamed y | EGet x, EGet y | ERead x, ERead y | EVarintR x, EVarintR y => String.eqb x y
  | EGetSlice x, EGetSlice y => Z.eqb x y
  | ETryTType x, ETryTType y | ECheckSize x, ECheckSize y => expr_eqb x y
  | ESplit s x, ESplit t y => String.eqb s t && expr_eqb x y
  | ETuple l1, ETuple l2 => list_eqb l1 l2
  | EK x, EK y => Z.eqb x y
  | ELen x, ELen y | ENot x, ENot y | ECompact x, ECompact y | ECompactU x, ECompactU y
  | EUnwrap x, EUnwrap y | EIsSome x, EIsSome y | EReqSpace x, EReqSpace y => expr_eqb x y
  | ECast s x, ECast t y | ETyped s x, ETyped t y => String.eqb s t && expr_eqb x y
  | EBin o x1 x2, EBin q y1 y2 => String.eqb o q && expr_eqb x1 y1 && expr_eqb x2 y2
  | EIfE x1 x2 x3, EIfE y1 y2 y3 => expr_eqb x1 y1 && expr_eqb x2 y2 && expr_eqb x3 y3
  | ECallLen m l1, ECallLen n l2 => String.eqb m n && list_eqb l1 l2
  | EByteOf s w i x, EByteOf t v j y => String.eqb s t && Z.eqb w v && Z.eqb i j && expr_eqb x y
  | EBytes s w x, EBytes t v y => String.eqb s t && Z.eqb w v && expr_eqb x y
  | _, _ => false
  end.

Fixpoint exprs_eqb (l1 l2 : list expr) : bool :=
  match l1, l2 with
  | [], [] => true
  | x :: t, y :: u => expr_eqb x y && exprs_eqb t u
  | _, _ => false
  end.

Fixpoint stmt_eqb (a b : stmt) {struct a} : bool :=
  let fix list_eqb (l1 l2 : list stmt) {struct l1} : bool :=
    match l1, l2 with
    | [], [] => true
    | x :: t, y :: u => stmt_eqb x y && list_eqb t u
    | _, _ => false
    end in
  match a, b with
  | SPut k x, SPut l y => String.eqb k l && expr_eqb x y
  | SPutArr x, SPutArr y => exprs_eqb x y
  | SVarint x, SVarint y | SSetPending x, SSetPending y | SSetPendingOpt x, SSetPendingOpt y | SInsert x, SInsert y => expr_eqb x y
  | SCall m x, SCall n y => String.eqb m n && exprs_eqb x y
  | SLet s x, SLet t y | SSet s x, SSet t y | SAdd s x, SAdd t y | SAddVar s x, SAddVar t y => String.eqb s t && expr_eqb x y
  | SIf c t f, SIf c' t' f' => expr_eqb c c' && list_eqb t t' && list_eqb f f'
  | SIfV c t tv f fv, SIfV c' t' tv' f' fv' => expr_eqb c c' && list_eqb t t' && expr_eqb tv tv' && list_eqb f f' && expr_eqb fv fv'
  | SPushLast, SPushLast | SPopLast, SPopLast | SPopLastUnwrap, SPopLastUnwrap | SAssertNoPending, SAssertNoPending
  | SPanic, SPanic | SReturnOk, SReturnOk => true
  | SLet2 x y e, SLet2 x' y' e' => String.eqb x x' && String.eqb y y' && expr_eqb e e'
  | SFail a', SFail b' => String.eqb a' b'
  | STakePending x s n, STakePending x' s' n' => String.eqb x x' && list_eqb s s' && list_eqb n n'
  | STakePendingV x s sv n nv, STakePendingV x' s' sv' n' nv' =>
      String.eqb x x' && list_eqb s s' && expr_eqb sv sv' && list_eqb n n' && expr_eqb nv nv'
  | SHeaderLen a t i, SHeaderLen a' t' i' => String.eqb a a' && expr_eqb t t' && expr_eqb i i'
  | _, _ => false
  end.

Fixpoint stmts_eqb (l1 l2 : list stmt) : bool :=
  match l1, l2 with
  | [], [] => true
  | x :: t, y :: u => stmt_eqb x y && stmts_eqb t u
  | _, _ => false
  end.

Definition oexpr_eqb (a b : option expr) : bool :=
  match a, b with Some x, Some y => expr_eqb x y | None, None => true | _, _ => false end.
