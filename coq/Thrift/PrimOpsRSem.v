(* Denotation of the reader rows of Generated/PrimOps.v (class "read": the TInputProtocol / TAsyncInputProtocol
   methods of binary.rs, binary_le.rs, compact.rs, lowered to the language of Thrift/PrimOp.v) over the byte model.

   Expressions of reader bodies have effects (every `self.trans.read_i32()?` consumes bytes), so evaluation threads the
   reader state; evaluation order is Rust's (left to right, arguments before the call).  A transport read is built on
   Proto.r_take (in-memory: a missing byte is IOError::NoRemaining -> InvalidData) or Async.a_take (stream: io error ->
   Transport), a varint read on Proto.r_varint / Async.a_varint.  Calls to sibling methods (self.read_byte()? ...) are
   interpreted by the model primitive of the callee ([rcall]).  STUCK = [Panic SOtherPanic] as in PrimOpsSem.v.

   Not lowered by the translator (listed in tools/extract.py PRIM_READ_NOT_LOWERED): the stateful compact readers
   (read_field_begin, read_bool, read_map_begin, read_struct_begin/end; read_collection_begin and read_varint are private
   helpers) and read_message_begin.  No proofs in this file. *)
From Coq Require Import String.
From PV Require Import Thrift.Async Thrift.PrimOp Thrift.PrimOpsSem.
Open Scope string_scope.
Open Scope Z_scope.

Section REval.
  Variable async : bool.
  Variable p : pk.

  Definition take (n : nat) : rm (list byte) := if async then a_take n else r_take n.
  Definition fixed (n : nat) (f : list byte -> Z) : rm val := fun s =>
    let* (a, s) := take n s in Ok (VZ (f a), s).

  Definition get (k : string) : option (rm val) :=
    if seqb k "u8" then Some (fixed 1 of_le)
    else if seqb k "i8" then Some (fixed 1 (fun a => wrap_s 8 (of_le a)))
    else if seqb k "i16" then Some (fixed 2 (fun a => wrap_s 16 (of_be a)))
    else if seqb k "i16_le" then Some (fixed 2 (fun a => wrap_s 16 (of_le a)))
    else if seqb k "i32" then Some (fixed 4 (fun a => wrap_s 32 (of_be a)))
    else if seqb k "i32_le" then Some (fixed 4 (fun a => wrap_s 32 (of_le a)))
    else if seqb k "i64" then Some (fixed 8 (fun a => wrap_s 64 (of_be a)))
    else if seqb k "i64_le" then Some (fixed 8 (fun a => wrap_s 64 (of_le a)))
    else if seqb k "f64" then Some (fixed 8 of_be)
    else if seqb k "f64_le" then Some (fixed 8 of_le)
    else None.

  Definition varint_raw (m : nat) : rm Z := if async then a_varint m else r_varint m.
  Definition varint (t : string) : option (rm val) :=
    if seqb t "i16" then Some (fun s => let* (n, s) := varint_raw maxsize_16 s in Ok (VZ (wrap_s 16 (unzigzag n)), s))
    else if seqb t "i32" then Some (fun s => let* (n, s) := varint_raw maxsize_32 s in Ok (VZ (wrap_s 32 (unzigzag n)), s))
    else if seqb t "i64" then Some (fun s => let* (n, s) := varint_raw maxsize_64 s in Ok (VZ (wrap_s 64 (unzigzag n)), s))
    else if seqb t "u32" then Some (fun s => let* (n, s) := varint_raw maxsize_32 s in Ok (VZ (wrap_u 32 n), s))
    else None.

  Definition inj {A} (f : A -> val) (m : rm A) : rm val := fun s => let* (x, s) := m s in Ok (f x, s).

  (* the sibling read methods a body may call, as the model has them *)
  Definition rcall (m : string) : option (rm val) :=
    if seqb m "read_byte" then Some (inj VZ (if async then a_byte else r_byte))
    else if seqb m "read_i8" then Some (inj VZ (if async then a_i8 else r_i8))
    else if seqb m "read_i16" then Some (inj VZ (if async then a_i16 p else r_i16 p))
    else if seqb m "read_i32" then Some (inj VZ (if async then a_i32 p else r_i32 p))
    else if seqb m "read_bytes_vec" || seqb m "read_string" then Some (inj VB (if async then Async.a_bytes p else r_bytes p))
    else if seqb m "read_collection_begin"
         then Some (inj (fun h => VTup [VT (fst h); VZ (snd h)]) (if async then a_coll_begin p else r_coll_begin p))
    else None.

  Definition split (how : string) (n : Z) : option (rm val) :=
    if seqb how "split_to_checked" || seqb how "read_to_string"
    then (if async then None else Some (inj VB (r_split n)))
    else if seqb how "read_exact_to_vec"
    then (if async
          then Some (fun s => if n <=? Z.of_nat (length (rbuf s)) then inj VB (a_take (Z.to_nat n)) s else Err ETransport)
          else None)
    else None.

  Definition err_of (kind : string) : option err :=
    if seqb kind "NegativeSize" then Some ENegativeSize
    else if seqb kind "InvalidData" then Some EInvalidData
    else if seqb kind "BadVersion" then Some EBadVersion
    else if seqb kind "SizeLimit" then Some ESizeLimit
    else None.

  Definition orstuck {A} (o : option (rm A)) : rm A := match o with Some m => m | None => fun _ => stuck end.

  Fixpoint rev (en : env) (e : expr) (s : rst) {struct e} : res (val * rst) :=
    let fix revs (l : list expr) (s : rst) {struct l} : res (list val * rst) :=
      match l with
      | [] => Ok ([], s)
      | x :: t => match rev en x s with
                  | Ok (v, s1) => match revs t s1 with Ok (vs, s2) => Ok (v :: vs, s2) | Err e => Err e | Panic q => Panic q end
                  | Err e => Err e
                  | Panic q => Panic q
                  end
      end in
    match e with
    | EVar x => match lookup x en with Some v => Ok (v, s) | None => stuck end
    | EK z => Ok (VZ z, s)
    | ENamed n => match named n with Some v => Ok (v, s) | None => stuck end
    | ECast t a => match rev en a s with
                   | Ok (v, s1) => match cast t v with Ok v' => Ok (v', s1) | Err e => Err e | Panic q => Panic q end
                   | Err e => Err e | Panic q => Panic q
                   end
    | EBin o a b => match rev en a s with
                    | Ok (x, s1) => match rev en b s1 with
                                    | Ok (y, s2) => match binop o x y with Ok v => Ok (v, s2) | Err e => Err e | Panic q => Panic q end
                                    | Err e => Err e | Panic q => Panic q
                                    end
                    | Err e => Err e | Panic q => Panic q
                    end
    | EIfE q a b => match rev en q s with
                    | Ok (VZ z, s1) => if z =? 0 then rev en b s1 else rev en a s1
                    | Ok _ => stuck | Err e => Err e | Panic x => Panic x
                    end
    | EGet k => orstuck (get k) s
    | ERead m => orstuck (rcall m) s
    | EVarintR t => orstuck (varint t) s
    | ETryTType a => match rev en a s with
                     | Ok (VZ b, s1) => match ttype_of_byte b with Some t => Ok (VT t, s1) | None => Err EInvalidData end
                     | Ok _ => stuck | Err e => Err e | Panic q => Panic q
                     end
    | ECheckSize a => match rev en a s with
                      | Ok (VZ n, s1) => if async then stuck
                                         else match check_size n s1 with Ok m => Ok (VZ m, s1) | Err e => Err e | Panic q => Panic q end
                      | Ok _ => stuck | Err e => Err e | Panic q => Panic q
                      end
    | ESplit how a => match rev en a s with
                      | Ok (VZ n, s1) => orstuck (split how n) s1
                      | Ok _ => stuck | Err e => Err e | Panic q => Panic q
                      end
    | ETuple es => match revs es s with Ok (vs, s1) => Ok (VTup vs, s1) | Err e => Err e | Panic q => Panic q end
    | EGetSlice n => inj VB (take (Z.to_nat n)) s
    | _ => stuck
    end.

  Record rest := mkRE { re_env : env; re_st : rst }.

  Fixpoint rexec (st : stmt) (x : rest) {struct st} : res rest :=
    let fix rexecs (l : list stmt) (x : rest) {struct l} : res rest :=
      match l with
      | [] => Ok x
      | a :: t => match rexec a x with Ok x' => rexecs t x' | Err e => Err e | Panic q => Panic q end
      end in
    match st with
    | SLet v e => match rev (re_env x) e (re_st x) with
                  | Ok (r, s1) => Ok (mkRE ((v, r) :: re_env x) s1)
                  | Err e' => Err e' | Panic q => Panic q
                  end
    | SLet2 v w e => match rev (re_env x) e (re_st x) with
                     | Ok (VTup [a; b], s1) => Ok (mkRE ((v, a) :: (w, b) :: re_env x) s1)
                     | Ok _ => stuck | Err e' => Err e' | Panic q => Panic q
                     end
    | SIf c t f => match rev (re_env x) c (re_st x) with
                   | Ok (VZ z, s1) => if z =? 0 then rexecs f (mkRE (re_env x) s1) else rexecs t (mkRE (re_env x) s1)
                   | Ok _ => stuck | Err e' => Err e' | Panic q => Panic q
                   end
    | SFail kind => match err_of kind with Some e => Err e | None => stuck end
    | _ => stuck
    end.

  Fixpoint rexecs (l : list stmt) (x : rest) : res rest :=
    match l with
    | [] => Ok x
    | a :: t => match rexec a x with Ok x' => rexecs t x' | Err e => Err e | Panic q => Panic q end
    end.

  (* a reader row: run the statements, then the tail value (a method returning () yields 0) *)
  Definition run_r (r : prow) : rm val := fun s =>
    match rexecs (r_body r) (mkRE [] s) with
    | Ok x => match r_value r with
              | Some e => rev (re_env x) e (re_st x)
              | None => Ok (VZ 0, re_st x)
              end
    | Err e => Err e
    | Panic q => Panic q
    end.

  (* ---- the primitive of the model each read method is compared with ---- *)
  Definition unitr : rm val := fun s => Ok (VZ 0, s).
  Definition rspec (m : string) : option (rm val) :=
    if seqb m "read_byte" then Some (inj VZ (if async then a_byte else r_byte))
    else if seqb m "read_i8" then Some (inj VZ (if async then a_i8 else r_i8))
    else if seqb m "read_i16" then Some (inj VZ (if async then a_i16 p else r_i16 p))
    else if seqb m "read_i32" then Some (inj VZ (if async then a_i32 p else r_i32 p))
    else if seqb m "read_i64" then Some (inj VZ (if async then a_i64 p else r_i64 p))
    else if seqb m "read_double" then Some (inj VZ (if async then a_double p else r_double p))
    else if seqb m "read_uuid" then Some (inj VB (if async then a_uuid else r_uuid))
    else if seqb m "read_bool" then Some (inj b2v (if async then Async.a_bool p else r_bool p))
    else if is_any m ["read_bytes"; "read_string"; "read_faststr"; "read_bytes_vec"]
         then Some (inj VB (if async then Async.a_bytes p else r_bytes p))
    else if is_any m ["read_list_begin"; "read_set_begin"]
         then Some (inj (fun h => VTup [VT (fst h); VZ (snd h)]) (if async then a_coll_begin p else r_coll_begin p))
    else if seqb m "read_map_begin"
         then Some (inj (fun h => VTup [VT (fst (fst h)); VT (snd (fst h)); VZ (snd h)]) (if async then a_map_begin p else r_map_begin p))
    else if seqb m "read_field_begin"
         then Some (inj (fun h => VTup [VT (fst h); VZ (match snd h with Some i => i | None => 0 end)])
                        (if async then a_field_begin p else r_field_begin p))
    else if is_any m ["read_message_end"; "read_field_end"; "read_list_end"; "read_set_end"; "read_map_end";
                      "read_struct_begin"; "read_struct_end"]
         then Some unitr
    else None.
End REval.
