(* C09: the guarded reader layer (Thrift/ProtoG.v) equals the total model on every input and never
   panics; every [Guarded] account of the regenerated site inventory is backed by one of these
   lemmas instead of a sentence. *)
From PV Require Import Thrift.ProtoG Proofs.VarintP Proofs.TablesP Proofs.PrimP Proofs.HeaderP Proofs.RoundtripP
  Proofs.TotalP Proofs.AsyncP Proofs.AsyncErrP Proofs.SkipP Proofs.AppAsyncP.
From Coq Require Import ZifyN ZifyNat ZifyBool.
Open Scope Z_scope.

Lemma take_le n l : (n <= List.length l)%nat -> take n l = Some (firstn n l, skipn n l).
Proof. intros H. unfold take. replace (Nat.leb n (List.length l)) with true by (symmetry; apply Nat.leb_le; exact H). reflexivity. Qed.
Lemma take_gt n l : (List.length l < n)%nat -> take n l = None.
Proof. intros H. unfold take. replace (Nat.leb n (List.length l)) with false by (symmetry; apply Nat.leb_gt; exact H). reflexivity. Qed.

(* ================================================================== *)
(* guarded = total, leaf by leaf *)

Lemma g_take_eq n s : g_take n s = r_take n s.
Proof.
  unfold g_take, assert_remaining, b_copy, r_take, blen.
  destruct (n <=? List.length (rbuf s))%nat eqn:E; cbn [bind].
  - rewrite E, take_le by lia. reflexivity.
  - rewrite take_gt by lia. reflexivity.
Qed.

Lemma g_byte_eq s : g_byte s = r_byte s.
Proof. destruct s as [[|b t] c]; reflexivity. Qed.

Lemma g_i8_eq s : g_i8 s = r_i8 s.
Proof. destruct s as [[|b t] c]; reflexivity. Qed.

Lemma g_split_eq n s : g_split n s = r_split n s.
Proof.
  unfold g_split, assert_remaining_z, b_split_to, b_copy, r_split, r_take, blen.
  destruct (n <=? Z.of_nat (List.length (rbuf s))) eqn:E; cbn [bind]; [|reflexivity].
  replace (Z.to_nat n <=? List.length (rbuf s))%nat with true by lia.
  rewrite take_le by lia. reflexivity.
Qed.

Lemma g_adv_eq n s : g_adv n s = adv n s.
Proof.
  unfold g_adv, adv, assert_remaining, b_advance, r_take, blen.
  destruct (n <=? List.length (rbuf s))%nat eqn:E; cbn [bind].
  - rewrite E, take_le by lia. reflexivity.
  - rewrite take_gt by lia. reflexivity.
Qed.

(* before - trans.len() cannot underflow: the reader in between only shrinks the buffer *)
Definition shrinks {A} (m : rm A) : Prop := forall s x s', m s = Ok (x, s') -> (blen s' <= blen s)%nat.

Lemma g_via_eq {A} (m : rm A) s : shrinks m -> g_via m s = via m s.
Proof.
  intros Hm. unfold g_via, via. destruct (m s) as [[x s']| |] eqn:E; cbn [bind]; try reflexivity.
  specialize (Hm _ _ _ E). unfold usub. replace (blen s' <=? blen s)%nat with true by lia. cbn [bind].
  unfold consumed. do 2 f_equal. lia.
Qed.

Lemma good_shrinks {A} (m : rm A) k : (forall s, good (m s) s k) -> shrinks m.
Proof. intros H s x s' E. specialize (H s). rewrite E in H. cbn in H. lia. Qed.

(* ---- the varint processor ---- *)
Lemma var_value_app a b : var_value (a ++ [b]) = var_value a + (b2z b mod 128) * 2 ^ (7 * Z.of_nat (List.length a)).
Proof.
  induction a as [|x t IH]; cbn [app var_value List.length].
  - cbn. lia.
  - rewrite IH. replace (7 * Z.of_nat (S (List.length t))) with (7 + 7 * Z.of_nat (List.length t)) by lia.
    rewrite Z.pow_add_r by lia. change (2 ^ 7) with 128. lia.
Qed.

Lemma nth_last_app (a : list byte) b : nth (List.length a) (a ++ [b]) x00 = b.
Proof. rewrite app_nth2 by lia. rewrite Nat.sub_diag. reflexivity. Qed.

Lemma p_finished_cont pushed : (List.length pushed <= arr_len)%nat ->
  Forall (fun b => 128 <= b2z b) pushed -> p_finished pushed = Ok false.
Proof.
  intros Hl HF. unfold p_finished. destruct pushed as [|x t] using rev_ind; [reflexivity|].
  rewrite app_length in *. cbn [List.length] in *.
  replace (0 <? List.length t + 1)%nat with true by lia.
  unfold usub. replace (1 <=? List.length t + 1)%nat with true by lia. cbn [bind].
  replace (List.length t + 1 - 1)%nat with (List.length t) by lia.
  unfold arr_get. unfold arr_len in *. replace (List.length t <? 10)%nat with true by lia. cbn [bind].
  rewrite nth_last_app. apply Forall_app in HF as [_ HF]. inversion HF; subst.
  replace (b2z x <? 128) with false by lia. reflexivity.
Qed.

Lemma p_finished_last pushed b : (List.length pushed < arr_len)%nat -> b2z b < 128 -> p_finished (pushed ++ [b]) = Ok true.
Proof.
  intros Hl Hb. unfold p_finished. rewrite app_length. cbn [List.length].
  replace (0 <? List.length pushed + 1)%nat with true by lia.
  unfold usub. replace (1 <=? List.length pushed + 1)%nat with true by lia. cbn [bind].
  replace (List.length pushed + 1 - 1)%nat with (List.length pushed) by lia.
  unfold arr_get. unfold arr_len in *. replace (List.length pushed <? 10)%nat with true by lia. cbn [bind].
  rewrite nth_last_app. replace (b2z b <? 128) with true by lia. reflexivity.
Qed.

Lemma g_rd_var_eq maxsize : (maxsize <= arr_len)%nat ->
  forall k pushed buf n, (List.length pushed + k = maxsize)%nat -> (k < n)%nat ->
    Forall (fun b => 128 <= b2z b) pushed ->
    g_rd_var n maxsize pushed buf = rd_var k (7 * Z.of_nat (List.length pushed)) (var_value pushed) buf.
Proof.
  intros Hm. induction k as [|k IH]; intros pushed buf n Hk Hn HF;
    (destruct n as [|n]; [lia|]); cbn [g_rd_var rd_var];
    rewrite (p_finished_cont pushed) by (auto; lia); cbn [bind].
  - destruct buf as [|b rest]; [reflexivity|]. unfold p_push.
    replace (maxsize <=? List.length pushed)%nat with true by lia. reflexivity.
  - destruct buf as [|b rest]; [reflexivity|]. unfold p_push, arr_push.
    replace (maxsize <=? List.length pushed)%nat with false by lia.
    unfold arr_len in *. replace (List.length pushed <? 10)%nat with true by lia. cbn [bind].
    destruct (b2z b <? 128) eqn:Eb.
    + destruct n as [|n]; cbn [g_rd_var]; rewrite (p_finished_last pushed b) by (unfold arr_len; lia); cbn [bind];
        unfold p_decode, arr_slice, arr_len;
        (replace (List.length (pushed ++ [b]) <=? 10)%nat with true by (rewrite app_length; cbn [List.length]; lia)); cbn [bind];
        rewrite firstn_all, var_value_app; reflexivity.
    + rewrite (IH (pushed ++ [b]) rest n).
      * rewrite app_length, var_value_app. cbn [List.length].
        replace (7 * Z.of_nat (List.length pushed + 1)) with (7 * Z.of_nat (List.length pushed) + 7) by lia. reflexivity.
      * rewrite app_length. cbn [List.length]. lia.
      * lia.
      * apply Forall_app. split; [exact HF|]. constructor; [lia|constructor].
Qed.

Lemma g_read_var_eq maxsize buf : (maxsize <= arr_len)%nat -> g_read_var_u64 maxsize buf = read_var_u64 maxsize buf.
Proof.
  intros Hm. unfold g_read_var_u64, read_var_u64.
  rewrite (g_rd_var_eq maxsize Hm maxsize [] buf (S maxsize)); auto.
Qed.

(* every integer type the readers use fits the processor's array *)
Lemma maxsizes_fit : (maxsize_16 <= arr_len)%nat /\ (maxsize_32 <= arr_len)%nat /\ (maxsize_64 <= arr_len)%nat.
Proof. unfold maxsize_16, maxsize_32, maxsize_64, arr_len. lia. Qed.

(* ---- the skippers ---- *)
Lemma skip_fields_ext p (r1 r2 : ttype -> rst -> res (Z * rst)) : (forall ty s, r1 ty s = r2 ty s) ->
  forall n s acc, skip_fields p r1 n s acc = skip_fields p r2 n s acc.
Proof.
  intros H. induction n as [|n IH]; intros s acc; [reflexivity|]. cbn [skip_fields].
  destruct (r_field_begin p s) as [[h s1]| |]; cbn [bind]; try reflexivity.
  destruct (ttype_eqb (fst h) TStop); [reflexivity|]. rewrite H.
  destruct (r2 (fst h) s1) as [[k s2]| |]; cbn [bind]; auto.
Qed.
Lemma skip_elems_ext (r1 r2 : ttype -> rst -> res (Z * rst)) : (forall ty s, r1 ty s = r2 ty s) ->
  forall m et n s acc, skip_elems r1 m et n s acc = skip_elems r2 m et n s acc.
Proof.
  intros H. induction m as [|m IH]; intros et n s acc; cbn [skip_elems]; [reflexivity|].
  destruct (n <=? 0); [reflexivity|]. rewrite H. destruct (r2 et s) as [[k s1]| |]; cbn [bind]; auto.
Qed.
Lemma skip_pairs_ext (r1 r2 : ttype -> rst -> res (Z * rst)) : (forall ty s, r1 ty s = r2 ty s) ->
  forall m kt vt n s acc, skip_pairs r1 m kt vt n s acc = skip_pairs r2 m kt vt n s acc.
Proof.
  intros H. induction m as [|m IH]; intros kt vt n s acc; cbn [skip_pairs]; [reflexivity|].
  destruct (n <=? 0); [reflexivity|]. rewrite H. destruct (r2 kt s) as [[k s1]| |]; cbn [bind]; auto.
  rewrite H. destruct (r2 vt s1) as [[k2 s2]| |]; cbn [bind]; auto.
Qed.

Lemma usub_S d : usub (S d) 1 = Ok d.
Proof. unfold usub. cbn. rewrite Nat.sub_0_r. reflexivity. Qed.

Theorem g_skip_val_eq p : forall f d ty s, g_skip_val p f d ty s = skip_val p f d ty s.
Proof.
  induction f as [|f IH]; intros d ty s; [reflexivity|].
  destruct d as [|d]; [reflexivity|]. cbn [g_skip_val skip_val Nat.eqb].
  assert (Hrec : forall ty s, (let* d' := usub (S d) 1 in g_skip_val p f d' ty s) = skip_val p f d ty s).
  { intros ty0 s0. rewrite usub_S. cbn [bind]. apply IH. }
  destruct ty; try reflexivity.
  - destruct (is_compact p); [apply g_via_eq, (good_shrinks _ 0), r_bool_good|apply g_adv_eq].
  - destruct (is_compact p); [apply g_via_eq, (good_shrinks _ 1), r_i8_good|apply g_adv_eq].
  - destruct (is_compact p); [apply g_via_eq, (good_shrinks _ 8), r_double_good|apply g_adv_eq].
  - destruct (is_compact p); [apply g_via_eq, (good_shrinks _ 1), r_i16_good|apply g_adv_eq].
  - destruct (is_compact p); [apply g_via_eq, (good_shrinks _ 1), r_i32_good|apply g_adv_eq].
  - destruct (is_compact p); [apply g_via_eq, (good_shrinks _ 1), r_i64_good|apply g_adv_eq].
  - destruct (is_compact p); [apply g_via_eq, (good_shrinks _ 1), r_bytes_good|].
    destruct (r_i32 p s) as [[n s1]| |]; cbn [bind]; try reflexivity.
    unfold assert_remaining_z, b_advance, r_take.
    destruct (wrap_u 64 n <=? Z.of_nat (blen s1)) eqn:E; cbn [bind]; [|reflexivity].
    replace (Z.to_nat (wrap_u 64 n) <=? blen s1)%nat with true by lia. cbn [bind].
    unfold blen in *. rewrite take_le by lia. reflexivity.
  - destruct (r_struct_begin p s) as [[u s1]| |]; cbn [bind]; try reflexivity.
    rewrite (skip_fields_ext p _ _ Hrec). reflexivity.
  - destruct (r_map_begin p s) as [[h s1]| |]; cbn [bind]; try reflexivity. apply skip_pairs_ext, Hrec.
  - destruct (r_coll_begin p s) as [[h s1]| |]; cbn [bind]; try reflexivity. apply skip_elems_ext, Hrec.
  - destruct (r_coll_begin p s) as [[h s1]| |]; cbn [bind]; try reflexivity. apply skip_elems_ext, Hrec.
  - destruct (is_compact p); [apply g_via_eq, (good_shrinks _ 16), r_uuid_good|apply g_adv_eq].
Qed.

Lemma askip_fields_ext p (r1 r2 : ttype -> rst -> res (unit * rst)) : (forall ty s, r1 ty s = r2 ty s) ->
  forall n s, askip_fields p r1 n s = askip_fields p r2 n s.
Proof.
  intros H. induction n as [|n IH]; intros s; [reflexivity|]. cbn [askip_fields].
  destruct (a_field_begin p s) as [[h s1]| |]; cbn [bind]; try reflexivity.
  destruct (ttype_eqb (fst h) TStop); [reflexivity|]. rewrite H.
  destruct (r2 (fst h) s1) as [[k s2]| |]; cbn [bind]; auto.
Qed.
Lemma askip_elems_ext (r1 r2 : ttype -> rst -> res (unit * rst)) : (forall ty s, r1 ty s = r2 ty s) ->
  forall m et n s, askip_elems r1 m et n s = askip_elems r2 m et n s.
Proof.
  intros H. induction m as [|m IH]; intros et n s; cbn [askip_elems]; [reflexivity|].
  destruct (n <=? 0); [reflexivity|]. rewrite H. destruct (r2 et s) as [[k s1]| |]; cbn [bind]; auto.
Qed.
Lemma askip_pairs_ext (r1 r2 : ttype -> rst -> res (unit * rst)) : (forall ty s, r1 ty s = r2 ty s) ->
  forall m kt vt n s, askip_pairs r1 m kt vt n s = askip_pairs r2 m kt vt n s.
Proof.
  intros H. induction m as [|m IH]; intros kt vt n s; cbn [askip_pairs]; [reflexivity|].
  destruct (n <=? 0); [reflexivity|]. rewrite H. destruct (r2 kt s) as [[k s1]| |]; cbn [bind]; auto.
  rewrite H. destruct (r2 vt s1) as [[k2 s2]| |]; cbn [bind]; auto.
Qed.

Theorem g_askip_val_eq p : forall f d ty s, g_askip_val p f d ty s = askip_val p f d ty s.
Proof.
  induction f as [|f IH]; intros d ty s; [reflexivity|].
  destruct d as [|d]; [reflexivity|]. cbn [g_askip_val askip_val Nat.eqb].
  assert (Hrec : forall ty s, (let* d' := usub (S d) 1 in g_askip_val p f d' ty s) = askip_val p f d ty s).
  { intros ty0 s0. rewrite usub_S. cbn [bind]. apply IH. }
  destruct ty; try reflexivity.
  - destruct (a_struct_begin p s) as [[u s1]| |]; cbn [bind]; try reflexivity.
    rewrite (askip_fields_ext p _ _ Hrec). reflexivity.
  - destruct (a_map_begin p s) as [[h s1]| |]; cbn [bind]; try reflexivity. apply askip_pairs_ext, Hrec.
  - destruct (a_coll_begin p s) as [[h s1]| |]; cbn [bind]; try reflexivity. apply askip_elems_ext, Hrec.
  - destruct (a_coll_begin p s) as [[h s1]| |]; cbn [bind]; try reflexivity. apply askip_elems_ext, Hrec.
Qed.

(* ================================================================== *)
(* panic freedom *)
Definition nopanic {A} (o : res A) : Prop := forall sp, o <> Panic sp.

Lemma r_take_np n s : nopanic (r_take n s).
Proof. unfold r_take. destruct (take n (rbuf s)) as [[a r]|]; intros sp; discriminate. Qed.
Lemma good_np {A} (o : res (A * rst)) s k : good o s k -> nopanic o.
Proof. intros G sp ->. exact G. Qed.

Lemma g_take_np n s : nopanic (g_take n s).
Proof. rewrite g_take_eq. apply r_take_np. Qed.
Lemma g_byte_np s : nopanic (g_byte s).
Proof. rewrite g_byte_eq. eapply good_np, r_byte_good. Qed.
Lemma g_i8_np s : nopanic (g_i8 s).
Proof. rewrite g_i8_eq. eapply good_np, r_i8_good. Qed.
Lemma g_split_np n s : nopanic (g_split n s).
Proof. rewrite g_split_eq. eapply good_np, r_split_good. Qed.
Lemma g_adv_np n s : nopanic (g_adv n s).
Proof. rewrite g_adv_eq. unfold adv. pose proof (r_take_np n s) as H. destruct (r_take n s) as [[a s']| |]; intros sp; try discriminate. exfalso. exact (H s0 eq_refl). Qed.
Lemma g_read_var_np maxsize buf : (maxsize <= arr_len)%nat -> nopanic (g_read_var_u64 maxsize buf).
Proof.
  intros Hm. rewrite g_read_var_eq by exact Hm.
  pose proof (r_varint_good maxsize (mkS buf r0)) as G. unfold r_varint in G. cbn [rbuf] in G.
  intros sp E. rewrite E in G. exact G.
Qed.

(* the value readers and the skippers of the three protocols, on every byte string and from every
   reader state, with fuel beyond the input length (the bound of C09_total) *)
Theorem read_val_np p f ty s : (blen s < f)%nat -> nopanic (read_val p f ty s).
Proof. intros Hf. eapply good_np, read_val_good, Hf. Qed.

Theorem skip_val_np p f d ty s : (blen s < f)%nat -> nopanic (skip_val p f d ty s).
Proof.
  intros Hf sp E. pose proof (read_val_good p f ty s Hf) as G.
  destruct (read_val p f ty s) as [[v s']|e|sp'] eqn:R; [| |exact G].
  - destruct (sk_dich p f d ty s v s' R) as [[c H]|[e H]]; congruence.
  - destruct (read_err_skip_err p f ty s e R d) as [e' H]. congruence.
Qed.

Theorem g_skip_val_np p f d ty s : (blen s < f)%nat -> nopanic (g_skip_val p f d ty s).
Proof. rewrite g_skip_val_eq. apply skip_val_np. Qed.

Theorem askip_val_np p f d ty s : npb s -> nopanic (askip_val p f d ty s).
Proof.
  intros Hn sp E. pose proof (AsyncErrP.aread_ag1 p f ty s Hn) as G.
  destruct (aread_val p f ty s) as [[v s']|e|sp'] eqn:R; [| |exact G].
  - destruct (ask_dich p f d ty s v s' R) as [H|[e H]]; congruence.
  - destruct (aread_err_askip_err p f ty s e R d) as [e' H]. congruence.
Qed.

Theorem g_askip_val_np p f d ty s : npb s -> nopanic (g_askip_val p f d ty s).
Proof. rewrite g_askip_val_eq. apply askip_val_np. Qed.

(* non-vacuity of the partial layer: without its guard each operation DOES panic on a short buffer, and a
   skipper entered with depth 0 without the entry test would underflow *)
Example partial_ops_panic :
  b_copy 4 (mkS [x00] r0) = Panic SOob /\ b_advance 2 (mkS [x00] r0) = Panic SOob /\ b_chunk0 (mkS [] r0) = Panic SOob /\
  usub 0 1 = Panic SOverflow /\ arr_push (repeat x80 10) x00 = Panic SOob /\
  g_take 4 (mkS [x00] r0) = Err EInvalidData /\ g_adv 2 (mkS [x00] r0) = Err EInvalidData /\ g_byte (mkS [] r0) = Err EInvalidData /\
  g_read_var_u64 10 (repeat x80 11) = Err ETransport /\ g_skip_val PBinary 5 0 TI32 (mkS [x00] r0) = Err EDepthLimit.
Proof. repeat split; reflexivity. Qed.

(* the unchecked reader has NO such guards by design: outside its contract (a window shorter than the
   value) the out-of-bounds outcome is reachable *)
Example unchecked_reader_oob : Unsafe.u_i32 (Unsafe.mkU [x00; x01] 0) = Panic SOob.
Proof. reflexivity. Qed.

(* ================================================================== *)
(* the tie to the regenerated inventory: every [Guarded fn _] account names a model function that has
   a guard lemma in this table -- equality of the guarded leaf (guard + partial operation) with the
   total function on every input; an account naming a function without an entry breaks
   [sites_guard_lemmas] *)
From Coq Require Import String.
From PV Require Import Generated.ReaderSites Thrift.Sites.

Definition guard_table : list (string * Prop) :=
  [("r_take"%string, forall n s, g_take n s = r_take n s);
   ("r_byte"%string, forall s, g_byte s = r_byte s);
   ("r_i8"%string, forall s, g_i8 s = r_i8 s);
   ("r_split"%string, forall n s, g_split n s = r_split n s);
   ("adv"%string, forall n s, g_adv n s = adv n s);
   ("via"%string, forall A (m : rm A) s, shrinks m -> g_via m s = via m s);
   ("rd_var"%string, forall maxsize buf, (maxsize <= arr_len)%nat -> g_read_var_u64 maxsize buf = read_var_u64 maxsize buf);
   ("skip_val"%string, forall p f d ty s, g_skip_val p f d ty s = skip_val p f d ty s);
   ("askip_val"%string, forall p f d ty s, g_askip_val p f d ty s = askip_val p f d ty s)]%list.

Theorem guard_table_proved : Forall (fun q => snd q) guard_table.
Proof.
  repeat constructor; cbn [snd].
  - exact g_take_eq. - exact g_byte_eq. - exact g_i8_eq. - exact g_split_eq. - exact g_adv_eq.
  - intros A m s. apply g_via_eq. - intros m b H. apply g_read_var_eq, H.
  - exact g_skip_val_eq. - exact g_askip_val_eq.
Qed.

Definition guarded_fn_ok (sa : rsite * account) : bool :=
  match snd sa with
  | Guarded fn _ => existsb (String.eqb fn) (map fst guard_table)
  | _ => true
  end.

Theorem sites_guard_lemmas : forallb guarded_fn_ok accounted = true.
Proof. vm_compute. reflexivity. Qed.

Theorem sites_guarded :
  Forall (fun sa => match snd sa with
                    | Guarded fn _ => exists P : Prop, In (fn, P) guard_table /\ P
                    | _ => True
                    end) accounted.
Proof.
  apply Forall_forall. intros sa Hin.
  pose proof (proj1 (forallb_forall _ _) sites_guard_lemmas sa Hin) as H. unfold guarded_fn_ok in H.
  destruct (snd sa); try exact I.
  apply existsb_exists in H as (fn & Hfn & Heq). apply String.eqb_eq in Heq. subst fn.
  apply in_map_iff in Hfn as ([fn P] & Hfst & HinT). cbn [fst] in Hfst. subst fn.
  exists P. split; [exact HinT|]. exact (proj1 (Forall_forall _ _) guard_table_proved _ HinT).
Qed.

(* how many accounts this covers *)
Example guarded_count : List.length (filter (fun sa => match snd sa with Guarded _ _ => true | _ => false end) accounted) = 38%nat.
Proof. vm_compute. reflexivity. Qed.
