(* Varints: the three decode paths of prost agree with one arithmetic specification
   (LEB128 value of at most 10 bytes that fits a u64), the encoder is inverted by it, and
   encoded_len_varint is the number of bytes written. *)
From PVPb Require Import Wire Proofs.BitsP.
From Coq Require Import ZifyN ZifyNat ZifyBool.
Open Scope Z_scope.

(* ------------------------------------------------------------------ specification *)
Inductive lres :=
| LDone (v : Z) (rest : list byte) (cnt : nat)   (* terminated: value, what follows, bytes used *)
| LMore (acc : Z) (rest : list byte)             (* n continuation bytes seen *)
| LShort.                                        (* input ended inside the varint *)

(* scan at most n bytes; byte i contributes (b mod 128) * 2^(k + 7i) *)
Fixpoint leb_scan (n : nat) (k acc : Z) (cnt : nat) (buf : list byte) : lres :=
  match n with
  | O => LMore acc buf
  | S n' =>
      match buf with
      | [] => LShort
      | b :: rest =>
          if b2z b <? 128 then LDone (acc + b2z b * 2 ^ k) rest (S cnt)
          else leb_scan n' (k + 7) (acc + (b2z b - 128) * 2 ^ k) (S cnt) rest
      end
  end.

Definition varint_spec (buf : list byte) : option (Z * list byte) :=
  match leb_scan 10 0 0 0 buf with
  | LDone v rest _ => if v <? two64 then Some (v, rest) else None
  | _ => None
  end.

Definition lres_shift (k acc : Z) (c : nat) (r : lres) : lres :=
  match r with
  | LDone v rest cnt => LDone (acc + v * 2 ^ k) rest (c + cnt)
  | LMore a rest => LMore (acc + a * 2 ^ k) rest
  | LShort => LShort
  end.

Lemma leb_scan_shift n : forall k acc cnt buf, 0 <= k ->
  leb_scan n k acc cnt buf = lres_shift k acc cnt (leb_scan n 0 0 0 buf).
Proof.
  induction n as [|n IH]; intros k acc cnt buf Hk; cbn [leb_scan lres_shift].
  - f_equal. lia.
  - destruct buf as [|b rest]; [reflexivity|].
    destruct (b2z b <? 128).
    + cbn [lres_shift]. f_equal; [|lia]. change (2 ^ 0) with 1. lia.
    + rewrite (IH (k + 7)) by lia. rewrite (IH (0 + 7)) by lia.
      destruct (leb_scan n 0 0 0 rest); cbn [lres_shift]; try reflexivity.
      * f_equal; [|lia]. rewrite Z.pow_add_r by lia. change (2 ^ 0) with 1. change (0 + 7) with 7. ring.
      * f_equal. rewrite Z.pow_add_r by lia. change (2 ^ 0) with 1. change (0 + 7) with 7. ring.
Qed.

Lemma leb_scan_add n m : forall k acc cnt buf,
  leb_scan (n + m) k acc cnt buf =
  match leb_scan n k acc cnt buf with
  | LMore a rest => leb_scan m (k + 7 * Z.of_nat n) a (cnt + n) rest
  | r => r
  end.
Proof.
  induction n as [|n IH]; intros k acc cnt buf.
  - cbn [leb_scan Nat.add]. f_equal; lia.
  - cbn [leb_scan Nat.add]. destruct buf as [|b rest]; [reflexivity|].
    destruct (b2z b <? 128); [reflexivity|].
    rewrite IH. destruct (leb_scan n (k + 7) _ (S cnt) rest); try reflexivity.
    f_equal; lia.
Qed.

(* scanning a prefix *)
Lemma leb_scan_app n : forall k acc cnt p q,
  leb_scan n k acc cnt (p ++ q) =
  match leb_scan n k acc cnt p with
  | LDone v rest c => LDone v (rest ++ q) c
  | LMore a rest => LMore a (rest ++ q)
  | LShort => leb_scan n k acc cnt (p ++ q)
  end.
Proof.
  induction n as [|n IH]; intros k acc cnt p q; cbn [leb_scan]; [reflexivity|].
  destruct p as [|b p']; [reflexivity|]. cbn [app].
  destruct (b2z b <? 128); [reflexivity|].
  rewrite IH. destruct (leb_scan n (k + 7) _ (S cnt) p'); reflexivity.
Qed.

(* the precondition of decode_varint_slice excludes running off the end *)
Definition scan_ok (n : nat) (bytes : list byte) : Prop :=
  (n <= length bytes)%nat \/ (bytes <> [] /\ b2z (last bytes x00) < 128).

Lemma leb_scan_not_short n : forall k acc cnt bytes, scan_ok n bytes -> leb_scan n k acc cnt bytes <> LShort.
Proof.
  induction n as [|n IH]; intros k acc cnt bytes Hok; cbn [leb_scan]; [discriminate|].
  destruct bytes as [|b rest].
  - destruct Hok as [H|[H _]]; [cbn in H; lia|congruence].
  - destruct (Z.ltb_spec (b2z b) 128); [discriminate|].
    apply IH. destruct Hok as [Hl|[_ Hl]].
    + left. cbn [length] in Hl. lia.
    + right. destruct rest as [|c rest']; [cbn in Hl; lia|]. split; [discriminate|exact Hl].
Qed.

Lemma leb_scan_bounds n : forall k acc cnt buf, 0 <= k -> 0 <= acc < 2 ^ k ->
  match leb_scan n k acc cnt buf with
  | LDone v rest c => 0 <= v < 2 ^ (k + 7 * Z.of_nat n) /\ (c <= cnt + n)%nat /\ (cnt < c)%nat /\
                      length buf = (length rest + (c - cnt))%nat
  | LMore a rest => 0 <= a < 2 ^ (k + 7 * Z.of_nat n) /\ length buf = (length rest + n)%nat
  | LShort => True
  end.
Proof.
  induction n as [|n IH]; intros k acc cnt buf Hk Ha; cbn [leb_scan].
  - replace (k + 7 * Z.of_nat 0) with k by lia. split; [auto|lia].
  - destruct buf as [|b rest]; [exact I|].
    pose proof (b2z_range b) as Hb.
    assert (Hp : 2 ^ (k + 7) = 128 * 2 ^ k) by (rewrite Z.pow_add_r by lia; change (2 ^ 7) with 128; lia).
    assert (Hmono : 2 ^ (k + 7) <= 2 ^ (k + 7 * Z.of_nat (S n))) by (apply Z.pow_le_mono_r; lia).
    pose proof (pow2_pos k Hk).
    destruct (Z.ltb_spec (b2z b) 128).
    + cbn [length]. split; [nia|]. lia.
    + specialize (IH (k + 7) (acc + (b2z b - 128) * 2 ^ k) (S cnt) rest ltac:(lia) ltac:(nia)).
      replace (k + 7 + 7 * Z.of_nat n) with (k + 7 * Z.of_nat (S n)) in IH by lia.
      destruct (leb_scan n (k + 7) _ (S cnt) rest); cbn [length]; try exact I.
      * destruct IH as (H1 & H2 & H3 & H4). split; [auto|]. lia.
      * destruct IH as (H1 & H2). split; [auto|lia].
Qed.

(* ------------------------------------------------------------------ decode_varint_slow = spec *)
Lemma slow_value count value byte :
  0 <= count <= 9 -> 0 <= value < 2 ^ (7 * count) -> 0 <= byte < 256 ->
  (count = 9 -> byte mod 128 < 2) ->
  Z.lor value (shl64 (Z.land byte dsl_mask) (count * dsl_shift)) = value + (byte mod 128) * 2 ^ (7 * count).
Proof.
  intros Hc Hv Hb H9. change dsl_mask with 127. change dsl_shift with 7.
  rewrite land_127. replace (count * 7) with (7 * count) by lia.
  assert (Hm : 0 <= byte mod 128 < 128) by (apply Z.mod_pos_bound; lia).
  assert (Hs : (byte mod 128) * 2 ^ (7 * count) < two64).
  { unfold two64. assert (Hcc : count = 0 \/ count = 1 \/ count = 2 \/ count = 3 \/ count = 4 \/ count = 5 \/
            count = 6 \/ count = 7 \/ count = 8 \/ count = 9) by lia.
    repeat (destruct Hcc as [Hcc|Hcc]); subst count; cbn; lia. }
  pose proof (pow2_pos (7 * count) ltac:(lia)).
  rewrite shl64_small by nia.
  apply lor_disjoint; lia.
Qed.

Lemma slow_scan n : forall count value buf,
  (n <= length buf)%nat -> 0 <= count -> count + Z.of_nat n <= 10 -> 0 <= value < 2 ^ (7 * count) ->
  dv_slow_loop n count value buf =
  match leb_scan n (7 * count) value (Z.to_nat count) buf with
  | LDone v rest _ => if v <? two64 then inl (Some (v, rest)) else inl None
  | _ => inl None
  end.
Proof.
  induction n as [|n IH]; intros count value buf Hlen Hc Hcn Hv; cbn [dv_slow_loop leb_scan]; [reflexivity|].
  destruct buf as [|b rest]; [cbn in Hlen; lia|].
  pose proof (b2z_range b) as Hb.
  change dsl_last_le with 127. change dsl_last_count with 9. change dsl_last_bound with 2.
  pose proof (pow2_pos (7 * count) ltac:(lia)) as Hpp.
  destruct (Z.ltb_spec (b2z b) 128) as [Hlt|Hge].
  - replace (b2z b <=? 127) with true by lia.
    destruct (Z.eqb_spec count 9) as [->|Hn9].
    + cbn [andb]. change (2 ^ (7 * 9)) with 9223372036854775808 in *. unfold two64. change (2 ^ 64) with 18446744073709551616.
      destruct (Z.leb_spec 2 (b2z b)).
      * replace (value + b2z b * 9223372036854775808 <? 18446744073709551616) with false by lia. reflexivity.
      * replace (value + b2z b * 9223372036854775808 <? 18446744073709551616) with true by lia.
        rewrite slow_value.
        -- rewrite Z.mod_small by lia. reflexivity.
        -- lia.
        -- change (2 ^ (7 * 9)) with 9223372036854775808. lia.
        -- lia.
        -- intros _. rewrite Z.mod_small by lia. lia.
    + cbn [andb].
      rewrite slow_value by lia. rewrite Z.mod_small by lia.
      replace (value + b2z b * 2 ^ (7 * count) <? two64) with true; [reflexivity|].
      symmetry. apply Z.ltb_lt.
      assert (Hle : 2 ^ (7 * count + 7) <= 2 ^ 63) by (apply Z.pow_le_mono_r; lia).
      rewrite Z.pow_add_r in Hle by lia. change (2 ^ 7) with 128 in Hle.
      unfold two64. change (2 ^ 64) with (2 * 2 ^ 63). nia.
  - replace (b2z b <=? 127) with false by lia.
    destruct (Z.eqb_spec count 9) as [->|Hn9].
    + (* the tenth byte has the continuation bit: both sides give up *)
      assert (n = O) by lia. subst n. cbn [dv_slow_loop leb_scan]. reflexivity.
    + rewrite IH; try lia.
      * replace (7 * (count + 1)) with (7 * count + 7) by lia.
        rewrite slow_value by lia.
        replace (b2z b mod 128) with (b2z b - 128).
        2:{ apply (Z.mod_unique_pos _ _ 1); lia. }
        replace (Z.to_nat (count + 1)) with (S (Z.to_nat count)) by lia. reflexivity.
      * cbn [length] in Hlen. lia.
      * rewrite slow_value by lia.
        replace (7 * (count + 1)) with (7 * count + 7) by lia.
        rewrite Z.pow_add_r by lia. change (2 ^ 7) with 128.
        assert (0 <= b2z b mod 128 < 128) by (apply Z.mod_pos_bound; lia). nia.
Qed.

Lemma leb_scan_short_len n : forall k acc cnt buf, (length buf <= n)%nat ->
  match leb_scan n k acc cnt buf with LMore _ r => length buf = n /\ r = [] | _ => True end.
Proof.
  induction n as [|n IH]; intros k acc cnt buf Hl; cbn [leb_scan].
  - destruct buf; [auto|cbn in Hl; lia].
  - destruct buf as [|b rest]; [exact I|]. destruct (b2z b <? 128); [exact I|].
    cbn [length] in *. specialize (IH (k + 7) (acc + (b2z b - 128) * 2 ^ k) (S cnt) rest ltac:(lia)).
    destruct (leb_scan n _ _ _ rest); auto. destruct IH; split; [lia|auto].
Qed.

(* scanning with a budget of min(10, len) bytes is scanning with 10 as far as results go *)
Lemma leb_scan_min buf :
  match leb_scan (Z.to_nat (Z.min 10 (Z.of_nat (length buf)))) 0 0 0 buf, leb_scan 10 0 0 0 buf with
  | LDone v r c, LDone v' r' c' => v = v' /\ r = r' /\ c = c'
  | LDone _ _ _, _ => False
  | _, LDone _ _ _ => False
  | _, _ => True
  end.
Proof.
  destruct (Z_le_gt_dec 10 (Z.of_nat (length buf))) as [Hge|Hlt].
  - replace (Z.to_nat (Z.min 10 (Z.of_nat (length buf)))) with 10%nat by lia.
    destruct (leb_scan 10 0 0 0 buf); auto.
  - replace (Z.to_nat (Z.min 10 (Z.of_nat (length buf)))) with (length buf) by lia.
    set (m := (10 - length buf)%nat).
    replace 10%nat with (length buf + m)%nat by lia.
    rewrite leb_scan_add.
    pose proof (leb_scan_short_len (length buf) 0 0 0%nat buf (le_n _)) as Hs.
    destruct (leb_scan (length buf) 0 0 0 buf) as [v r c|a r|]; auto.
    destruct Hs as [_ ->]. destruct m; cbn [leb_scan]; auto.
Qed.

Theorem slow_is_spec buf :
  decode_varint_slow_b buf = inl (varint_spec buf).
Proof.
  unfold decode_varint_slow_b, varint_spec. change dsl_max_bytes with 10.
  rewrite slow_scan by (try lia; change (2 ^ (7 * 0)) with 1; lia).
  change (7 * 0) with 0. change (Z.to_nat 0) with 0%nat.
  pose proof (leb_scan_min buf) as H.
  destruct (leb_scan (Z.to_nat (Z.min 10 (Z.of_nat (length buf)))) 0 0 0 buf) as [v r c|a r|];
    destruct (leb_scan 10 0 0 0 buf) as [v' r' c'|a' r'|]; try contradiction; try reflexivity.
  destruct H as (-> & -> & ->). destruct (v' <? two64); reflexivity.
Qed.

(* ------------------------------------------------------------------ decode_varint_slice = spec *)
Definition part_of_lres (r : lres) : part_res :=
  match r with
  | LDone v _ c => PRet v c
  | LMore a rest => PCont a rest
  | LShort => PPan SGetUnchecked
  end.

Lemma shl32_byte b s : 0 <= b < 256 -> 0 <= s <= 21 -> shl32 b s = b * 2 ^ s.
Proof.
  intros Hb Hs. apply shl32_small; [lia|].
  assert (2 ^ s <= 2 ^ 21) by (apply Z.pow_le_mono_r; lia).
  pose proof (pow2_pos s ltac:(lia)). unfold two32. change (2 ^ 21) with 2097152 in *. change (2 ^ 32) with 4294967296. nia.
Qed.

Ltac decide_if :=
  match goal with
  | |- context [if ?c then _ else _] =>
      first [ replace c with true by lia | replace c with false by lia ]
  end.

Ltac pows :=
  change (0 + 7) with 7 in *; change (7 + 7) with 14 in *; change (14 + 7) with 21 in *;
  change (2 ^ 0) with 1 in *; change (2 ^ 7) with 128 in *; change (2 ^ 14) with 16384 in *;
  change (2 ^ 21) with 2097152 in *; change (2 ^ 28) with 268435456 in *;
  change (2 ^ 56) with 72057594037927936 in *; change (2 ^ 63) with 9223372036854775808 in *.

Ltac scan_step :=
  cbn [dvs_steps];
  match goal with
  | |- context [get_unchecked ?c] =>
      destruct c as [|?b ?c]; cbn [dvs_steps get_unchecked leb_scan part_of_lres]; [reflexivity|]
  end;
  match goal with
  | |- context [shl32 (b2z ?b) _] =>
      pose proof (b2z_range b);
      rewrite (shl32_byte (b2z b)) by lia
  end;
  try rewrite (shl32_byte 128) by lia;
  unfold two32; change (2 ^ 32) with 4294967296; pows;
  decide_if;
  match goal with
  | |- context [b2z ?b <? 128] => destruct (Z.ltb_spec (b2z b) 128)
  end;
  [cbn [part_of_lres]; f_equal; lia | decide_if].

Lemma dvs_part4_scan cursor idx :
  dvs_steps dvs_part0 cursor idx 0 = part_of_lres (leb_scan 4 0 0 idx cursor).
Proof.
  unfold dvs_part0.
  do 4 scan_step.
  cbn [part_of_lres]. f_equal. lia.
Qed.

Lemma dvs_part1_same : dvs_part1 = dvs_part0.
Proof. reflexivity. Qed.

Lemma dvs_byte8_scan cursor idx :
  dvs_steps [dvs_byte8] cursor idx 0 = part_of_lres (leb_scan 1 0 0 idx cursor).
Proof.
  unfold dvs_byte8. scan_step. cbn [dvs_steps part_of_lres]. f_equal. lia.
Qed.

Definition slice_spec (bytes : list byte) : option (Z * nat) :=
  match leb_scan 10 0 0 0 bytes with
  | LDone v _ c => if v <? two64 then Some (v, c) else None
  | _ => None
  end.

Definition slice_pre (bytes : list byte) : Prop :=
  bytes <> [] /\ (10 < Z.of_nat (length bytes) \/ b2z (last bytes x00) < 128).

Lemma slice_pre_scan_ok bytes : slice_pre bytes -> scan_ok 10 bytes.
Proof. intros [Hne [H|H]]; [left; lia|right; auto]. Qed.

Theorem slice_is_spec bytes : slice_pre bytes -> decode_varint_slice bytes = inl (slice_spec bytes).
Proof.
  intros Hpre. pose proof (leb_scan_not_short 10 0 0 0%nat bytes (slice_pre_scan_ok _ Hpre)) as Hns.
  destruct Hpre as [Hne Hpre].
  unfold decode_varint_slice, slice_spec.
  replace (Nat.eqb (length bytes) 0) with false by (destruct bytes; [congruence|reflexivity]).
  change dvs_assert_len_above with 10. change dvs_assert_last_below with 128.
  replace ((10 <? Z.of_nat (length bytes)) || (b2z (last bytes x00) <? 128)) with true by lia.
  cbn [negb].
  rewrite dvs_part1_same. rewrite dvs_part4_scan.
  change 10%nat with (4 + 6)%nat in *. rewrite leb_scan_add in *.
  pose proof (leb_scan_bounds 4 0 0 0%nat bytes ltac:(lia) ltac:(cbn; lia)) as B0.
  destruct (leb_scan 4 0 0 0 bytes) as [v0 r0 c0|a0 r0|]; cbn [part_of_lres]; [| |congruence].
  - destruct B0 as (B0 & _). replace (v0 <? two64) with true; [reflexivity|].
    symmetry. apply Z.ltb_lt. unfold two64.
    assert (2 ^ (0 + 7 * Z.of_nat 4) <= 2 ^ 64) by (apply Z.pow_le_mono_r; lia). lia.
  - 
    destruct B0 as (B0 & _).
    change (length dvs_part0) with 4%nat. change (0 + 7 * Z.of_nat 4) with 28 in *. change (0 + 4)%nat with 4%nat in *.
    rewrite dvs_part4_scan.
    change 6%nat with (4 + 2)%nat in *. rewrite leb_scan_add in *.
    rewrite (leb_scan_shift 4 28 a0 4) in * by lia.
    rewrite (leb_scan_shift 4 0 0 4) by lia.
    pose proof (leb_scan_bounds 4 0 0 0%nat r0 ltac:(lia) ltac:(cbn; lia)) as B1.
    change (0 + 7 * Z.of_nat 4) with 28 in *. change dvs_part1_shift with 28. change dvs_part2_shift with 56.
    change dvs_byte9_shift with 7. change dvs_byte9_below with 2.
    change (2 ^ 28) with 268435456 in *. 
    destruct (leb_scan 4 0 0 0 r0) as [v1 r1 c1|a1 r1|]; cbn [lres_shift part_of_lres] in *; [| |congruence].
    + destruct B1 as (B1 & _). pows.
      rewrite shl64_small by (unfold two64; change (2 ^ 64) with 18446744073709551616; pows; lia).
      unfold chk64, two64. change (2 ^ 64) with 18446744073709551616. pows.
      repeat decide_if. do 2 apply f_equal. apply f_equal2; [ring|reflexivity].
    + 
      destruct B1 as (B1 & _).
      change (28 + 7 * Z.of_nat 4) with 56 in *. change (4 + 4)%nat with 8%nat in *. pows.
      rewrite shl64_small by (unfold two64; change (2 ^ 64) with 18446744073709551616; pows; lia).
      unfold chk64 at 1. unfold two64 at 1. change (2 ^ 64) with 18446744073709551616. pows.
      decide_if.
      rewrite dvs_byte8_scan.
      cbn [leb_scan] in *.
      destruct r1 as [|b8 r2]; [congruence|].
      pose proof (b2z_range b8) as H8. pows.
      change (56 + 7) with 63 in *. pows.
      destruct (Z.ltb_spec (b2z b8) 128) as [Hlt8|Hge8]; cbn [part_of_lres].
      * rewrite shl64_small by (unfold two64; change (2 ^ 64) with 18446744073709551616; pows; lia).
        unfold chk64, two64. change (2 ^ 64) with 18446744073709551616. pows.
        repeat decide_if. do 2 apply f_equal. apply f_equal2; [ring|reflexivity].
      * destruct r2 as [|b9 r3]; [congruence|]. cbn [get_unchecked].
        pose proof (b2z_range b9) as H9.
        rewrite (shl32_byte (b2z b9)) by lia. pows.
        unfold two32. change (2 ^ 32) with 4294967296. decide_if.
        destruct (Z.ltb_spec (b2z b9) 2) as [Hlt9|Hge9].
        -- replace (b2z b9 <? 128) with true by lia.
           rewrite shl64_small by (unfold two64; change (2 ^ 64) with 18446744073709551616; pows; lia).
           unfold chk64, two64. change (2 ^ 64) with 18446744073709551616. pows.
           repeat decide_if. do 2 apply f_equal. apply f_equal2; [ring|reflexivity].
        -- destruct (Z.ltb_spec (b2z b9) 128); [|reflexivity].
           unfold two64. change (2 ^ 64) with 18446744073709551616.
           decide_if. reflexivity.
Qed.

(* ------------------------------------------------------------------ decode_varint (dispatch) = spec *)
Lemma leb_scan_suffix n : forall k acc cnt buf,
  match leb_scan n k acc cnt buf with
  | LDone _ rest c => (cnt < c)%nat /\ (c - cnt <= length buf)%nat /\ skipn (c - cnt) buf = rest
  | _ => True
  end.
Proof.
  induction n as [|n IH]; intros k acc cnt buf; cbn [leb_scan]; [exact I|].
  destruct buf as [|b rest]; [exact I|].
  destruct (b2z b <? 128).
  - replace (S cnt - cnt)%nat with 1%nat by lia. cbn [skipn length]. split; [lia|split; [lia|reflexivity]].
  - specialize (IH (k + 7) (acc + (b2z b - 128) * 2 ^ k) (S cnt) rest).
    destruct (leb_scan n _ _ (S cnt) rest) as [v r c| |]; auto.
    destruct IH as (H1 & H2 & H3). replace (c - cnt)%nat with (S (c - S cnt)) by lia.
    cbn [skipn length]. split; [lia|split; [lia|exact H3]].
Qed.

Theorem chunk_is_spec clen buf :
  (1 <= clen)%nat -> decode_varint_chunk_b clen buf = inl (varint_spec buf).
Proof.
  intros Hc. unfold decode_varint_chunk_b.
  destruct buf as [|b0 rest].
  { rewrite firstn_nil. reflexivity. }
  destruct clen as [|clen]; [lia|]. cbn [firstn length Nat.eqb hd tl].
  change dv_one_byte_below with 128. change dv_slice_len_above with 10. change dv_slice_last_below with 128.
  pose proof (b2z_range b0) as Hb0.
  destruct (Z.ltb_spec (b2z b0) 128) as [Hlt|Hge].
  - unfold varint_spec. cbn [leb_scan]. replace (b2z b0 <? 128) with true by lia.
    change (2 ^ 0) with 1. replace (0 + b2z b0 * 1 <? two64) with true by (unfold two64; change (2 ^ 64) with 18446744073709551616; lia).
    repeat f_equal. lia.
  - set (bytes := b0 :: firstn clen rest).
    destruct ((10 <? Z.of_nat (S (length (firstn clen rest)))) || (b2z (last bytes x00) <? 128)) eqn:E.
    + assert (Hpre : slice_pre bytes).
      { split; [discriminate|]. unfold bytes at 1. cbn [length]. lia. }
      rewrite (slice_is_spec bytes Hpre).
      unfold slice_spec, varint_spec.
      assert (Hb : b0 :: rest = bytes ++ skipn clen rest).
      { unfold bytes. cbn [app]. rewrite firstn_skipn. reflexivity. }
      rewrite Hb. rewrite leb_scan_app.
      pose proof (leb_scan_not_short 10 0 0 0%nat bytes (slice_pre_scan_ok _ Hpre)) as Hns.
      pose proof (leb_scan_suffix 10 0 0 0%nat bytes) as Hsuf.
      destruct (leb_scan 10 0 0 0 bytes) as [v r c|a r|]; [| reflexivity | congruence].
      destruct (v <? two64); [|reflexivity].
      destruct Hsuf as (H1 & H2 & H3). rewrite Nat.sub_0_r in *.
      assert (Hlb : (length bytes <= S (length rest))%nat).
      { unfold bytes. cbn [length]. rewrite firstn_length. lia. }
      replace (Nat.ltb (S (length rest)) c) with false by (symmetry; apply Nat.ltb_ge; lia).
      rewrite skipn_app. rewrite H3.
      replace (c - length bytes)%nat with 0%nat by lia. cbn [skipn]. reflexivity.
    + apply slow_is_spec.
Qed.

Corollary decode_varint_is_spec buf : decode_varint_b buf = inl (varint_spec buf).
Proof.
  unfold decode_varint_b. destruct buf as [|b rest]; [reflexivity|].
  apply chunk_is_spec. cbn [length]. lia.
Qed.

(* the three paths never panic and agree *)
Corollary varint_paths_agree clen buf : (1 <= clen)%nat ->
  decode_varint_chunk_b clen buf = decode_varint_slow_b buf /\
  decode_varint_b buf = decode_varint_slow_b buf.
Proof.
  intros. rewrite chunk_is_spec by auto. rewrite decode_varint_is_spec, slow_is_spec. auto.
Qed.

(* ------------------------------------------------------------------ encode_varint *)
Lemma enc_varint_unfold f v : 0 <= v ->
  enc_varint (S f) v = if v <? 128 then [z2b v] else z2b (v mod 128 + 128) :: enc_varint f (v / 128).
Proof.
  intros Hv. cbn [enc_varint]. change ev_small with 128. change ev_mask with 127. change ev_cont with 128.
  change ev_shift with 7. rewrite land_127, shiftr_div by lia. change (2 ^ 7) with 128.
  rewrite lor_128 by (apply Z.mod_pos_bound; lia). reflexivity.
Qed.

Lemma leb_scan_cons n k acc cnt b rest :
  leb_scan (S n) k acc cnt (b :: rest) =
  if b2z b <? 128 then LDone (acc + b2z b * 2 ^ k) rest (S cnt)
  else leb_scan n (k + 7) (acc + (b2z b - 128) * 2 ^ k) (S cnt) rest.
Proof. reflexivity. Qed.

Lemma scan_enc f : forall v k acc cnt rest, 0 <= k -> 0 <= v < 128 ^ Z.of_nat (S f) ->
  leb_scan (S f) k acc cnt (enc_varint f v ++ rest) =
  LDone (acc + v * 2 ^ k) rest (cnt + length (enc_varint f v)).
Proof.
  induction f as [|f IH]; intros v k acc cnt rest Hk Hv.
  - change (128 ^ Z.of_nat 1) with 128 in Hv. cbn [enc_varint app leb_scan length].
    rewrite b2z_z2b. rewrite (Z.mod_small v 256) by lia.
    replace (v <? 128) with true by lia. f_equal. lia.
  - rewrite enc_varint_unfold by lia.
    destruct (Z.ltb_spec v 128) as [Hlt|Hge].
    + cbn [app leb_scan length]. rewrite b2z_z2b. rewrite (Z.mod_small v 256) by lia.
      replace (v <? 128) with true by lia. f_equal. lia.
    + assert (Hm : 0 <= v mod 128 < 128) by (apply Z.mod_pos_bound; lia).
      cbn [app length]. rewrite leb_scan_cons. rewrite b2z_z2b. rewrite (Z.mod_small (v mod 128 + 128) 256) by lia.
      replace (v mod 128 + 128 <? 128) with false by lia.
      rewrite IH.
      * f_equal; [|lia]. rewrite Z.pow_add_r by lia. change (2 ^ 7) with 128.
        pose proof (Z.div_mod v 128 ltac:(lia)) as E.
        set (q := v / 128) in *. set (r := v mod 128) in *. clearbody q r. subst v. ring.
      * lia.
      * rewrite Nat2Z.inj_succ, Z.pow_succ_r in Hv by lia.
        split; [apply Z.div_pos; lia|apply Z.div_lt_upper_bound; lia].
Qed.

Theorem varint_spec_encode v rest : 0 <= v < two64 ->
  varint_spec (encode_varint v ++ rest) = Some (v, rest).
Proof.
  intros Hv. unfold varint_spec, encode_varint.
  change 10%nat with (S 9). rewrite scan_enc.
  - change (2 ^ 0) with 1. replace (0 + v * 1) with v by lia. replace (v <? two64) with true by lia. reflexivity.
  - lia.
  - unfold two64 in Hv. change (128 ^ Z.of_nat 10) with (2 ^ 70).
    assert (2 ^ 64 <= 2 ^ 70) by (apply Z.pow_le_mono_r; lia). lia.
Qed.

(* round trip of every decode path, with arbitrary trailing bytes *)
Theorem decode_varint_encode v rest : 0 <= v < two64 ->
  decode_varint_b (encode_varint v ++ rest) = inl (Some (v, rest)).
Proof. intros. rewrite decode_varint_is_spec, varint_spec_encode by auto. reflexivity. Qed.

Theorem decode_varint_slow_encode v rest : 0 <= v < two64 ->
  decode_varint_slow_b (encode_varint v ++ rest) = inl (Some (v, rest)).
Proof. intros. rewrite slow_is_spec, varint_spec_encode by auto. reflexivity. Qed.

Theorem decode_varint_chunk_encode clen v rest : (1 <= clen)%nat -> 0 <= v < two64 ->
  decode_varint_chunk_b clen (encode_varint v ++ rest) = inl (Some (v, rest)).
Proof. intros. rewrite chunk_is_spec, varint_spec_encode by auto. reflexivity. Qed.

(* direct statement for the slice path on any slice that holds the whole varint *)
Theorem decode_varint_slice_encode v rest : 0 <= v < two64 -> slice_pre (encode_varint v ++ rest) ->
  decode_varint_slice (encode_varint v ++ rest) = inl (Some (v, length (encode_varint v))).
Proof.
  intros Hv Hpre. rewrite slice_is_spec by auto. unfold slice_spec, encode_varint.
  change 10%nat with (S 9). rewrite scan_enc.
  - change (2 ^ 0) with 1. replace (0 + v * 1) with v by lia. replace (v <? two64) with true by lia. reflexivity.
  - lia.
  - unfold two64 in Hv. change (128 ^ Z.of_nat 10) with (2 ^ 70).
    assert (2 ^ 64 <= 2 ^ 70) by (apply Z.pow_le_mono_r; lia). lia.
Qed.

Example varint_rt_nonvacuous :
  decode_varint_b (encode_varint 18446744073709551615 ++ [x07]) = inl (Some (18446744073709551615, [x07])) /\
  decode_varint_slow_b (encode_varint 300 ++ []) = inl (Some (300, [])) /\
  decode_varint_slice (encode_varint 300) = inl (Some (300, 2%nat)).
Proof. vm_compute. auto. Qed.

(* ------------------------------------------------------------------ encoded_len_varint *)
Definition nbytes (v : Z) : Z :=
  if v <? 2 ^ 7 then 1 else if v <? 2 ^ 14 then 2 else if v <? 2 ^ 21 then 3 else if v <? 2 ^ 28 then 4
  else if v <? 2 ^ 35 then 5 else if v <? 2 ^ 42 then 6 else if v <? 2 ^ 49 then 7 else if v <? 2 ^ 56 then 8
  else if v <? 2 ^ 63 then 9 else 10.

Lemma encode_varint_length v : 0 <= v < two64 -> Z.of_nat (length (encode_varint v)) = nbytes v.
Proof.
  intros Hv. unfold encode_varint, nbytes, two64 in *.
  change (2 ^ 7) with 128. change (2 ^ 14) with 16384. change (2 ^ 21) with 2097152. change (2 ^ 28) with 268435456.
  change (2 ^ 35) with 34359738368. change (2 ^ 42) with 4398046511104. change (2 ^ 49) with 562949953421312.
  change (2 ^ 56) with 72057594037927936. change (2 ^ 63) with 9223372036854775808.
  change (2 ^ 64) with 18446744073709551616 in Hv.
  do 9 (rewrite enc_varint_unfold by (repeat apply Z.div_pos; lia);
        match goal with |- context [if ?x <? 128 then _ else _] => destruct (Z.ltb_spec x 128) end;
        [cbn [length]; repeat decide_if; lia|]; cbn [length]).
  cbn [enc_varint length]. repeat decide_if. lia.
Qed.

Lemma log2_range v a b : 0 <= a -> 2 ^ a <= v < 2 ^ b -> a <= Z.log2 v < b.
Proof.
  intros Ha [H1 H2]. pose proof (pow2_pos a Ha).
  split; [apply Z.log2_le_pow2; lia|apply Z.log2_lt_pow2; lia].
Qed.

Lemma lxor_63 l : 0 <= l <= 63 -> Z.lxor (63 - l) 63 = l.
Proof.
  intros H. replace l with (Z.of_nat (Z.to_nat l)) by lia.
  assert (Hn : (Z.to_nat l <= 63)%nat) by lia. generalize dependent (Z.to_nat l). clear.
  intros n Hn. do 64 (destruct n as [|n]; [reflexivity|]). lia.
Qed.

Lemma elv_formula l : 0 <= l <= 63 -> (l * 9 + 73) / 64 = l / 7 + 1.
Proof. intros. lia. Qed.

Lemma encoded_len_varint_nbytes v : 0 <= v < two64 -> encoded_len_varint v = nbytes v.
Proof.
  intros Hv. unfold encoded_len_varint, leading_zeros64.
  change elv_or with 1. change elv_xor with 63. change elv_mul with 9. change elv_add with 73. change elv_div with 64.
  assert (Hor : 0 < Z.lor v 1).
  { assert (Z.lor v 1 <> 0) by (intros E; apply Z.lor_eq_0_iff in E; lia).
    pose proof (Z.lor_nonneg v 1). lia. }
  replace (Z.lor v 1 =? 0) with false by lia.
  rewrite Z.log2_lor by lia. change (Z.log2 1) with 0. rewrite Z.max_l by apply Z.log2_nonneg.
  destruct (Z.eq_dec v 0) as [->|Hnz]; [reflexivity|].
  assert (HL : 0 <= Z.log2 v < 64).
  { split; [apply Z.log2_nonneg|]. apply Z.log2_lt_pow2; [lia|]. exact (proj2 Hv). }
  rewrite lxor_63 by lia. rewrite elv_formula by lia.
  unfold nbytes.
  repeat match goal with
  | |- context [if v <? 2 ^ ?k then _ else _] =>
      destruct (Z.ltb_spec v (2 ^ k));
      [ match goal with
        | H : 2 ^ ?j <= v |- _ => pose proof (log2_range v j k ltac:(lia) ltac:(lia)); lia
        | _ => pose proof (log2_range v 0 k ltac:(lia) ltac:(change (2 ^ 0) with 1; lia)); lia
        end | ]
  end.
  match goal with H : 2 ^ 63 <= v |- _ => pose proof (log2_range v 63 64 ltac:(lia) ltac:(unfold two64 in Hv; lia)); lia end.
Qed.

Theorem encoded_len_varint_correct v : 0 <= v < two64 ->
  encoded_len_varint v = Z.of_nat (length (encode_varint v)).
Proof. intros. rewrite encoded_len_varint_nbytes, encode_varint_length; auto. Qed.

Lemma nbytes_range v : 1 <= nbytes v <= 10.
Proof. unfold nbytes. repeat match goal with |- context [if ?c then _ else _] => destruct c end; lia. Qed.

Example encoded_len_nonvacuous : encoded_len_varint 300 = 2 /\ encoded_len_varint (two64 - 1) = 10 /\ encoded_len_varint 0 = 1.
Proof. vm_compute. auto. Qed.
