(* Model runner of family idl: one case per input line, one result per output line.
   case line   :=  <entry> <hex of the text | ->
   result line :=  OK <remaining bytes> <canonical AST> | ERR E|F <remaining bytes at the error> <ErrorKind>
                |  PANIC <site> | FUEL loop|depth | BADCASE <why>
   The canonical AST format is documented in fam/idl/harness/src/canon.rs. Hand-written, trusted glue. *)
open Model
(* the extracted model defines Coq's [string]; give the name back to OCaml's *)
type string = Stdlib.String.t

(* byte: 256 constant constructors in order X00..Xff -> immediate ints 0..255 *)
let byte_of_int (i : int) : byte = Obj.magic (i land 255)
let int_of_byte (b : byte) : int = (Obj.magic b : int)

let rec pos_to_int = function XH -> 1 | XO p -> 2 * pos_to_int p | XI p -> 2 * pos_to_int p + 1
let n_to_int = function N0 -> 0 | Npos p -> pos_to_int p

let () =
  (* self-test of the representation trick against the extracted Byte.to_N *)
  List.iter (fun i -> if n_to_int (bn (byte_of_int i)) <> i then failwith "byte representation self-test failed")
    [0; 1; 39; 65; 127; 128; 254; 255]

let rec pos_to_i64 = function
  | XH -> 1L
  | XO p -> Int64.mul 2L (pos_to_i64 p)
  | XI p -> Int64.add (Int64.mul 2L (pos_to_i64 p)) 1L
let string_of_z = function
  | Z0 -> "0"
  | Zpos p -> Int64.to_string (pos_to_i64 p)
  | Zneg p -> Int64.to_string (Int64.neg (pos_to_i64 p))

let rec nat_of_int (i : int) : nat = if i <= 0 then O else S (nat_of_int (i - 1))

let hexval c =
  match c with
  | '0'..'9' -> Char.code c - 48
  | 'a'..'f' -> Char.code c - 87
  | 'A'..'F' -> Char.code c - 55
  | _ -> failwith "bad hex"

let bytes_of_hex (s : string) : byte list =
  if s = "-" then [] else begin
    let n = String.length s in
    if n land 1 = 1 then failwith "odd hex";
    let rec go i acc = if i < 0 then acc else go (i - 2) (byte_of_int (hexval s.[i] * 16 + hexval s.[i + 1]) :: acc) in
    go (n - 2) []
  end

(* ---- canonical rendering ---- *)
let raw (b : Buffer.t) (l : byte list) = List.iter (fun c -> Buffer.add_char b (Char.chr (int_of_byte c))) l
let lit (b : Buffer.t) (l : byte list) =
  Buffer.add_char b '"';
  List.iter (fun c ->
      let c = int_of_byte c in
      if c >= 0x21 && c <= 0x7e && c <> 0x22 && c <> 0x5c then Buffer.add_char b (Char.chr c)
      else Buffer.add_string b (Printf.sprintf "\\%02x" c)) l;
  Buffer.add_char b '"'
let sp b = Buffer.add_char b ' '
let str b s = Buffer.add_string b s
let lst b f xs =
  Buffer.add_char b '(';
  List.iteri (fun i x -> if i > 0 then sp b; f b x) xs;
  Buffer.add_char b ')'
let optn b f = function None -> Buffer.add_char b '-' | Some x -> f b x
let path b (p : path) = List.iteri (fun i s -> if i > 0 then Buffer.add_char b '.'; raw b s) p
let anns b (a : annotations) =
  Buffer.add_char b '[';
  List.iteri (fun i x -> if i > 0 then sp b; raw b x.a_key; Buffer.add_char b '='; lit b x.a_value) a;
  Buffer.add_char b ']'
let rec type_c b (MkType (t, a)) = str b "(type "; ty_c b t; sp b; anns b a; str b ")"
and ty_c b = function
  | TString -> str b "string" | TVoid -> str b "void" | TByte -> str b "byte" | TBool -> str b "bool"
  | TBinary -> str b "binary" | TI8 -> str b "i8" | TI16 -> str b "i16" | TI32 -> str b "i32"
  | TI64 -> str b "i64" | TDouble -> str b "double" | TUuid -> str b "uuid"
  | TList (v, c) -> str b "(list "; type_c b v; sp b; optn b lit c; str b ")"
  | TSet (v, c) -> str b "(set "; type_c b v; sp b; optn b lit c; str b ")"
  | TMap (k, v, c) -> str b "(map "; type_c b k; sp b; type_c b v; sp b; optn b lit c; str b ")"
  | TPath p -> str b "(path "; path b p; str b ")"
let rec cv_c b = function
  | CBool true -> str b "(bool true)"
  | CBool false -> str b "(bool false)"
  | CPath p -> str b "(path "; path b p; str b ")"
  | CString l -> str b "(str "; lit b l; str b ")"
  | CInt z -> str b "(int "; str b (string_of_z z); str b ")"
  | CDouble t -> str b "(double "; lit b t; str b ")"
  | CList l -> str b "(list"; List.iter (fun x -> sp b; cv_c b x) l; str b ")"
  | CMap l -> str b "(map"; List.iter (fun (k, v) -> str b " ("; cv_c b k; sp b; cv_c b v; str b ")") l; str b ")"
let attr_c b = function ARequired -> str b "required" | AOptional -> str b "optional" | ADefault -> str b "default"
let zc b z = str b (string_of_z z)
let field_c b (f : field) =
  str b "(field "; zc b f.f_id; sp b; attr_c b f.f_attribute; sp b; type_c b f.f_ty; sp b; raw b f.f_name; sp b;
  optn b cv_c f.f_default; sp b; anns b f.f_annotations; str b ")"
let sl_c b (s : structLike) = raw b s.s_name; sp b; lst b field_c s.s_fields; sp b; anns b s.s_annotations
let ev_c b (e : enumValue) =
  str b "(ev "; raw b e.ev_name; sp b; optn b zc e.ev_value; sp b; anns b e.ev_annotations; str b ")"
let enum_c b (e : enum) = str b "(enum "; raw b e.e_name; sp b; lst b ev_c e.e_values; sp b; anns b e.e_annotations; str b ")"
let fn_c b (f : function0) =
  str b "(fn "; raw b f.fn_name; str b (if f.fn_oneway then " oneway " else " twoway "); type_c b f.fn_result_type; sp b;
  lst b field_c f.fn_arguments; sp b; lst b field_c f.fn_throws; sp b; anns b f.fn_annotations; str b ")"
let service_c b (s : service) =
  str b "(service "; raw b s.sv_name; sp b; optn b path s.sv_extends; sp b; lst b fn_c s.sv_functions; sp b;
  anns b s.sv_annotations; str b ")"
let ns_c b (n : namespace) =
  str b "(namespace "; raw b n.ns_scope; sp b; path b n.ns_name; sp b; optn b anns n.ns_annotations; str b ")"
let typedef_c b (t : typedef) = str b "(typedef "; type_c b t.td_type; sp b; raw b t.td_alias; sp b; anns b t.td_annotations; str b ")"
let const_c b (c : constant) =
  str b "(const "; raw b c.c_name; sp b; type_c b c.c_type; sp b; cv_c b c.c_value; sp b; anns b c.c_annotations; str b ")"
let kw_sl kw b s = str b ("(" ^ kw ^ " "); sl_c b s; str b ")"
let include_c b l = str b "(include "; lit b l; str b ")"
let cpp_include_c b l = str b "(cpp_include "; lit b l; str b ")"
let item_c b = function
  | IInclude l -> include_c b l
  | ICppInclude l -> cpp_include_c b l
  | INamespace n -> ns_c b n
  | ITypedef t -> typedef_c b t
  | IConstant c -> const_c b c
  | IEnum e -> enum_c b e
  | IStruct s -> kw_sl "struct" b s
  | IUnion s -> kw_sl "union" b s
  | IException s -> kw_sl "exception" b s
  | IService s -> service_c b s
let file_c b (f : file) =
  str b "(file "; optn b path f.file_package; List.iter (fun it -> sp b; item_c b it) f.file_items; str b ")"

let kind_s = function
  | KTag -> "Tag" | KMapRes -> "MapRes" | KAlt -> "Alt" | KSeparatedList -> "SeparatedList" | KMany0 -> "Many0"
  | KMany1 -> "Many1" | KManyTill -> "ManyTill" | KMany0Count -> "Many0Count" | KTakeUntil -> "TakeUntil"
  | KDigit -> "Digit" | KHexDigit -> "HexDigit" | KMultiSpace -> "MultiSpace" | KEof -> "Eof" | KOneOf -> "OneOf"
  | KNoneOf -> "NoneOf" | KEscaped -> "Escaped" | KNot -> "Not" | KPermutation -> "Permutation"
  | KSatisfy -> "Satisfy" | KFail -> "Fail"

let show (f : Buffer.t -> 'a -> unit) (r : 'a pres) : string =
  match r with
  | POk (rest, v) ->
    let b = Buffer.create 256 in
    f b v;
    Printf.sprintf "OK %d %s" (List.length rest) (Buffer.contents b)
  | PErr (at, k) -> Printf.sprintf "ERR E %d %s" (List.length at) (kind_s k)
  | PFail (at, k) -> Printf.sprintf "ERR F %d %s" (List.length at) (kind_s k)
  | PPanic -> "PANIC unwrap"
  | PFuel FLoop -> "FUEL loop"
  | PFuel FDepth -> "FUEL depth"

(* ---- reader of serialized concrete syntax trees (printer tie of C15; format: the cst_ functions of pv/idlgen.py) ---- *)
let hex_of_bytes (l : byte list) : string =
  if l = [] then "-" else String.concat "" (List.map (fun b -> Printf.sprintf "%02x" (int_of_byte b)) l)
let string_of_bytes (l : byte list) : string =
  String.init (List.length l) (fun i -> Char.chr (int_of_byte (List.nth l i)))

let cst_type_of_tokens (toks : string list) : ctype =
  let q = ref toks in
  let next () = match !q with [] -> failwith "cst: eof" | t :: r -> q := r; t in
  let payload t = bytes_of_hex (String.sub t 1 (String.length t - 1)) in
  let count t = int_of_string (String.sub t 1 (String.length t - 1)) in
  let rec times n f = if n <= 0 then [] else let x = f () in x :: times (n - 1) f in
  let atom () = let t = next () in
    match t.[0] with
    | 'w' -> BWs (payload t) | 'l' -> BLine (payload t) | 'h' -> BHash (payload t) | 'k' -> BBlock (payload t)
    | _ -> failwith "cst: atom" in
  let blank () = let t = next () in if t.[0] <> 'b' then failwith "cst: blank"; times (count t) atom in
  let lit () = let t = next () in
    match t.[0] with
    | 'q' -> { l_dq = false; l_body = payload t } | 'Q' -> { l_dq = true; l_body = payload t }
    | _ -> failwith "cst: lit" in
  let sep () = match next () with
    | "s0" -> SepNone | "s," -> let b = blank () in SepSome (false, b) | "s;" -> let b = blank () in SepSome (true, b)
    | _ -> failwith "cst: sep" in
  let ann () =
    let b1 = blank () in let key = payload (next ()) in let b2 = blank () in let b3 = blank () in let l = lit () in
    let b4 = blank () in let s = sep () in
    { ca_b1 = b1; ca_key = key; ca_b2 = b2; ca_b3 = b3; ca_lit = l; ca_b4 = b4; ca_sep = s } in
  let cpp () = match next () with
    | "c0" -> None
    | "c1" -> let b1 = blank () in let b2 = blank () in let l = lit () in Some { cc_b1 = b1; cc_b2 = b2; cc_lit = l }
    | _ -> failwith "cst: cpp" in
  let base = function
    | "string" -> BString | "void" -> BVoid | "byte" -> BByte | "bool" -> BBool | "binary" -> BBinary | "i8" -> BI8
    | "i16" -> BI16 | "i32" -> BI32 | "i64" -> BI64 | "double" -> BDouble | "uuid" -> BUuid | _ -> failwith "cst: base" in
  let rec ty () = match next () with
    | "base" -> CTBase (base (next ()))
    | "list" -> let b1 = blank () in let b2 = blank () in let t = typ () in let b3 = blank () in let c = cpp () in
      CTList (b1, b2, t, b3, c)
    | "set" -> let c = cpp () in let b1 = blank () in let b2 = blank () in let t = typ () in let b3 = blank () in
      CTSet (c, b1, b2, t, b3)
    | "map" -> let c = cpp () in let b1 = blank () in let b2 = blank () in let k = typ () in let b3 = blank () in
      let semi = (match next () with "," -> false | ";" -> true | _ -> failwith "cst: mapsep") in
      let b4 = blank () in let v = typ () in let b5 = blank () in
      CTMap (c, b1, b2, k, b3, semi, b4, v, b5)
    | "path" -> let h = payload (next ()) in let n = count (next ()) in
      let tl = times n (fun () -> let b1 = blank () in let b2 = blank () in let s = payload (next ()) in ((b1, b2), s)) in
      CTPath { cp_head = h; cp_tail = tl }
    | _ -> failwith "cst: ty"
  and typ () =
    (match next () with "T" -> () | _ -> failwith "cst: T");
    let t = ty () in
    match next () with
    | "N" -> CType (t, None)
    | "A" -> let b = blank () in let n = count (next ()) in let l = times n ann in CType (t, Some (b, l))
    | _ -> failwith "cst: annopt" in
  let r = typ () in
  if !q <> [] then failwith "cst: trailing tokens"; r

let run_case (entry : string) (text : byte list) : string =
  let n = S (nat_of_int (List.length text)) in
  let raw_c b l = lit b l in
  let unit_c b () = str b "()" in
  match entry with
  | "file" -> show file_c (parse_file text)
  | "nesting" -> "NEST " ^ string_of_z (nesting text)
  | "print-type" ->
    (* the Coq printer on a serialized concrete syntax tree: text, well-formedness, the erased tree *)
    let c = cst_type_of_tokens (List.filter (fun s -> s <> "") (String.split_on_char ' ' (string_of_bytes text))) in
    let b = Buffer.create 256 in
    type_c b (erase_type c);
    Printf.sprintf "TEXT %s WF %b SIMPLE %b ERASE %s" (hex_of_bytes (pr_type c [])) (wf_type c) (simple_type c) (Buffer.contents b)
  | "filemin" ->
    (* File::parse with the least depth fuel C16_depth allows: nesting + 1 *)
    let d = int_of_string (string_of_z (nesting text)) + 1 in
    show file_c (p_file n (nat_of_int d) text)
  | "item" -> show item_c (p_item n n text)
  | "include" -> show include_c (p_include n text)
  | "cppinclude" -> show cpp_include_c (p_cpp_include n text)
  | "namespace" -> show ns_c (p_namespace n text)
  | "scope" -> show raw (p_scope text)
  | "typedef" -> show typedef_c (p_typedef n n text)
  | "constant" -> show const_c (p_constant n n text)
  | "enum" -> show enum_c (p_enum n text)
  | "enumvalue" -> show ev_c (p_enum_value n text)
  | "struct" -> show (kw_sl "struct") (p_struct n n text)
  | "union" -> show (kw_sl "union") (p_union n n text)
  | "exception" -> show (kw_sl "exception") (p_exception n n text)
  | "structlike" -> show sl_c (p_struct_like n n text)
  | "service" -> show service_c (p_service n n text)
  | "function" -> show fn_c (p_function n n text)
  | "field" -> show field_c (p_field n n text)
  | "attribute" -> show attr_c (p_attribute text)
  | "type" -> show type_c (p_type n n text)
  | "ty" -> show ty_c (p_ty n n text)
  | "cpptype" -> show raw_c (p_cpp_type n text)
  | "cv" -> show cv_c (p_const_value n n text)
  | "int" -> show zc (p_int_constant n text)
  | "double" -> show raw_c (p_double_constant n text)
  | "annotations" -> show anns (p_annotations n text)
  | "literal" -> show raw_c (p_literal n text)
  | "ident" -> show raw (p_ident text)
  | "path" -> show path (p_path n text)
  | "blank" -> show unit_c (p_blank n text)
  | _ -> failwith ("unknown entry " ^ entry)

let () =
  let ic = if Array.length Sys.argv > 1 then open_in Sys.argv.(1) else stdin in
  (try
     while true do
       let line = input_line ic in
       let out =
         match String.split_on_char ' ' (String.trim line) with
         | [] | [""] -> ""
         | [entry; hex] ->
           (try run_case entry (bytes_of_hex hex) with
            | Failure m -> "BADCASE " ^ m
            | Stack_overflow -> "BADCASE stack overflow in the model runner"
            | Invalid_argument m -> "BADCASE " ^ m)
         | _ -> "BADCASE malformed line"
       in
       print_string out; print_char '\n'
     done
   with End_of_file -> ());
  flush stdout
