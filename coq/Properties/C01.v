(* C01 -- Thrift runtime round trip on every protocol and buffer kind.
   Only statements, each closed by [exact] of a lemma proved in Proofs/, with
   Print Assumptions beneath.  p ranges over {binary, binary-LE, compact}, k over
   {BytesMut, LinkedBytes zero-copy off, LinkedBytes zero-copy on}; the unchecked binary codec
   is tied to the checked one by C11. *)
From PV Require Import Thrift.Interp Proofs.HeaderP Proofs.RoundtripP.
Open Scope Z_scope.

(* Every well-typed value tree, written with ANY writer context that has no bool field pending,
   - is written successfully and leaves the writer context exactly as it was (balanced),
   - is read back, from any reader context with nothing pending and with ARBITRARY trailing bytes
     [r], as the same value (up to the key/value types of an empty compact map, which are not on
     the wire), consuming exactly the bytes written (the remainder is [r]) and leaving the reader
     context exactly as it was -- so a following value is read as if the reader were fresh. *)
Theorem C01_roundtrip : forall p k v,
  wt v = true ->
  forall c, w_pend c = None ->
  exists ss, write_val p k v c = Ok (ss, c) /\ (1 <= length (flat ss))%nat /\
    forall fuel r rcx, (vsize v <= fuel)%nat -> idle rcx ->
      read_val p fuel (ttype_of v) (mkS (flat ss ++ r) rcx) = Ok (canon p v, mkS r rcx).
Proof. exact roundtrip_val. Qed.
Print Assumptions C01_roundtrip.

(* every sequence of values written back to back with one writer on one buffer and read with one
   reader *)
Theorem C01_sequence : forall p k vs,
  forallb wt vs = true ->
  forall c, w_pend c = None ->
  exists ss, write_vals p k vs c = Ok (ss, c) /\
    forall fuel r rcx, (forall v, In v vs -> (vsize v <= fuel)%nat) -> idle rcx ->
      read_vals p fuel (map ttype_of vs) (mkS (flat ss ++ r) rcx) = Ok (map (canon p) vs, mkS r rcx).
Proof. exact roundtrip_vals. Qed.
Print Assumptions C01_sequence.

(* the bytes (and the outcome) do not depend on the output buffer kind: contiguous, linked,
   zero-copy on or off, payloads on either side of the threshold *)
Theorem C01_bytes_buffer_independent : forall p k k' v c,
  fl (write_val p k v c) = fl (write_val p k' v c).
Proof. exact buffer_independent. Qed.
Print Assumptions C01_bytes_buffer_independent.

(* the writer is balanced (DESIGN 5.1 C01_writer_balanced): on a writer with no bool field pending, every
   well-typed value is written successfully and leaves the writer's delta context (last field id, id stack,
   pending slot) exactly as it found it -- for every protocol, buffer kind and STARTING context, so values can
   follow one another on one writer.  (It is the first conjunct of C01_roundtrip, stated on its own.) *)
From PV Require Import Proofs.BalanceP.
Theorem C01_writer_balanced : forall p k v, wt v = true -> forall c, w_pend c = None ->
  exists ss, write_val p k v c = Ok (ss, c).
Proof. exact writer_balanced. Qed.
Print Assumptions C01_writer_balanced.

Theorem C01_writer_balanced_seq : forall p k vs, forallb wt vs = true -> forall c, w_pend c = None ->
  exists ss, write_vals p k vs c = Ok (ss, c).
Proof. exact writer_balanced_seq. Qed.
Print Assumptions C01_writer_balanced_seq.
