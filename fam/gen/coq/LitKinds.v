(* Pattern kinds of the `match (lit, ty)` arms of Context::lit_into_ty / lit_as_rvalue / ident_into_ty
   (pilota-build/src/middle/context.rs).  The arm lists themselves are REGENERATED from that file into
   Generated/LitTable.v by tools/extract_gen.py (source order, or-patterns as several alternatives of one arm,
   the is_const flag each arm returns); Lit.v DISPATCHES on the regenerated list.  No proofs. *)
From Coq Require Export ZArith List Bool.
Export ListNotations.

(* constructor of middle::rir::Literal an arm asks for (LPAny: a binding / wildcard) *)
Inductive lpat := LPAny | LPPath | LPBool | LPString | LPInt | LPFloat | LPList | LPMap.

(* constructor of middle::ty::CodegenTy an arm asks for; Adt is split by AdtKind *)
Inductive cpat :=
| CPAny | CPFastStr | CPString | CPStr | CPVoid | CPU8 | CPBool | CPI8 | CPI16 | CPI32 | CPI64 | CPUInt32 | CPUInt64
| CPF32 | CPF64 | CPOrderedF64 | CPUuid | CPBytes | CPLazyStaticRef | CPStaticRef | CPVec | CPArray | CPSet | CPBTreeSet
| CPMap | CPBTreeMap | CPAdtStruct | CPAdtEnum | CPAdtNewType | CPArc
| CPStaticRefColl (* StaticRef(Set | BTreeSet | Map | BTreeMap): as a PATTERN, the arm `StaticRef(inner) if matches!( **inner, ..)`;
                     as the kind of a type, a StaticRef whose inner type is a set or map (an unguarded StaticRef pattern matches it too) *)
| CPLazyMap.      (* LazyStaticRef(Map | BTreeMap): as a PATTERN, the arm `LazyStaticRef(map) if matches!( **map, Map | BTreeMap)`;
                     as the kind of a type, a LazyStaticRef whose inner type is a map (an unguarded LazyStaticRef pattern matches it too) *)

(* the `bool /* const? */` an arm returns: a literal true / false, or computed (is_const of the parts, or delegated) *)
Inductive flagk := FTrue | FFalse | FDyn.

Definition lpat_eqb (a b : lpat) : bool :=
  match a, b with
  | LPAny, LPAny | LPPath, LPPath | LPBool, LPBool | LPString, LPString | LPInt, LPInt | LPFloat, LPFloat
  | LPList, LPList | LPMap, LPMap => true
  | _, _ => false
  end.

Definition cpat_idx (c : cpat) : nat :=
  match c with
  | CPAny => 0 | CPFastStr => 1 | CPString => 2 | CPStr => 3 | CPVoid => 4 | CPU8 => 5 | CPBool => 6 | CPI8 => 7 | CPI16 => 8
  | CPI32 => 9 | CPI64 => 10 | CPUInt32 => 11 | CPUInt64 => 12 | CPF32 => 13 | CPF64 => 14 | CPOrderedF64 => 15 | CPUuid => 16
  | CPBytes => 17 | CPLazyStaticRef => 18 | CPStaticRef => 19 | CPVec => 20 | CPArray => 21 | CPSet => 22 | CPBTreeSet => 23
  | CPMap => 24 | CPBTreeMap => 25 | CPAdtStruct => 26 | CPAdtEnum => 27 | CPAdtNewType => 28 | CPArc => 29 | CPLazyMap => 30 | CPStaticRefColl => 31
  end%nat.
Definition cpat_eqb (a b : cpat) : bool := Nat.eqb (cpat_idx a) (cpat_idx b).

(* does the scrutinee kind (never LPAny / CPAny) match the pattern? *)
Definition lmatch (pat k : lpat) : bool := match pat with LPAny => true | _ => lpat_eqb pat k end.
Definition cmatch (pat k : cpat) : bool :=
  match pat with
  | CPAny => true
  | CPLazyStaticRef => cpat_eqb CPLazyStaticRef k || cpat_eqb CPLazyMap k
  | CPStaticRef => cpat_eqb CPStaticRef k || cpat_eqb CPStaticRefColl k
  | _ => cpat_eqb pat k
  end.

(* one arm: its alternatives (or-pattern) and the flag it returns *)
Definition arm := (list (lpat * cpat) * flagk)%type.

Definition arm_matches (a : arm) (lk : lpat) (ck : cpat) : bool :=
  existsb (fun '(lp, cp) => lmatch lp lk && cmatch cp ck) (fst a).

(* index of the first arm that matches (Rust match semantics); length of the list = the `_ =>` fall-through *)
Fixpoint select (arms : list arm) (lk : lpat) (ck : cpat) : nat :=
  match arms with
  | [] => O
  | a :: r => if arm_matches a lk ck then O else S (select r lk ck)
  end.

Definition arm_flag (arms : list arm) (i : nat) : flagk :=
  match nth_error arms i with Some (_, f) => f | None => FDyn end.
