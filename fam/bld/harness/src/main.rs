//! pv-harness-bld: drives the real pilota-build.
//!
//!   pv-harness-bld gen <thrift|pb> <single|split|workspace|workspace-split> <out> [flags] -- <idl>...
//!       flags: --keep  --no-change-case  --no-ignore-unused  --include <dir>  --dump <file>  --dump-derive <file>
//!              --dedup <Name,Name>   Builder::dedup: structurally equal items with one of these names are emitted once per module
//!              --touch <idl file>:<Name,Name>   (repeatable) Builder::touch; only looked at while ignore_unused is on
//!              --special-namings <A,B>   Builder::special_namings      --common-crate-name <name>   Builder::common_crate_name
//!              --again <out2>   build a second time IN THE SAME PROCESS (fresh Builder, same options) into <out2>
//!       --dump-derive writes the input of AutoDerivePlugin as the plugins see it (the resolved rir, not the IDL):
//!         ORDER <def ids of Context.codegen_items, comma separated>
//!         ITEM <def id> <emitted 0|1> <Display of rust_name> <M:ty,ty | E:ty,ty/ty | N:ty | S | C | O>
//!       for every codegen item and every item reachable from one through the paths inside its types
//!       (ty = TyKind names in prefix form joined by '.', a path is P<def id>)
//!       --dump writes, before emission, one line per codegen item in the order pilota-build will hand
//!       them to write_items (single/split: Context.codegen_items; workspace: location_map iteration
//!       order, which is the per-crate item order of group_defs):
//!         I <mod path, comma separated, - when empty> <kind prefix> <Display of the raw name> <Display of rust_name> <class key>
//!       class key = a digest of what dedup.rs def_id_equal compares (kind, name, members by id with their types; paths by the
//!       name of their target) -- items with equal keys are structurally equal for Builder::dedup
//!       runs Builder::compile_with_config in this process; prints one status line
//!       `OK` | `PANIC <message>`; exit status 0 / 101 (rustfmt failure makes pilota-build
//!       call exit(code) itself).
//!   pv-harness-bld seeds
//!       prints the iteration order of a std HashMap, an ahash AHashMap and a DashMap holding the keys 0..32
//!       (one line each) -- lets the C17 check confirm that independent processes really get different
//!       hash seeds in this build
//!   pv-harness-bld lines
//!       one query per stdin line, one answer per stdout line (naming / path functions):
//!         disp <ident>                     Symbol's Display
//!         conv <kind> <ident>              IdentName conversions (kind: struct enum mod variant fn field const trait newtype)
//!         rel <a,b,c|-> <x,y,z|->          DefaultPathResolver::related_path
//!         wrel <a,b,c> <x,y,z>             WorkspacePathResolver::related_path
use std::io::{BufRead, Write};
use std::panic::{catch_unwind, AssertUnwindSafe};
use std::path::PathBuf;
use std::sync::{Arc, Mutex};

use pilota_build::middle::resolver::{DefaultPathResolver, PathResolver, WorkspacePathResolver};
use pilota_build::db::RirDatabase;
use pilota_build::{Builder, Context, DefId, IdentName, IdlService, Output, Plugin, Symbol};

/// dumps the codegen items (input of write_items) -- used by the C17 layout correspondence
struct DumpPlugin {
    path: PathBuf,
    workspace: bool,
}

impl Plugin for DumpPlugin {
    fn on_codegen_uint(&mut self, cx: &Context, items: &[DefId]) {
        let ids: Vec<DefId> = if self.workspace {
            cx.location_map.iter().map(|(k, _)| *k).collect()
        } else {
            items.to_vec()
        };
        let mut out = String::new();
        for def_id in ids {
            let item = match cx.item(def_id) {
                Some(i) => i,
                None => continue,
            };
            let prefix = match &*item {
                pilota_build::rir::Item::Message(_) => "message",
                pilota_build::rir::Item::Enum(_) => "enum",
                pilota_build::rir::Item::Service(_) => "service",
                pilota_build::rir::Item::NewType(_) => "new_type",
                pilota_build::rir::Item::Const(_) => "const",
                pilota_build::rir::Item::Mod(_) => "mod",
            };
            let mp = cx.mod_path(def_id);
            let mps = if mp.is_empty() {
                "-".to_string()
            } else {
                mp.iter().map(|s| (&**s).to_string()).collect::<Vec<_>>().join(",")
            };
            out.push_str(&format!(
                "I {} {} {} {} {}\n",
                mps,
                prefix,
                item.symbol_name(),
                cx.rust_name(def_id),
                class_key(cx, &item)
            ));
        }
        std::fs::write(&self.path, out).unwrap();
    }
}

/// dumps the item graph AutoDerivePlugin walks -- used by the C14 derive correspondence
struct DeriveDumpPlugin {
    path: PathBuf,
}

fn ty_text(t: &pilota_build::ty::Ty, out: &mut String, paths: &mut Vec<DefId>) {
    use pilota_build::ty::TyKind as K;
    let name = match &t.kind {
        K::String => "String",
        K::FastStr => "FastStr",
        K::Void => "Void",
        K::U8 => "U8",
        K::Bool => "Bool",
        K::BytesVec => "BytesVec",
        K::Bytes => "Bytes",
        K::I8 => "I8",
        K::I16 => "I16",
        K::I32 => "I32",
        K::I64 => "I64",
        K::UInt32 => "UInt32",
        K::UInt64 => "UInt64",
        K::F32 => "F32",
        K::F64 => "F64",
        K::OrderedF64 => "OrderedF64",
        K::Uuid => "Uuid",
        K::Vec(a) => {
            out.push_str("Vec.");
            return ty_text(a, out, paths);
        }
        K::Set(a) => {
            out.push_str("Set.");
            return ty_text(a, out, paths);
        }
        K::BTreeSet(a) => {
            out.push_str("BTreeSet.");
            return ty_text(a, out, paths);
        }
        K::Arc(a) => {
            out.push_str("Arc.");
            return ty_text(a, out, paths);
        }
        K::Map(a, b) => {
            out.push_str("Map.");
            ty_text(a, out, paths);
            out.push('.');
            return ty_text(b, out, paths);
        }
        K::BTreeMap(a, b) => {
            out.push_str("BTreeMap.");
            ty_text(a, out, paths);
            out.push('.');
            return ty_text(b, out, paths);
        }
        K::Path(p) => {
            paths.push(p.did);
            out.push_str(&format!("P{}", p.did.as_u32()));
            return;
        }
    };
    out.push_str(name);
}

impl Plugin for DeriveDumpPlugin {
    fn on_codegen_uint(&mut self, cx: &Context, items: &[DefId]) {
        let mut out = String::new();
        out.push_str("ORDER ");
        out.push_str(&items.iter().map(|d| d.as_u32().to_string()).collect::<Vec<_>>().join(","));
        out.push('\n');
        let emitted: std::collections::HashSet<DefId> = items.iter().copied().collect();
        let mut seen: std::collections::HashSet<DefId> = std::collections::HashSet::new();
        let mut queue: std::collections::VecDeque<DefId> = items.iter().copied().collect();
        while let Some(def_id) = queue.pop_front() {
            if !seen.insert(def_id) {
                continue;
            }
            let item = match cx.item(def_id) {
                Some(i) => i,
                None => continue,
            };
            let mut paths = vec![];
            let tys = |l: Vec<&pilota_build::ty::Ty>, paths: &mut Vec<DefId>| {
                l.iter()
                    .map(|t| {
                        let mut s = String::new();
                        ty_text(t, &mut s, paths);
                        s
                    })
                    .collect::<Vec<_>>()
                    .join(",")
            };
            let body = match &*item {
                pilota_build::rir::Item::Message(m) => {
                    format!("M:{}", tys(m.fields.iter().map(|f| &f.ty).collect(), &mut paths))
                }
                pilota_build::rir::Item::Enum(e) => format!(
                    "E:{}",
                    e.variants
                        .iter()
                        .map(|v| tys(v.fields.iter().collect(), &mut paths))
                        .collect::<Vec<_>>()
                        .join("/")
                ),
                pilota_build::rir::Item::NewType(t) => format!("N:{}", tys(vec![&t.ty], &mut paths)),
                pilota_build::rir::Item::Service(_) => "S".to_string(),
                pilota_build::rir::Item::Const(_) => "C".to_string(),
                pilota_build::rir::Item::Mod(_) => "O".to_string(),
            };
            out.push_str(&format!(
                "ITEM {} {} {} {}\n",
                def_id.as_u32(),
                if emitted.contains(&def_id) { 1 } else { 0 },
                cx.rust_name(def_id),
                body
            ));
            queue.extend(paths);
        }
        std::fs::write(&self.path, out).unwrap();
    }
}

/// what dedup.rs def_id_equal looks at, as a string (paths by the name of the item they name)
fn class_key(cx: &Context, item: &pilota_build::rir::Item) -> String {
    fn ty_key(cx: &Context, t: &pilota_build::ty::Ty, out: &mut String) {
        let mut paths = vec![];
        let mut s = String::new();
        ty_text(t, &mut s, &mut paths);
        // replace the def ids by the names of the items
        for d in paths {
            let name = cx.item(d).map(|i| i.symbol_name().to_string()).unwrap_or_default();
            s = s.replace(&format!("P{}", d.as_u32()), &format!("<{}>", name));
        }
        out.push_str(&s);
    }
    let mut k = String::new();
    match item {
        pilota_build::rir::Item::Message(m) => {
            k.push_str("M:");
            let mut fs: Vec<_> = m.fields.iter().collect();
            fs.sort_by_key(|f| f.id);
            for f in fs {
                k.push_str(&format!("{}{}", f.id, if f.is_optional() { "?" } else { "!" }));
                ty_key(cx, &f.ty, &mut k);
                k.push(';');
            }
        }
        pilota_build::rir::Item::Enum(e) => {
            k.push_str("E:");
            for v in e.variants.iter() {
                k.push_str(&format!("{:?}/{:?}", v.id, v.discr));
                for t in v.fields.iter() {
                    ty_key(cx, t, &mut k);
                }
                k.push(';');
            }
        }
        pilota_build::rir::Item::NewType(t) => {
            k.push_str("N:");
            ty_key(cx, &t.ty, &mut k);
        }
        pilota_build::rir::Item::Service(_) => k.push_str("S"),
        pilota_build::rir::Item::Const(_) => k.push_str("C"),
        pilota_build::rir::Item::Mod(_) => k.push_str("O"),
    }
    use std::hash::{Hash, Hasher};
    let mut h = std::collections::hash_map::DefaultHasher::new();
    (item.symbol_name().to_string(), k).hash(&mut h);
    format!("{:016x}", h.finish())
}

fn usage() -> ! {
    eprintln!("usage: pv-harness-bld gen <thrift|pb> <single|split|workspace|workspace-split> <out> [flags] -- <idl>... | lines");
    std::process::exit(2)
}

fn main() {
    let args: Vec<String> = std::env::args().collect();
    if args.len() < 2 {
        usage();
    }
    match args[1].as_str() {
        "gen" => gen(&args[2..]),
        "lines" => lines(),
        "seeds" => seeds(),
        _ => usage(),
    }
}

fn gen(a: &[String]) {
    if a.len() < 3 {
        usage();
    }
    let kind = a[0].clone();
    let mode = a[1].clone();
    let out = PathBuf::from(&a[2]);
    let mut keep = false;
    let mut change_case = true;
    let mut ignore_unused = true;
    let mut includes: Vec<PathBuf> = vec![];
    let mut dump: Option<PathBuf> = None;
    let mut dump_derive: Option<PathBuf> = None;
    let mut dedup: Vec<faststr::FastStr> = vec![];
    let mut touches: Vec<(PathBuf, Vec<String>)> = vec![];
    let mut special_namings: Vec<faststr::FastStr> = vec![];
    let mut common_crate_name: Option<String> = None;
    let mut again: Option<PathBuf> = None;
    let mut files: Vec<PathBuf> = vec![];
    let mut i = 3;
    let mut in_files = false;
    while i < a.len() {
        let s = a[i].as_str();
        if in_files {
            files.push(PathBuf::from(s));
        } else {
            match s {
                "--keep" => keep = true,
                "--no-change-case" => change_case = false,
                "--no-ignore-unused" => ignore_unused = false,
                "--include" => {
                    i += 1;
                    includes.push(PathBuf::from(&a[i]));
                }
                "--dump" => {
                    i += 1;
                    dump = Some(PathBuf::from(&a[i]));
                }
                "--dedup" => {
                    i += 1;
                    dedup.extend(a[i].split(',').filter(|x| !x.is_empty()).map(|x| faststr::FastStr::new(x)));
                }
                "--touch" => {
                    i += 1;
                    let (f, names) = a[i].rsplit_once(':').unwrap_or_else(|| usage());
                    touches.push((PathBuf::from(f), names.split(',').filter(|x| !x.is_empty()).map(|x| x.to_string()).collect()));
                }
                "--special-namings" => {
                    i += 1;
                    special_namings.extend(a[i].split(',').filter(|x| !x.is_empty()).map(|x| faststr::FastStr::new(x)));
                }
                "--common-crate-name" => {
                    i += 1;
                    common_crate_name = Some(a[i].clone());
                }
                "--again" => {
                    i += 1;
                    again = Some(PathBuf::from(&a[i]));
                }
                "--dump-derive" => {
                    i += 1;
                    dump_derive = Some(PathBuf::from(&a[i]));
                }
                "--" => in_files = true,
                _ => usage(),
            }
        }
        i += 1;
    }
    if files.is_empty() {
        usage();
    }
    let msg: Arc<Mutex<Option<String>>> = Arc::new(Mutex::new(None));
    let m2 = msg.clone();
    std::panic::set_hook(Box::new(move |info| {
        let payload = if let Some(s) = info.payload().downcast_ref::<&str>() {
            s.to_string()
        } else if let Some(s) = info.payload().downcast_ref::<String>() {
            s.clone()
        } else {
            "<non-string payload>".to_string()
        };
        let loc = info
            .location()
            .map(|l| format!("{}:{}", l.file(), l.line()))
            .unwrap_or_default();
        let mut g = m2.lock().unwrap();
        if g.is_none() {
            *g = Some(format!("{} @ {}", payload.replace('\n', " "), loc));
        }
    }));
    let split = mode == "split" || mode == "workspace-split";
    let keep_files: Vec<PathBuf> = if keep { files.clone() } else { vec![] };
    let workspace = mode.starts_with("workspace");
    // one build with a fresh Builder; the dump plugins are attached to the first build only
    let run_once = |out: PathBuf, first: bool| {
        let output = if workspace { Output::Workspace(out) } else { Output::File(out) };
        let services: Vec<IdlService> = files.iter().map(|p| IdlService::from_path(p.clone())).collect();
        macro_rules! configure {
            ($b:expr) => {{
                let mut b = $b
                    .include_dirs(includes.clone())
                    .ignore_unused(ignore_unused)
                    .change_case(change_case)
                    .split_generated_files(split)
                    .keep_unknown_fields(keep_files.clone())
                    .dedup(dedup.clone())
                    .special_namings(special_namings.clone())
                    .touch(touches.clone());
                if let Some(n) = common_crate_name.clone() {
                    b = b.common_crate_name(n.into());
                }
                if first {
                    if let Some(p) = dump.clone() {
                        b = b.plugin(DumpPlugin { path: p, workspace });
                    }
                    if let Some(p) = dump_derive.clone() {
                        b = b.plugin(DeriveDumpPlugin { path: p });
                    }
                }
                b.compile_with_config(services, output)
            }};
        }
        match kind.as_str() {
            "thrift" => configure!(Builder::thrift()),
            "pb" => configure!(Builder::protobuf()),
            _ => usage(),
        }
    };
    let r = catch_unwind(AssertUnwindSafe(|| {
        run_once(out.clone(), true);
        if let Some(o2) = again.clone() {
            run_once(o2, false);
        }
    }));
    let stdout = std::io::stdout();
    let mut o = stdout.lock();
    match r {
        Ok(()) => {
            writeln!(o, "OK").unwrap();
        }
        Err(_) => {
            let m = msg.lock().unwrap().clone().unwrap_or_default();
            writeln!(o, "PANIC {}", m).unwrap();
            o.flush().unwrap();
            std::process::exit(101);
        }
    }
}

fn seeds() {
    let keys: Vec<String> = (0..32).map(|i| format!("k{i}")).collect();
    let std_map: std::collections::HashMap<String, u32> = keys.iter().cloned().zip(0..).collect();
    let a_map: ahash::AHashMap<String, u32> = keys.iter().cloned().zip(0..).collect();
    let d_map: dashmap::DashMap<String, u32> = keys.iter().cloned().zip(0..).collect();
    let j = |v: Vec<u32>| v.iter().map(|x| x.to_string()).collect::<Vec<_>>().join(",");
    println!("std {}", j(std_map.values().copied().collect()));
    println!("ahash {}", j(a_map.values().copied().collect()));
    println!("dashmap {}", j(d_map.iter().map(|kv| *kv.value()).collect()));
}

fn segs(s: &str) -> Vec<Symbol> {
    if s == "-" {
        vec![]
    } else {
        s.split(',').map(|x| Symbol::from(x.to_string())).collect()
    }
}

fn conv(kind: &str, id: &str) -> Result<String, String> {
    let r = match kind {
        "struct" => id.struct_ident(),
        "enum" => id.enum_ident(),
        "mod" => id.mod_ident(),
        "variant" => id.variant_ident(),
        "fn" => id.fn_ident(),
        "field" => id.field_ident(),
        "const" => id.const_ident(),
        "trait" => id.trait_ident(),
        "newtype" => id.newtype_ident(),
        _ => return Err(format!("bad kind {kind}")),
    };
    Ok(r.to_string())
}

fn run_line(line: &str) -> Result<String, String> {
    let t: Vec<&str> = line.split(' ').collect();
    match t[0] {
        "disp" if t.len() == 2 => Ok(Symbol::from(t[1].to_string()).to_string()),
        "conv" if t.len() == 3 => conv(t[1], t[2]),
        "convdisp" if t.len() == 3 => Ok(Symbol::from(conv(t[1], t[2])?).to_string()),
        "rel" if t.len() == 3 => Ok(DefaultPathResolver.related_path(&segs(t[1]), &segs(t[2])).to_string()),
        "wrel" if t.len() == 3 => Ok(WorkspacePathResolver.related_path(&segs(t[1]), &segs(t[2])).to_string()),
        _ => Err(format!("bad line {line}")),
    }
}

fn lines() {
    std::panic::set_hook(Box::new(|_| {}));
    let stdin = std::io::stdin();
    let stdout = std::io::stdout();
    let mut out = std::io::BufWriter::new(stdout.lock());
    for line in stdin.lock().lines() {
        let line = line.unwrap();
        let line = line.trim_end_matches(['\r', '\n']);
        if line.is_empty() {
            writeln!(out).unwrap();
            out.flush().unwrap();
            continue;
        }
        match catch_unwind(AssertUnwindSafe(|| run_line(line))) {
            Ok(Ok(s)) => writeln!(out, "{s}").unwrap(),
            Ok(Err(e)) => writeln!(out, "BADCASE {e}").unwrap(),
            Err(_) => writeln!(out, "panic").unwrap(),
        }
        // one answer per query, delivered at once: the driver (core.run_lines) may wait for it before sending the next
        out.flush().unwrap();
    }
    out.flush().unwrap();
}
