(* C05 -- Protobuf encode/decode round trip and encoded_len agreement.
   Only statements, each closed by [exact] of a lemma proved in Proofs/, with Print Assumptions beneath. *)
From PVPb Require Import Wire Codec Msg Proofs.VarintP Proofs.WireP Proofs.CastP Proofs.CodecP Proofs.MsgLenP Proofs.MsgRtP GroupMsg Proofs.GroupP Generated.PbFns FnAccounted Proofs.FnsP.
Open Scope Z_scope.

(* every u64, every decode path (fast path / unrolled slice path / byte-at-a-time slow path; which one
   runs depends on the chunking of the buffer), arbitrary trailing bytes [r] *)
Theorem C05_varint_rt : forall v r a, 0 <= v < two64 ->
  decode_varint (mkR (encode_varint v ++ r) a) = OOk v (mkR r a).
Proof. exact decode_varint_rt. Qed.
Print Assumptions C05_varint_rt.

Theorem C05_varint_rt_slow : forall v r a, 0 <= v < two64 ->
  decode_varint_slow (mkR (encode_varint v ++ r) a) = OOk v (mkR r a).
Proof. exact decode_varint_slow_rt. Qed.
Print Assumptions C05_varint_rt_slow.

Theorem C05_varint_rt_chunk : forall clen v r a, (1 <= clen)%nat -> 0 <= v < two64 ->
  decode_varint_chunk clen (mkR (encode_varint v ++ r) a) = OOk v (mkR r a).
Proof. exact decode_varint_chunk_rt. Qed.
Print Assumptions C05_varint_rt_chunk.

(* on ALL inputs the three paths agree (and none panics) *)
Theorem C05_varint_paths_agree : forall clen s, (1 <= clen)%nat ->
  decode_varint_chunk clen s = decode_varint s /\ decode_varint_slow s = decode_varint s.
Proof. exact decode_varint_paths_agree. Qed.
Print Assumptions C05_varint_paths_agree.

Theorem C05_varint_len : forall v, 0 <= v < two64 ->
  encoded_len_varint v = Z.of_nat (length (encode_varint v)).
Proof. exact encoded_len_varint_correct. Qed.
Print Assumptions C05_varint_len.

(* keys: every tag of 1 .. 2^29-1 (arithmetic on tag * 8 + wire type, not a sweep), every wire type *)
Theorem C05_key_rt : forall tag wt r a, tag_ok tag ->
  decode_key (mkR (encode_key tag wt ++ r) a) = OOk (tag, wt) (mkR r a).
Proof. exact decode_key_rt. Qed.
Print Assumptions C05_key_rt.

Theorem C05_key_len : forall tag wt, tag_ok tag -> key_len tag = Z.of_nat (length (encode_key tag wt)).
Proof. exact key_len_correct. Qed.
Print Assumptions C05_key_len.

(* ---- per codec module.  [scalar_mod m]: the 7 varint-family modules (bool int32 int64 uint32 uint64
   sint32 sint64), the 6 fixed-width ones (float double fixed32 fixed64 sfixed32 sfixed64), string,
   faststr, bytes.  Every tag of 1..2^29-1, every value of the Rust type, arbitrary trailing bytes:
   <module>::encode then decode_key + <module>::merge yields the value, leaves exactly the trailing
   bytes, and charges the allocator with exactly the payload length of byte strings. *)
Theorem C05_scalar_rt : forall m tag v r a, scalar_mod m = true -> tag_ok tag -> mod_value_okb m v = true ->
  bind decode_key (fun k => merge_scalar m (snd k)) (mkR (encode_scalar m tag v ++ r) a)
  = OOk v (mkR r (a + payload_cost m v)).
Proof. exact scalar_rt. Qed.
Print Assumptions C05_scalar_rt.

Theorem C05_scalar_len : forall m tag v, scalar_mod m = true -> tag_ok tag -> mod_value_okb m v = true ->
  encoded_len_scalar m tag v = zlen (encode_scalar m tag v).
Proof. exact encoded_len_scalar_correct. Qed.
Print Assumptions C05_scalar_len.

(* the wrapping casts: the u64 put on the wire is in range and converts back (sint: zigzag; int32: sign
   extension, so negative values take ten bytes) *)
Theorem C05_varint_casts : forall m z, is_varint_mod m = true -> mod_value_okb m (VI z) = true ->
  0 <= to_uint64 m z < two64 /\ from_uint64 m (to_uint64 m z) = z.
Proof. exact varint_cast_rt. Qed.
Print Assumptions C05_varint_casts.

Theorem C05_int32_negative_ten_bytes : forall z, -2147483648 <= z < 0 -> 2 ^ 63 <= to_uint64 MInt32 z < two64.
Proof. exact int32_negative_ten_bytes. Qed.
Print Assumptions C05_int32_negative_ten_bytes.

(* repeated (one record per element) and packed forms; elements are appended to what was there *)
Theorem C05_repeated_rt : forall m tag, scalar_mod m = true -> tag_ok tag ->
  forall vs acc r a, Forall (fun v => mod_value_okb m v = true) vs ->
  merge_records m (length vs) acc (mkR (encode_repeated m tag vs ++ r) a)
  = OOk (acc ++ vs) (mkR r (a + sumZ (map (fun v => payload_cost m v + 1) vs))).
Proof. exact repeated_rt. Qed.
Print Assumptions C05_repeated_rt.

Theorem C05_packed_rt : forall m tag vs acc r a, numeric_mod m = true -> tag_ok tag -> vs <> [] ->
  Forall (fun v => mod_value_okb m v = true) vs -> zlen (flat_map (payload m) vs) < two64 ->
  bind decode_key (fun k => merge_repeated m (snd k) acc) (mkR (encode_packed m tag vs ++ r) a)
  = OOk (acc ++ vs) (mkR r (a + Z.of_nat (length vs))).
Proof. exact packed_rt. Qed.
Print Assumptions C05_packed_rt.

Theorem C05_repeated_len : forall m tag vs, scalar_mod m = true -> tag_ok tag ->
  Forall (fun v => mod_value_okb m v = true) vs ->
  encoded_len_repeated m tag vs = zlen (encode_repeated m tag vs).
Proof. exact encoded_len_repeated_correct. Qed.
Print Assumptions C05_repeated_len.

Theorem C05_packed_len : forall m tag vs, numeric_mod m = true -> tag_ok tag ->
  Forall (fun v => mod_value_okb m v = true) vs -> zlen (flat_map (payload m) vs) < two64 ->
  encoded_len_packed m tag vs = zlen (encode_packed m tag vs).
Proof. exact encoded_len_packed_correct. Qed.
Print Assumptions C05_packed_len.

(* ---- message level.  C05_msg_len: for every well-formed schema, both settings of pb-encode-default-value, every
   typed value of every message (nested messages, repeated, maps with default skipping, oneofs): the generated
   encoded_len() is the number of bytes the generated encode_raw() writes, whenever those bytes fit in a usize *)
Theorem C05_msg_len : forall edv sc, schema_ok sc = true -> forall d i v,
  wt_msg d sc i v = true -> zlen (enc_msg edv d sc i v) < two64 -> len_msg edv d sc i v = zlen (enc_msg edv d sc i v).
Proof. exact msg_len_correct. Qed.
Print Assumptions C05_msg_len.

(* C05_msg_rt: Message::decode (Message::encode x) = x -- every well-formed schema, both settings of
   pb-encode-default-value, every typed value x of every message type (nested messages, repeated scalars and messages,
   maps with default skipping, oneofs), the whole input consumed.  Side conditions, each of them necessary:
   the bytes fit in a usize; the value is at most (RECURSION_LIMIT + 1) / 2 levels deep (an embedded message costs one
   unit of the decoder's recursion budget, a map entry with a message value two: deeper values encode but do not
   decode); and [lossless]: wherever the encoder skips a map value because it `== V::default()`, the value IS the
   default (PartialEq calls -0.0 a default: finding F-05a, refuted below).  With the feature on, [lossless] is vacuous. *)
Theorem C05_msg_rt : forall edv sc d i v a, schema_ok sc = true -> wt_msg d sc i v = true -> lossless edv d sc i v ->
  zlen (enc_msg edv d sc i v) < two64 -> 2 * Z.of_nat d - 1 <= recursion_limit ->
  exists a', msg_decode sc i (mkR (enc_msg edv d sc i v) a) = OOk v (mkR [] a').
Proof. exact msg_roundtrip. Qed.
Print Assumptions C05_msg_rt.

Theorem C05_msg_rt_encode_default_value : forall sc d i v a, schema_ok sc = true -> wt_msg d sc i v = true ->
  zlen (enc_msg true d sc i v) < two64 -> 2 * Z.of_nat d - 1 <= recursion_limit ->
  exists a', msg_decode sc i (mkR (enc_msg true d sc i v) a) = OOk v (mkR [] a').
Proof. exact msg_roundtrip_edv. Qed.
Print Assumptions C05_msg_rt_encode_default_value.

(* F-05a: without [lossless] the round trip fails when the feature is off -- map<int32, double> { 5: -0.0 } *)
Theorem C05_msg_rt_negzero_refuted :
  let sc := [[FMap 1 TYPE_INT32 (TScalar TYPE_DOUBLE)]] in
  let v := VL NMsg [VL NMap [VL NPair [VI 5; VI 9223372036854775808]]] in
  schema_ok sc = true /\ wt_msg 1 sc 0 v = true /\
  msg_decode sc 0 (mkR (enc_msg false 1 sc 0 v) 0) = OOk (VL NMsg [VL NMap [VL NPair [VI 5; VI 0]]]) (mkR [] 1) /\
  msg_decode sc 0 (mkR (enc_msg true 1 sc 0 v) 0) = OOk v (mkR [] 1).
Proof. exact msg_roundtrip_negzero_refuted. Qed.
Print Assumptions C05_msg_rt_negzero_refuted.

(* ---- the group codec (pilota::prost::encoding::group: encode / encoded_len / encode_repeated / encoded_len_repeated /
   merge / merge_repeated).  pilota-build's protobuf front end cannot emit group fields, but the module is public runtime
   API; the pb harness exercises it on every run through a hand-written Message impl (GroupHolder<M>: an optional, a
   required and a repeated group field over every generated message type M), whose model is GroupMsg.v. *)

(* what group::merge reads: the body as the generated encoder writes it, then the EndGroup key.  Every schema, every
   message type as body, every typed value (the EMPTY body of an all-optional message included), every field number, any
   trailing bytes.  Side conditions as for C05_msg_rt, the group itself costing one unit of the recursion budget. *)
Theorem C05_group_merge_rt : forall edv sc d i v tag c r a, schema_ok sc = true -> wt_msg d sc i v = true -> lossless edv d sc i v ->
  zlen (enc_msg edv d sc i v) < two64 -> tag_ok tag -> 2 * Z.of_nat d <= c -> 1 <= c <= recursion_limit ->
  exists a', group_merge (merge_field depth_fuel sc i) tag StartGroup (default_msg depth_fuel sc i) c
               (mkR (enc_msg edv d sc i v ++ encode_key tag EndGroup ++ r) a) = OOk v (mkR r a').
Proof. exact group_merge_rt. Qed.
Print Assumptions C05_group_merge_rt.

(* the whole record group::encode writes -- StartGroup key, body, EndGroup key -- read as a merge_field arm reads it *)
Theorem C05_group_rt : forall edv sc d i v tag c r a, schema_ok sc = true -> wt_msg d sc i v = true -> lossless edv d sc i v ->
  zlen (enc_msg edv d sc i v) < two64 -> tag_ok tag -> 2 * Z.of_nat d <= c -> 1 <= c <= recursion_limit ->
  exists a', (let+ (t, w) := decode_key in group_merge (merge_field depth_fuel sc i) t w (default_msg depth_fuel sc i) c)
               (mkR (group_encode tag (enc_msg edv d sc i v) ++ r) a) = OOk v (mkR r a').
Proof. exact group_record_rt. Qed.
Print Assumptions C05_group_rt.

(* group::encoded_len = 2 * key_len(tag) + body.encoded_len() is the number of bytes group::encode writes -- also for a
   body of length 0: an empty group is two keys, not nothing --, and encoded_len_repeated is the number of bytes
   encode_repeated writes *)
Theorem C05_group_len : forall edv sc d i v tag, schema_ok sc = true -> wt_msg d sc i v = true ->
  zlen (enc_msg edv d sc i v) < two64 -> tag_ok tag ->
  group_encoded_len tag (len_msg edv d sc i v) = zlen (group_encode tag (enc_msg edv d sc i v)).
Proof. exact group_len. Qed.
Print Assumptions C05_group_len.

Theorem C05_group_len_repeated : forall edv sc d i tag, schema_ok sc = true -> tag_ok tag -> forall vs,
  Forall (fun v => wt_msg d sc i v = true /\ zlen (enc_msg edv d sc i v) < two64) vs ->
  group_encoded_len_repeated tag (map (len_msg edv d sc i) vs) = zlen (group_encode_repeated tag (map (enc_msg edv d sc i) vs)).
Proof. exact group_len_repeated. Qed.
Print Assumptions C05_group_len_repeated.

(* where presence and position are information: a message with an OPTIONAL group, a required group, a REPEATED group and a
   scalar (the harness's GroupHolder<M>).  Encode then decode gives the value back: an optional group that is present
   is present afterwards whatever its body (empty included), a repeated group keeps every element in order (empty
   ones included), nothing is left of the input. *)
Theorem C05_group_holder_rt : forall edv sc i d, schema_ok sc = true -> 2 * Z.of_nat d <= recursion_limit ->
  forall (o : option val) r ms t a,
    match o with Some v => body_ok edv sc i d v | None => True end -> body_ok edv sc i d r -> Forall (body_ok edv sc i d) ms ->
    0 <= t < two32 ->
    let x := VL NMsg [match o with Some v => VL NSome [v] | None => VL NNone [] end; r; VL NRep ms; VI t] in
    exists a', gh_decode sc i (mkR (gh_enc sc i edv d x) a) = OOk x (mkR [] a').
Proof. exact holder_roundtrip. Qed.
Print Assumptions C05_group_holder_rt.
(* non-vacuity: Proofs/GroupP.v group_empty_body (an empty body is the two keys, 4 bytes for field 1000; a repeated group
   [full; empty; full] has the reported length; the holder with Some(empty) / [full; empty; full] round-trips). *)

(* F-05b: REFUTED for the FloatValue / DoubleValue wrapper impls (types.rs `impl Message for f32 / f64`): -0.0 is written as
   the empty message, exactly like +0.0, and reads back as +0.0 *)
Theorem C05_wrapper_negzero_refuted :
  wrapper_enc (Some MDouble) (VI 9223372036854775808) = [] /\ wrapper_enc (Some MDouble) (VI 0) = [] /\
  wrapper_decode (Some MDouble) (mkR (wrapper_enc (Some MDouble) (VI 9223372036854775808)) 0) = OOk (VI 0) (mkR [] 0) /\
  wrapper_enc (Some MFloat) (VI 2147483648) = [] /\
  wrapper_decode (Some MFloat) (mkR (wrapper_enc (Some MFloat) (VI 2147483648)) 0) = OOk (VI 0) (mkR [] 0).
Proof. exact wrapper_negzero_refuted. Qed.
Print Assumptions C05_wrapper_negzero_refuted.
(* the `== default` premises of C05_msg_rt exercised by entries that ARE defaults: Proofs/MsgRtP.v msg_roundtrip_default_entries
   ({0: 0.0}, {7: 0.0}, {"": leaf} with key / value / both omitted on the wire). *)

(* structural inventory: the regenerated list of every fn of pilota/src/prost/encoding.rs outside its test modules (module /
   macro path and signature) is the accounted list the models were written against -- by computation; a new or changed
   codec function breaks this obligation *)
Theorem C05_encoding_fns : encoding_fns = accounted_encoding_fns.
Proof. exact encoding_fns_accounted. Qed.
Print Assumptions C05_encoding_fns.
