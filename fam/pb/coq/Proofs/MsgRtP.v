(* C05, message level round trip: Message::decode (Message::encode x) = x on the schema-directed model of the
   generated code, for every well-formed schema, every typed value of every message type (nested messages, repeated
   scalars and messages, maps, oneofs), both settings of pb-encode-default-value.
   Plan: [steps] = a byte string is a sequence of records each of which one iteration of the record loop consumes
   exactly; a field's encoding is a sequence of such records that only touch that field's slot ([fsteps]); the fields
   are encoded in struct order, so the slots are filled left to right starting from Default::default(). *)
From PVPb Require Import Msg Proofs.BitsP Proofs.VarintP Proofs.WireP Proofs.CastP Proofs.CodecP Proofs.TotalP Proofs.DepthP
  Proofs.ShapeP Proofs.MsgLenP Proofs.MergeP Proofs.MergeCor Proofs.UnknownP.
From Coq Require Import ZifyN ZifyNat ZifyBool.
Open Scope Z_scope.

(* ------------------------------------------------------------------ record sequences *)
Section GSteps.
  Context {T : Type}.
  Variable body : T -> M T.

  (* every record of b is consumed exactly by one iteration of the loop, whatever follows; x evolves to x' *)
  Inductive gsteps : T -> list byte -> T -> Prop :=
  | gsteps_nil x : gsteps x [] x
  | gsteps_cons x R x' b x'' :
      R <> [] -> (forall rest a, exists a', body x (mkR (R ++ rest) a) = OOk x' (mkR rest a')) ->
      gsteps x' b x'' -> gsteps x (R ++ b) x''.

  Lemma gsteps_app x b1 x1 b2 x2 : gsteps x b1 x1 -> gsteps x1 b2 x2 -> gsteps x (b1 ++ b2) x2.
  Proof.
    intros H1 H2. induction H1 as [x|x R x' b x'' HR Hb Hs IH]; [exact H2|].
    rewrite <- app_assoc. econstructor; eauto.
  Qed.

  Lemma gsteps_one x R x' : R <> [] ->
    (forall rest a, exists a', body x (mkR (R ++ rest) a) = OOk x' (mkR rest a')) -> gsteps x R x'.
  Proof. intros HR Hb. rewrite <- (app_nil_r R). econstructor; eauto. constructor. Qed.

  (* the loop with limit = what lies behind the records *)
  Lemma gsteps_loop x b x' : gsteps x b x' -> forall tail a f, (length (b ++ tail) < f)%nat ->
    exists a', while_remaining f (length tail) body x (mkR (b ++ tail) a) = OOk x' (mkR tail a').
  Proof.
    induction 1 as [x|x R x1 b x2 HR Hb Hs IH]; intros tail a f Hf.
    - exists a. destruct f; cbn [app while_remaining rb]; rewrite Nat.ltb_irrefl; reflexivity.
    - rewrite <- app_assoc in *. destruct (Hb (b ++ tail) a) as [a1 E]. destruct f as [|f]; [lia|].
      assert (Hlt : (length tail < length (rb (mkR (R ++ b ++ tail) a)))%nat).
      { cbn [rb]. rewrite !app_length. destruct R; [congruence|cbn [length]; lia]. }
      rewrite (while_remaining_step _ _ _ _ _ _ _ Hlt E). apply IH.
      rewrite !app_length in *. destruct R; [congruence|cbn [length] in *; lia].
  Qed.

  (* merge_loop: length prefix, then exactly those records *)
  Lemma merge_loop_gsteps x b x' rest a : gsteps x b x' -> zlen b < two64 ->
    exists a', merge_loop body x (mkR (encode_varint (zlen b) ++ b ++ rest) a) = OOk x' (mkR rest a').
  Proof.
    intros Hs Hz. pose proof (zlen_nonneg b). unfold merge_loop.
    rewrite (bind_ok _ _ _ _ _ (decode_varint_rt (zlen b) _ a ltac:(lia))).
    rewrite (bind_ok _ _ _ _ _ (remaining_eq _)). cbn [rb]. rewrite app_length.
    replace (Z.of_nat (length b + length rest) <? zlen b) with false by (unfold zlen; lia).
    replace (length b + length rest - Z.to_nat (zlen b))%nat with (length rest) by (unfold zlen; lia).
    unfold while_rem. unfold bind at 1. unfold bind at 1. rewrite remaining_eq. cbn [rb].
    destruct (gsteps_loop x b x' Hs rest a (S (length (b ++ rest))) ltac:(lia)) as [a' E].
    rewrite E. exists a'. unfold bind. rewrite remaining_eq. cbn [rb]. rewrite Nat.eqb_refl. reflexivity.
  Qed.
End GSteps.

Definition steps (sc : schema) (dm : nat) (j : nat) (c : Z) : val -> list byte -> val -> Prop := gsteps (rbody sc dm j c).

(* message::merge on the encoding of an embedded message whose records are [steps] at the inner budget *)
Lemma message_merge_exact sc dm j c cur raw e rest a :
  steps sc dm j (c - 1) cur raw e -> 1 <= c -> zlen raw < two64 ->
  exists a', message_merge (merge_field dm sc j) LengthDelimited cur c (mkR (encode_varint (zlen raw) ++ raw ++ rest) a)
             = OOk e (mkR rest a').
Proof.
  intros Hs Hc Hz. unfold message_merge.
  rewrite (bind_ok _ _ _ _ _ (check_wire_type_same _ _)).
  rewrite (bind_ok _ _ _ _ _ (limit_ok c _ ltac:(lia))).
  rewrite (bind_ok _ _ _ _ _ (enter_ok c _ Hc)).
  exact (merge_loop_gsteps (rbody sc dm j (c - 1)) cur raw e rest a Hs Hz).
Qed.

(* ------------------------------------------------------------------ routing a record to its slot *)
Lemma merge_in_fields_prefix rec dflt tag wt ctx s : forall pre_f pre_x fs xs,
  length pre_f = length pre_x -> existsb (Z.eqb tag) (flat_map field_tags pre_f) = false ->
  merge_in_fields rec dflt (pre_f ++ fs) (pre_x ++ xs) tag wt ctx s
  = (let+ r := merge_in_fields rec dflt fs xs tag wt ctx in ret (pre_x ++ r)) s.
Proof.
  induction pre_f as [|f pre_f IH]; intros pre_x fs xs Hl Hn.
  - destruct pre_x; [|discriminate Hl]. cbn [app]. unfold bind. destruct (merge_in_fields rec dflt fs xs tag wt ctx s); reflexivity.
  - destruct pre_x as [|x pre_x]; [discriminate Hl|]. cbn [app merge_in_fields].
    cbn [flat_map] in Hn. rewrite existsb_app in Hn. apply orb_false_iff in Hn. destruct Hn as [Hn1 Hn2]. rewrite Hn1.
    unfold bind at 1. rewrite IH by (auto; cbn in Hl; lia). unfold bind.
    destruct (merge_in_fields rec dflt fs xs tag wt ctx s); reflexivity.
Qed.

Lemma body_at (sc : schema) dm j c pre_f f post_f pre_x cur post_x tag wt payload rest a cur' a' :
  nth_error sc j = Some (pre_f ++ f :: post_f) -> length pre_f = length pre_x -> tag_ok tag ->
  existsb (Z.eqb tag) (flat_map field_tags pre_f) = false -> existsb (Z.eqb tag) (field_tags f) = true ->
  merge_fieldval (merge_field dm sc) (default_ty dm sc) f cur tag wt c (mkR (payload ++ rest) a) = OOk cur' (mkR rest a') ->
  rbody sc (S dm) j c (VL NMsg (pre_x ++ cur :: post_x)) (mkR ((encode_key tag wt ++ payload) ++ rest) a)
  = OOk (VL NMsg (pre_x ++ cur' :: post_x)) (mkR rest a').
Proof.
  intros Hn Hl Ht Hpre Hin Hm. unfold rbody. rewrite <- app_assoc.
  rewrite (bind_ok _ _ _ _ _ (decode_key_rt tag wt _ a Ht)). cbn [merge_field]. rewrite Hn.
  unfold bind at 1. rewrite merge_in_fields_prefix by assumption. cbn [merge_in_fields]. rewrite Hin.
  unfold bind. rewrite Hm. reflexivity.
Qed.

Lemma field_at (sc : schema) dm j c pre_f f post_f pre_x cur post_x tag wt payload rest a cur' a' :
  nth_error sc j = Some (pre_f ++ f :: post_f) -> length pre_f = length pre_x ->
  existsb (Z.eqb tag) (flat_map field_tags pre_f) = false -> existsb (Z.eqb tag) (field_tags f) = true ->
  merge_fieldval (merge_field dm sc) (default_ty dm sc) f cur tag wt c (mkR (payload ++ rest) a) = OOk cur' (mkR rest a') ->
  merge_field (S dm) sc j (VL NMsg (pre_x ++ cur :: post_x)) tag wt c (mkR (payload ++ rest) a)
  = OOk (VL NMsg (pre_x ++ cur' :: post_x)) (mkR rest a').
Proof.
  intros Hn Hl Hpre Hin Hm. cbn [merge_field]. rewrite Hn.
  unfold bind at 1. rewrite merge_in_fields_prefix by assumption. cbn [merge_in_fields]. rewrite Hin.
  unfold bind. rewrite Hm. reflexivity.
Qed.

(* ------------------------------------------------------------------ records with their keys *)
(* [steps] whose every record is a key -- of a wire type other than EndGroup -- and a payload that merge_field consumes
   exactly: what the loop of group::merge needs to know (it looks at the wire type before it calls merge_field) *)
Section KSteps.
  Variable sc : schema.
  Variables (dm : nat) (j : nat) (c : Z).

  Inductive ksteps : val -> list byte -> val -> Prop :=
  | ksteps_nil x : ksteps x [] x
  | ksteps_cons x tag wt payload x' b x'' :
      tag_ok tag -> wt <> EndGroup ->
      (forall rest a, exists a', merge_field dm sc j x tag wt c (mkR (payload ++ rest) a) = OOk x' (mkR rest a')) ->
      ksteps x' b x'' -> ksteps x ((encode_key tag wt ++ payload) ++ b) x''.

  Lemma ksteps_app x b1 x1 b2 x2 : ksteps x b1 x1 -> ksteps x1 b2 x2 -> ksteps x (b1 ++ b2) x2.
  Proof.
    intros H1 H2. induction H1 as [x|x tag wt payload x' b x'' Ht Hw Hm Hs IH]; [exact H2|].
    rewrite <- app_assoc. econstructor; eauto.
  Qed.

  Lemma ksteps_steps x b x' : ksteps x b x' -> steps sc dm j c x b x'.
  Proof.
    unfold steps. induction 1 as [x|x tag wt payload x' b x'' Ht Hw Hm Hs IH]; [constructor|].
    econstructor; [| |exact IH].
    - intros E. apply app_eq_nil in E. destruct E as [E _]. exact (encode_key_nonempty _ _ E).
    - intros rest a. destruct (Hm rest a) as [a' E]. exists a'. unfold rbody. rewrite <- app_assoc.
      rewrite (bind_ok _ _ _ _ _ (decode_key_rt tag wt _ a Ht)). exact E.
  Qed.
End KSteps.

(* ------------------------------------------------------------------ the records of one field *)
Section FSteps.
  Variable sc : schema.
  Variables (dm : nat) (c : Z) (f : field).

  Inductive fsteps : val -> list byte -> val -> Prop :=
  | fsteps_nil cur : fsteps cur [] cur
  | fsteps_cons cur tag wt payload cur' b cur'' :
      existsb (Z.eqb tag) (field_tags f) = true -> tag_ok tag -> wt <> EndGroup ->
      (forall rest a, exists a', merge_fieldval (merge_field dm sc) (default_ty dm sc) f cur tag wt c (mkR (payload ++ rest) a)
                                 = OOk cur' (mkR rest a')) ->
      fsteps cur' b cur'' -> fsteps cur ((encode_key tag wt ++ payload) ++ b) cur''.

  Lemma fsteps_one cur tag wt payload cur' :
    existsb (Z.eqb tag) (field_tags f) = true -> tag_ok tag -> wt <> EndGroup ->
    (forall rest a, exists a', merge_fieldval (merge_field dm sc) (default_ty dm sc) f cur tag wt c (mkR (payload ++ rest) a)
                               = OOk cur' (mkR rest a')) ->
    fsteps cur (encode_key tag wt ++ payload) cur'.
  Proof. intros. rewrite <- (app_nil_r (encode_key tag wt ++ payload)). econstructor; eauto. constructor. Qed.

  Lemma fsteps_steps j pre_f post_f pre_x post_x cur b cur' :
    nth_error sc j = Some (pre_f ++ f :: post_f) -> length pre_f = length pre_x ->
    (forall tag, existsb (Z.eqb tag) (field_tags f) = true -> existsb (Z.eqb tag) (flat_map field_tags pre_f) = false) ->
    fsteps cur b cur' ->
    steps sc (S dm) j c (VL NMsg (pre_x ++ cur :: post_x)) b (VL NMsg (pre_x ++ cur' :: post_x)).
  Proof.
    intros Hn Hl Hd H. unfold steps. induction H as [cur|cur tag wt payload cur1 b cur2 Hin Ht Hwt Hm Hs IH]; [constructor|].
    econstructor; [| |exact IH].
    - intros E. apply app_eq_nil in E. destruct E as [E _]. exact (encode_key_nonempty _ _ E).
    - intros rest a. destruct (Hm rest a) as [a' E]. exists a'. eapply body_at; eauto.
  Qed.

  Lemma fsteps_ksteps j pre_f post_f pre_x post_x cur b cur' :
    nth_error sc j = Some (pre_f ++ f :: post_f) -> length pre_f = length pre_x ->
    (forall tag, existsb (Z.eqb tag) (field_tags f) = true -> existsb (Z.eqb tag) (flat_map field_tags pre_f) = false) ->
    fsteps cur b cur' ->
    ksteps sc (S dm) j c (VL NMsg (pre_x ++ cur :: post_x)) b (VL NMsg (pre_x ++ cur' :: post_x)).
  Proof.
    intros Hn Hl Hd H. induction H as [cur|cur tag wt payload cur1 b cur2 Hin Ht Hwt Hm Hs IH]; [constructor|].
    econstructor; [exact Ht|exact Hwt| |exact IH].
    intros rest a. destruct (Hm rest a) as [a' E]. exists a'. eapply field_at; eauto.
  Qed.
End FSteps.

(* ------------------------------------------------------------------ what the encoder does not lose *)
(* Without pb-encode-default-value a map entry's value is left off the wire when `val == V::default()`; PartialEq on
   floats (and on messages containing floats) calls -0.0 a default (finding F-05a), and the decoder then materialises
   +0.0.  [lossless] says that wherever the encoder skips a map value, the value IS the default. *)
Fixpoint allP {A} (P : A -> Prop) (l : list A) : Prop := match l with [] => True | a :: l' => P a /\ allP P l' end.

Section LossStep.
  Variable edv : bool.
  Variable sc : schema.
  Variable ll_rec : nat -> val -> Prop.
  Variable isd : ty -> val -> bool.
  Variable dv : nat.

  Definition ll_ty (t : ty) (v : val) : Prop := match t with TScalar _ => True | TMsg j => ll_rec j v end.
  Definition ll_entry (vt : ty) (e : val) : Prop :=
    match e with
    | VL NPair [kv; vv] => ll_ty vt vv /\ (edv = false -> isd vt vv = true -> forall D, (dv <= D)%nat -> vv = default_ty D sc vt)
    | _ => True
    end.
  Definition ll_field (f : field) (x : val) : Prop :=
    match f, x with
    | FSingular _ t, _ => ll_ty t x
    | FOptional _ t, VL NSome [e] => ll_ty t e
    | FRepeated _ t, VL NRep es => allP (ll_ty t) es
    | FMap _ _ vt, VL NMap es => allP (ll_entry vt) es
    | FOneof ms, VL (NOne idx) [e] => match nth_error ms idx with Some (_, t) => ll_ty t e | None => True end
    | _, _ => True
    end.
  Fixpoint ll_fields (fs : list field) (xs : list val) : Prop :=
    match fs, xs with
    | f :: fs', x :: xs' => ll_field f x /\ ll_fields fs' xs'
    | _, _ => True
    end.
End LossStep.

Fixpoint lossless (edv : bool) (d : nat) (sc : schema) (i : nat) (v : val) : Prop :=
  match d with
  | O => True
  | S d' =>
      match nth_error sc i, v with
      | Some fs, VL NMsg xs => ll_fields edv sc (lossless edv d' sc) (ty_is_default d' sc) d' fs xs
      | _, _ => True
      end
  end.

(* ------------------------------------------------------------------ small facts *)
Lemma find_member_nth : forall ms idx tag t k, nodupZ (map fst ms) = true -> nth_error ms idx = Some (tag, t) ->
  find_member ms tag k = Some ((k + idx)%nat, t).
Proof.
  induction ms as [|[t0 ty0] ms IH]; intros idx tag t k Hn He; [destruct idx; discriminate He|].
  cbn [map fst nodupZ] in Hn. apply andb_prop in Hn. destruct Hn as [Hn1 Hn2]. cbn [find_member].
  destruct idx as [|idx]; cbn [nth_error] in He.
  - inversion He; subst. rewrite Z.eqb_refl. f_equal. f_equal. lia.
  - destruct (Z.eqb_spec t0 tag) as [->|Hne].
    + exfalso. apply nth_error_In in He. apply (in_map fst) in He. cbn [fst] in He.
      apply negb_true_iff in Hn1. assert (existsb (Z.eqb tag) (map fst ms) = true); [|congruence].
      apply existsb_exists. exists tag. split; [exact He|apply Z.eqb_refl].
    + rewrite (IH idx tag t (S k) Hn2 He). f_equal. f_equal. lia.
Qed.

(* key types have no second representation of their default *)
Lemma key_default_exact k m v : key_type_ok k = true -> scalar_module k = Some m -> mod_value_okb m v = true ->
  scalar_is_default k v = true -> v = default_scalar k.
Proof.
  intros Hk Hm Hv Hd. unfold scalar_is_default, default_scalar in *. rewrite Hm in *.
  destruct k; try discriminate Hk; vm_compute in Hm; inversion Hm; subst m; cbn [is_len_mod] in *;
    destruct v as [z|l|kd l]; try discriminate Hv; cbn [negb andb] in Hd; try discriminate Hd.
  all: try (apply Z.eqb_eq in Hd; subst; reflexivity).
  destruct l; [reflexivity|discriminate Hd].
Qed.

Fixpoint keys_fresh (k : val) (acc : list val) : bool :=
  match acc with
  | [] => true
  | VL NPair [k'; _] :: more => negb (key_eqb k' k) && keys_fresh k more
  | _ :: more => keys_fresh k more
  end.

Lemma map_insert_fresh k v : forall acc, keys_fresh k acc = true -> map_insert k v acc = acc ++ [VL NPair [k; v]].
Proof.
  induction acc as [|e acc IH]; intros H; [reflexivity|]. cbn [keys_fresh map_insert app] in *.
  destruct e as [z|l|kd l]; try (f_equal; apply IH; exact H).
  destruct kd; try (f_equal; apply IH; exact H).
  destruct l as [|k' [|v' [|x l]]]; try (f_equal; apply IH; exact H).
  apply andb_prop in H. destruct H as [H1 H2]. apply negb_true_iff in H1. rewrite H1. f_equal. apply IH; exact H2.
Qed.

(* ------------------------------------------------------------------ one level: fields of a message of depth S dv *)
Section FieldRt.
  Variable edv : bool.
  Variable sc : schema.
  Hypothesis Hs : schema_ok sc = true.
  Variables (dv dm : nat) (c : Z).
  Hypothesis Hdm : (dv <= dm)%nat.
  (* budget: a message needs one unit per level of embedded messages and two per level of map entries with message
     values, plus one for a map in the innermost message *)
  Hypothesis Hc : 2 * Z.of_nat dv + 1 <= c.
  Hypothesis IHmsg : forall j e Dd c', wt_msg dv sc j e = true -> lossless edv dv sc j e ->
    zlen (enc_msg edv dv sc j e) < two64 -> (dv <= Dd)%nat -> 2 * Z.of_nat dv - 1 <= c' ->
    steps sc dm j c' (default_msg Dd sc j) (enc_msg edv dv sc j e) e.

  Local Notation enc_rec := (enc_msg edv dv sc).
  Local Notation len_rec := (len_msg edv dv sc).
  Local Notation isd := (ty_is_default dv sc).
  Local Notation wt_rec := (wt_msg dv sc).
  Local Notation ll_rec := (lossless edv dv sc).
  Local Notation rec := (merge_field dm sc).
  Local Notation dflt := (default_ty dm sc).

  Definition start_ok (t : ty) (cur : val) : Prop :=
    match t with TScalar _ => True | TMsg j => exists Dd, (dv <= Dd)%nat /\ cur = default_msg Dd sc j end.

  Lemma dflt_start_ok t : start_ok t (dflt t).
  Proof. destruct t as [p|j]; cbn [start_ok default_ty]; [exact I|]. exists dm. auto. Qed.

  Lemma wt_msg_pos j e : wt_msg dv sc j e = true -> (1 <= dv)%nat.
  Proof. destruct dv; [discriminate|lia]. Qed.

  Definition ty_wire (t : ty) : wire_type :=
    match t with
    | TScalar p => match scalar_module p with Some m => mod_wire_type m | None => Varint end
    | TMsg _ => LengthDelimited
    end.
  Definition ty_payload (t : ty) (e : val) : list byte :=
    match t with
    | TScalar p => match scalar_module p with Some m => payload m e | None => [] end
    | TMsg j => encode_varint (len_rec j e) ++ enc_rec j e
    end.

  Lemma enc_ty_split tag t e : wt_ty wt_rec t e = true ->
    enc_ty enc_rec len_rec tag t e = encode_key tag (ty_wire t) ++ ty_payload t e.
  Proof.
    intros Hw. destruct t as [p|j]; cbn [wt_ty enc_ty ty_wire ty_payload] in *; [|reflexivity].
    destruct (scalar_module p); [reflexivity|discriminate].
  Qed.

  (* one value of type t, merged at budget cc (c for a field of the message, c - 1 for the value of a map entry) *)
  Lemma ty_rt t e cur cc rest a : wt_ty wt_rec t e = true -> ll_ty ll_rec t e -> zlen (ty_payload t e) < two64 ->
    start_ok t cur -> c - 1 <= cc ->
    exists a', merge_ty rec t (ty_wire t) cur cc (mkR (ty_payload t e ++ rest) a) = OOk e (mkR rest a').
  Proof.
    intros Hw Hl Hz Hst Hcc. destruct t as [p|j]; cbn [wt_ty ll_ty merge_ty start_ok ty_wire ty_payload] in *.
    - destruct (scalar_module p) as [m|] eqn:E; [|discriminate].
      eexists. apply payload_rt; [eapply scalar_module_scalar; eauto|exact Hw].
    - destruct Hst as (Dd & HDd & ->). pose proof (wt_msg_pos j e Hw) as Hpos.
      rewrite zlen_app in Hz. pose proof (zlen_nonneg (encode_varint (len_rec j e))). pose proof (zlen_nonneg (enc_rec j e)).
      rewrite (msg_len_correct edv sc Hs dv j e Hw ltac:(lia)) in *.
      rewrite <- app_assoc. apply message_merge_exact; [|lia|lia].
      apply IHmsg; auto; lia.
  Qed.

  Lemma ty_wire_not_end t : ty_wire t <> EndGroup.
  Proof.
    destruct t as [p|j0]; cbn [ty_wire]; [|discriminate].
    destruct (scalar_module p) as [m|]; [|discriminate]. destruct m; vm_compute; discriminate.
  Qed.

  Lemma ty_payload_bound tag t e : wt_ty wt_rec t e = true -> zlen (enc_ty enc_rec len_rec tag t e) < two64 -> zlen (ty_payload t e) < two64.
  Proof.
    intros Hw Hz. rewrite (enc_ty_split tag t e Hw), zlen_app in Hz. pose proof (zlen_nonneg (encode_key tag (ty_wire t))). lia.
  Qed.

  Lemma self_tag tag : existsb (Z.eqb tag) [tag] = true.
  Proof. cbn. rewrite Z.eqb_refl. reflexivity. Qed.

  (* ---------------------------------------------------------------- singular, optional, oneof: one record *)
  Lemma singular_rt tag t x cur : tag_ok tag -> wt_ty wt_rec t x = true -> ll_ty ll_rec t x ->
    zlen (enc_ty enc_rec len_rec tag t x) < two64 -> start_ok t cur ->
    fsteps sc dm c (FSingular tag t) cur (enc_ty enc_rec len_rec tag t x) x.
  Proof.
    intros Ht Hw Hl Hz Hst. rewrite (enc_ty_split tag t x Hw). apply fsteps_one; [apply self_tag|exact Ht|apply ty_wire_not_end|].
    intros rest a. cbn [merge_fieldval]. apply ty_rt; auto; [eapply ty_payload_bound; eauto|lia].
  Qed.

  Lemma optional_rt tag t e : tag_ok tag -> wt_ty wt_rec t e = true -> ll_ty ll_rec t e ->
    zlen (enc_ty enc_rec len_rec tag t e) < two64 ->
    fsteps sc dm c (FOptional tag t) (VL NNone []) (enc_ty enc_rec len_rec tag t e) (VL NSome [e]).
  Proof.
    intros Ht Hw Hl Hz. rewrite (enc_ty_split tag t e Hw). apply fsteps_one; [apply self_tag|exact Ht|apply ty_wire_not_end|].
    intros rest a. cbn [merge_fieldval].
    destruct (ty_rt t e (dflt t) c rest a Hw Hl (ty_payload_bound tag t e Hw Hz) (dflt_start_ok t) ltac:(lia)) as [a' E].
    exists a'. rewrite (bind_ok _ _ _ _ _ E). reflexivity.
  Qed.

  Lemma oneof_rt ms idx tag t e : nodupZ (map fst ms) = true -> nth_error ms idx = Some (tag, t) -> tag_ok tag ->
    wt_ty wt_rec t e = true -> ll_ty ll_rec t e -> zlen (enc_ty enc_rec len_rec tag t e) < two64 ->
    fsteps sc dm c (FOneof ms) (VL NNone []) (enc_ty enc_rec len_rec tag t e) (VL (NOne idx) [e]).
  Proof.
    intros Hnd Hn Ht Hw Hl Hz. rewrite (enc_ty_split tag t e Hw). apply fsteps_one; [|exact Ht|apply ty_wire_not_end|].
    - cbn [field_tags]. apply existsb_exists. exists tag. split; [|apply Z.eqb_refl].
      apply nth_error_In in Hn. apply (in_map fst) in Hn. exact Hn.
    - intros rest a. cbn [merge_fieldval]. unfold merge_oneof. rewrite (find_member_nth ms idx tag t 0 Hnd Hn). cbn [Nat.add].
      destruct (ty_rt t e (dflt t) c rest a Hw Hl (ty_payload_bound tag t e Hw Hz) (dflt_start_ok t) ltac:(lia)) as [a' E].
      exists a'. rewrite (bind_ok _ _ _ _ _ E). reflexivity.
  Qed.

  (* ---------------------------------------------------------------- repeated: one record per element, in order *)
  Lemma rep_field_rt tag t : tag_ok tag -> forall es acc, forallb (wt_ty wt_rec t) es = true -> allP (ll_ty ll_rec t) es ->
    zlen (flat_map (enc_ty enc_rec len_rec tag t) es) < two64 ->
    fsteps sc dm c (FRepeated tag t) (VL NRep acc) (flat_map (enc_ty enc_rec len_rec tag t) es) (VL NRep (acc ++ es)).
  Proof.
    intros Ht. induction es as [|e es IH]; intros acc Hw Hl Hz.
    - cbn [flat_map]. rewrite app_nil_r. constructor.
    - cbn [forallb] in Hw. apply andb_prop in Hw. destruct Hw as [He Hes]. destruct Hl as [Hle Hles].
      rewrite zlen_flat_map_cons in Hz. cbn [flat_map].
      pose proof (zlen_nonneg (enc_ty enc_rec len_rec tag t e)). pose proof (zlen_nonneg (flat_map (enc_ty enc_rec len_rec tag t) es)).
      rewrite (enc_ty_split tag t e He).
      replace (acc ++ e :: es) with ((acc ++ [e]) ++ es) by (rewrite <- app_assoc; reflexivity).
      econstructor; [apply self_tag|exact Ht|apply ty_wire_not_end| |apply IH; auto; lia].
      intros rest a. cbn [merge_fieldval].
      destruct t as [p|j]; cbn [merge_rep ty_wire ty_payload wt_ty] in *.
      + destruct (scalar_module p) as [m|] eqn:E; [|discriminate He].
        eexists. rewrite (bind_ok _ _ _ _ _ (merge_repeated_one m _ e acc rest a _ (scalar_module_scalar p m E) He eq_refl eq_refl)). reflexivity.
      + destruct (ty_rt (TMsg j) e (dflt (TMsg j)) c rest a He Hle (ty_payload_bound tag (TMsg j) e He ltac:(lia)) (dflt_start_ok (TMsg j)) ltac:(lia)) as [a' E].
        cbn [merge_ty ty_wire ty_payload] in E. eexists.
        rewrite (bind_bind_ok _ _ _ _ _ _ (check_wire_type_same _ _)). cbv beta.
        rewrite (bind_bind_ok _ _ _ _ _ _ E). reflexivity.
  Qed.

  (* ---------------------------------------------------------------- maps: one record per entry *)
  Definition entry_body (k : proto_type) (vt : ty) : val * val -> M (val * val) :=
    fun kv0 =>
      let+ (tag, wt) := decode_key in
      if tag =? 1 then let+ k' := merge_ty rec (TScalar k) wt (fst kv0) (c - 1) in ret (k', snd kv0)
      else if tag =? 2 then let+ v' := merge_ty rec vt wt (snd kv0) (c - 1) in ret (fst kv0, v')
      else let+ _ := skip_field depth_fuel wt tag (c - 1) in ret kv0.

  Lemma entry_key_step k vt kv v0 k0 : wt_ty wt_rec (TScalar k) kv = true -> zlen (enc_ty enc_rec len_rec 1 (TScalar k) kv) < two64 ->
    gsteps (entry_body k vt) (k0, v0) (enc_ty enc_rec len_rec 1 (TScalar k) kv) (kv, v0).
  Proof.
    intros Hw Hz. rewrite (enc_ty_split 1 (TScalar k) kv Hw). apply gsteps_one.
    - intros E. apply app_eq_nil in E. destruct E as [E _]. exact (encode_key_nonempty _ _ E).
    - intros rest a. unfold entry_body. rewrite <- app_assoc.
      rewrite (bind_ok _ _ _ _ _ (decode_key_rt 1 _ _ a tag_ok_1)). change (1 =? 1) with true. cbv iota. cbn [fst snd].
      destruct (ty_rt (TScalar k) kv k0 (c - 1) rest a Hw I (ty_payload_bound 1 (TScalar k) kv Hw Hz) I ltac:(lia)) as [a' E].
      exists a'. rewrite (bind_ok _ _ _ _ _ E). reflexivity.
  Qed.

  Lemma entry_val_step k vt vv k0 : wt_ty wt_rec vt vv = true -> ll_ty ll_rec vt vv -> zlen (enc_ty enc_rec len_rec 2 vt vv) < two64 ->
    gsteps (entry_body k vt) (k0, dflt vt) (enc_ty enc_rec len_rec 2 vt vv) (k0, vv).
  Proof.
    intros Hw Hl Hz. rewrite (enc_ty_split 2 vt vv Hw). apply gsteps_one.
    - intros E. apply app_eq_nil in E. destruct E as [E _]. exact (encode_key_nonempty _ _ E).
    - intros rest a. unfold entry_body. rewrite <- app_assoc.
      rewrite (bind_ok _ _ _ _ _ (decode_key_rt 2 _ _ a tag_ok_2)). change (2 =? 1) with false. change (2 =? 2) with true. cbv iota. cbn [fst snd].
      destruct (ty_rt vt vv (dflt vt) (c - 1) rest a Hw Hl (ty_payload_bound 2 vt vv Hw Hz) (dflt_start_ok vt) ltac:(lia)) as [a' E].
      exists a'. rewrite (bind_ok _ _ _ _ _ E). reflexivity.
  Qed.

  Definition entry_bytes (k : proto_type) (vt : ty) (kv vv : val) : list byte :=
    (if isd (TScalar k) kv && negb edv then [] else enc_ty enc_rec len_rec 1 (TScalar k) kv) ++
    (if isd vt vv && negb edv then [] else enc_ty enc_rec len_rec 2 vt vv).

  Lemma rec_len_ok : forall j e, wt_rec j e = true -> zlen (enc_rec j e) < two64 -> len_rec j e = zlen (enc_rec j e).
  Proof. intros. apply msg_len_correct; assumption. Qed.

  Lemma entry_split tag k vt kv vv : wt_ty wt_rec (TScalar k) kv = true -> wt_ty wt_rec vt vv = true ->
    zlen (enc_entry edv enc_rec len_rec isd tag k vt (VL NPair [kv; vv])) < two64 ->
    enc_entry edv enc_rec len_rec isd tag k vt (VL NPair [kv; vv])
    = encode_key tag LengthDelimited ++ encode_varint (zlen (entry_bytes k vt kv vv)) ++ entry_bytes k vt kv vv.
  Proof.
    intros Hk Hv Hz. cbn [enc_entry] in *. unfold map_entry_encode, map_entry_len, entry_bytes in *.
    set (kd := isd (TScalar k) kv && negb edv) in *. set (vd := isd vt vv && negb edv) in *.
    rewrite !zlen_app in Hz.
    pose proof (zlen_nonneg (encode_key tag LengthDelimited)).
    match type of Hz with context [encode_varint ?n] => pose proof (zlen_nonneg (encode_varint n)) end.
    pose proof (zlen_nonneg (if kd then [] else enc_ty enc_rec len_rec 1 (TScalar k) kv)) as Nk.
    pose proof (zlen_nonneg (if vd then [] else enc_ty enc_rec len_rec 2 vt vv)) as Nv.
    assert (Hkl : kd = false -> len_ty len_rec 1 (TScalar k) kv = zlen (enc_ty enc_rec len_rec 1 (TScalar k) kv)).
    { intros E. rewrite E in Hz, Nk. cbv iota in Hz, Nk. apply (len_ty_ok enc_rec len_rec isd wt_rec rec_len_ok); [apply tag_ok_1|exact Hk|lia]. }
    assert (Hvl : vd = false -> len_ty len_rec 2 vt vv = zlen (enc_ty enc_rec len_rec 2 vt vv)).
    { intros E. rewrite E in Hz, Nv. cbv iota in Hz, Nv. apply (len_ty_ok enc_rec len_rec isd wt_rec rec_len_ok); [apply tag_ok_2|exact Hv|lia]. }
    assert (Hlen : (if kd then 0 else len_ty len_rec 1 (TScalar k) kv) + (if vd then 0 else len_ty len_rec 2 vt vv)
                   = zlen ((if kd then [] else enc_ty enc_rec len_rec 1 (TScalar k) kv) ++ (if vd then [] else enc_ty enc_rec len_rec 2 vt vv))).
    { rewrite zlen_app. destruct kd, vd; cbv iota; try rewrite (Hkl eq_refl); try rewrite (Hvl eq_refl); change (zlen []) with 0; lia. }
    rewrite Hlen. reflexivity.
  Qed.

  Lemma entry_rt k vt kv vv rest a : key_type_ok k = true -> wt_ty wt_rec (TScalar k) kv = true -> wt_ty wt_rec vt vv = true ->
    ll_entry edv sc ll_rec isd dv vt (VL NPair [kv; vv]) -> zlen (entry_bytes k vt kv vv) < two64 ->
    exists a', map_entry_merge (fun wt x c0 => merge_ty rec (TScalar k) wt x c0) (fun wt x c0 => merge_ty rec vt wt x c0)
                 (dflt (TScalar k)) (dflt vt) c
                 (mkR (encode_varint (zlen (entry_bytes k vt kv vv)) ++ entry_bytes k vt kv vv ++ rest) a) = OOk (kv, vv) (mkR rest a').
  Proof.
    intros Hkt Hk Hv [Hlv Hdef] Hz. unfold map_entry_merge.
    rewrite (bind_ok _ _ _ _ _ (limit_ok c _ ltac:(lia))). rewrite (bind_ok _ _ _ _ _ (enter_ok c _ ltac:(lia))).
    change (merge_loop _ (dflt (TScalar k), dflt vt)) with (merge_loop (entry_body k vt) (dflt (TScalar k), dflt vt)).
    apply merge_loop_gsteps; [|exact Hz]. unfold entry_bytes in *. rewrite zlen_app in Hz.
    pose proof (zlen_nonneg (if isd (TScalar k) kv && negb edv then [] else enc_ty enc_rec len_rec 1 (TScalar k) kv)).
    pose proof (zlen_nonneg (if isd vt vv && negb edv then [] else enc_ty enc_rec len_rec 2 vt vv)).
    apply gsteps_app with (x1 := (kv, dflt vt)).
    - destruct (isd (TScalar k) kv && negb edv) eqn:Ek.
      + apply andb_prop in Ek. destruct Ek as [Ek _]. cbn [ty_is_default wt_ty] in Ek, Hk.
        destruct (scalar_module k) as [m|] eqn:Em; [|discriminate Hk].
        rewrite (key_default_exact k m kv Hkt Em Hk Ek). cbn [default_ty]. constructor.
      + apply entry_key_step; [exact Hk|lia].
    - destruct (isd vt vv && negb edv) eqn:Ev.
      + apply andb_prop in Ev. destruct Ev as [Ev1 Ev2]. apply negb_true_iff in Ev2.
        rewrite (Hdef Ev2 Ev1 dm Hdm). constructor.
      + apply entry_val_step; [exact Hv|exact Hlv|lia].
  Qed.

  Lemma keys_fresh_snoc k0 kv vv : forall acc,
    keys_fresh k0 (acc ++ [VL NPair [kv; vv]]) = keys_fresh k0 acc && negb (key_eqb kv k0).
  Proof.
    induction acc as [|e acc IH]; cbn [app keys_fresh]; [rewrite andb_true_r; reflexivity|].
    destruct e as [z|l|kd l]; try exact IH. destruct kd; try exact IH.
    destruct l as [|k' [|v' [|x l]]]; try exact IH. rewrite IH. rewrite andb_assoc. reflexivity.
  Qed.

  Lemma map_rt tag k vt : tag_ok tag -> key_type_ok k = true -> forall es acc,
    forallb (fun e => match e with VL NPair [kv; vv] => wt_ty wt_rec (TScalar k) kv && wt_ty wt_rec vt vv | _ => false end) es = true ->
    nodup_keys (keys_of es) = true -> forallb (fun k0 => keys_fresh k0 acc) (keys_of es) = true ->
    allP (ll_entry edv sc ll_rec isd dv vt) es ->
    zlen (flat_map (enc_entry edv enc_rec len_rec isd tag k vt) es) < two64 ->
    fsteps sc dm c (FMap tag k vt) (VL NMap acc) (flat_map (enc_entry edv enc_rec len_rec isd tag k vt) es) (VL NMap (acc ++ es)).
  Proof.
    intros Ht Hkt. induction es as [|e es IH]; intros acc Hw Hnd Hfr Hl Hz.
    - cbn [flat_map]. rewrite app_nil_r. constructor.
    - cbn [forallb] in Hw. apply andb_prop in Hw. destruct Hw as [He Hes]. destruct Hl as [Hle Hles].
      destruct e as [z|l|kd l]; try discriminate He. destruct kd; try discriminate He.
      destruct l as [|kv [|vv [|w l]]]; try discriminate He. apply andb_prop in He. destruct He as [Hk Hv].
      cbn [keys_of nodup_keys forallb] in Hnd, Hfr. apply andb_prop in Hnd. destruct Hnd as [Hnd1 Hnd2].
      apply andb_prop in Hfr. destruct Hfr as [Hfr1 Hfr2]. apply negb_true_iff in Hnd1.
      rewrite zlen_flat_map_cons in Hz. cbn [flat_map].
      pose proof (zlen_nonneg (enc_entry edv enc_rec len_rec isd tag k vt (VL NPair [kv; vv]))).
      pose proof (zlen_nonneg (flat_map (enc_entry edv enc_rec len_rec isd tag k vt) es)).
      assert (Hze : zlen (enc_entry edv enc_rec len_rec isd tag k vt (VL NPair [kv; vv])) < two64) by lia.
      pose proof (entry_split tag k vt kv vv Hk Hv Hze) as Hsp. rewrite Hsp in Hze |- *. rewrite !zlen_app in Hze.
      pose proof (zlen_nonneg (encode_key tag LengthDelimited)). pose proof (zlen_nonneg (encode_varint (zlen (entry_bytes k vt kv vv)))).
      replace (acc ++ VL NPair [kv; vv] :: es) with ((acc ++ [VL NPair [kv; vv]]) ++ es) by (rewrite <- app_assoc; reflexivity).
      econstructor; [apply self_tag|exact Ht|discriminate| |apply IH; auto].
      + intros rest a. cbn [merge_fieldval]. unfold merge_map. rewrite <- app_assoc.
        destruct (entry_rt k vt kv vv rest a Hkt Hk Hv Hle ltac:(lia)) as [a' E].
        eexists. rewrite (bind_bind_ok _ _ _ _ _ _ E). cbn [fst snd].
        rewrite (map_insert_fresh kv vv acc Hfr1). reflexivity.
      + (* the keys still to come are fresh for the extended map *)
        clear -Hfr2 Hnd1. induction (keys_of es) as [|k0 ks IHk]; [reflexivity|].
        cbn [forallb existsb] in *. apply andb_prop in Hfr2. destruct Hfr2 as [F1 F2]. apply orb_false_iff in Hnd1. destruct Hnd1 as [N1 N2].
        rewrite keys_fresh_snoc, F1, N1. cbn [negb andb]. apply IHk; assumption.
      + lia.
  Qed.

  (* ---------------------------------------------------------------- any field *)
  Variable dt : ty -> val.                  (* the defaults of the value the decoder starts from *)
  Hypothesis dt_ok : forall t, start_ok t (dt t).

  Lemma field_rt f x : field_ok sc f = true -> Forall tag_ok (field_tags f) -> nodupZ (field_tags f) = true ->
    wt_field wt_rec f x = true -> ll_field edv sc ll_rec isd dv f x -> zlen (enc_field edv enc_rec len_rec isd f x) < two64 ->
    fsteps sc dm c f (default_field dt f) (enc_field edv enc_rec len_rec isd f x) x.
  Proof.
    intros Hok Ht Hnd Hw Hl Hz. destruct f as [tag t|tag t|tag t|tag k vt|ms]; cbn [field_tags default_field] in *.
    - inversion Ht; subst. cbn [wt_field ll_field enc_field] in *. apply singular_rt; auto.
    - inversion Ht; subst. cbn [wt_field] in Hw.
      destruct x as [z|l|kd l]; try discriminate Hw. destruct kd; try discriminate Hw.
      + destruct l; [|discriminate Hw]. cbn [enc_field]. constructor.
      + destruct l as [|e [|w l]]; try discriminate Hw. cbn [enc_field ll_field] in *. apply optional_rt; auto.
    - inversion Ht; subst. cbn [wt_field] in Hw.
      destruct x as [z|l|kd es]; try discriminate Hw. destruct kd; try discriminate Hw. cbn [enc_field ll_field] in *.
      apply (rep_field_rt tag t ltac:(assumption) es []); auto.
    - inversion Ht; subst. cbn [wt_field] in Hw.
      destruct x as [z|l|kd es]; try discriminate Hw. destruct kd; try discriminate Hw. cbn [enc_field ll_field field_ok] in *.
      apply andb_prop in Hw. destruct Hw as [Hw Hndk]. apply andb_prop in Hok. destruct Hok as [Hok _]. apply andb_prop in Hok. destruct Hok as [Hkt _].
      apply (map_rt tag k vt ltac:(assumption) Hkt es []); auto.
      clear. induction (keys_of es); [reflexivity|]. cbn [forallb keys_fresh]. assumption.
    - cbn [wt_field] in Hw. destruct x as [z|l|kd l]; try discriminate Hw. destruct kd; try discriminate Hw.
      + destruct l; [|discriminate Hw]. cbn [enc_field]. constructor.
      + destruct l as [|e [|w l]]; try discriminate Hw. cbn [enc_field ll_field] in *.
        destruct (nth_error ms idx) as [[tag t]|] eqn:E; [|discriminate Hw].
        apply oneof_rt; auto. rewrite Forall_forall in Ht. apply Ht. apply nth_error_In in E. apply (in_map fst) in E. exact E.
  Qed.
End FieldRt.

(* ------------------------------------------------------------------ all fields of a message, in struct order *)
Lemma nodupZ_app_l l1 l2 : nodupZ (l1 ++ l2) = true -> nodupZ l1 = true.
Proof.
  induction l1 as [|a l1 IH]; [reflexivity|]. cbn [app nodupZ]. intros H. apply andb_prop in H. destruct H as [H1 H2].
  rewrite existsb_app in H1. apply negb_true_iff in H1. apply orb_false_iff in H1. destruct H1 as [H1 _].
  rewrite H1. cbn. apply IH. exact H2.
Qed.

Lemma nodupZ_app_r l1 l2 : nodupZ (l1 ++ l2) = true -> nodupZ l2 = true.
Proof. induction l1 as [|a l1 IH]; [auto|]. cbn [app nodupZ]. intros H. apply andb_prop in H. destruct H. auto. Qed.

Lemma nodupZ_disjoint l1 l2 t : nodupZ (l1 ++ l2) = true -> existsb (Z.eqb t) l2 = true -> existsb (Z.eqb t) l1 = false.
Proof.
  induction l1 as [|a l1 IH]; [reflexivity|]. cbn [app nodupZ existsb]. intros H Ht. apply andb_prop in H. destruct H as [H1 H2].
  rewrite (IH H2 Ht), orb_false_r. apply negb_true_iff in H1. rewrite existsb_app in H1. apply orb_false_iff in H1. destruct H1 as [_ H1].
  destruct (Z.eqb_spec t a) as [->|]; [congruence|reflexivity].
Qed.

Section FieldsRt.
  Variable edv : bool.
  Variable sc : schema.
  Hypothesis Hs : schema_ok sc = true.
  Variables (dv dm : nat) (c : Z).
  Hypothesis Hdm : (dv <= dm)%nat.
  Hypothesis Hc : 2 * Z.of_nat dv + 1 <= c.
  Hypothesis IHmsg : forall j e Dd c', wt_msg dv sc j e = true -> lossless edv dv sc j e ->
    zlen (enc_msg edv dv sc j e) < two64 -> (dv <= Dd)%nat -> 2 * Z.of_nat dv - 1 <= c' ->
    steps sc dm j c' (default_msg Dd sc j) (enc_msg edv dv sc j e) e.
  Variable dt : ty -> val.
  Hypothesis dt_ok : forall t, start_ok sc dv t (dt t).
  Variable j : nat.

  Lemma fields_rt : forall rest_f pre_f pre_x rest_x,
    nth_error sc j = Some (pre_f ++ rest_f) -> length pre_f = length pre_x ->
    nodupZ (flat_map field_tags (pre_f ++ rest_f)) = true -> forallb (field_ok sc) rest_f = true ->
    Forall tag_ok (flat_map field_tags rest_f) -> forallb2 (wt_field (wt_msg dv sc)) rest_f rest_x = true ->
    ll_fields edv sc (lossless edv dv sc) (ty_is_default dv sc) dv rest_f rest_x ->
    zlen (enc_fields edv (enc_msg edv dv sc) (len_msg edv dv sc) (ty_is_default dv sc) rest_f rest_x) < two64 ->
    ksteps sc (S dm) j c (VL NMsg (pre_x ++ map (default_field dt) rest_f))
           (enc_fields edv (enc_msg edv dv sc) (len_msg edv dv sc) (ty_is_default dv sc) rest_f rest_x)
           (VL NMsg (pre_x ++ rest_x)).
  Proof.
    induction rest_f as [|f rest_f IH]; intros pre_f pre_x rest_x Hn Hl Hnd Hok Ht Hw Hll Hz.
    - destruct rest_x; [|discriminate Hw]. cbn [map enc_fields]. constructor.
    - destruct (forallb2_cons_inv _ _ _ _ Hw) as (x & xs' & -> & Hwf & Hws).
      cbn [forallb] in Hok. apply andb_prop in Hok. destruct Hok as [Hokf Hoks].
      cbn [flat_map] in Ht. apply Forall_app in Ht. destruct Ht as [Ht1 Ht2].
      cbn [ll_fields] in Hll. destruct Hll as [Hlf Hls]. cbn [enc_fields map] in *. rewrite zlen_app in Hz.
      pose proof (zlen_nonneg (enc_field edv (enc_msg edv dv sc) (len_msg edv dv sc) (ty_is_default dv sc) f x)).
      pose proof (zlen_nonneg (enc_fields edv (enc_msg edv dv sc) (len_msg edv dv sc) (ty_is_default dv sc) rest_f xs')).
      rewrite flat_map_app in Hnd. cbn [flat_map] in Hnd.
      assert (Hndf : nodupZ (field_tags f) = true).
      { apply nodupZ_app_r in Hnd. apply nodupZ_app_l in Hnd. exact Hnd. }
      apply ksteps_app with (x1 := VL NMsg (pre_x ++ x :: map (default_field dt) rest_f)).
      + apply (fsteps_ksteps sc dm c f j pre_f rest_f pre_x); auto.
        * intros tag Hin. eapply nodupZ_disjoint; [exact Hnd|]. rewrite existsb_app, Hin. reflexivity.
        * apply (field_rt edv sc Hs dv dm c Hdm Hc IHmsg dt dt_ok); auto; lia.
      + replace (pre_x ++ x :: map (default_field dt) rest_f) with ((pre_x ++ [x]) ++ map (default_field dt) rest_f)
          by (rewrite <- app_assoc; reflexivity).
        replace (pre_x ++ x :: xs') with ((pre_x ++ [x]) ++ xs') by (rewrite <- app_assoc; reflexivity).
        apply (IH (pre_f ++ [f])); auto.
        * rewrite <- app_assoc. exact Hn.
        * rewrite !app_length. cbn [length]. lia.
        * rewrite <- app_assoc. cbn [app]. rewrite flat_map_app. cbn [flat_map]. exact Hnd.
        * lia.
  Qed.
End FieldsRt.

(* ------------------------------------------------------------------ messages, by induction on the depth of the value *)
Theorem msg_rt_ksteps edv sc : schema_ok sc = true -> forall d j v dm c Dd,
  wt_msg d sc j v = true -> lossless edv d sc j v -> zlen (enc_msg edv d sc j v) < two64 ->
  (d <= dm)%nat -> (d <= Dd)%nat -> 2 * Z.of_nat d - 1 <= c ->
  ksteps sc dm j c (default_msg Dd sc j) (enc_msg edv d sc j v) v.
Proof.
  intros Hs. induction d as [|dv IH]; intros j v dm c Dd Hw Hl Hz Hdm HDd Hc; [discriminate Hw|].
  destruct dm as [|dm]; [lia|]. destruct Dd as [|Dd]; [lia|].
  cbn [wt_msg lossless enc_msg] in *. destruct (nth_error sc j) as [fs|] eqn:En; [|discriminate Hw].
  destruct v as [z|l|k xs]; try discriminate Hw. destruct k; try discriminate Hw.
  rewrite (default_msg_unfold Dd sc j fs En).
  set (dt := fun t => match t with TScalar p => default_scalar p | TMsg j0 => default_msg Dd sc j0 end).
  pose proof (schema_ok_fields sc j fs Hs En) as Hok. pose proof (schema_ok_tags sc j fs Hs En) as Htags.
  assert (Hnd : nodupZ (flat_map field_tags fs) = true).
  { unfold schema_ok in Hs. apply andb_prop in Hs. apply proj1 in Hs. rewrite forallb_forall in Hs. pose proof (nth_error_In _ _ En) as Hin. specialize (Hs fs Hin).
    unfold msgdesc_ok in Hs. apply andb_prop in Hs. tauto. }
  apply (fields_rt edv sc Hs dv dm c ltac:(lia) ltac:(lia)
           (fun j0 e Dd0 c' H1 H2 H3 H4 H5 => ksteps_steps _ _ _ _ _ _ _ (IH j0 e dm c' Dd0 H1 H2 H3 ltac:(lia) H4 H5)) dt) with (pre_f := []) (pre_x := []); auto.
  intros [p|j0]; cbn [start_ok]; [exact I|]. exists Dd. split; [lia|reflexivity].
Qed.

Theorem msg_rt_steps edv sc : schema_ok sc = true -> forall d j v dm c Dd,
  wt_msg d sc j v = true -> lossless edv d sc j v -> zlen (enc_msg edv d sc j v) < two64 ->
  (d <= dm)%nat -> (d <= Dd)%nat -> 2 * Z.of_nat d - 1 <= c ->
  steps sc dm j c (default_msg Dd sc j) (enc_msg edv d sc j v) v.
Proof. intros. apply ksteps_steps. apply msg_rt_ksteps; assumption. Qed.

(* with the feature on nothing is skipped, so nothing can be lost *)
Lemma lossless_edv sc : forall d i v, lossless true d sc i v.
Proof.
  induction d as [|d IH]; intros i v; cbn [lossless]; [exact I|].
  destruct (nth_error sc i) as [fs|]; [|exact I]. destruct v as [z|l|k xs]; try exact I. destruct k; try exact I.
  assert (Hty : forall t x, ll_ty (lossless true d sc) t x) by (intros [p|j] x; cbn [ll_ty]; [exact I|apply IH]).
  revert xs. induction fs as [|f fs IHf]; intros xs; [exact I|]. destruct xs as [|x xs]; [exact I|]. cbn [ll_fields]. split; [|apply IHf].
  destruct f as [t ty|t ty|t ty|t k vt|ms]; cbn [ll_field].
  - apply Hty.
  - destruct x as [z|l|k l]; try exact I. destruct k; try exact I. destruct l as [|e [|w l]]; try exact I. apply Hty.
  - destruct x as [z|l|k l]; try exact I. destruct k; try exact I. induction l as [|e l IHl]; cbn [allP]; [exact I|]. split; [apply Hty|exact IHl].
  - destruct x as [z|l|k' l]; try exact I. destruct k'; try exact I. induction l as [|e l IHl]; cbn [allP]; [exact I|]. split; [|exact IHl].
    destruct e as [z|l0|k0 l0]; try exact I. destruct k0; try exact I. destruct l0 as [|kv [|vv [|w l0]]]; try exact I.
    cbn [ll_entry]. split; [apply Hty|discriminate].
  - destruct x as [z|l|k l]; try exact I. destruct k; try exact I. destruct l as [|e [|w l]]; try exact I.
    destruct (nth_error ms idx) as [[tag t]|]; [apply Hty|exact I].
Qed.

(* C05_msg_rt *)
Theorem msg_roundtrip edv sc d i v a : schema_ok sc = true -> wt_msg d sc i v = true -> lossless edv d sc i v ->
  zlen (enc_msg edv d sc i v) < two64 -> 2 * Z.of_nat d - 1 <= recursion_limit ->
  exists a', msg_decode sc i (mkR (enc_msg edv d sc i v) a) = OOk v (mkR [] a').
Proof.
  intros Hs Hw Hl Hz Hd.
  assert (Hdf : (d <= depth_fuel)%nat) by (unfold depth_fuel; lia).
  pose proof (msg_rt_steps edv sc Hs d i v depth_fuel ctx_default depth_fuel Hw Hl Hz Hdf Hdf ltac:(unfold ctx_default; lia)) as St.
  destruct (gsteps_loop _ _ _ _ St [] a (S (length (enc_msg edv d sc i v ++ []))) ltac:(lia)) as [a' E].
  exists a'. unfold msg_decode. rewrite msg_merge_unfold. cbn [rb length] in *. rewrite app_nil_r in E. exact E.
Qed.

Corollary msg_roundtrip_edv sc d i v a : schema_ok sc = true -> wt_msg d sc i v = true ->
  zlen (enc_msg true d sc i v) < two64 -> 2 * Z.of_nat d - 1 <= recursion_limit ->
  exists a', msg_decode sc i (mkR (enc_msg true d sc i v) a) = OOk v (mkR [] a').
Proof. intros. apply msg_roundtrip; auto. apply lossless_edv. Qed.

(* ------------------------------------------------------------------ non-vacuity; F-05a as a refutation *)
Definition rt_schema : schema :=
  [[FSingular 1 (TScalar TYPE_SINT32); FRepeated 2 (TScalar TYPE_STRING); FMap 3 TYPE_INT32 (TMsg 0);
    FOneof [(4, TScalar TYPE_DOUBLE); (5, TMsg 0)]; FOptional 6 (TMsg 0); FMap 7 TYPE_STRING (TScalar TYPE_DOUBLE)]].
Definition rt_leaf : val := VL NMsg [VI (-3); VL NRep [VB [x61]]; VL NMap []; VL NNone []; VL NNone []; VL NMap [VL NPair [VB []; VI 4607182418800017408]]].
Definition rt_value : val :=
  VL NMsg [VI 7; VL NRep [VB []; VB [x62; x63]]; VL NMap [VL NPair [VI 0; rt_leaf]; VL NPair [VI 9; rt_leaf]];
           VL (NOne 1) [rt_leaf]; VL NSome [rt_leaf]; VL NMap []].

Example msg_roundtrip_nonvacuous :
  schema_ok rt_schema = true /\ wt_msg 2 rt_schema 0 rt_value = true /\ lossless false 2 rt_schema 0 rt_value /\
  (exists a', msg_decode rt_schema 0 (mkR (enc_msg false 2 rt_schema 0 rt_value) 0) = OOk rt_value (mkR [] a')) /\
  (exists a', msg_decode rt_schema 0 (mkR (enc_msg true 2 rt_schema 0 rt_value) 0) = OOk rt_value (mkR [] a')).
Proof.
  assert (L : lossless false 2 rt_schema 0 rt_value).
  { cbn. repeat split; try discriminate; intros _ H; vm_compute in H; discriminate H. }
  split; [vm_compute; reflexivity|]. split; [vm_compute; reflexivity|]. split; [exact L|]. split.
  - apply msg_roundtrip; [vm_compute; reflexivity|vm_compute; reflexivity|exact L|vm_compute; reflexivity|vm_compute; congruence].
  - apply msg_roundtrip_edv; [vm_compute; reflexivity|vm_compute; reflexivity|vm_compute; reflexivity|vm_compute; congruence].
Qed.

(* without [lossless] the statement is false when pb-encode-default-value is off (finding F-05a): a -0.0 map value is
   left off the wire and comes back as +0.0 *)
Theorem msg_roundtrip_negzero_refuted :
  let sc := [[FMap 1 TYPE_INT32 (TScalar TYPE_DOUBLE)]] in
  let v := VL NMsg [VL NMap [VL NPair [VI 5; VI 9223372036854775808]]] in
  schema_ok sc = true /\ wt_msg 1 sc 0 v = true /\
  msg_decode sc 0 (mkR (enc_msg false 1 sc 0 v) 0) = OOk (VL NMsg [VL NMap [VL NPair [VI 5; VI 0]]]) (mkR [] 1) /\
  msg_decode sc 0 (mkR (enc_msg true 1 sc 0 v) 0) = OOk v (mkR [] 1).
Proof. cbv zeta. vm_compute. repeat split; reflexivity. Qed.

(* the isd premises of the round trip exercised for real: map entries whose key, value or both ARE the default are written
   with those parts omitted (feature off) -- `0a 00` for {0: 0.0} -- and come back; lossless holds because what is skipped is
   the default *)
Example msg_roundtrip_default_entries :
  let sc := [[FMap 1 TYPE_INT32 (TScalar TYPE_DOUBLE); FMap 2 TYPE_STRING (TMsg 0)]] in
  let leaf := VL NMsg [VL NMap []; VL NMap []] in
  let v := VL NMsg [VL NMap [VL NPair [VI 0; VI 0]; VL NPair [VI 7; VI 0]; VL NPair [VI 3; VI 4607182418800017408]];
                    VL NMap [VL NPair [VB []; leaf]; VL NPair [VB [x6b]; leaf]]] in
  schema_ok sc = true /\ wt_msg 2 sc 0 v = true /\ lossless false 2 sc 0 v /\
  firstn 6 (enc_msg false 2 sc 0 v) = [x0a; x00; x0a; x02; x08; x07] /\
  (exists a', msg_decode sc 0 (mkR (enc_msg false 2 sc 0 v) 0) = OOk v (mkR [] a')) /\
  (exists a', msg_decode sc 0 (mkR (enc_msg true 2 sc 0 v) 0) = OOk v (mkR [] a')).
Proof.
  cbv zeta.
  assert (L : lossless false 2 [[FMap 1 TYPE_INT32 (TScalar TYPE_DOUBLE); FMap 2 TYPE_STRING (TMsg 0)]] 0
                (VL NMsg [VL NMap [VL NPair [VI 0; VI 0]; VL NPair [VI 7; VI 0]; VL NPair [VI 3; VI 4607182418800017408]];
                          VL NMap [VL NPair [VB []; VL NMsg [VL NMap []; VL NMap []]]; VL NPair [VB [x6b]; VL NMsg [VL NMap []; VL NMap []]]]])).
  { cbn. repeat split; try discriminate; try (intros _ H; vm_compute in H; discriminate H);
      try (intros _ _ D HD; destruct D as [|D]; [lia|reflexivity]); try (intros; reflexivity). }
  split; [vm_compute; reflexivity|]. split; [vm_compute; reflexivity|]. split; [exact L|]. split; [vm_compute; reflexivity|]. split.
  - apply msg_roundtrip; [vm_compute; reflexivity|vm_compute; reflexivity|exact L|vm_compute; reflexivity|vm_compute; congruence].
  - apply msg_roundtrip_edv; [vm_compute; reflexivity|vm_compute; reflexivity|vm_compute; reflexivity|vm_compute; congruence].
Qed.

(* F-05b / F-06c: the f32 / f64 wrapper impls of types.rs write nothing for -0.0 (`*self != 0.0` is false), the same bytes as
   for +0.0: no decoder can give the value back *)
Theorem wrapper_negzero_refuted :
  wrapper_enc (Some MDouble) (VI 9223372036854775808) = [] /\ wrapper_enc (Some MDouble) (VI 0) = [] /\
  wrapper_decode (Some MDouble) (mkR (wrapper_enc (Some MDouble) (VI 9223372036854775808)) 0) = OOk (VI 0) (mkR [] 0) /\
  wrapper_enc (Some MFloat) (VI 2147483648) = [] /\
  wrapper_decode (Some MFloat) (mkR (wrapper_enc (Some MFloat) (VI 2147483648)) 0) = OOk (VI 0) (mkR [] 0).
Proof. vm_compute. repeat split; reflexivity. Qed.
