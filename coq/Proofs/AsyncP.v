(* C12 (primitive level): whenever the in-memory reader returns a value, the asynchronous reader
   returns the same value from the same byte string and stops at the same position. *)
From PV Require Import Thrift.Async Proofs.VarintP Proofs.TablesP Proofs.PrimP Proofs.HeaderP Proofs.RoundtripP Proofs.TotalP.
From Coq Require Import ZifyN ZifyNat ZifyBool.
Open Scope Z_scope.

(* invariant of a reader that is only driven through read methods: no length-pass bool pending;
   buffers fit in isize (a Rust guarantee) *)
Definition inv (s : rst) : Prop := r_pfield (rc s) = false /\ Z.of_nat (blen s) < 2 ^ 63.

Definition sim {A} (s : rst) (o1 o2 : res (A * rst)) : Prop :=
  match o1 with
  | Ok (x, s') => o2 = Ok (x, s') /\ inv s' /\ (blen s' <= blen s)%nat
  | _ => True
  end.

Lemma sim_bind {A B} s (o1 o2 : res (A * rst)) (f g : A * rst -> res (B * rst)) :
  sim s o1 o2 ->
  (forall x s', inv s' -> (blen s' <= blen s)%nat -> sim s' (f (x, s')) (g (x, s'))) ->
  sim s (bind o1 f) (bind o2 g).
Proof.
  intros H1 H2. destruct o1 as [[x s']| |]; cbn [bind sim] in *; auto.
  destruct H1 as (-> & Hi & Hl). cbn [bind]. specialize (H2 x s' Hi Hl).
  destruct (f (x, s')) as [[y s'']| |]; cbn [sim] in *; auto.
  destruct H2 as (-> & Hi2 & Hl2). repeat split; auto; try apply Hi2. lia.
Qed.

Lemma sim_ret {A} s (x : A) s' : inv s' -> (blen s' <= blen s)%nat -> sim s (Ok (x, s')) (Ok (x, s')).
Proof. cbn. auto. Qed.

Lemma inv_set_buf s r : inv s -> (length r <= blen s)%nat -> inv (set_buf s r).
Proof. intros [H1 H2] Hl. split; [exact H1|]. unfold blen, set_buf in *. cbn [rbuf]. lia. Qed.

Lemma take_sim n s : inv s -> sim s (r_take n s) (a_take n s).
Proof.
  intros Hi. unfold r_take, a_take. destruct (take n (rbuf s)) as [[a r]|] eqn:E; cbn [sim]; auto.
  apply take_some in E as [E1 E2].
  assert (length r <= blen s)%nat by (unfold blen; rewrite E1, app_length; lia).
  repeat split; auto; try apply inv_set_buf; auto.
Qed.

Ltac sim_take :=
  eapply sim_bind; [apply take_sim; assumption|]; intros; apply sim_ret; auto.

Lemma byte_sim s : inv s -> sim s (r_byte s) (a_byte s).
Proof. intros. unfold r_byte, a_byte. sim_take. Qed.
Lemma i8_sim s : inv s -> sim s (r_i8 s) (a_i8 s).
Proof. intros. unfold r_i8, a_i8. sim_take. Qed.
Lemma fixed_sim p n b s : inv s -> sim s (r_fixed p n b s) (a_fixed p n b s).
Proof. intros. unfold r_fixed, a_fixed. sim_take. Qed.

Lemma varint_sim m s : inv s -> sim s (r_varint m s) (a_varint m s).
Proof.
  intros Hi. unfold r_varint, a_varint, read_var_u64.
  pose proof (rd_var_good m 0 0 (rbuf s)) as G.
  destruct (rd_var m 0 0 (rbuf s)) as [[n r]| |]; cbn [bind sim]; auto.
  assert (length r <= blen s)%nat by (unfold blen; lia).
  repeat split; auto; try apply inv_set_buf; auto.
Qed.

Lemma zz_sim m bits s : inv s ->
  sim s (let* (n, s) := r_varint m s in Ok (wrap_s bits (unzigzag n), s))
        (let* (n, s) := a_varint m s in Ok (wrap_s bits (unzigzag n), s)).
Proof. intros. eapply sim_bind; [apply varint_sim; auto|]. intros. apply sim_ret; auto. Qed.

Lemma i16_sim p s : inv s -> sim s (r_i16 p s) (a_i16 p s).
Proof. intros. destruct p; cbn [r_i16 a_i16]; auto using fixed_sim, zz_sim. Qed.
Lemma i32_sim p s : inv s -> sim s (r_i32 p s) (a_i32 p s).
Proof. intros. destruct p; cbn [r_i32 a_i32]; auto using fixed_sim, zz_sim. Qed.
Lemma i64_sim p s : inv s -> sim s (r_i64 p s) (a_i64 p s).
Proof. intros. destruct p; cbn [r_i64 a_i64]; auto using fixed_sim, zz_sim. Qed.
Lemma double_sim p s : inv s -> sim s (r_double p s) (a_double p s).
Proof. intros. unfold r_double, a_double. sim_take. Qed.
Lemma uuid_sim s : inv s -> sim s (r_uuid s) (a_uuid s).
Proof. intros. apply take_sim; auto. Qed.

Lemma i32_range p s n s' : r_i32 p s = Ok (n, s') -> in_s 32 n.
Proof.
  destruct p; cbn [r_i32]; unfold r_fixed.
  1,2: destruct (r_take 4 s) as [[a s1]| |]; cbn [bind]; try discriminate;
       intros H; injection H as <- <-; apply wrap_s_range; lia.
  destruct (r_varint maxsize_32 s) as [[m s1]| |]; cbn [bind]; try discriminate.
  intros H; injection H as <- <-; apply wrap_s_range; lia.
Qed.

Lemma bytes_sim p s : inv s -> sim s (r_bytes p s) (a_bytes p s).
Proof.
  intros Hi. unfold r_bytes. destruct p; cbn [r_len a_bytes].
  1,2: match goal with |- context [r_i32 ?p ?s0] =>
         pose proof (i32_sim p s0 Hi) as S1; pose proof (i32_range p s0) as R1;
         destruct (r_i32 p s0) as [[n s1]| |] end; cbn [bind sim] in *; auto;
       destruct S1 as (-> & Hi1 & Hl1); cbn [bind];
       specialize (R1 n s1 eq_refl); destruct R1 as [R1 R2]; change (2 ^ (32 - 1)) with (2 ^ 31) in *;
       unfold r_split, wrap_u;
       destruct Hi1 as [Hp1 Hb1]; unfold blen in Hb1;
       (destruct (Z.ltb_spec n 0) as [Hneg|Hpos];
        [ (* negative: the sync split would need >= 2^63 bytes *)
          assert (E : n mod 2 ^ 64 = n + 2 ^ 64) by (symmetry; apply (Z.mod_unique_pos _ _ (-1)); lia);
          rewrite E; replace (n + 2 ^ 64 <=? Z.of_nat (length (rbuf s1))) with false by lia; exact I
        | rewrite Z.mod_small by lia;
          destruct (n <=? Z.of_nat (length (rbuf s1))); [|exact I];
          pose proof (take_sim (Z.to_nat n) s1 (conj Hp1 Hb1)) as S2;
          destruct (r_take (Z.to_nat n) s1) as [[l s2]| |]; cbn [sim] in *; auto;
          destruct S2 as (-> & Hi2 & Hl2); repeat split; auto; try apply Hi2; lia ]).
  pose proof (varint_sim maxsize_32 s Hi) as S1.
  destruct (r_varint maxsize_32 s) as [[n s1]| |]; cbn [bind sim] in *; auto.
  destruct S1 as (-> & Hi1 & Hl1). cbn [bind]. unfold r_split.
  destruct (wrap_u 32 n <=? Z.of_nat (length (rbuf s1))); [|exact I].
  pose proof (take_sim (Z.to_nat (wrap_u 32 n)) s1 Hi1) as S2.
  destruct (r_take _ s1) as [[l s2]| |]; cbn [sim] in *; auto.
  destruct S2 as (-> & Hi2 & Hl2). repeat split; auto; try apply Hi2; lia.
Qed.

Lemma ttype_sim s : inv s -> sim s (r_ttype s) (a_ttype s).
Proof.
  intros Hi. unfold r_ttype, a_ttype. eapply sim_bind; [apply byte_sim; auto|].
  intros b s' Hi' Hl. destruct (ttype_of_byte b); [apply sim_ret; auto|exact I].
Qed.

Lemma inv_set_rc s c : inv s -> r_pfield c = false -> inv (set_rc s c).
Proof. intros [H1 H2] Hc. split; [exact Hc|exact H2]. Qed.

Lemma bool_sim p s : inv s -> sim s (r_bool p s) (a_bool p s).
Proof.
  intros Hi. destruct p; cbn [r_bool a_bool].
  1,2: eapply sim_bind; [apply i8_sim; auto|]; intros; apply sim_ret; auto.
  destruct Hi as [Hp Hb]. rewrite Hp.
  destruct (r_pbool (rc s)) eqn:E.
  - cbn [sim]. repeat split; auto.
  - assert (Es : set_rc s (mkR (r_last (rc s)) (r_stack (rc s)) None false) = s).
    { destruct s as [b [l st pb pf]]. cbn in *. subst. reflexivity. }
    rewrite Es.
    eapply sim_bind; [apply byte_sim; split; auto|].
    intros b s' Hi' Hl. destruct (ctype_of_code b) as [[]|]; try exact I; apply sim_ret; auto.
Qed.

Lemma struct_begin_sim p s : inv s -> sim s (r_struct_begin p s) (a_struct_begin p s).
Proof.
  intros Hi. unfold a_struct_begin. destruct p; cbn [r_struct_begin sim]; repeat split; auto; try apply Hi.
Qed.
Lemma struct_end_sim p s : inv s -> sim s (r_struct_end p s) (a_struct_end p s).
Proof.
  intros Hi. unfold a_struct_end. destruct p; cbn [r_struct_end sim]; repeat split; auto; try apply Hi.
  destruct (r_stack (rc s)); [exact I|]. cbn [sim]. repeat split; auto; apply Hi.
Qed.

Lemma field_begin_sim p s : inv s -> sim s (r_field_begin p s) (a_field_begin p s).
Proof.
  intros Hi. destruct p; cbn [r_field_begin a_field_begin].
  1,2: eapply sim_bind; [apply ttype_sim; auto|]; intros ty s' Hi' Hl;
       destruct ty; try (apply sim_ret; auto; fail);
       (eapply sim_bind; [apply i16_sim; auto|]; intros; apply sim_ret; auto).
  rewrite (clear_pfield_id s (proj1 Hi)).
  eapply sim_bind; [apply byte_sim; auto|]. intros b s1 Hi1 Hl1.
  set (X := if b mod 16 =? ctype_code CBooleanTrue then _ else _).
  assert (SX : sim s1 X X).
  { subst X. destruct Hi1 as [Hp1 Hb1].
    destruct (b mod 16 =? ctype_code CBooleanTrue); [cbn [sim]; repeat split; auto|].
    destruct (b mod 16 =? ctype_code CBooleanFalse); [cbn [sim]; repeat split; auto|].
    destruct (ctype_of_code (b mod 16)) as [ct|]; [|exact I].
    destruct (ttype_of_ctype ct); [|exact I]. cbn [sim]. repeat split; auto. }
  eapply sim_bind; [exact SX|]. intros ty s2 Hi2 Hl2.
  assert (SY : sim s2
    (if negb (b / 16 =? 0)
     then Ok (ty, Some (wrap_s 16 (r_last (rc s2) + b / 16)),
              set_rc s2 (mkR (wrap_s 16 (r_last (rc s2) + b / 16)) (r_stack (rc s2)) (r_pbool (rc s2)) (r_pfield (rc s2))))
     else let* (id, s) := r_i16 PCompact s2 in
          Ok (ty, Some id, set_rc s (mkR id (r_stack (rc s)) (r_pbool (rc s)) (r_pfield (rc s)))))
    (if negb (b / 16 =? 0)
     then Ok (ty, Some (wrap_s 16 (r_last (rc s2) + b / 16)),
              set_rc s2 (mkR (wrap_s 16 (r_last (rc s2) + b / 16)) (r_stack (rc s2)) (r_pbool (rc s2)) (r_pfield (rc s2))))
     else let* (id, s) := a_i16 PCompact s2 in
          Ok (ty, Some id, set_rc s (mkR id (r_stack (rc s)) (r_pbool (rc s)) (r_pfield (rc s)))))).
  { destruct (negb (b / 16 =? 0)).
    - cbn [sim]. repeat split; auto; apply Hi2.
    - eapply sim_bind; [apply i16_sim; auto|]. intros id s3 Hi3 Hl3.
      cbn [sim]. repeat split; auto; apply Hi3. }
  destruct ty; try exact SY. apply sim_ret; auto.
Qed.

Lemma check_size_u64 n s m : check_size n s = Ok m -> inv s -> m = n /\ wrap_u 64 n = n.
Proof.
  intros H [_ Hb]. apply check_size_inv in H as [-> H]. split; auto.
  unfold wrap_u. apply Z.mod_small. assert (2 ^ 63 < 2 ^ 64) by (apply Z.pow_lt_mono_r; lia). lia.
Qed.

Lemma coll_begin_sim p s : inv s -> sim s (r_coll_begin p s) (a_coll_begin p s).
Proof.
  intros Hi. destruct p; cbn [r_coll_begin a_coll_begin].
  1,2: eapply sim_bind; [apply ttype_sim; auto|]; intros et s1 Hi1 Hl1;
       eapply sim_bind; [apply i32_sim; auto|]; intros n s2 Hi2 Hl2;
       destruct (check_size n s2) as [m| |] eqn:E; cbn [bind]; try exact I;
       destruct (check_size_u64 _ _ _ E Hi2) as [-> Eu]; rewrite Eu; apply sim_ret; auto.
  eapply sim_bind; [apply byte_sim; auto|]. intros h s1 Hi1 Hl1.
  destruct (ttype_of_nibble (h mod 16)) as [et| |]; cbn [bind]; try exact I.
  destruct (negb (h / 16 =? 15)).
  - destruct (check_size (h / 16) s1) as [m| |] eqn:E; cbn [bind]; try exact I.
    destruct (check_size_u64 _ _ _ E Hi1) as [-> Eu]. apply sim_ret; auto.
  - eapply sim_bind; [apply varint_sim; auto|]. intros n s2 Hi2 Hl2.
    destruct (check_size (wrap_s 32 n) s2) as [m| |] eqn:E; cbn [bind]; try exact I.
    destruct (check_size_u64 _ _ _ E Hi2) as [-> Eu]. rewrite Eu. apply sim_ret; auto.
Qed.

Lemma map_begin_sim p s : inv s -> sim s (r_map_begin p s) (a_map_begin p s).
Proof.
  intros Hi. destruct p; cbn [r_map_begin a_map_begin].
  1,2: eapply sim_bind; [apply ttype_sim; auto|]; intros kt s1 Hi1 Hl1;
       eapply sim_bind; [apply ttype_sim; auto|]; intros vt s1' Hi1' Hl1';
       eapply sim_bind; [apply i32_sim; auto|]; intros n s2 Hi2 Hl2;
       destruct (check_size n s2) as [m| |] eqn:E; cbn [bind]; try exact I;
       destruct (check_size_u64 _ _ _ E Hi2) as [-> Eu]; rewrite Eu; apply sim_ret; auto.
  eapply sim_bind; [apply varint_sim; auto|]. intros n s1 Hi1 Hl1.
  destruct (wrap_s 32 n =? 0); [apply sim_ret; auto|].
  eapply sim_bind; [apply byte_sim; auto|]. intros h s2 Hi2 Hl2.
  destruct (ttype_of_nibble (h / 16)) as [kt| |]; cbn [bind]; try exact I.
  destruct (ttype_of_nibble (h mod 16)) as [vt| |]; cbn [bind]; try exact I.
  destruct (check_size (wrap_s 32 n) s2) as [m| |] eqn:E; cbn [bind]; try exact I.
  destruct (check_size_u64 _ _ _ E Hi2) as [-> Eu]. rewrite Eu. apply sim_ret; auto.
Qed.

(* --- loops: if the recursive calls are simulated, so are the loops --- *)
Section LoopsSim.
  Variable p : pk.
  Variables rec arec : ttype -> rst -> res (tval * rst).
  Hypothesis Hrec : forall ty s, inv s -> sim s (rec ty s) (arec ty s).

  Lemma fields_sim : forall n s acc, inv s -> sim s (fields_loop p rec n s acc) (afields_loop p arec n s acc).
  Proof.
    induction n as [|n IH]; intros s acc Hi; [exact I|].
    cbn [fields_loop afields_loop].
    eapply sim_bind; [apply field_begin_sim; auto|]. intros h s1 Hi1 Hl1.
    destruct (ttype_eqb (fst h) TStop); [apply sim_ret; auto|].
    eapply sim_bind; [apply Hrec; auto|]. intros x s2 Hi2 Hl2. apply IH; auto.
  Qed.

  Lemma elems_sim : forall m et n s acc, inv s -> sim s (elems_loop rec m et n s acc) (elems_loop arec m et n s acc).
  Proof.
    induction m as [|m IH]; intros et n s acc Hi; cbn [elems_loop].
    - destruct (n <=? 0); [apply sim_ret; auto|exact I].
    - destruct (n <=? 0); [apply sim_ret; auto|].
      eapply sim_bind; [apply Hrec; auto|]. intros x s1 Hi1 Hl1. apply IH; auto.
  Qed.

  Lemma pairs_sim : forall m kt vt n s acc, inv s ->
    sim s (pairs_loop rec m kt vt n s acc) (pairs_loop arec m kt vt n s acc).
  Proof.
    induction m as [|m IH]; intros kt vt n s acc Hi; cbn [pairs_loop].
    - destruct (n <=? 0); [apply sim_ret; auto|exact I].
    - destruct (n <=? 0); [apply sim_ret; auto|].
      eapply sim_bind; [apply Hrec; auto|]. intros a s1 Hi1 Hl1.
      eapply sim_bind; [apply Hrec; auto|]. intros b s2 Hi2 Hl2. apply IH; auto.
  Qed.
End LoopsSim.

Lemma sim_map {A B} s (o1 o2 : res (A * rst)) (g : A -> B) :
  sim s o1 o2 -> sim s (let* (x, s') := o1 in Ok (g x, s')) (let* (x, s') := o2 in Ok (g x, s')).
Proof. intros H. eapply sim_bind; [exact H|]. intros. apply sim_ret; auto. Qed.

Theorem aread_val_sim p : forall f ty s, inv s -> sim s (read_val p f ty s) (aread_val p f ty s).
Proof.
  induction f as [|f IH]; intros ty s Hi; [exact I|].
  rewrite read_val_S. cbn [aread_val].
  destruct ty; try exact I.
  - apply (sim_map _ _ _ VBool). apply bool_sim; auto.
  - apply (sim_map _ _ _ VI8). apply i8_sim; auto.
  - apply (sim_map _ _ _ VDouble). apply double_sim; auto.
  - apply (sim_map _ _ _ VI16). apply i16_sim; auto.
  - apply (sim_map _ _ _ VI32). apply i32_sim; auto.
  - apply (sim_map _ _ _ VI64). apply i64_sim; auto.
  - apply (sim_map _ _ _ VBinary). apply bytes_sim; auto.
  - eapply sim_bind; [apply struct_begin_sim; auto|]. intros u s0 Hi0 Hl0.
    eapply sim_bind; [apply fields_sim; auto|]. intros fs s1 Hi1 Hl1.
    eapply sim_bind; [apply struct_end_sim; auto|]. intros u2 s2 Hi2 Hl2. apply sim_ret; auto.
  - eapply sim_bind; [apply map_begin_sim; auto|]. intros h s0 Hi0 Hl0.
    eapply sim_bind; [apply pairs_sim; auto|]. intros l s1 Hi1 Hl1. apply sim_ret; auto.
  - eapply sim_bind; [apply coll_begin_sim; auto|]. intros h s0 Hi0 Hl0.
    eapply sim_bind; [apply elems_sim; auto|]. intros l s1 Hi1 Hl1. apply sim_ret; auto.
  - eapply sim_bind; [apply coll_begin_sim; auto|]. intros h s0 Hi0 Hl0.
    eapply sim_bind; [apply elems_sim; auto|]. intros l s1 Hi1 Hl1. apply sim_ret; auto.
  - apply (sim_map _ _ _ VUuid). apply uuid_sim; auto.
Qed.

(* C12_value: for every delivery schedule of the bytes [l] (the model of a stream is the byte string
   it delivers, by tokio's read_exact contract), if the in-memory decoder returns [v] leaving
   [rest], the asynchronous decoder returns [v] and has pulled exactly the same bytes *)
Theorem async_value p f ty l rcx v s' :
  r_pfield rcx = false -> Z.of_nat (length l) < 2 ^ 63 ->
  read_val p f ty (mkS l rcx) = Ok (v, s') ->
  aread_val p f ty (mkS l rcx) = Ok (v, s').
Proof.
  intros Hp Hl H.
  pose proof (aread_val_sim p f ty (mkS l rcx) (conj Hp Hl)) as S. rewrite H in S. apply S.
Qed.

(* composed with C01: a value written by pilota is decoded asynchronously to the same value,
   pulling exactly the bytes of the message and nothing of what follows on the stream *)
Corollary async_roundtrip p k v c :
  wt v = true -> w_pend c = None ->
  exists ss, write_val p k v c = Ok (ss, c) /\
    forall fuel r, (vsize v <= fuel)%nat -> Z.of_nat (length (flat ss ++ r)) < 2 ^ 63 ->
      aread_val p fuel (ttype_of v) (mkS (flat ss ++ r) r0) = Ok (canon p v, mkS r r0).
Proof.
  intros Hwt Hp. destruct (roundtrip_val p k v Hwt c Hp) as (ss & Hw & _ & Hr).
  exists ss. split; [exact Hw|]. intros fuel r Hf Hl.
  apply async_value; auto. apply Hr; auto. apply idle_r0.
Qed.
