(* C12: the whole asynchronous value reader and skipper over an event stream.  Event-level copies of
   the readers of Thrift/Async.v (a_ttype .. a_map_begin, the loops, aread_val) and of the asynchronous
   skipper of Thrift/Skip.v, built from the e_ primitives of Thrift/AsyncEv.v: same text, every
   stream access through poll_read.  [step] is the growth policy of read_exact_to_vec's vector.
   No proofs in this file. *)
From PV Require Export Thrift.AsyncEv Thrift.Skip.
Open Scope Z_scope.

Definition e_set_rc (s : est) (c : rctx) : est := mkE (ebuf s) c.

Definition e_ttype : em ttype := fun s =>
  let* (b, s) := e_byte s in
  match ttype_of_byte b with
  | Some t => Ok (t, s)
  | None => Err EInvalidData
  end.

Definition e_bool (p : pk) : em bool :=
  match p with
  | PCompact => fun s =>
      let c := erc s in
      match r_pbool c with
      | Some b => Ok (b, e_set_rc s (mkR (r_last c) (r_stack c) None (r_pfield c)))
      | None =>
          let* (b, s) := e_byte s in
          match ctype_of_code b with
          | Some CBooleanTrue => Ok (true, s)
          | Some CBooleanFalse => Ok (false, s)
          | Some CStop => Ok (false, s)
          | _ => Err EInvalidData
          end
      end
  | _ => fun s => let* (b, s) := e_i8 s in Ok (negb (b =? 0), s)
  end.

Definition e_struct_begin (p : pk) : em unit := fun s =>
  match p with
  | PCompact =>
      let c := erc s in
      Ok (tt, e_set_rc s (mkR 0 (r_last c :: r_stack c) (r_pbool c) (r_pfield c)))
  | _ => Ok (tt, s)
  end.
Definition e_struct_end (p : pk) : em unit := fun s =>
  match p with
  | PCompact =>
      let c := erc s in
      match r_stack c with
      | [] => Err EInvalidData
      | x :: t => Ok (tt, e_set_rc s (mkR x t (r_pbool c) (r_pfield c)))
      end
  | _ => Ok (tt, s)
  end.

Definition e_field_begin (p : pk) : em (ttype * option Z) :=
  match p with
  | PCompact => fun s =>
      let* (b, s) := e_byte s in
      let delta := b / 16 in
      let lo := b mod 16 in
      let c := erc s in
      let* (ty, s) :=
        (if lo =? ctype_code CBooleanTrue then Ok (TBool, e_set_rc s (mkR (r_last c) (r_stack c) (Some true) (r_pfield c)))
         else if lo =? ctype_code CBooleanFalse then Ok (TBool, e_set_rc s (mkR (r_last c) (r_stack c) (Some false) (r_pfield c)))
         else match ctype_of_code lo with
              | None => Err EInvalidData
              | Some ct => match ttype_of_ctype ct with
                           | Some t => Ok (t, s)
                           | None => Err EInvalidData
                           end
              end) in
      match ty with
      | TStop => Ok ((TStop, None), s)
      | _ =>
          let c := erc s in
          if negb (delta =? 0) then
            let id := wrap_s 16 (r_last c + delta) in
            Ok ((ty, Some id), e_set_rc s (mkR id (r_stack c) (r_pbool c) (r_pfield c)))
          else
            let* (id, s) := e_i16 PCompact s in
            let c := erc s in
            Ok ((ty, Some id), e_set_rc s (mkR id (r_stack c) (r_pbool c) (r_pfield c)))
      end
  | _ => fun s =>
      let* (ty, s) := e_ttype s in
      match ty with
      | TStop => Ok ((TStop, Some 0), s)
      | _ => let* (id, s) := e_i16 p s in Ok ((ty, Some id), s)
      end
  end.

Definition e_coll_begin (p : pk) : em (ttype * Z) :=
  match p with
  | PCompact => fun s =>
      let* (h, s) := e_byte s in
      let* et := ttype_of_nibble (h mod 16) in
      let cnt := h / 16 in
      if negb (cnt =? 15) then Ok ((et, cnt), s)
      else let* (n, s) := e_varint maxsize_32 s in
           Ok ((et, wrap_u 64 (wrap_s 32 n)), s)
  | _ => fun s =>
      let* (et, s) := e_ttype s in
      let* (n, s) := e_i32 p s in
      Ok ((et, wrap_u 64 n), s)
  end.

Definition e_map_begin (p : pk) : em (ttype * ttype * Z) :=
  match p with
  | PCompact => fun s =>
      let* (n, s) := e_varint maxsize_32 s in
      let cnt := wrap_s 32 n in
      if cnt =? 0 then Ok ((TStop, TStop, 0), s)
      else
        let* (h, s) := e_byte s in
        let* kt := ttype_of_nibble (h / 16) in
        let* vt := ttype_of_nibble (h mod 16) in
        Ok ((kt, vt, wrap_u 64 cnt), s)
  | _ => fun s =>
      let* (kt, s) := e_ttype s in
      let* (vt, s) := e_ttype s in
      let* (n, s) := e_i32 p s in
      Ok ((kt, vt, wrap_u 64 n), s)
  end.

Section EInterp.
  Variable step : nat -> nat.
  Variable p : pk.

  Section Loops.
    Context {X : Type}.
    Variable rec : ttype -> est -> res (X * est).
    Fixpoint efields_loop (n : nat) (s : est) (acc : list (Z * X)) {struct n} : res (list (Z * X) * est) :=
      match n with
      | O => Err EOutOfFuel
      | S n' =>
          let* (h, s) := e_field_begin p s in
          if ttype_eqb (fst h) TStop then Ok (rev acc, s)
          else
            let* (x, s) := rec (fst h) s in
            efields_loop n' s ((match snd h with Some i => i | None => 0 end, x) :: acc)
      end.
    Fixpoint eelems_loop (m : nat) (et : ttype) (n : Z) (s : est) (acc : list X) {struct m} : res (list X * est) :=
      if n <=? 0 then Ok (rev acc, s) else
      match m with
      | O => Err EOutOfFuel
      | S m' =>
          let* (x, s) := rec et s in
          eelems_loop m' et (n - 1) s (x :: acc)
      end.
    Fixpoint epairs_loop (m : nat) (kt vt : ttype) (n : Z) (s : est) (acc : list (X * X)) {struct m} : res (list (X * X) * est) :=
      if n <=? 0 then Ok (rev acc, s) else
      match m with
      | O => Err EOutOfFuel
      | S m' =>
          let* (a, s) := rec kt s in
          let* (b, s) := rec vt s in
          epairs_loop m' kt vt (n - 1) s ((a, b) :: acc)
      end.
  End Loops.

  Fixpoint e_read_val (fuel : nat) (ty : ttype) (s : est) {struct fuel} : res (tval * est) :=
    match fuel with
    | O => Err EOutOfFuel
    | S f =>
        match ty with
        | TBool => let* (b, s) := e_bool p s in Ok (VBool b, s)
        | TI8 => let* (z, s) := e_i8 s in Ok (VI8 z, s)
        | TI16 => let* (z, s) := e_i16 p s in Ok (VI16 z, s)
        | TI32 => let* (z, s) := e_i32 p s in Ok (VI32 z, s)
        | TI64 => let* (z, s) := e_i64 p s in Ok (VI64 z, s)
        | TDouble => let* (z, s) := e_double p s in Ok (VDouble z, s)
        | TBinary => let* (l, s) := e_bytes step p s in Ok (VBinary l, s)
        | TUuid => let* (l, s) := e_uuid s in Ok (VUuid l, s)
        | TStruct =>
            let* (_, s) := e_struct_begin p s in
            let* (fs, s) := efields_loop (e_read_val f) (S f) s [] in
            let* (_, s) := e_struct_end p s in
            Ok (VStruct fs, s)
        | TList =>
            let* (h, s) := e_coll_begin p s in
            let* (l, s) := eelems_loop (e_read_val f) (S f) (fst h) (snd h) s [] in
            Ok (VList (fst h) l, s)
        | TSet =>
            let* (h, s) := e_coll_begin p s in
            let* (l, s) := eelems_loop (e_read_val f) (S f) (fst h) (snd h) s [] in
            Ok (VSet (fst h) l, s)
        | TMap =>
            let* (h, s) := e_map_begin p s in
            let* (l, s) := epairs_loop (e_read_val f) (S f) (fst (fst h)) (snd (fst h)) (snd h) s [] in
            Ok (VMap (fst (fst h)) (snd (fst h)) l, s)
        | TStop | TVoid => Err EInvalidData
        end
    end.
End EInterp.

(* the asynchronous skipper (Thrift/Skip.v askip_val) over events *)
Definition e_drop {A} (m : em A) : em unit := fun s => let* (_, s') := m s in Ok (tt, s').

Section ESkip.
  Variable step : nat -> nat.
  Variable p : pk.

  Section Loops.
    Variable rec : ttype -> est -> res (unit * est).
    Fixpoint eskip_fields (n : nat) (s : est) {struct n} : res (unit * est) :=
      match n with
      | O => Err EOutOfFuel
      | S n' =>
          let* (h, s1) := e_field_begin p s in
          if ttype_eqb (fst h) TStop then Ok (tt, s1)
          else let* (_, s2) := rec (fst h) s1 in eskip_fields n' s2
      end.
    Fixpoint eskip_elems (m : nat) (et : ttype) (n : Z) (s : est) {struct m} : res (unit * est) :=
      if n <=? 0 then Ok (tt, s) else
      match m with
      | O => Err EOutOfFuel
      | S m' => let* (_, s1) := rec et s in eskip_elems m' et (n - 1) s1
      end.
    Fixpoint eskip_pairs (m : nat) (kt vt : ttype) (n : Z) (s : est) {struct m} : res (unit * est) :=
      if n <=? 0 then Ok (tt, s) else
      match m with
      | O => Err EOutOfFuel
      | S m' =>
          let* (_, s1) := rec kt s in
          let* (_, s2) := rec vt s1 in
          eskip_pairs m' kt vt (n - 1) s2
      end.
  End Loops.

  Fixpoint e_skip_val (f : nat) (d : nat) (ty : ttype) (s : est) {struct f} : res (unit * est) :=
    match f with
    | O => Err EOutOfFuel
    | S f' =>
        match d with
        | O => Err EDepthLimit
        | S d' =>
            match ty with
            | TBool => e_drop (e_bool p) s
            | TI8 => e_drop e_i8 s
            | TI16 => e_drop (e_i16 p) s
            | TI32 => e_drop (e_i32 p) s
            | TI64 => e_drop (e_i64 p) s
            | TDouble => e_drop (e_double p) s
            | TBinary => e_drop (e_bytes step p) s
            | TUuid => e_drop e_uuid s
            | TStruct =>
                let* (_, s1) := e_struct_begin p s in
                let* (_, s2) := eskip_fields (e_skip_val f' d') (S f') s1 in
                e_struct_end p s2
            | TList | TSet =>
                let* (h, s1) := e_coll_begin p s in
                eskip_elems (e_skip_val f' d') (S f') (fst h) (snd h) s1
            | TMap =>
                let* (h, s1) := e_map_begin p s in
                eskip_pairs (e_skip_val f' d') (S f') (fst (fst h)) (snd (fst h)) (snd h) s1
            | TStop | TVoid => Err EDepthLimit
            end
        end
    end.
End ESkip.
