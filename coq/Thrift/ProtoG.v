(* C09, guarded reader layer.  The reader model of Proto.v / Skip.v is TOTAL: its buffer access
   [r_take] returns an error on a short buffer, so no reader can produce [Panic] by construction.
   The Rust readers are not built that way: bytes::Buf::advance / copy_to_slice / split_to, chunk()[0],
   array indexing, usize subtraction PANIC when their precondition fails, and what keeps them from
   firing is a guard the code performs first (assert_remaining!, a length test, a depth test).
   This file models exactly that: the PARTIAL operations ([Panic SOob] / [Panic SOverflow] when the
   precondition fails, as bytes / a debug build do), and each panic-capable leaf of the readers as
   "the guard the Rust code performs, then the partial operation".  Proofs/GuardP.v proves every
   guarded leaf equal to the total one on every input ([guarded_eq]: all existing theorems transfer)
   and panic-free on every input; a missing or too weak guard makes the equality false.  The leaves
   are exactly the model functions the regenerated site inventory (Thrift/Sites.v) names in its
   [Guarded] accounts.  No proofs here. *)
From PV Require Export Thrift.Skip.
Open Scope Z_scope.

(* ---- partial operations ---- *)
(* Buf::advance(n): panics if n > remaining *)
Definition b_advance (n : nat) : rm unit := fun s =>
  if (n <=? blen s)%nat then Ok (tt, set_buf s (skipn n (rbuf s))) else Panic SOob.
(* Buf::copy_to_slice(&mut [u8; n]) / get(..n).unwrap() + advance(n) / Bytes::split_to(n): panic if n > remaining *)
Definition b_copy (n : nat) : rm (list byte) := fun s =>
  if (n <=? blen s)%nat then Ok (firstn n (rbuf s), set_buf s (skipn n (rbuf s))) else Panic SOob.
Definition b_split_to : nat -> rm (list byte) := b_copy.
(* self.chunk()[0] *)
Definition b_chunk0 (s : rst) : res byte :=
  match rbuf s with b :: _ => Ok b | [] => Panic SOob end.
(* usize subtraction (debug build: overflow check) *)
Definition usub (a b : nat) : res nat := if (b <=? a)%nat then Ok (a - b)%nat else Panic SOverflow.
(* the [u8; 10] of VarIntProcessor, represented by the bytes pushed so far *)
Definition arr_len : nat := 10.
Definition arr_push (pushed : list byte) (b : byte) : res (list byte) :=       (* self.buf[self.i] = b *)
  if (length pushed <? arr_len)%nat then Ok (pushed ++ [b]) else Panic SOob.
Definition arr_get (pushed : list byte) (i : nat) : res byte :=                 (* self.buf[i] *)
  if (i <? arr_len)%nat then Ok (nth i pushed x00) else Panic SOob.
Definition arr_slice (pushed : list byte) (i : nat) : res (list byte) :=        (* &self.buf[0..i] *)
  if (i <=? arr_len)%nat then Ok (firstn i pushed) else Panic SOob.

(* ---- guards ---- *)
(* assert_remaining!(remaining >= n) / if remaining < SIZE { return Err(NoRemaining) } *)
Definition assert_remaining (n : nat) : rm unit := fun s =>
  if (n <=? blen s)%nat then Ok (tt, s) else Err EInvalidData.
Definition assert_remaining_z (n : Z) : rm unit := fun s =>
  if n <=? Z.of_nat (blen s) then Ok (tt, s) else Err EInvalidData.

(* ---- guarded leaves ---- *)
(* io_read_impl! / read_to_slice *)
Definition g_take (n : nat) : rm (list byte) := fun s =>
  let* (_, s) := assert_remaining n s in b_copy n s.
(* read_u8 / read_i8: assert_remaining!(1); chunk()[0]; advance(1) *)
Definition g_byte : rm Z := fun s =>
  let* (_, s) := assert_remaining 1 s in
  let* b := b_chunk0 s in
  let* (_, s) := b_advance 1 s in Ok (of_le [b], s).
Definition g_i8 : rm Z := fun s =>
  let* (_, s) := assert_remaining 1 s in
  let* b := b_chunk0 s in
  let* (_, s) := b_advance 1 s in Ok (wrap_s 8 (of_le [b]), s).
(* split_to_checked *)
Definition g_split (n : Z) : rm (list byte) := fun s =>
  let* (_, s) := assert_remaining_z n s in b_split_to (Z.to_nat n) s.
(* the fixed-width arms of the default skipper: assert_remaining!(n); advance(n) *)
Definition g_adv (n : nat) : rm Z := fun s =>
  let* (_, s) := assert_remaining n s in
  let* (_, s) := b_advance n s in Ok (Z.of_nat n, s).
(* the compact skipper: before = trans.len(); ...; Ok(before - trans.len()) *)
Definition g_via {A} (m : rm A) : rm Z := fun s =>
  let* (_, s') := m s in
  let* k := usub (blen s) (blen s') in Ok (Z.of_nat k, s').

(* VarIntProcessor + read_varint: while !p.finished() { read_u8()?; p.push(b)? }; p.decode() *)
Fixpoint var_value (l : list byte) : Z :=
  match l with [] => 0 | b :: t => b2z b mod 128 + 128 * var_value t end.
Definition p_finished (pushed : list byte) : res bool :=
  if (0 <? length pushed)%nat then
    let* j := usub (length pushed) 1 in
    let* b := arr_get pushed j in Ok (b2z b <? 128)
  else Ok false.
Definition p_push (maxsize : nat) (pushed : list byte) (b : byte) : res (list byte) :=
  if (maxsize <=? length pushed)%nat then Err ETransport else arr_push pushed b.
Definition p_decode (pushed : list byte) : res Z :=
  let* sl := arr_slice pushed (length pushed) in Ok (var_value sl mod two64).
Fixpoint g_rd_var (n : nat) (maxsize : nat) (pushed : list byte) (buf : list byte) {struct n} : res (Z * list byte) :=
  let* fin := p_finished pushed in
  if fin then let* v := p_decode pushed in Ok (v, buf)
  else match n with
       | O => Err EOutOfFuel
       | S n' =>
           match buf with
           | [] => Err EInvalidData                       (* read_u8: assert_remaining!(1) *)
           | b :: rest => let* pushed' := p_push maxsize pushed b in g_rd_var n' maxsize pushed' rest
           end
       end.
Definition g_read_var_u64 (maxsize : nat) (buf : list byte) : res (Z * list byte) :=
  g_rd_var (S maxsize) maxsize [] buf.

(* ---- the skippers: `if depth == 0 { return Err(DepthLimit) }` at entry, `depth - 1` at every
   recursive call, advance(length as usize) behind assert_remaining! for a binary string ---- *)
Section SkipG.
  Variable p : pk.

  Fixpoint g_skip_val (f : nat) (d : nat) (ty : ttype) (s : rst) {struct f} : res (Z * rst) :=
    match f with
    | O => Err EOutOfFuel
    | S f' =>
        if (d =? 0)%nat then Err EDepthLimit else
        let rec := fun ty s => let* d' := usub d 1 in g_skip_val f' d' ty s in
        match ty with
        | TBool => if is_compact p then g_via (r_bool p) s else g_adv 1 s
        | TI8 => if is_compact p then g_via r_i8 s else g_adv 1 s
        | TI16 => if is_compact p then g_via (r_i16 p) s else g_adv 2 s
        | TI32 => if is_compact p then g_via (r_i32 p) s else g_adv 4 s
        | TI64 => if is_compact p then g_via (r_i64 p) s else g_adv 8 s
        | TDouble => if is_compact p then g_via (r_double p) s else g_adv 8 s
        | TUuid => if is_compact p then g_via r_uuid s else g_adv 16 s
        | TBinary =>
            if is_compact p then g_via (r_bytes p) s
            else
              let* (n, s1) := r_i32 p s in
              let n := wrap_u 64 n in
              let* (_, s1) := assert_remaining_z n s1 in
              let* (_, s2) := b_advance (Z.to_nat n) s1 in Ok (4 + n, s2)
        | TStruct =>
            let* (_, s1) := r_struct_begin p s in
            let* (n, s2) := skip_fields p rec (S f') s1 0 in
            let* (_, s3) := r_struct_end p s2 in
            Ok (n, s3)
        | TList | TSet =>
            let* (h, s1) := r_coll_begin p s in
            skip_elems rec (S f') (fst h) (snd h) s1 (hdr_count p 5 s s1)
        | TMap =>
            let* (h, s1) := r_map_begin p s in
            skip_pairs rec (S f') (fst (fst h)) (snd (fst h)) (snd h) s1 (hdr_count p 6 s s1)
        | TStop | TVoid => Err EDepthLimit
        end
    end.

  Fixpoint g_askip_val (f : nat) (d : nat) (ty : ttype) (s : rst) {struct f} : res (unit * rst) :=
    match f with
    | O => Err EOutOfFuel
    | S f' =>
        if (d =? 0)%nat then Err EDepthLimit else
        let rec := fun ty s => let* d' := usub d 1 in g_askip_val f' d' ty s in
        match ty with
        | TBool => drop (a_bool p) s
        | TI8 => drop a_i8 s
        | TI16 => drop (a_i16 p) s
        | TI32 => drop (a_i32 p) s
        | TI64 => drop (a_i64 p) s
        | TDouble => drop (a_double p) s
        | TBinary => drop (a_bytes p) s
        | TUuid => drop a_uuid s
        | TStruct =>
            let* (_, s1) := a_struct_begin p s in
            let* (_, s2) := askip_fields p rec (S f') s1 in
            a_struct_end p s2
        | TList | TSet =>
            let* (h, s1) := a_coll_begin p s in
            askip_elems rec (S f') (fst h) (snd h) s1
        | TMap =>
            let* (h, s1) := a_map_begin p s in
            askip_pairs rec (S f') (fst (fst h)) (snd (fst h)) (snd h) s1
        | TStop | TVoid => Err EDepthLimit
        end
    end.
End SkipG.
