(* C20, literal level: the lowering of IDL literals modelled in Lit.v means what the IDL says (LitSpec.v), for every
   literal (induction over the literal, unbounded nesting), every type, every schema whose defaults avoid the panic
   classes of LitClass.v.  Also: the regenerated arm tables are the ones the model was written against. *)
From PVGen Require Import Lit LitSpec LitClass Proofs.LitNum.
From Coq Require Import Lia ZifyBool.
Open Scope Z_scope.

(* ---------- the regenerated tables are the ones the model was written against ---------- *)
Definition model_lit_into_ty_arms : list arm :=
  [ ([(LPPath, CPAny)], FDyn);            (*  0 *)
    ([(LPString, CPStr)], FTrue);         (*  1 *)
    ([(LPString, CPString)], FFalse);     (*  2 *)
    ([(LPString, CPFastStr)], FTrue);     (*  3 *)
    ([(LPInt, CPI8)], FTrue);             (*  4 *)
    ([(LPInt, CPI16)], FTrue);            (*  5 *)
    ([(LPInt, CPI32)], FTrue);            (*  6 *)
    ([(LPInt, CPI64)], FTrue);            (*  7 *)
    ([(LPInt, CPF32)], FTrue);            (*  8 *)
    ([(LPInt, CPF64)], FTrue);            (*  9 *)
    ([(LPInt, CPOrderedF64)], FTrue);     (* 10 *)
    ([(LPInt, CPAdtEnum)], FTrue);        (* 11 *)
    ([(LPFloat, CPF64)], FTrue);          (* 12 *)
    ([(LPFloat, CPOrderedF64)], FTrue);   (* 13 *)
    ([(LPAny, CPAdtNewType)], FDyn);      (* 14 *)
    ([(LPMap, CPStaticRef)], FFalse);     (* 15 *)
    ([(LPList, CPStaticRefColl)], FFalse);(* 16 *)
    ([(LPList, CPArray)], FDyn);          (* 17 *)
    ([(LPList, CPVec)], FFalse);          (* 18 *)
    ([(LPList, CPSet)], FFalse);          (* 19 *)
    ([(LPList, CPBTreeSet)], FFalse);     (* 20 *)
    ([(LPBool, CPBool)], FTrue);          (* 21 *)
    ([(LPInt, CPBool)], FTrue);           (* 22 *)
    ([(LPString, CPBytes)], FTrue);       (* 23 *)
    ([(LPMap, CPAdtStruct)], FDyn) ].     (* 24 *)

(* the repairs arc-field-default and (where it is applied) string-at-bytesvec append their arms at the end (no index moves) *)
Definition arc_into_arm : arm := ([(LPAny, CPArc)], FFalse).
Definition strvec_into_arm : arm := ([(LPString, CPVec)], FFalse).
Lemma lit_into_ty_arms_pinned :
  lit_into_ty_arms = model_lit_into_ty_arms ++ (if string_at_bytesvec_ok then [strvec_into_arm] else []) ++ [arc_into_arm].
Proof. reflexivity. Qed.

Lemma lit_as_rvalue_arms_pinned :
  lit_as_rvalue_arms = [ ([(LPMap, CPLazyStaticRef)], FFalse); ([(LPMap, CPMap)], FFalse); ([(LPMap, CPBTreeMap)], FFalse);
                         ([(LPList, CPLazyMap)], FFalse); ([(LPList, CPLazyStaticRef)], FFalse);
                         ([(LPList, CPMap)], FFalse); ([(LPList, CPBTreeMap)], FFalse) ].
Proof. reflexivity. Qed.

Definition model_ident_into_ty_arms : list (list (cpat * cpat) * flagk) :=
  [ ([(CPAny, CPAdtNewType)], FDyn); ([(CPStr, CPFastStr)], FTrue); ([(CPStr, CPString)], FFalse);
    ([(CPAdtEnum, CPI64); (CPAdtEnum, CPI32); (CPAdtEnum, CPI16); (CPAdtEnum, CPI8)], FTrue) ].
Lemma ident_into_ty_arms_pinned : ident_into_ty_arms = model_ident_into_ty_arms ++ [([(CPAny, CPArc)], FFalse)].
Proof. reflexivity. Qed.

(* the repairs the general theorems below are stated for are in the source (each flag is regenerated from context.rs by
   tools/extract_gen.py: this lemma, and with it every theorem of this file, stops compiling when one of them regenerates to false) *)
Lemma flags_now : arc_ok = true /\ const_inline_present = true /\ double_sign_run_ok = true /\ double_exponent_ok = true.
Proof. repeat split; reflexivity. Qed.

(* the member an enum default BY NUMBER denotes is spelled by its own path -- the name the enum's definition gives it
   (Context::rust_name: pilota.name, change_case, name-collision fallback) -- so that the emitted `Enum::NAME` is the constant
   whose discriminant is the number: what arm 11 of Lit.lower assumes when it returns GEnum z *)
Lemma enum_number_member_path_pinned : enum_number_member_path = true.
Proof. reflexivity. Qed.

Lemma lit_scalars_pinned :
  int_float_casts = [(CPF32, CPF32); (CPF64, CPF64); (CPOrderedF64, CPF64)] /\ int_bool_test = (true, 0) /\
  lazy_static_kinds = [CPString; CPLazyStaticRef; CPStaticRef; CPVec; CPMap; CPBTreeMap] /\
  const_ty_overrides = [(CPString, [CPStr]); (CPFastStr, [CPStr]); (CPVec, [CPArray]); (CPSet, [CPStaticRef; CPSet]);
                        (CPBTreeSet, [CPStaticRef; CPBTreeSet]); (CPMap, [CPStaticRef; CPMap]); (CPBTreeMap, [CPStaticRef; CPBTreeMap])].
Proof. repeat split; reflexivity. Qed.

(* const_cty is the transformer those overrides describe *)
Lemma const_cty_overrides S0 a b :
  ckind S0 (const_cty RString) = Some CPStr /\ ckind S0 (const_cty RFastStr) = Some CPStr /\
  const_cty (RVec a) = CArray (undyn (const_cty a)) /\
  const_cty (RSet a) = CStaticRef (CSet (undyn (const_cty a))) /\
  const_cty (RBTreeSet a) = CStaticRef (CBTreeSet (undyn (const_cty a))) /\
  const_cty (RMap a b) = CStaticRef (CMap (undyn (const_cty a)) (undyn (const_cty b))) /\
  const_cty (RBTreeMap a b) = CStaticRef (CBTreeMap (undyn (const_cty a)) (undyn (const_cty b))).
Proof. repeat split; reflexivity. Qed.

(* ---------- induction over literals ---------- *)
Section lit_ind.
  Variable P : lit -> Prop.
  Hypothesis Hmem : forall e m, P (LMember e m).
  Hypothesis Hconst : forall c, P (LConst c).
  Hypothesis Hbool : forall b, P (LBool b).
  Hypothesis Hstr : forall s, P (LString s).
  Hypothesis Hint : forall i, P (LInt i).
  Hypothesis Hfloat : forall s, P (LFloat s).
  Hypothesis Hlist : forall l, Forall P l -> P (LList l).
  Hypothesis Hmap : forall m, Forall (fun kv => P (fst kv) /\ P (snd kv)) m -> P (LMap m).

  Fixpoint lit_ind' (l : lit) : P l :=
    match l with
    | LMember e m => Hmem e m
    | LConst c => Hconst c
    | LBool b => Hbool b
    | LString s => Hstr s
    | LInt i => Hint i
    | LFloat s => Hfloat s
    | LList els => Hlist els ((fix go (l : list lit) : Forall P l :=
                                 match l with [] => Forall_nil _ | x :: t => Forall_cons x (lit_ind' x) (go t) end) els)
    | LMap m => Hmap m ((fix go (l : list (lit * lit)) : Forall (fun kv => P (fst kv) /\ P (snd kv)) l :=
                           match l with
                           | [] => Forall_nil _
                           | (a, b) :: t => Forall_cons (a, b) (conj (lit_ind' a) (lit_ind' b)) (go t)
                           end) m)
    end.
End lit_ind.


Lemma byte_eqb_eq a b : byte_eqb a b = true <-> a = b.
Proof. unfold byte_eqb. split; [apply Byte.byte_dec_bl | apply Byte.byte_dec_lb]. Qed.

Lemma bytes_eqb_eq a b : bytes_eqb a b = true <-> a = b.
Proof.
  revert b. induction a as [|x a IH]; destruct b as [|y b]; cbn; try (split; congruence).
  rewrite Bool.andb_true_iff, byte_eqb_eq, IH. split; [intros [-> ->]; reflexivity|intros H; injection H; auto].
Qed.

Lemma cty_eqb_eq a b : cty_eqb a b = true -> a = b.
Proof.
  revert b. induction a; destruct b; cbn; try discriminate; try reflexivity; intros H;
    try (apply Bool.andb_true_iff in H; destruct H as [H1 H2]); f_equal; auto.
  apply Nat.eqb_eq; assumption.
Qed.
Lemma cty_eqb_refl a : cty_eqb a a = true.
Proof. induction a; cbn; auto; try (rewrite IHa1, IHa2; reflexivity). apply Nat.eqb_refl. Qed.

(* ---------- strings: pasting between Rust quotes after escape_double_quotes means what the IDL says ---------- *)
Lemma idl_rust_escape x b : idl_escape x = Some b -> rust_escape x = Some b.
Proof. destruct x; cbn; intros H; try discriminate; exact H. Qed.

Lemma unescape_agree n : forall s b, (length s <= n)%nat -> idl_unescape s = Some b -> rust_unescape (escape_dq s) = Some b.
Proof.
  induction n as [|n IH]; intros s b Hl H.
  - destruct s; [cbn in *; exact H|cbn in Hl; lia].
  - destruct s as [|c r]; [exact H|]. cbn [idl_unescape escape_dq] in *.
    destruct (byte_eqb c bslash) eqn:Eb.
    + destruct r as [|x r']; [discriminate|].
      destruct (idl_escape x) as [b0|] eqn:Ex; [|discriminate].
      destruct (idl_unescape r') as [t|] eqn:Et; [|discriminate]. injection H as <-.
      cbn [rust_unescape]. rewrite Eb, (idl_rust_escape _ _ Ex), (IH r' t); [reflexivity|cbn in Hl; lia|exact Et].
    + destruct (idl_unescape r) as [t|] eqn:Et; [|discriminate]. injection H as <-.
      assert (Hr : rust_unescape (escape_dq r) = Some t) by (apply IH; [cbn in Hl; lia|exact Et]).
      destruct (byte_eqb c dquote) eqn:Eq.
      * apply byte_eqb_eq in Eq. subst c. cbn [rust_unescape]. change (byte_eqb bslash bslash) with true. cbn match.
        change (rust_escape dquote) with (Some dquote). rewrite Hr. reflexivity.
      * cbn [rust_unescape]. rewrite Eb, Eq, Hr. reflexivity.
Qed.

Lemma string_value_ok s b : idl_unescape s = Some b -> string_value s = LOk (GBytes b).
Proof. intros H. unfold string_value. rewrite (unescape_agree (length s) s b (le_n _) H). reflexivity. Qed.

(* ---------- typedef chains: peel (model) vs sresolve (specification) ---------- *)
Fixpoint rres_n (S : lschema) (f : nat) (t : rty) : rty :=
  match f with
  | O => t
  | Datatypes.S f' =>
      match t with
      | RPath n => match item S n with Some (INewType a) => rres_n S f' a | _ => t end
      | _ => t
      end
  end.
Definition rres (S : lschema) : rty -> rty := rres_n S (pfuel S).

Lemma peel_item S f t : peel S f (item_cty t) = item_cty (rres_n S f t).
Proof.
  revert t. induction f as [|f IH]; intros t; [reflexivity|]. destruct t; try reflexivity.
  cbn [item_cty peel rres_n]. destruct (item S n) as [[]|]; auto.
Qed.

Lemma sres_erase S f t : ckind S (peel S f (item_cty t)) <> Some CPArc -> sresolve_n S f (erase t) = erase (rres_n S f t).
Proof.
  revert t. induction f as [|f IH]; intros t H.
  - reflexivity.
  - destruct t; try reflexivity.
    + exfalso. apply H. reflexivity.
    + cbn [erase sresolve_n rres_n item_cty peel] in *. unfold sitem. unfold item in *.
      destruct (nth_error (ls_items S) n) as [[]|]; auto.
Qed.

(* a const type whose const-context CodegenTy is a field's CodegenTy is that field's type *)
Lemma item_cty_not_u8 t : item_cty t <> CU8.
Proof. destruct t; discriminate. Qed.

Lemma const_item_eq a : forall t, const_cty a = item_cty t -> a = t.
Proof.
  induction a; intros t H; destruct t; cbn in H; try discriminate; try reflexivity.
  all: try (injection H as H; f_equal; auto; fail).
  injection H as H. symmetry in H. exfalso. exact (item_cty_not_u8 _ H).
Qed.

Lemma ident_eq_item S c ct lc t : nth_error (ls_consts S) c = Some (ct, lc) ->
  ident_ty_of_const S c = Some (item_cty t) -> ct = t.
Proof.
  unfold ident_ty_of_const. intros -> H. injection H as H.
  destruct (const_cty ct) eqn:Ec; try (rewrite <- Ec in H; exact (const_item_eq _ _ H)).
  destruct t; discriminate.
Qed.

Lemma ident_str S c ct lc : nth_error (ls_consts S) c = Some (ct, lc) ->
  ident_ty_of_const S c = Some CStr -> is_string_rty ct = true.
Proof.
  unfold ident_ty_of_const. intros -> H. injection H as H. destruct ct; cbn in H; try discriminate; reflexivity.
Qed.

(* the loops of the specification, named *)
Definition spec_list (rec : lit -> ty -> option gval) (et : ty) : list lit -> option (list gval) :=
  fix go (els : list lit) : option (list gval) :=
    match els with
    | [] => Some []
    | x :: r => match rec x et, go r with Some a, Some b => Some (a :: b) | _, _ => None end
    end.
Definition spec_pairs (rec : lit -> ty -> option gval) (kt vt : ty) : list (lit * lit) -> option (list (gval * gval)) :=
  fix go (m : list (lit * lit)) : option (list (gval * gval)) :=
    match m with
    | [] => Some []
    | (k, v) :: r =>
        match rec k kt, rec v vt, go r with
        | Some a, Some b, Some c => Some ((a, b) :: c)
        | _, _, _ => None
        end
    end.

Definition spec_look (rec : lit -> ty -> option gval) (name : list byte) (fty : ty) : list (lit * lit) -> option (option gval) :=
  fix go (m : list (lit * lit)) : option (option gval) :=
    match m with
    | [] => Some None
    | (k, v) :: m' =>
        match k with
        | LString s => if bytes_eqb s name then match rec v fty with Some x => Some (Some x) | None => None end else go m'
        | _ => None
        end
    end.

Definition spec_fields (rec : lit -> ty -> option gval) (empty : ty -> option gval) (m : list (lit * lit))
  : list lfield -> option (list (Z * gval)) :=
  fix fields (fs : list lfield) : option (list (Z * gval)) :=
    match fs with
    | [] => Some []
    | f :: r =>
        match spec_look rec (lf_name f) (erase (lf_ty f)) m, fields r with
        | Some (Some x), Some rest => Some ((lf_id f, x) :: rest)
        | Some None, Some rest =>
            match lf_req f with
            | Optional => Some rest
            | Required => match empty (erase (lf_ty f)) with Some d => Some ((lf_id f, d) :: rest) | None => None end
            end
        | _, _ => None
        end
    end.

Definition low_fields (rec : lit -> cty -> lres (gval * bool)) (dflt : rty -> lres gval) (m : list (lit * lit))
  : list lfield -> lres (list (Z * gval) * bool) :=
  fix fields (fs : list lfield) : lres (list (Z * gval) * bool) :=
    match fs with
    | [] => LOk ([], true)
    | f :: r =>
        let+ found := low_look rec (lf_name f) (item_cty (lf_ty f)) m in
        let+ here :=
          match found with
          | Some (x, c) => LOk (Some x, c)
          | None =>
              match lf_req f with
              | Optional => LOk (None, true)
              | Required => let+ d := dflt (lf_ty f) in LOk (Some d, false)
              end
          end in
        let+ rest := fields r in
        LOk (match fst here with Some x => (lf_id f, x) :: fst rest | None => fst rest end, snd here && snd rest)
    end.

Definition class_over (S : lschema) (ccls : nat -> cty -> option pclass) (v : lit) (s : list byte) : list lfield -> option pclass :=
  fix over (fs : list lfield) : option pclass :=
    match fs with
    | [] => None
    | f :: fr =>
        match (if bytes_eqb s (lf_name f) then pclass_into S ccls true v (item_cty (lf_ty f)) else None) with
        | Some c => Some c
        | None => over fr
        end
    end.
Definition class_pairs (S : lschema) (ccls : nat -> cty -> option pclass) (fs : list lfield) : list (lit * lit) -> option pclass :=
  fix go (m : list (lit * lit)) : option pclass :=
    match m with
    | [] => None
    | (k, v) :: r =>
        match (match k with LString s => class_over S ccls v s fs | _ => None end) with
        | Some c => Some c
        | None => go r
        end
    end.

Lemma class_over_in S ccls v s fs f : class_over S ccls v s fs = None -> In f fs -> bytes_eqb s (lf_name f) = true ->
  pclass_into S ccls true v (item_cty (lf_ty f)) = None.
Proof.
  induction fs as [|g fr IH]; intros H Hin Hb; [destruct Hin|].
  cbn [class_over] in H. destruct Hin as [->|Hin].
  - rewrite Hb in H. destruct (pclass_into S ccls true v (item_cty (lf_ty f))); [discriminate|reflexivity].
  - destruct (if bytes_eqb s (lf_name g) then _ else _); [discriminate|]. apply IH; assumption.
Qed.
(* ---------- typedef chains of a target (ident_into_ty) ---------- *)
Lemma in_chain_refl S f ty : in_chain S f ty ty = true.
Proof. destruct f; cbn [in_chain]; rewrite cty_eqb_refl; reflexivity. Qed.

Lemma in_chain_peel S f : forall ty, in_chain S f (peel S f ty) ty = true.
Proof.
  induction f as [|f IH]; intros ty; [cbn; rewrite cty_eqb_refl; reflexivity|].
  destruct ty; try (cbn [peel]; apply in_chain_refl).
  cbn [peel in_chain]. destruct (item S n) as [[]|] eqn:E; try (rewrite cty_eqb_refl; reflexivity).
  rewrite IH. apply Bool.orb_true_r.
Qed.

(* a type that is no typedef occurs in a chain only at its end *)
Definition not_nt (S : lschema) (it : cty) : Prop := forall n a, it = CAdt n -> item S n <> Some (INewType a).

Lemma in_chain_end S it f : not_nt S it -> forall ty, cty_eqb it (peel S f ty) = false -> in_chain S f it ty = false.
Proof.
  intros Hn. induction f as [|f IH]; intros ty H; [cbn in *; rewrite H; reflexivity|].
  destruct ty; try (cbn [peel in_chain] in *; rewrite H; reflexivity).
  cbn [peel in_chain] in *. destruct (item S n) as [[]|] eqn:E; try (rewrite H; reflexivity).
  rewrite (IH _ H), Bool.orb_false_r. destruct (cty_eqb it (CAdt n)) eqn:Eq; [|reflexivity].
  apply cty_eqb_eq in Eq. exfalso. exact (Hn _ _ Eq E).
Qed.

Lemma sres_term S f x : unresolved S x = false -> sresolve_n S f x = x.
Proof.
  destruct f; [reflexivity|]. destruct x; try reflexivity. cbn [unresolved sresolve_n].
  destruct (sitem S n) as [[]|]; try discriminate; reflexivity.
Qed.

(* a literal that is neither a list nor a map literal is not looked at by any arm of lit_as_rvalue *)
Lemma rv_index_scalar en lk ck : lk <> LPList -> lk <> LPMap -> rv_index en lk ck = 7%nat.
Proof. intros H1 H2. destruct en; [|reflexivity]. destruct lk; try congruence; destruct ck; reflexivity. Qed.

Lemma item_cty_not_container t : is_container_c (item_cty t) = false.
Proof. destruct t; reflexivity. Qed.

Lemma float_text_ok s : float_exp_plain s && float_sign_plain s = true -> float_text s = sign_norm (exp_norm s).
Proof.
  unfold float_text, float_exp_plain, float_sign_plain. intros H. apply andb_prop in H. destruct H as [He Hs].
  assert (E1 : (if double_exponent_ok then exp_norm s else s) = exp_norm s).
  { destruct double_exponent_ok; [reflexivity|]. cbn [orb] in He. apply bytes_eqb_eq in He. exact He. }
  rewrite E1. destruct double_sign_run_ok; [reflexivity|]. cbn [orb] in Hs. apply bytes_eqb_eq in Hs. exact Hs.
Qed.


(* ---------- the walk through NewType and Arc layers: model (tfin, chain_of) vs specification (sresolve) ---------- *)
Lemma erase_unarc t : erase (unarc t) = erase t.
Proof. induction t; cbn; auto. Qed.
Lemma unarc_not_arc t a : unarc t <> RArc a.
Proof. induction t; cbn; try discriminate; auto. Qed.
Lemma rstrip_not_arc S f : forall t a, rstrip_n S f t <> RArc a.
Proof.
  induction f as [|f IH]; intros t a; cbn [rstrip_n]; [apply unarc_not_arc|].
  destruct (unarc t) eqn:E; try discriminate.
  - rewrite <- E. apply unarc_not_arc.
  - destruct (item S n) as [[]|]; try discriminate. apply IH.
Qed.
Lemma sres_rstrip S f : forall t, sresolve_n S f (erase t) = erase (rstrip_n S f t).
Proof.
  induction f as [|f IH]; intros t; cbn [sresolve_n rstrip_n]; [symmetry; apply erase_unarc|].
  rewrite <- (erase_unarc t). destruct (unarc t) eqn:E; try reflexivity.
  - exfalso. exact (unarc_not_arc _ _ E).
  - cbn [erase]. unfold sitem, item. destruct (nth_error (ls_items S) n) as [[]|]; auto.
Qed.

Lemma unarc_c_item t : unarc_c (item_cty t) = item_cty (unarc t).
Proof. induction t; cbn; auto. Qed.

Lemma peela_item S f : forall t, peela S f (item_cty t) = item_cty (rstrip_n S f t).
Proof.
  induction f as [|f IH]; intros t; cbn [peela rstrip_n]; rewrite unarc_c_item; [reflexivity|].
  destruct (unarc t); try reflexivity. cbn [item_cty]. destruct (item S n) as [[]|]; auto.
Qed.

(* a resolved type stays what it is with more fuel *)
Lemma sres_more S f k : forall x, unresolved S (sresolve_n S f x) = false -> sresolve_n S (f + k) x = sresolve_n S f x.
Proof.
  induction f as [|f IH]; intros x H.
  - cbn [sresolve_n plus] in *. apply sres_term. exact H.
  - cbn [plus]. destruct x; try reflexivity. cbn [sresolve_n] in *.
    destruct (sitem S n) as [[]|]; try reflexivity. apply IH. exact H.
Qed.

Lemma rstrip_more S f k : forall t, unresolved S (erase (rstrip_n S f t)) = false -> rstrip_n S (f + k) t = rstrip_n S f t.
Proof.
  induction f as [|f IH]; intros t H.
  - cbn [rstrip_n plus] in *. destruct k; [reflexivity|]. cbn [rstrip_n].
    destruct (unarc t) eqn:E; try reflexivity. cbn [erase unresolved] in H. unfold sitem in H. unfold item.
    destruct (nth_error (ls_items S) n) as [[]|]; try reflexivity; discriminate.
  - cbn [plus rstrip_n] in *. destruct (unarc t); try reflexivity.
    destruct (item S n) as [[]|]; try reflexivity. apply IH. exact H.
Qed.

(* without an Arc at the end of the typedef chain there is none on it *)
Lemma unarc_id t : is_arc_c (item_cty t) = false -> unarc t = t.
Proof. destruct t; cbn; try reflexivity; discriminate. Qed.
Lemma rres_rstrip S f : forall t, is_arc_c (item_cty (rres_n S f t)) = false -> rstrip_n S f t = rres_n S f t.
Proof.
  induction f as [|f IH]; intros t H; cbn [rstrip_n rres_n] in *; [apply unarc_id; exact H|].
  destruct t; try reflexivity; try discriminate.
  cbn [unarc]. destruct (item S n) as [[]|]; try reflexivity. apply IH. exact H.
Qed.

(* the end of the walk is the field type of the resolved rir type *)
Lemma tfin_item S t : arc_ok = true -> unresolved S (sresolve S (erase t)) = false ->
  tfin S (item_cty t) = item_cty (rstrip S t).
Proof.
  intros Harc Hu. unfold tfin, fa_of. rewrite Harc. cbn [andb].
  destruct (is_arc_c (peel S (pfuel S) (item_cty t))) eqn:Ea.
  - rewrite peela_item. f_equal. apply rstrip_more. unfold sresolve in Hu. fold (pfuel S) in Hu.
    rewrite sres_rstrip in Hu. exact Hu.
  - rewrite peel_item in *. f_equal. symmetry. apply rres_rstrip. exact Ea.
Qed.

Lemma item_cty_inj a : forall b, item_cty a = item_cty b -> a = b.
Proof.
  induction a; intros b H; destruct b; cbn in H; try discriminate; try reflexivity;
    try (injection H as H; f_equal; auto; fail).
  all: try (injection H as H; exfalso; first [exact (item_cty_not_u8 _ (eq_sym H)) | exact (item_cty_not_u8 _ H)]).
  all: injection H as H1 H2; f_equal; auto.
Qed.

(* a type found on the walk of a field type is a field type, and the target resolves through it *)
Lemma in_chain_a_sres S f : forall it t b, in_chain_a S f it (item_cty t) = Some b ->
  exists u k, it = item_cty u /\ forall g, sresolve_n S (k + g) (erase t) = sresolve_n S g (erase u).
Proof.
  induction f as [|f IH]; intros it t b H; cbn [in_chain_a] in H.
  - destruct (cty_eqb it (item_cty t)) eqn:E; [|discriminate]. apply cty_eqb_eq in E. exists t, O. split; [exact E|reflexivity].
  - destruct (cty_eqb it (item_cty t)) eqn:E.
    + apply cty_eqb_eq in E. exists t, O. split; [exact E|reflexivity].
    + destruct t; cbn [item_cty] in H; try discriminate.
      * (* Arc *)
        destruct (in_chain_a S f it (item_cty t)) as [b'|] eqn:E2; [|discriminate].
        destruct (IH _ _ _ E2) as (u & k & Hu & Hk). exists u, k. split; [exact Hu|]. intros g. cbn [erase]. apply Hk.
      * (* Path *)
        destruct (item S n) as [[| | |a]|] eqn:En; try discriminate.
        destruct (IH _ _ _ H) as (u & k & Hu & Hk). exists u, (Datatypes.S k). split; [exact Hu|]. intros g.
        cbn [plus erase sresolve_n]. unfold sitem. unfold item in En. rewrite En. apply Hk.
Qed.

Lemma in_chain_to_a S f : forall it ty, in_chain S f it ty = true -> in_chain_a S f it ty = Some false.
Proof.
  induction f as [|f IH]; intros it ty H; cbn [in_chain in_chain_a] in *.
  - destruct (cty_eqb it ty); [reflexivity|]. destruct ty; discriminate.
  - destruct (cty_eqb it ty); [reflexivity|]. cbn [orb] in H.
    destruct ty; try discriminate. destruct (item S n) as [[]|]; try discriminate. apply IH. exact H.
Qed.

Lemma chain_of_sres S it t b : chain_of S it (item_cty t) = Some b ->
  exists u k, it = item_cty u /\ forall g, sresolve_n S (k + g) (erase t) = sresolve_n S g (erase u).
Proof.
  unfold chain_of. destruct (fa_of S (item_cty t)).
  - apply in_chain_a_sres.
  - destruct (in_chain S (pfuel S) it (item_cty t)) eqn:E; [|discriminate]. intros _.
    exact (in_chain_a_sres S _ _ _ _ (in_chain_to_a S _ _ _ E)).
Qed.

(* ... so, once the target resolves, it resolves to what the type on its walk resolves to *)
Lemma chain_resolves S it t b : chain_of S it (item_cty t) = Some b -> unresolved S (sresolve S (erase t)) = false ->
  exists u, it = item_cty u /\ sresolve S (erase u) = sresolve S (erase t).
Proof.
  intros H Hu. destruct (chain_of_sres S it t b H) as (u & k & Ei & Hk). exists u. split; [exact Ei|].
  unfold sresolve in *. rewrite <- Hk. rewrite Nat.add_comm. apply sres_more. exact Hu.
Qed.

Lemma chain_of_refl S ty : chain_of S ty ty <> None.
Proof.
  unfold chain_of. destruct (fa_of S ty).
  - destruct (pfuel S + pfuel S)%nat; cbn [in_chain_a]; rewrite cty_eqb_refl; discriminate.
  - rewrite in_chain_refl. discriminate.
Qed.

Lemma fa_of_str S : fa_of S CStr = false.
Proof. unfold fa_of, pfuel. cbn [peel is_arc_c]. apply Bool.andb_false_r. Qed.
Lemma tfin_str S : tfin S CStr = CStr.
Proof. unfold tfin. rewrite fa_of_str. reflexivity. Qed.
Lemma chain_of_str S it : chain_of S it CStr = if cty_eqb it CStr then Some false else None.
Proof. unfold chain_of. rewrite fa_of_str. unfold pfuel. cbn [in_chain]. rewrite Bool.orb_false_r. reflexivity. Qed.

Lemma ty_eqb_refl a : ty_eqb a a = true.
Proof. induction a; cbn; auto; try (rewrite IHa1, IHa2; reflexivity). apply Nat.eqb_refl. Qed.
Lemma ty_eqb_eq a : forall b, ty_eqb a b = true -> a = b.
Proof.
  induction a; destruct b; cbn; try discriminate; try reflexivity; intros H;
    try (apply Bool.andb_true_iff in H; destruct H as [H1 H2]); f_equal; auto.
  apply Nat.eqb_eq; assumption.
Qed.

(* a const whose CodegenTy is an array / a lazy static has a list / set / map type *)
Definition container_ty (t : ty) : Prop := match t with TyList _ | TySet _ | TyMap _ _ => True | _ => False end.
Lemma container_const S c ct lc it : nth_error (ls_consts S) c = Some (ct, lc) -> ident_ty_of_const S c = Some it ->
  is_container_c it = true -> container_ty (erase ct).
Proof.
  unfold ident_ty_of_const. intros -> H Hc. injection H as <-. destruct ct; cbn in Hc |- *; try discriminate; exact I.
Qed.

Section Main.
  Variable parse_f64 : list byte -> option Z.
  Variable S : lschema.
  Variable cval : nat -> lres gval.
  Variable dflt : rty -> lres gval.
  Variable cinl : nat -> cty -> lres (gval * bool).
  Variable ccls : nat -> cty -> option pclass.
  Variable cv : nat -> option gval.
  Variable empty : ty -> option gval.
  (* the repairs are in the source (discharged by flags_now) *)
  Hypothesis Harc : arc_ok = true.
  Hypothesis Hinl : const_inline_present = true.
  Hypothesis HC : forall c v, const_simple S c = true -> cv c = Some v -> cval c = LOk v.
  Hypothesis HD : forall t d, empty (erase t) = Some d -> dflt t = LOk d.
  (* a const of container type, lowered from its literal at a target that resolves to the const's type *)
  Hypothesis HI : forall c ct lc t v, nth_error (ls_consts S) c = Some (ct, lc) ->
    sresolve S (erase ct) = sresolve S (erase t) -> cv c = Some v -> ccls c (item_cty t) = None ->
    exists fl, cinl c (item_cty t) = LOk (v, fl).

  Notation low := (lower parse_f64 S cval dflt cinl).
  Notation val := (lit_value parse_f64 S cv empty).
  Notation cls := (pclass_into S ccls).

  Definition crel (t : rty) (ty : cty) : Prop := ty = item_cty t \/ (ty = CStr /\ is_string_rty t = true).

  (* [en]: true = entered through lit_as_rvalue, false = through lit_into_ty *)
  Definition good (l : lit) : Prop :=
    forall en t ty v, crel t ty -> val l (erase t) = Some v -> cls en l ty = None -> exists c, low en l ty = LOk (v, c).

  Definition nonpath (l : lit) : bool := match l with LMember _ _ | LConst _ => false | _ => true end.

  (* a literal that is no path has no meaning at a type that does not resolve *)
  Lemma val_resolved l t v : nonpath l = true -> val l t = Some v -> unresolved S (sresolve S t) = false.
  Proof.
    intros Hn Hv. destruct (unresolved S (sresolve S t)) eqn:E; [|reflexivity]. exfalso.
    destruct (sresolve S t) eqn:Er; cbn [unresolved] in E; try discriminate.
    unfold sitem in E.
    destruct l; try discriminate Hn; cbn [lit_value] in Hv; rewrite Er in Hv; cbv beta match in Hv; try discriminate;
      unfold sitem in Hv; destruct (nth_error (ls_items S) n) as [[]|]; discriminate.
  Qed.

  Lemma pre l t v : nonpath l = true -> val l (erase t) = Some v ->
    tfin S (item_cty t) = item_cty (rstrip S t) /\ sresolve S (erase t) = erase (rstrip S t).
  Proof.
    intros Hn Hv. split; [apply (tfin_item S t Harc); exact (val_resolved _ _ _ Hn Hv)|apply sres_rstrip].
  Qed.

  Ltac split_item :=
    try match goal with
        | n : nat |- _ => let E := fresh "Ei" in destruct (nth_error (ls_items S) n) as [[]|] eqn:E
        end.
  Ltac simp_item Hv Hp :=
    cbn in Hv, Hp |- *; unfold sitem, item in *;
    try match goal with E : nth_error (ls_items S) _ = _ |- _ => rewrite E in * end; cbn in Hv, Hp |- *.
  (* the flags "the walk passed an Arc" and "is lit_as_rvalue asked" as opaque booleans, every value *)
  Ltac split_fa en t :=
    let fa := fresh "fa" in let b := fresh "b" in
    set (fa := fa_of S (item_cty t)) in *; clearbody fa;
    destruct fa; [|set (b := en || is_nt S (item_cty t)) in *; clearbody b; destruct b].
  Ltac start l t v Hv :=
    let Et := fresh "Et" in let Es := fresh "Es" in
    destruct (pre l t v eq_refl Hv) as (Et & Es);
    cbn [lower lit_value pclass_into] in *; rewrite Et in *; rewrite Es in Hv; clear Et Es.

  Lemma good_int z : good (LInt z).
  Proof.
    intros en t ty v [->|[-> Hs]] Hv Hp.
    - start (LInt z) t v Hv.
      split_fa en t;
      (destruct (rstrip S t); split_item; simp_item Hv Hp; try discriminate;
        repeat match type of Hv with (if ?b then _ else _) = _ => destruct b eqn:?; try discriminate end;
        try (injection Hv as <-; try (eexists; reflexivity));
        try (rewrite int_to_double_model; eexists; reflexivity)).
    - destruct t; try discriminate; cbn in Hv; discriminate.
  Qed.

  Lemma good_bool b : good (LBool b).
  Proof.
    intros en t ty v [->|[-> Hs]] Hv Hp.
    - start (LBool b) t v Hv.
      split_fa en t;
      (destruct (rstrip S t); split_item; simp_item Hv Hp; try discriminate; injection Hv as <-; eexists; reflexivity).
    - destruct t; try discriminate; cbn in Hv; discriminate.
  Qed.

  Lemma good_float s : good (LFloat s).
  Proof.
    intros en t ty v [->|[-> Hs]] Hv Hp.
    - start (LFloat s) t v Hv.
      destruct (float_exp_plain s && float_sign_plain s) eqn:Ef; [|discriminate].
      rewrite (float_text_ok _ Ef).
      split_fa en t;
      (destruct (rstrip S t); split_item; simp_item Hv Hp; try discriminate;
        destruct (parse_f64 (sign_norm (exp_norm s))); try discriminate; injection Hv as <-; eexists; reflexivity).
    - destruct t; try discriminate; cbn in Hv; discriminate.
  Qed.

  Lemma good_string s : good (LString s).
  Proof.
    intros en t ty v [->|[-> Hs]] Hv Hp.
    - start (LString s) t v Hv.
      split_fa en t;
      (destruct (rstrip S t); split_item; simp_item Hv Hp; try discriminate;
        destruct (idl_unescape s) as [b|] eqn:Eu; try discriminate; injection Hv as <-;
        try (destruct string_at_bytesvec_ok; [|discriminate]);
        rewrite (string_value_ok _ _ Eu); eexists; reflexivity).
    - cbn [lower]. rewrite fa_of_str, tfin_str.
      set (b := en || is_nt S CStr); clearbody b; destruct b;
      (destruct t; try discriminate; cbn in Hv |- *;
        (destruct (idl_unescape s) as [b|] eqn:Eu; [|discriminate]); injection Hv as <-;
        rewrite (string_value_ok _ _ Eu); eexists; reflexivity).
  Qed.

  (* ---------- paths: enum members and const references ---------- *)
  Lemma good_member e m : good (LMember e m).
  Proof.
    intros en t ty v Hrel Hv Hp. cbn [lit_value] in Hv. unfold sitem in Hv.
    destruct (nth_error (ls_items S) e) as [[| ms | |]|] eqn:Ei; try discriminate.
    destruct (nth_error ms m) as [z|] eqn:Em; try discriminate.
    cbn [pclass_into] in Hp. cbn [lower]. unfold item. rewrite Ei, Em.
    destruct (path_ok S (CAdt e) ty) eqn:Hok; [clear Hp|discriminate]. unfold path_ok in Hok.
    assert (Hk : ckind S (CAdt e) = Some CPAdtEnum) by (cbn; unfold item; rewrite Ei; reflexivity).
    rewrite Hk in Hok. cbn [is_str_cty andb orb] in Hok. rewrite Bool.orb_false_r in Hok.
    destruct Hrel as [->|[-> _]]; [|rewrite chain_of_str, tfin_str in Hok; cbn in Hok; discriminate].
    assert (Hu : unresolved S (sresolve S (erase t)) = false).
    { destruct (sresolve S (erase t)) eqn:Er; try reflexivity. destruct (Nat.eqb n e) eqn:En; [|discriminate].
      apply Nat.eqb_eq in En. subst n. cbn. unfold sitem. rewrite Ei. reflexivity. }
    pose proof (tfin_item S t Harc Hu) as Et.
    assert (Es : sresolve S (erase t) = erase (rstrip S t)) by apply sres_rstrip.
    unfold ident_into_ty.
    destruct (chain_of S (CAdt e) (item_cty t)) as [b|] eqn:Ech.
    - destruct (chain_resolves S _ _ _ Ech Hu) as (u & Eu & Hr).
      destruct u; try discriminate. injection Eu as <-. cbn [erase] in Hr.
      assert (He : sresolve S (TyRef e) = TyRef e) by (apply sres_term; cbn; unfold sitem; rewrite Ei; reflexivity).
      rewrite He in Hr. rewrite <- Hr, Nat.eqb_refl in Hv. injection Hv as <-. eexists; reflexivity.
    - cbn [orb] in Hok. rewrite Et in *. rewrite Es in Hv. unfold ident_conv. rewrite Hk.
      destruct (rstrip S t); try discriminate; cbn in Hv;
        match type of Hv with (if ?b then _ else _) = _ => destruct b eqn:Eb; try discriminate end;
        injection Hv as <-; cbn; rewrite wrap_id by (reflexivity || exact Eb); eexists; reflexivity.
  Qed.

  Lemma good_const c : good (LConst c).
  Proof.
    intros en t ty v Hrel Hv Hp. cbn [lit_value] in Hv.
    destruct (nth_error (ls_consts S) c) as [[ct lc]|] eqn:Ec; [|discriminate]. cbn zeta in Hv.
    destruct (unresolved S (sresolve S (erase t))) eqn:Eun; [discriminate|].
    cbn [pclass_into] in Hp. cbn [lower].
    destruct (ident_ty_of_const S c) as [it|] eqn:Eit; [|discriminate].
    rewrite Hinl in *. cbn [andb] in *.
    destruct (is_container_c it && negb (cty_eqb it ty)) eqn:Einl.
    { (* a const of container type at another type: its literal, at the target *)
      apply andb_prop in Einl. destruct Einl as [Hcont _].
      pose proof (container_const S _ _ _ _ Ec Eit Hcont) as Hsh.
      assert (Hrc : sresolve S (erase ct) = erase ct) by (destruct (erase ct); try contradiction; reflexivity).
      rewrite Hrc in Hv.
      destruct (ty_eqb (erase ct) (erase t) || ty_eqb (erase ct) (sresolve S (erase t))) eqn:Eq.
      - assert (Hsame : sresolve S (erase ct) = sresolve S (erase t)).
        { apply Bool.orb_true_iff in Eq. destruct Eq as [Eq|Eq]; apply ty_eqb_eq in Eq.
          - rewrite Eq. reflexivity.
          - rewrite Hrc. exact Eq. }
        destruct Hrel as [->|[-> Hs]]; [exact (HI c ct lc t v Ec Hsame Hv Hp)|].
        exfalso. rewrite Hrc in Hsame. destruct t; try discriminate Hs; cbn in Hsame; rewrite Hsame in Hsh; exact Hsh.
      - exfalso. destruct (erase ct); try contradiction; discriminate. }
    destruct (path_ok S it ty) eqn:Hok; [clear Hp|discriminate]. unfold path_ok in Hok.
    unfold ident_into_ty.
    destruct Hrel as [->|[-> Hs]].
    2:{ (* the definition of a string const that names another string const *)
        rewrite chain_of_str, tfin_str in *.
        destruct (cty_eqb it CStr) eqn:E1.
        - apply cty_eqb_eq in E1. subst it.
          pose proof (ident_str _ _ _ _ Ec Eit) as Hct.
          assert (Hcs : const_simple S c = true) by (unfold const_simple; rewrite Ec, Eit, Hct; apply Bool.orb_true_r).
          assert (He : erase ct = erase t) by (destruct ct; try discriminate; destruct t; try discriminate; reflexivity).
          rewrite He, ty_eqb_refl in Hv. cbn [orb] in Hv. rewrite (HC _ _ Hcs Hv). eexists; reflexivity.
        - exfalso. cbn [orb is_faststr_cty is_string_cty is_int_cty] in Hok. rewrite Bool.andb_false_r in Hok.
          destruct (ckind S it) as [[]|]; discriminate. }
    pose proof (tfin_item S t Harc Eun) as Et.
    assert (Es : sresolve S (erase t) = erase (rstrip S t)) by apply sres_rstrip.
    destruct (chain_of S it (item_cty t)) as [b|] eqn:Ech.
    { (* the const's type occurs on the walk of the target *)
      destruct (chain_resolves S _ _ _ Ech Eun) as (u & Eu & Hr). subst it.
      pose proof (ident_eq_item _ _ _ _ _ Ec Eit) as Hct. subst u.
      assert (Hcs : const_simple S c = true) by (unfold const_simple; rewrite Ec, Eit, cty_eqb_refl; reflexivity).
      rewrite Hr, ty_eqb_refl, Bool.orb_true_r in Hv. rewrite (HC _ _ Hcs Hv). eexists; reflexivity. }
    cbn [orb] in Hok. rewrite Et in *. unfold ident_conv.
    destruct (is_str_cty it && (is_faststr_cty (item_cty (rstrip S t)) || is_string_cty (item_cty (rstrip S t)))) eqn:E3.
    { (* a string const at a FastStr / String field *)
      destruct it; try discriminate. cbn [is_str_cty andb] in E3.
      pose proof (ident_str _ _ _ _ Ec Eit) as Hct.
      assert (Hcs : const_simple S c = true) by (unfold const_simple; rewrite Ec, Eit, Hct; apply Bool.orb_true_r).
      assert (Hrc : sresolve S (erase ct) = TyString) by (destruct ct; try discriminate; reflexivity).
      rewrite Hrc, Es in Hv.
      destruct (rstrip S t); try discriminate; cbn [erase ty_eqb] in Hv; rewrite Bool.orb_true_r in Hv;
        rewrite (HC _ _ Hcs Hv); cbn; eexists; reflexivity. }
    cbn [orb] in Hok.
    (* an enum-typed const at an integer field *)
    destruct (ckind S it) as [ik|] eqn:Eik; [|discriminate]. destruct ik; try discriminate.
    assert (Hct : exists n, ct = RPath n /\ it = CAdt n /\ unresolved S (TyRef n) = false).
    { unfold ident_ty_of_const in Eit. rewrite Ec in Eit. injection Eit as Eit.
      destruct ct; cbn in Eit; subst it; cbn in Eik; try discriminate.
      exists n. split; [reflexivity|]. split; [reflexivity|]. cbn. unfold sitem. unfold item in Eik.
      destruct (nth_error (ls_items S) n) as [[]|]; try discriminate; reflexivity. }
    destruct Hct as (n & -> & -> & Hun).
    assert (Hcs : const_simple S c = true).
    { unfold const_simple. rewrite Ec, Eit. cbn [item_cty]. rewrite cty_eqb_refl. reflexivity. }
    cbn [erase] in Hv. rewrite Es in Hv.
    assert (He : sresolve S (TyRef n) = TyRef n) by (apply sres_term; exact Hun). rewrite He in Hv.
    assert (HA : ty_eqb (TyRef n) (erase t) = false).
    { destruct (ty_eqb (TyRef n) (erase t)) eqn:EA; [|reflexivity]. apply ty_eqb_eq in EA.
      rewrite <- EA in Es. unfold sresolve in Es. rewrite (sres_term _ _ _ Hun) in Es.
      destruct (rstrip S t); discriminate. }
    assert (HB : ty_eqb (TyRef n) (erase (rstrip S t)) = false) by (destruct (rstrip S t); try discriminate; reflexivity).
    rewrite HA, HB in Hv. cbn [orb] in Hv.
    destruct (cv c) as [[]|] eqn:Ecv; try discriminate.
    destruct (sitem S n) as [[]|]; try discriminate.
    rewrite (HC _ _ Hcs Ecv).
    destruct (rstrip S t); try discriminate; cbn [erase int_at] in Hv;
      match type of Hv with (if ?b then _ else _) = _ => destruct b eqn:Eb; try discriminate end;
      injection Hv as <-; cbn; rewrite wrap_id by (reflexivity || exact Eb); eexists; reflexivity.
  Qed.

  Lemma list_ok els : Forall good els -> forall a vs,
    spec_list val (erase a) els = Some vs ->
    first_class (fun x => cls true x (item_cty a)) els = None ->
    exists xs, low_list (low true) (item_cty a) els = LOk xs /\ map fst xs = vs.
  Proof.
    induction 1 as [|x r Hx Hr IH]; intros a vs Hv Hp.
    - injection Hv as <-. exists []. split; reflexivity.
    - cbn [spec_list] in Hv. destruct (val x (erase a)) as [va|] eqn:Ea; [|discriminate].
      fold (spec_list val (erase a)) in Hv. destruct (spec_list val (erase a) r) as [vr|] eqn:Er; [|discriminate].
      injection Hv as <-. cbn [first_class] in Hp.
      destruct (cls true x (item_cty a)) eqn:Ex; [discriminate|].
      fold (first_class (fun x => cls true x (item_cty a))) in Hp.
      destruct (Hx true a (item_cty a) va (or_introl eq_refl) Ea Ex) as (c & Hc).
      destruct (IH a vr Er Hp) as (xs & Hxs & Hm).
      exists ((va, c) :: xs). split; [|cbn; rewrite Hm; reflexivity].
      cbn [low_list]. rewrite Hc. cbn [lbind]. fold (low_list (low true) (item_cty a)). rewrite Hxs. reflexivity.
  Qed.

  Lemma good_list els : Forall good els -> good (LList els).
  Proof.
    intros HF en t ty v [->|[-> Hs]] Hv Hp.
    - start (LList els) t v Hv.
      split_fa en t;
      (destruct (rstrip S t) as [| | | | | | | | | | | | |a|a|a|a a'|a a'|a|n]; split_item; simp_item Hv Hp; try discriminate);
      try (destruct els; [|discriminate]; injection Hv as <-; eexists; reflexivity);
      try (change (match spec_list val (erase a) els with Some vs => Some (GList vs) | None => None end = Some v) in Hv;
           change (first_class (fun x => cls true x (item_cty a)) els = None) in Hp;
           change (exists c, (let+ xs := low_list (low true) (item_cty a) els in LOk (GList (map fst xs), false)) = LOk (v, c));
           destruct (spec_list val (erase a) els) as [vs|] eqn:Ev; [|discriminate]; injection Hv as <-;
           destruct (list_ok els HF a vs Ev Hp) as (xs & -> & <-); eexists; reflexivity);
      try (change (match spec_list val (erase a) els with Some vs => Some (GSet vs) | None => None end = Some v) in Hv;
           change (first_class (fun x => cls true x (item_cty a)) els = None) in Hp;
           change (exists c, (let+ xs := low_list (low true) (item_cty a) els in LOk (GSet (map fst xs), false)) = LOk (v, c));
           destruct (spec_list val (erase a) els) as [vs|] eqn:Ev; [|discriminate]; injection Hv as <-;
           destruct (list_ok els HF a vs Ev Hp) as (xs & -> & <-); eexists; reflexivity).
    - destruct t; try discriminate; cbn in Hv; discriminate.
  Qed.

  Definition good2 (kv : lit * lit) : Prop := good (fst kv) /\ good (snd kv).

  Lemma look_ok m : Forall good2 m -> forall fs f, class_pairs S ccls fs m = None -> In f fs -> forall res,
    spec_look val (lf_name f) (erase (lf_ty f)) m = Some res ->
    match res with
    | Some x => exists c, low_look (low true) (lf_name f) (item_cty (lf_ty f)) m = LOk (Some (x, c))
    | None => low_look (low true) (lf_name f) (item_cty (lf_ty f)) m = LOk None
    end.
  Proof.
    induction 1 as [|[k w] r [Hk Hw] Hr IH]; intros fs f Hp Hin res Hv.
    - injection Hv as <-. reflexivity.
    - cbn [spec_look] in Hv. cbn [low_look]. cbn [class_pairs] in Hp.
      destruct k; try discriminate.
      destruct (class_over S ccls w s fs) eqn:Eo; [discriminate|].
      fold (class_pairs S ccls fs) in Hp. fold (spec_look val (lf_name f) (erase (lf_ty f))) in Hv.
      fold (low_look (low true) (lf_name f) (item_cty (lf_ty f))).
      destruct (bytes_eqb s (lf_name f)) eqn:Eb.
      + destruct (val w (erase (lf_ty f))) as [x|] eqn:Ex; [|discriminate]. injection Hv as <-.
        cbn [snd] in Hw.
        destruct (Hw true (lf_ty f) (item_cty (lf_ty f)) x (or_introl eq_refl) Ex (class_over_in _ _ _ _ _ _ Eo Hin Eb)) as (c & Hc).
        exists c. rewrite Hc. reflexivity.
      + exact (IH fs f Hp Hin res Hv).
  Qed.

  Lemma fields_ok m : Forall good2 m -> forall fs0, class_pairs S ccls fs0 m = None -> forall fs out, incl fs fs0 ->
    spec_fields val empty m fs = Some out -> exists c, low_fields (low true) dflt m fs = LOk (out, c).
  Proof.
    intros Hm fs0 Hp. induction fs as [|f r IH]; intros out Hin Hv.
    - injection Hv as <-. eexists; reflexivity.
    - cbn [spec_fields] in Hv. fold (spec_fields val empty m) in Hv. cbn [low_fields]. fold (low_fields (low true) dflt m).
      destruct (spec_look val (lf_name f) (erase (lf_ty f)) m) as [res|] eqn:El; [|discriminate].
      pose proof (look_ok m Hm fs0 f Hp (Hin f (or_introl eq_refl)) res El) as Hl.
      assert (Hin' : incl r fs0) by (intros x Hx; apply Hin; right; exact Hx).
      destruct res as [x|].
      + destruct Hl as (c & ->). destruct (spec_fields val empty m r) as [rest|] eqn:Er; [|discriminate].
        injection Hv as <-. destruct (IH rest Hin' eq_refl) as (c' & ->). eexists; reflexivity.
      + rewrite Hl. destruct (spec_fields val empty m r) as [rest|] eqn:Er; [|discriminate].
        destruct (IH rest Hin' eq_refl) as (c' & Hc'). cbn [lbind].
        destruct (lf_req f).
        * destruct (empty (erase (lf_ty f))) as [d|] eqn:Ee; [|discriminate]. injection Hv as <-.
          rewrite (HD _ _ Ee). cbn [lbind]. rewrite Hc'. eexists; reflexivity.
        * injection Hv as <-. cbn [lbind]. rewrite Hc'. eexists; reflexivity.
  Qed.

  (* mk_map: keys through lit_into_ty (lit_as_rvalue where repaired), values through lit_as_rvalue *)
  Definition class_kv (kt vt : cty) : list (lit * lit) -> option pclass :=
    fix go (m : list (lit * lit)) : option pclass :=
      match m with
      | [] => None
      | (k, v) :: r =>
          match cls map_key_rvalue k kt with
          | Some c => Some c
          | None => match cls true v vt with Some c => Some c | None => go r end
          end
      end.

  Lemma pairs_ok m : Forall good2 m -> forall kt vt kvs,
    spec_pairs val (erase kt) (erase vt) m = Some kvs ->
    class_kv (item_cty kt) (item_cty vt) m = None ->
    low_pairs (low true) (low map_key_rvalue) (item_cty kt) (item_cty vt) m = LOk kvs.
  Proof.
    induction 1 as [|[k w] r [Hk Hw] Hr IH]; intros kt vt kvs Hv Hp.
    - injection Hv as <-. reflexivity.
    - cbn [spec_pairs] in Hv. fold (spec_pairs val (erase kt) (erase vt)) in Hv.
      destruct (val k (erase kt)) as [a|] eqn:Ea; [|discriminate].
      destruct (val w (erase vt)) as [b|] eqn:Eb; [|discriminate].
      destruct (spec_pairs val (erase kt) (erase vt) r) as [c|] eqn:Er; [|discriminate]. injection Hv as <-.
      cbn [class_kv] in Hp.
      destruct (cls map_key_rvalue k (item_cty kt)) eqn:Ek; [discriminate|].
      destruct (cls true w (item_cty vt)) eqn:Ew; [discriminate|].
      fold (class_kv (item_cty kt) (item_cty vt)) in Hp.
      cbn [fst snd] in Hk, Hw.
      destruct (Hk map_key_rvalue kt _ a (or_introl eq_refl) Ea Ek) as (ca & Ha).
      destruct (Hw true vt _ b (or_introl eq_refl) Eb Ew) as (cb & Hb).
      cbn [low_pairs]. rewrite Ha, Hb. cbn [lbind fst]. fold (low_pairs (low true) (low map_key_rvalue) (item_cty kt) (item_cty vt)).
      rewrite (IH kt vt c Er Hp). reflexivity.
  Qed.

  Lemma good_map m : Forall good2 m -> good (LMap m).
  Proof.
    intros HF en t ty v [->|[-> Hs]] Hv Hp.
    - start (LMap m) t v Hv.
      split_fa en t;
      (destruct (rstrip S t) as [| | | | | | | | | | | | |a|a|a|a a'|a a'|a|n]; split_item; simp_item Hv Hp; try discriminate);
      try (change (match spec_pairs val (erase a) (erase a') m with Some kvs => Some (GMap kvs) | None => None end = Some v) in Hv;
           change (class_kv (item_cty a) (item_cty a') m = None) in Hp;
           change (exists c, (let+ kvs := low_pairs (low true) (low map_key_rvalue) (item_cty a) (item_cty a') m in LOk (GMap kvs, false)) = LOk (v, c));
           destruct (spec_pairs val (erase a) (erase a') m) as [kvs|] eqn:Es; [|discriminate]; injection Hv as <-;
           rewrite (pairs_ok m HF a a' kvs Es Hp); eexists; reflexivity);
      try (repeat match type of Hv with (if ?b then None else _) = _ => destruct b; [discriminate|] end;
           match goal with E : nth_error (ls_items S) _ = Some (IStruct ?fs _ _) |- _ =>
             change (match spec_fields val empty m fs with Some out => Some (GStruct out []) | None => None end = Some v) in Hv;
             change (class_pairs S ccls fs m = None) in Hp;
             first [ change (exists c, (let+ out := low_fields (low true) dflt m fs in LOk (GStruct (fst out) [], snd out)) = LOk (v, c))
                   | change (exists c, (let+ out := low_fields (low true) dflt m fs in LOk (GStruct (fst out) [], false)) = LOk (v, c)) ];
             destruct (spec_fields val empty m fs) as [out|] eqn:Ef; [|discriminate]; injection Hv as <-;
             destruct (fields_ok m HF fs Hp fs out (incl_refl _) Ef) as (c & ->); eexists; reflexivity
           end).
    - destruct t; try discriminate; cbn in Hv; discriminate.
  Qed.

  Theorem lit_good : forall l, good l.
  Proof.
    induction l using lit_ind'.
    - apply good_member. - apply good_const. - apply good_bool. - apply good_string. - apply good_int. - apply good_float.
    - apply good_list; assumption.
    - apply good_map; assumption.
  Qed.
End Main.

(* ---------- the class predicate looks further with more unfolding fuel ---------- *)
Definition ccls_n (S : lschema) (f : nat) : nat -> cty -> option pclass :=
  fun c ty' => match nth_error (ls_consts S) c with
               | Some (_, lc) => pclass_n S f true lc ty'
               | None => Some PCDangling
               end.
Lemma pclass_n_S S f en l ty : pclass_n S (Datatypes.S f) en l ty = pclass_into S (ccls_n S f) en l ty.
Proof. reflexivity. Qed.

Lemma first_mono (f g : lit -> option pclass) els : Forall (fun x => f x = None -> g x = None) els ->
  first_class f els = None -> first_class g els = None.
Proof.
  induction 1 as [|x r Hx Hr IH]; intros H; [reflexivity|]. cbn [first_class] in *.
  destruct (f x) eqn:E; [discriminate|]. rewrite (Hx eq_refl). fold (first_class f) in H. fold (first_class g). exact (IH H).
Qed.

Section Mono.
  Variable S : lschema.
  Variables c1 c2 : nat -> cty -> option pclass.
  Hypothesis Hc : forall c ty, c1 c ty = None -> c2 c ty = None.

  Definition mono (l : lit) : Prop := forall en ty, pclass_into S c1 en l ty = None -> pclass_into S c2 en l ty = None.
  Definition mono2 (kv : lit * lit) : Prop := mono (fst kv) /\ mono (snd kv).

  Lemma over_mono v s fs : mono v -> class_over S c1 v s fs = None -> class_over S c2 v s fs = None.
  Proof.
    intros Hv. induction fs as [|f fr IH]; intros H; [reflexivity|]. cbn [class_over] in *.
    destruct (bytes_eqb s (lf_name f)).
    - destruct (pclass_into S c1 true v (item_cty (lf_ty f))) eqn:E; [discriminate|]. rewrite (Hv _ _ E). exact (IH H).
    - exact (IH H).
  Qed.

  Lemma pairs_mono fs m : Forall mono2 m -> class_pairs S c1 fs m = None -> class_pairs S c2 fs m = None.
  Proof.
    induction 1 as [|[k w] r [Hk Hw] Hr IH]; intros H; [reflexivity|]. cbn [class_pairs] in *.
    destruct k; try exact (IH H).
    destruct (class_over S c1 w s fs) eqn:E; [discriminate|]. cbn [snd] in Hw. rewrite (over_mono _ _ _ Hw E). exact (IH H).
  Qed.

  Lemma kv_mono kt vt m : Forall mono2 m -> class_kv S c1 kt vt m = None -> class_kv S c2 kt vt m = None.
  Proof.
    induction 1 as [|[k w] r [Hk Hw] Hr IH]; intros H; [reflexivity|]. cbn [class_kv] in *. cbn [fst snd] in Hk, Hw.
    destruct (pclass_into S c1 map_key_rvalue k kt) eqn:Ek; [discriminate|]. rewrite (Hk _ _ Ek).
    destruct (pclass_into S c1 true w vt) eqn:Ew; [discriminate|]. rewrite (Hw _ _ Ew). exact (IH H).
  Qed.

  Lemma pclass_mono : forall l, mono l.
  Proof.
    induction l using lit_ind'; intros en ty Hp; try exact Hp.
    - (* const *) cbn [pclass_into] in *. destruct (ident_ty_of_const S _) as [it|]; [|exact Hp].
      destruct (const_inline_present && is_container_c it && negb (cty_eqb it ty)); [apply Hc|]; exact Hp.
    - (* list *) cbn [pclass_into] in *. destruct (tfin S ty); try exact Hp.
      + change (first_class (fun x => pclass_into S c1 true x c) l = None) in Hp.
        change (first_class (fun x => pclass_into S c2 true x c) l = None).
        refine (first_mono _ _ _ _ Hp). eapply Forall_impl; [|exact H]. intros x Hx. apply Hx.
      + change (first_class (fun x => pclass_into S c1 false x c) l = None) in Hp.
        change (first_class (fun x => pclass_into S c2 false x c) l = None).
        refine (first_mono _ _ _ _ Hp). eapply Forall_impl; [|exact H]. intros x Hx. apply Hx.
      + change (first_class (fun x => pclass_into S c1 true x c) l = None) in Hp.
        change (first_class (fun x => pclass_into S c2 true x c) l = None).
        refine (first_mono _ _ _ _ Hp). eapply Forall_impl; [|exact H]. intros x Hx. apply Hx.
      + change (first_class (fun x => pclass_into S c1 true x c) l = None) in Hp.
        change (first_class (fun x => pclass_into S c2 true x c) l = None).
        refine (first_mono _ _ _ _ Hp). eapply Forall_impl; [|exact H]. intros x Hx. apply Hx.
    - (* map *) cbn [pclass_into] in *. destruct (tfin S ty); try exact Hp.
      + destruct (if fa_of S ty then true else en || is_nt S ty); [|exact Hp].
        exact (kv_mono _ _ _ H Hp).
      + destruct (if fa_of S ty then true else en || is_nt S ty); [|exact Hp].
        exact (kv_mono _ _ _ H Hp).
      + destruct (item S n) as [[]|]; try exact Hp. exact (pairs_mono _ _ H Hp).
  Qed.
End Mono.

Lemma pclass_n_down S f : forall en l ty, pclass_n S (Datatypes.S f) en l ty = None -> pclass_n S f en l ty = None.
Proof.
  induction f as [|f IH]; intros en l ty H; [reflexivity|]. rewrite pclass_n_S in *.
  refine (pclass_mono S _ _ _ l en ty H). intros c ty'. unfold ccls_n.
  destruct (nth_error (ls_consts S) c) as [[ct lc]|]; [apply IH|trivial].
Qed.
Lemma pclass_n_le S f g : (f <= g)%nat -> forall en l ty, pclass_n S g en l ty = None -> pclass_n S f en l ty = None.
Proof. induction 1 as [|g Hle IH]; intros en l ty Hp; [exact Hp|]. apply IH. apply pclass_n_down. exact Hp. Qed.

(* the meaning of a literal depends on the target only through what it resolves to *)
Lemma lit_value_sres pf S cv empty l t1 t2 : sresolve S t1 = sresolve S t2 ->
  lit_value pf S cv empty l t1 = lit_value pf S cv empty l t2.
Proof.
  intros H. destruct l; cbn [lit_value]; rewrite H; try reflexivity.
  destruct (nth_error (ls_consts S) c) as [[ct lc]|]; [|reflexivity]. cbn zeta.
  assert (E : forall t, sresolve S t = sresolve S t2 ->
              ty_eqb (erase ct) t || ty_eqb (sresolve S (erase ct)) (sresolve S t2) = ty_eqb (sresolve S (erase ct)) (sresolve S t2)).
  { intros t Ht. destruct (ty_eqb (erase ct) t) eqn:E; [|reflexivity]. apply ty_eqb_eq in E.
    rewrite E, Ht, ty_eqb_refl. reflexivity. }
  rewrite (E t1 H), (E t2 eq_refl). reflexivity.
Qed.

(* the struct clause of ev's QDefault, named *)
Definition ev_fields (top : lit -> cty -> lres (gval * bool)) (dflt : rty -> lres gval) : list lfield -> lres (list (Z * gval)) :=
  fix fields (fs : list lfield) : lres (list (Z * gval)) :=
    match fs with
    | [] => LOk []
    | fd :: r =>
        let+ here :=
          match lf_dflt fd with
          | Some l => let+ x := top l (item_cty (lf_ty fd)) in LOk (Some (fst x))
          | None =>
              match lf_req fd with
              | Optional => LOk None
              | Required => let+ x := dflt (lf_ty fd) in LOk (Some x)
              end
          end in
        let+ rest := fields r in
        LOk (match here with Some x => (lf_id fd, x) :: rest | None => rest end)
    end.


Section Fuel.
  Variable parse_f64 : list byte -> option Z.
  Variable S : lschema.
  Hypothesis Hcf : class_free_schema S = true.

  Let Harc : arc_ok = true := proj1 flags_now.
  Let Hinl : const_inline_present = true := proj1 (proj2 flags_now).

  Lemma field_class_free n fs k a f l : nth_error (ls_items S) n = Some (IStruct fs k a) -> In f fs -> lf_dflt f = Some l ->
    pclass_top S l (item_cty (lf_ty f)) = None.
  Proof.
    intros Hn Hin Hd. unfold class_free_schema in Hcf. apply Bool.andb_true_iff in Hcf. destruct Hcf as [H1 _].
    rewrite forallb_forall in H1. specialize (H1 _ (nth_error_In _ _ Hn)). cbn [item_class_free] in H1.
    rewrite forallb_forall in H1. specialize (H1 _ Hin). rewrite Hd in H1.
    destruct (pclass_top S l (item_cty (lf_ty f))); [discriminate|reflexivity].
  Qed.

  Lemma const_class_free_at c ct lc it : nth_error (ls_consts S) c = Some (ct, lc) -> ident_ty_of_const S c = Some it ->
    const_simple S c = true -> pclass_n S (cfuel S) (should_lazy_static S it) lc it = None.
  Proof.
    intros Hc Hi Hs. unfold class_free_schema in Hcf. apply Bool.andb_true_iff in Hcf. destruct Hcf as [_ H2].
    rewrite forallb_forall in H2.
    assert (Hlt : (c < length (ls_consts S))%nat) by (apply nth_error_Some; congruence).
    specialize (H2 c ltac:(apply in_seq; lia)). unfold const_class_free in H2. rewrite Hs, Hc, Hi in H2.
    destruct (pclass_n S (cfuel S) (should_lazy_static S it) lc it); [discriminate|reflexivity].
  Qed.

  Definition PC (f : nat) : Prop := forall c v, const_simple S c = true ->
    sv parse_f64 S f (SConst c) = Some v -> ev parse_f64 S f (QConst c) = LOk v.
  Definition PD (f : nat) : Prop := forall t d,
    sv parse_f64 S f (SEmpty (erase t)) = Some d -> ev parse_f64 S f (QDefault t) = LOk d.
  Definition PI (f : nat) : Prop := forall c ct lc t v, nth_error (ls_consts S) c = Some (ct, lc) ->
    sresolve S (erase ct) = sresolve S (erase t) -> sv parse_f64 S f (SConst c) = Some v ->
    ccls_n S f c (item_cty t) = None -> exists fl, evi parse_f64 S f c (item_cty t) = LOk (v, fl).

  (* the top of a default at unfolding level f: lit_as_rvalue *)
  Lemma top_good f (HC : PC f) (HD : PD f) (HI : PI f) l t v :
    lit_value parse_f64 S (fun c => sv parse_f64 S f (SConst c)) (fun t => sv parse_f64 S f (SEmpty t)) l (erase t) = Some v ->
    pclass_n S (Datatypes.S f) true l (item_cty t) = None ->
    exists c, lit_as_rvalue parse_f64 S (fun c => ev parse_f64 S f (QConst c)) (fun t => ev parse_f64 S f (QDefault t))
                            (evi parse_f64 S f) l (item_cty t) = LOk (v, c).
  Proof.
    intros Hv Hp. rewrite pclass_n_S in Hp.
    exact (lit_good parse_f64 S _ _ _ (ccls_n S f) _ _ Harc Hinl HC HD HI l true t _ v (or_introl eq_refl) Hv Hp).
  Qed.

  Lemma fields_default f (Hle : (f <= efuel S)%nat) (HC : PC f) (HD : PD f) (HI : PI f) n fs0 k a :
    nth_error (ls_items S) n = Some (IStruct fs0 k a) ->
    forall fs out, incl fs fs0 ->
    sempty_fields (lit_value parse_f64 S (fun c => sv parse_f64 S f (SConst c)) (fun t => sv parse_f64 S f (SEmpty t)))
                  (fun t => sv parse_f64 S f (SEmpty t)) fs = Some out ->
    ev_fields (lit_as_rvalue parse_f64 S (fun c => ev parse_f64 S f (QConst c)) (fun t => ev parse_f64 S f (QDefault t)) (evi parse_f64 S f))
              (fun t => ev parse_f64 S f (QDefault t)) fs = LOk out.
  Proof.
    intros Hn. induction fs as [|fd r IH]; intros out Hin Hv.
    - injection Hv as <-. reflexivity.
    - cbn [sempty_fields] in Hv. cbn [ev_fields].
      assert (Hin' : incl r fs0) by (intros x Hx; apply Hin; right; exact Hx).
      destruct (lf_dflt fd) as [l|] eqn:Ed.
      + destruct (lit_value _ _ _ _ l (erase (lf_ty fd))) as [x|] eqn:Ex; [|discriminate].
        assert (Hp : pclass_n S (Datatypes.S f) true l (item_cty (lf_ty fd)) = None).
        { refine (pclass_n_le S _ (cfuel S) _ _ _ _ (field_class_free _ _ _ _ _ _ Hn (Hin fd (or_introl eq_refl)) Ed)).
          unfold cfuel. lia. }
        destruct (top_good f HC HD HI l (lf_ty fd) x Ex Hp) as (c & ->).
        cbn [lbind fst].
        match type of Hv with match ?g r with _ => _ end = _ => destruct (g r) as [rest|] eqn:Er; [|discriminate] end.
        injection Hv as <-. rewrite (IH rest Hin' eq_refl). reflexivity.
      + destruct (lf_req fd).
        * destruct (sv parse_f64 S f (SEmpty (erase (lf_ty fd)))) as [x|] eqn:Ex; [|discriminate].
          rewrite (HD _ _ Ex). cbn [lbind].
          match type of Hv with match ?g r with _ => _ end = _ => destruct (g r) as [rest|] eqn:Er; [|discriminate] end.
          injection Hv as <-. rewrite (IH rest Hin' eq_refl). reflexivity.
        * cbn [lbind].
          match type of Hv with match ?g r with _ => _ end = _ => destruct (g r) as [rest|] eqn:Er; [|discriminate] end.
          injection Hv as <-. rewrite (IH rest Hin' eq_refl). reflexivity.
  Qed.

  Lemma ev_const_S f c : ev parse_f64 S (Datatypes.S f) (QConst c) =
    match nth_error (ls_consts S) c, ident_ty_of_const S c with
    | Some (_, l), Some ty =>
        def_lit parse_f64 S (fun c => ev parse_f64 S f (QConst c)) (fun t => ev parse_f64 S f (QDefault t)) (evi parse_f64 S f) l ty
    | _, _ => LPanic PUnwrap
    end.
  Proof. reflexivity. Qed.
  Lemma evi_S f c ty : evi parse_f64 S (Datatypes.S f) c ty =
    match nth_error (ls_consts S) c with
    | Some (_, l) => lit_as_rvalue parse_f64 S (fun c => ev parse_f64 S f (QConst c)) (fun t => ev parse_f64 S f (QDefault t)) (evi parse_f64 S f) l ty
    | None => LPanic PUnwrap
    end.
  Proof. reflexivity. Qed.

  Lemma ev_sv f : (f <= efuel S)%nat -> PC f /\ PD f /\ PI f.
  Proof.
    induction f as [|f IH]; intros Hle.
    { split; [|split]; intros; discriminate. }
    destruct (IH ltac:(lia)) as (HC & HD & HI).
    split; [|split].
    - intros c v Hs Hv. cbn [sv] in Hv. rewrite ev_const_S.
      destruct (nth_error (ls_consts S) c) as [[ct lc]|] eqn:Ec; [|discriminate].
      destruct (ident_ty_of_const S c) as [it|] eqn:Ei; [|unfold const_simple in Hs; rewrite Ec, Ei in Hs; discriminate].
      assert (Hp : pclass_into S (ccls_n S f) (should_lazy_static S it) lc it = None).
      { rewrite <- pclass_n_S. refine (pclass_n_le S _ (cfuel S) _ _ _ _ (const_class_free_at _ _ _ _ Ec Ei Hs)). unfold cfuel. lia. }
      unfold const_simple in Hs. rewrite Ec, Ei in Hs. unfold def_lit, lit_as_rvalue, lit_into_ty.
      assert (Hrel : crel ct it).
      { destruct (cty_eqb it (item_cty ct)) eqn:Eq.
        - left. apply cty_eqb_eq. exact Eq.
        - right. cbn [orb] in Hs. split; [|exact Hs].
          unfold ident_ty_of_const in Ei. rewrite Ec in Ei. injection Ei as <-. destruct ct; try discriminate; reflexivity. }
      destruct (lit_good parse_f64 S _ _ _ (ccls_n S f) _ _ Harc Hinl HC HD HI lc (should_lazy_static S it) ct it v Hrel Hv Hp) as (cc & Hl).
      destruct (should_lazy_static S it); rewrite Hl; reflexivity.
    - intros t d Hv. cbn [sv] in Hv. cbn [ev]. unfold sempty_step in Hv.
      unfold sresolve in Hv. rewrite sres_rstrip in Hv. fold (pfuel S) in Hv. fold (rstrip S t) in Hv.
      pose proof (rstrip_not_arc S (pfuel S) t) as Hna. fold (rstrip S t) in Hna.
      destruct (rstrip S t) eqn:Er; cbn [erase] in Hv; try (injection Hv as <-; reflexivity).
      + exfalso. exact (Hna _ eq_refl).
      + unfold sitem in Hv. unfold item.
        destruct (nth_error (ls_items S) n) as [[fs k a|ms|vs vo k|a]|] eqn:En; try discriminate.
        * match type of Hv with match ?g with _ => _ end = _ => destruct g as [out|] eqn:Ef; [|discriminate] end.
          injection Hv as <-.
          change (lbind (ev_fields (lit_as_rvalue parse_f64 S (fun c => ev parse_f64 S f (QConst c)) (fun t => ev parse_f64 S f (QDefault t)) (evi parse_f64 S f))
                                   (fun t => ev parse_f64 S f (QDefault t)) fs) (fun out => LOk (GStruct out [])) = LOk (GStruct out [])).
          rewrite (fields_default f ltac:(lia) HC HD HI n fs k a En fs out (incl_refl _) Ef). reflexivity.
        * injection Hv as <-. reflexivity.
        * destruct vs as [|[id vt] vr]; [discriminate|].
          destruct (sv parse_f64 S f (SEmpty (erase vt))) as [x|] eqn:Ex; [|discriminate]. injection Hv as <-.
          rewrite (HD _ _ Ex). reflexivity.
    - intros c ct lc t v Ec Hr Hv Hp. cbn [sv] in Hv. rewrite Ec in Hv. rewrite evi_S, Ec.
      unfold ccls_n in Hp. rewrite Ec in Hp. rewrite pclass_n_S in Hp.
      rewrite (lit_value_sres _ _ _ _ lc _ _ Hr) in Hv.
      exact (lit_good parse_f64 S _ _ _ (ccls_n S f) _ _ Harc Hinl HC HD HI lc true t _ v (or_introl eq_refl) Hv Hp).
  Qed.
End Fuel.
