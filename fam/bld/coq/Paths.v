(* Paths.v -- executable model of the relative paths pilota-build emits between modules (C14).

   Modelled code: pilota-build/src/middle/resolver.rs
     DefaultPathResolver::related_path (lines 72-106), WorkspacePathResolver::related_path (142-148)
   and its callers Context::related_item_path / cur_related_item_path (context.rs 901-918):
     p1 = item_path(current item) without its last segment   (the module the text is written into)
     p2 = item_path(target)                                   (module path ++ [item] or ++ [enum; variant])
   Both are lists of *unescaped* Symbols; the comparison p1[i] == p2[i] is on the unescaped names, the
   segments are written through Symbol's Display.  A module is emitted as `pub mod <display name>`.  No proofs here. *)
From Coq Require Import String List Bool Arith.
From PVBld Require Import Names.
Import ListNotations.
Open Scope string_scope.
Open Scope list_scope.

Fixpoint list_eqb (a b : list string) : bool :=
  match a, b with
  | [], [] => true
  | x :: a', y :: b' => (x =? y) && list_eqb a' b'
  | _, _ => false
  end.

(* while i < p1.len() && i < p2.len() && p1[i] == p2[i] { i += 1 } *)
Fixpoint common_prefix_len (a b : list string) : nat :=
  match a, b with
  | x :: a', y :: b' => if x =? y then S (common_prefix_len a' b') else 0
  | _, _ => 0
  end.

Fixpoint last_opt (l : list string) : option string :=
  match l with [] => None | [x] => Some x | _ :: r => last_opt r end.

(* let mut i = <length of the common prefix>;
   if i == p2.len() && i > 0 { i -= 1; }          -- repair of finding F-14d
   (0..p1.len() - i) x `super`, then p2[i..] through Display.
   Before the repair: `if p1 == p2 { return p2.last().unwrap().clone().0 }` (raw last segment, which names a child of the
   current module, not the target) and no adjustment of i (a path made of `super`s only when p2 is a proper prefix of p1:
   it names a module).  The function no longer panics; the option is kept for the callers' sake. *)
Definition related_path (p1 p2 : list string) : option (list string) :=
  let i0 := common_prefix_len p1 p2 in
  let i := if (i0 =? length p2)%nat && (0 <? i0)%nat then i0 - 1 else i0 in
  Some (repeat "super" (length p1 - i) ++ map display (skipn i p2)).

(* WorkspacePathResolver: same crate (first segment) -> as above; otherwise an absolute path.
   None = panic (index 0 of an empty slice) *)
Inductive wpath := WRel (segs : list string) | WAbs (segs : list string).
Definition wrelated_path (p1 p2 : list string) : option wpath :=
  match p1, p2 with
  | c1 :: _, c2 :: _ =>
      if c2 =? c1 then option_map WRel (related_path p1 p2) else Some (WAbs (map display p2))
  | _, _ => None
  end.

(* ---- what the text means to rustc ---------------------------------------------------------
   A relative path written inside module [cur] (emitted names, from the root of the generated file):
   leading `super`s walk up, the remaining segments walk down; the LAST segment names an item inside
   the module reached by the others.  A path made of `super`s only names a module, not an item;
   `super` above the root or after an identifier is an error.  Result: (module, item). *)
Fixpoint strip_supers (cur : list string) (rel : list string) : option (list string * list string) :=
  match rel with
  | s :: r =>
      if s =? "super" then
        match cur with
        | [] => None
        | _ => strip_supers (removelast cur) r
        end
      else Some (cur, rel)
  | [] => Some (cur, [])
  end.

Definition resolve_item (cur rel : list string) : option (list string * string) :=
  match strip_supers cur rel with
  | Some (m, rest) =>
      if existsb (fun s => s =? "super") rest then None
      else match last_opt rest with
           | Some it => Some (m ++ removelast rest, it)
           | None => None
           end
  | None => None
  end.

(* p is a prefix of q *)
Fixpoint is_prefix (p q : list string) : bool :=
  match p, q with
  | [], _ => true
  | x :: p', y :: q' => (x =? y) && is_prefix p' q'
  | _ :: _, [] => false
  end.
