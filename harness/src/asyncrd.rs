//! Asynchronous decoding through a scripted AsyncRead and a minimal single-threaded executor
//! (deterministic: no runtime threads).
use std::future::Future;
use std::pin::Pin;
use std::task::{Context, Poll, RawWaker, RawWakerVTable, Waker};

use pilota::thrift::{TAsyncInputProtocol, TType, ThriftException, ProtocolExceptionKind};
use tokio::io::{AsyncRead, ReadBuf};

use crate::val::TVal;

/// hands out `data` in chunks that end at the given cut positions; optionally returns Pending
/// (after waking the waker) before every hand-out
pub struct Scripted {
    pub data: Vec<u8>,
    pub pos: usize,
    pub cuts: Vec<usize>,
    pub pend_every: usize,
    calls: usize,
    pub handed_out: usize,
}

impl Scripted {
    pub fn new(data: Vec<u8>, cuts: Vec<usize>, pend_every: usize) -> Self {
        Scripted { data, pos: 0, cuts, pend_every, calls: 0, handed_out: 0 }
    }
}

impl AsyncRead for Scripted {
    fn poll_read(mut self: Pin<&mut Self>, cx: &mut Context<'_>, buf: &mut ReadBuf<'_>) -> Poll<std::io::Result<()>> {
        self.calls += 1;
        if self.pend_every > 0 && self.calls % (self.pend_every + 1) != 0 {
            cx.waker().wake_by_ref();
            return Poll::Pending;
        }
        if self.pos >= self.data.len() {
            return Poll::Ready(Ok(())); // EOF
        }
        let next_cut = self.cuts.iter().copied().find(|c| *c > self.pos).unwrap_or(self.data.len());
        let n = std::cmp::min(buf.remaining(), next_cut - self.pos);
        let (a, b) = (self.pos, self.pos + n);
        buf.put_slice(&self.data[a..b]);
        self.pos = b;
        self.handed_out += n;
        Poll::Ready(Ok(()))
    }
}

fn noop_waker() -> Waker {
    fn clone(_: *const ()) -> RawWaker {
        RawWaker::new(std::ptr::null(), &VTABLE)
    }
    fn noop(_: *const ()) {}
    static VTABLE: RawWakerVTable = RawWakerVTable::new(clone, noop, noop, noop);
    unsafe { Waker::from_raw(RawWaker::new(std::ptr::null(), &VTABLE)) }
}

/// polls to completion; every Pending was preceded by a wake, so re-polling at once is legitimate.
/// Returns None if the future does not complete within the poll budget (a hang).
pub fn block_on<F: Future>(fut: F, budget: usize) -> Option<F::Output> {
    let waker = noop_waker();
    let mut cx = Context::from_waker(&waker);
    let mut fut = Box::pin(fut);
    for _ in 0..budget {
        if let Poll::Ready(v) = fut.as_mut().poll(&mut cx) {
            return Some(v);
        }
    }
    None
}

fn refuse(msg: &str) -> ThriftException {
    pilota::thrift::new_protocol_exception(ProtocolExceptionKind::InvalidData, msg.to_string())
}

#[derive(Clone, Copy, PartialEq, Debug)]
pub enum ABinApi {
    Bytes,
    BytesVec,
    Str,
    FastStr,
}

pub fn aread_val<'a, P: TAsyncInputProtocol>(
    p: &'a mut P,
    ty: u8,
    api: ABinApi,
) -> Pin<Box<dyn Future<Output = Result<TVal, ThriftException>> + 'a>> {
    Box::pin(async move {
        Ok(match ty {
            2 => TVal::Bool(p.read_bool().await?),
            3 => TVal::I8(p.read_i8().await?),
            6 => TVal::I16(p.read_i16().await?),
            8 => TVal::I32(p.read_i32().await?),
            10 => TVal::I64(p.read_i64().await?),
            4 => TVal::Double(p.read_double().await?.to_bits()),
            11 => TVal::Binary(match api {
                ABinApi::Bytes => p.read_bytes().await?.to_vec(),
                ABinApi::BytesVec => p.read_bytes_vec().await?,
                ABinApi::Str => p.read_string().await?.into_bytes(),
                ABinApi::FastStr => p.read_faststr().await?.as_bytes().to_vec(),
            }),
            16 => TVal::Uuid(p.read_uuid().await?),
            12 => {
                p.read_struct_begin().await?;
                let mut fs = Vec::new();
                loop {
                    let f = p.read_field_begin().await?;
                    if f.field_type == TType::Stop {
                        break;
                    }
                    let x = aread_val(p, f.field_type as u8, api).await?;
                    p.read_field_end().await?;
                    fs.push((f.id.unwrap_or(0), x));
                }
                p.read_struct_end().await?;
                TVal::Struct(fs)
            }
            15 => {
                let h = p.read_list_begin().await?;
                let mut l = Vec::new();
                for _ in 0..h.size {
                    l.push(aread_val(p, h.element_type as u8, api).await?);
                }
                p.read_list_end().await?;
                TVal::List(h.element_type as u8, l)
            }
            14 => {
                let h = p.read_set_begin().await?;
                let mut l = Vec::new();
                for _ in 0..h.size {
                    l.push(aread_val(p, h.element_type as u8, api).await?);
                }
                p.read_set_end().await?;
                TVal::Set(h.element_type as u8, l)
            }
            13 => {
                let h = p.read_map_begin().await?;
                let mut l = Vec::new();
                for _ in 0..h.size {
                    let k = aread_val(p, h.key_type as u8, api).await?;
                    let x = aread_val(p, h.value_type as u8, api).await?;
                    l.push((k, x));
                }
                p.read_map_end().await?;
                TVal::Map(h.key_type as u8, h.value_type as u8, l)
            }
            _ => return Err(refuse("interpreter: type cannot be read")),
        })
    })
}
