#!/bin/sh
# MANIFEST.setup_cmd: build the framework from files on disk only (offline).
set -e
cd "$(dirname "$0")"
export CARGO_NET_OFFLINE=true
REPO="${PV_REPO:-/repo}"
mkdir -p .cache out evidence
python3 tools/extract.py --repo "$REPO" --family main
( cd coq && coq_makefile -f _CoqProject -o Makefile >/dev/null && timeout 3000 make -j"$(nproc)" )
sh model_runner/build.sh
cp "$REPO/Cargo.lock" harness/Cargo.lock
( cd harness && CARGO_TARGET_DIR=../.cache/target cargo build --offline --quiet 2>/dev/null || CARGO_TARGET_DIR=../.cache/target cargo build --offline )
# families (self-contained sub-projects, see fam/README.md)
for f in fam/*/; do
  [ -d "$f" ] || continue
  name=$(basename "$f")
  # a family that does not build must not take the others down: its own checks rebuild and report
  if [ -f "tools/extract_$name.py" ]; then python3 tools/extract.py --repo "$REPO" --family "$name" || echo "WARN: translator of family $name failed"; fi
  if [ -f "$f/coq/_CoqProject" ]; then ( cd "$f/coq" && coq_makefile -f _CoqProject -o Makefile >/dev/null 2>&1 && timeout 3000 make -j"$(nproc)" ) || echo "WARN: coq build of family $name failed"; fi
  if [ -f "$f/runner/build.sh" ]; then sh "$f/runner/build.sh" || echo "WARN: runner build of family $name failed"; fi
  if [ -f "$f/harness/Cargo.toml" ] && [ ! -f "$f/harness/.built-by-check" ]; then
    cp "$REPO/Cargo.lock" "$f/harness/Cargo.lock"
    ( cd "$f/harness" && CARGO_TARGET_DIR="$(pwd)/../../../.cache/target_$name" cargo build --offline --quiet 2>/dev/null || CARGO_TARGET_DIR="$(pwd)/../../../.cache/target_$name" cargo build --offline ) || echo "WARN: harness build of family $name failed"
  fi
done
echo "setup ok"
