(* C12 at the generated-code level: the emitted decode_async (GenAsync.gen_decode_async) against the emitted
   in-memory decoder (Gen.gen_decode).
     - whenever the in-memory decoder returns a value, the asynchronous decoder returns the same value from the
       same byte string and stops at the same position with the same field-id context (it has pulled exactly
       the bytes the in-memory decoder consumed): simulation up to the pending-bool-field flag, which only the
       TLengthProtocol calls of the sync templates touch (erase, Proofs/TotalGenP.v);
     - composed with C02: what the emitted encoder writes is decoded asynchronously to the value (defaults
       filled in), pulling exactly the message;
     - the result depends on the stream only through the concatenation of its chunks; tokio's read_exact loop
       over a chunked stream (GenAsync.pull) is `take` on the concatenation. *)
From PV Require Import Thrift.Skip Proofs.VarintP Proofs.TablesP Proofs.PrimP Proofs.HeaderP Proofs.RoundtripP Proofs.TotalP Proofs.AsyncP Proofs.SkipP Proofs.PrefixP.
From PVGen Require Import Gen GenSpec GenAsync Proofs.GenBase Proofs.EncP Proofs.RoundP Proofs.OwnP Proofs.TotalGenP.
From Coq Require Import ZifyN ZifyNat ZifyBool.
Open Scope Z_scope.

Definition small (s : rst) : Prop := Z.of_nat (blen s) < 2 ^ 63.     (* buffers fit in isize: a Rust guarantee *)

(* [a] simulates [r] up to the flag: from the erased start state it returns the same value and the erased end state *)
Definition ASIM {A} (r a : rm A) : Prop :=
  forall s x s', small s -> r s = Ok (x, s') -> a (erase s) = Ok (x, erase s') /\ (blen s' <= blen s)%nat.

Lemma inv_erase s : small s -> inv (erase s).
Proof. intros H. split; [reflexivity|exact H]. Qed.

Lemma ASIM_prim {A} (r a : rm A) : ERA r -> (forall s, inv s -> sim s (r s) (a s)) -> ASIM r a.
Proof.
  intros He Hs s x s' Hsm H. apply He in H. specialize (Hs (erase s) (inv_erase s Hsm)).
  rewrite H in Hs. cbn [sim] in Hs. destruct Hs as (-> & _ & Hl). split; [reflexivity|exact Hl].
Qed.

Lemma ASIM_bind {A B} (r a : rm A) (f g : A -> rm B) :
  ASIM r a -> (forall x, ASIM (f x) (g x)) ->
  ASIM (fun s => let* (x, s1) := r s in f x s1) (fun s => let* (x, s1) := a s in g x s1).
Proof.
  intros Hr Hf s y s' Hsm H. binv H. destruct (Hr _ _ _ Hsm E) as [Ea Hl]. rewrite Ea. cbn [bind].
  assert (Hsm0 : small s0) by (unfold small in *; lia).
  destruct (Hf x _ _ _ Hsm0 H) as [Eb Hl2]. split; [exact Eb|lia].
Qed.

Lemma ASIM_ret {A} (x : A) : ASIM (fun s => Ok (x, s)) (fun s => Ok (x, s)).
Proof. intros s y s' _ H. injection H as <- <-. split; [reflexivity|lia]. Qed.

Lemma ASIM_map {A B} (r a : rm A) (g : A -> B) :
  ASIM r a -> ASIM (fun s => let* (x, s1) := r s in Ok (g x, s1)) (fun s => let* (x, s1) := a s in Ok (g x, s1)).
Proof. intros H. apply (ASIM_bind r a (fun x s1 => Ok (g x, s1)) (fun x s1 => Ok (g x, s1)) H). intros x. apply ASIM_ret. Qed.

Lemma ASIM_bool p : ASIM (r_bool p) (a_bool p).
Proof. apply ASIM_prim; [apply ERA_bool|apply bool_sim]. Qed.
Lemma ASIM_i8 : ASIM r_i8 a_i8.
Proof. apply ASIM_prim; [apply ERA_i8|apply i8_sim]. Qed.
Lemma ASIM_i16 p : ASIM (r_i16 p) (a_i16 p).
Proof. apply ASIM_prim; [apply ERA_i16|apply i16_sim]. Qed.
Lemma ASIM_i32 p : ASIM (r_i32 p) (a_i32 p).
Proof. apply ASIM_prim; [apply ERA_i32|apply i32_sim]. Qed.
Lemma ASIM_i64 p : ASIM (r_i64 p) (a_i64 p).
Proof. apply ASIM_prim; [apply ERA_i64|apply i64_sim]. Qed.
Lemma ASIM_double p : ASIM (r_double p) (a_double p).
Proof. apply ASIM_prim; [apply ERA_double|apply double_sim]. Qed.
Lemma ASIM_bytes p : ASIM (r_bytes p) (a_bytes p).
Proof. apply ASIM_prim; [apply ERA_bytes|apply bytes_sim]. Qed.
Lemma ASIM_uuid : ASIM r_uuid a_uuid.
Proof. apply ASIM_prim; [apply ERA_uuid|apply uuid_sim]. Qed.
Lemma ASIM_struct_begin p : ASIM (r_struct_begin p) (a_struct_begin p).
Proof. apply ASIM_prim; [apply ERA_struct_begin|apply struct_begin_sim]. Qed.
Lemma ASIM_struct_end p : ASIM (r_struct_end p) (a_struct_end p).
Proof. apply ASIM_prim; [apply ERA_struct_end|apply struct_end_sim]. Qed.
Lemma ASIM_field_begin p : ASIM (r_field_begin p) (a_field_begin p).
Proof. apply ASIM_prim; [apply ERA_field_begin|apply field_begin_sim]. Qed.
Lemma ASIM_coll_begin p : ASIM (r_coll_begin p) (a_coll_begin p).
Proof. apply ASIM_prim; [apply ERA_coll_begin|apply coll_begin_sim]. Qed.
Lemma ASIM_map_begin p : ASIM (r_map_begin p) (a_map_begin p).
Proof. apply ASIM_prim; [apply ERA_map_begin|apply map_begin_sim]. Qed.

(* the skipper of the sync templates (read and discard, depth test) against TAsyncInputProtocol::skip *)
Lemma skip_depth_eq : skip_depth = maximum_skip_depth_nat.
Proof. reflexivity. Qed.

Lemma ASIM_skip p fk ft :
  ASIM (fun s => let* (_, s1) := skip p fk ft s in Ok (tt, s1)) (askip p fk ft).
Proof.
  intros s u s' Hsm H. unfold skip in H.
  destruct (read_val p fk ft s) as [[v s1]| |] eqn:E; cbn [bind] in H; try discriminate.
  destruct (Nat.leb (vdepth v) maximum_skip_depth_nat) eqn:Ed; cbn [bind] in H; [|discriminate].
  injection H as <- <-. apply Nat.leb_le in Ed.
  pose proof (ERA_read_val p fk ft _ _ _ E) as E1.
  pose proof (aread_val_sim p fk ft (erase s) (inv_erase s Hsm)) as Sm. rewrite E1 in Sm. cbn [sim] in Sm.
  destruct Sm as (Ea & _ & Hl).
  destruct (askip_sim p fk ft (erase s) v (erase s1) Ea skip_depth) as [Hok _].
  unfold askip. rewrite Hok by (rewrite skip_depth_eq; exact Ed). split; [reflexivity|exact Hl].
Qed.

(* the TLengthProtocol calls change nothing but the flag *)
Lemma fbl_erase p ft id s n s' : r_field_begin_len p ft id s = Ok (n, s') -> erase s' = erase s.
Proof.
  unfold r_field_begin_len. destruct p; try (intros H; injection H as _ <-; reflexivity).
  destruct ft; try (destruct (ctype_of_ttype _); [destruct id|]; intros H; try discriminate; injection H as _ <-; reflexivity).
  destruct (r_pfield (rc s)); [discriminate|]. intros H. injection H as _ <-. reflexivity.
Qed.
Lemma assert_same p n s k s' : r_assert_no_pending p n s = Ok (k, s') -> s' = s.
Proof.
  unfold r_assert_no_pending. destruct p; try (intros H; injection H as _ <-; reflexivity).
  destruct (r_pfield (rc s)); [discriminate|]. intros H. injection H as _ <-. reflexivity.
Qed.

Section LoopsSim.
  Variable S : schema.
  Variable p : pk.
  Variable fk : nat.
  Variables rec arec : ty -> rm gval.
  Hypothesis Hrec : forall t, ASIM (rec t) (arec t).

  Lemma ASIM_elems : forall m et n acc,
    ASIM (fun s => dec_elems rec m et n s acc) (fun s => dec_elems arec m et n s acc).
  Proof using Hrec.
    induction m as [|m IH]; intros et n acc s x s' Hsm H; cbn [dec_elems] in *.
    - destruct (n <=? 0); [injection H as <- <-; split; [reflexivity|lia]|discriminate].
    - destruct (n <=? 0); [injection H as <- <-; split; [reflexivity|lia]|].
      apply (ASIM_bind (rec et) (arec et) (fun x s1 => dec_elems rec m et (n - 1) s1 (x :: acc))
               (fun x s1 => dec_elems arec m et (n - 1) s1 (x :: acc)) (Hrec et) (fun x => IH et (n - 1) (x :: acc)) s x s' Hsm H).
  Qed.

  Lemma ASIM_pairs : forall m kt vt n acc,
    ASIM (fun s => dec_pairs rec m kt vt n s acc) (fun s => dec_pairs arec m kt vt n s acc).
  Proof using Hrec.
    induction m as [|m IH]; intros kt vt n acc s x s' Hsm H; cbn [dec_pairs] in *.
    - destruct (n <=? 0); [injection H as <- <-; split; [reflexivity|lia]|discriminate].
    - destruct (n <=? 0); [injection H as <- <-; split; [reflexivity|lia]|].
      apply (ASIM_bind (rec kt) (arec kt)
               (fun a s1 => let* (b, s2) := rec vt s1 in dec_pairs rec m kt vt (n - 1) s2 ((a, b) :: acc))
               (fun a s1 => let* (b, s2) := arec vt s1 in dec_pairs arec m kt vt (n - 1) s2 ((a, b) :: acc)) (Hrec kt)) with (s := s); auto.
      intros a. apply (ASIM_bind (rec vt) (arec vt) (fun b s2 => dec_pairs rec m kt vt (n - 1) s2 ((a, b) :: acc))
               (fun b s2 => dec_pairs arec m kt vt (n - 1) s2 ((a, b) :: acc)) (Hrec vt)).
      intros b. apply IH.
  Qed.

  Lemma ASIM_fields : forall m fs vars,
    ASIM (fun s => dec_fields S p fk rec m fs vars s) (fun s => adec_fields S p fk arec m fs vars s).
  Proof using Hrec.
    induction m as [|m IH]; intros fs vars s x s' Hsm H; [discriminate|].
    cbn [dec_fields adec_fields] in *. binv H.
    destruct (ASIM_field_begin p _ _ _ Hsm E) as [Ea Hl]. rewrite Ea. cbn [bind].
    assert (Hsm0 : small s0) by (unfold small in *; lia).
    destruct (ttype_eqb (fst x0) TStop).
    { binv H. injection H as <- <-. apply assert_same in E0. subst s1. split; [reflexivity|exact Hl]. }
    binv H. pose proof (fbl_erase _ _ _ _ _ _ E0) as Ee.
    assert (Hb1 : blen s1 = blen s0) by (rewrite <- (erase_blen s1), Ee; reflexivity).
    assert (Hsm1 : small s1) by (unfold small in *; lia).
    binv H. rename x2 into vars2.
    assert (Hstep : (match match_field S fs 0 (snd x0) (fst x0) with
                     | Some (i, f) => let* (x, s) := arec (f_ty f) (erase s1) in Ok (set_nth i (Some x) vars, s)
                     | None => let* (_, s) := askip p fk (fst x0) (erase s1) in Ok (vars, s)
                     end) = Ok (vars2, erase s2) /\ (blen s2 <= blen s1)%nat).
    { destruct (match_field S fs 0 (snd x0) (fst x0)) as [[i f]|].
      - binv E1. injection E1 as <- <-. destruct (Hrec _ _ _ _ Hsm1 E2) as [Eb Hl2]. rewrite Eb. split; [reflexivity|exact Hl2].
      - binv E1. injection E1 as <- <-.
        destruct (ASIM_skip p fk (fst x0) s1 tt s3 Hsm1) as [Eb Hl2]; [rewrite E2; reflexivity|].
        rewrite Eb. split; [reflexivity|exact Hl2]. }
    destruct Hstep as [Est Hl2]. rewrite <- Ee, Est. cbn [bind].
    binv H. apply assert_same in E2. subst s3.
    assert (Hsm2 : small s2) by (unfold small in *; lia).
    destruct (IH fs vars2 s2 x s' Hsm2 H) as [Ef Hl3]. split; [exact Ef|lia].
  Qed.

  Lemma ASIM_variants : forall m vs ret,
    ASIM (fun s => dec_variants S p fk rec m vs ret s) (fun s => adec_variants S p fk arec m vs ret s).
  Proof using Hrec.
    induction m as [|m IH]; intros vs ret s x s' Hsm H; [discriminate|].
    cbn [dec_variants adec_variants] in *. binv H.
    destruct (ASIM_field_begin p _ _ _ Hsm E) as [Ea Hl]. rewrite Ea. cbn [bind].
    assert (Hsm0 : small s0) by (unfold small in *; lia).
    destruct (ttype_eqb (fst x0) TStop).
    { binv H. injection H as <- <-. apply assert_same in E0. subst s1. split; [reflexivity|exact Hl]. }
    binv H. pose proof (fbl_erase _ _ _ _ _ _ E0) as Ee.
    assert (Hb1 : blen s1 = blen s0) by (rewrite <- (erase_blen s1), Ee; reflexivity).
    assert (Hsm1 : small s1) by (unfold small in *; lia).
    rewrite <- Ee.
    match type of H with (match ?k with Some _ => _ | None => _ end) = _ => destruct k as [[id vt]|] end.
    - destruct ret; [discriminate|]. binv H.
      destruct (Hrec _ _ _ _ Hsm1 E1) as [Eb Hl2]. rewrite Eb. cbn [bind].
      assert (Hsm2 : small s2) by (unfold small in *; lia).
      destruct (IH vs (Some (id, x2)) s2 x s' Hsm2 H) as [Ef Hl3]. split; [exact Ef|lia].
    - binv H.
      destruct (ASIM_skip p fk (fst x0) s1 tt s2 Hsm1) as [Eb Hl2]; [rewrite E1; reflexivity|].
      rewrite Eb. cbn [bind].
      assert (Hsm2 : small s2) by (unfold small in *; lia).
      destruct (IH vs ret s2 x s' Hsm2 H) as [Ef Hl3]. split; [exact Ef|lia].
  Qed.
End LoopsSim.

Theorem gen_async_sim S p : forall f t, ASIM (gen_decode S p f t) (gen_decode_async S p f t).
Proof.
  induction f as [|f IH]; intros t s x s' Hsm H; [discriminate|].
  rewrite gen_decode_S in H. rewrite gen_decode_async_S.
  destruct (resolve S t) as [| | | | | | | | | |et|et|kt vt|n].
  - exact (ASIM_map _ _ GBool (ASIM_bool p) s x s' Hsm H).
  - exact (ASIM_map _ _ GI8 ASIM_i8 s x s' Hsm H).
  - exact (ASIM_map _ _ GI16 (ASIM_i16 p) s x s' Hsm H).
  - exact (ASIM_map _ _ GI32 (ASIM_i32 p) s x s' Hsm H).
  - exact (ASIM_map _ _ GI64 (ASIM_i64 p) s x s' Hsm H).
  - exact (ASIM_map _ _ GDouble (ASIM_double p) s x s' Hsm H).
  - exact (ASIM_map _ _ GBytes (ASIM_bytes p) s x s' Hsm H).
  - exact (ASIM_map _ _ GBytes (ASIM_bytes p) s x s' Hsm H).
  - exact (ASIM_map _ _ GUuid ASIM_uuid s x s' Hsm H).
  - exact (ASIM_bind _ _ _ _ (ASIM_struct_begin p)
             (fun _ => ASIM_map _ _ (fun _ => GVoid) (ASIM_struct_end p)) s x s' Hsm H).
  - exact (ASIM_bind _ _ _ _ (ASIM_coll_begin p)
             (fun h => ASIM_map _ _ GList (ASIM_elems _ _ IH (Datatypes.S f) et (snd h) [])) s x s' Hsm H).
  - exact (ASIM_bind _ _ _ _ (ASIM_coll_begin p)
             (fun h => ASIM_map _ _ GSet (ASIM_elems _ _ IH (Datatypes.S f) et (snd h) [])) s x s' Hsm H).
  - exact (ASIM_bind _ _ _ _ (ASIM_map_begin p)
             (fun h => ASIM_map _ _ GMap (ASIM_pairs _ _ IH (Datatypes.S f) kt vt (snd h) [])) s x s' Hsm H).
  - destruct (lookup S n) as [[fs kp ia|vs vo kp|ms|tt]|]; try discriminate.
    + revert H. apply (ASIM_bind _ _ _ _ (ASIM_struct_begin p)); [|exact Hsm]. intros u.
      apply (ASIM_bind _ _ _ _ (ASIM_fields S p f _ _ IH (Datatypes.S f) fs (map init_var fs))). intros vars.
      apply (ASIM_bind _ _ _ _ (ASIM_struct_end p)). intros u2 s0 y s0' _ H0.
      destruct (finish_fields fs vars) as [out| |]; cbn [bind] in *; try discriminate.
      injection H0 as <- <-. split; [reflexivity|lia].
    + revert H. apply (ASIM_bind _ _ _ _ (ASIM_struct_begin p)); [|exact Hsm]. intros u.
      apply (ASIM_bind _ _ _ _ (ASIM_variants S p f _ _ IH (Datatypes.S f) vs None)). intros ret.
      apply (ASIM_bind _ _ _ _ (ASIM_struct_end p)). intros u2 s0 y s0' _ H0.
      destruct ret as [[id z]|]; [injection H0 as <- <-; split; [reflexivity|lia]|].
      destruct vo; [|discriminate]. destruct vs as [|[id0 t0] r]; [discriminate|].
      injection H0 as <- <-. split; [reflexivity|lia].
    + exact (ASIM_map _ _ GEnum (ASIM_i32 p) s x s' Hsm H).
Qed.

(* C12_gen_value: sync Ok (v, rest state) => async Ok v, stopping at the same position: same unread bytes, same
   field-id context (the end states differ at most in the pending-bool-field flag, which the async readers
   do not have) *)
Theorem gen_async_value S p f t l rcx v s' :
  r_pfield rcx = false -> Z.of_nat (length l) < 2 ^ 63 ->
  gen_decode S p f t (mkS l rcx) = Ok (v, s') ->
  gen_decode_async S p f t (mkS l rcx) = Ok (v, erase s').
Proof.
  intros Hp Hl H. destruct (gen_async_sim S p f t (mkS l rcx) v s' Hl H) as [E _].
  rewrite erase_id in E by exact Hp. exact E.
Qed.

Corollary gen_async_value_top S p t l v rest :
  Z.of_nat (length l) < 2 ^ 63 ->
  gen_decode_top S p t l = Ok (v, rest) -> gen_decode_async_top S p t l = Ok (v, rest).
Proof.
  intros Hl H. unfold gen_decode_top in H. unfold gen_decode_async_top.
  destruct (gen_decode S p (length l + 80) t (mkS l r0)) as [[v0 s0]| |] eqn:E; cbn [bind] in H; try discriminate.
  injection H as <- <-. rewrite (gen_async_value S p _ t l r0 v0 s0 eq_refl Hl E). reflexivity.
Qed.

(* bytes pulled from the stream = bytes the in-memory decoder consumed *)
Corollary gen_async_pulled S p f t l rcx v s' a' :
  r_pfield rcx = false -> Z.of_nat (length l) < 2 ^ 63 ->
  gen_decode S p f t (mkS l rcx) = Ok (v, s') ->
  gen_decode_async S p f t (mkS l rcx) = Ok (v, a') -> rbuf a' = rbuf s'.
Proof. intros Hp Hl H Ha. rewrite (gen_async_value S p f t l rcx v s' Hp Hl H) in Ha. injection Ha as <-. reflexivity. Qed.

(* composed with C02: what the emitted encoder wrote is decoded asynchronously to the value with defaults filled in,
   pulling exactly the message and nothing of what follows on the stream *)
Theorem gen_async_roundtrip S p k t v :
  wf_schema S = true -> has_type S t v = true ->
  forall c, w_pend c = None ->
  exists ss, enc_ty S p k t v c = Ok (ss, c) /\
    forall fuel r rcx, (vsize (to_tval S t v) <= fuel)%nat -> idle rcx -> Z.of_nat (length (flat ss ++ r)) < 2 ^ 63 ->
      gen_decode_async S p fuel t (mkS (flat ss ++ r) rcx) = Ok (fill_defaults S t v, mkS r rcx).
Proof.
  intros Hwf Ht c Hp. destruct (gen_roundtrip S p k t v Hwf Ht c Hp) as (ss & Hw & Hr).
  exists ss. split; [exact Hw|]. intros fuel r rcx Hf Hi Hl.
  rewrite (gen_async_value S p fuel t _ rcx _ _ (proj2 Hi) Hl (Hr fuel r rcx Hf Hi)).
  rewrite erase_id by (exact (proj2 Hi)). reflexivity.
Qed.

(* ---------- delivery schedules ---------- *)
(* read_exact's loop over a chunked stream hands out exactly what `take` hands out on the concatenation *)
Lemma pull_concat : forall cs n,
  match pull n cs with
  | Some (a, cs') => take n (concat cs) = Some (a, concat cs')
  | None => take n (concat cs) = None
  end.
Proof.
  induction cs as [|c r IH]; intros n; cbn [pull concat].
  - destruct n; reflexivity.
  - destruct n as [|n]; [reflexivity|].
    destruct (Nat.leb (Datatypes.S n) (length c)) eqn:E.
    + apply Nat.leb_le in E. unfold take. rewrite app_length.
      replace (Nat.leb (Datatypes.S n) (length c + length (concat r))) with true by (symmetry; apply Nat.leb_le; lia).
      rewrite firstn_app, skipn_app.
      replace (Datatypes.S n - length c)%nat with 0%nat by lia. cbn [firstn skipn]. rewrite app_nil_r. reflexivity.
    + apply Nat.leb_gt in E. specialize (IH (Datatypes.S n - length c)%nat).
      unfold take in *. rewrite app_length.
      destruct (pull (Datatypes.S n - length c) r) as [[a r']|].
      * destruct (Nat.leb (Datatypes.S n - length c) (length (concat r))) eqn:E2; [|discriminate].
        apply Nat.leb_le in E2.
        replace (Nat.leb (Datatypes.S n) (length c + length (concat r))) with true by (symmetry; apply Nat.leb_le; lia).
        injection IH as <- <-. rewrite firstn_app, skipn_app.
        rewrite firstn_all2 by lia. rewrite skipn_all2 by lia. reflexivity.
      * destruct (Nat.leb (Datatypes.S n - length c) (length (concat r))) eqn:E2; [discriminate|].
        apply Nat.leb_gt in E2.
        replace (Nat.leb (Datatypes.S n) (length c + length (concat r))) with false by (symmetry; apply Nat.leb_gt; lia).
        reflexivity.
Qed.

(* C12_gen_schedule_free: any two delivery schedules of the same bytes give the same result *)
Theorem gen_async_schedule_free S p fuel t cs1 cs2 :
  concat cs1 = concat cs2 -> gen_decode_async_stream S p fuel t cs1 = gen_decode_async_stream S p fuel t cs2.
Proof. unfold gen_decode_async_stream. intros ->. reflexivity. Qed.

(* byte-at-a-time delivery is one of them *)
Lemma concat_singletons (l : list byte) : concat (map (fun b => [b]) l) = l.
Proof. induction l as [|b r IH]; cbn [map concat app]; [reflexivity|]. rewrite IH. reflexivity. Qed.

Corollary gen_async_bytewise S p fuel t l :
  gen_decode_async_stream S p fuel t (map (fun b => [b]) l) = gen_decode_async_stream S p fuel t [l].
Proof. apply gen_async_schedule_free. rewrite concat_singletons. cbn [concat]. rewrite app_nil_r. reflexivity. Qed.

(* non-vacuity: the struct of TotalGenP.ex_schema, compact, delivered in three chunks with an empty one *)
Example ex_async :
  gen_decode_async_stream ex_schema PCompact 20 (TyRef 0) [[x15; x0e; x19]; []; [x18; x01; x61; x11; x00]]%byte
  = Ok (ex_value, mkS [] r0).
Proof. vm_compute. reflexivity. Qed.

(* ================= strict prefixes: the asynchronous decoder sees EOF ================= *)
(* The asynchronous readers are monotone in the bytes the stream delivers: a read that succeeds on a stream that
   ends after [l] succeeds with the same value when more bytes follow, and leaves them unpulled. *)
Lemma AEXT_take n : EXT (a_take n).
Proof.
  intros s a s' t H. unfold a_take in *. cbn [ext rbuf].
  destruct (take n (rbuf s)) as [[a' r]|] eqn:E; [|discriminate]. injection H as <- <-.
  apply take_some in E as [E1 E2]. rewrite E1, <- app_assoc, take_app by exact E2. reflexivity.
Qed.
Lemma AEXT_varint m : EXT (a_varint m).
Proof.
  intros s n s' t H. unfold a_varint, read_var_u64 in *. cbn [ext rbuf].
  destruct (rd_var m 0 0 (rbuf s)) as [[n' r]| |] eqn:E; try discriminate.
  injection H as <- <-. rewrite (rd_var_ext _ _ _ _ _ _ t E). reflexivity.
Qed.
Lemma AEXT_byte : EXT a_byte.
Proof. apply (EXT_map _ of_le), AEXT_take. Qed.
Lemma AEXT_i8 : EXT a_i8.
Proof. apply (EXT_map _ (fun a => wrap_s 8 (of_le a))), AEXT_take. Qed.
Lemma AEXT_fixed p n b : EXT (a_fixed p n b).
Proof. apply (EXT_map _ (fun a => wrap_s b (unfx p a))), AEXT_take. Qed.
Lemma AEXT_i16 p : EXT (a_i16 p).
Proof. destruct p; cbn [a_i16]; try apply AEXT_fixed. apply (EXT_map _ (fun n => wrap_s 16 (unzigzag n))), AEXT_varint. Qed.
Lemma AEXT_i32 p : EXT (a_i32 p).
Proof. destruct p; cbn [a_i32]; try apply AEXT_fixed. apply (EXT_map _ (fun n => wrap_s 32 (unzigzag n))), AEXT_varint. Qed.
Lemma AEXT_i64 p : EXT (a_i64 p).
Proof. destruct p; cbn [a_i64]; try apply AEXT_fixed. apply (EXT_map _ (fun n => wrap_s 64 (unzigzag n))), AEXT_varint. Qed.
Lemma AEXT_double p : EXT (a_double p).
Proof. apply (EXT_map _ (fun a => match p with PBinary => of_be a | _ => of_le a end)), AEXT_take. Qed.
Lemma AEXT_uuid : EXT a_uuid.
Proof. apply AEXT_take. Qed.

Lemma AEXT_split (n : Z) : EXT (fun s => if n <=? Z.of_nat (length (rbuf s)) then a_take (Z.to_nat n) s else Err ETransport).
Proof.
  intros s a s' t H. cbn [ext rbuf]. rewrite app_length.
  destruct (n <=? Z.of_nat (length (rbuf s))) eqn:E; [|discriminate].
  replace (n <=? Z.of_nat (length (rbuf s) + length t)) with true by lia.
  apply AEXT_take, H.
Qed.
Lemma AEXT_bytes p : EXT (a_bytes p).
Proof.
  destruct p; cbn [a_bytes].
  1,2: match goal with |- EXT (fun s => let* (n, s0) := ?m s in @?f n s0) => apply (EXT_bind m f) end;
       [first [apply (AEXT_i32 PBinary)|apply (AEXT_i32 PBinaryLE)]|];
       intros n; destruct (n <? 0); [apply EXT_fail|apply AEXT_split].
  apply (EXT_bind (a_varint maxsize_32) (fun n s => if wrap_u 32 n <=? Z.of_nat (length (rbuf s)) then a_take (Z.to_nat (wrap_u 32 n)) s else Err ETransport)).
  - apply AEXT_varint.
  - intros n. apply AEXT_split.
Qed.
Lemma AEXT_ttype : EXT a_ttype.
Proof.
  unfold a_ttype. apply EXT_bind; [apply AEXT_byte|]. intros b. destruct (ttype_of_byte b); [apply EXT_ret|apply EXT_fail].
Qed.
Lemma AEXT_bool p : EXT (a_bool p).
Proof.
  destruct p; cbn [a_bool].
  1,2: apply (EXT_map _ (fun b => negb (b =? 0))), AEXT_i8.
  intros s b s' t H. cbn [ext rc] in *.
  destruct (r_pbool (rc s)); [injection H as <- <-; reflexivity|].
  binv H. rewrite (AEXT_byte _ _ _ t E). cbn [bind].
  destruct (ctype_of_code x) as [[]|]; try discriminate; injection H as <- <-; reflexivity.
Qed.
Lemma AEXT_struct_begin p : EXT (a_struct_begin p).
Proof. apply EXT_struct_begin. Qed.
Lemma AEXT_struct_end p : EXT (a_struct_end p).
Proof. apply EXT_struct_end. Qed.

Lemma AEXT_field_begin p : EXT (a_field_begin p).
Proof.
  destruct p; cbn [a_field_begin].
  1,2: apply EXT_bind; [apply AEXT_ttype|]; intros ty; destruct ty; try apply EXT_ret;
       apply (EXT_map _ (fun id => (_, Some id))); first [apply (AEXT_i16 PBinary) | apply (AEXT_i16 PBinaryLE)].
  intros s h s' t H.
  binv H. rewrite (AEXT_byte _ _ _ t E). cbn [bind].
  set (lo := x mod 16) in *. set (delta := x / 16) in *.
  assert (Hty : forall ty s1,
             (if lo =? ctype_code CBooleanTrue
              then Ok (TBool, set_rc s0 {| r_last := r_last (rc s0); r_stack := r_stack (rc s0); r_pbool := Some true; r_pfield := r_pfield (rc s0) |})
              else if lo =? ctype_code CBooleanFalse
              then Ok (TBool, set_rc s0 {| r_last := r_last (rc s0); r_stack := r_stack (rc s0); r_pbool := Some false; r_pfield := r_pfield (rc s0) |})
              else match ctype_of_code lo with
                   | Some ct => match ttype_of_ctype ct with Some t0 => Ok (t0, s0) | None => Err EInvalidData end
                   | None => Err EInvalidData
                   end) = Ok (ty, s1) ->
             (if lo =? ctype_code CBooleanTrue
              then Ok (TBool, set_rc (ext s0 t) {| r_last := r_last (rc (ext s0 t)); r_stack := r_stack (rc (ext s0 t)); r_pbool := Some true; r_pfield := r_pfield (rc (ext s0 t)) |})
              else if lo =? ctype_code CBooleanFalse
              then Ok (TBool, set_rc (ext s0 t) {| r_last := r_last (rc (ext s0 t)); r_stack := r_stack (rc (ext s0 t)); r_pbool := Some false; r_pfield := r_pfield (rc (ext s0 t)) |})
              else match ctype_of_code lo with
                   | Some ct => match ttype_of_ctype ct with Some t0 => Ok (t0, ext s0 t) | None => Err EInvalidData end
                   | None => Err EInvalidData
                   end) = Ok (ty, ext s1 t)).
  { intros ty s1 Hq.
    destruct (lo =? ctype_code CBooleanTrue); [injection Hq as <- <-; reflexivity|].
    destruct (lo =? ctype_code CBooleanFalse); [injection Hq as <- <-; reflexivity|].
    destruct (ctype_of_code lo) as [ct|]; [|discriminate].
    destruct (ttype_of_ctype ct); [|discriminate]. injection Hq as <- <-. reflexivity. }
  binv H. rewrite (Hty _ _ E0). cbn [bind].
  destruct x0; try (injection H as <- <-; reflexivity);
    (destruct (negb (delta =? 0));
     [injection H as <- <-; reflexivity
     |binv H; rewrite (AEXT_i16 PCompact _ _ _ t E1); cbn [bind]; injection H as <- <-; reflexivity]).
Qed.

Lemma AEXT_coll_begin p : EXT (a_coll_begin p).
Proof.
  intros s h s' t H. destruct p; cbn [a_coll_begin] in *.
  1,2: binv H; rewrite (AEXT_ttype _ _ _ t E); cbn [bind]; binv H;
       first [rewrite (AEXT_i32 PBinary _ _ _ t E0) | rewrite (AEXT_i32 PBinaryLE _ _ _ t E0)]; cbn [bind];
       injection H as <- <-; reflexivity.
  binv H. rewrite (AEXT_byte _ _ _ t E). cbn [bind].
  destruct (ttype_of_nibble (x mod 16)) as [et| |]; cbn [bind] in *; try discriminate.
  destruct (negb (x / 16 =? 15)); [injection H as <- <-; reflexivity|].
  binv H. rewrite (AEXT_varint _ _ _ _ t E0). cbn [bind]. injection H as <- <-. reflexivity.
Qed.
Lemma AEXT_map_begin p : EXT (a_map_begin p).
Proof.
  intros s h s' t H. destruct p; cbn [a_map_begin] in *.
  1,2: binv H; rewrite (AEXT_ttype _ _ _ t E); cbn [bind]; binv H; rewrite (AEXT_ttype _ _ _ t E0); cbn [bind]; binv H;
       first [rewrite (AEXT_i32 PBinary _ _ _ t E1) | rewrite (AEXT_i32 PBinaryLE _ _ _ t E1)]; cbn [bind];
       injection H as <- <-; reflexivity.
  binv H. rewrite (AEXT_varint _ _ _ _ t E). cbn [bind].
  destruct (wrap_s 32 x =? 0); [injection H as <- <-; reflexivity|].
  binv H. rewrite (AEXT_byte _ _ _ t E0). cbn [bind].
  destruct (ttype_of_nibble (x0 / 16)) as [kt| |]; cbn [bind] in *; try discriminate.
  destruct (ttype_of_nibble (x0 mod 16)) as [vt| |]; cbn [bind] in *; try discriminate.
  injection H as <- <-. reflexivity.
Qed.

(* none of the asynchronous primitives has a panic outcome *)
Lemma ANP_take n : NP (a_take n).
Proof. intros s st. unfold a_take. destruct (take n (rbuf s)) as [[a r]|]; discriminate. Qed.
Lemma ANP_varint m : NP (a_varint m).
Proof.
  intros s st. unfold a_varint, read_var_u64. pose proof (rd_var_good m 0 0 (rbuf s)) as G.
  destruct (rd_var m 0 0 (rbuf s)) as [[n r]| |]; try discriminate. destruct G.
Qed.
Lemma ANP_byte : NP a_byte.
Proof. apply (NP_map _ of_le), ANP_take. Qed.
Lemma ANP_i8 : NP a_i8.
Proof. apply (NP_map _ (fun a => wrap_s 8 (of_le a))), ANP_take. Qed.
Lemma ANP_fixed p n b : NP (a_fixed p n b).
Proof. apply (NP_map _ (fun a => wrap_s b (unfx p a))), ANP_take. Qed.
Lemma ANP_i16 p : NP (a_i16 p).
Proof. destruct p; cbn [a_i16]; try apply ANP_fixed. apply (NP_map _ (fun n => wrap_s 16 (unzigzag n))), ANP_varint. Qed.
Lemma ANP_i32 p : NP (a_i32 p).
Proof. destruct p; cbn [a_i32]; try apply ANP_fixed. apply (NP_map _ (fun n => wrap_s 32 (unzigzag n))), ANP_varint. Qed.
Lemma ANP_i64 p : NP (a_i64 p).
Proof. destruct p; cbn [a_i64]; try apply ANP_fixed. apply (NP_map _ (fun n => wrap_s 64 (unzigzag n))), ANP_varint. Qed.
Lemma ANP_double p : NP (a_double p).
Proof. apply (NP_map _ (fun a => match p with PBinary => of_be a | _ => of_le a end)), ANP_take. Qed.
Lemma ANP_uuid : NP a_uuid.
Proof. apply ANP_take. Qed.
Lemma ANP_split (n : Z) : NP (fun s => if n <=? Z.of_nat (length (rbuf s)) then a_take (Z.to_nat n) s else Err ETransport).
Proof. intros s st. destruct (n <=? Z.of_nat (length (rbuf s))); [apply ANP_take|discriminate]. Qed.
Lemma ANP_bytes p : NP (a_bytes p).
Proof.
  destruct p; cbn [a_bytes].
  1,2: match goal with |- NP (fun s => let* (n, s0) := ?m s in @?f n s0) => apply (NP_bind m f) end;
       [first [apply (ANP_i32 PBinary)|apply (ANP_i32 PBinaryLE)]|];
       intros n; destruct (n <? 0); [intros s st; discriminate|apply ANP_split].
  apply (NP_bind (a_varint maxsize_32) (fun n s => if wrap_u 32 n <=? Z.of_nat (length (rbuf s)) then a_take (Z.to_nat (wrap_u 32 n)) s else Err ETransport)).
  - apply ANP_varint.
  - intros n. apply ANP_split.
Qed.
Lemma ANP_ttype : NP a_ttype.
Proof.
  unfold a_ttype. apply NP_bind; [apply ANP_byte|]. intros b s st. destruct (ttype_of_byte b); discriminate.
Qed.
Lemma ANP_bool p : NP (a_bool p).
Proof.
  destruct p; cbn [a_bool].
  1,2: apply (NP_map _ (fun b => negb (b =? 0))), ANP_i8.
  intros s st. destruct (r_pbool (rc s)); [discriminate|].
  pose proof (ANP_byte s) as H. destruct (a_byte s) as [[z s1]| |]; cbn [bind]; [|discriminate|exfalso; eapply H; reflexivity].
  destruct (ctype_of_code z) as [[]|]; discriminate.
Qed.
Lemma ANP_struct_begin p : NP (a_struct_begin p).
Proof. intros s. eapply good_np, r_struct_begin_good. Qed.
Lemma ANP_struct_end p : NP (a_struct_end p).
Proof. intros s. eapply good_np, r_struct_end_good. Qed.
Lemma ANP_field_begin p : NP (a_field_begin p).
Proof.
  destruct p; cbn [a_field_begin].
  1,2: apply NP_bind; [apply ANP_ttype|]; intros ty; destruct ty; try (intros s st; discriminate);
       apply (NP_map _ (fun id => (_, Some id))); first [apply (ANP_i16 PBinary) | apply (ANP_i16 PBinaryLE)].
  intros s st. pose proof (ANP_byte s) as H0.
  destruct (a_byte s) as [[b s1]| |]; cbn [bind]; [|discriminate|exfalso; eapply H0; reflexivity].
  match goal with |- bind ?X _ <> _ => assert (HX : forall st', X <> Panic st') end.
  { intros st'. destruct (b mod 16 =? ctype_code CBooleanTrue); [discriminate|].
    destruct (b mod 16 =? ctype_code CBooleanFalse); [discriminate|].
    destruct (ctype_of_code (b mod 16)) as [ct|]; [|discriminate]. destruct (ttype_of_ctype ct); discriminate. }
  match goal with |- bind ?X _ <> _ => destruct X as [[ty s2]| |] end; cbn [bind]; [|discriminate|exfalso; eapply HX; reflexivity].
  destruct ty; try discriminate;
    (destruct (negb (b / 16 =? 0)); [discriminate|];
     pose proof (ANP_i16 PCompact s2) as H2;
     destruct (a_i16 PCompact s2) as [[i s3]| |]; cbn [bind]; [discriminate|discriminate|exfalso; eapply H2; reflexivity]).
Qed.
Lemma ANP_coll_begin p : NP (a_coll_begin p).
Proof.
  destruct p; cbn [a_coll_begin].
  1,2: apply NP_bind; [apply ANP_ttype|]; intros et;
       apply (NP_map _ (fun n => (et, wrap_u 64 n))); first [apply (ANP_i32 PBinary)|apply (ANP_i32 PBinaryLE)].
  apply NP_bind; [apply ANP_byte|]. intros h s st.
  pose proof (ttype_of_nibble_nopanic (h mod 16)) as Hn.
  destruct (ttype_of_nibble (h mod 16)) as [et| |]; cbn [bind]; [|discriminate|exfalso; eapply Hn; reflexivity].
  destruct (negb (h / 16 =? 15)); [discriminate|].
  pose proof (ANP_varint maxsize_32 s) as H1.
  destruct (a_varint maxsize_32 s) as [[n s1]| |]; cbn [bind]; [discriminate|discriminate|exfalso; eapply H1; reflexivity].
Qed.
Lemma ANP_map_begin p : NP (a_map_begin p).
Proof.
  destruct p; cbn [a_map_begin].
  1,2: apply NP_bind; [apply ANP_ttype|]; intros kt; apply NP_bind; [apply ANP_ttype|]; intros vt;
       apply (NP_map _ (fun n => (kt, vt, wrap_u 64 n))); first [apply (ANP_i32 PBinary)|apply (ANP_i32 PBinaryLE)].
  apply NP_bind; [apply ANP_varint|]. intros n s st.
  destruct (wrap_s 32 n =? 0); [discriminate|].
  pose proof (ANP_byte s) as H0.
  destruct (a_byte s) as [[h s1]| |]; cbn [bind]; [|discriminate|exfalso; eapply H0; reflexivity].
  pose proof (ttype_of_nibble_nopanic (h / 16)) as Hk.
  destruct (ttype_of_nibble (h / 16)) as [kt| |]; cbn [bind]; [|discriminate|exfalso; eapply Hk; reflexivity].
  pose proof (ttype_of_nibble_nopanic (h mod 16)) as Hv.
  destruct (ttype_of_nibble (h mod 16)) as [vt| |]; cbn [bind]; [discriminate|discriminate|exfalso; eapply Hv; reflexivity].
Qed.

Lemma MONO_a {A} (m : rm A) : EXT m -> NP m -> MONO m.
Proof. apply MONO_of_EXT. Qed.

(* the asynchronous skipper *)
Section ASkipMono.
  Variable p : pk.
  Variable rec : ttype -> rm unit.
  Hypothesis Hrec : forall ty, MONO (rec ty).

  Lemma MONO_askip_fields : forall n, MONO (askip_fields p rec n).
  Proof using Hrec.
    induction n as [|n IH]; intros s tl; cbn [askip_fields]; [reflexivity|].
    apply (MONO_bind (a_field_begin p) (fun h s1 => if ttype_eqb (fst h) TStop then Ok (tt, s1)
                                                    else let* (_, s2) := rec (fst h) s1 in askip_fields p rec n s2)).
    - apply MONO_a; [apply AEXT_field_begin|apply ANP_field_begin].
    - intros h. destruct (ttype_eqb (fst h) TStop); [apply MONO_ret|].
      apply (MONO_bind (rec (fst h)) (fun _ s2 => askip_fields p rec n s2)); [apply Hrec|]. intros u. apply IH.
  Qed.
  Lemma MONO_askip_elems : forall m et n, MONO (askip_elems rec m et n).
  Proof using Hrec.
    induction m as [|m IH]; intros et n s tl; cbn [askip_elems]; destruct (n <=? 0); try reflexivity.
    apply (MONO_bind (rec et) (fun _ s1 => askip_elems rec m et (n - 1) s1)); [apply Hrec|]. intros u. apply IH.
  Qed.
  Lemma MONO_askip_pairs : forall m kt vt n, MONO (askip_pairs rec m kt vt n).
  Proof using Hrec.
    induction m as [|m IH]; intros kt vt n s tl; cbn [askip_pairs]; destruct (n <=? 0); try reflexivity.
    apply (MONO_bind (rec kt) (fun _ s1 => let* (_, s2) := rec vt s1 in askip_pairs rec m kt vt (n - 1) s2)); [apply Hrec|]. intros u.
    apply (MONO_bind (rec vt) (fun _ s2 => askip_pairs rec m kt vt (n - 1) s2)); [apply Hrec|]. intros u2. apply IH.
  Qed.
End ASkipMono.

Lemma MONO_drop {A} (m : rm A) : MONO m -> MONO (drop m).
Proof. intros H. unfold drop. apply (MONO_map m (fun _ => tt) H). Qed.

Theorem MONO_askip_val p : forall f d ty, MONO (askip_val p f d ty).
Proof.
  induction f as [|f IH]; intros d ty s tl; [reflexivity|].
  cbn [askip_val]. destruct d as [|d]; [reflexivity|].
  destruct ty; try reflexivity.
  - apply MONO_drop, MONO_a; [apply AEXT_bool|apply ANP_bool].
  - apply MONO_drop, MONO_a; [apply AEXT_i8|apply ANP_i8].
  - apply MONO_drop, MONO_a; [apply AEXT_double|apply ANP_double].
  - apply MONO_drop, MONO_a; [apply AEXT_i16|apply ANP_i16].
  - apply MONO_drop, MONO_a; [apply AEXT_i32|apply ANP_i32].
  - apply MONO_drop, MONO_a; [apply AEXT_i64|apply ANP_i64].
  - apply MONO_drop, MONO_a; [apply AEXT_bytes|apply ANP_bytes].
  - apply (MONO_bind (a_struct_begin p) (fun _ s1 => let* (_, s2) := askip_fields p (askip_val p f d) (Datatypes.S f) s1 in a_struct_end p s2)).
    + apply MONO_a; [apply AEXT_struct_begin|apply ANP_struct_begin].
    + intros u. apply (MONO_bind (askip_fields p (askip_val p f d) (Datatypes.S f)) (fun _ s2 => a_struct_end p s2)).
      * apply MONO_askip_fields. intros ty0. apply IH.
      * intros u2. apply MONO_a; [apply AEXT_struct_end|apply ANP_struct_end].
  - apply (MONO_bind (a_map_begin p) (fun h s1 => askip_pairs (askip_val p f d) (Datatypes.S f) (fst (fst h)) (snd (fst h)) (snd h) s1)).
    + apply MONO_a; [apply AEXT_map_begin|apply ANP_map_begin].
    + intros h. apply MONO_askip_pairs. intros ty0. apply IH.
  - apply (MONO_bind (a_coll_begin p) (fun h s1 => askip_elems (askip_val p f d) (Datatypes.S f) (fst h) (snd h) s1)).
    + apply MONO_a; [apply AEXT_coll_begin|apply ANP_coll_begin].
    + intros h. apply MONO_askip_elems. intros ty0. apply IH.
  - apply (MONO_bind (a_coll_begin p) (fun h s1 => askip_elems (askip_val p f d) (Datatypes.S f) (fst h) (snd h) s1)).
    + apply MONO_a; [apply AEXT_coll_begin|apply ANP_coll_begin].
    + intros h. apply MONO_askip_elems. intros ty0. apply IH.
  - apply MONO_drop, MONO_a; [apply AEXT_uuid|apply ANP_uuid].
Qed.

Section ALoopsMono.
  Variable S : schema.
  Variable p : pk.
  Variable fk : nat.
  Variable rec : ty -> rm gval.
  Hypothesis Hrec : forall t, MONO (rec t).

  Lemma MONO_adec_fields : forall m fs vars, MONO (fun s => adec_fields S p fk rec m fs vars s).
  Proof using Hrec.
    induction m as [|m IH]; intros fs vars s tl; cbn [adec_fields]; [reflexivity|].
    apply (MONO_bind (a_field_begin p) (fun h s =>
             if ttype_eqb (fst h) TStop then Ok (vars, s)
             else let* (vars, s) := match match_field S fs 0 (snd h) (fst h) with
                                    | Some (i, f) => let* (x, s) := rec (f_ty f) s in Ok (set_nth i (Some x) vars, s)
                                    | None => let* (_, s) := askip p fk (fst h) s in Ok (vars, s)
                                    end in
                  adec_fields S p fk rec m fs vars s)).
    - apply MONO_a; [apply AEXT_field_begin|apply ANP_field_begin].
    - intros h. destruct (ttype_eqb (fst h) TStop); [apply MONO_ret|].
      apply (MONO_bind (fun s => match match_field S fs 0 (snd h) (fst h) with
                                  | Some (i, f) => let* (x, s) := rec (f_ty f) s in Ok (set_nth i (Some x) vars, s)
                                  | None => let* (_, s) := askip p fk (fst h) s in Ok (vars, s)
                                  end)
                       (fun vars s => adec_fields S p fk rec m fs vars s)).
      + destruct (match_field S fs 0 (snd h) (fst h)) as [[i f]|].
        * apply (MONO_map (rec (f_ty f)) (fun x => set_nth i (Some x) vars)). apply Hrec.
        * apply (MONO_map (askip p fk (fst h)) (fun _ => vars)). apply MONO_askip_val.
      + intros vars'. apply IH.
  Qed.

  Lemma MONO_adec_variants : forall m vs ret, MONO (fun s => adec_variants S p fk rec m vs ret s).
  Proof using Hrec.
    induction m as [|m IH]; intros vs ret s tl; cbn [adec_variants]; [reflexivity|].
    apply (MONO_bind (a_field_begin p) (fun h s =>
             if ttype_eqb (fst h) TStop then Ok (ret, s)
             else match (match snd h with
                         | Some id => match find_variant vs id with
                                      | Some vt => if is_void (resolve S vt) then None else Some (id, vt)
                                      | None => None
                                      end
                         | None => None
                         end) with
                  | Some (id, vt) =>
                      match ret with
                      | None => let* (x, s) := rec vt s in adec_variants S p fk rec m vs (Some (id, x)) s
                      | Some _ => Err EInvalidData
                      end
                  | None => let* (_, s) := askip p fk (fst h) s in adec_variants S p fk rec m vs ret s
                  end)).
    - apply MONO_a; [apply AEXT_field_begin|apply ANP_field_begin].
    - intros h. destruct (ttype_eqb (fst h) TStop); [apply MONO_ret|].
      match goal with |- MONO (fun s => match ?k with Some _ => _ | None => _ end) => destruct k as [[id vt]|] end.
      + destruct ret; [intros s0 tl0; reflexivity|].
        apply (MONO_bind (rec vt) (fun x s => adec_variants S p fk rec m vs (Some (id, x)) s)); [apply Hrec|]. intros x. apply IH.
      + apply (MONO_bind (askip p fk (fst h)) (fun _ s => adec_variants S p fk rec m vs ret s)); [apply MONO_askip_val|]. intros u. apply IH.
  Qed.
End ALoopsMono.

Theorem MONO_gen_decode_async S p : forall f t, MONO (gen_decode_async S p f t).
Proof.
  induction f as [|f IH]; intros t s tl; [reflexivity|].
  rewrite !gen_decode_async_S.
  destruct (resolve S t) as [| | | | | | | | | |et|et|kt vt|n].
  - apply (MONO_map (a_bool p) GBool). apply MONO_a; [apply AEXT_bool|apply ANP_bool].
  - apply (MONO_map a_i8 GI8). apply MONO_a; [apply AEXT_i8|apply ANP_i8].
  - apply (MONO_map (a_i16 p) GI16). apply MONO_a; [apply AEXT_i16|apply ANP_i16].
  - apply (MONO_map (a_i32 p) GI32). apply MONO_a; [apply AEXT_i32|apply ANP_i32].
  - apply (MONO_map (a_i64 p) GI64). apply MONO_a; [apply AEXT_i64|apply ANP_i64].
  - apply (MONO_map (a_double p) GDouble). apply MONO_a; [apply AEXT_double|apply ANP_double].
  - apply (MONO_map (a_bytes p) GBytes). apply MONO_a; [apply AEXT_bytes|apply ANP_bytes].
  - apply (MONO_map (a_bytes p) GBytes). apply MONO_a; [apply AEXT_bytes|apply ANP_bytes].
  - apply (MONO_map a_uuid GUuid). apply MONO_a; [apply AEXT_uuid|apply ANP_uuid].
  - apply (MONO_bind (a_struct_begin p) (fun _ s => let* (_, s) := a_struct_end p s in Ok (GVoid, s))).
    + apply MONO_a; [apply AEXT_struct_begin|apply ANP_struct_begin].
    + intros u. apply (MONO_map (a_struct_end p) (fun _ => GVoid)). apply MONO_a; [apply AEXT_struct_end|apply ANP_struct_end].
  - apply (MONO_bind (a_coll_begin p) (fun h s => let* (l, s) := dec_elems (gen_decode_async S p f) (Datatypes.S f) et (snd h) s [] in Ok (GList l, s))).
    + apply MONO_a; [apply AEXT_coll_begin|apply ANP_coll_begin].
    + intros h. apply (MONO_map (fun s => dec_elems (gen_decode_async S p f) (Datatypes.S f) et (snd h) s []) GList). apply MONO_dec_elems, IH.
  - apply (MONO_bind (a_coll_begin p) (fun h s => let* (l, s) := dec_elems (gen_decode_async S p f) (Datatypes.S f) et (snd h) s [] in Ok (GSet l, s))).
    + apply MONO_a; [apply AEXT_coll_begin|apply ANP_coll_begin].
    + intros h. apply (MONO_map (fun s => dec_elems (gen_decode_async S p f) (Datatypes.S f) et (snd h) s []) GSet). apply MONO_dec_elems, IH.
  - apply (MONO_bind (a_map_begin p) (fun h s => let* (l, s) := dec_pairs (gen_decode_async S p f) (Datatypes.S f) kt vt (snd h) s [] in Ok (GMap l, s))).
    + apply MONO_a; [apply AEXT_map_begin|apply ANP_map_begin].
    + intros h. apply (MONO_map (fun s => dec_pairs (gen_decode_async S p f) (Datatypes.S f) kt vt (snd h) s []) GMap). apply MONO_dec_pairs, IH.
  - destruct (lookup S n) as [[fs kp ia|vs vo kp|ms|tt]|]; try reflexivity.
    + apply (MONO_bind (a_struct_begin p) (fun _ s =>
               let* (vars, s) := adec_fields S p f (gen_decode_async S p f) (Datatypes.S f) fs (map init_var fs) s in
               let* (_, s) := a_struct_end p s in
               let* out := finish_fields fs vars in Ok (GStruct out [], s))).
      * apply MONO_a; [apply AEXT_struct_begin|apply ANP_struct_begin].
      * intros u. apply (MONO_bind (fun s => adec_fields S p f (gen_decode_async S p f) (Datatypes.S f) fs (map init_var fs) s)
                           (fun vars s => let* (_, s) := a_struct_end p s in let* out := finish_fields fs vars in Ok (GStruct out [], s))).
        -- apply MONO_adec_fields, IH.
        -- intros vars. apply (MONO_bind (a_struct_end p) (fun _ s => let* out := finish_fields fs vars in Ok (GStruct out [], s))).
           ++ apply MONO_a; [apply AEXT_struct_end|apply ANP_struct_end].
           ++ intros u2 s0 tl0. unfold mono. destruct (finish_fields fs vars); reflexivity.
    + apply (MONO_bind (a_struct_begin p) (fun _ s =>
               let* (ret, s) := adec_variants S p f (gen_decode_async S p f) (Datatypes.S f) vs None s in
               let* (_, s) := a_struct_end p s in
               match ret with
               | Some (id, x) => Ok (GUnion id x, s)
               | None => if vo then match vs with (id0, _) :: _ => Ok (GUnion id0 GVoid, s) | [] => Err EInvalidData end
                         else Err EInvalidData
               end)).
      * apply MONO_a; [apply AEXT_struct_begin|apply ANP_struct_begin].
      * intros u. apply (MONO_bind (fun s => adec_variants S p f (gen_decode_async S p f) (Datatypes.S f) vs None s)
                           (fun ret s => let* (_, s) := a_struct_end p s in
                              match ret with
                              | Some (id, x) => Ok (GUnion id x, s)
                              | None => if vo then match vs with (id0, _) :: _ => Ok (GUnion id0 GVoid, s) | [] => Err EInvalidData end
                                        else Err EInvalidData
                              end)).
        -- apply MONO_adec_variants, IH.
        -- intros ret. apply (MONO_bind (a_struct_end p)).
           ++ apply MONO_a; [apply AEXT_struct_end|apply ANP_struct_end].
           ++ intros u2 s0 tl0. unfold mono. destruct ret as [[id x]|]; [reflexivity|].
              destruct vo; [|reflexivity]. destruct vs as [|[id0 t0] r]; reflexivity.
    + apply (MONO_map (a_i32 p) GEnum). apply MONO_a; [apply AEXT_i32|apply ANP_i32].
Qed.

(* the asynchronous decoders have no panic outcome: take the empty extension in the statement above *)
Corollary gen_decode_async_monotone S p f t s v s' tl :
  gen_decode_async S p f t s = Ok (v, s') -> gen_decode_async S p f t (ext s tl) = Ok (v, ext s' tl).
Proof. intros H. pose proof (MONO_gen_decode_async S p f t s tl) as M. unfold mono in M. rewrite H in M. exact M. Qed.

(* C12_gen_error on truncated messages: when the stream ends strictly inside a message the emitted encoder wrote,
   the asynchronous decoder does NOT return a value -- it reports an error (EOF of the stream is an io::Error) *)
Theorem gen_async_prefix_rejected S p k t v :
  wf_schema S = true -> has_type S t v = true ->
  forall c, w_pend c = None ->
  exists ss, enc_ty S p k t v c = Ok (ss, c) /\
    forall n fuel rcx, (n < length (flat ss))%nat -> (vsize (to_tval S t v) <= fuel)%nat -> idle rcx ->
      Z.of_nat (length (flat ss)) < 2 ^ 63 ->
      forall v' a', gen_decode_async S p fuel t (mkS (firstn n (flat ss)) rcx) <> Ok (v', a').
Proof.
  intros Hwf Ht c Hp. destruct (gen_async_roundtrip S p k t v Hwf Ht c Hp) as (ss & Hw & Hr).
  exists ss. split; [exact Hw|]. intros n fuel rcx Hn Hv Hi Hl v' a' E.
  pose proof (gen_decode_async_monotone S p fuel t _ _ _ (skipn n (flat ss)) E) as M.
  unfold ext in M. cbn [rbuf rc] in M. rewrite firstn_skipn in M.
  specialize (Hr fuel [] rcx Hv Hi). rewrite app_nil_r in Hr. rewrite (Hr Hl) in M.
  assert (M2 : rbuf {| rbuf := []; rc := rcx |} = rbuf {| rbuf := rbuf a' ++ skipn n (flat ss); rc := rc a' |})
    by (injection M as _ M; rewrite M; reflexivity).
  cbn [rbuf] in M2. symmetry in M2. apply app_eq_nil in M2 as [_ M2].
  apply (f_equal (@length byte)) in M2. rewrite skipn_length in M2. cbn in M2. lia.
Qed.

(* ---------- the asynchronous decoders have no panic outcome at all ---------- *)
Section NPLoops.
  Variable rec : ty -> rm gval.
  Hypothesis Hrec : forall t, NP (rec t).
  Lemma NP_dec_elems : forall m et n acc, NP (fun s => dec_elems rec m et n s acc).
  Proof using Hrec.
    induction m as [|m IH]; intros et n acc s st; cbn [dec_elems]; destruct (n <=? 0); try discriminate.
    apply (NP_bind (rec et) (fun x s1 => dec_elems rec m et (n - 1) s1 (x :: acc)) (Hrec et)). intros x. apply IH.
  Qed.
  Lemma NP_dec_pairs : forall m kt vt n acc, NP (fun s => dec_pairs rec m kt vt n s acc).
  Proof using Hrec.
    induction m as [|m IH]; intros kt vt n acc s st; cbn [dec_pairs]; destruct (n <=? 0); try discriminate.
    apply (NP_bind (rec kt) (fun a s1 => let* (b, s2) := rec vt s1 in dec_pairs rec m kt vt (n - 1) s2 ((a, b) :: acc)) (Hrec kt)).
    intros a. apply (NP_bind (rec vt) (fun b s2 => dec_pairs rec m kt vt (n - 1) s2 ((a, b) :: acc)) (Hrec vt)). intros b. apply IH.
  Qed.
End NPLoops.

Section NPSkip.
  Variable p : pk.
  Variable rec : ttype -> rm unit.
  Hypothesis Hrec : forall ty, NP (rec ty).
  Lemma NP_askip_fields : forall n, NP (askip_fields p rec n).
  Proof using Hrec.
    induction n as [|n IH]; intros s st; cbn [askip_fields]; [discriminate|].
    apply (NP_bind (a_field_begin p) (fun h s1 => if ttype_eqb (fst h) TStop then Ok (tt, s1)
                                                  else let* (_, s2) := rec (fst h) s1 in askip_fields p rec n s2) (ANP_field_begin p)).
    intros h. destruct (ttype_eqb (fst h) TStop); [intros s0 st0; discriminate|].
    apply (NP_bind (rec (fst h)) (fun _ s2 => askip_fields p rec n s2) (Hrec _)). intros u. apply IH.
  Qed.
  Lemma NP_askip_elems : forall m et n, NP (askip_elems rec m et n).
  Proof using Hrec.
    induction m as [|m IH]; intros et n s st; cbn [askip_elems]; destruct (n <=? 0); try discriminate.
    apply (NP_bind (rec et) (fun _ s1 => askip_elems rec m et (n - 1) s1) (Hrec et)). intros u. apply IH.
  Qed.
  Lemma NP_askip_pairs : forall m kt vt n, NP (askip_pairs rec m kt vt n).
  Proof using Hrec.
    induction m as [|m IH]; intros kt vt n s st; cbn [askip_pairs]; destruct (n <=? 0); try discriminate.
    apply (NP_bind (rec kt) (fun _ s1 => let* (_, s2) := rec vt s1 in askip_pairs rec m kt vt (n - 1) s2) (Hrec kt)). intros u.
    apply (NP_bind (rec vt) (fun _ s2 => askip_pairs rec m kt vt (n - 1) s2) (Hrec vt)). intros u2. apply IH.
  Qed.
End NPSkip.

Lemma NP_drop {A} (m : rm A) : NP m -> NP (drop m).
Proof. intros H. unfold drop. apply (NP_map m (fun _ => tt) H). Qed.

Theorem NP_askip_val p : forall f d ty, NP (askip_val p f d ty).
Proof.
  induction f as [|f IH]; intros d ty s st; [discriminate|].
  cbn [askip_val]. destruct d as [|d]; [discriminate|].
  destruct ty; try discriminate.
  - apply NP_drop, ANP_bool.
  - apply NP_drop, ANP_i8.
  - apply NP_drop, ANP_double.
  - apply NP_drop, ANP_i16.
  - apply NP_drop, ANP_i32.
  - apply NP_drop, ANP_i64.
  - apply NP_drop, ANP_bytes.
  - apply (NP_bind (a_struct_begin p) (fun _ s1 => let* (_, s2) := askip_fields p (askip_val p f d) (Datatypes.S f) s1 in a_struct_end p s2) (ANP_struct_begin p)).
    intros u. apply (NP_bind (askip_fields p (askip_val p f d) (Datatypes.S f)) (fun _ s2 => a_struct_end p s2)).
    + apply NP_askip_fields. intros ty0. apply IH.
    + intros u2. apply ANP_struct_end.
  - apply (NP_bind (a_map_begin p) (fun h s1 => askip_pairs (askip_val p f d) (Datatypes.S f) (fst (fst h)) (snd (fst h)) (snd h) s1) (ANP_map_begin p)).
    intros h. apply NP_askip_pairs. intros ty0. apply IH.
  - apply (NP_bind (a_coll_begin p) (fun h s1 => askip_elems (askip_val p f d) (Datatypes.S f) (fst h) (snd h) s1) (ANP_coll_begin p)).
    intros h. apply NP_askip_elems. intros ty0. apply IH.
  - apply (NP_bind (a_coll_begin p) (fun h s1 => askip_elems (askip_val p f d) (Datatypes.S f) (fst h) (snd h) s1) (ANP_coll_begin p)).
    intros h. apply NP_askip_elems. intros ty0. apply IH.
  - apply NP_drop, ANP_uuid.
Qed.

Section NPALoops.
  Variable S : schema.
  Variable p : pk.
  Variable fk : nat.
  Variable rec : ty -> rm gval.
  Hypothesis Hrec : forall t, NP (rec t).

  Lemma NP_adec_fields : forall m fs vars, NP (fun s => adec_fields S p fk rec m fs vars s).
  Proof using Hrec.
    induction m as [|m IH]; intros fs vars s st; cbn [adec_fields]; [discriminate|].
    apply (NP_bind (a_field_begin p) (fun h s =>
             if ttype_eqb (fst h) TStop then Ok (vars, s)
             else let* (vars, s) := match match_field S fs 0 (snd h) (fst h) with
                                    | Some (i, f) => let* (x, s) := rec (f_ty f) s in Ok (set_nth i (Some x) vars, s)
                                    | None => let* (_, s) := askip p fk (fst h) s in Ok (vars, s)
                                    end in
                  adec_fields S p fk rec m fs vars s) (ANP_field_begin p)).
    intros h. destruct (ttype_eqb (fst h) TStop); [intros s0 st0; discriminate|].
    apply (NP_bind (fun s => match match_field S fs 0 (snd h) (fst h) with
                              | Some (i, f) => let* (x, s) := rec (f_ty f) s in Ok (set_nth i (Some x) vars, s)
                              | None => let* (_, s) := askip p fk (fst h) s in Ok (vars, s)
                              end)
                   (fun vars s => adec_fields S p fk rec m fs vars s)).
    - destruct (match_field S fs 0 (snd h) (fst h)) as [[i f]|].
      + apply (NP_map (rec (f_ty f)) (fun x => set_nth i (Some x) vars)). apply Hrec.
      + apply (NP_map (askip p fk (fst h)) (fun _ => vars)). apply NP_askip_val.
    - intros vars'. apply IH.
  Qed.

  Lemma NP_adec_variants : forall m vs ret, NP (fun s => adec_variants S p fk rec m vs ret s).
  Proof using Hrec.
    induction m as [|m IH]; intros vs ret s st; cbn [adec_variants]; [discriminate|].
    apply (NP_bind (a_field_begin p) (fun h s =>
             if ttype_eqb (fst h) TStop then Ok (ret, s)
             else match (match snd h with
                         | Some id => match find_variant vs id with
                                      | Some vt => if is_void (resolve S vt) then None else Some (id, vt)
                                      | None => None
                                      end
                         | None => None
                         end) with
                  | Some (id, vt) =>
                      match ret with
                      | None => let* (x, s) := rec vt s in adec_variants S p fk rec m vs (Some (id, x)) s
                      | Some _ => Err EInvalidData
                      end
                  | None => let* (_, s) := askip p fk (fst h) s in adec_variants S p fk rec m vs ret s
                  end) (ANP_field_begin p)).
    intros h. destruct (ttype_eqb (fst h) TStop); [intros s0 st0; discriminate|].
    match goal with |- NP (fun s => match ?k with Some _ => _ | None => _ end) => destruct k as [[id vt]|] end.
    - destruct ret; [intros s0 st0; discriminate|].
      apply (NP_bind (rec vt) (fun x s => adec_variants S p fk rec m vs (Some (id, x)) s) (Hrec vt)). intros x. apply IH.
    - apply (NP_bind (askip p fk (fst h)) (fun _ s => adec_variants S p fk rec m vs ret s)); [apply NP_askip_val|]. intros u. apply IH.
  Qed.
End NPALoops.

Theorem NP_gen_decode_async S p : forall f t, NP (gen_decode_async S p f t).
Proof.
  induction f as [|f IH]; intros t s st; [discriminate|].
  rewrite gen_decode_async_S.
  destruct (resolve S t) as [| | | | | | | | | |et|et|kt vt|n].
  - apply (NP_map (a_bool p) GBool), ANP_bool.
  - apply (NP_map a_i8 GI8), ANP_i8.
  - apply (NP_map (a_i16 p) GI16), ANP_i16.
  - apply (NP_map (a_i32 p) GI32), ANP_i32.
  - apply (NP_map (a_i64 p) GI64), ANP_i64.
  - apply (NP_map (a_double p) GDouble), ANP_double.
  - apply (NP_map (a_bytes p) GBytes), ANP_bytes.
  - apply (NP_map (a_bytes p) GBytes), ANP_bytes.
  - apply (NP_map a_uuid GUuid), ANP_uuid.
  - apply (NP_bind (a_struct_begin p) (fun _ s => let* (_, s) := a_struct_end p s in Ok (GVoid, s)) (ANP_struct_begin p)).
    intros u. apply (NP_map (a_struct_end p) (fun _ => GVoid)), ANP_struct_end.
  - apply (NP_bind (a_coll_begin p) (fun h s => let* (l, s) := dec_elems (gen_decode_async S p f) (Datatypes.S f) et (snd h) s [] in Ok (GList l, s)) (ANP_coll_begin p)).
    intros h. apply (NP_map (fun s => dec_elems (gen_decode_async S p f) (Datatypes.S f) et (snd h) s []) GList). apply NP_dec_elems, IH.
  - apply (NP_bind (a_coll_begin p) (fun h s => let* (l, s) := dec_elems (gen_decode_async S p f) (Datatypes.S f) et (snd h) s [] in Ok (GSet l, s)) (ANP_coll_begin p)).
    intros h. apply (NP_map (fun s => dec_elems (gen_decode_async S p f) (Datatypes.S f) et (snd h) s []) GSet). apply NP_dec_elems, IH.
  - apply (NP_bind (a_map_begin p) (fun h s => let* (l, s) := dec_pairs (gen_decode_async S p f) (Datatypes.S f) kt vt (snd h) s [] in Ok (GMap l, s)) (ANP_map_begin p)).
    intros h. apply (NP_map (fun s => dec_pairs (gen_decode_async S p f) (Datatypes.S f) kt vt (snd h) s []) GMap). apply NP_dec_pairs, IH.
  - destruct (lookup S n) as [[fs kp ia|vs vo kp|ms|tt]|]; try discriminate.
    + apply (NP_bind (a_struct_begin p) (fun _ s =>
               let* (vars, s) := adec_fields S p f (gen_decode_async S p f) (Datatypes.S f) fs (map init_var fs) s in
               let* (_, s) := a_struct_end p s in
               let* out := finish_fields fs vars in Ok (GStruct out [], s)) (ANP_struct_begin p)).
      intros u. apply (NP_bind (fun s => adec_fields S p f (gen_decode_async S p f) (Datatypes.S f) fs (map init_var fs) s)
                         (fun vars s => let* (_, s) := a_struct_end p s in let* out := finish_fields fs vars in Ok (GStruct out [], s))).
      * apply NP_adec_fields, IH.
      * intros vars. apply (NP_bind (a_struct_end p) (fun _ s => let* out := finish_fields fs vars in Ok (GStruct out [], s)) (ANP_struct_end p)).
        intros u2 s0 st0. pose proof (finish_fields_good fs vars) as G. destruct (finish_fields fs vars); cbn [bind]; [discriminate|discriminate|destruct G].
    + apply (NP_bind (a_struct_begin p) (fun _ s =>
               let* (ret, s) := adec_variants S p f (gen_decode_async S p f) (Datatypes.S f) vs None s in
               let* (_, s) := a_struct_end p s in
               match ret with
               | Some (id, x) => Ok (GUnion id x, s)
               | None => if vo then match vs with (id0, _) :: _ => Ok (GUnion id0 GVoid, s) | [] => Err EInvalidData end
                         else Err EInvalidData
               end) (ANP_struct_begin p)).
      intros u. apply (NP_bind (fun s => adec_variants S p f (gen_decode_async S p f) (Datatypes.S f) vs None s)
                         (fun ret s => let* (_, s) := a_struct_end p s in
                            match ret with
                            | Some (id, x) => Ok (GUnion id x, s)
                            | None => if vo then match vs with (id0, _) :: _ => Ok (GUnion id0 GVoid, s) | [] => Err EInvalidData end
                                      else Err EInvalidData
                            end)).
      * apply NP_adec_variants, IH.
      * intros ret. apply (NP_bind (a_struct_end p) _ (ANP_struct_end p)).
        intros u2 s0 st0. destruct ret as [[id x]|]; [discriminate|].
        destruct vo; [|discriminate]. destruct vs as [|[id0 t0] r]; discriminate.
    + apply (NP_map (a_i32 p) GEnum), ANP_i32.
Qed.

(* ... hence the truncated message is answered with an error *)
Corollary gen_async_prefix_error S p k t v :
  wf_schema S = true -> has_type S t v = true ->
  forall c, w_pend c = None ->
  exists ss, enc_ty S p k t v c = Ok (ss, c) /\
    forall n fuel rcx, (n < length (flat ss))%nat -> (vsize (to_tval S t v) <= fuel)%nat -> idle rcx ->
      Z.of_nat (length (flat ss)) < 2 ^ 63 ->
      exists e, gen_decode_async S p fuel t (mkS (firstn n (flat ss)) rcx) = Err e.
Proof.
  intros Hwf Ht c Hp. destruct (gen_async_prefix_rejected S p k t v Hwf Ht c Hp) as (ss & Hw & Hr).
  exists ss. split; [exact Hw|]. intros n fuel rcx Hn Hv Hi Hl.
  specialize (Hr n fuel rcx Hn Hv Hi Hl).
  pose proof (NP_gen_decode_async S p fuel t (mkS (firstn n (flat ss)) rcx)) as Hnp.
  destruct (gen_decode_async S p fuel t (mkS (firstn n (flat ss)) rcx)) as [[v' a']| |].
  - exfalso. eapply Hr. reflexivity.
  - eexists. reflexivity.
  - exfalso. eapply Hnp. reflexivity.
Qed.
