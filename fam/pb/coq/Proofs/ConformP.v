(* C06_in: the model of the generated decoder maps EVERY conforming encoding (Conform.v) of a value to that value.
   Plan: a conforming encoding is a list of records; the record loop of Message::merge is an instance of the
   projection engine (EngineP.v: struct slots); for every field kind, the records of that field -- in the forms the
   encoding guide allows -- take the slot from Default::default() to the field's value ([field_chain]); embedded
   messages by induction on the depth of the value, a message split over several records through rsteps_split;
   map entries through a second instance of the engine (slots key / value). *)
From PVPb Require Import Conform Proofs.BitsP Proofs.VarintP Proofs.WireP Proofs.CastP Proofs.CodecP Proofs.SpecP Proofs.TotalP
  Proofs.DepthP Proofs.ShapeP Proofs.MsgLenP Proofs.MergeP Proofs.MergeCor Proofs.UnknownP Proofs.InterleaveP Proofs.MsgRtP
  Proofs.SpecDecP Proofs.EngineP.
From Coq Require Import ZifyN ZifyNat ZifyBool.
Open Scope Z_scope.

(* ------------------------------------------------------------------ what the records are, in pilota's vocabulary *)
Lemma enc_crec_len tag body : enc_crec (CLen tag body) = spec_key tag W_LEN ++ spec_varint (zlen (enc_crecs body)) ++ enc_crecs body.
Proof. reflexivity. Qed.

Lemma enc_crecs_app a b : enc_crecs (a ++ b) = enc_crecs a ++ enc_crecs b.
Proof. induction a as [|r a IH]; [reflexivity|]. cbn [app enc_crecs]. rewrite IH, app_assoc. reflexivity. Qed.

Lemma enc_crecs_concat bodies : enc_crecs (concat bodies) = flat_map enc_crecs bodies.
Proof. induction bodies as [|b bs IH]; [reflexivity|]. cbn [concat flat_map]. rewrite enc_crecs_app, IH. reflexivity. Qed.

Lemma enc_scalar_split tag p m v : scalar_module p = Some m -> tag_ok tag -> spec_value_ok p v = true ->
  enc_crec (CScalar tag p v) = encode_key tag (mod_wire_type m) ++ payload m v /\ mod_value_okb m v = true /\ scalar_mod m = true.
Proof.
  intros Hm Ht Hv. pose proof (scalar_module_declared p m Hm) as Hin. cbn [enc_crec].
  rewrite <- (spec_scalar_bytes p m tag v Hin Hm Ht Hv). split; [reflexivity|].
  split; [eapply spec_value_ok_mod; eauto|eapply scalar_module_scalar; eauto].
Qed.

Lemma enc_len_split tag body : tag_ok tag ->
  enc_crec (CLen tag body) = encode_key tag LengthDelimited ++ encode_varint (zlen (enc_crecs body)) ++ enc_crecs body.
Proof.
  intros Ht. rewrite enc_crec_len, (spec_key_eq tag W_LEN LengthDelimited Ht eq_refl).
  rewrite spec_varint_eq by apply zlen_nonneg. reflexivity.
Qed.

Lemma numeric_module p m : scalar_module p = Some m -> spec_is_numeric p = true -> numeric_mod m = true.
Proof. destruct p; vm_compute; intros H1 H2; try discriminate; inversion H1; reflexivity. Qed.

Lemma enc_packed_split tag p m vs : scalar_module p = Some m -> tag_ok tag -> scalars_ok p vs ->
  enc_crec (CPacked tag p vs) = encode_key tag LengthDelimited ++ encode_varint (zlen (flat_map (payload m) vs)) ++ flat_map (payload m) vs
  /\ Forall (fun v => mod_value_okb m v = true) vs.
Proof.
  intros Hm Ht Hv. pose proof (scalar_module_declared p m Hm) as Hin. cbn [enc_crec]. unfold spec_encode_packed.
  assert (Hp : flat_map (spec_payload p) vs = flat_map (payload m) vs).
  { induction Hv as [|v vs Hv0 Hvs IH]; [reflexivity|]. cbn [flat_map]. rewrite IH, (spec_payload_eq p m v Hin Hm Hv0). reflexivity. }
  rewrite Hp, (spec_key_eq tag W_LEN LengthDelimited Ht eq_refl). fold (zlen (flat_map (payload m) vs)).
  rewrite spec_varint_eq by apply zlen_nonneg. split; [reflexivity|].
  eapply Forall_impl; [|exact Hv]. intros v Hv0. eapply spec_value_ok_mod; eauto.
Qed.

Lemma enc_crec_nonempty r : tag_ok (tag_of r) -> enc_crec r <> [].
Proof.
  intros Ht. destruct r as [tag p v|tag p vs|tag body|tag u]; cbn [tag_of] in Ht.
  - cbn [enc_crec]. unfold spec_encode_field. rewrite (spec_key_eq tag (spec_wire_type p) (match spec_wire_type p with
      W_VARINT => Varint | W_I64 => SixtyFourBit | W_LEN => LengthDelimited | W_SGROUP => StartGroup | W_EGROUP => EndGroup | W_I32 => ThirtyTwoBit end) Ht)
      by (destruct (spec_wire_type p); reflexivity).
    intros E. apply app_eq_nil in E. destruct E as [E _]. exact (encode_key_nonempty _ _ E).
  - cbn [enc_crec]. unfold spec_encode_packed. rewrite (spec_key_eq tag W_LEN LengthDelimited Ht eq_refl).
    intros E. apply app_eq_nil in E. destruct E as [E _]. exact (encode_key_nonempty _ _ E).
  - rewrite enc_len_split by exact Ht. intros E. apply app_eq_nil in E. destruct E as [E _]. exact (encode_key_nonempty _ _ E).
  - apply urecord_nonempty.
Qed.

(* a packed body, of any length (an empty packed record is legal) *)
Lemma packed_body_rt m vs acc rest a : numeric_mod m = true -> Forall (fun v => mod_value_okb m v = true) vs ->
  zlen (flat_map (payload m) vs) < two64 ->
  merge_repeated m LengthDelimited acc (mkR (encode_varint (zlen (flat_map (payload m) vs)) ++ flat_map (payload m) vs ++ rest) a)
  = OOk (acc ++ vs) (mkR rest (a + Z.of_nat (length vs))).
Proof.
  intros Hn Hg Hl. destruct (numeric_scalar m Hn) as [Hs El]. unfold merge_repeated. rewrite El.
  rewrite (merge_loop_exact _ (payload m) (fun acc v => acc ++ [v]) (fun _ => 1) (fun v => mod_value_okb m v = true)).
  - rewrite fold_left_snoc, sumZ_const1. reflexivity.
  - intros t x rest' a' Hx.
    rewrite (bind_ok _ _ _ _ _ (payload_rt m x rest' a' Hs Hx)). unfold payload_cost. rewrite El.
    unfold push, bind, charge, ret. cbn [rb ra]. f_equal. f_equal. lia.
  - intros x Hx. apply payload_nonempty; auto.
  - exact Hg.
  - exact Hl.
Qed.

(* ------------------------------------------------------------------ routing *)
Lemma find_pos_spec : forall fs t p f, find_pos fs t = Some (p, f) ->
  nth_error fs p = Some f /\ existsb (Z.eqb t) (field_tags f) = true /\ (p < length fs)%nat.
Proof.
  induction fs as [|f0 fs IH]; intros t p f H; cbn [find_pos] in H; [discriminate|].
  destruct (existsb (Z.eqb t) (field_tags f0)) eqn:E.
  - inversion H; subst. cbn. repeat split; auto. lia.
  - destruct (find_pos fs t) as [[p' f']|] eqn:E2; [|discriminate]. inversion H; subst.
    destruct (IH t p' f E2) as (H1 & H2 & H3). cbn [nth_error length]. repeat split; auto. lia.
Qed.

Lemma find_pos_none : forall fs t, find_pos fs t = None -> find_field fs t = None /\ existsb (Z.eqb t) (flat_map field_tags fs) = false.
Proof.
  induction fs as [|f0 fs IH]; intros t H; cbn [find_pos find_field flat_map] in *; [auto|].
  rewrite existsb_app. destruct (existsb (Z.eqb t) (field_tags f0)); [discriminate|].
  destruct (find_pos fs t) as [[p' f']|] eqn:E2; [discriminate|]. cbn [orb]. apply IH. exact E2.
Qed.

(* with distinct field numbers, the records routed to slot p are exactly those that carry one of f_p's numbers *)
Lemma find_pos_at : forall fs p f t, nodupZ (flat_map field_tags fs) = true -> nth_error fs p = Some f ->
  existsb (Z.eqb t) (field_tags f) = true -> find_pos fs t = Some (p, f).
Proof.
  induction fs as [|f0 fs IH]; intros p f t Hnd Hn Hin; [destruct p; discriminate|].
  cbn [flat_map] in Hnd. cbn [find_pos]. destruct p as [|p]; cbn [nth_error] in Hn.
  - inversion Hn; subst. rewrite Hin. reflexivity.
  - assert (Hin2 : existsb (Z.eqb t) (flat_map field_tags fs) = true).
    { apply existsb_exists in Hin. destruct Hin as (t' & Ht' & E). apply Z.eqb_eq in E. subst t'.
      apply existsb_exists. exists t. split; [|apply Z.eqb_refl]. apply in_flat_map. exists f. split; [|exact Ht'].
      eapply nth_error_In; eauto. }
    rewrite (nodupZ_disjoint _ _ t Hnd Hin2). rewrite (IH p f t (nodupZ_app_r _ _ Hnd) Hn Hin). reflexivity.
Qed.

(* ------------------------------------------------------------------ the record loop of a message as an engine instance *)
Lemma nth_set_nth_same {A} (v d : A) : forall p l, (p < length l)%nat -> nth p (set_nth p l v) d = v.
Proof. induction p as [|p IH]; intros [|a l] H; cbn [length] in H; try lia; cbn [set_nth nth]; [reflexivity|apply IH; lia]. Qed.

Definition mget (s : val) (p : nat) : val := match s with VL NMsg xs => nth p xs (VI 0) | _ => VI 0 end.
Definition mset (s : val) (p : nat) (v : val) : val := match s with VL NMsg xs => VL NMsg (set_nth p xs v) | _ => s end.
Definition minv (n : nat) (s : val) : Prop := exists xs, s = VL NMsg xs /\ length xs = n.

Section MsgInst.
  Variable sc : schema.
  Variables (dm : nat) (j : nat) (c : Z) (fs : msgdesc).
  Hypothesis Hn : nth_error sc j = Some fs.
  Hypothesis Hc : c <= recursion_limit.

  Definition mpos (r : crec) : option nat := match find_pos fs (tag_of r) with Some (p, _) => Some p | None => None end.

  (* what one record makes of the content of slot p: the generated merge_field arm of that field, on the record's payload *)
  Definition mstep (p : nat) (cur : val) (r : crec) (cur' : val) : Prop :=
    exists f wt pl, find_pos fs (tag_of r) = Some (p, f) /\ tag_ok (tag_of r) /\ enc_crec r = encode_key (tag_of r) wt ++ pl /\
      forall rest a, exists a', merge_fieldval (merge_field dm sc) (default_ty dm sc) f cur (tag_of r) wt c (mkR (pl ++ rest) a)
                                = OOk cur' (mkR rest a').

  Definition mskip (r : crec) : Prop := unknown_ok c r.

  Lemma mstep_ok s r p c' : minv (length fs) s -> mpos r = Some p -> (p < length fs)%nat -> mstep p (mget s p) r c' ->
    forall rest a, exists a', rbody sc (S dm) j c s (mkR (enc_crec r ++ rest) a) = OOk (mset s p c') (mkR rest a').
  Proof.
    intros (xs & -> & Hl) _ Hp (f & wt & pl & Hf & Ht & He & Hm) rest a. cbn [mget mset] in *.
    destruct (Hm rest a) as [a' E]. exists a'. rewrite He. unfold rbody. rewrite <- app_assoc.
    rewrite (bind_ok _ _ _ _ _ (decode_key_rt (tag_of r) wt _ a Ht)). cbn [merge_field]. rewrite Hn.
    unfold bind at 1. rewrite (merge_in_fields_pos _ _ _ _ _ _ fs xs p f Hf ltac:(lia)). unfold bind. rewrite E. reflexivity.
  Qed.

  Lemma mskip_ok s r : minv (length fs) s -> mpos r = None -> mskip r ->
    forall rest a, exists a', rbody sc (S dm) j c s (mkR (enc_crec r ++ rest) a) = OOk s (mkR rest a').
  Proof.
    intros (xs & -> & Hl) Hp Hu rest a. unfold mpos in Hp. destruct (find_pos fs (tag_of r)) as [[p f]|] eqn:E; [discriminate|].
    destruct (find_pos_none _ _ E) as [Hff _]. destruct r as [t p v|t p vs|t body|t u]; cbn [mskip unknown_ok] in Hu; try contradiction.
    destruct Hu as (Ht & Hw & Hlv). cbn [tag_of] in *. exists a. cbn [enc_crec].
    apply (record_body_unknown dm sc j fs xs t u c rest a Hn Hff Ht Hw). lia.
  Qed.

  Theorem msg_engine rs xs0 (x : nat -> val) : length xs0 = length fs ->
    Forall (routed (length fs) mpos mskip) rs -> Forall (fun r => tag_ok (tag_of r)) rs ->
    (forall p, (p < length fs)%nat -> fchain mstep p (nth p xs0 (VI 0)) (proj mpos p rs) (x p)) ->
    exists xs', rsteps (rbody sc (S dm) j c) (VL NMsg xs0) rs (VL NMsg xs') /\ length xs' = length fs /\
                forall p, (p < length fs)%nat -> nth p xs' (VI 0) = x p.
  Proof.
    intros Hl Hr Htags Hch.
    assert (Hne : Forall EngineP.nonempty rs) by (eapply Forall_impl; [|exact Htags]; intros r Hr0; apply enc_crec_nonempty; exact Hr0).
    destruct (engine (rbody sc (S dm) j c) (length fs) mget mset (minv (length fs)) mpos mstep mskip) with (rs := rs) (s := VL NMsg xs0) (x := x)
      as (s' & Hs & (xs' & -> & Hl') & Hg); auto.
    - intros s p v (xs & -> & Hlx) Hp. cbn [mget mset]. apply nth_set_nth_same. lia.
    - intros s p q v Hpq. destruct s as [z|l|k xs]; try reflexivity. destruct k; try reflexivity. cbn [mget mset]. apply nth_set_nth_other. exact Hpq.
    - intros s p v (xs & -> & Hlx). exists (set_nth p xs v). split; [reflexivity|]. rewrite set_nth_length. exact Hlx.
    - intros. eapply mstep_ok; eauto.
    - intros. eapply mskip_ok; eauto.
    - exists xs0. auto.
    - exists xs'. repeat split; auto.
  Qed.
End MsgInst.

(* ------------------------------------------------------------------ sizes: every record fits in a usize *)
Definition fits (r : crec) : Prop := zlen (enc_crec r) < two64.

Lemma fits_all rs : zlen (enc_crecs rs) < two64 -> Forall fits rs.
Proof.
  induction rs as [|r rs IH]; intros H; [constructor|]. cbn [enc_crecs] in H. rewrite zlen_app in H.
  pose proof (zlen_nonneg (enc_crec r)). pose proof (zlen_nonneg (enc_crecs rs)). constructor; [unfold fits; lia|apply IH; lia].
Qed.

Lemma fits_len tag body : tag_ok tag -> fits (CLen tag body) -> zlen (enc_crecs body) < two64 /\ Forall fits body.
Proof.
  intros Ht H. unfold fits in H. rewrite enc_len_split in H by exact Ht. rewrite !zlen_app in H.
  pose proof (zlen_nonneg (encode_key tag LengthDelimited)). pose proof (zlen_nonneg (encode_varint (zlen (enc_crecs body)))).
  assert (zlen (enc_crecs body) < two64) by lia. split; [assumption|apply fits_all; assumption].
Qed.

Lemma Forall_filter {A} (P : A -> Prop) f l : Forall P l -> Forall P (filter f l).
Proof. induction 1; cbn [filter]; [constructor|]. destruct (f x); [constructor|]; assumption. Qed.

Lemma Forall_concat {A} (P : A -> Prop) ls : Forall (Forall P) ls -> Forall P (concat ls).
Proof. induction 1; cbn [concat]; [constructor|]. apply Forall_app. split; assumption. Qed.

(* ------------------------------------------------------------------ one level: the records of one field *)
Section FieldChains.
  Variable ub : Z.
  Variable sc : schema.
  Hypothesis Hs : schema_ok sc = true.
  Variables (dv dm : nat) (c : Z).
  Hypothesis Hub : 0 <= ub.
  Hypothesis Hdm : (dv <= dm)%nat.
  Hypothesis Hc : 2 * Z.of_nat dv + 1 + ub <= c <= recursion_limit.
  (* embedded messages (values of depth dv), at any sufficient budget, from any sufficiently deep default *)
  Hypothesis IHmsg : forall j x rs c' Dd, mconf ub dv sc j x rs -> Forall fits rs -> (dv <= Dd)%nat ->
    2 * Z.of_nat dv - 1 + ub <= c' <= recursion_limit ->
    rsteps (rbody sc dm j c') (default_msg Dd sc j) rs x.

  Local Notation rec := (merge_field dm sc).
  Local Notation dflt := (default_ty dm sc).

  Lemma mconf_pos j x rs : mconf ub dv sc j x rs -> (1 <= dv)%nat.
  Proof. destruct dv; [intros []|lia]. Qed.

  (* [rfact f cur r cur']: record r, handed to the merge_field arm of field f, takes the slot from cur to cur' *)
  Definition rfact (f : field) (cur : val) (r : crec) (cur' : val) : Prop :=
    tag_ok (tag_of r) /\ exists wt pl, enc_crec r = encode_key (tag_of r) wt ++ pl /\
      forall rest a, exists a', merge_fieldval rec dflt f cur (tag_of r) wt c (mkR (pl ++ rest) a) = OOk cur' (mkR rest a').

  Inductive rchain (f : field) : val -> list crec -> val -> Prop :=
  | rchain_nil c0 : rchain f c0 [] c0
  | rchain_cons c0 r c1 rs c2 : rfact f c0 r c1 -> rchain f c1 rs c2 -> rchain f c0 (r :: rs) c2.

  Lemma rchain_app f c0 r1 c1 r2 c2 : rchain f c0 r1 c1 -> rchain f c1 r2 c2 -> rchain f c0 (r1 ++ r2) c2.
  Proof. intros H1 H2. induction H1; [exact H2|]. cbn [app]. econstructor; eauto. Qed.

  (* ---------------------------------------------------------------- single records *)
  (* a scalar record, through <module>::merge *)
  Lemma scalar_merge tag p v cur cc rest a : tag_ok tag -> spec_value_ok p v = true -> ty_ok sc (TScalar p) = true ->
    exists m, scalar_module p = Some m /\ enc_crec (CScalar tag p v) = encode_key tag (mod_wire_type m) ++ payload m v /\
      exists a', merge_ty rec (TScalar p) (mod_wire_type m) cur cc (mkR (payload m v ++ rest) a) = OOk v (mkR rest a').
  Proof.
    intros Ht Hv Hok. cbn [ty_ok] in Hok. destruct (scalar_module p) as [m|] eqn:E; [|discriminate]. exists m. split; [reflexivity|].
    destruct (enc_scalar_split tag p m v E Ht Hv) as (He & Hmv & Hsm). split; [exact He|].
    cbn [merge_ty]. rewrite E. eexists. apply payload_rt; assumption.
  Qed.

  (* an embedded message record whose body is a run of records at the inner budget *)
  Lemma len_merge tag j body y y' cc rest a : tag_ok tag -> fits (CLen tag body) -> 1 <= cc ->
    rsteps (rbody sc dm j (cc - 1)) y body y' ->
    enc_crec (CLen tag body) = encode_key tag LengthDelimited ++ (encode_varint (zlen (enc_crecs body)) ++ enc_crecs body) /\
    exists a', merge_ty rec (TMsg j) LengthDelimited y cc (mkR ((encode_varint (zlen (enc_crecs body)) ++ enc_crecs body) ++ rest) a) = OOk y' (mkR rest a').
  Proof.
    intros Ht Hf Hcc Hr. split; [apply enc_len_split; exact Ht|]. destruct (fits_len tag body Ht Hf) as [Hz _].
    cbn [merge_ty]. rewrite <- app_assoc. apply message_merge_exact; [|exact Hcc|exact Hz].
    unfold steps. apply rsteps_gsteps. exact Hr.
  Qed.

  (* ---------------------------------------------------------------- singular / optional scalars: the last one wins *)
  Lemma singular_scalars tag p : tag_ok tag -> ty_ok sc (TScalar p) = true -> forall vs cur, scalars_ok p vs ->
    rchain (FSingular tag (TScalar p)) cur (map (CScalar tag p) vs) (last vs cur).
  Proof.
    intros Ht Hok. induction vs as [|v vs IH]; intros cur Hv; [constructor|]. inversion Hv as [|? ? Hv0 Hvs]; subst.
    cbn [map]. replace (last (v :: vs) cur) with (last vs v) by (clear; revert v; induction vs as [|w vs IH]; intros v; [reflexivity|]; cbn [last]; destruct vs; [reflexivity|apply IH]).
    econstructor; [|apply IH; exact Hvs].
    destruct (scalar_merge tag p v cur c [] 0 Ht Hv0 Hok) as (m & Hm & He & _).
    split; [exact Ht|]. exists (mod_wire_type m), (payload m v). split; [exact He|]. intros rest a. cbn [merge_fieldval tag_of].
    destruct (scalar_merge tag p v cur c rest a Ht Hv0 Hok) as (m' & Hm' & _ & E). rewrite Hm in Hm'. inversion Hm'; subst m'. exact E.
  Qed.

  Lemma optional_scalars tag p : tag_ok tag -> ty_ok sc (TScalar p) = true -> forall vs cur d0, vs <> [] -> scalars_ok p vs ->
    rchain (FOptional tag (TScalar p)) cur (map (CScalar tag p) vs) (VL NSome [last vs d0]).
  Proof.
    intros Ht Hok. induction vs as [|v vs IH]; intros cur d0 Hne Hv; [congruence|]. inversion Hv as [|? ? Hv0 Hvs]; subst. cbn [map].
    assert (Hstep : rfact (FOptional tag (TScalar p)) cur (CScalar tag p v) (VL NSome [v])).
    { destruct (scalar_merge tag p v cur c [] 0 Ht Hv0 Hok) as (m & Hm & He & _).
      split; [exact Ht|]. exists (mod_wire_type m), (payload m v). split; [exact He|]. intros rest a. cbn [merge_fieldval tag_of].
      destruct (scalar_merge tag p v (match cur with VL NSome [v0] => v0 | _ => dflt (TScalar p) end) c rest a Ht Hv0 Hok) as (m' & Hm' & _ & a' & E).
      rewrite Hm in Hm'. inversion Hm'; subst m'. exists a'. rewrite (bind_ok _ _ _ _ _ E). reflexivity. }
    destruct vs as [|w vs].
    - cbn [map last]. econstructor; [exact Hstep|constructor].
    - econstructor; [exact Hstep|]. replace (last (v :: w :: vs) d0) with (last (w :: vs) d0) by reflexivity.
      apply IH; [discriminate|exact Hvs].
  Qed.

  (* ---------------------------------------------------------------- singular / optional messages: the records merge *)
  Lemma singular_messages tag j : tag_ok tag -> forall bodies y x, Forall fits (map (CLen tag) bodies) ->
    rsteps (rbody sc dm j (c - 1)) y (concat bodies) x ->
    rchain (FSingular tag (TMsg j)) y (map (CLen tag) bodies) x.
  Proof.
    intros Ht. induction bodies as [|b bodies IH]; intros y x Hf Hr.
    - cbn [concat] in Hr. inversion Hr; subst. constructor.
    - cbn [concat] in Hr. destruct (rsteps_split _ _ _ _ _ Hr) as (y1 & R1 & R2). cbn [map] in *. inversion Hf as [|? ? Hf0 Hfs]; subst.
      econstructor; [|apply IH; eauto]. split; [exact Ht|].
      destruct (len_merge tag j b y y1 c [] 0 Ht Hf0 ltac:(lia) R1) as [He _].
      eexists _, _. split; [exact He|]. intros rest a. cbn [merge_fieldval tag_of].
      destruct (len_merge tag j b y y1 c rest a Ht Hf0 ltac:(lia) R1) as [_ E]. exact E.
  Qed.

  Lemma optional_messages_some tag j : tag_ok tag -> forall bodies y e, Forall fits (map (CLen tag) bodies) ->
    rsteps (rbody sc dm j (c - 1)) y (concat bodies) e ->
    rchain (FOptional tag (TMsg j)) (VL NSome [y]) (map (CLen tag) bodies) (VL NSome [e]).
  Proof.
    intros Ht. induction bodies as [|b bodies IH]; intros y e Hf Hr.
    - cbn [concat] in Hr. inversion Hr; subst. constructor.
    - cbn [concat] in Hr. destruct (rsteps_split _ _ _ _ _ Hr) as (y1 & R1 & R2). cbn [map] in *. inversion Hf as [|? ? Hf0 Hfs]; subst.
      econstructor; [|apply IH; eauto]. split; [exact Ht|].
      destruct (len_merge tag j b y y1 c [] 0 Ht Hf0 ltac:(lia) R1) as [He _].
      eexists _, _. split; [exact He|]. intros rest a. cbn [merge_fieldval tag_of].
      destruct (len_merge tag j b y y1 c rest a Ht Hf0 ltac:(lia) R1) as [_ [a' E]]. exists a'. rewrite (bind_ok _ _ _ _ _ E). reflexivity.
  Qed.

  Lemma optional_messages tag j : tag_ok tag -> forall bodies e, bodies <> [] -> Forall fits (map (CLen tag) bodies) ->
    rsteps (rbody sc dm j (c - 1)) (dflt (TMsg j)) (concat bodies) e ->
    rchain (FOptional tag (TMsg j)) (VL NNone []) (map (CLen tag) bodies) (VL NSome [e]).
  Proof.
    intros Ht bodies e Hne Hf Hr. destruct bodies as [|b bodies]; [congruence|].
    cbn [concat] in Hr. destruct (rsteps_split _ _ _ _ _ Hr) as (y1 & R1 & R2). cbn [map] in *. inversion Hf as [|? ? Hf0 Hfs]; subst.
    econstructor; [|apply optional_messages_some; eauto]. split; [exact Ht|].
    destruct (len_merge tag j b (dflt (TMsg j)) y1 c [] 0 Ht Hf0 ltac:(lia) R1) as [He _].
    eexists _, _. split; [exact He|]. intros rest a. cbn [merge_fieldval tag_of].
    destruct (len_merge tag j b (dflt (TMsg j)) y1 c rest a Ht Hf0 ltac:(lia) R1) as [_ [a' E]]. exists a'. rewrite (bind_ok _ _ _ _ _ E). reflexivity.
  Qed.

  (* the sub-message of an embedded field, from Default::default() of the decoder *)
  Lemma inner_rsteps j e rs cc : mconf ub dv sc j e rs -> Forall fits rs -> c - 2 <= cc <= c - 1 ->
    rsteps (rbody sc dm j cc) (dflt (TMsg j)) rs e.
  Proof. intros Hm Hf Hcc. cbn [default_ty]. apply IHmsg; auto; lia. Qed.

  Lemma fits_bodies tag bodies : tag_ok tag -> Forall fits (map (CLen tag) bodies) -> Forall fits (concat bodies).
  Proof.
    intros Ht H. apply Forall_concat. induction bodies as [|b bs IH]; [constructor|]. cbn [map] in H. inversion H; subst.
    constructor; [apply (fits_len tag b Ht); assumption|apply IH; assumption].
  Qed.

  (* ---------------------------------------------------------------- repeated scalars: any mixture of packed and unpacked *)
  Lemma repeated_chunks tag p : tag_ok tag -> ty_ok sc (TScalar p) = true -> forall rs vss acc, Forall fits rs ->
    Forall2 (rep_chunk tag p) rs vss ->
    rchain (FRepeated tag (TScalar p)) (VL NRep acc) rs (VL NRep (acc ++ concat vss)).
  Proof.
    intros Ht Hok rs vss acc Hf H. revert acc Hf. induction H as [|r vs rs vss Hch Hrest IH]; intros acc Hf.
    - cbn [concat]. rewrite app_nil_r. constructor.
    - inversion Hf as [|? ? Hf0 Hfs]; subst. cbn [concat]. rewrite app_assoc. econstructor; [|apply IH; exact Hfs].
      cbn [ty_ok] in Hok. destruct (scalar_module p) as [m|] eqn:Em; [|discriminate].
      destruct Hch as [(v & -> & -> & Hv)|(-> & Hnum & Hvs)].
      + destruct (enc_scalar_split tag p m v Em Ht Hv) as (He & Hmv & Hsm).
        split; [exact Ht|]. exists (mod_wire_type m), (payload m v). split; [exact He|]. intros rest a. cbn [merge_fieldval merge_rep tag_of].
        rewrite Em. eexists. rewrite (bind_ok _ _ _ _ _ (merge_repeated_one m _ v acc rest a _ Hsm Hmv eq_refl eq_refl)). reflexivity.
      + destruct (enc_packed_split tag p m vs Em Ht Hvs) as (He & Hmv).
        assert (Hz : zlen (flat_map (payload m) vs) < two64).
        { unfold fits in Hf0. rewrite He, !zlen_app in Hf0. pose proof (zlen_nonneg (encode_key tag LengthDelimited)).
          pose proof (zlen_nonneg (encode_varint (zlen (flat_map (payload m) vs)))). lia. }
        split; [exact Ht|]. exists LengthDelimited, (encode_varint (zlen (flat_map (payload m) vs)) ++ flat_map (payload m) vs).
        split; [exact He|]. intros rest a. cbn [merge_fieldval merge_rep tag_of]. rewrite Em. rewrite <- app_assoc.
        eexists. rewrite (bind_ok _ _ _ _ _ (packed_body_rt m vs acc rest a (numeric_module p m Em Hnum) Hmv Hz)). reflexivity.
  Qed.

  (* ---------------------------------------------------------------- repeated messages: one record per element *)
  Lemma repeated_messages tag j : tag_ok tag -> forall rs es acc, Forall fits rs ->
    Forall2 (fun r e => exists body, r = CLen tag body /\ mconf ub dv sc j e body) rs es ->
    rchain (FRepeated tag (TMsg j)) (VL NRep acc) rs (VL NRep (acc ++ es)).
  Proof.
    intros Ht rs es acc Hf H. revert acc Hf. induction H as [|r e rs es (body & -> & Hm) Hrest IH]; intros acc Hf.
    - rewrite app_nil_r. constructor.
    - inversion Hf as [|? ? Hf0 Hfs]; subst. replace (acc ++ e :: es) with ((acc ++ [e]) ++ es) by (rewrite <- app_assoc; reflexivity).
      econstructor; [|apply IH; exact Hfs]. destruct (fits_len tag body Ht Hf0) as [_ Hfb].
      pose proof (inner_rsteps j e body (c - 1) Hm Hfb ltac:(lia)) as Hr.
      destruct (len_merge tag j body (dflt (TMsg j)) e c [] 0 Ht Hf0 ltac:(lia) Hr) as [He _].
      split; [exact Ht|]. eexists _, _. split; [exact He|]. intros rest a. cbn [merge_fieldval merge_rep tag_of].
      destruct (len_merge tag j body (dflt (TMsg j)) e c rest a Ht Hf0 ltac:(lia) Hr) as [_ [a' E]]. cbn [merge_ty] in E.
      eexists. rewrite (bind_bind_ok _ _ _ _ _ _ (check_wire_type_same _ _)). cbv beta.
      rewrite (bind_bind_ok _ _ _ _ _ _ E). reflexivity.
  Qed.

  (* ---------------------------------------------------------------- oneofs: the last run decides *)
  Section Oneof.
    Variable ms : list (Z * ty).
    Hypothesis Hnd : nodupZ (map fst ms) = true.
    Hypothesis Htags : Forall tag_ok (map fst ms).
    Hypothesis Htys : forallb (fun m => ty_ok sc (snd m)) ms = true.

    Lemma member_facts idx tag t : nth_error ms idx = Some (tag, t) ->
      tag_ok tag /\ ty_ok sc t = true /\ find_member ms tag 0 = Some (idx, t).
    Proof.
      intros Hn. split; [|split].
      - rewrite Forall_forall in Htags. apply Htags. apply nth_error_In in Hn. apply (in_map fst) in Hn. exact Hn.
      - rewrite forallb_forall in Htys. apply (Htys (tag, t)). eapply nth_error_In; eauto.
      - rewrite (find_member_nth ms idx tag t 0 Hnd Hn). reflexivity.
    Qed.

    (* scalar member: every record sets the member *)
    Lemma oneof_scalars idx tag p : nth_error ms idx = Some (tag, TScalar p) -> forall vs cur d0, vs <> [] -> scalars_ok p vs ->
      rchain (FOneof ms) cur (map (CScalar tag p) vs) (VL (NOne idx) [last vs d0]).
    Proof.
      intros Hn. destruct (member_facts idx tag (TScalar p) Hn) as (Ht & Hok & Hfm).
      induction vs as [|v vs IH]; intros cur d0 Hne Hv; [congruence|]. inversion Hv as [|? ? Hv0 Hvs]; subst. cbn [map].
      assert (Hstep : rfact (FOneof ms) cur (CScalar tag p v) (VL (NOne idx) [v])).
      { destruct (scalar_merge tag p v cur c [] 0 Ht Hv0 Hok) as (m & Hm & He & _).
        split; [exact Ht|]. exists (mod_wire_type m), (payload m v). split; [exact He|]. intros rest a. cbn [merge_fieldval tag_of].
        unfold merge_oneof. rewrite Hfm.
        match goal with |- context [merge_ty _ _ _ ?st _] =>
          destruct (scalar_merge tag p v st c rest a Ht Hv0 Hok) as (m' & Hm' & _ & a' & E) end.
        rewrite Hm in Hm'. inversion Hm'; subst m'. exists a'. rewrite (bind_ok _ _ _ _ _ E). reflexivity. }
      destruct vs as [|w vs].
      - cbn [map last]. econstructor; [exact Hstep|constructor].
      - econstructor; [exact Hstep|]. replace (last (v :: w :: vs) d0) with (last (w :: vs) d0) by reflexivity.
        apply IH; [discriminate|exact Hvs].
    Qed.

    (* message member: a record merges into the member if it is already set, else into a fresh default *)
    Lemma oneof_message_step idx tag j body cur start y' : nth_error ms idx = Some (tag, TMsg j) -> fits (CLen tag body) ->
      start = match cur with VL (NOne i0) [v] => if Nat.eqb i0 idx then v else dflt (TMsg j) | _ => dflt (TMsg j) end ->
      rsteps (rbody sc dm j (c - 1)) start body y' ->
      rfact (FOneof ms) cur (CLen tag body) (VL (NOne idx) [y']).
    Proof.
      intros Hn Hf Hst Hr. destruct (member_facts idx tag (TMsg j) Hn) as (Ht & Hok & Hfm).
      destruct (len_merge tag j body start y' c [] 0 Ht Hf ltac:(lia) Hr) as [He _].
      split; [exact Ht|]. eexists _, _. split; [exact He|]. intros rest a. cbn [merge_fieldval tag_of].
      unfold merge_oneof. rewrite Hfm. rewrite <- Hst.
      destruct (len_merge tag j body start y' c rest a Ht Hf ltac:(lia) Hr) as [_ [a' E]].
      exists a'. rewrite (bind_ok _ _ _ _ _ E). reflexivity.
    Qed.

    Lemma oneof_messages_set idx tag j : nth_error ms idx = Some (tag, TMsg j) -> forall bodies y e,
      Forall fits (map (CLen tag) bodies) -> rsteps (rbody sc dm j (c - 1)) y (concat bodies) e ->
      rchain (FOneof ms) (VL (NOne idx) [y]) (map (CLen tag) bodies) (VL (NOne idx) [e]).
    Proof.
      intros Hn. induction bodies as [|b bodies IH]; intros y e Hf Hr.
      - cbn [concat] in Hr. inversion Hr; subst. constructor.
      - cbn [concat] in Hr. destruct (rsteps_split _ _ _ _ _ Hr) as (y1 & R1 & R2). cbn [map] in *. inversion Hf as [|? ? Hf0 Hfs]; subst.
        econstructor; [|apply IH; eauto].
        apply (oneof_message_step idx tag j b (VL (NOne idx) [y]) y y1 Hn Hf0); [rewrite Nat.eqb_refl; reflexivity|exact R1].
    Qed.

    Lemma oneof_chain : forall last rs x, oneof_runs (mconf ub dv sc) ms last rs x -> Forall fits rs ->
      rchain (FOneof ms) (VL NNone []) rs x /\
      match last with None => x = VL NNone [] | Some idx => exists e, x = VL (NOne idx) [e] end.
    Proof.
      induction 1 as [|prev pre xprev idx tag t run e Hruns IH Hprev Hn Hne Hrun]; intros Hf; [split; [constructor|reflexivity]|].
      apply Forall_app in Hf. destruct Hf as [Hfpre Hfrun]. destruct (IH Hfpre) as [Hch Hshape].
      split; [|eexists; reflexivity]. eapply rchain_app; [exact Hch|].
      destruct t as [p|j].
      - destruct Hrun as (vs & -> & Hvs & ->). apply oneof_scalars; auto. destruct vs; [cbn in Hne; congruence|discriminate].
      - destruct Hrun as (bodies & -> & Hm). destruct (member_facts idx tag (TMsg j) Hn) as (Ht & _ & _).
        destruct bodies as [|b bodies]; [cbn in Hne; congruence|].
        pose proof (inner_rsteps j e (concat (b :: bodies)) (c - 1) Hm (fits_bodies tag _ Ht Hfrun) ltac:(lia)) as Hr.
        cbn [concat] in Hr. destruct (rsteps_split _ _ _ _ _ Hr) as (y1 & R1 & R2). cbn [map] in *. inversion Hfrun as [|? ? Hf0 Hfs]; subst.
        econstructor; [|apply (oneof_messages_set idx tag j Hn bodies y1 e Hfs R2)].
        apply (oneof_message_step idx tag j b xprev (dflt (TMsg j)) y1 Hn Hf0); [|exact R1].
        destruct prev as [i0|]; [destruct Hshape as [e0 ->]|rewrite Hshape; reflexivity].
        destruct (Nat.eqb_spec i0 idx); [congruence|reflexivity].
    Qed.
  End Oneof.

  (* ---------------------------------------------------------------- map entries: a second instance of the engine *)
  Section Entry.
    Variables (k : proto_type) (vt : ty).
    Hypothesis Hkok : ty_ok sc (TScalar k) = true.
    Hypothesis Hvok : ty_ok sc vt = true.

    Definition eget (s : val * val) (p : nat) : val := match p with O => fst s | S O => snd s | _ => VI 0 end.
    Definition eset (s : val * val) (p : nat) (v : val) : val * val := match p with O => (v, snd s) | S O => (fst s, v) | _ => s end.
    Definition epos (r : crec) : option nat := if tag_of r =? 1 then Some 0%nat else if tag_of r =? 2 then Some 1%nat else None.
    Definition ety (p : nat) : ty := match p with O => TScalar k | _ => vt end.
    Definition estep (p : nat) (cur : val) (r : crec) (cur' : val) : Prop :=
      exists wt pl, enc_crec r = encode_key (tag_of r) wt ++ pl /\
        forall rest a, exists a', merge_ty rec (ety p) wt cur (c - 1) (mkR (pl ++ rest) a) = OOk cur' (mkR rest a').
    Definition eskip (r : crec) : Prop := unknown_ok (c - 1) r.

    Lemma estep_ok s r p c' : epos r = Some p -> (p < 2)%nat -> estep p (eget s p) r c' ->
      forall rest a, exists a', entry_body sc dm c k vt s (mkR (enc_crec r ++ rest) a) = OOk (eset s p c') (mkR rest a').
    Proof.
      intros Hp Hlt (wt & pl & He & Hm) rest a. unfold epos in Hp. rewrite He. unfold entry_body. rewrite <- app_assoc.
      destruct (Z.eqb_spec (tag_of r) 1) as [E1|N1].
      - inversion Hp; subst p. rewrite E1 in *. rewrite (bind_ok _ _ _ _ _ (decode_key_rt 1 wt _ a tag_ok_1)).
        change (1 =? 1) with true. cbv iota. destruct (Hm rest a) as [a' E]. exists a'. cbn [eget ety] in E.
        rewrite (bind_ok _ _ _ _ _ E). reflexivity.
      - destruct (Z.eqb_spec (tag_of r) 2) as [E2|N2]; [|discriminate]. inversion Hp; subst p. rewrite E2 in *.
        rewrite (bind_ok _ _ _ _ _ (decode_key_rt 2 wt _ a tag_ok_2)).
        change (2 =? 1) with false. change (2 =? 2) with true. cbv iota. destruct (Hm rest a) as [a' E]. exists a'. cbn [eget ety] in E.
        rewrite (bind_ok _ _ _ _ _ E). reflexivity.
    Qed.

    Lemma eskip_ok s r : epos r = None -> eskip r ->
      forall rest a, exists a', entry_body sc dm c k vt s (mkR (enc_crec r ++ rest) a) = OOk s (mkR rest a').
    Proof.
      intros Hp Hu rest a. unfold epos in Hp. destruct r as [t p v|t p vs|t body|t u]; cbn [eskip unknown_ok] in Hu; try contradiction.
      destruct Hu as (Ht & Hw & Hlv). cbn [tag_of enc_crec] in *. exists a. unfold urecord, entry_body. rewrite <- app_assoc.
      rewrite (bind_ok _ _ _ _ _ (decode_key_rt t (wt_of u) _ a Ht)).
      destruct (t =? 1); [discriminate|]. destruct (t =? 2); [discriminate|].
      rewrite (bind_ok _ _ _ _ _ (skip_field_exact u t (c - 1) depth_fuel rest a Hw Ht Hlv ltac:(unfold depth_fuel; lia))).
      destruct s; reflexivity.
    Qed.

    (* scalars in an entry slot: the last one wins *)
    Lemma entry_scalars p tagn q : ety p = TScalar q -> tag_ok tagn -> ty_ok sc (TScalar q) = true -> forall vs cur, scalars_ok q vs ->
      fchain estep p cur (map (CScalar tagn q) vs) (last vs cur).
    Proof.
      intros Hty Ht Hok. induction vs as [|v vs IH]; intros cur Hv; [constructor|]. inversion Hv as [|? ? Hv0 Hvs]; subst.
      cbn [map]. replace (last (v :: vs) cur) with (last vs v) by (clear; revert v; induction vs as [|w vs IH]; intros v; [reflexivity|]; cbn [last]; destruct vs; [reflexivity|apply IH]).
      econstructor; [|apply IH; exact Hvs].
      destruct (scalar_merge tagn q v cur (c - 1) [] 0 Ht Hv0 Hok) as (m & Hm & He & _).
      exists (mod_wire_type m), (payload m v). split; [exact He|]. intros rest a. rewrite Hty.
      destruct (scalar_merge tagn q v cur (c - 1) rest a Ht Hv0 Hok) as (m' & Hm' & _ & E). rewrite Hm in Hm'. inversion Hm'; subst m'. exact E.
    Qed.

    (* a message value split over several records *)
    Lemma entry_messages j : vt = TMsg j -> (1 <= dv)%nat -> forall bodies y x, Forall fits (map (CLen 2) bodies) ->
      rsteps (rbody sc dm j (c - 1 - 1)) y (concat bodies) x ->
      fchain estep 1 y (map (CLen 2) bodies) x.
    Proof.
      intros Hvt Hdv. induction bodies as [|b bodies IH]; intros y x Hf Hr.
      - cbn [concat] in Hr. inversion Hr; subst. constructor.
      - cbn [concat] in Hr. destruct (rsteps_split _ _ _ _ _ Hr) as (y1 & R1 & R2). cbn [map] in *. inversion Hf as [|? ? Hf0 Hfs]; subst.
        econstructor; [|apply IH; eauto].
        assert (H1 : 1 <= c - 1) by lia.
        destruct (len_merge 2 j b y y1 (c - 1) [] 0 tag_ok_2 Hf0 H1 R1) as [He _].
        eexists _, _. split; [exact He|]. intros rest a. cbn [ety]. rewrite Hvt.
        destruct (len_merge 2 j b y y1 (c - 1) rest a tag_ok_2 Hf0 H1 R1) as [_ E]. exact E.
    Qed.

    Lemma eproj0 body : proj epos 0 body = for_tags [1] body.
    Proof.
      apply filter_ext. intros r. unfold at_slot, epos. cbn [existsb]. destruct (tag_of r =? 1); [reflexivity|].
      destruct (tag_of r =? 2); reflexivity.
    Qed.

    Lemma eproj1 body : proj epos 1 body = for_tags [2] body.
    Proof.
      apply filter_ext. intros r. unfold at_slot, epos. cbn [existsb]. destruct (Z.eqb_spec (tag_of r) 1) as [E|N].
      - rewrite E. reflexivity.
      - destruct (tag_of r =? 2); reflexivity.
    Qed.

    Lemma entry_value_chain t vv rs : vt = t -> value_conf (mconf ub dv sc) 2 t vv rs -> Forall fits rs ->
      fchain estep 1 (dflt t) rs vv.
    Proof.
      intros Evt Hvc Hf. pose proof Hvok as Hok. rewrite Evt in Hok. destruct t as [q|j]; cbn [value_conf] in Hvc.
      - destruct Hvc as (vs & -> & Hvs & ->). change (dflt (TScalar q)) with (default_scalar q).
        apply (entry_scalars 1 2 q Evt tag_ok_2 Hok). exact Hvs.
      - destruct Hvc as (bodies & -> & Hm).
        apply (entry_messages j Evt (mconf_pos j vv _ Hm)); [exact Hf|].
        replace (c - 1 - 1) with (c - 2) by lia.
        apply inner_rsteps; [exact Hm|apply (fits_bodies 2 bodies tag_ok_2 Hf)|lia].
    Qed.

    (* the body of one entry record: key and value in any order, repeated, absent, unknown fields in between *)
    Theorem entry_run kv vv body : entry_conf ub (mconf ub dv sc) k vt kv vv body -> Forall fits body ->
      rsteps (entry_body sc dm c k vt) (dflt (TScalar k), dflt vt) body (kv, vv).
    Proof.
      intros (Hkc & Hvc & Htags & Hunk) Hf.
      destruct (engine (entry_body sc dm c k vt) 2 eget eset (fun _ => True) epos estep eskip) with
        (rs := body) (s := (dflt (TScalar k), dflt vt)) (x := fun p : nat => match p with O => kv | _ => vv end)
        as (s' & Hrun & _ & Hg); auto.
      - intros s p v _ Hp. destruct p as [|[|p]]; [reflexivity|reflexivity|lia].
      - intros s p q v Hpq. destruct p as [|[|p]], q as [|[|q]]; try congruence; reflexivity.
      - intros s r p c' _ Hp Hlt Hst. eapply estep_ok; eauto.
      - intros s r _ Hp Hu. eapply eskip_ok; eauto.
      - (* every record is routed to a slot or is an unknown field within the budget *)
        rewrite Forall_forall in *. intros r Hr. unfold routed, epos. specialize (Hunk r Hr). cbn [existsb] in Hunk.
        destruct (tag_of r =? 1); [lia|]. destruct (tag_of r =? 2); [lia|].
        specialize (Hunk eq_refl). destruct r as [t p v|t p vs|t b|t u]; cbn [unknown_ok eskip] in *; try contradiction.
        destruct Hunk as (H1 & H2 & H3). split; [exact H1|split; [exact H2|lia]].
      - eapply Forall_impl; [|exact Htags]. intros r Hr. apply enc_crec_nonempty. exact Hr.
      - intros p Hp. destruct p as [|[|p]]; [| |lia]; cbn [eget fst snd].
        + rewrite eproj0. cbn [value_conf] in Hkc. destruct Hkc as (vs & -> & Hvs & ->).
          change (dflt (TScalar k)) with (default_scalar k).
          apply (entry_scalars 0 1 k eq_refl tag_ok_1 Hkok). exact Hvs.
        + rewrite eproj1. apply (entry_value_chain vt vv _ eq_refl Hvc). apply Forall_filter. exact Hf.
      - destruct s' as [k' v']. rewrite <- (Hg 0%nat ltac:(lia)), <- (Hg 1%nat ltac:(lia)). exact Hrun.
    Qed.

    (* the records of a map field: entries accumulate, a later equal key replaces the earlier one *)
    Lemma map_entries tag : tag_ok tag -> forall rs (entries : list (val * val)) acc, Forall fits rs ->
      Forall2 (fun r kv => exists body, r = CLen tag body /\ entry_conf ub (mconf ub dv sc) k vt (fst kv) (snd kv) body) rs entries ->
      rchain (FMap tag k vt) (VL NMap acc) rs (VL NMap (fold_left (fun acc kv => map_insert (fst kv) (snd kv) acc) entries acc)).
    Proof.
      intros Ht rs entries acc Hf H. revert acc Hf. induction H as [|r [kv vv] rs entries (body & -> & Hec) Hrest IH]; intros acc Hf; [constructor|].
      inversion Hf as [|? ? Hf0 Hfs]; subst. cbn [fold_left fst snd]. econstructor; [|apply IH; exact Hfs].
      destruct (fits_len tag body Ht Hf0) as [Hz Hfb]. pose proof (entry_run kv vv body Hec Hfb) as Hr.
      split; [exact Ht|]. eexists _, _. split; [apply enc_len_split; exact Ht|]. intros rest a. cbn [merge_fieldval tag_of fst snd].
      unfold merge_map. rewrite <- app_assoc.
      assert (E : exists a', map_entry_merge (fun wt x c0 => merge_ty rec (TScalar k) wt x c0) (fun wt x c0 => merge_ty rec vt wt x c0)
                   (dflt (TScalar k)) (dflt vt) c
                   (mkR (encode_varint (zlen (enc_crecs body)) ++ enc_crecs body ++ rest) a) = OOk (kv, vv) (mkR rest a')).
      { unfold map_entry_merge.
        rewrite (bind_ok _ _ _ _ _ (limit_ok c _ ltac:(lia))). rewrite (bind_ok _ _ _ _ _ (enter_ok c _ ltac:(lia))).
        change (merge_loop _ (dflt (TScalar k), dflt vt)) with (merge_loop (entry_body sc dm c k vt) (dflt (TScalar k), dflt vt)).
        apply merge_loop_gsteps; [|exact Hz]. apply rsteps_gsteps. exact Hr. }
      destruct E as [a' E]. eexists. rewrite (bind_bind_ok _ _ _ _ _ _ E). reflexivity.
    Qed.
  End Entry.

  (* ---------------------------------------------------------------- any field *)
  Lemma unknown_ok_mono u1 u2 r : u1 <= u2 -> unknown_ok u1 r -> unknown_ok u2 r.
  Proof. intros H. destruct r; cbn [unknown_ok]; try tauto. intros (H1 & H2 & H3). repeat split; auto; try apply H1. lia. Qed.

  Variable Dd' : nat.                 (* depth of the defaults the start value was built from *)
  Hypothesis HDd : (dv <= Dd')%nat.
  Definition dt0 (t : ty) : val := match t with TScalar p => default_scalar p | TMsg j => default_msg Dd' sc j end.

  Lemma field_chain f x rs : field_ok sc f = true -> Forall tag_ok (field_tags f) -> nodupZ (field_tags f) = true ->
    field_conf ub (mconf ub dv sc) f x rs -> Forall fits rs -> rchain f (default_field dt0 f) rs x.
  Proof.
    intros Hok Ht Hnd Hfc Hf. destruct f as [tag t|tag t|tag t|tag k vt|ms]; cbn [field_conf default_field field_tags field_ok] in *.
    - inversion Ht as [|? ? Htag _]; subst. destruct t as [p|j]; cbn [value_conf dt0] in *.
      + destruct Hfc as (vs & -> & Hvs & ->). apply singular_scalars; auto.
      + destruct Hfc as (bodies & -> & Hm). apply singular_messages; auto.
        apply IHmsg; auto; [apply (fits_bodies tag bodies Htag Hf)|lia].
    - inversion Ht as [|? ? Htag _]; subst. destruct Hfc as [[-> ->]|(Hne & e & -> & Hvc)]; [constructor|].
      destruct t as [p|j]; cbn [value_conf] in Hvc.
      + destruct Hvc as (vs & -> & Hvs & ->). apply optional_scalars; auto. destruct vs; [cbn in Hne; congruence|discriminate].
      + destruct Hvc as (bodies & -> & Hm). apply optional_messages; auto; [destruct bodies; [cbn in Hne; congruence|discriminate]|].
        apply inner_rsteps; [exact Hm|apply (fits_bodies tag bodies Htag Hf)|lia].
    - inversion Ht as [|? ? Htag _]; subst. destruct t as [p|j].
      + destruct Hfc as (vss & H2 & ->). apply (repeated_chunks tag p Htag Hok rs vss [] Hf H2).
      + destruct Hfc as (es & H2 & ->). apply (repeated_messages tag j Htag rs es [] Hf H2).
    - inversion Ht as [|? ? Htag _]; subst. destruct Hfc as (entries & H2 & ->).
      apply andb_prop in Hok. destruct Hok as [Hok Hvt]. apply andb_prop in Hok. destruct Hok as [_ Hk].
      apply (map_entries k vt Hk Hvt tag Htag rs entries [] Hf H2).
    - destruct Hfc as (last & Hruns). apply (oneof_chain ms Hnd Ht Hok last rs x Hruns Hf).
  Qed.
End FieldChains.

(* ------------------------------------------------------------------ all fields of a message, records in any order *)
Lemma unknown_ok_le u1 u2 r : u1 <= u2 -> unknown_ok u1 r -> unknown_ok u2 r.
Proof. intros H. destruct r; cbn [unknown_ok]; try tauto. intros (H1 & H2 & H3). split; [exact H1|split; [exact H2|lia]]. Qed.

Lemma all_fields_nth fc rs : forall fs xs, all_fields_conf fc fs xs rs ->
  length xs = length fs /\ forall p f, nth_error fs p = Some f -> fc f (nth p xs (VI 0)) (for_tags (field_tags f) rs).
Proof.
  induction fs as [|f fs IH]; intros [|x xs] H; cbn [all_fields_conf] in H; try contradiction.
  - split; [reflexivity|]. intros [|p] f0 Hn; discriminate Hn.
  - destruct H as [H0 H1]. destruct (IH xs H1) as [Hl Hn]. split; [cbn; lia|]. intros [|p] f0 Hp; cbn [nth_error nth] in *.
    + inversion Hp; subst. exact H0.
    + apply Hn. exact Hp.
Qed.

Lemma nodupZ_field : forall fs f, nodupZ (flat_map field_tags fs) = true -> In f fs -> nodupZ (field_tags f) = true.
Proof.
  induction fs as [|f0 fs IH]; intros f Hnd Hin; [destruct Hin|]. destruct Hin as [->|Hin]; cbn [flat_map] in Hnd.
  - eapply nodupZ_app_l; eauto.
  - apply IH; [eapply nodupZ_app_r; eauto|exact Hin].
Qed.

Lemma rchain_fchain sc dm c fs p f : nodupZ (flat_map field_tags fs) = true -> nth_error fs p = Some f ->
  forall c0 rs c1, rchain sc dm c f c0 rs c1 -> Forall (fun r => existsb (Z.eqb (tag_of r)) (field_tags f) = true) rs ->
  fchain (mstep sc dm c fs) p c0 rs c1.
Proof.
  intros Hnd Hn c0 rs c1 H. induction H as [c0|c0 r c1 rs c2 (Ht & wt & pl & He & Hm) Hr IH]; intros Hall; [constructor|].
  inversion Hall as [|? ? Hin Hrest]; subst. econstructor; [|apply IH; exact Hrest].
  exists f, wt, pl. split; [apply find_pos_at; assumption|]. split; [exact Ht|]. split; [exact He|exact Hm].
Qed.

Lemma proj_for_tags fs p f rs : nodupZ (flat_map field_tags fs) = true -> nth_error fs p = Some f ->
  proj (mpos fs) p rs = for_tags (field_tags f) rs.
Proof.
  intros Hnd Hn. apply filter_ext. intros r. unfold at_slot, mpos.
  destruct (existsb (Z.eqb (tag_of r)) (field_tags f)) eqn:E.
  - rewrite (find_pos_at fs p f (tag_of r) Hnd Hn E). apply Nat.eqb_refl.
  - destruct (find_pos fs (tag_of r)) as [[q f']|] eqn:Eq; [|reflexivity].
    destruct (Nat.eqb_spec q p) as [->|]; [|reflexivity].
    destruct (find_pos_spec _ _ _ _ Eq) as (H1 & H2 & _). rewrite Hn in H1. inversion H1; subst. congruence.
Qed.

Section Level.
  Variable ub : Z.
  Variable sc : schema.
  Hypothesis Hs : schema_ok sc = true.
  Variables (dv dm : nat) (c : Z).
  Hypothesis Hub : 0 <= ub.
  Hypothesis Hdm : (dv <= dm)%nat.
  Hypothesis Hc : 2 * Z.of_nat dv + 1 + ub <= c <= recursion_limit.
  Hypothesis IHmsg : forall j x rs c' Dd, mconf ub dv sc j x rs -> Forall fits rs -> (dv <= Dd)%nat ->
    2 * Z.of_nat dv - 1 + ub <= c' <= recursion_limit ->
    rsteps (rbody sc dm j c') (default_msg Dd sc j) rs x.

  Theorem level_run j (fs : msgdesc) xs rs Dd' : nth_error sc j = Some fs -> (dv <= Dd')%nat ->
    all_fields_conf (field_conf ub (mconf ub dv sc)) fs xs rs ->
    Forall (fun r => tag_ok (tag_of r)) rs ->
    Forall (fun r => existsb (Z.eqb (tag_of r)) (flat_map field_tags fs) = false -> unknown_ok ub r) rs ->
    Forall fits rs ->
    rsteps (rbody sc (S dm) j c) (VL NMsg (map (default_field (dt0 sc Dd')) fs)) rs (VL NMsg xs).
  Proof.
    intros Hn HDd Hall Htags Hunk Hf. destruct (all_fields_nth _ rs fs xs Hall) as [Hl Hfc].
    pose proof (schema_ok_fields sc j fs Hs Hn) as Hok. pose proof (schema_ok_tags sc j fs Hs Hn) as Htg.
    assert (Hnd : nodupZ (flat_map field_tags fs) = true).
    { unfold schema_ok in Hs. apply andb_prop in Hs. apply proj1 in Hs. rewrite forallb_forall in Hs. pose proof (nth_error_In _ _ Hn) as Hin. specialize (Hs fs Hin).
      unfold msgdesc_ok in Hs. apply andb_prop in Hs. tauto. }
    destruct (msg_engine sc dm j c fs Hn ltac:(lia) rs (map (default_field (dt0 sc Dd')) fs) (fun p => nth p xs (VI 0)))
      as (xs' & Hrun & Hl' & Hnth).
    - apply map_length.
    - rewrite Forall_forall in *. intros r Hr. unfold routed, mpos.
      destruct (find_pos fs (tag_of r)) as [[p f]|] eqn:E; [apply (find_pos_spec _ _ _ _ E)|].
      destruct (find_pos_none _ _ E) as [_ Hex]. apply (unknown_ok_le ub c); [lia|]. apply Hunk; assumption.
    - exact Htags.
    - intros p Hp. destruct (nth_error fs p) as [f|] eqn:Ef; [|apply nth_error_None in Ef; lia].
      rewrite (proj_for_tags fs p f rs Hnd Ef).
      assert (Hd0 : nth p (map (default_field (dt0 sc Dd')) fs) (VI 0) = default_field (dt0 sc Dd') f).
      { rewrite (nth_indep _ (VI 0) (default_field (dt0 sc Dd') f)) by (rewrite map_length; exact Hp).
        rewrite map_nth. f_equal. apply nth_error_nth. exact Ef. }
      rewrite Hd0. pose proof (nth_error_In _ _ Ef) as Hin.
      apply (rchain_fchain sc dm c fs p f Hnd Ef).
      + apply (field_chain ub sc Hs dv dm c Hub Hdm Hc IHmsg Dd' HDd f).
        * rewrite forallb_forall in Hok. apply Hok; exact Hin.
        * rewrite Forall_forall in *. intros t Ht. apply Htg. apply in_flat_map. exists f. auto.
        * eapply nodupZ_field; eauto.
        * apply Hfc. exact Ef.
        * apply Forall_filter. exact Hf.
      + apply Forall_forall. intros r Hr. unfold for_tags in Hr. apply filter_In in Hr. tauto.
    - assert (xs' = xs) as ->; [|exact Hrun].
      apply (nth_ext _ _ (VI 0) (VI 0)); [lia|]. intros p Hp. apply Hnth. lia.
  Qed.
End Level.

(* ------------------------------------------------------------------ messages, by induction on the depth of the value *)
Theorem mconf_run ub sc : schema_ok sc = true -> 0 <= ub -> forall d j x rs dm c Dd,
  mconf ub d sc j x rs -> Forall fits rs -> (d <= dm)%nat -> (d <= Dd)%nat ->
  2 * Z.of_nat d - 1 + ub <= c <= recursion_limit ->
  rsteps (rbody sc dm j c) (default_msg Dd sc j) rs x.
Proof.
  intros Hs Hub. induction d as [|dv IH]; intros j x rs dm c Dd Hm Hf Hdm HDd Hc; [contradiction|].
  destruct dm as [|dm]; [lia|]. destruct Dd as [|Dd]; [lia|].
  cbn [mconf] in Hm. destruct (nth_error sc j) as [fs|] eqn:En; [|contradiction].
  destruct x as [z|l|k xs]; try contradiction. destruct k; try contradiction. destruct Hm as (Hall & Htags & Hunk).
  rewrite (default_msg_unfold Dd sc j fs En).
  change (fun t : ty => match t with TScalar p => default_scalar p | TMsg j0 => default_msg Dd sc j0 end) with (dt0 sc Dd).
  apply (level_run ub sc Hs dv dm c Hub ltac:(lia) ltac:(lia)); auto; [|lia].
  intros j0 x0 rs0 c' Dd0 H1 H2 H3 H4. apply IH; auto; lia.
Qed.

(* C06_in *)
Theorem conforming_decodes ub sc d i v bs a : schema_ok sc = true -> 0 <= ub -> conforming ub d sc i v bs ->
  zlen bs < two64 -> 2 * Z.of_nat d - 1 + ub <= recursion_limit ->
  exists a', msg_decode sc i (mkR bs a) = OOk v (mkR [] a').
Proof.
  intros Hs Hub (rs & -> & Hm) Hz Hd.
  assert (Hdf : (d <= depth_fuel)%nat) by (unfold depth_fuel; lia).
  pose proof (mconf_run ub sc Hs Hub d i v rs depth_fuel ctx_default depth_fuel Hm (fits_all rs Hz) Hdf Hdf
                ltac:(unfold ctx_default; lia)) as R.
  pose proof (rsteps_gsteps _ _ _ _ R) as G.
  destruct (gsteps_loop _ _ _ _ G [] a (S (length (enc_crecs rs ++ []))) ltac:(lia)) as [a' E].
  exists a'. unfold msg_decode. rewrite msg_merge_unfold. cbn [rb length] in *. rewrite app_nil_r in E. exact E.
Qed.

(* ------------------------------------------------------------------ non-vacuity: a non-canonical conforming encoding *)
Lemma mconf_intro ub d (sc : schema) i (fs : msgdesc) xs rs : nth_error sc i = Some fs ->
  all_fields_conf (field_conf ub (mconf ub d sc)) fs xs rs -> Forall (fun r => tag_ok (tag_of r)) rs ->
  Forall (fun r => existsb (Z.eqb (tag_of r)) (flat_map field_tags fs) = false -> unknown_ok ub r) rs ->
  mconf ub (S d) sc i (VL NMsg xs) rs.
Proof. intros Hn H1 H2 H3. cbn [mconf]. rewrite Hn. auto. Qed.

Definition nc_inner : val := VL NMsg [VI 4; VL NRep [VI 7]; VL NMap []; VL NNone []; VL NNone []].
Definition nc_value : val :=
  VL NMsg [VI 9; VL NRep [VI 1; VI 2; VI 3]; VL NMap [VL NPair [VB [x61]; VI 5]]; VL (NOne 1) [VI 8]; VL NSome [nc_inner]].
(* records out of field order; field 1 written twice (last wins); field 2 as one unpacked and one packed record; an
   unknown field in between; the oneof set twice (later member replaces); the map entry with value before key; the
   embedded message of field 6 split over two records *)
Definition nc_records : list crec :=
  [ CLen 6 [CScalar 1 TYPE_INT32 (VI 4)];
    CScalar 2 TYPE_SINT32 (VI 1);
    CScalar 1 TYPE_INT32 (VI 7);
    CUnknown 9 (UVarint 3);
    CPacked 2 TYPE_SINT32 [VI 2; VI 3];
    CScalar 4 TYPE_BOOL (VI 1);
    CLen 3 [CScalar 2 TYPE_INT64 (VI 5); CScalar 1 TYPE_STRING (VB [x61])];
    CScalar 5 TYPE_UINT32 (VI 8);
    CLen 6 [CScalar 2 TYPE_SINT32 (VI 7)];
    CScalar 1 TYPE_INT32 (VI 9) ].

Ltac tagok := unfold tag_ok; vm_compute; split; congruence.
Ltac all_tags := repeat (constructor; [cbn [tag_of]; tagok|]); constructor.
Ltac ffilter := unfold for_tags; cbn [filter existsb tag_of map fst Z.eqb Pos.eqb orb field_tags].

Lemma nc_inner_conf : mconf 1 1 demo_schema 0 nc_inner [CScalar 1 TYPE_INT32 (VI 4); CScalar 2 TYPE_SINT32 (VI 7)].
Proof.
  apply (mconf_intro 1 0 demo_schema 0 _ _ _ eq_refl).
  - cbn [all_fields_conf]. ffilter. repeat split.
    + exists [VI 4]. repeat split. repeat constructor.
    + exists [[VI 7]]. split; [|reflexivity]. constructor; [left; exists (VI 7); auto|constructor].
    + exists []. split; [constructor|reflexivity].
    + exists None. constructor.
    + left. auto.
  - all_tags.
  - repeat (constructor; [cbn; intros H; discriminate H|]). constructor.
Qed.

Example conforming_nonvacuous :
  mconf 1 2 demo_schema 0 nc_value nc_records /\
  enc_crecs nc_records <> enc_msg false 2 demo_schema 0 nc_value /\
  exists a', msg_decode demo_schema 0 (mkR (enc_crecs nc_records) 0) = OOk nc_value (mkR [] a').
Proof.
  assert (C : mconf 1 2 demo_schema 0 nc_value nc_records).
  { apply (mconf_intro 1 1 demo_schema 0 _ _ _ eq_refl).
    - cbn [all_fields_conf]. unfold nc_records. ffilter. repeat split.
      + exists [VI 7; VI 9]. repeat split. repeat constructor.
      + exists [[VI 1]; [VI 2; VI 3]]. split; [|reflexivity]. constructor; [left; exists (VI 1); auto|].
        constructor; [|constructor]. right. repeat split. repeat constructor.
      + exists [(VB [x61], VI 5)]. split; [|reflexivity]. constructor; [|constructor].
        eexists. split; [reflexivity|]. unfold entry_conf. ffilter. cbn [fst snd]. repeat split.
        * exists [VB [x61]]. repeat split. repeat constructor.
        * exists [VI 5]. repeat split. repeat constructor.
        * all_tags.
        * repeat (constructor; [cbn; intros H; discriminate H|]). constructor.
      + exists (Some 1%nat).
        apply (runs_snoc _ _ (Some 0%nat) [CScalar 4 TYPE_BOOL (VI 1)] (VL (NOne 0) [VI 1]) 1%nat 5 (TScalar TYPE_UINT32) [CScalar 5 TYPE_UINT32 (VI 8)] (VI 8));
          [|congruence|reflexivity|discriminate|exists [VI 8]; repeat split; repeat constructor].
        apply (runs_snoc _ _ None [] (VL NNone []) 0%nat 4 (TScalar TYPE_BOOL) [CScalar 4 TYPE_BOOL (VI 1)] (VI 1));
          [constructor|congruence|reflexivity|discriminate|exists [VI 1]; repeat split; repeat constructor].
      + right. split; [discriminate|]. exists nc_inner. split; [reflexivity|].
        exists [[CScalar 1 TYPE_INT32 (VI 4)]; [CScalar 2 TYPE_SINT32 (VI 7)]]. split; [reflexivity|]. exact nc_inner_conf.
    - unfold nc_records. all_tags.
    - unfold nc_records. repeat (constructor; [cbn; intros H; try discriminate H|]); [|constructor].
      split; [tagok|]. split; [vm_compute; split; congruence|vm_compute; congruence]. }
  split; [exact C|]. split; [vm_compute; congruence|].
  apply (conforming_decodes 1 demo_schema 2 0); [vm_compute; reflexivity|lia|exists nc_records; auto|vm_compute; reflexivity|vm_compute; congruence].
Qed.
