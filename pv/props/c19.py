"""C19 -- a failed decode releases everything it allocated (Thrift half: the emitted decoders).

Implementation oracle: the driver's `mem` operation runs the emitted decoder on a truncated / corrupted
encoding under a counting global allocator: live heap bytes before the call (without the input buffer) must
equal live bytes after the result (value or error) and the input have been dropped, and no handle to the input
`Bytes` may survive (`Bytes::is_unique` of a second handle; a surviving slice also shows as the input
allocation staying live).  Inputs: for every emitted type, reference encodings of generated values, cut at
every (quick: sampled) truncation point, and single-byte corruptions that make decoding fail; binary and
compact; sync and async."""
import re
from .. import gengen, genref, genrun
from ..gencheck import have_property_file, run_check

PROP = 'C19'
LEVEL = 'proof' if have_property_file(PROP) else 'exploration'
MEM_RE = re.compile(r'^(ok|err|panic|hang) LIVE (-?\d+) PEAK (\d+) REFS (\d+)$')


def owns_heap(sch, ty, seen=None):
    """does a value of this type own heap memory or a reference into the input buffer?"""
    seen = seen if seen is not None else set()
    t = sch.resolve(ty)
    if t[0] in ('string', 'binary', 'list', 'set', 'map'):
        return True
    if t[0] != 'ref' or t[1] in seen:
        return False
    seen.add(t[1])
    d = sch.types[t[1]]
    if d['kind'] == 'struct':
        return any(owns_heap(sch, f['ty'], seen) for f in d['fields']) or True   # keep builds add LinkedBytes; Box for recursion
    if d['kind'] == 'union':
        return any(owns_heap(sch, x['ty'], seen) for x in d['variants'])
    return False


def has_heap_list(sch, tname):
    """F-19a class: the type (transitively) contains a list whose elements own heap memory / input references:
    the sync list template writes elements through a raw pointer into a Vec of length 0"""
    found = [False]
    seen = set()

    def go(ty):
        t = ty
        if t[0] == 'list':
            if owns_heap(sch, t[1]):
                found[0] = True
            go(t[1])
        elif t[0] == 'set':
            go(t[1])
        elif t[0] == 'map':
            go(t[1]); go(t[2])
        elif t[0] == 'ref' and t[1] not in seen:
            seen.add(t[1])
            d = sch.types[t[1]]
            if d['kind'] == 'typedef':
                go(d['ty'])
            elif d['kind'] == 'struct':
                for f in d['fields']:
                    go(f['ty'])
            elif d['kind'] == 'union':
                for x in d['variants']:
                    go(x['ty'])
    go(('ref', tname))
    return found[0]


def cuts(n, tier, rng):
    if n <= 1:
        return []
    if tier != 'quick' or n <= 24:
        return list(range(1, n))
    pts = set(rng.sample(range(1, n), 18)) | {1, 2, 3, n - 1, n - 2, n // 2}
    return sorted(p for p in pts if 0 < p < n)


def gen_cases(gb, rng, tier):
    sch = gb.schema
    cases = []
    k = 0
    for cfg in gb.configs:
        for tname in sch.names_in(cfg):
            d = sch.types[tname]
            if d['kind'] not in ('struct', 'union') and not (d['kind'] == 'typedef' and sch.resolve(('ref', tname))[0] in ('list', 'set', 'map')):
                continue
            ty = ('ref', tname)
            nvals = 2 if tier == 'quick' else 8
            for i in range(nvals):
                v = gengen.gen_value(rng, sch, ty, 2 if i % 2 == 0 else 3)
                for proto in ('binary', 'compact'):
                    enc = genref.encode(sch, ty, v, proto)
                    if len(enc) > (400 if tier == 'quick' else 3000):
                        continue
                    inputs = [('trunc@%d' % c, enc[:c]) for c in cuts(len(enc), tier, rng)]
                    for _ in range(4 if tier == 'quick' else 16):
                        if len(enc) < 2:
                            break
                        pos = rng.randrange(len(enc))
                        b = bytearray(enc)
                        b[pos] = rng.choice([0xff, 0x7f, 0x80, 0x00, 0x0c, 0x0f, b[pos] ^ 0x40, b[pos] ^ 0x01])
                        inputs.append(('corrupt@%d' % pos, bytes(b)))
                    for what, data in inputs:
                        k += 1
                        mode = 'sync' if k % 3 else 'async:' + genrun.SCHEDULES[k % len(genrun.SCHEDULES)]
                        cases.append(dict(line=genrun.case_line('mem', cfg, tname, proto, mode, data), cfg=cfg, type=tname, proto=proto,
                                          mode=mode, fault=what, nontrivial=True, model=False))
    return cases


def evaluate(gb, case, out):
    m = MEM_RE.match(out or '')
    sch = gb.schema
    cls = None
    if case['mode'] == 'sync' and has_heap_list(sch, case['type']):
        cls = 'list-decode-leak'
    if not m and case['mode'] != 'sync' and (out or '').startswith('CRASH'):
        # the emitted ASYNC container decoders preallocate from the wire count (Vec::with_capacity(size)); a corrupted
        # count makes the allocator give up and the process abort: finding F-09e of property C09 (not a failed decode
        # that returns, so there is nothing to measure for C19); counted in the distribution as `aborted`
        return []
    if not m:
        if genrun.is_arg_swallow(sch, case['cfg'], case['type'], case['mode']):
            cls = 'keep-is-arg-swallow'
        return [('decoder does not return on malformed input: %s' % (out or '')[:100], cls)]
    kind, live, peak, refs = m.group(1), int(m.group(2)), int(m.group(3)), int(m.group(4))
    if kind == 'ok':
        return []           # the corruption still decodes: nothing to check here
    if kind in ('panic', 'hang'):
        if case['mode'] != 'sync' and kind == 'panic':
            return []       # capacity-overflow panic of the async preallocation: F-09e (C09), no returned error to measure
        if genrun.is_arg_swallow(sch, case['cfg'], case['type'], case['mode']):
            cls = 'keep-is-arg-swallow'
        return [('decoder %ss on malformed input' % kind, cls)]
    bad = []
    if live != 0:
        bad.append(('after a failed decode %d bytes stay allocated (error and input dropped)' % live, cls))
    elif refs != 0:
        bad.append(('after a failed decode a reference to the input buffer survives', cls))
    return bad


def extra(cases, outs):
    k = {'ok': 0, 'err': 0, 'panic': 0}
    peak = 0
    for o in outs:
        m = MEM_RE.match(o or '')
        if m:
            k[m.group(1)] = k.get(m.group(1), 0) + 1
            peak = max(peak, int(m.group(3)))
    k['aborted'] = sum(1 for o in outs if (o or '').startswith('CRASH'))
    return dict(decode_outcomes=k, truncations=sum(1 for c in cases if c['fault'].startswith('trunc')),
                corruptions=sum(1 for c in cases if c['fault'].startswith('corrupt')), max_peak_bytes=peak)


def run(chk, replay=None):
    return run_check(chk, replay, PROP, gen_cases, evaluate,
                     rule="every emitted struct / union / container typedef of the corpus x 2 (thorough: 8) generated values x reference "
                          "encodings in {binary, compact} (<= 400 bytes quick) x truncation at every offset (quick: 24 sampled offsets for long "
                          "messages) + 4 (16) single-byte corruptions x {sync, async schedules} x builder configs; observation: counting global "
                          "allocator (live bytes before == after dropping result and input) and Bytes::is_unique of a second input handle; "
                          "distinct by SHA-1 of the case line",
                     extra_dist=extra, model_ops=())
