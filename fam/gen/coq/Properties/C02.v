(* C02 -- generated-code round trip: for every well-formed schema and every value of a declared type, the
   emitted decoder reads back what the emitted encoder wrote, up to the permitted difference (absent optional
   fields with an IDL default come back holding the default: fill_defaults).  Statements only; the lemmas are in
   Proofs/RoundP.v (on top of Proofs/EncP.v: enc_ty = write_val . to_tval, and the primitive read-back laws of
   PV.Proofs.HeaderP / PrimP / RoundtripP). *)
From PVGen Require Import Gen GenSpec Proofs.RoundP.
From PV Require Import Proofs.HeaderP.
Open Scope Z_scope.

(* p ranges over {binary, binary-LE, compact}, k over {BytesMut, LinkedBytes zero-copy off / on}; sync decoder.
   Written with ANY writer context without a pending bool field, the encoder succeeds and leaves the context as it
   was; read from any idle reader context with ARBITRARY trailing bytes [r], the decoder returns the value with
   defaults filled in, consumes exactly the bytes written and leaves the reader context as it was.
   Sets and maps: GSet / GMap carry the order in which the encoder iterated; the statement holds for every such
   order (the "up to permutation" reading of the property: whatever order the hash set iterates in, the decoded
   collection has the same elements in that order).  Struct values list their present fields in declaration order
   (has_type), which is the order the emitted encoder writes them in. *)
Theorem C02_roundtrip : forall S p k t v,
  wf_schema S = true -> has_type S t v = true ->
  forall c, w_pend c = None ->
  exists ss, enc_ty S p k t v c = Ok (ss, c) /\
    forall fuel r rcx, (vsize (to_tval S t v) <= fuel)%nat -> idle rcx ->
      gen_decode S p fuel t (mkS (flat ss ++ r) rcx) = Ok (fill_defaults S t v, mkS r rcx).
Proof. exact gen_roundtrip. Qed.
Print Assumptions C02_roundtrip.

(* fresh protocol objects, complete buffer *)
Theorem C02_roundtrip_fresh : forall S p k t v b,
  wf_schema S = true -> has_type S t v = true -> gen_encode S p k t v = Ok b ->
  forall fuel, (vsize (to_tval S t v) <= fuel)%nat ->
    gen_decode S p fuel t (mkS b r0) = Ok (fill_defaults S t v, mkS [] r0).
Proof. exact gen_roundtrip_fresh. Qed.
Print Assumptions C02_roundtrip_fresh.

(* ---- the other two ways the emitted code reads and writes (corollaries: Proofs/RoundCorP.v, AsyncGenP.v) ---- *)
From PVGen Require Import GenUnsafe GenAsync Proofs.RoundCorP Proofs.AsyncGenP.

(* unchecked binary codec (composed with C11_gen_write_eq / C11_gen_read_eq): the unchecked writer, given a window with room
   for the message, produces the checked writer's segments; the unchecked reader on those bytes followed by ARBITRARY bytes [r]
   returns the value with the IDL defaults filled in and stops exactly at [r] *)
Theorem C02_roundtrip_unchecked : forall S k zc t v,
  wf_schema S = true -> has_type S t v = true ->
  (match k with BContig => True | BLinked z => z = zc end) ->
  exists ss, enc_ty S PBinary k t v w0 = Ok (ss, w0) /\
    (forall cap, Z.of_nat (length (flat ss)) <= cap ->
       exists u', uenc_ty S zc t v (match k with BContig => uw_contig cap | BLinked _ => uw_linked cap end) = Ok (ss, u')) /\
    forall fuel r, (vsize (to_tval S t v) <= fuel)%nat ->
      exists K u', (forall fk, (K <= fk)%nat -> gen_udecode false S fk fuel t (mkU (flat ss ++ r) 0) = Ok (fill_defaults S t v, u')) /\
                   urest u' = r.
Proof. exact roundtrip_unchecked. Qed.
Print Assumptions C02_roundtrip_unchecked.

(* asynchronous decoder, every protocol (= C12_gen_roundtrip): what the emitted encoder wrote is decoded by decode_async to the
   value with the IDL defaults filled in, pulling exactly the bytes of the message and nothing of what follows on the stream *)
Theorem C02_roundtrip_async : forall S p k t v,
  wf_schema S = true -> has_type S t v = true ->
  forall c, w_pend c = None ->
  exists ss, enc_ty S p k t v c = Ok (ss, c) /\
    forall fuel r rcx, (vsize (to_tval S t v) <= fuel)%nat -> idle rcx -> Z.of_nat (length (flat ss ++ r)) < 2 ^ 63 ->
      gen_decode_async S p fuel t (mkS (flat ss ++ r) rcx) = Ok (fill_defaults S t v, mkS r rcx).
Proof. exact gen_async_roundtrip. Qed.
Print Assumptions C02_roundtrip_async.

(* the encoder is the value interpreter's writer on the self-describing tree of the value (so every theorem of
   the runtime level about write_val -- buffer independence, size, skipping by an old reader -- applies to the
   emitted encoder) *)
Theorem C02_encode_is_write_val : forall S, wf_schema S = true -> forall p k v t,
  has_type S t v = true -> forall c, enc_ty S p k t v c = write_val p k (to_tval S t v) c.
Proof. exact EncP.enc_as_tval. Qed.
Print Assumptions C02_encode_is_write_val.

Theorem C02_tree_well_typed : forall S, wf_schema S = true -> forall v t,
  has_type S t v = true -> wt (to_tval S t v) = true /\ ttype_of (to_tval S t v) = ttype_of_ty S t.
Proof. intros S Hwf v t Ht. split; [exact (EncP.to_tval_wt S Hwf v t Ht)|exact (EncP.to_tval_ttype S v t Ht)]. Qed.
Print Assumptions C02_tree_well_typed.

(* ---------- the EMITTED code, lowered (structural tie: emitted text -> ops -> model) ----------
   tools/emitted_ops.py lowers, on every run, the bodies of encode / size / decode of every type the real pilota-build
   emitted for the corpus (plain and keep_unknown_fields configurations) into rows of ops
   (Generated/EmittedOps.v, next to schema_plain / schema_keep: schema.txt restricted to the types the configuration emits). *)
From PVGen Require Import EmitOps EmitDen Generated.EmittedOps Proofs.EmitOpsP Proofs.EmitTableP.

(* the table lemma, by computation: for every type of the corpus schema the regenerated rows (normalised: String / FastStr,
   Bytes / Vec<u8>, u8 / i8, hash / btree, Box / Arc and Rust names forgotten) ARE the rows the template model prescribes --
   field order, field ids, announced TTypes, method kinds, optional wrappers, decoder arms, variables, required checks,
   late defaults, retention statements; and the three bodies of a type name the same members under the same ids *)
Theorem C02_emitted_ops_match :
  ops_match schema_plain false emitted_plain /\ ops_match schema_keep true emitted_keep /\
  (0 < length emitted_plain)%nat /\ (0 < length emitted_keep)%nat.
Proof. exact emitted_ops_match. Qed.
Print Assumptions C02_emitted_ops_match.

Theorem C02_emitted_row_is_prescribed : forall n r d,
  (nth_error emitted_plain n = Some r -> lookup schema_plain n = Some d -> norm_row r = presc_row schema_plain false d /\ names_ok r = true) /\
  (nth_error emitted_keep n = Some r -> lookup schema_keep n = Some d -> norm_row r = presc_row schema_keep true d /\ names_ok r = true).
Proof. exact emitted_row_is_prescribed. Qed.
Print Assumptions C02_emitted_row_is_prescribed.

(* the prescribed rows denote the model: every schema, either configuration, every protocol and buffer kind, every value
   (without an `_UnknownFields` variant where the configuration has no retention) *)
Theorem C02_ops_denote_encode : forall S ck p, void_variants_zero S = true -> forall k v t,
  (ck = true \/ no_uu v = true) -> den_enc (presc_tbl S ck) p k (presc_vop S t) v = enc_ty S p k t v.
Proof. exact den_enc_presc. Qed.
Print Assumptions C02_ops_denote_encode.

(* the chain for the corpus of this run: the rows AS LOWERED from the text (normalisation does not change the denotation:
   Proofs/EmitNormP.v) denote the model *)
Theorem C02_emitted_encode_is_model : forall p k t v,
  (no_uu v = true -> den_enc emitted_plain p k (presc_vop schema_plain t) v = enc_ty schema_plain p k t v) /\
  den_enc emitted_keep p k (presc_vop schema_keep t) v = enc_ty schema_keep p k t v.
Proof. exact emitted_encode_is_model. Qed.
Print Assumptions C02_emitted_encode_is_model.
