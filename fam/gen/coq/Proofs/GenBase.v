(* Proof infrastructure for the gen family: nested induction principle for gval, top-level names for the
   inner loops of Gen.v / GenSpec.v with their (definitional) equation lemmas, facts about well-formed
   schemas. *)
From PVGen Require Import Gen GenSpec.
From PV Require Import Proofs.PrimP Proofs.HeaderP Proofs.RoundtripP Proofs.LenP.
From Coq Require Import ZifyN ZifyNat ZifyBool.
Open Scope Z_scope.

(* ---------- induction principle ---------- *)
Section gval_ind.
  Variable P : gval -> Prop.
  Hypothesis Hbool : forall b, P (GBool b).
  Hypothesis Hi8 : forall z, P (GI8 z).
  Hypothesis Hi16 : forall z, P (GI16 z).
  Hypothesis Hi32 : forall z, P (GI32 z).
  Hypothesis Hi64 : forall z, P (GI64 z).
  Hypothesis Hdouble : forall z, P (GDouble z).
  Hypothesis Hbytes : forall l, P (GBytes l).
  Hypothesis Huuid : forall l, P (GUuid l).
  Hypothesis Hvoid : P GVoid.
  Hypothesis Henum : forall z, P (GEnum z).
  Hypothesis Hlist : forall l, Forall P l -> P (GList l).
  Hypothesis Hset : forall l, Forall P l -> P (GSet l).
  Hypothesis Hmap : forall l, Forall (fun q => P (fst q) /\ P (snd q)) l -> P (GMap l).
  Hypothesis Hstruct : forall fs unk, Forall (fun q => P (snd q)) fs -> P (GStruct fs unk).
  Hypothesis Hunion : forall id x, P x -> P (GUnion id x).
  Hypothesis Hunk : forall u, P (GUnionUnknown u).

  Fixpoint gval_ind' (v : gval) : P v :=
    match v with
    | GBool b => Hbool b | GI8 z => Hi8 z | GI16 z => Hi16 z | GI32 z => Hi32 z | GI64 z => Hi64 z
    | GDouble z => Hdouble z | GBytes l => Hbytes l | GUuid l => Huuid l | GVoid => Hvoid
    | GEnum z => Henum z
    | GList l => Hlist l
        ((fix go (l : list gval) : Forall P l :=
            match l with [] => Forall_nil _ | x :: t => Forall_cons x (gval_ind' x) (go t) end) l)
    | GSet l => Hset l
        ((fix go (l : list gval) : Forall P l :=
            match l with [] => Forall_nil _ | x :: t => Forall_cons x (gval_ind' x) (go t) end) l)
    | GMap l => Hmap l
        ((fix go (l : list (gval * gval)) : Forall (fun q => P (fst q) /\ P (snd q)) l :=
            match l with
            | [] => Forall_nil _
            | (a, b) :: t => Forall_cons (a, b) (conj (gval_ind' a) (gval_ind' b)) (go t)
            end) l)
    | GStruct fs unk => Hstruct fs unk
        ((fix go (fs : list (Z * gval)) : Forall (fun q => P (snd q)) fs :=
            match fs with
            | [] => Forall_nil _
            | (i, x) :: t => Forall_cons (i, x) (gval_ind' x) (go t)
            end) fs)
    | GUnion id x => Hunion id x (gval_ind' x)
    | GUnionUnknown u => Hunk u
    end.
End gval_ind.

(* ---------- names for the inner loops ---------- *)
Section Names.
  Variable S : schema.
  Variable p : pk.
  Variable k : bk.

  (* encode *)
  Definition enc_elems (et : ty) : list gval -> wm :=
    fix go (l : list gval) : wm := match l with [] => wnop | x :: r => enc_ty S p k et x ;; go r end.
  Definition enc_pairs (kt vt : ty) : list (gval * gval) -> wm :=
    fix go (l : list (gval * gval)) : wm :=
      match l with [] => wnop | (a, b) :: r => enc_ty S p k kt a ;; enc_ty S p k vt b ;; go r end.
  Definition enc_field (f : field) (id : Z) (x : gval) : wm :=
    if is_void (resolve S (f_ty f)) then wnop
    else w_field_begin p (ttype_of_ty S (f_ty f)) id ;; enc_ty S p k (f_ty f) x ;; w_field_end p.
  Definition enc_fields (dfs : list field) : list (Z * gval) -> wm :=
    fix go (fs : list (Z * gval)) : wm :=
      match fs with
      | [] => wnop
      | (id, x) :: r =>
          match find_field dfs id with
          | Some f => enc_field f id x ;; go r
          | None => wfail
          end
      end.

  (* size *)
  Definition size_elems (et : ty) : list gval -> lm :=
    fix go (l : list gval) : lm := match l with [] => lret 0 | x :: r => size_ty S p et x +++ go r end.
  Definition size_pairs (kt vt : ty) : list (gval * gval) -> lm :=
    fix go (l : list (gval * gval)) : lm :=
      match l with [] => lret 0 | (a, b) :: r => size_ty S p kt a +++ size_ty S p vt b +++ go r end.
  Definition size_field (f : field) (id : Z) (x : gval) : lm :=
    if is_void (resolve S (f_ty f)) then lret 0
    else l_field_begin p (size_field_ttype S (f_ty f)) id +++ size_ty S p (f_ty f) x +++ l_field_end p.
  Definition size_fields (dfs : list field) : list (Z * gval) -> lm :=
    fix go (fs : list (Z * gval)) : lm :=
      match fs with
      | [] => lret 0
      | (id, x) :: r =>
          match find_field dfs id with
          | Some f => size_field f id x +++ go r
          | None => lfail
          end
      end.

  (* has_type *)
  Definition ht_elems (et : ty) : list gval -> bool :=
    fix go (l : list gval) : bool := match l with [] => true | x :: r => has_type S et x && go r end.
  Definition ht_pairs (kt vt : ty) : list (gval * gval) -> bool :=
    fix go (l : list (gval * gval)) : bool :=
      match l with [] => true | (a, b) :: r => has_type S kt a && has_type S vt b && go r end.
  Definition ht_fields : list (Z * gval) -> list field -> bool :=
    fix go (fs : list (Z * gval)) (dfs : list field) {struct fs} : bool :=
      match fs with
      | [] => all_optional dfs
      | (id, x) :: r =>
          match split_at dfs id with
          | Some (_, f, rest) => has_type S (f_ty f) x && go r rest
          | None => false
          end
      end.

  (* to_tval *)
  Definition tv_elems (et : ty) : list gval -> list tval :=
    fix go (l : list gval) := match l with [] => [] | x :: r => to_tval S et x :: go r end.
  Definition tv_pairs (kt vt : ty) : list (gval * gval) -> list (tval * tval) :=
    fix go (l : list (gval * gval)) :=
      match l with [] => [] | (a, b) :: r => (to_tval S kt a, to_tval S vt b) :: go r end.
  Definition tv_fields (dfs : list field) : list (Z * gval) -> list (Z * tval) :=
    fix go (fs : list (Z * gval)) :=
      match fs with
      | [] => []
      | (id, x) :: r =>
          match find_field dfs id with
          | Some f => (id, to_tval S (f_ty f) x) :: go r
          | None => go r
          end
      end.

  (* fill_defaults *)
  Definition fd_elems (et : ty) : list gval -> list gval :=
    fix go (l : list gval) := match l with [] => [] | x :: r => fill_defaults S et x :: go r end.
  Definition fd_pairs (kt vt : ty) : list (gval * gval) -> list (gval * gval) :=
    fix go (l : list (gval * gval)) :=
      match l with [] => [] | (a, b) :: r => (fill_defaults S kt a, fill_defaults S vt b) :: go r end.
  Definition fd_fields : list (Z * gval) -> list field -> list (Z * gval) :=
    fix go (fs : list (Z * gval)) (dfs : list field) {struct fs} : list (Z * gval) :=
      match fs with
      | [] => defaults_of dfs
      | (id, x) :: r =>
          match split_at dfs id with
          | Some (pre, f, rest) => defaults_of pre ++ (id, fill_defaults S (f_ty f) x) :: go r rest
          | None => (id, x) :: go r dfs
          end
      end.

  (* ----- equation lemmas (all definitional) ----- *)
  Lemma enc_ty_list t l : enc_ty S p k t (GList l) =
    match resolve S t with
    | TyList et => w_coll_begin p (ttype_of_ty S et) (Z.of_nat (length l)) ;; enc_elems et l
    | _ => wfail
    end.
  Proof. reflexivity. Qed.
  Lemma enc_ty_set t l : enc_ty S p k t (GSet l) =
    match resolve S t with
    | TySet et => w_coll_begin p (ttype_of_ty S et) (Z.of_nat (length l)) ;; enc_elems et l
    | _ => wfail
    end.
  Proof. reflexivity. Qed.
  Lemma enc_ty_map t l : enc_ty S p k t (GMap l) =
    match resolve S t with
    | TyMap kt vt => w_map_begin p (ttype_of_ty S kt) (ttype_of_ty S vt) (Z.of_nat (length l)) ;; enc_pairs kt vt l
    | _ => wfail
    end.
  Proof. reflexivity. Qed.
  Lemma enc_ty_struct t fs unk : enc_ty S p k t (GStruct fs unk) =
    match resolve S t with
    | TyRef n =>
        match lookup S n with
        | Some (DStruct dfs _ _) =>
            w_struct_begin p ;; enc_fields dfs fs ;; w_unknown k unk ;; w_field_stop p ;; w_struct_end p
        | _ => wfail
        end
    | _ => wfail
    end.
  Proof. reflexivity. Qed.
  Lemma enc_ty_union t id x : enc_ty S p k t (GUnion id x) =
    match resolve S t with
    | TyRef n =>
        match lookup S n with
        | Some (DUnion vs _ _) =>
            match find_variant vs id with
            | Some vt =>
                w_struct_begin p ;;
                (if is_void (resolve S vt) then wnop
                 else w_field_begin p (ttype_of_ty S vt) id ;; enc_ty S p k vt x ;; w_field_end p) ;;
                w_field_stop p ;; w_struct_end p
            | None => wfail
            end
        | _ => wfail
        end
    | _ => wfail
    end.
  Proof. reflexivity. Qed.
  Lemma enc_elems_cons et x r : enc_elems et (x :: r) = enc_ty S p k et x ;; enc_elems et r.
  Proof. reflexivity. Qed.
  Lemma enc_pairs_cons kt vt a b r :
    enc_pairs kt vt ((a, b) :: r) = enc_ty S p k kt a ;; enc_ty S p k vt b ;; enc_pairs kt vt r.
  Proof. reflexivity. Qed.
  Lemma enc_fields_cons dfs id x r : enc_fields dfs ((id, x) :: r) =
    match find_field dfs id with Some f => enc_field f id x ;; enc_fields dfs r | None => wfail end.
  Proof. reflexivity. Qed.

  Lemma size_ty_list t l : size_ty S p t (GList l) =
    match resolve S t with
    | TyList et => l_coll_begin p (ttype_of_ty S et) (Z.of_nat (length l)) +++ size_elems et l
    | _ => lfail
    end.
  Proof. reflexivity. Qed.
  Lemma size_ty_set t l : size_ty S p t (GSet l) =
    match resolve S t with
    | TySet et => l_coll_begin p (ttype_of_ty S et) (Z.of_nat (length l)) +++ size_elems et l
    | _ => lfail
    end.
  Proof. reflexivity. Qed.
  Lemma size_ty_map t l : size_ty S p t (GMap l) =
    match resolve S t with
    | TyMap kt vt => l_map_begin p (ttype_of_ty S kt) (ttype_of_ty S vt) (Z.of_nat (length l)) +++ size_pairs kt vt l
    | _ => lfail
    end.
  Proof. reflexivity. Qed.
  Lemma size_ty_struct t fs unk : size_ty S p t (GStruct fs unk) =
    match resolve S t with
    | TyRef n =>
        match lookup S n with
        | Some (DStruct dfs _ _) =>
            l_struct_begin p +++ size_fields dfs fs +++ l_unknown unk +++ l_field_stop p +++ l_struct_end p
        | _ => lfail
        end
    | _ => lfail
    end.
  Proof. reflexivity. Qed.
  Lemma size_ty_union t id x : size_ty S p t (GUnion id x) =
    match resolve S t with
    | TyRef n =>
        match lookup S n with
        | Some (DUnion vs _ _) =>
            match find_variant vs id with
            | Some vt =>
                l_struct_begin p +++
                (if is_void (resolve S vt) then lret 0
                 else l_field_begin p (size_field_ttype S vt) id +++ size_ty S p vt x +++ l_field_end p) +++
                l_field_stop p +++ l_struct_end p
            | None => lfail
            end
        | _ => lfail
        end
    | _ => lfail
    end.
  Proof. reflexivity. Qed.
  Lemma size_elems_cons et x r : size_elems et (x :: r) = size_ty S p et x +++ size_elems et r.
  Proof. reflexivity. Qed.
  Lemma size_pairs_cons kt vt a b r :
    size_pairs kt vt ((a, b) :: r) = size_ty S p kt a +++ size_ty S p vt b +++ size_pairs kt vt r.
  Proof. reflexivity. Qed.
  Lemma size_fields_cons dfs id x r : size_fields dfs ((id, x) :: r) =
    match find_field dfs id with Some f => size_field f id x +++ size_fields dfs r | None => lfail end.
  Proof. reflexivity. Qed.
End Names.

Section SpecNames.
  Variable S : schema.

  Lemma has_type_list t l : has_type S t (GList l) =
    match resolve S t with
    | TyList et => ttype_ok S et && len_ok (length l) && ht_elems S et l
    | _ => false
    end.
  Proof. reflexivity. Qed.
  Lemma has_type_set t l : has_type S t (GSet l) =
    match resolve S t with
    | TySet et => ttype_ok S et && len_ok (length l) && ht_elems S et l
    | _ => false
    end.
  Proof. reflexivity. Qed.
  Lemma has_type_map t l : has_type S t (GMap l) =
    match resolve S t with
    | TyMap kt vt => ttype_ok S kt && ttype_ok S vt && len_ok (length l) && ht_pairs S kt vt l
    | _ => false
    end.
  Proof. reflexivity. Qed.
  Lemma has_type_struct t fs unk : has_type S t (GStruct fs unk) =
    match unk, resolve S t with
    | [], TyRef n =>
        match lookup S n with
        | Some (DStruct dfs _ _) => ht_fields S fs dfs
        | _ => false
        end
    | _, _ => false
    end.
  Proof. reflexivity. Qed.
  Lemma has_type_union t id x : has_type S t (GUnion id x) =
    match resolve S t with
    | TyRef n =>
        match lookup S n with
        | Some (DUnion vs _ _) =>
            match find_variant vs id with
            | Some vt => if is_void (resolve S vt)
                         then match x with GVoid => true | _ => false end
                         else has_type S vt x
            | None => false
            end
        | _ => false
        end
    | _ => false
    end.
  Proof. reflexivity. Qed.
  Lemma ht_fields_cons id x r dfs : ht_fields S ((id, x) :: r) dfs =
    match split_at dfs id with
    | Some (_, f, rest) => has_type S (f_ty f) x && ht_fields S r rest
    | None => false
    end.
  Proof. reflexivity. Qed.

  Lemma to_tval_list t l : to_tval S t (GList l) =
    match resolve S t with TyList et => VList (ttype_of_ty S et) (tv_elems S et l) | _ => VStruct [] end.
  Proof. reflexivity. Qed.
  Lemma to_tval_set t l : to_tval S t (GSet l) =
    match resolve S t with TySet et => VSet (ttype_of_ty S et) (tv_elems S et l) | _ => VStruct [] end.
  Proof. reflexivity. Qed.
  Lemma to_tval_map t l : to_tval S t (GMap l) =
    match resolve S t with
    | TyMap kt vt => VMap (ttype_of_ty S kt) (ttype_of_ty S vt) (tv_pairs S kt vt l)
    | _ => VStruct []
    end.
  Proof. reflexivity. Qed.
  Lemma to_tval_struct t fs unk : to_tval S t (GStruct fs unk) =
    match resolve S t with
    | TyRef n =>
        match lookup S n with
        | Some (DStruct dfs _ _) => VStruct (tv_fields S dfs fs)
        | _ => VStruct []
        end
    | _ => VStruct []
    end.
  Proof. reflexivity. Qed.
  Lemma to_tval_union t id x : to_tval S t (GUnion id x) =
    match resolve S t with
    | TyRef n =>
        match lookup S n with
        | Some (DUnion vs _ _) =>
            match find_variant vs id with
            | Some vt => if is_void (resolve S vt) then VStruct [] else VStruct [(id, to_tval S vt x)]
            | None => VStruct []
            end
        | _ => VStruct []
        end
    | _ => VStruct []
    end.
  Proof. reflexivity. Qed.
  Lemma tv_fields_cons dfs id x r : tv_fields S dfs ((id, x) :: r) =
    match find_field dfs id with
    | Some f => (id, to_tval S (f_ty f) x) :: tv_fields S dfs r
    | None => tv_fields S dfs r
    end.
  Proof. reflexivity. Qed.

  Lemma fill_defaults_list t l : fill_defaults S t (GList l) =
    match resolve S t with TyList et => GList (fd_elems S et l) | _ => GList l end.
  Proof. reflexivity. Qed.
  Lemma fill_defaults_set t l : fill_defaults S t (GSet l) =
    match resolve S t with TySet et => GSet (fd_elems S et l) | _ => GSet l end.
  Proof. reflexivity. Qed.
  Lemma fill_defaults_map t l : fill_defaults S t (GMap l) =
    match resolve S t with TyMap kt vt => GMap (fd_pairs S kt vt l) | _ => GMap l end.
  Proof. reflexivity. Qed.
  Lemma fill_defaults_struct t fs unk : fill_defaults S t (GStruct fs unk) =
    match resolve S t with
    | TyRef n =>
        match lookup S n with
        | Some (DStruct dfs _ _) => GStruct (fd_fields S fs dfs) unk
        | _ => GStruct fs unk
        end
    | _ => GStruct fs unk
    end.
  Proof. reflexivity. Qed.
  Lemma fill_defaults_union t id x : fill_defaults S t (GUnion id x) =
    match resolve S t with
    | TyRef n =>
        match lookup S n with
        | Some (DUnion vs _ _) =>
            match find_variant vs id with
            | Some vt => GUnion id (fill_defaults S vt x)
            | None => GUnion id x
            end
        | _ => GUnion id x
        end
    | _ => GUnion id x
    end.
  Proof. reflexivity. Qed.
  Lemma fd_fields_cons id x r dfs : fd_fields S ((id, x) :: r) dfs =
    match split_at dfs id with
    | Some (pre, f, rest) => defaults_of pre ++ (id, fill_defaults S (f_ty f) x) :: fd_fields S r rest
    | None => (id, x) :: fd_fields S r dfs
    end.
  Proof. reflexivity. Qed.
End SpecNames.

(* ---------- pointwise algebra of wm / lm ---------- *)
Lemma wseq_ext (a a' b b' : wm) c :
  a c = a' c -> (forall c1, b c1 = b' c1) -> (a ;; b) c = (a' ;; b') c.
Proof.
  intros Ha Hb. unfold wseq. rewrite Ha. destruct (a' c) as [[s1 c1]| |]; cbn [bind]; auto.
  rewrite Hb. reflexivity.
Qed.
Lemma wseq_nop_r (a : wm) c : (a ;; wnop) c = a c.
Proof.
  unfold wseq, wnop. destruct (a c) as [[s1 c1]| |]; cbn [bind]; auto. rewrite app_nil_r. reflexivity.
Qed.
Lemma lseq_ext (a a' b b' : lm) c :
  a c = a' c -> (forall c1, b c1 = b' c1) -> (a +++ b) c = (a' +++ b') c.
Proof.
  intros Ha Hb. unfold lseq. rewrite Ha. destruct (a' c) as [[s1 c1]| |]; cbn [bind]; auto.
  rewrite Hb. reflexivity.
Qed.
Lemma lseq_ret0_r (a : lm) c : (a +++ lret 0) c = a c.
Proof.
  unfold lseq, lret. destruct (a c) as [[s1 c1]| |]; cbn [bind]; auto. rewrite Z.add_0_r. reflexivity.
Qed.

(* ---------- well-formed schemas ---------- *)
Section Wf.
  Variable S : schema.
  Hypothesis Hwf : wf_schema S = true.

  Lemma wf_lookup n d : lookup S n = Some d -> decl_ok S d = true.
  Proof.
    intros H. unfold wf_schema in Hwf. rewrite forallb_forall in Hwf. apply Hwf.
    eapply nth_error_In. exact H.
  Qed.

  Lemma wf_struct n dfs kp ia : lookup S n = Some (DStruct dfs kp ia) ->
    nodup_ids (map f_id dfs) = true /\ forall f, In f dfs -> field_ok S f = true.
  Proof.
    intros H. apply wf_lookup in H. cbn [decl_ok] in H. apply andb_prop in H as [H1 H2].
    split; auto. rewrite forallb_forall in H2. exact H2.
  Qed.
End Wf.

Lemma ttype_ok_nonvoid S t : ttype_ok S t = true -> is_void (resolve S t) = false.
Proof.
  unfold ttype_ok, ttype_of_ty. destruct (resolve S t); try reflexivity. cbn. discriminate.
Qed.

Lemma field_ok_inv S f : field_ok S f = true ->
  in_s 16 (f_id f) /\ ttype_ok S (f_ty f) = true /\ is_void (resolve S (f_ty f)) = false /\
  match f_dflt f with Some (_, d) => has_type S (f_ty f) d = true | None => True end.
Proof.
  unfold field_ok. intros H. apply andb_prop in H as [H H4]. apply andb_prop in H as [H H3].
  apply andb_prop in H as [H1 H2]. apply in_sb_spec in H1.
  split; [exact H1|]. split; [exact H3|]. split; [apply ttype_ok_nonvoid; exact H3|].
  destruct (f_dflt f) as [[? d]|]; auto.
Qed.

(* find_field / split_at agreement *)
Lemma find_field_in dfs id f : find_field dfs id = Some f -> In f dfs /\ f_id f = id.
Proof.
  induction dfs as [|g r IH]; cbn [find_field]; [discriminate|].
  destruct (f_id g =? id) eqn:E.
  - intros H. injection H as <-. split; [left; reflexivity|lia].
  - intros H. destruct (IH H). split; [right|]; auto.
Qed.

Lemma nodup_ids_app_r a b : nodup_ids (a ++ b) = true -> nodup_ids b = true.
Proof.
  induction a as [|x a IH]; cbn [app nodup_ids]; auto. intros H. apply andb_prop in H as [_ H]. auto.
Qed.

Lemma existsb_eqb_false x l : existsb (Z.eqb x) l = false -> forall y, In y l -> x <> y.
Proof.
  intros H y Hy ->. assert (existsb (Z.eqb y) l = true); [|congruence].
  apply existsb_exists. exists y. split; auto. lia.
Qed.

Lemma find_field_nodup dfs f : nodup_ids (map f_id dfs) = true -> In f dfs -> find_field dfs (f_id f) = Some f.
Proof.
  induction dfs as [|g r IH]; cbn [map nodup_ids find_field In]; [tauto|].
  intros H [->|Hin].
  - rewrite Z.eqb_refl. reflexivity.
  - apply andb_prop in H as [H1 H2]. apply negb_true_iff in H1.
    destruct (f_id g =? f_id f) eqn:E; [|auto].
    exfalso. apply (existsb_eqb_false _ _ H1 (f_id f)); [apply in_map; exact Hin|lia].
Qed.

Lemma split_at_inv dfs id pre f rest : split_at dfs id = Some (pre, f, rest) ->
  dfs = pre ++ f :: rest /\ f_id f = id /\ all_optional pre = true /\ (forall g, In g pre -> f_id g <> id).
Proof.
  revert pre. induction dfs as [|g r IH]; intros pre; cbn [split_at]; [discriminate|].
  destruct (f_id g =? id) eqn:E.
  - intros H. injection H as <- <- <-. repeat split; auto; try lia.
  - destruct (f_req g) eqn:Er; [discriminate|].
    destruct (split_at r id) as [[[pre' g'] rest']|]; [|discriminate].
    intros H. injection H as <- <- <-.
    destruct (IH pre' eq_refl) as (-> & Hid & Hopt & Hne).
    repeat split; auto.
    + cbn [all_optional forallb]. rewrite Er. exact Hopt.
    + intros h [<-|Hh]; [lia|auto].
Qed.

