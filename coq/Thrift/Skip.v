(* L2: the recursive skippers.
   - binary / binary-LE: the default trait method TInputProtocol::skip_till_depth
     (pilota/src/thrift/mod.rs 148-260): fixed widths are advanced over without being read, the
     reported count is assembled from the TLengthProtocol constants (field header 3, stop 1, list/set
     header 5, map header 6, binary 4 + length);
   - compact: TCompactInputProtocol::skip_till_depth (compact.rs): walks the value with the
     protocol's own readers and reports before - after;
   - async (binary, binary-LE, compact): TAsyncInputProtocol::skip_till_depth (mod.rs 803-866),
     built on the async readers, returns ().
   The depth budget is MAXIMUM_SKIP_DEPTH (regenerated); "cannot skip field type" (Stop, Void) is
   reported with ProtocolExceptionKind::DepthLimit, as in the code. *)
From PV Require Export Thrift.Interp Thrift.Async.
Open Scope Z_scope.

Definition consumed (s s' : rst) : Z := Z.of_nat (blen s) - Z.of_nat (blen s').

(* advance(n) after assert_remaining!(remaining >= n) *)
Definition adv (n : nat) : rm Z := fun s =>
  let* (_, s') := r_take n s in Ok (Z.of_nat n, s').
(* a reader whose result is dropped; counts what it consumed *)
Definition via {A} (m : rm A) : rm Z := fun s =>
  let* (_, s') := m s in Ok (consumed s s', s').

Definition skip_depth : nat := Z.to_nat maximum_skip_depth.

Section Skip.
  Variable p : pk.

  Definition is_compact : bool := match p with PCompact => true | _ => false end.

  (* field_begin_len / field_stop_len / list_begin_len / map_begin_len of the binary protocols;
     the compact skipper does not use them (before - after) *)
  Definition hdr_count (bin_const : Z) (s s' : rst) : Z :=
    if is_compact then consumed s s' else bin_const.

  Section Loops.
    Variable rec : ttype -> rst -> res (Z * rst).

    Fixpoint skip_fields (n : nat) (s : rst) (acc : Z) {struct n} : res (Z * rst) :=
      match n with
      | O => Err EOutOfFuel
      | S n' =>
          let* (h, s1) := r_field_begin p s in
          if ttype_eqb (fst h) TStop then Ok (acc + hdr_count 1 s s1, s1)
          else
            let* (k, s2) := rec (fst h) s1 in
            skip_fields n' s2 (acc + hdr_count 3 s s1 + k)
      end.

    Fixpoint skip_elems (m : nat) (et : ttype) (n : Z) (s : rst) (acc : Z) {struct m} : res (Z * rst) :=
      if n <=? 0 then Ok (acc, s) else
      match m with
      | O => Err EOutOfFuel
      | S m' =>
          let* (k, s1) := rec et s in
          skip_elems m' et (n - 1) s1 (acc + k)
      end.

    Fixpoint skip_pairs (m : nat) (kt vt : ttype) (n : Z) (s : rst) (acc : Z) {struct m} : res (Z * rst) :=
      if n <=? 0 then Ok (acc, s) else
      match m with
      | O => Err EOutOfFuel
      | S m' =>
          let* (k1, s1) := rec kt s in
          let* (k2, s2) := rec vt s1 in
          skip_pairs m' kt vt (n - 1) s2 (acc + k1 + k2)
      end.
  End Loops.

  (* [f] bounds the loops (as in read_val), [d] is the depth budget *)
  Fixpoint skip_val (f : nat) (d : nat) (ty : ttype) (s : rst) {struct f} : res (Z * rst) :=
    match f with
    | O => Err EOutOfFuel
    | S f' =>
        match d with
        | O => Err EDepthLimit
        | S d' =>
            match ty with
            | TBool => if is_compact then via (r_bool p) s else adv 1 s
            | TI8 => if is_compact then via r_i8 s else adv 1 s
            | TI16 => if is_compact then via (r_i16 p) s else adv 2 s
            | TI32 => if is_compact then via (r_i32 p) s else adv 4 s
            | TI64 => if is_compact then via (r_i64 p) s else adv 8 s
            | TDouble => if is_compact then via (r_double p) s else adv 8 s
            | TUuid => if is_compact then via r_uuid s else adv 16 s
            | TBinary =>
                if is_compact then via (r_bytes p) s
                else
                  let* (n, s1) := r_i32 p s in
                  let n := wrap_u 64 n in                       (* length as usize *)
                  if n <=? Z.of_nat (blen s1)
                  then let* (_, s2) := r_take (Z.to_nat n) s1 in Ok (4 + n, s2)
                  else Err EInvalidData
            | TStruct =>
                let* (_, s1) := r_struct_begin p s in
                let* (n, s2) := skip_fields (skip_val f' d') (S f') s1 0 in
                let* (_, s3) := r_struct_end p s2 in
                Ok (n, s3)
            | TList | TSet =>
                let* (h, s1) := r_coll_begin p s in
                skip_elems (skip_val f' d') (S f') (fst h) (snd h) s1 (hdr_count 5 s s1)
            | TMap =>
                let* (h, s1) := r_map_begin p s in
                skip_pairs (skip_val f' d') (S f') (fst (fst h)) (snd (fst h)) (snd h) s1 (hdr_count 6 s s1)
            | TStop | TVoid => Err EDepthLimit
            end
        end
    end.

  (* TInputProtocol::skip *)
  Definition skip (f : nat) (ty : ttype) (s : rst) : res (Z * rst) := skip_val f skip_depth ty s.

  (* ---- async ---- *)
  Section ALoops.
    Variable rec : ttype -> rst -> res (unit * rst).

    Fixpoint askip_fields (n : nat) (s : rst) {struct n} : res (unit * rst) :=
      match n with
      | O => Err EOutOfFuel
      | S n' =>
          let* (h, s1) := a_field_begin p s in
          if ttype_eqb (fst h) TStop then Ok (tt, s1)
          else let* (_, s2) := rec (fst h) s1 in askip_fields n' s2
      end.

    Fixpoint askip_elems (m : nat) (et : ttype) (n : Z) (s : rst) {struct m} : res (unit * rst) :=
      if n <=? 0 then Ok (tt, s) else
      match m with
      | O => Err EOutOfFuel
      | S m' => let* (_, s1) := rec et s in askip_elems m' et (n - 1) s1
      end.

    Fixpoint askip_pairs (m : nat) (kt vt : ttype) (n : Z) (s : rst) {struct m} : res (unit * rst) :=
      if n <=? 0 then Ok (tt, s) else
      match m with
      | O => Err EOutOfFuel
      | S m' =>
          let* (_, s1) := rec kt s in
          let* (_, s2) := rec vt s1 in
          askip_pairs m' kt vt (n - 1) s2
      end.
  End ALoops.

  Definition drop {A} (m : rm A) : rm unit := fun s => let* (_, s') := m s in Ok (tt, s').

  Fixpoint askip_val (f : nat) (d : nat) (ty : ttype) (s : rst) {struct f} : res (unit * rst) :=
    match f with
    | O => Err EOutOfFuel
    | S f' =>
        match d with
        | O => Err EDepthLimit
        | S d' =>
            match ty with
            | TBool => drop (a_bool p) s
            | TI8 => drop a_i8 s
            | TI16 => drop (a_i16 p) s
            | TI32 => drop (a_i32 p) s
            | TI64 => drop (a_i64 p) s
            | TDouble => drop (a_double p) s
            | TBinary => drop (a_bytes p) s                       (* read_string: no UTF-8 check *)
            | TUuid => drop a_uuid s
            | TStruct =>
                let* (_, s1) := a_struct_begin p s in
                let* (_, s2) := askip_fields (askip_val f' d') (S f') s1 in
                a_struct_end p s2
            | TList | TSet =>
                let* (h, s1) := a_coll_begin p s in
                askip_elems (askip_val f' d') (S f') (fst h) (snd h) s1
            | TMap =>
                let* (h, s1) := a_map_begin p s in
                askip_pairs (askip_val f' d') (S f') (fst (fst h)) (snd (fst h)) (snd h) s1
            | TStop | TVoid => Err EDepthLimit
            end
        end
    end.

  Definition askip (f : nat) (ty : ttype) (s : rst) : res (unit * rst) := askip_val f skip_depth ty s.
End Skip.
