(* The decidable classes of (literal, target type) shapes on which Context::lit_into_ty / ident_into_ty panic although the
   literal is well-typed IDL.  The predicate follows the SOURCE AS IT IS: every repair that tools/extract_gen.py finds in
   context.rs (regenerated flags arc_ok, const_inline_present, double_sign_run_ok, double_exponent_ok, map_key_rvalue,
   string_at_bytesvec_ok) takes its shapes out of the classes.  What is left:

     PCPathConvert     a const / enum-member reference that ident_into_ty cannot convert: panic!("invalid convert").  The path's
                       type must occur on the walk through the target's NewType (and Arc) layers, or convert at its end
                       (Str -> FastStr / String, enum -> iN).  Left out: a const of a TYPEDEF type used at the aliased type
                       (no arm looks through the newtype of the SOURCE).
     PCNestedMap       a map-typed target where only lit_into_ty looks: an element of a const Array, the definition of a
                       const that is no lazy static; a map KEY that is a map literal, unless mk_map lowers keys through
                       lit_as_rvalue (map_key_rvalue).
     PCNoArm           a string at `binary` with rust_type = "vec", unless the (String, Vec(U8)) arm exists
                       (string_at_bytesvec_ok); any literal at a `rust_wrapper_arc` type while there is no Arc arm.
     PCConstContainer  a StaticRef / LazyStaticRef type (const context only).
     PCDangling        a reference to a const that does not exist (model artefact).
     PCFloatSigns / PCFloatExp   `-+x` / an exponent with several signs or 0x digits while parse_double does not rewrite them.

   A reference to a const of list / set / map type at a container-typed target is lowered from the const's LITERAL at the
   target type (const_inline_present): its class is the class of that literal there -- [ccls], tied by unfolding fuel in
   [pclass_n] (running out of fuel counts as class-free: the specification then has no value either).

   [pclass_n .. = None] is a SUFFICIENT condition for the lowering to succeed on a well-typed literal (Proofs/LitP.v); the
   classes that are open in the tree have a witness that they do panic (Proofs/LitTopP.v).  No proofs here. *)
From PVGen Require Export Lit.

Inductive pclass := PCPathConvert | PCNestedMap | PCNoArm | PCConstContainer | PCDangling
                     | PCFloatSigns    (* a double constant written `-+x` while the generator parses with f64::from_str *)
                     | PCFloatExp.     (* an exponent with several `-` signs or 0x digits while the generator parses with f64::from_str *)

Definition is_int_cty (ty : cty) : bool := match ty with CI8 | CI16 | CI32 | CI64 => true | _ => false end.
Definition is_str_cty (ty : cty) : bool := match ty with CStr => true | _ => false end.
Definition is_faststr_cty (ty : cty) : bool := match ty with CFastStr => true | _ => false end.

Definition first_class {A} (f : A -> option pclass) : list A -> option pclass :=
  fix go (l : list A) : option pclass :=
    match l with
    | [] => None
    | x :: r => match f x with Some c => Some c | None => go r end
    end.

Section Class.
  Variable S : lschema.

  Definition is_string_cty (ty : cty) : bool := match ty with CString => true | _ => false end.
  Definition is_arc_cty (ty : cty) : bool := match ty with CArc _ => true | _ => false end.

  (* may the path, whose CodegenTy is [it], be used at [ty]?  Its type occurs on the walk through the target's layers
     (Lit.chain_of: the test ident_into_ty makes at every level), or one of the conversions applies at the end of the walk *)
  Definition path_ok (it ty : cty) : bool :=
    let fin := tfin S ty in
    (match chain_of S it ty with Some _ => true | None => false end)
    || (is_str_cty it && (is_faststr_cty fin || is_string_cty fin))
    || (match ckind S it with Some CPAdtEnum => is_int_cty fin | _ => false end).

  Section Into.
    (* the class of the literal of const item c, lowered by lit_as_rvalue at a target type *)
    Variable ccls : nat -> cty -> option pclass.

    (* [en]: is the literal looked at by lit_as_rvalue (true) or by lit_into_ty only (false: elements of a const Array, the
       definition of a const that is no lazy static, map keys before the repair) *)
    Fixpoint pclass_into (en : bool) (l : lit) (ty : cty) {struct l} : option pclass :=
      match l with
      | LMember e _ => if path_ok (CAdt e) ty then None else Some PCPathConvert
      | LConst c =>
          match ident_ty_of_const S c with
          | Some it =>
              if const_inline_present && is_container_c it && negb (cty_eqb it ty) then ccls c ty
              else if path_ok it ty then None else Some PCPathConvert
          | None => Some PCDangling
          end
      | _ =>
          match (match l with
                 | LFloat s => if float_exp_plain s && float_sign_plain s then None
                               else Some (if float_exp_plain s then PCFloatSigns else PCFloatExp)
                 | _ => None
                 end) with
          | Some c => Some c
          | None =>
          match tfin S ty with
          | CArc _ => Some PCNoArm
          | CMap kt vt | CBTreeMap kt vt =>
              if (if fa_of S ty then true else en || is_nt S ty) then
                match l with
                | LMap m =>
                    (fix go (m : list (lit * lit)) : option pclass :=
                       match m with
                       | [] => None
                       | (k, v) :: r =>
                           match pclass_into map_key_rvalue k kt with
                           | Some c => Some c
                           | None => match pclass_into true v vt with Some c => Some c | None => go r end
                           end
                       end) m
                | _ => None
                end
              else Some PCNestedMap
          | CStaticRef _ | CLazyStaticRef _ => Some PCConstContainer
          | CVec inner | CSet inner | CBTreeSet inner =>
              match l with
              | LList els =>
                  (fix go (els : list lit) : option pclass :=
                     match els with
                     | [] => None
                     | x :: r => match pclass_into true x inner with Some c => Some c | None => go r end
                     end) els
              | LString _ =>
                  match tfin S ty with
                  | CVec CU8 => if string_at_bytesvec_ok then None else Some PCNoArm
                  | _ => Some PCNoArm
                  end
              | _ => None
              end
          | CArray inner =>
              match l with
              | LList els =>
                  (fix go (els : list lit) : option pclass :=
                     match els with
                     | [] => None
                     | x :: r => match pclass_into false x inner with Some c => Some c | None => go r end
                     end) els
              | _ => None
              end
          | CAdt n =>
              match l, item S n with
              | LMap m, Some (IStruct fs _ _) =>
                  (* every value, at the type of every member its key names *)
                  (fix go (m : list (lit * lit)) : option pclass :=
                     match m with
                     | [] => None
                     | (k, v) :: r =>
                         match
                           (match k with
                            | LString s =>
                                (fix over (fs : list lfield) : option pclass :=
                                   match fs with
                                   | [] => None
                                   | f :: fr =>
                                       match (if bytes_eqb s (lf_name f) then pclass_into true v (item_cty (lf_ty f)) else None) with
                                       | Some c => Some c
                                       | None => over fr
                                       end
                                   end) fs
                            | _ => None
                            end)
                         with
                         | Some c => Some c
                         | None => go r
                         end
                     end) m
              | _, _ => None
              end
          | _ => None
          end
          end
      end.
  End Into.

  (* unfolding fuel f: references to container consts are followed f levels deep (evi f of the model) *)
  Fixpoint pclass_n (fuel : nat) (en : bool) (l : lit) (ty : cty) {struct fuel} : option pclass :=
    match fuel with
    | O => None
    | Datatypes.S f =>
        pclass_into (fun c ty' => match nth_error (ls_consts S) c with
                                  | Some (_, lc) => pclass_n f true lc ty'
                                  | None => Some PCDangling
                                  end) en l ty
    end.
  Definition cfuel : nat := Datatypes.S (efuel S).

  (* at the top of a default: lit_as_rvalue *)
  Definition pclass_top (l : lit) (ty : cty) : option pclass := pclass_n cfuel true l ty.

  (* a const whose codegen type is the one a field of the same IDL type has (scalars, binary, enums, structs, typedefs)
     or a string: the consts a default refers to BY NAME (a const of container type is lowered from its literal) *)
  Definition is_string_rty (t : rty) : bool := match t with RString | RFastStr => true | _ => false end.
  Definition const_simple (c : nat) : bool :=
    match nth_error (ls_consts S) c, ident_ty_of_const S c with
    | Some (ct, _), Some it => cty_eqb it (item_cty ct) || is_string_rty ct
    | _, _ => false
    end.

  (* the generator does not meet a panic class on any field default, nor in the definition of a simple const *)
  Definition item_class_free (i : litem) : bool :=
    match i with
    | IStruct fs _ _ =>
        forallb (fun f => match lf_dflt f with
                          | Some l => match pclass_top l (item_cty (lf_ty f)) with None => true | Some _ => false end
                          | None => true
                          end) fs
    | _ => true
    end.
  Definition const_class_free (c : nat) : bool :=
    if const_simple c then
      match nth_error (ls_consts S) c, ident_ty_of_const S c with
      | Some (_, l), Some it => match pclass_n cfuel (should_lazy_static S it) l it with None => true | Some _ => false end
      | _, _ => false
      end
    else true.
  Definition class_free_schema : bool :=
    forallb item_class_free (ls_items S) && forallb const_class_free (seq 0 (length (ls_consts S))).
End Class.
