(* P1: the emitted encoder is the value interpreter's writer on to_tval; to_tval of a typed value is a
   well-typed value tree of the declared wire type. *)
From PVGen Require Import Gen GenSpec Proofs.GenBase.
From PV Require Import Proofs.TablesP Proofs.PrimP Proofs.HeaderP Proofs.RoundtripP Proofs.LenP.
From Coq Require Import ZifyN ZifyNat ZifyBool.
Open Scope Z_scope.

Arguments resolve : simpl never.
Arguments ttype_of_ty : simpl never.

Ltac res_cases S t :=
  destruct (resolve S t) as [| | | | | | | | | |?et|?et|?kt ?vt|?n] eqn:?Eres; try discriminate.
Ltac decl_cases S n :=
  destruct (lookup S n) as [[?dfs ?kp ?ia|?vs ?vok ?kp|?ms|?tt]|] eqn:?Elk; try discriminate.

Lemma find_variant_in vs id vt : find_variant vs id = Some vt -> In (id, vt) vs.
Proof.
  induction vs as [|[i t] r IH]; cbn [find_variant]; [discriminate|].
  destruct (i =? id) eqn:E; [|right; auto]. intros H. injection H as <-. left. f_equal. lia.
Qed.

Section Enc.
  Variable S : schema.
  Hypothesis Hwf : wf_schema S = true.

  (* ----- wire type ----- *)
  Lemma to_tval_ttype v t : has_type S t v = true -> ttype_of (to_tval S t v) = ttype_of_ty S t.
  Proof.
    destruct v; intros H.
    1-10: cbn [has_type to_tval] in *; unfold ttype_of_ty; res_cases S t; try reflexivity.
    - decl_cases S n. reflexivity.
    - rewrite has_type_list in H. rewrite to_tval_list. unfold ttype_of_ty. res_cases S t. reflexivity.
    - rewrite has_type_set in H. rewrite to_tval_set. unfold ttype_of_ty. res_cases S t. reflexivity.
    - rewrite has_type_map in H. rewrite to_tval_map. unfold ttype_of_ty. res_cases S t. reflexivity.
    - rewrite has_type_struct in H. rewrite to_tval_struct. unfold ttype_of_ty.
      destruct unk; [|discriminate]. res_cases S t. decl_cases S n. reflexivity.
    - rewrite has_type_union in H. rewrite to_tval_union. unfold ttype_of_ty.
      res_cases S t. decl_cases S n. destruct (find_variant vs id); [|discriminate].
      destruct (is_void (resolve S t0)); reflexivity.
    - discriminate.
  Qed.

  Lemma tv_elems_length et l : length (tv_elems S et l) = length l.
  Proof. induction l as [|x r IH]; cbn [tv_elems length]; auto. Qed.
  Lemma tv_pairs_length kt vt l : length (tv_pairs S kt vt l) = length l.
  Proof. induction l as [|[a b] r IH]; cbn [tv_pairs length]; auto. Qed.

  (* ----- struct fields against the whole declaration list ----- *)
  Lemma ht_fields_inv dfs : nodup_ids (map f_id dfs) = true ->
    forall fs dfs', incl dfs' dfs -> ht_fields S fs dfs' = true ->
    Forall (fun q => exists f, find_field dfs (fst q) = Some f /\ In f dfs /\ has_type S (f_ty f) (snd q) = true) fs.
  Proof.
    intros Hnd. induction fs as [|[id x] r IH]; intros dfs' Hincl H; [constructor|].
    rewrite ht_fields_cons in H.
    destruct (split_at dfs' id) as [[[pre f] rest]|] eqn:Es; [|discriminate].
    apply andb_prop in H as [Hx Hr].
    destruct (split_at_inv _ _ _ _ _ Es) as (-> & Hid & _ & _).
    assert (Hin : In f dfs) by (apply Hincl, in_or_app; right; left; reflexivity).
    constructor.
    - exists f. cbn [fst snd]. rewrite <- Hid. split; [apply find_field_nodup; auto|]. split; auto.
    - apply (IH rest); auto. intros g Hg. apply Hincl, in_or_app. right. right. exact Hg.
  Qed.

  Lemma ht_struct_inv n dfs kp ia fs : lookup S n = Some (DStruct dfs kp ia) -> ht_fields S fs dfs = true ->
    Forall (fun q => exists f, find_field dfs (fst q) = Some f /\ field_ok S f = true /\
                               has_type S (f_ty f) (snd q) = true) fs.
  Proof.
    intros Hl H. destruct (wf_struct S Hwf _ _ _ _ Hl) as [Hnd Hok].
    eapply Forall_impl; [|eapply ht_fields_inv; eauto using incl_refl].
    intros q (f & Hf & Hin & Ht). exists f. auto.
  Qed.

  (* union variants *)

  Lemma wf_variant n vs vok kp id vt : lookup S n = Some (DUnion vs vok kp) -> find_variant vs id = Some vt ->
    in_s 16 id.
  Proof.
    intros Hl Hv. apply (wf_lookup S Hwf) in Hl. cbn [decl_ok] in Hl.
    apply andb_prop in Hl as [Hl _]. apply andb_prop in Hl as [_ Hl].
    rewrite forallb_forall in Hl. specialize (Hl _ (find_variant_in _ _ _ Hv)). cbn in Hl.
    apply andb_prop in Hl as [Hl _]. apply in_sb_spec. exact Hl.
  Qed.

  Lemma wf_variant_ok n vs vok kp id vt : lookup S n = Some (DUnion vs vok kp) -> In (id, vt) vs ->
    is_void (resolve S vt) = false -> ttype_ok S vt = true.
  Proof.
    intros Hl Hin Hnv. apply (wf_lookup S Hwf) in Hl. cbn [decl_ok] in Hl.
    apply andb_prop in Hl as [_ Hl]. destruct vs as [|[i0 t0] r]; [destruct Hin|].
    apply andb_prop in Hl as [Hl H0]. apply andb_prop in Hl as [_ Hr].
    destruct Hin as [E|Hin].
    - injection E as -> ->. rewrite Hnv in H0. exact H0.
    - rewrite forallb_forall in Hr. apply (Hr _ Hin).
  Qed.

  (* ----- well-typedness of the tree ----- *)
  Lemma to_tval_wt v : forall t, has_type S t v = true -> wt (to_tval S t v) = true.
  Proof.
    induction v using gval_ind'; intros t Ht.
    1-10: cbn [has_type to_tval wt] in *; res_cases S t; auto.
    - decl_cases S n. auto.
    - (* list *)
      rewrite has_type_list in Ht. rewrite to_tval_list. res_cases S t.
      apply andb_prop in Ht as [Ht He]. apply andb_prop in Ht as [Hok Hlen].
      rewrite wt_list, tv_elems_length. unfold ttype_ok in Hok. rewrite Hok, Hlen. cbn [andb]. clear Hlen.
      induction l as [|x r IHr]; [reflexivity|].
      inversion H as [|? ? Hx Hr]; subst. cbn [ht_elems] in He. apply andb_prop in He as [He1 He2].
      cbn [tv_elems wte]. rewrite (to_tval_ttype _ _ He1), (Hx _ He1), (IHr Hr He2).
      destruct (ttype_eqb_spec (ttype_of_ty S et) (ttype_of_ty S et)); [reflexivity|congruence].
    - (* set *)
      rewrite has_type_set in Ht. rewrite to_tval_set. res_cases S t.
      apply andb_prop in Ht as [Ht He]. apply andb_prop in Ht as [Hok Hlen].
      rewrite wt_set, wt_list, tv_elems_length. unfold ttype_ok in Hok. rewrite Hok, Hlen. cbn [andb]. clear Hlen.
      induction l as [|x r IHr]; [reflexivity|].
      inversion H as [|? ? Hx Hr]; subst. cbn [ht_elems] in He. apply andb_prop in He as [He1 He2].
      cbn [tv_elems wte]. rewrite (to_tval_ttype _ _ He1), (Hx _ He1), (IHr Hr He2).
      destruct (ttype_eqb_spec (ttype_of_ty S et) (ttype_of_ty S et)); [reflexivity|congruence].
    - (* map *)
      rewrite has_type_map in Ht. rewrite to_tval_map. res_cases S t.
      apply andb_prop in Ht as [Ht He]. apply andb_prop in Ht as [Ht Hlen]. apply andb_prop in Ht as [Hk Hv].
      rewrite wt_map, tv_pairs_length. unfold ttype_ok in Hk, Hv. rewrite Hk, Hv, Hlen. cbn [andb]. clear Hlen.
      induction l as [|[a b] r IHr]; [reflexivity|].
      inversion H as [|? ? Hx Hr]; subst. cbn [fst snd] in Hx. destruct Hx as [Ha Hb].
      cbn [ht_pairs] in He. apply andb_prop in He as [He He3]. apply andb_prop in He as [He1 He2].
      cbn [tv_pairs wtp]. rewrite (to_tval_ttype _ _ He1), (to_tval_ttype _ _ He2), (Ha _ He1), (Hb _ He2), (IHr Hr He3).
      destruct (ttype_eqb_spec (ttype_of_ty S kt) (ttype_of_ty S kt)); [|congruence].
      destruct (ttype_eqb_spec (ttype_of_ty S vt) (ttype_of_ty S vt)); [reflexivity|congruence].
    - (* struct *)
      rewrite has_type_struct in Ht. rewrite to_tval_struct. destruct unk; [|discriminate].
      res_cases S t. decl_cases S n. rewrite wt_struct.
      pose proof (ht_struct_inv _ _ _ _ _ Elk Ht) as HF. clear Ht.
      induction fs as [|[id x] r IHr]; [reflexivity|].
      inversion H as [|? ? Hx Hr]; subst. inversion HF as [|? ? (f & Hf & Hok & Hty) HFr]; subst.
      cbn [fst snd] in *. rewrite tv_fields_cons, Hf. cbn [wtf].
      destruct (field_ok_inv _ _ Hok) as (Hid & _). destruct (find_field_in _ _ _ Hf) as [_ <-].
      apply in_sb_spec in Hid. rewrite Hid, (Hx _ Hty), (IHr Hr HFr). reflexivity.
    - (* union *)
      rewrite has_type_union in Ht. rewrite to_tval_union. res_cases S t. decl_cases S n.
      destruct (find_variant vs id) as [vt|] eqn:Ev; [|discriminate].
      destruct (is_void (resolve S vt)); [reflexivity|].
      cbn [wt]. rewrite (IHv _ Ht). pose proof (wf_variant _ _ _ _ _ _ Elk Ev) as Hid.
      apply in_sb_spec in Hid. rewrite Hid. reflexivity.
    - discriminate.
  Qed.

  (* ----- encode = write of the tree ----- *)
  Variable p : pk.
  Variable k : bk.

  Theorem enc_as_tval v : forall t, has_type S t v = true ->
    forall c, enc_ty S p k t v c = write_val p k (to_tval S t v) c.
  Proof.
    induction v using gval_ind'; intros t Ht c.
    1-10: cbn [has_type enc_ty to_tval write_val] in *; res_cases S t; try reflexivity.
    - decl_cases S n. reflexivity.
    - (* list *)
      rewrite has_type_list in Ht. rewrite enc_ty_list, to_tval_list. res_cases S t.
      apply andb_prop in Ht as [_ He].
      change (write_val p k (VList (ttype_of_ty S et) (tv_elems S et l))) with
        (w_coll_begin p (ttype_of_ty S et) (Z.of_nat (length (tv_elems S et l))) ;; write_elems p k (tv_elems S et l)).
      rewrite tv_elems_length. apply wseq_ext; [reflexivity|]. clear c.
      induction l as [|x r IHr]; intros c; [reflexivity|].
      inversion H as [|? ? Hx Hr]; subst. cbn [ht_elems] in He. apply andb_prop in He as [He1 He2].
      rewrite enc_elems_cons. cbn [tv_elems].
      change (write_elems p k (to_tval S et x :: tv_elems S et r)) with
        (write_val p k (to_tval S et x) ;; write_elems p k (tv_elems S et r)).
      apply wseq_ext; [apply Hx; exact He1|intros; apply IHr; auto].
    - (* set *)
      rewrite has_type_set in Ht. rewrite enc_ty_set, to_tval_set. res_cases S t.
      apply andb_prop in Ht as [_ He].
      change (write_val p k (VSet (ttype_of_ty S et) (tv_elems S et l))) with
        (w_coll_begin p (ttype_of_ty S et) (Z.of_nat (length (tv_elems S et l))) ;; write_elems p k (tv_elems S et l)).
      rewrite tv_elems_length. apply wseq_ext; [reflexivity|]. clear c.
      induction l as [|x r IHr]; intros c; [reflexivity|].
      inversion H as [|? ? Hx Hr]; subst. cbn [ht_elems] in He. apply andb_prop in He as [He1 He2].
      rewrite enc_elems_cons. cbn [tv_elems].
      change (write_elems p k (to_tval S et x :: tv_elems S et r)) with
        (write_val p k (to_tval S et x) ;; write_elems p k (tv_elems S et r)).
      apply wseq_ext; [apply Hx; exact He1|intros; apply IHr; auto].
    - (* map *)
      rewrite has_type_map in Ht. rewrite enc_ty_map, to_tval_map. res_cases S t.
      apply andb_prop in Ht as [_ He].
      change (write_val p k (VMap (ttype_of_ty S kt) (ttype_of_ty S vt) (tv_pairs S kt vt l))) with
        (w_map_begin p (ttype_of_ty S kt) (ttype_of_ty S vt) (Z.of_nat (length (tv_pairs S kt vt l))) ;;
         write_pairs p k (tv_pairs S kt vt l)).
      rewrite tv_pairs_length. apply wseq_ext; [reflexivity|]. clear c.
      induction l as [|[a b] r IHr]; intros c; [reflexivity|].
      inversion H as [|? ? Hx Hr]; subst. cbn [fst snd] in Hx. destruct Hx as [Ha Hb].
      cbn [ht_pairs] in He. apply andb_prop in He as [He He3]. apply andb_prop in He as [He1 He2].
      rewrite enc_pairs_cons. cbn [tv_pairs].
      change (write_pairs p k ((to_tval S kt a, to_tval S vt b) :: tv_pairs S kt vt r)) with
        (write_val p k (to_tval S kt a) ;; write_val p k (to_tval S vt b) ;; write_pairs p k (tv_pairs S kt vt r)).
      apply wseq_ext; [|intros; apply IHr; auto].
      apply wseq_ext; [apply Ha; exact He1|intros; apply Hb; exact He2].
    - (* struct *)
      rewrite has_type_struct in Ht. rewrite enc_ty_struct, to_tval_struct. destruct unk; [|discriminate].
      res_cases S t. decl_cases S n.
      pose proof (ht_struct_inv _ _ _ _ _ Elk Ht) as HF. clear Ht.
      change (write_val p k (VStruct (tv_fields S dfs fs))) with
        (w_struct_begin p ;; write_fields p k (tv_fields S dfs fs) ;; w_field_stop p ;; w_struct_end p).
      apply wseq_ext; [|reflexivity]. apply wseq_ext; [|reflexivity].
      cbn [w_unknown fold_right]. rewrite wseq_nop_r.
      apply wseq_ext; [reflexivity|]. clear c.
      induction fs as [|[id x] r IHr]; intros c; [reflexivity|].
      inversion H as [|? ? Hx Hr]; subst. inversion HF as [|? ? (f & Hf & Hok & Hty) HFr]; subst.
      cbn [fst snd] in *. rewrite enc_fields_cons, tv_fields_cons, Hf.
      change (write_fields p k ((id, to_tval S (f_ty f) x) :: tv_fields S dfs r)) with
        (w_field_begin p (ttype_of (to_tval S (f_ty f) x)) id ;; write_val p k (to_tval S (f_ty f) x) ;;
         w_field_end p ;; write_fields p k (tv_fields S dfs r)).
      apply wseq_ext; [|intros; apply IHr; auto].
      destruct (field_ok_inv _ _ Hok) as (_ & _ & Hnv & _).
      unfold enc_field. rewrite Hnv, (to_tval_ttype _ _ Hty).
      apply wseq_ext; [|reflexivity]. apply wseq_ext; [reflexivity|]. intros c1. apply Hx. exact Hty.
    - (* union *)
      rewrite has_type_union in Ht. rewrite enc_ty_union, to_tval_union. res_cases S t. decl_cases S n.
      destruct (find_variant vs id) as [vt|] eqn:Ev; [|discriminate].
      destruct (is_void (resolve S vt)) eqn:Evoid; [reflexivity|].
      change (write_val p k (VStruct [(id, to_tval S vt v)])) with
        (w_struct_begin p ;;
         (w_field_begin p (ttype_of (to_tval S vt v)) id ;; write_val p k (to_tval S vt v) ;; w_field_end p ;; wnop) ;;
         w_field_stop p ;; w_struct_end p).
      apply wseq_ext; [|reflexivity]. apply wseq_ext; [|reflexivity]. apply wseq_ext; [reflexivity|].
      intros c1. rewrite wseq_nop_r, (to_tval_ttype _ _ Ht).
      apply wseq_ext; [|reflexivity]. apply wseq_ext; [reflexivity|]. intros c2. apply IHv. exact Ht.
    - discriminate.
  Qed.
End Enc.
