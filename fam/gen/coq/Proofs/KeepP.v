(* C13 core (binary protocols): the decoder of a keep_unknown_fields build, run on the runtime writer's encoding
   of ANY value tree (any writer schema), returns [viewk]: the tolerant reader's view plus, in every keeping struct,
   byte for byte the encodings of the fields it ignores (fbytes = header + value as written), in wire order.
   Induction on the value tree, writer against reader as in PV.Proofs.RoundtripP / Proofs.RoundP; leaves go through
   C08 (Proofs/EvoTopP.evo_tolerant).  The binary protocols never change the writer / reader contexts, which is why
   the field encodings are position independent; [c] is the (arbitrary, no pending bool) writer context. *)
From PVGen Require Import Gen GenKeep GenSpec EvoSpec KeepSpec Proofs.GenBase Proofs.EncP Proofs.EvoBase Proofs.EvoP
  Proofs.EvoErrP Proofs.EvoTopP Proofs.KeepBase.
From PV Require Import Proofs.TablesP Proofs.PrimP Proofs.HeaderP Proofs.RoundtripP.
From Coq Require Import ZifyN ZifyNat ZifyBool.
Open Scope Z_scope.

Lemma firstn_exact {A} (a b : list A) n : n = length a -> firstn n (a ++ b) = a.
Proof. intros ->. rewrite firstn_app, Nat.sub_diag, firstn_all. cbn [firstn]. apply app_nil_r. Qed.

(* ----- the binary protocols: no context, fixed-size headers ----- *)
Definition hdrb (p : pk) (ty : ttype) (id : Z) : list byte := z2b (ttype_code ty) :: fx p 2 (wrap_u 16 id).

Lemma hdrb_length p ty id : length (hdrb p ty id) = 3%nat.
Proof. unfold hdrb. cbn [length]. rewrite fx_length. reflexivity. Qed.
Lemma bin_field_begin_w p ty id c : p <> PCompact -> w_field_begin p ty id c = Ok ([Copy (hdrb p ty id)], c).
Proof. destruct p; try congruence; reflexivity. Qed.
Lemma bin_fbl p ft oid s : p <> PCompact -> r_field_begin_len p ft oid s = Ok (3, s).
Proof. destruct p; try congruence; reflexivity. Qed.
Lemma bin_rlast p id rcx : p <> PCompact -> rlast_upd p id rcx = rcx.
Proof. destruct p; try congruence; reflexivity. Qed.
Lemma bin_struct_begin_w p c : p <> PCompact -> w_struct_begin p c = Ok ([], c).
Proof. destruct p; try congruence; reflexivity. Qed.
Lemma bin_struct_end_w p c : p <> PCompact -> w_struct_end p c = Ok ([], c).
Proof. destruct p; try congruence; reflexivity. Qed.
Lemma bin_struct_begin_r p s : p <> PCompact -> r_struct_begin p s = Ok (tt, s).
Proof. destruct p; try congruence; reflexivity. Qed.
Lemma bin_struct_end_r p s : p <> PCompact -> r_struct_end p s = Ok (tt, s).
Proof. destruct p; try congruence; reflexivity. Qed.
Lemma bin_map_hdr p kt vt n : p <> PCompact -> map_hdr_canon p kt vt n = (kt, vt, n).
Proof. destruct p; try congruence; reflexivity. Qed.

Section KeepW.
  Variable S : schema.
  Variable p : pk.
  Hypothesis Hbin : p <> PCompact.
  Variable k : bk.
  Variable c : wctx.
  Hypothesis Hc : w_pend c = None.

  Notation VK := (viewk S p k c).

  Definition KRT (x : tval) : Prop :=
    wt x = true ->
    exists ss, write_val p k x c = Ok (ss, c) /\
      forall t, ttype_of x = ttype_of_ty S t -> evo_dom S t x = true -> no_retyped_variant S t x = true ->
      arg_free S t x = true ->
      forall fuel r rcx, (vsize x <= fuel)%nat -> idle rcx ->
        gen_decode_keep S p fuel t (mkS (flat ss ++ r) rcx) = lift_view (VK t x) (mkS r rcx).

  Lemma written x ss : wt x = true -> write_val p k x c = Ok (ss, c) ->
    (1 <= length (flat ss))%nat /\
    forall fuel r rcx, (vsize x <= fuel)%nat -> idle rcx ->
      read_val p fuel (ttype_of x) (mkS (flat ss ++ r) rcx) = Ok (canon p x, mkS r rcx).
  Proof.
    intros Hwt Hw. destruct (roundtrip_val p k x Hwt c Hc) as (ss' & Hw' & Hl & Hr).
    rewrite Hw in Hw'. injection Hw' as <-. auto.
  Qed.

  Lemma KRT_leaf x : leaf x = true -> KRT x.
  Proof.
    intros Hl Hwt. destruct (roundtrip_val p k x Hwt c Hc) as (ss & Hw & _ & _).
    exists ss. split; [exact Hw|]. intros t Hty Hd Hn _ fuel r rcx Hf Hi.
    rewrite (leaf_decode_same S p fuel t _ x Hl Hty), (leaf_view_same S p k c t x Hl).
    destruct (evo_tolerant S p k t x Hwt Hty Hd Hn c Hc) as (ss' & Hw' & Hr').
    rewrite Hw in Hw'. injection Hw' as <-. apply Hr'; assumption.
  Qed.

  (* ----- containers ----- *)
  Lemma k_elems l : Forall KRT l -> (forall x, In x l -> wt x = true) ->
    exists ss, write_elems p k l c = Ok (ss, c) /\ (length l <= length (flat ss))%nat /\
      forall et, ((forall x, In x l -> ttype_of x = ttype_of_ty S et) ->
       walk_elems S skippable true et l = true -> walk_elems S (fun _ => true) false et l = true ->
       af_elems S et l = true ->
       forall f m r rcx acc, (forall x, In x l -> (vsize x <= f)%nat) -> (length l <= m)%nat -> idle rcx ->
         dec_elems (gen_decode_keep S p f) m et (Z.of_nat (length l)) (mkS (flat ss ++ r) rcx) acc
         = lift_view (let* ys := viewk_elems S p k c et l in Ok (rev acc ++ ys)) (mkS r rcx)).
  Proof.
    induction l as [|x t IH]; intros HF Hwt.
    - exists []. split; [reflexivity|]. split; [cbn; lia|].
      intros et _ _ _ _ f m r rcx acc _ _ _. cbn [length Z.of_nat flat map concat app viewk_elems bind lift_view].
      destruct m; cbn [dec_elems Z.leb Z.compare]; rewrite app_nil_r; reflexivity.
    - inversion HF as [|? ? Hx Hxs]; subst.
      pose proof (Hwt x (or_introl eq_refl)) as Hwx.
      destruct (Hx Hwx) as (s1 & Hw1 & Hr1). destruct (written x s1 Hwx Hw1) as [Hl1 _].
      destruct (IH Hxs (fun y Hy => Hwt y (or_intror Hy))) as (s2 & Hw2 & Hl2 & Hr2).
      exists (s1 ++ s2). split.
      { change (write_elems p k (x :: t)) with (write_val p k x ;; write_elems p k t). eapply wseq_ok; eauto. }
      split; [rewrite flat_app, app_length; cbn [length]; lia|].
      intros et Hty Hw1_ Hw2_ Haf f m r rcx acc Hv Hm Hi.
      rewrite walk_elems_cons in Hw1_, Hw2_. apply andb_prop in Hw1_ as [Hxa Hra]. apply andb_prop in Hw2_ as [Hxb Hrb].
      cbn [af_elems] in Haf. apply andb_prop in Haf as [Hxc Hrc].
      destruct m as [|m]; [cbn [length] in Hm; lia|]. cbn [dec_elems].
      replace (Z.of_nat (length (x :: t)) <=? 0) with false by (cbn [length]; lia).
      rewrite flat_app, <- app_assoc.
      rewrite (Hr1 et (Hty x (or_introl eq_refl)) Hxa Hxb Hxc f _ rcx (Hv x (or_introl eq_refl)) Hi).
      rewrite viewk_elems_cons.
      destruct (VK et x) as [y|e|q]; cbn [lift_view bind]; try reflexivity.
      replace (Z.of_nat (length (x :: t)) - 1) with (Z.of_nat (length t)) by (cbn [length]; lia).
      rewrite (Hr2 et (fun y0 Hy => Hty y0 (or_intror Hy)) Hra Hrb Hrc f m r rcx (y :: acc)
                 (fun y0 Hy => Hv y0 (or_intror Hy)) ltac:(cbn [length] in Hm; lia) Hi).
      destruct (viewk_elems S p k c et t) as [ys|e|q]; cbn [lift_view bind rev]; try reflexivity.
      rewrite <- app_assoc. reflexivity.
  Qed.

  Lemma k_pairs l : Forall (fun q => KRT (fst q) /\ KRT (snd q)) l ->
    (forall q, In q l -> wt (fst q) = true /\ wt (snd q) = true) ->
    exists ss, write_pairs p k l c = Ok (ss, c) /\ (length l <= length (flat ss))%nat /\
      forall kt vt, ((forall q, In q l -> ttype_of (fst q) = ttype_of_ty S kt /\ ttype_of (snd q) = ttype_of_ty S vt) ->
       walk_pairs S skippable true kt vt l = true -> walk_pairs S (fun _ => true) false kt vt l = true ->
       af_pairs S kt vt l = true ->
       forall f m r rcx acc, (forall q, In q l -> (vsize (fst q) <= f)%nat /\ (vsize (snd q) <= f)%nat) ->
         (length l <= m)%nat -> idle rcx ->
         dec_pairs (gen_decode_keep S p f) m kt vt (Z.of_nat (length l)) (mkS (flat ss ++ r) rcx) acc
         = lift_view (let* ys := viewk_pairs S p k c kt vt l in Ok (rev acc ++ ys)) (mkS r rcx)).
  Proof.
    induction l as [|[a b] t IH]; intros HF Hwt.
    - exists []. split; [reflexivity|]. split; [cbn; lia|].
      intros kt vt _ _ _ _ f m r rcx acc _ _ _. cbn [length Z.of_nat flat map concat app viewk_pairs bind lift_view].
      destruct m; cbn [dec_pairs Z.leb Z.compare]; rewrite app_nil_r; reflexivity.
    - inversion HF as [|? ? [Ha Hb] Hxs]; subst. cbn [fst snd] in *.
      destruct (Hwt (a, b) (or_introl eq_refl)) as [Hwa Hwb]. cbn [fst snd] in *.
      destruct (Ha Hwa) as (s1 & Hw1 & Hr1). destruct (written a s1 Hwa Hw1) as [Hl1 _].
      destruct (Hb Hwb) as (s2 & Hw2 & Hr2).
      destruct (IH Hxs (fun y Hy => Hwt y (or_intror Hy))) as (s3 & Hw3 & Hl3 & Hr3).
      exists ((s1 ++ s2) ++ s3). split.
      { change (write_pairs p k ((a, b) :: t)) with (write_val p k a ;; write_val p k b ;; write_pairs p k t).
        eapply wseq_ok; [eapply wseq_ok|]; eauto. }
      split; [rewrite !flat_app, !app_length; cbn [length]; lia|].
      intros kt vt Hty Hw1_ Hw2_ Haf f m r rcx acc Hv Hm Hi.
      cbn [af_pairs] in Haf. apply andb_prop in Haf as [Haf Hrc]. apply andb_prop in Haf as [Hac Hbc].
      rewrite walk_pairs_cons in Hw1_, Hw2_.
      apply andb_prop in Hw1_ as [Hw1_ Hra]. apply andb_prop in Hw1_ as [Haa Hba].
      apply andb_prop in Hw2_ as [Hw2_ Hrb]. apply andb_prop in Hw2_ as [Hab Hbb].
      destruct (Hty (a, b) (or_introl eq_refl)) as [Hta Htb]. destruct (Hv (a, b) (or_introl eq_refl)) as [Hva Hvb].
      cbn [fst snd] in *.
      assert (Em : exists m', m = Datatypes.S m' /\ (length t <= m')%nat).
      { clear - Hm. destruct m as [|m']; cbn [length] in Hm; [lia|]. exists m'. split; [reflexivity|lia]. }
      destruct Em as (m' & -> & Hm').
      assert (E0 : (Z.of_nat (length ((a, b) :: t)) <=? 0) = false) by (clear; cbn [length]; lia).
      assert (E1 : Z.of_nat (length ((a, b) :: t)) - 1 = Z.of_nat (length t)) by (clear; cbn [length]; lia).
      cbn [dec_pairs]. rewrite E0.
      rewrite !flat_app, <- !app_assoc.
      rewrite (Hr1 kt Hta Haa Hab Hac f _ rcx Hva Hi). rewrite viewk_pairs_cons.
      destruct (VK kt a) as [y|e|q]; cbn [lift_view bind]; try reflexivity.
      rewrite (Hr2 vt Htb Hba Hbb Hbc f _ rcx Hvb Hi).
      destruct (VK vt b) as [y0|e|q]; cbn [lift_view bind]; try reflexivity.
      rewrite E1.
      rewrite (Hr3 kt vt (fun y1 Hy => Hty y1 (or_intror Hy)) Hra Hrb Hrc f m' r rcx ((y, y0) :: acc)
                 (fun y1 Hy => Hv y1 (or_intror Hy)) Hm' Hi).
      destruct (viewk_pairs S p k c kt vt t) as [ys|e|q]; cbn [lift_view bind rev]; try reflexivity.
      rewrite <- app_assoc. reflexivity.
  Qed.

  Lemma KRT_coll (isl : bool) a l : Forall KRT l -> KRT (if isl then VList a l else VSet a l).
  Proof.
    intros HF Hwt.
    assert (Hwt' : wt (VList a l) = true) by (destruct isl; exact Hwt).
    destruct (wt_list_inv a l Hwt') as (Het & Hlen & Hel). apply len_ok_bound in Hlen.
    destruct (w_coll_ok p a (Z.of_nat (length l)) c Het Hlen) as (s1 & Hw1 & Hr1).
    destruct (k_elems l HF (fun x Hx => proj1 (Hel x Hx))) as (s2 & Hw2 & Hl2 & Hr2).
    exists (s1 ++ s2). split; [destruct isl; cbn [write_val]; eapply wseq_ok; eauto|].
    intros t Hty Hd Hn Haf fuel r rcx Hf Hi.
    assert (Hsz : (vsize (VList a l) <= fuel)%nat) by (destruct isl; exact Hf).
    destruct fuel as [|f]; [pose proof (vsize_pos (VList a l)); lia|].
    rewrite gen_decode_keep_eq. unfold evo_dom, no_retyped_variant in Hd, Hn.
    assert (Hh : r_coll_begin p (mkS (flat s1 ++ flat s2 ++ r) rcx) = Ok ((a, Z.of_nat (length l)), mkS (flat s2 ++ r) rcx)).
    { apply Hr1. rewrite app_length. lia. }
    assert (G : forall et, (l <> [] -> a = ttype_of_ty S et) ->
              walk_elems S skippable true et l = true -> walk_elems S (fun _ => true) false et l = true ->
              af_elems S et l = true ->
              dec_elems (gen_decode_keep S p f) (Datatypes.S f) et (Z.of_nat (length l)) (mkS (flat s2 ++ r) rcx) []
              = lift_view (viewk_elems S p k c et l) (mkS r rcx)).
    { intros et Ha W1 W2 W3.
      rewrite (Hr2 et); auto.
      - cbn [rev app]. destruct (viewk_elems S p k c et l); reflexivity.
      - intros x Hx. rewrite (proj2 (Hel x Hx)). apply Ha. intros ->. destruct Hx.
      - intros x Hx. pose proof (vsize_list_bound a l x Hx). lia.
      - pose proof (vsize_list_len a l). lia. }
    rewrite flat_app, <- app_assoc.
    destruct isl; symmetry in Hty; cbn [ttype_of] in Hty.
    - rewrite viewk_list. rewrite walk_list in Hd, Hn. rewrite af_list in Haf. tycases Hty.
      apply andb_prop in Hd as [Ha Hd]. apply andb_prop in Hn as [_ Hn].
      rewrite Hh. cbn [bind fst snd]. rewrite G; auto.
      + destruct (viewk_elems S p k c et l); reflexivity.
      + intros Hne. destruct l; [congruence|]. cbn [nonempty_is] in Ha. destruct (ttype_eqb_spec a (ttype_of_ty S et)); [auto|discriminate Ha].
    - rewrite viewk_set. rewrite walk_set in Hd, Hn. rewrite af_set in Haf. tycases Hty.
      apply andb_prop in Hd as [Ha Hd]. apply andb_prop in Hn as [_ Hn].
      rewrite Hh. cbn [bind fst snd]. rewrite G; auto.
      + destruct (viewk_elems S p k c et l); reflexivity.
      + intros Hne. destruct l; [congruence|]. cbn [nonempty_is] in Ha. destruct (ttype_eqb_spec a (ttype_of_ty S et)); [auto|discriminate Ha].
  Qed.

  Lemma KRT_map ka va l : Forall (fun q => KRT (fst q) /\ KRT (snd q)) l -> KRT (VMap ka va l).
  Proof.
    intros HF Hwt.
    destruct (wt_map_inv ka va l Hwt) as (Hk & Hv & Hlen & Hel). apply len_ok_bound in Hlen.
    destruct (w_map_ok p ka va (Z.of_nat (length l)) c Hk Hv Hlen) as (s1 & Hw1 & Hr1).
    destruct (k_pairs l HF (fun q Hq => conj (proj1 (Hel q Hq)) (proj1 (proj2 (proj2 (Hel q Hq))))))
      as (s2 & Hw2 & Hl2 & Hr2).
    exists (s1 ++ s2). split; [cbn [write_val]; eapply wseq_ok; eauto|].
    intros t Hty Hd Hn Haf fuel r rcx Hf Hi.
    destruct fuel as [|f]; [pose proof (vsize_pos (VMap ka va l)); lia|].
    rewrite gen_decode_keep_eq, viewk_map. unfold evo_dom, no_retyped_variant in Hd, Hn. rewrite walk_map in Hd, Hn. rewrite af_map in Haf.
    symmetry in Hty. cbn [ttype_of] in Hty. tycases Hty.
    apply andb_prop in Hd as [Ha Hd]. apply andb_prop in Hn as [_ Hn].
    rewrite flat_app, <- app_assoc. rewrite Hr1 by (rewrite app_length; lia).
    rewrite (bin_map_hdr p ka va _ Hbin). cbn [bind fst snd].
    rewrite (Hr2 kt vt); auto.
    - cbn [rev app]. destruct (viewk_pairs S p k c kt vt l); reflexivity.
    - intros q Hq. destruct (Hel q Hq) as (_ & Hta & _ & Htb). rewrite Hta, Htb.
      destruct l; [destruct Hq|]. cbn [nonempty_is] in Ha. apply andb_prop in Ha as [A1 A2].
      destruct (ttype_eqb_spec ka (ttype_of_ty S kt)); [|discriminate A1].
      destruct (ttype_eqb_spec va (ttype_of_ty S vt)); [|discriminate A2]. auto.
    - intros q Hq. pose proof (vsize_map_bound ka va l q Hq). lia.
    - pose proof (vsize_map_len ka va l). lia.
  Qed.

  (* ----- one field: bytes, header, skipping, decoding ----- *)
  Lemma k_field x id : KRT x -> wt x = true -> in_s 16 id ->
    exists s2, write_val p k x c = Ok (s2, c) /\
      (w_field_begin p (ttype_of x) id ;; write_val p k x ;; w_field_end p) c
        = Ok (([Copy (hdrb p (ttype_of x) id)] ++ s2) ++ [], c) /\
      fbytes p k c id x = hdrb p (ttype_of x) id ++ flat s2 /\
      forall r rcx, idle rcx ->
        r_field_begin p (mkS (hdrb p (ttype_of x) id ++ flat s2 ++ r) rcx)
          = Ok ((ttype_of x, Some id), mkS (flat s2 ++ r) rcx) /\
        (forall f, (vsize x <= f)%nat -> skippable x = true ->
           Gen.skip p f (ttype_of x) (mkS (flat s2 ++ r) rcx) = Ok (Z.of_nat (length (flat s2)), mkS r rcx)) /\
        (forall t f, ttype_of x = ttype_of_ty S t -> evo_dom S t x = true -> no_retyped_variant S t x = true ->
           arg_free S t x = true -> (vsize x <= f)%nat ->
           gen_decode_keep S p f t (mkS (flat s2 ++ r) rcx) = lift_view (VK t x) (mkS r rcx)).
  Proof.
    intros Hx Hwx Hid. destruct (Hx Hwx) as (s2 & Hw2 & Hr2). exists s2. split; [exact Hw2|].
    pose proof (bin_field_begin_w p (ttype_of x) id c Hbin) as Hwf.
    assert (Hwhole : (w_field_begin p (ttype_of x) id ;; write_val p k x ;; w_field_end p) c
                     = Ok (([Copy (hdrb p (ttype_of x) id)] ++ s2) ++ [], c)).
    { eapply wseq_ok; [eapply wseq_ok; [exact Hwf|exact Hw2]|apply w_field_end_ok; exact Hc]. }
    split; [exact Hwhole|]. split.
    { unfold fbytes. rewrite Hwhole. rewrite app_nil_r, flat_app, flat_copy. reflexivity. }
    intros r rcx Hi. split; [|split].
    - destruct (w_field_ok p (ttype_of x) id c (fun E => False_ind _ (Hbin E)) (ttype_of_nonstop x) (ttype_of_val_ok x)
                  Hid Hc (fun E => False_ind _ (Hbin E))) as (ss & Hw & _ & Hr).
      rewrite Hwf in Hw. injection Hw as <- _.
      specialize (Hr (flat s2 ++ r) rcx (fun E => False_ind _ (Hbin E)) (proj2 Hi)).
      rewrite flat_copy, (bin_rlast p id rcx Hbin) in Hr. exact Hr.
    - intros f Hf Hs. destruct (written x s2 Hwx Hw2) as [_ Hrt].
      unfold Gen.skip. rewrite (Hrt f r rcx Hf Hi). cbn [bind]. rewrite vdepth_canon'.
      unfold skippable in Hs. rewrite Hs. cbn [rbuf]. rewrite app_length. f_equal. f_equal. lia.
    - intros t f Hty Hd Hn Haf Hf. apply Hr2; assumption.
  Qed.

  Lemma flat_field h s2 s3 r : flat ((([Copy h] ++ s2) ++ []) ++ s3) ++ x00 :: r = h ++ flat s2 ++ flat s3 ++ x00 :: r.
  Proof. rewrite app_nil_r, !flat_app, flat_copy, <- !app_assoc. reflexivity. Qed.

  Lemma stop_read r rcx : idle rcx -> exists oid, r_field_begin p (mkS (x00 :: r) rcx) = Ok ((TStop, oid), mkS r rcx).
  Proof. intros Hi. exact (proj2 (w_field_stop_ok p c Hc) r rcx (proj2 Hi)). Qed.

  Lemma idle_npf r rcx : idle rcx -> npf (mkS r rcx).
  Proof. intros [_ H]. exact H. Qed.

  (* ----- struct fields, keeping declaration ----- *)
  Lemma k_fields_keep dfs fs : Forall (fun q => KRT (snd q)) fs -> wtf fs = true ->
    exists ss, write_fields p k fs c = Ok (ss, c) /\
      (walk_fields S skippable true dfs fs = true -> walk_fields S (fun _ => true) false dfs fs = true ->
       af_fields S dfs fs = true ->
       forall f n r rcx vars num unk, (forall q, In q fs -> (vsize (snd q) <= f)%nat) -> (length fs < n)%nat -> idle rcx ->
         dec_fields_keep S p f (gen_decode_keep S p f) n dfs false vars num unk (mkS (flat ss ++ x00 :: r) rcx)
         = lift_view (viewk_fields S p k c dfs true fs vars unk) (mkS r rcx)).
  Proof.
    induction fs as [|[id x] t IH]; intros HF Hwt.
    - exists []. split; [reflexivity|]. intros _ _ _ f n r rcx vars num unk _ Hn Hi.
      destruct n as [|n]; [cbn in Hn; lia|]. cbn [flat map concat app dec_fields_keep andb].
      destruct (stop_read r rcx Hi) as (oid & Hs). rewrite Hs. cbn [bind fst ttype_eqb].
      rewrite (r_field_stop_len_npf p _ (idle_npf r rcx Hi)). reflexivity.
    - inversion HF as [|? ? Hx Hxs]; subst. cbn [snd] in Hx.
      cbn [wtf] in Hwt. apply andb_prop in Hwt as [Hwt Hwr]. apply andb_prop in Hwt as [Hid Hwx]. apply in_sb_spec in Hid.
      destruct (k_field x id Hx Hwx Hid) as (s2 & Hw2 & Hwf & Hfb & Hrd).
      destruct (IH Hxs Hwr) as (s3 & Hw3 & Hr3).
      exists (((([Copy (hdrb p (ttype_of x) id)] ++ s2) ++ []) ++ s3)). split.
      { change (write_fields p k ((id, x) :: t)) with
          (w_field_begin p (ttype_of x) id ;; write_val p k x ;; w_field_end p ;; write_fields p k t).
        eapply wseq_ok; eauto. }
      intros W1 W2 W3 f n r rcx vars num unk Hv Hn Hi.
      cbn [af_fields] in W3. apply andb_prop in W3 as [Hx3 Hr3']. unfold af_field in Hx3.
      rewrite walk_fields_cons in W1, W2. unfold walk_field in W1, W2.
      apply andb_prop in W1 as [Hx1 Hr1]. apply andb_prop in W2 as [Hx2 Hr2].
      destruct n as [|n]; [cbn in Hn; lia|]. cbn [dec_fields_keep andb]. rewrite flat_field.
      destruct (Hrd (flat s3 ++ x00 :: r) rcx Hi) as (Hb & Hskip & Hdec). rewrite Hb. cbn [bind fst snd].
      rewrite (ttype_eqb_nonstop _ (ttype_of_nonstop x)). rewrite (bin_fbl p _ _ _ Hbin). cbn [bind].
      rewrite viewk_fields_cons.
      pose proof (Hv (id, x) (or_introl eq_refl)) as Hvx. cbn [snd] in Hvx.
      destruct (match_field S dfs 0 (Some id) (ttype_of x)) as [[i fl]|] eqn:Em.
      + destruct (match_field_inv _ _ _ _ _ _ _ Em) as (_ & _ & Hft).
        rewrite (Hdec (f_ty fl) f (eq_sym Hft) Hx1 Hx2 Hx3 Hvx).
        destruct (VK (f_ty fl) x) as [y|e|q]; cbn [lift_view bind]; try reflexivity.
        rewrite (r_field_end_len_npf p _ (idle_npf _ rcx Hi)). cbn [bind fst snd].
        apply Hr3; [exact Hr1|exact Hr2|exact Hr3'|intros q0 Hq0; apply Hv; right; exact Hq0|cbn [length] in Hn; lia|exact Hi].
      + rewrite (Hskip f Hvx Hx1). cbn [bind rbuf].
        rewrite (r_field_end_len_npf p _ (idle_npf _ rcx Hi)). cbn [bind fst snd].
        rewrite app_assoc, firstn_exact by (rewrite app_length, hdrb_length; lia).
        rewrite <- Hfb. apply Hr3; [exact Hr1|exact Hr2|exact Hr3'|intros q0 Hq0; apply Hv; right; exact Hq0|cbn [length] in Hn; lia|exact Hi].
  Qed.

  (* ----- struct fields, declaration that does not keep (the plain loop over the keep decoders) ----- *)
  Lemma k_fields_plain dfs fs : Forall (fun q => KRT (snd q)) fs -> wtf fs = true ->
    exists ss, write_fields p k fs c = Ok (ss, c) /\
      (walk_fields S skippable true dfs fs = true -> walk_fields S (fun _ => true) false dfs fs = true ->
       af_fields S dfs fs = true ->
       forall f n r rcx vars unk, (forall q, In q fs -> (vsize (snd q) <= f)%nat) -> (length fs < n)%nat -> idle rcx ->
         dec_fields S p f (gen_decode_keep S p f) n dfs vars (mkS (flat ss ++ x00 :: r) rcx)
         = lift_view (let* r0 := viewk_fields S p k c dfs false fs vars unk in Ok (fst r0)) (mkS r rcx)).
  Proof.
    induction fs as [|[id x] t IH]; intros HF Hwt.
    - exists []. split; [reflexivity|]. intros _ _ _ f n r rcx vars unk _ Hn Hi.
      destruct n as [|n]; [cbn in Hn; lia|]. cbn [flat map concat app dec_fields].
      destruct (stop_read r rcx Hi) as (oid & Hs). rewrite Hs. cbn [bind fst ttype_eqb].
      rewrite (r_field_stop_len_npf p _ (idle_npf r rcx Hi)). reflexivity.
    - inversion HF as [|? ? Hx Hxs]; subst. cbn [snd] in Hx.
      cbn [wtf] in Hwt. apply andb_prop in Hwt as [Hwt Hwr]. apply andb_prop in Hwt as [Hid Hwx]. apply in_sb_spec in Hid.
      destruct (k_field x id Hx Hwx Hid) as (s2 & Hw2 & Hwf & Hfb & Hrd).
      destruct (IH Hxs Hwr) as (s3 & Hw3 & Hr3).
      exists (((([Copy (hdrb p (ttype_of x) id)] ++ s2) ++ []) ++ s3)). split.
      { change (write_fields p k ((id, x) :: t)) with
          (w_field_begin p (ttype_of x) id ;; write_val p k x ;; w_field_end p ;; write_fields p k t).
        eapply wseq_ok; eauto. }
      intros W1 W2 W3 f n r rcx vars unk Hv Hn Hi.
      cbn [af_fields] in W3. apply andb_prop in W3 as [Hx3 Hr3']. unfold af_field in Hx3.
      rewrite walk_fields_cons in W1, W2. unfold walk_field in W1, W2.
      apply andb_prop in W1 as [Hx1 Hr1]. apply andb_prop in W2 as [Hx2 Hr2].
      destruct n as [|n]; [cbn in Hn; lia|]. cbn [dec_fields]. rewrite flat_field.
      destruct (Hrd (flat s3 ++ x00 :: r) rcx Hi) as (Hb & Hskip & Hdec). rewrite Hb. cbn [bind fst snd].
      rewrite (ttype_eqb_nonstop _ (ttype_of_nonstop x)). rewrite (bin_fbl p _ _ _ Hbin). cbn [bind].
      rewrite viewk_fields_cons.
      pose proof (Hv (id, x) (or_introl eq_refl)) as Hvx. cbn [snd] in Hvx.
      destruct (match_field S dfs 0 (Some id) (ttype_of x)) as [[i fl]|] eqn:Em.
      + destruct (match_field_inv _ _ _ _ _ _ _ Em) as (_ & _ & Hft).
        rewrite (Hdec (f_ty fl) f (eq_sym Hft) Hx1 Hx2 Hx3 Hvx).
        destruct (VK (f_ty fl) x) as [y|e|q]; cbn [lift_view bind]; try reflexivity.
        rewrite (r_field_end_len_npf p _ (idle_npf _ rcx Hi)). cbn [bind].
        apply Hr3; [exact Hr1|exact Hr2|exact Hr3'|intros q0 Hq0; apply Hv; right; exact Hq0|cbn [length] in Hn; lia|exact Hi].
      + rewrite (Hskip f Hvx Hx1). cbn [bind].
        rewrite (r_field_end_len_npf p _ (idle_npf _ rcx Hi)). cbn [bind].
        apply Hr3; [exact Hr1|exact Hr2|exact Hr3'|intros q0 Hq0; apply Hv; right; exact Hq0|cbn [length] in Hn; lia|exact Hi].
  Qed.

  (* ----- union variants ----- *)
  (* under no_retyped_variant a variant known by id has the declared wire type *)
  Lemma variant_typed vs id x vt : walk_variant S (fun _ => true) false vs id x = true ->
    variant_by_id S vs id = Some vt -> ttype_of x = ttype_of_ty S vt /\ find_variant vs id = Some vt /\ is_void (resolve S vt) = false.
  Proof.
    unfold walk_variant, variant_by_id. destruct (find_variant vs id) as [vt'|]; [|discriminate].
    destruct (is_void (resolve S vt')) eqn:Ev; [discriminate|].
    intros Hw H. injection H as <-.
    destruct (ttype_eqb_spec (ttype_of_ty S vt') (ttype_of x)) as [E|]; [auto|discriminate Hw].
  Qed.

  Lemma variant_walk od ro vs id x vt : walk_variant S od ro vs id x = true -> variant_by_id S vs id = Some vt ->
    ttype_of x = ttype_of_ty S vt -> walk S od ro vt x = true.
  Proof.
    unfold walk_variant, variant_by_id. destruct (find_variant vs id) as [vt'|]; [|discriminate].
    destruct (is_void (resolve S vt')) eqn:Ev; [discriminate|].
    intros Hw H Ht. injection H as <-. rewrite Ht in Hw.
    destruct (ttype_eqb_spec (ttype_of_ty S vt') (ttype_of_ty S vt')); [exact Hw|congruence].
  Qed.

  Lemma variant_dropped vs id x : walk_variant S skippable true vs id x = true -> variant_by_id S vs id = None ->
    skippable x = true.
  Proof.
    unfold walk_variant, variant_by_id. destruct (find_variant vs id) as [vt'|]; [|auto].
    destruct (is_void (resolve S vt')); [auto|discriminate].
  Qed.

  Lemma k_variants_keep vs fs : Forall (fun q => KRT (snd q)) fs -> wtf fs = true ->
    exists ss, write_fields p k fs c = Ok (ss, c) /\
      (walk_variants S skippable true vs fs = true -> walk_variants S (fun _ => true) false vs fs = true ->
       af_variants S vs fs = true ->
       forall f n r rcx ret, (forall q, In q fs -> (vsize (snd q) <= f)%nat) -> (length fs < n)%nat -> idle rcx ->
         dec_variants_keep S p f (gen_decode_keep S p f) n vs ret (mkS (flat ss ++ x00 :: r) rcx)
         = lift_view (viewk_variantsk S p k c vs fs ret) (mkS r rcx)).
  Proof.
    induction fs as [|[id x] t IH]; intros HF Hwt.
    - exists []. split; [reflexivity|]. intros _ _ _ f n r rcx ret _ Hn Hi.
      destruct n as [|n]; [cbn in Hn; lia|]. cbn [flat map concat app dec_variants_keep].
      destruct (stop_read r rcx Hi) as (oid & Hs). rewrite Hs. cbn [bind fst ttype_eqb].
      rewrite (r_field_stop_len_npf p _ (idle_npf r rcx Hi)). reflexivity.
    - inversion HF as [|? ? Hx Hxs]; subst. cbn [snd] in Hx.
      cbn [wtf] in Hwt. apply andb_prop in Hwt as [Hwt Hwr]. apply andb_prop in Hwt as [Hid Hwx]. apply in_sb_spec in Hid.
      destruct (k_field x id Hx Hwx Hid) as (s2 & Hw2 & Hwf & Hfb & Hrd).
      destruct (IH Hxs Hwr) as (s3 & Hw3 & Hr3).
      exists (((([Copy (hdrb p (ttype_of x) id)] ++ s2) ++ []) ++ s3)). split.
      { change (write_fields p k ((id, x) :: t)) with
          (w_field_begin p (ttype_of x) id ;; write_val p k x ;; w_field_end p ;; write_fields p k t).
        eapply wseq_ok; eauto. }
      intros W1 W2 W3 f n r rcx ret Hv Hn Hi.
      cbn [af_variants] in W3. apply andb_prop in W3 as [Hx3 Hr3']. unfold af_variant in Hx3.
      rewrite walk_variants_cons in W1, W2. apply andb_prop in W1 as [Hx1 Hr1]. apply andb_prop in W2 as [Hx2 Hr2].
      destruct n as [|n]; [cbn in Hn; lia|]. cbn [dec_variants_keep]. rewrite flat_field.
      destruct (Hrd (flat s3 ++ x00 :: r) rcx Hi) as (Hb & Hskip & Hdec). rewrite Hb. cbn [bind fst snd].
      rewrite (ttype_eqb_nonstop _ (ttype_of_nonstop x)). rewrite (bin_fbl p _ _ _ Hbin). cbn [bind].
      rewrite viewk_variantsk_cons.
      pose proof (Hv (id, x) (or_introl eq_refl)) as Hvx. cbn [snd] in Hvx.
      assert (Hrest : forall ret', dec_variants_keep S p f (gen_decode_keep S p f) n vs ret' (mkS (flat s3 ++ x00 :: r) rcx)
                                   = lift_view (viewk_variantsk S p k c vs t ret') (mkS r rcx)).
      { intros ret'. apply Hr3; [exact Hr1|exact Hr2|exact Hr3'|intros q0 Hq0; apply Hv; right; exact Hq0|cbn [length] in Hn; lia|exact Hi]. }
      fold (variant_by_id S vs id).
      destruct (variant_by_id S vs id) as [vt|] eqn:Evb.
      + destruct (variant_typed _ _ _ _ Hx2 Evb) as (Hft & Hfv & Hnv).
        unfold variant_by_id in Evb. rewrite Hfv, Hnv in Evb |- *.
        destruct ret; try reflexivity.
        rewrite (Hdec vt f Hft (variant_walk _ _ _ _ _ _ Hx1 ltac:(unfold variant_by_id; rewrite Hfv, Hnv; reflexivity) Hft)
                   (variant_walk _ _ _ _ _ _ Hx2 ltac:(unfold variant_by_id; rewrite Hfv, Hnv; reflexivity) Hft) Hx3 Hvx).
        destruct (VK vt x) as [y|e|q]; cbn [lift_view bind]; try reflexivity. apply Hrest.
      + pose proof (variant_dropped _ _ _ Hx1 Evb) as Hsk.
        unfold variant_by_id in Evb.
        assert (Ekn : match find_variant vs id with
                      | Some vt => if is_void (resolve S vt) then None else Some (id, vt)
                      | None => None
                      end = None).
        { destruct (find_variant vs id) as [vt|]; [|reflexivity]. destruct (is_void (resolve S vt)); [reflexivity|discriminate]. }
        rewrite Ekn. rewrite (Hskip f Hvx Hsk). cbn [bind rbuf].
        destruct ret; try reflexivity.
        rewrite app_assoc, firstn_exact by (rewrite app_length, hdrb_length; lia).
        rewrite <- Hfb. apply Hrest.
  Qed.

  Lemma k_variants_plain vs fs : Forall (fun q => KRT (snd q)) fs -> wtf fs = true ->
    exists ss, write_fields p k fs c = Ok (ss, c) /\
      (walk_variants S skippable true vs fs = true -> walk_variants S (fun _ => true) false vs fs = true ->
       af_variants S vs fs = true ->
       forall f n r rcx ret, (forall q, In q fs -> (vsize (snd q) <= f)%nat) -> (length fs < n)%nat -> idle rcx ->
         dec_variants S p f (gen_decode_keep S p f) n vs ret (mkS (flat ss ++ x00 :: r) rcx)
         = lift_view (viewk_variants S p k c vs fs ret) (mkS r rcx)).
  Proof.
    induction fs as [|[id x] t IH]; intros HF Hwt.
    - exists []. split; [reflexivity|]. intros _ _ _ f n r rcx ret _ Hn Hi.
      destruct n as [|n]; [cbn in Hn; lia|]. cbn [flat map concat app dec_variants].
      destruct (stop_read r rcx Hi) as (oid & Hs). rewrite Hs. cbn [bind fst ttype_eqb].
      rewrite (r_field_stop_len_npf p _ (idle_npf r rcx Hi)). reflexivity.
    - inversion HF as [|? ? Hx Hxs]; subst. cbn [snd] in Hx.
      cbn [wtf] in Hwt. apply andb_prop in Hwt as [Hwt Hwr]. apply andb_prop in Hwt as [Hid Hwx]. apply in_sb_spec in Hid.
      destruct (k_field x id Hx Hwx Hid) as (s2 & Hw2 & Hwf & Hfb & Hrd).
      destruct (IH Hxs Hwr) as (s3 & Hw3 & Hr3).
      exists (((([Copy (hdrb p (ttype_of x) id)] ++ s2) ++ []) ++ s3)). split.
      { change (write_fields p k ((id, x) :: t)) with
          (w_field_begin p (ttype_of x) id ;; write_val p k x ;; w_field_end p ;; write_fields p k t).
        eapply wseq_ok; eauto. }
      intros W1 W2 W3 f n r rcx ret Hv Hn Hi.
      cbn [af_variants] in W3. apply andb_prop in W3 as [Hx3 Hr3']. unfold af_variant in Hx3.
      rewrite walk_variants_cons in W1, W2. apply andb_prop in W1 as [Hx1 Hr1]. apply andb_prop in W2 as [Hx2 Hr2].
      destruct n as [|n]; [cbn in Hn; lia|]. cbn [dec_variants]. rewrite flat_field.
      destruct (Hrd (flat s3 ++ x00 :: r) rcx Hi) as (Hb & Hskip & Hdec). rewrite Hb. cbn [bind fst snd].
      rewrite (ttype_eqb_nonstop _ (ttype_of_nonstop x)). rewrite (bin_fbl p _ _ _ Hbin). cbn [bind].
      rewrite viewk_variants_cons.
      pose proof (Hv (id, x) (or_introl eq_refl)) as Hvx. cbn [snd] in Hvx.
      assert (Hrest : forall ret', dec_variants S p f (gen_decode_keep S p f) n vs ret' (mkS (flat s3 ++ x00 :: r) rcx)
                                   = lift_view (viewk_variants S p k c vs t ret') (mkS r rcx)).
      { intros ret'. apply Hr3; [exact Hr1|exact Hr2|exact Hr3'|intros q0 Hq0; apply Hv; right; exact Hq0|cbn [length] in Hn; lia|exact Hi]. }
      destruct (variant_by_id S vs id) as [vt|] eqn:Evb.
      + destruct (variant_typed _ _ _ _ Hx2 Evb) as (Hft & Hfv & Hnv).
        rewrite Hfv, Hnv.
        destruct ret; try reflexivity.
        rewrite (Hdec vt f Hft (variant_walk _ _ _ _ _ _ Hx1 Evb Hft) (variant_walk _ _ _ _ _ _ Hx2 Evb Hft) Hx3 Hvx).
        destruct (VK vt x) as [y|e|q]; cbn [lift_view bind]; try reflexivity. apply Hrest.
      + pose proof (variant_dropped _ _ _ Hx1 Evb) as Hsk.
        unfold variant_by_id in Evb.
        assert (Ekn : match find_variant vs id with
                      | Some vt => if is_void (resolve S vt) then None else Some (id, vt)
                      | None => None
                      end = None).
        { destruct (find_variant vs id) as [vt|]; [|reflexivity]. destruct (is_void (resolve S vt)); [reflexivity|discriminate]. }
        rewrite Ekn. rewrite (Hskip f Hvx Hsk). cbn [bind]. apply Hrest.
  Qed.

  (* ----- structs and unions ----- *)
  Lemma struct_write fs s2 : write_fields p k fs c = Ok (s2, c) ->
    write_val p k (VStruct fs) c = Ok ((([] ++ s2) ++ [Copy [x00]]) ++ [], c).
  Proof.
    intros Hw.
    change (write_val p k (VStruct fs)) with (w_struct_begin p ;; write_fields p k fs ;; w_field_stop p ;; w_struct_end p).
    eapply wseq_ok; [eapply wseq_ok; [eapply wseq_ok|]|].
    - apply bin_struct_begin_w; exact Hbin.
    - exact Hw.
    - exact (proj1 (w_field_stop_ok p c Hc)).
    - apply bin_struct_end_w; exact Hbin.
  Qed.

  Lemma struct_flat s2 r : flat ((([] ++ s2) ++ [Copy [x00]]) ++ []) ++ r = flat s2 ++ x00 :: r.
  Proof. cbn [app]. rewrite app_nil_r, flat_app, flat_copy, <- app_assoc. reflexivity. Qed.

  Lemma KRT_struct fs : Forall (fun q => KRT (snd q)) fs -> KRT (VStruct fs).
  Proof.
    intros HF Hwt. rewrite wt_struct in Hwt.
    destruct (k_fields_plain [] fs HF Hwt) as (s2 & Hw2 & _).
    exists ((([] ++ s2) ++ [Copy [x00]]) ++ []). split; [apply struct_write; exact Hw2|].
    intros t Hty Hd Hn Haf fuel r rcx Hf Hi.
    destruct fuel as [|f]; [pose proof (vsize_pos (VStruct fs)); lia|].
    rewrite gen_decode_keep_eq, viewk_struct. unfold evo_dom, no_retyped_variant in Hd, Hn. rewrite walk_struct in Hd, Hn.
    rewrite af_struct in Haf.
    symmetry in Hty. cbn [ttype_of] in Hty. rewrite struct_flat.
    assert (Hsz : forall q, In q fs -> (vsize (snd q) <= f)%nat).
    { intros q Hq. destruct (vsize_struct_bound fs q Hq). lia. }
    assert (Hlen : (length fs < Datatypes.S f)%nat) by (pose proof (vsize_struct_len fs); lia).
    tycases Hty; try reflexivity.
    - (* struct *)
      rewrite (bin_struct_begin_r p _ Hbin). cbn [bind]. apply andb_prop in Haf as [Hia Haf]. destruct kp.
      + assert (ia = false) as -> by (destruct ia; [discriminate Hia|reflexivity]).
        destruct (k_fields_keep dfs fs HF Hwt) as (s2' & Hw2' & Hr2). rewrite Hw2 in Hw2'. injection Hw2' as <-.
        rewrite (Hr2 Hd Hn Haf f _ r rcx _ _ _ Hsz Hlen Hi).
        destruct (viewk_fields S p k c dfs true fs (map init_var dfs) []) as [[vars unk]|e|q]; cbn [lift_view bind]; try reflexivity.
        rewrite (bin_struct_end_r p _ Hbin). cbn [bind fst snd]. destruct (finish_fields dfs vars); reflexivity.
      + destruct (k_fields_plain dfs fs HF Hwt) as (s2' & Hw2' & Hr2). rewrite Hw2 in Hw2'. injection Hw2' as <-.
        rewrite (Hr2 Hd Hn Haf f _ r rcx _ [] Hsz Hlen Hi).
        assert (Eunk : forall fs0 vars unk vars' unk', viewk_fields S p k c dfs false fs0 vars unk = Ok (vars', unk') -> unk' = unk).
        { induction fs0 as [|[i y] r0 IH0]; intros vars unk vars' unk' H0; [injection H0 as _ <-; reflexivity|].
          rewrite viewk_fields_cons in H0. destruct (match_field S dfs 0 (Some i) (ttype_of y)) as [[j fl]|]; [|eauto].
          destruct (VK (f_ty fl) y); cbn [bind] in H0; try discriminate. eauto. }
        destruct (viewk_fields S p k c dfs false fs (map init_var dfs) []) as [[vars unk]|e|q] eqn:Ev; cbn [lift_view bind]; try reflexivity.
        rewrite (Eunk _ _ _ _ _ Ev).
        rewrite (bin_struct_end_r p _ Hbin). cbn [bind fst snd]. destruct (finish_fields dfs vars); reflexivity.
    - (* union *)
      rewrite (bin_struct_begin_r p _ Hbin). cbn [bind]. destruct kp.
      + destruct (k_variants_keep vs fs HF Hwt) as (s2' & Hw2' & Hr2). rewrite Hw2 in Hw2'. injection Hw2' as <-.
        rewrite (Hr2 Hd Hn Haf f _ r rcx _ Hsz Hlen Hi).
        destruct (viewk_variantsk S p k c vs fs UNone) as [ret|e|q]; cbn [lift_view bind]; try reflexivity.
        rewrite (bin_struct_end_r p _ Hbin). cbn [bind]. unfold union_resultk.
        destruct ret; try reflexivity. destruct vok; [|reflexivity]. destruct vs as [|[id0 t0] vs']; reflexivity.
      + destruct (k_variants_plain vs fs HF Hwt) as (s2' & Hw2' & Hr2). rewrite Hw2 in Hw2'. injection Hw2' as <-.
        rewrite (Hr2 Hd Hn Haf f _ r rcx _ Hsz Hlen Hi).
        destruct (viewk_variants S p k c vs fs None) as [ret|e|q]; cbn [lift_view bind]; try reflexivity.
        rewrite (bin_struct_end_r p _ Hbin). cbn [bind]. unfold union_result.
        destruct ret as [[id y]|]; try reflexivity. destruct vok; [|reflexivity]. destruct vs as [|[id0 t0] vs']; reflexivity.
  Qed.

  Theorem KRT_all v : KRT v.
  Proof.
    induction v using tval_ind'; try (apply KRT_leaf; reflexivity).
    - apply KRT_struct; assumption.
    - apply (KRT_coll true); assumption.
    - apply (KRT_coll false); assumption.
    - apply KRT_map; assumption.
  Qed.
End KeepW.

(* ---------- C13, decode side ---------- *)
Theorem keep_decode : forall S p k T tv,
  p <> PCompact ->
  wt tv = true -> ttype_of tv = ttype_of_ty S T ->
  evo_dom S T tv = true -> no_retyped_variant S T tv = true -> arg_free S T tv = true ->
  forall c, w_pend c = None ->
  exists ss, write_val p k tv c = Ok (ss, c) /\
    forall fuel r rcx, (vsize tv <= fuel)%nat -> idle rcx ->
      gen_decode_keep S p fuel T (mkS (flat ss ++ r) rcx) = lift_view (viewk S p k c T tv) (mkS r rcx).
Proof.
  intros S p k T tv Hbin Hwt Hty Hd Hn Haf c Hc.
  destruct (KRT_all S p Hbin k c Hc tv Hwt) as (ss & Hw & Hr).
  exists ss. split; [exact Hw|]. intros fuel r rcx Hf Hi. apply Hr; assumption.
Qed.
