"""pb family, generated-message level: corpus schema, an INDEPENDENT reference protobuf codec
(written from the protobuf encoding guide, protobuf.dev/programming-guides/encoding, not from
pilota's sources), value generator, parser for Rust `{:?}` output of the generated types, glue for
the extracted Coq model runner, and the oracle entry points used by pv/props/c05,c06,c10,c18.

Pure Python 3, importable without building anything.

Canonical value shape (the same for ref_decode, debug_to_canon, parse_model_value):
  message            list, one entry per *slot* of the generated Rust struct, in struct order
  slot 's' (bare T)  value
  slot 'o' (Option)  None | value
  slot 'r' (Vec)     list of values
  slot 'm' (map)     list of (key, value) sorted by key
  slot 'u' (oneof)   None | (member_index, value)
  slot 'w'           value              (well-known wrapper pseudo messages: the single bare value)
  integer scalars    int (the numeric value of the declared type), bool = 0/1, enum = int (i32)
  float / double     ("f", 32|64, bits)   -- the IEEE bit pattern
  string / bytes     bytes
"""
import json, os, random, re, struct, sys
from fractions import Fraction

ROOT = os.path.dirname(os.path.dirname(os.path.abspath(__file__)))
PROTO_DIR = os.path.join(ROOT, "fam", "pb", "proto")
HARNESS_DIR = os.path.join(ROOT, "fam", "pb", "harness")
CACHE = os.path.join(ROOT, ".cache")

SCALARS = ["double", "float", "int32", "int64", "uint32", "uint64", "sint32", "sint64",
           "fixed32", "fixed64", "sfixed32", "sfixed64", "bool", "string", "bytes"]
NUMERIC = [t for t in SCALARS if t not in ("string", "bytes")]
MAP_KEY_TYPES = ["int32", "int64", "uint32", "uint64", "sint32", "sint64", "fixed32", "fixed64",
                 "sfixed32", "sfixed64", "bool", "string"]
# the Message impls of pilota/src/prost/types.rs, addressed after the corpus messages
WRAPPERS = [("bool", "bool"), ("u32", "uint32"), ("u64", "uint64"), ("i32", "int32"), ("i64", "int64"),
            ("f32", "float"), ("f64", "double"), ("String", "string"), ("Vec<u8>", "bytes"),
            ("Bytes", "bytes"), ("()", None)]

# ======================================================================================
# 1. a small .proto reader (the subset used by the corpus) -> <name>.schema.json
# ======================================================================================

_TOK = re.compile(r'\s+|//[^\n]*|("(?:[^"\\]|\\.)*")|([A-Za-z_][A-Za-z0-9_.]*)|(-?\d+)|([{}=;<>,\[\]()])')


def _tokens(text):
    out, pos = [], 0
    while pos < len(text):
        m = _TOK.match(text, pos)
        if not m:
            raise ValueError("proto: cannot tokenise at %r" % text[pos:pos + 30])
        pos = m.end()
        tok = m.group(1) or m.group(2) or m.group(3) or m.group(4)
        if tok is not None:
            out.append(tok)
    return out


def snake(name):
    s = re.sub(r"(?<=[a-z0-9])([A-Z])", r"_\1", name)
    return s.lower()


class _P:
    def __init__(self, toks):
        self.t, self.i = toks, 0
    def peek(self):
        return self.t[self.i] if self.i < len(self.t) else None
    def next(self):
        x = self.t[self.i]; self.i += 1; return x
    def expect(self, x):
        y = self.next()
        if y != x:
            raise ValueError("proto: expected %r, got %r (token %d)" % (x, y, self.i))


def parse_proto(text, fname):
    """returns the schema dict of one .proto file (see the checked-in *.schema.json)"""
    p = _P(_tokens(text))
    p.expect("syntax"); p.expect("=")
    syntax = p.next().strip('"'); p.expect(";")
    package = ""
    messages, enums = [], []

    def parse_enum(scope):
        name = p.next(); p.expect("{")
        vals = []
        while p.peek() != "}":
            n = p.next(); p.expect("="); v = int(p.next()); p.expect(";")
            vals.append([n, v])
        p.expect("}")
        if p.peek() == ";":
            p.next()
        enums.append(dict(name=name, full_name=".".join(scope + [name]), scope=list(scope), values=vals))

    def parse_field(label, oneof):
        ty = p.next()
        f = dict(name=None, number=None, type=None, label=label, packed=None, oneof=oneof, type_name=None, map=None)
        if ty == "map":
            p.expect("<"); k = p.next(); p.expect(","); v = p.next(); p.expect(">")
            f["type"] = "map"
            f["map"] = dict(key=k, value=v if v in SCALARS else None, value_type_name=None if v in SCALARS else v)
            f["label"] = "map"
        elif ty in SCALARS:
            f["type"] = ty
        else:
            f["type"] = "ref"; f["type_name"] = ty
        f["name"] = p.next(); p.expect("="); f["number"] = int(p.next())
        if p.peek() == "[":
            p.next(); opt = p.next(); p.expect("="); val = p.next(); p.expect("]")
            if opt != "packed":
                raise ValueError("proto: unsupported option " + opt)
            f["packed"] = (val == "true")
        p.expect(";")
        return f

    def parse_message(scope):
        name = p.next(); p.expect("{")
        m = dict(name=name, full_name=".".join(scope + [name]), scope=list(scope), fields=[], oneofs=[])
        messages.append(m)
        while p.peek() != "}":
            t = p.next()
            if t == "message":
                parse_message(scope + [name])
            elif t == "enum":
                parse_enum(scope + [name])
            elif t == "oneof":
                on = p.next(); p.expect("{")
                mem = []
                while p.peek() != "}":
                    f = parse_field("singular", on)
                    m["fields"].append(f); mem.append(f["name"])
                p.expect("}")
                m["oneofs"].append(dict(name=on, members=mem))
            elif t in ("optional", "required", "repeated"):
                m["fields"].append(parse_field(t, None))
            else:
                p.i -= 1
                m["fields"].append(parse_field("singular", None))
        p.expect("}")

    while p.peek() is not None:
        t = p.next()
        if t == "package":
            package = p.next(); p.expect(";")
        elif t == "message":
            parse_message([])
        elif t == "enum":
            parse_enum([])
        else:
            raise ValueError("proto: unexpected top-level token %r" % t)

    stem = os.path.splitext(os.path.basename(fname))[0]
    pkg = package.split(".") if package else []
    msg_names = {m["full_name"] for m in messages}
    enum_names = {e["full_name"] for e in enums}

    def resolve(ref, scope_full):
        parts = scope_full.split(".")
        for k in range(len(parts), -1, -1):
            cand = ".".join(parts[:k] + [ref])
            if cand in msg_names:
                return "message", cand
            if cand in enum_names:
                return "enum", cand
        raise ValueError("proto: unresolved type %s in %s" % (ref, scope_full))

    def rust_path(scope, name):
        return "::".join([stem] + pkg + [snake(s) for s in scope] + [name])

    for e in enums:
        e["rust_path"] = rust_path(e["scope"], e["name"])
        e["proto_name"] = ".".join(pkg + [e["full_name"]])
    for m in messages:
        m["rust_path"] = rust_path(m["scope"], m["name"])
        m["proto_name"] = ".".join(pkg + [m["full_name"]])
        for f in m["fields"]:
            if f["type"] == "ref":
                kind, full = resolve(f["type_name"], m["full_name"])
                f["type"] = kind; f["type_name"] = full
            elif f["type"] == "map" and f["map"]["value_type_name"]:
                kind, full = resolve(f["map"]["value_type_name"], m["full_name"])
                f["map"]["value"] = kind; f["map"]["value_type_name"] = full
            if syntax == "proto2" and f["label"] == "singular" and f["oneof"] is None:
                raise ValueError("proto2 field without label: " + f["name"])
    for x in messages + enums:
        del x["scope"]
    return dict(file=os.path.basename(fname), syntax=syntax, package=package, rust_mod=stem,
                enums=enums, messages=messages)


def _dump_schema(s):
    """stable, diff-friendly JSON: one field per line"""
    def j(x):
        return json.dumps(x, sort_keys=False)
    out = ["{", ' "file": %s, "syntax": %s, "package": %s, "rust_mod": %s,' %
           (j(s["file"]), j(s["syntax"]), j(s["package"]), j(s["rust_mod"])), ' "enums": [']
    out.append(",\n".join("  " + j(e) for e in s["enums"]))
    out.append(" ],")
    out.append(' "messages": [')
    ms = []
    for m in s["messages"]:
        head = '  {"name": %s, "full_name": %s, "proto_name": %s, "rust_path": %s,\n   "oneofs": %s,\n   "fields": [\n' % (
            j(m["name"]), j(m["full_name"]), j(m["proto_name"]), j(m["rust_path"]), j(m["oneofs"]))
        ms.append(head + ",\n".join("    " + j(f) for f in m["fields"]) + "\n   ]}")
    out.append(",\n".join(ms))
    out.append(" ]")
    out.append("}")
    return "\n".join(out) + "\n"


def proto_files(proto_dir=None):
    d = proto_dir or PROTO_DIR
    return sorted(os.path.join(d, f) for f in os.listdir(d) if f.endswith(".proto"))


def write_schemas(proto_dir=None):
    """(re)generates <name>.schema.json next to every corpus .proto; the JSONs are checked in"""
    done = []
    for pf in proto_files(proto_dir):
        s = parse_proto(open(pf).read(), pf)
        out = pf[:-len(".proto")] + ".schema.json"
        open(out, "w").write(_dump_schema(s))
        done.append(out)
    return done


def schemas_stale(proto_dir=None):
    """names of schema JSONs that do not correspond to their .proto any more"""
    bad = []
    for pf in proto_files(proto_dir):
        out = pf[:-len(".proto")] + ".schema.json"
        want = _dump_schema(parse_proto(open(pf).read(), pf))
        if not os.path.exists(out) or open(out).read() != want:
            bad.append(out)
    return bad


# ======================================================================================
# 2. descriptors
# ======================================================================================

class Slot:
    """one field of the generated Rust struct.
    kind 's' bare T | 'o' Option<T> | 'r' Vec<T> | 'm' map | 'u' oneof | 'w' wrapper value
    ty / kty: declared scalar type name, 'enum' or 'message'; ref: MsgDesc of a message type"""
    def __init__(self, kind, name):
        self.kind, self.name = kind, name
        self.number = None
        self.ty = None
        self.ref = None            # MsgDesc for ty == 'message'
        self.enum = None           # enum schema dict for ty == 'enum'
        self.kty = None            # map key type
        self.members = []          # oneof: list of Slot(kind 's') with number/ty/ref
        self.packed_decl = False   # what a conforming encoder puts on the wire for this repeated field
        self.packed_opt = None     # the explicit [packed=..] option, if any
        self.implicit = False      # proto3 implicit presence: a conforming encoder omits the default
        self.label = None
        self.utf8 = False

    def numbers(self):
        return [m.number for m in self.members] if self.kind == "u" else [self.number]


class MsgDesc:
    def __init__(self, idx, name):
        self.idx, self.name = idx, name       # name: the fully qualified proto name
        self.file = None
        self.syntax = "proto3"
        self.rust_path = None
        self.slots = []
        self.wrapper = None                   # Rust type name for the well-known wrapper impls
        self.by_number = {}                   # field number -> (slot_index, member_index or None)

    def finish(self):
        self.by_number = {}
        for si, s in enumerate(self.slots):
            if s.kind == "u":
                for mi, m in enumerate(s.members):
                    self.by_number[m.number] = (si, mi)
            elif s.number is not None:
                self.by_number[s.number] = (si, None)

    def __repr__(self):
        return "<Msg %d %s>" % (self.idx, self.name)


def _packable(ty):
    return ty in NUMERIC or ty == "enum"


def load_corpus(proto_dir=None, wrappers=True):
    """list of MsgDesc in the global index order of the driver: files sorted by name, messages of a
    file in declaration order (pre-order for nested declarations), then the wrapper pseudo types"""
    d = proto_dir or PROTO_DIR
    schemas = []
    for f in sorted(os.listdir(d)):
        if f.endswith(".schema.json"):
            schemas.append(json.load(open(os.path.join(d, f))))
    corpus, by_name, enums = [], {}, {}
    for s in schemas:
        for e in s["enums"]:
            enums[(s["file"], e["full_name"])] = e
        for m in s["messages"]:
            md = MsgDesc(len(corpus), m["proto_name"])
            md.file, md.syntax, md.rust_path = s["file"], s["syntax"], m["rust_path"]
            md._schema = m
            corpus.append(md)
            by_name[(s["file"], m["full_name"])] = md
    for md in corpus:
        m = md._schema
        seen_oneof = {}
        for f in m["fields"]:
            def fill(sl, ty, tname):
                sl.ty = ty
                if ty == "message":
                    sl.ref = by_name[(md.file, tname)]
                elif ty == "enum":
                    sl.enum = enums[(md.file, tname)]
            if f["oneof"] is not None:
                if f["oneof"] not in seen_oneof:
                    u = Slot("u", f["oneof"])
                    seen_oneof[f["oneof"]] = u
                    md.slots.append(u)            # a oneof sits at the position of its first member
                mem = Slot("s", f["name"]); mem.number = f["number"]
                fill(mem, f["type"], f["type_name"])
                seen_oneof[f["oneof"]].members.append(mem)
                continue
            if f["type"] == "map":
                sl = Slot("m", f["name"]); sl.number = f["number"]
                sl.kty = f["map"]["key"]
                fill(sl, f["map"]["value"], f["map"]["value_type_name"])
            else:
                lab = f["label"]
                if lab == "repeated":
                    kind = "r"
                elif md.syntax == "proto3":
                    kind = "o" if (lab == "optional" or f["type"] == "message") else "s"
                else:
                    kind = "o" if lab == "optional" else "s"
                sl = Slot(kind, f["name"]); sl.number = f["number"]
                fill(sl, f["type"], f["type_name"])
                if kind == "r":
                    sl.packed_opt = f["packed"]
                    if _packable(sl.ty):
                        sl.packed_decl = f["packed"] if f["packed"] is not None else (md.syntax == "proto3")
                sl.implicit = (kind == "s" and md.syntax == "proto3")
            sl.label = f["label"]
            md.slots.append(sl)
        md.finish()
    if wrappers:
        for rust, ty in WRAPPERS:
            md = MsgDesc(len(corpus), "wrapper." + rust)
            md.file, md.wrapper, md.rust_path = "-", rust, rust
            if ty is not None:
                sl = Slot("w", "value"); sl.number = 1; sl.ty = ty; sl.implicit = True
                sl.utf8 = (rust == "String")      # std String: the only place where UTF-8 is validated
                md.slots.append(sl)
            md.finish()
            corpus.append(md)
    return corpus


def msg_by_name(corpus, name):
    for m in corpus:
        if m.name == name or m.name.endswith("." + name):
            return m
    raise KeyError(name)


def reachable(msg):
    seen, todo = {}, [msg]
    while todo:
        m = todo.pop()
        if m.idx in seen:
            continue
        seen[m.idx] = m
        for s in m.slots:
            for x in ([s] + s.members):
                if x.ref is not None:
                    todo.append(x.ref)
    return list(seen.values())


# ======================================================================================
# 3. the reference codec (protobuf encoding guide; nothing of pilota is consulted here)
# ======================================================================================
#   wire types: 0 VARINT (int32 int64 uint32 uint64 sint32 sint64 bool enum), 1 I64 (fixed64
#   sfixed64 double), 2 LEN (string bytes embedded messages packed repeated fields), 3 SGROUP,
#   4 EGROUP, 5 I32 (fixed32 sfixed32 float).  tag = (field_number << 3) | wire_type, a varint.
#   int32/int64/enum negative values are sign-extended to 64 bits (ten bytes); sintN use ZigZag;
#   fixed widths are little-endian; a map field is `repeated Entry { K key = 1; V value = 2; }`.

M64 = (1 << 64) - 1
M32 = (1 << 32) - 1
WT_VARINT, WT_I64, WT_LEN, WT_SGROUP, WT_EGROUP, WT_I32 = 0, 1, 2, 3, 4, 5
WIRE_TYPE = {"double": 1, "float": 5, "int32": 0, "int64": 0, "uint32": 0, "uint64": 0, "sint32": 0,
             "sint64": 0, "fixed32": 5, "fixed64": 1, "sfixed32": 5, "sfixed64": 1, "bool": 0,
             "string": 2, "bytes": 2, "enum": 0, "message": 2}
MAX_FIELD = (1 << 29) - 1
RECURSION_LIMIT = 100     # the documented nesting limit (pilota/src/prost/mod.rs, as in C++)


class RefError(Exception):
    def __init__(self, cls, msg=""):
        Exception.__init__(self, "%s %s" % (cls, msg))
        self.cls = cls


def F32(bits):
    return ("f", 32, bits & M32)


def F64(bits):
    return ("f", 64, bits & M64)


def enc_varint(n):
    n &= M64
    out = bytearray()
    while True:
        b = n & 0x7f
        n >>= 7
        if n:
            out.append(b | 0x80)
        else:
            out.append(b)
            return bytes(out)


def enc_tag(number, wt):
    return enc_varint((number << 3) | wt)


def zigzag(n, bits):
    mask = (1 << bits) - 1
    return ((n << 1) ^ (n >> (bits - 1))) & mask


def unzigzag(u):
    return (u >> 1) ^ -(u & 1)


def to_signed(u, bits):
    u &= (1 << bits) - 1
    return u - (1 << bits) if u >> (bits - 1) else u


def scalar_default(ty):
    if ty in ("string", "bytes"):
        return b""
    if ty == "float":
        return F32(0)
    if ty == "double":
        return F64(0)
    return 0


def enc_value(ty, v, enc_msg=None):
    """the bytes after the tag (LEN types include the length prefix)"""
    if ty in ("int32", "int64", "enum", "uint32", "uint64"):
        return enc_varint(v)                      # negative: two's complement in 64 bits
    if ty == "sint32":
        return enc_varint(zigzag(v, 32))
    if ty == "sint64":
        return enc_varint(zigzag(v, 64))
    if ty == "bool":
        return b"\x01" if v else b"\x00"
    if ty in ("fixed32", "sfixed32"):
        return struct.pack("<I", v & M32)
    if ty in ("fixed64", "sfixed64"):
        return struct.pack("<Q", v & M64)
    if ty == "float":
        return struct.pack("<I", v[2])
    if ty == "double":
        return struct.pack("<Q", v[2])
    if ty in ("string", "bytes"):
        return enc_varint(len(v)) + v
    if ty == "message":
        body = enc_msg(v)
        return enc_varint(len(body)) + body
    raise ValueError(ty)


class Style:
    """how the reference encoder lays a value out; every combination is a valid encoding.
    order         'number' ascending field number | 'decl' declaration order | 'shuffle' random
                  interleaving (records of one field / one oneof keep their relative order)
    packing       'decl' as the schema says | 'packed' | 'unpacked' | 'mixed' (random chunks, some
                  packed some not, occasionally an empty packed chunk)
    defaults      'omit' | 'present' | 'random'   proto3 implicit-presence fields holding the default
    map_defaults  'present' | 'omit' | 'random'   default key / default value inside a map entry
    map_value_first  False | True | 'random'      value record before the key record
    unknowns      0 | probability per record boundary | 'all' (one unknown field at every record
                  boundary at every nesting level, incl. inside map entries)
    split         probability that an embedded singular message is written as two records that a
                  decoder has to merge (only used by the C18 generators)"""
    def __init__(self, name="canonical", order="number", packing="decl", defaults="omit",
                 map_defaults="present", map_value_first=False, unknowns=0, split=0):
        self.name, self.order, self.packing, self.defaults = name, order, packing, defaults
        self.map_defaults, self.map_value_first, self.unknowns, self.split = map_defaults, map_value_first, unknowns, split

    def __repr__(self):
        return "<Style %s>" % self.name


CANONICAL = Style()
STYLES = [
    CANONICAL,
    Style("decl-order", order="decl"),
    Style("shuffled", order="shuffle"),
    Style("packed", packing="packed"),
    Style("unpacked", packing="unpacked"),
    Style("mixed-chunks", packing="mixed", order="shuffle"),
    Style("defaults-present", defaults="present"),
    Style("map-defaults-omitted", map_defaults="omit"),
    Style("map-value-first", map_value_first=True),
    Style("wild", order="shuffle", packing="mixed", defaults="random", map_defaults="random", map_value_first="random"),
    Style("wild-unknowns", order="shuffle", packing="mixed", defaults="random", map_defaults="random",
          map_value_first="random", unknowns=0.3),
]
STYLE_BY_NAME = {s.name: s for s in STYLES}
UNKNOWN_ALL = Style("unknowns-everywhere", unknowns="all")
PILOTA_LIKE = Style("pilota-like", order="decl", packing="unpacked", defaults="present", map_defaults="omit")


def _choose(rng, opt, a, b):
    if opt == "random":
        return rng.choice([a, b])
    return opt


def gen_unknown(msg, rng, depth=0):
    """one well-formed record with a field number the message does not declare"""
    known = msg.by_number if msg is not None else {}
    while True:
        n = rng.choice([rng.randrange(1, 64), rng.randrange(1, 4096), rng.randrange(1, MAX_FIELD + 1), MAX_FIELD, 19000])
        if n not in known:
            break
    return _unknown_record(n, rng, depth)


def _unknown_record(n, rng, depth):
    kinds = ["varint", "i64", "len", "i32"] + (["group"] * 2 if depth < 3 else [])
    k = rng.choice(kinds)
    if k == "varint":
        return enc_tag(n, 0) + enc_varint(rng.choice([0, 1, 127, 128, M64, rng.getrandbits(64)]))
    if k == "i64":
        return enc_tag(n, 1) + bytes(rng.getrandbits(8) for _ in range(8))
    if k == "i32":
        return enc_tag(n, 5) + bytes(rng.getrandbits(8) for _ in range(4))
    if k == "len":
        ln = rng.choice([0, 1, 2, 5, 127, 128, 300])
        return enc_tag(n, 2) + enc_varint(ln) + bytes(rng.getrandbits(8) for _ in range(ln))
    # a group: any records inside (their numbers may coincide with declared fields: they are
    # inside an unknown field and have to be skipped all the same), closed by EGROUP of the same number
    body = b"".join(_unknown_record(rng.choice([1, 2, 3, n, rng.randrange(1, MAX_FIELD + 1)]), rng, depth + 1)
                    for _ in range(rng.choice([0, 1, 1, 2, 3])))
    return enc_tag(n, 3) + body + enc_tag(n, 4)


def ref_records(msg, value, rng=None, style=None):
    """list of (order_group, record_bytes): order_group identifies the field (the oneof for oneof
    members) whose records must keep their relative order"""
    st = style or CANONICAL
    rng = rng or random.Random(0)
    recs = []      # (sort_number, group, bytes)

    def enc_msg(ref):
        return lambda v: ref_encode(ref, v, rng, st)

    def one(gid, number, ty, v, ref=None, singular=True):
        if ty == "message" and singular and st.split and rng.random() < st.split and len(v) > 1:
            # the same embedded message as two records, each carrying part of the slots
            a, b = split_value(ref, v, rng)
            for part in (a, b):
                recs.append((number, gid, enc_tag(number, 2) + enc_value("message", part, enc_msg(ref))))
            return
        recs.append((number, gid, enc_tag(number, WIRE_TYPE[ty]) + enc_value(ty, v, enc_msg(ref) if ref else None)))

    for si, sl in enumerate(msg.slots):
        v = value[si]
        if sl.kind in ("s", "w"):
            if sl.implicit and sl.ty != "message" and v == scalar_default(sl.ty):
                if _choose(rng, st.defaults, "omit", "present") == "omit":
                    continue
            one(si, sl.number, sl.ty, v, sl.ref)
        elif sl.kind == "o":
            if v is not None:
                one(si, sl.number, sl.ty, v, sl.ref)
        elif sl.kind == "u":
            if v is not None:
                m = sl.members[v[0]]
                one(si, m.number, m.ty, v[1], m.ref)
        elif sl.kind == "r":
            if not _packable(sl.ty):
                for x in v:
                    one(si, sl.number, sl.ty, x, sl.ref, singular=False)
                continue
            mode = st.packing
            if mode == "decl":
                mode = "packed" if sl.packed_decl else "unpacked"
            if mode == "packed":
                chunks = [("p", v)] if v else []
            elif mode == "unpacked":
                chunks = [("u", [x]) for x in v]
            else:
                chunks, i = [], 0
                while i < len(v):
                    if rng.random() < 0.5:
                        k = rng.choice([1, 1, 2, 3, 7])
                        chunks.append(("p", v[i:i + k])); i += k
                    else:
                        chunks.append(("u", [v[i]])); i += 1
                    if rng.random() < 0.1:
                        chunks.append(("p", []))
                if not v and rng.random() < 0.3:
                    chunks.append(("p", []))
            for kind, xs in chunks:
                if kind == "u":
                    recs.append((sl.number, si, enc_tag(sl.number, WIRE_TYPE[sl.ty]) + enc_value(sl.ty, xs[0])))
                else:
                    body = b"".join(enc_value(sl.ty, x) for x in xs)
                    recs.append((sl.number, si, enc_tag(sl.number, 2) + enc_varint(len(body)) + body))
        elif sl.kind == "m":
            for k, x in v:
                kd = k == scalar_default(sl.kty)
                vd = (sl.ty != "message" and x == scalar_default(sl.ty))
                parts = []
                if not (kd and _choose(rng, st.map_defaults, "present", "omit") == "omit"):
                    parts.append(enc_tag(1, WIRE_TYPE[sl.kty]) + enc_value(sl.kty, k))
                if not (vd and _choose(rng, st.map_defaults, "present", "omit") == "omit"):
                    parts.append(enc_tag(2, WIRE_TYPE[sl.ty]) + enc_value(sl.ty, x, enc_msg(sl.ref) if sl.ref else None))
                if _choose(rng, st.map_value_first, False, True):
                    parts.reverse()
                parts = _with_unknowns(None, parts, rng, st, in_entry=True)
                body = b"".join(parts)
                recs.append((sl.number, si, enc_tag(sl.number, 2) + enc_varint(len(body)) + body))
    if st.order == "number":
        recs.sort(key=lambda r: r[0])          # stable: records of one field keep their order
    elif st.order == "shuffle":
        recs = _interleave_groups(recs, rng)
    out = [(g, b) for _, g, b in recs]
    if st.unknowns:
        out = _with_unknowns(msg, out, rng, st, wrap=lambda b: (-1, b))     # unknown records: group -1
    return out


def _with_unknowns(msg, parts, rng, st, in_entry=False, wrap=None):
    if not st.unknowns:
        return parts
    res = []
    def unk():
        if in_entry:
            # inside a map entry everything except numbers 1 and 2 is unknown
            b = _unknown_record(rng.choice([3, 4, 15, 16, 2047, MAX_FIELD]), rng, 1)
        else:
            b = gen_unknown(msg, rng)
        return wrap(b) if wrap else b
    for i in range(len(parts) + 1):
        if st.unknowns == "all" or rng.random() < st.unknowns:
            res.append(unk())
        if i < len(parts):
            res.append(parts[i])
    return res


def _interleave_groups(recs, rng):
    """random permutation that keeps the relative order of records with the same group"""
    groups = {}
    for r in recs:
        groups.setdefault(r[1], []).append(r)
    order = [g for g, rs in groups.items() for _ in rs]
    rng.shuffle(order)
    its = {g: iter(rs) for g, rs in groups.items()}
    return [next(its[g]) for g in order]


def ref_encode(msg, value, rng=None, style=None):
    return b"".join(b for _, b in ref_records(msg, value, rng, style))


def split_value(msg, v, rng):
    """two values whose field-wise merge is v (used to write one embedded message as two records)"""
    a, b = default_value(msg), default_value(msg)
    for si, sl in enumerate(msg.slots):
        x = v[si]
        if sl.kind == "r":
            k = rng.randrange(len(x) + 1)
            a[si], b[si] = x[:k], x[k:]
        elif sl.kind == "m":
            k = rng.randrange(len(x) + 1)
            a[si], b[si] = x[:k], x[k:]
        elif sl.kind in ("s", "w"):
            # bare fields are always written by pilota, implicit ones may be omitted by others:
            # the second record carries the real value, the first one anything
            if sl.ty != "message" and rng.random() < 0.5:
                a[si] = x
            b[si] = x
        else:
            if rng.random() < 0.5:
                a[si] = x
            else:
                b[si] = x
    return a, b


def default_value(msg):
    out = []
    for sl in msg.slots:
        if sl.kind in ("s", "w"):
            out.append(default_value(sl.ref) if sl.ty == "message" else scalar_default(sl.ty))
        elif sl.kind in ("o", "u"):
            out.append(None)
        else:
            out.append([])
    return out


# ---- decoding

class _Rd:
    def __init__(self, data, pos=0, end=None):
        self.d, self.p, self.e = data, pos, len(data) if end is None else end

    def more(self):
        return self.p < self.e

    def varint(self):
        n, shift, i = 0, 0, 0
        while True:
            if self.p >= self.e:
                raise RefError("varint", "truncated varint")
            b = self.d[self.p]; self.p += 1; i += 1
            if i == 10 and b > 1:
                raise RefError("varint", "varint does not fit 64 bits")
            n |= (b & 0x7f) << shift
            shift += 7
            if not b & 0x80:
                return n
            if i == 10:
                raise RefError("varint", "varint longer than ten bytes")

    def take(self, n):
        if n > self.e - self.p:
            raise RefError("underflow", "%d bytes wanted, %d left" % (n, self.e - self.p))
        x = self.d[self.p:self.p + n]; self.p += n
        return x

    def key(self):
        k = self.varint()
        if k > M32:
            raise RefError("key", "key %d" % k)
        wt, n = k & 7, k >> 3
        if wt > 5:
            raise RefError("wiretypevalue", "wire type %d" % wt)
        if n == 0:
            raise RefError("tagzero", "field number 0")
        return n, wt


def _skip(rd, n, wt, c, strict_unknown_depth=False):
    """skips one unknown field whose key has been read; c = remaining nesting budget"""
    if wt == WT_VARINT:
        rd.varint()
    elif wt == WT_I64:
        rd.take(8)
    elif wt == WT_I32:
        rd.take(4)
    elif wt == WT_LEN:
        rd.take(rd.varint())
    elif wt == WT_SGROUP:
        if c <= 0:
            raise RefError("recursion", "group nested too deeply")
        while True:
            if not rd.more():
                raise RefError("varint", "unterminated group")
            n2, wt2 = rd.key()
            if wt2 == WT_EGROUP:
                if n2 != n:
                    raise RefError("endgroup", "group %d closed by %d" % (n, n2))
                return
            _skip(rd, n2, wt2, c - 1)
    else:
        raise RefError("endgroup", "end group without start")


def _dec_scalar(ty, wt, rd):
    if wt != WIRE_TYPE[ty]:
        raise RefError("wiretype", "%s with wire type %d" % (ty, wt))
    if ty == "int32" or ty == "enum":
        return to_signed(rd.varint(), 32)
    if ty == "int64":
        return to_signed(rd.varint(), 64)
    if ty == "uint32":
        return rd.varint() & M32
    if ty == "uint64":
        return rd.varint()
    if ty == "sint32":
        return unzigzag(rd.varint() & M32)
    if ty == "sint64":
        return unzigzag(rd.varint())
    if ty == "bool":
        return 1 if rd.varint() else 0
    if ty == "fixed32":
        return struct.unpack("<I", rd.take(4))[0]
    if ty == "sfixed32":
        return struct.unpack("<i", rd.take(4))[0]
    if ty == "fixed64":
        return struct.unpack("<Q", rd.take(8))[0]
    if ty == "sfixed64":
        return struct.unpack("<q", rd.take(8))[0]
    if ty == "float":
        return F32(struct.unpack("<I", rd.take(4))[0])
    if ty == "double":
        return F64(struct.unpack("<Q", rd.take(8))[0])
    if ty == "bytes":
        return bytes(rd.take(rd.varint()))
    if ty == "string":
        # "a string must always contain UTF-8 encoded text": every string position (pilota validates since the repair of F-10b)
        b = bytes(rd.take(rd.varint()))
        try:
            b.decode("utf-8")
        except UnicodeDecodeError:
            raise RefError("utf8", "invalid UTF-8 in a string")
        return b
    raise ValueError(ty)


def _dec_into(msg, value, rd, c):
    """merges the records of rd into value (a canonical message value with maps as dicts)"""
    while rd.more():
        n, wt = rd.key()
        ent = msg.by_number.get(n)
        if ent is None:
            _skip(rd, n, wt, c)
            continue
        si, mi = ent
        sl = msg.slots[si]
        if sl.kind == "u":
            m = sl.members[mi]
            cur = value[si]
            if m.ty == "message":
                base = cur[1] if (cur is not None and cur[0] == mi) else _dflt(m.ref)
                value[si] = (mi, _dec_sub(m.ref, base, wt, rd, c))
            else:
                value[si] = (mi, _dec_scalar(m.ty, wt, rd))
        elif sl.kind in ("s", "w", "o"):
            if sl.ty == "message":
                base = value[si] if value[si] is not None else _dflt(sl.ref)
                value[si] = _dec_sub(sl.ref, base, wt, rd, c)
            else:
                value[si] = _dec_scalar(sl.ty, wt, rd)
                if sl.utf8:
                    try:
                        value[si].decode("utf-8")
                    except UnicodeDecodeError:
                        raise RefError("utf8", "invalid UTF-8 in a string")
        elif sl.kind == "r":
            if sl.ty == "message":
                value[si].append(_dec_sub(sl.ref, _dflt(sl.ref), wt, rd, c))
            elif _packable(sl.ty) and wt == WT_LEN:
                sub = rd.take(rd.varint())
                r2 = _Rd(sub)
                while r2.more():
                    value[si].append(_dec_scalar(sl.ty, WIRE_TYPE[sl.ty], r2))
            else:
                value[si].append(_dec_scalar(sl.ty, wt, rd))
        elif sl.kind == "m":
            if wt != WT_LEN:
                raise RefError("wiretype", "map entry with wire type %d" % wt)
            if c <= 0:
                raise RefError("recursion", "map entry nested too deeply")
            r2 = _Rd(rd.take(rd.varint()))
            k = scalar_default(sl.kty)
            v = _dflt(sl.ref) if sl.ty == "message" else scalar_default(sl.ty)
            while r2.more():
                n2, wt2 = r2.key()
                if n2 == 1:
                    k = _dec_scalar(sl.kty, wt2, r2)
                elif n2 == 2:
                    if sl.ty == "message":
                        v = _dec_sub(sl.ref, v, wt2, r2, c - 1)
                    else:
                        v = _dec_scalar(sl.ty, wt2, r2)
                else:
                    _skip(r2, n2, wt2, c - 1)
            value[si][k] = v
    return value


def _dec_sub(ref, base, wt, rd, c):
    if wt != WT_LEN:
        raise RefError("wiretype", "embedded message with wire type %d" % wt)
    if c <= 0:
        raise RefError("recursion", "message nested too deeply")
    sub = rd.take(rd.varint())
    return _dec_into(ref, base, _Rd(sub), c - 1)


def _dflt(msg):
    """default value in decoder-internal form (maps as dicts)"""
    out = []
    for sl in msg.slots:
        if sl.kind in ("s", "w"):
            out.append(_dflt(sl.ref) if sl.ty == "message" else scalar_default(sl.ty))
        elif sl.kind in ("o", "u"):
            out.append(None)
        elif sl.kind == "m":
            out.append({})
        else:
            out.append([])
    return out


def _to_internal(msg, v):
    out = []
    for sl, x in zip(msg.slots, v):
        if sl.kind == "m":
            out.append({k: (_to_internal(sl.ref, y) if sl.ty == "message" else y) for k, y in x})
        elif sl.kind == "u":
            if x is not None and sl.members[x[0]].ty == "message":
                x = (x[0], _to_internal(sl.members[x[0]].ref, x[1]))
            out.append(x)
        elif sl.ty == "message":
            if sl.kind == "r":
                out.append([_to_internal(sl.ref, y) for y in x])
            else:
                out.append(None if x is None else _to_internal(sl.ref, x))
        else:
            out.append(list(x) if sl.kind == "r" else x)
    return out


def _key_sort(k):
    return (0, k) if isinstance(k, int) else (1, k)


def _to_canon(msg, v):
    out = []
    for sl, x in zip(msg.slots, v):
        if sl.kind == "m":
            items = [(k, (_to_canon(sl.ref, y) if sl.ty == "message" else y)) for k, y in x.items()]
            items.sort(key=lambda kv: _key_sort(kv[0]))
            out.append(items)
        elif sl.kind == "u":
            if x is not None and sl.members[x[0]].ty == "message":
                x = (x[0], _to_canon(sl.members[x[0]].ref, x[1]))
            out.append(x)
        elif sl.ty == "message":
            if sl.kind == "r":
                out.append([_to_canon(sl.ref, y) for y in x])
            else:
                out.append(None if x is None else _to_canon(sl.ref, x))
        else:
            out.append(x)
    return out


def ref_decode(msg, data, into=None, limit=RECURSION_LIMIT):
    """canonical value of the wire bytes (raises RefError(cls)): last one wins for singular
    scalars, repeated fields append (packed or not), map entries replace equal keys, a later oneof
    member replaces an earlier one (the same message member merges), embedded messages merge
    field-wise, unknown fields (incl. groups) are skipped.  `into`: canonical value to merge into"""
    base = _to_internal(msg, into) if into is not None else _dflt(msg)
    return _to_canon(msg, _dec_into(msg, base, _Rd(bytes(data)), limit))


def ref_try(msg, data, into=None):
    try:
        return ("ok", ref_decode(msg, data, into))
    except RefError as e:
        return ("err", e.cls)


def ref_merge_spec(msg, x, y, omit_defaults=False):
    """value-level statement of protobuf merge: the value of decode(enc(x) ++ enc(y)).
    omit_defaults=False: every bare ('s') field of y is on the wire (what pilota's encoder does, and
    what proto2 `required` demands), so y's value wins; True: a conforming proto3 encoder left the
    implicit-presence fields of y that hold the default off the wire, so x's value stays (this is
    also what pilota's encoder does for the wrapper pseudo messages)."""
    out = []
    for sl, a, b in zip(msg.slots, x, y):
        if sl.kind in ("s", "w"):
            if sl.ty == "message":
                out.append(ref_merge_spec(sl.ref, a, b, omit_defaults))
            elif omit_defaults and sl.implicit and b == scalar_default(sl.ty):
                out.append(a)
            else:
                out.append(b)
        elif sl.kind == "o":
            if b is None:
                out.append(a)
            elif sl.ty == "message" and a is not None:
                out.append(ref_merge_spec(sl.ref, a, b, omit_defaults))
            else:
                out.append(b)
        elif sl.kind == "r":
            out.append(list(a) + list(b))
        elif sl.kind == "m":
            d = dict(a)
            d.update(dict(b))                 # a later entry replaces an earlier one with an equal key
            out.append(sorted(d.items(), key=lambda kv: _key_sort(kv[0])))
        elif sl.kind == "u":
            if b is None:
                out.append(a)
            elif a is not None and a[0] == b[0] and sl.members[b[0]].ty == "message":
                out.append((b[0], ref_merge_spec(sl.members[b[0]].ref, a[1], b[1], omit_defaults)))
            else:
                out.append(b)
    return out


def compare(a, b):
    """None when the canonical values are equal, else a path + description of the first difference.
    Floats are compared as bit patterns, except that any NaN equals any NaN (Rust's {:?} prints
    only `NaN`, and a model may canonicalise the payload)."""
    return _cmp(a, b, "")


def _isnan(f):
    if f[1] == 32:
        return (f[2] & 0x7f800000) == 0x7f800000 and (f[2] & 0x7fffff) != 0
    return (f[2] & 0x7ff0000000000000) == 0x7ff0000000000000 and (f[2] & 0xfffffffffffff) != 0


def _cmp(a, b, path):
    fa = isinstance(a, tuple) and len(a) == 3 and a[0] == "f"
    fb = isinstance(b, tuple) and len(b) == 3 and b[0] == "f"
    if fa or fb:
        if fa and fb and a[1] == b[1] and (a[2] == b[2] or (_isnan(a) and _isnan(b))):
            return None
        return "%s: %r != %r" % (path or ".", a, b)
    if isinstance(a, (list, tuple)) and isinstance(b, (list, tuple)):
        if len(a) != len(b):
            return "%s: %d elements != %d elements" % (path or ".", len(a), len(b))
        for i, (x, y) in enumerate(zip(a, b)):
            r = _cmp(x, y, "%s/%d" % (path, i))
            if r:
                return r
        return None
    if type(a) != type(b) and not (isinstance(a, int) and isinstance(b, int)):
        return "%s: %r != %r" % (path or ".", _short(a), _short(b))
    if a != b:
        return "%s: %r != %r" % (path or ".", _short(a), _short(b))
    return None


def _short(x):
    s = repr(x)
    return s if len(s) < 80 else s[:77] + "..."


# ======================================================================================
# 4. seeded value generator
# ======================================================================================

_I32 = [0, 1, -1, 2, 63, 64, 127, 128, 255, 300, 16383, 16384, -128, -129, (1 << 31) - 1, -(1 << 31), 1 << 30, -12345678]
_I64 = _I32 + [1 << 31, -(1 << 31) - 1, 1 << 32, (1 << 35) - 1, 1 << 35, (1 << 63) - 1, -(1 << 63), 1 << 62, -(1 << 62) - 1, 1 << 56, (1 << 56) - 1]
_U32 = [0, 1, 2, 127, 128, 255, 256, 16383, 16384, 2097151, 2097152, (1 << 28) - 1, 1 << 28, (1 << 31) - 1, 1 << 31, M32]
_U64 = _U32 + [1 << 32, (1 << 35) - 1, 1 << 35, (1 << 49), (1 << 56) - 1, 1 << 56, (1 << 63) - 1, 1 << 63, M64, M64 - 1]
_F32 = [0, 0x80000000, 0x7f800000, 0xff800000, 0x7fc00000, 0x7fa00000, 0xffc00001, 0x7f800001, 1, 0x80000001,
        0x007fffff, 0x00800000, 0x7f7fffff, 0xff7fffff, 0x3f800000, 0xbf800000, 0x3fc00000, 0x3dcccccd, 0x4b800000,
        0x4b7fffff, 0x5a800000, 0x322bcc77, 0x501502f9, 0x7149f2ca, 0x0da24260]
_F64 = [0, 1 << 63, 0x7ff0000000000000, 0xfff0000000000000, 0x7ff8000000000000, 0x7ff4000000000000,
        0xfff8000000000001, 0x7ff0000000000001, 1, (1 << 63) | 1, 0x000fffffffffffff, 0x0010000000000000,
        0x7fefffffffffffff, 0xffefffffffffffff, 0x3ff0000000000000, 0xbff0000000000000, 0x3ff8000000000000,
        0x3fb999999999999a, 0x4340000000000000, 0x433fffffffffffff, 0x4341c37937e08000, 0x3eb0c6f7a0b5ed8d,
        0x44b52d02c7e14af6, 0x54b249ad2594c37d, 0x2b2bff2ee48e0530]
_STR = ["", "a", "abc", "hello world", "héllo wörld ✓", "quote\" back\\slash 'single'", "tab\tnl\ncr\r nul\0 del\x7f esc\x1b",
        "{ a: 1, b: [2, 3] }", "Some(None)", "b\"x\"", "​́x́ ‮ rtl", "\U0001f600 emoji \U0001f9d1‍\U0001f4bb",
        "﻿￿ ퟿ ", " ­\u0085", "NaN", "inf", "x" * 127, "y" * 128, "é" * 64, "z" * 300, ", ", ": ", "}", "0"]
_BYTES = [b"", b"\x00", b"a", b"\xff", b"\x80\x00\x7f", bytes(range(256)), b"\"quoted\\\" \n\r\t\0", b"\xc3\x28\xff\xfe", b"x" * 127, b"y" * 128, b"\x01" * 300,
          b"\x08\x01\x12\x00", b"\x0b\x0c"]


def gen_scalar(ty, rng, enum=None):
    r = rng.random()
    if ty in ("int32", "sint32", "sfixed32"):
        return rng.choice(_I32) if r < 0.7 else to_signed(rng.getrandbits(rng.choice([7, 14, 21, 28, 32])), 32)
    if ty in ("int64", "sint64", "sfixed64"):
        return rng.choice(_I64) if r < 0.7 else to_signed(rng.getrandbits(rng.choice([7, 14, 28, 35, 49, 63, 64])), 64)
    if ty in ("uint32", "fixed32"):
        return rng.choice(_U32) if r < 0.7 else rng.getrandbits(rng.choice([7, 14, 21, 28, 32]))
    if ty in ("uint64", "fixed64"):
        return rng.choice(_U64) if r < 0.7 else rng.getrandbits(rng.choice([7, 14, 28, 35, 49, 63, 64]))
    if ty == "bool":
        return rng.getrandbits(1)
    if ty == "float":
        return F32(rng.choice(_F32) if r < 0.6 else rng.getrandbits(32))
    if ty == "double":
        return F64(rng.choice(_F64) if r < 0.6 else rng.getrandbits(64))
    if ty == "string":
        if r < 0.75:
            return rng.choice(_STR).encode("utf-8")
        n = rng.choice([1, 2, 5, 20, 127, 128, 129, 1000])
        alphabet = "abcXYZ 019_-\"\\\n\téß中文\U0001f600{}[](),:'"
        return "".join(rng.choice(alphabet) for _ in range(n)).encode("utf-8")
    if ty == "bytes":
        if r < 0.6:
            return rng.choice(_BYTES)
        n = rng.choice([1, 2, 5, 20, 127, 128, 129, 1000])
        return bytes(rng.getrandbits(8) for _ in range(n))
    if ty == "enum":
        vals = [v for _, v in enum["values"]] if enum else [0, 1]
        return rng.choice(vals) if r < 0.7 else rng.choice([0, 5, -100, 1000000, (1 << 31) - 1, -(1 << 31), 129])
    raise ValueError(ty)


def gen_value(msg, rng, depth=3, size=1.0):
    """a random canonical value of msg.  depth bounds the nesting below this message (recursive
    fields are empty at depth 0); size in (0,1] scales collection sizes"""
    out = []
    for sl in msg.slots:
        out.append(_gen_slot(sl, rng, depth, size))
    return out


def _gen_elem(x, rng, depth, size):
    if x.ty == "message":
        return gen_value(x.ref, rng, depth - 1, size * 0.5)
    return gen_scalar(x.ty, rng, x.enum)


def _gen_slot(sl, rng, depth, size):
    isz = sl.ty == "message"
    if sl.kind in ("s", "w"):
        if isz:
            return gen_value(sl.ref, rng, depth - 1, size * 0.5)      # proto2 required message
        if rng.random() < 0.15:
            return scalar_default(sl.ty)
        return gen_scalar(sl.ty, rng, sl.enum)
    if sl.kind == "o":
        if (isz and depth <= 0) or rng.random() < 0.3:
            return None
        if not isz and rng.random() < 0.15:
            return scalar_default(sl.ty)                               # Some(default) is not None
        return _gen_elem(sl, rng, depth, size)
    if sl.kind == "r":
        if isz and depth <= 0:
            return []
        n = rng.choice([0, 0, 1, 2, 3, 5, 17] + ([60, 200] if not isz else []))
        n = max(0 if n == 0 else 1, int(n * size)) if n else 0
        return [_gen_elem(sl, rng, depth, size) for _ in range(n)]
    if sl.kind == "m":
        if isz and depth <= 0:
            return []
        n = rng.choice([0, 0, 1, 2, 3, 6] + ([40] if not isz else []))
        n = max(1, int(n * size)) if n else 0
        d = {}
        for _ in range(n):
            k = scalar_default(sl.kty) if rng.random() < 0.2 else gen_scalar(sl.kty, rng)
            if isz:
                v = gen_value(sl.ref, rng, depth - 1, size * 0.5)
            else:
                v = scalar_default(sl.ty) if rng.random() < 0.2 else gen_scalar(sl.ty, rng, sl.enum)
            d[k] = v
        return sorted(d.items(), key=lambda kv: _key_sort(kv[0]))
    if sl.kind == "u":
        choices = [None] + [i for i, m in enumerate(sl.members) if not (m.ty == "message" and depth <= 0)]
        c = rng.choice(choices)
        if c is None:
            return None
        m = sl.members[c]
        if m.ty != "message" and rng.random() < 0.15:
            return (c, scalar_default(m.ty))
        return (c, _gen_elem(m, rng, depth, size))
    raise ValueError(sl.kind)


def gen_cover(msg, rng, depth=2):
    """a systematic list of values: the default value, a fully populated one, and for every oneof one
    value per member"""
    vals = [default_value(msg)]
    full = []
    for sl in msg.slots:
        v = None
        for _ in range(20):
            v = _gen_slot(sl, rng, depth, 1.0)
            if v not in (None, []):
                break
        full.append(v)
    vals.append(full)
    for si, sl in enumerate(msg.slots):
        if sl.kind == "u":
            for mi, m in enumerate(sl.members):
                v = default_value(msg)
                v[si] = (mi, _gen_elem(m, rng, depth, 0.5))
                vals.append(v)
    return vals


def value_depth(msg, v):
    """nesting depth of a canonical value (0 = no embedded message present)"""
    d = 0
    for sl, x in zip(msg.slots, v):
        if sl.kind == "u":
            if x is not None and sl.members[x[0]].ty == "message":
                d = max(d, 1 + value_depth(sl.members[x[0]].ref, x[1]))
        elif sl.ty == "message":
            if sl.kind in ("s", "o"):
                if x is not None:
                    d = max(d, 1 + value_depth(sl.ref, x))
            elif sl.kind == "r":
                for y in x:
                    d = max(d, 1 + value_depth(sl.ref, y))
            elif sl.kind == "m":
                for _, y in x:
                    d = max(d, 1 + value_depth(sl.ref, y))
    return d


def positions(msg, v, acc):
    """counts, in acc[(position, type)], the scalar/enum/message values a canonical value carries;
    positions: singular optional repeated map-key map-value oneof wrapper"""
    for sl, x in zip(msg.slots, v):
        def sub(ref, y):
            positions(ref, y, acc)
        def bump(pos, ty, n=1):
            acc[(pos, ty)] = acc.get((pos, ty), 0) + n
        if sl.kind in ("s", "w"):
            bump("singular" if sl.kind == "s" else "wrapper", sl.ty)
            if sl.ty == "message":
                sub(sl.ref, x)
        elif sl.kind == "o":
            if x is not None:
                bump("optional", sl.ty)
                if sl.ty == "message":
                    sub(sl.ref, x)
        elif sl.kind == "r":
            if x:
                pos = "repeated"
                if _packable(sl.ty):
                    pos = "repeated-" + ("packed" if sl.packed_decl else "unpacked") + "-decl"
                bump(pos, sl.ty, len(x))
                if sl.ty == "message":
                    for y in x:
                        sub(sl.ref, y)
        elif sl.kind == "m":
            if x:
                bump("map-key", sl.kty, len(x))
                bump("map-value", sl.ty, len(x))
                if sl.ty == "message":
                    for _, y in x:
                        sub(sl.ref, y)
        elif sl.kind == "u":
            if x is not None:
                m = sl.members[x[0]]
                bump("oneof", m.ty)
                if m.ty == "message":
                    sub(m.ref, x[1])
    return acc


# ======================================================================================
# 5. Rust `{:?}` output of the generated types  ->  generic tree  ->  canonical value
# ======================================================================================
#   tree nodes: ("struct", name, [(field, node)]) | ("tuple", name, [node]) | ("unit", name)
#               ("num", text) | ("str", bytes) | ("bytes", bytes) | ("list", [node]) | ("map", [(node, node)])

class DebugParseError(Exception):
    pass


_NUM = re.compile(r"-?\d+(?:\.\d+)?(?:e[+-]?\d+)?|-?inf|NaN")
_IDENT = re.compile(r"(?:r#)?[A-Za-z_][A-Za-z0-9_]*")
_SIMPLE_ESC = {"n": 10, "r": 13, "t": 9, "0": 0, "\\": 92, '"': 34, "'": 39}


class _DP:
    def __init__(self, s):
        self.s, self.i = s, 0

    def err(self, what):
        raise DebugParseError("%s at %d: %r" % (what, self.i, self.s[self.i:self.i + 40]))

    def ws(self):
        while self.i < len(self.s) and self.s[self.i] in " \n":
            self.i += 1

    def eat(self, c):
        self.ws()
        if not self.s.startswith(c, self.i):
            self.err("expected %r" % c)
        self.i += len(c)

    def at(self, c):
        self.ws()
        return self.s.startswith(c, self.i)

    def string(self, is_bytes):
        # self.i is just after the opening quote
        out = bytearray()
        s = self.s
        while True:
            if self.i >= len(s):
                self.err("unterminated string")
            ch = s[self.i]
            if ch == '"':
                self.i += 1
                return bytes(out)
            if ch == "\\":
                e = s[self.i + 1]
                if e == "x":
                    out.append(int(s[self.i + 2:self.i + 4], 16)); self.i += 4
                elif e == "u":
                    j = s.index("}", self.i)
                    cp = int(s[self.i + 3:j], 16)
                    out += chr(cp).encode("utf-8", "surrogatepass"); self.i = j + 1
                elif e in _SIMPLE_ESC:
                    out.append(_SIMPLE_ESC[e]); self.i += 2
                else:
                    self.err("unknown escape")
            else:
                if is_bytes:
                    out.append(ord(ch))
                else:
                    out += ch.encode("utf-8", "surrogatepass")
                self.i += 1

    def seq(self, close):
        items = []
        while True:
            if self.at(close):
                self.i += len(close)
                return items
            items.append(self.value())
            if self.at(","):
                self.i += 1

    def value(self):
        self.ws()
        s = self.s
        if self.i >= len(s):
            self.err("value expected")
        c = s[self.i]
        if c == '"':
            self.i += 1
            return ("str", self.string(False))
        if c == "b" and s.startswith('b"', self.i):
            self.i += 2
            return ("bytes", self.string(True))
        if c == "[":
            self.i += 1
            return ("list", self.seq("]"))
        if c == "(":
            self.i += 1
            items = self.seq(")")
            return ("unit", "()") if not items else ("tuple", "", items)
        if c == "{":
            self.i += 1
            items = []
            while True:
                if self.at("}"):
                    self.i += 1
                    return ("map", items)
                k = self.value()
                self.eat(":")
                v = self.value()
                items.append((k, v))
                if self.at(","):
                    self.i += 1
        m = _NUM.match(s, self.i)
        if m:
            self.i = m.end()
            return ("num", m.group(0))
        m = _IDENT.match(s, self.i)
        if not m:
            self.err("value expected")
        name = m.group(0)
        self.i = m.end()
        if s.startswith("(", self.i):
            self.i += 1
            return ("tuple", name, self.seq(")"))
        if s.startswith(" {", self.i):
            self.i += 2
            fields = []
            while True:
                if self.at("}"):
                    self.i += 1
                    return ("struct", name, fields)
                fm = _IDENT.match(s, self.i)
                if not fm:
                    self.err("field name expected")
                self.i = fm.end()
                self.eat(":")
                fields.append((fm.group(0), self.value()))
                if self.at(","):
                    self.i += 1
        return ("unit", name)


def parse_debug(text):
    """generic tree of one `{:?}` rendering (single-line form)"""
    p = _DP(text)
    v = p.value()
    p.ws()
    if p.i != len(text):
        p.err("trailing text")
    return v


def _float_bits(text, width):
    """bits of the float the decimal text denotes (correctly rounded, no double rounding)"""
    if text == "NaN":
        return 0x7fc00000 if width == 32 else 0x7ff8000000000000
    if text in ("inf", "-inf"):
        b = 0x7f800000 if width == 32 else 0x7ff0000000000000
        return b | ((1 << (width - 1)) if text[0] == "-" else 0)
    x = float(text)              # correctly rounded to f64
    if width == 64:
        return struct.unpack("<Q", struct.pack("<d", x))[0]
    try:
        b = struct.unpack("<I", struct.pack("<f", x))[0]
    except OverflowError:
        b = 0x7f800000 | (0x80000000 if x < 0 else 0)
    # f64 -> f32 rounds a second time: pick the nearest f32 to the exact decimal among the neighbours
    exact = Fraction(text)
    best, bestd = b, None
    for cand in (b - 1, b, b + 1):
        if cand < 0 or (cand & 0x7fffffff) > 0x7f800000:
            continue
        if (cand & 0x7fffffff) == 0x7f800000:
            continue
        val = Fraction(struct.unpack("<f", struct.pack("<I", cand))[0])
        d = abs(val - exact)
        if bestd is None or d < bestd or (d == bestd and (cand & 1) == 0):
            best, bestd = cand, d
    if text.startswith("-") and (best & 0x7fffffff) == 0:
        best = 0x80000000
    return best


def _norm_name(s):
    return s.replace("_", "").replace("r#", "").lower()


def _scalar_from_tree(ty, t):
    if ty in ("float", "double"):
        if t[0] != "num":
            raise DebugParseError("float expected, got %r" % (t,))
        w = 32 if ty == "float" else 64
        return ("f", w, _float_bits(t[1], w))
    if ty == "bool":
        if t[0] != "unit" or t[1] not in ("true", "false"):
            raise DebugParseError("bool expected, got %r" % (t,))
        return 1 if t[1] == "true" else 0
    if ty == "string":
        if t[0] != "str":
            raise DebugParseError("string expected, got %r" % (t,))
        return t[1]
    if ty == "bytes":
        if t[0] == "bytes":
            return t[1]
        if t[0] == "list":                    # Vec<u8>
            return bytes(int(x[1]) for x in t[1])
        raise DebugParseError("bytes expected, got %r" % (t,))
    if ty == "enum":
        if t[0] != "tuple" or len(t[2]) != 1 or t[2][0][0] != "num":
            raise DebugParseError("enum newtype expected, got %r" % (t,))
        return int(t[2][0][1])
    if t[0] != "num":
        raise DebugParseError("integer expected, got %r" % (t,))
    return int(t[1])


def _elem_from_tree(x, t):
    if x.ty == "message":
        return debug_to_canon(x.ref, t)
    return _scalar_from_tree(x.ty, t)


def debug_to_canon(msg, tree):
    """canonical value of the tree parse_debug produced for a value of msg's generated type.
    Box is transparent in {:?}; hash maps come out sorted by key; a NaN gets the canonical quiet NaN
    bits (compare() treats all NaNs alike)."""
    if msg.wrapper is not None:
        if not msg.slots:
            if tree != ("unit", "()"):
                raise DebugParseError("() expected")
            return []
        return [_scalar_from_tree(msg.slots[0].ty, tree)]
    if tree[0] == "unit" and not msg.slots:
        return []
    if tree[0] != "struct":
        raise DebugParseError("struct %s expected, got %r" % (msg.name, tree[:2]))
    fields = tree[2]
    if len(fields) != len(msg.slots):
        raise DebugParseError("%s: %d fields rendered, %d slots in the schema" % (msg.name, len(fields), len(msg.slots)))
    out = []
    for sl, (fname, t) in zip(msg.slots, fields):
        if _norm_name(fname) != _norm_name(sl.name):
            raise DebugParseError("%s: field %s rendered where the schema has %s" % (msg.name, fname, sl.name))
        if sl.kind == "s":
            out.append(_elem_from_tree(sl, t))
        elif sl.kind == "o":
            if t == ("unit", "None"):
                out.append(None)
            elif t[0] == "tuple" and t[1] == "Some" and len(t[2]) == 1:
                out.append(_elem_from_tree(sl, t[2][0]))
            else:
                raise DebugParseError("Option expected for %s" % sl.name)
        elif sl.kind == "r":
            if t[0] != "list":
                raise DebugParseError("Vec expected for %s" % sl.name)
            out.append([_elem_from_tree(sl, y) for y in t[1]])
        elif sl.kind == "m":
            if t[0] != "map":
                raise DebugParseError("map expected for %s" % sl.name)
            items = [(_scalar_from_tree(sl.kty, k), _elem_from_tree(sl, v)) for k, v in t[1]]
            items.sort(key=lambda kv: _key_sort(kv[0]))
            for a, b in zip(items, items[1:]):
                if a[0] == b[0]:
                    raise DebugParseError("duplicate key rendered in map %s" % sl.name)
            out.append(items)
        elif sl.kind == "u":
            if t == ("unit", "None"):
                out.append(None)
                continue
            if not (t[0] == "tuple" and t[1] == "Some" and len(t[2]) == 1 and t[2][0][0] == "tuple" and len(t[2][0][2]) == 1):
                raise DebugParseError("Option<oneof> expected for %s" % sl.name)
            var = t[2][0]
            for mi, m in enumerate(sl.members):
                if _norm_name(m.name) == _norm_name(var[1]):
                    out.append((mi, _elem_from_tree(m, var[2][0])))
                    break
            else:
                raise DebugParseError("unknown oneof variant %s in %s" % (var[1], sl.name))
    return out


# ======================================================================================
# 6. glue for the extracted Coq model runner
# ======================================================================================

def _model_ty(x):
    return "M%d" % x.ref.idx if x.ty == "message" else x.ty


def model_schema_text(corpus, include_wrappers=False):
    """one line per message in global index order:  M <idx> <nfields> <field>*   with <field> =
    s <tag> <ty> | o <tag> <ty> | r <tag> <ty> | m <tag> <kty> <ty> | u <n> (<tag> <ty>){n}
    (struct order; <ty> a declared scalar type name, `enum`, or M<idx>).
    include_wrappers adds the pseudo messages as  M <idx> 1 w 1 <ty>  (value bare, the encoder omits
    the default) and  M <idx> 0  for ()."""
    lines = []
    for m in corpus:
        if m.wrapper is not None and not include_wrappers:
            continue
        parts = ["M", str(m.idx), str(len(m.slots))]
        for sl in m.slots:
            if sl.kind == "m":
                parts += ["m", str(sl.number), sl.kty, _model_ty(sl)]
            elif sl.kind == "u":
                parts += ["u", str(len(sl.members))]
                for mem in sl.members:
                    parts += [str(mem.number), _model_ty(mem)]
            else:
                parts += [sl.kind, str(sl.number), _model_ty(sl)]
        lines.append(" ".join(parts))
    return "\n".join(lines) + "\n"


def _model_scalar(ty, tok):
    if ty in ("string", "bytes"):
        if not tok.startswith("b"):
            raise ValueError("byte string token expected, got " + tok)
        return b"" if tok == "b-" else bytes.fromhex(tok[1:])
    if not tok.startswith("i"):
        raise ValueError("integer token expected, got " + tok)
    n = int(tok[1:])
    if ty == "float":
        return F32(n)
    if ty == "double":
        return F64(n)
    return n


def parse_model_value(msg, tokens):
    """canonical value from the model's `<value>` tokens (a list of strings, or one string)"""
    if isinstance(tokens, str):
        tokens = tokens.split()
    v, i = _pmv(msg, tokens, 0)
    if i != len(tokens):
        raise ValueError("trailing model tokens: " + " ".join(tokens[i:i + 5]))
    return v


def _pmv_elem(x, t, i):
    if x.ty == "message":
        return _pmv(x.ref, t, i)
    return _model_scalar(x.ty, t[i]), i + 1


def _pmv(msg, t, i):
    if msg.wrapper is not None and msg.slots and t[i] != "{":
        v, i = _pmv_elem(msg.slots[0], t, i)          # a wrapper may be rendered as its bare value
        return [v], i
    if t[i] != "{":
        raise ValueError("{ expected, got " + t[i])
    i += 1
    out = []
    for sl in msg.slots:
        if sl.kind in ("s", "w"):
            v, i = _pmv_elem(sl, t, i)
        elif sl.kind == "o":
            if t[i] == "N":
                v, i = None, i + 1
            elif t[i] == "S":
                v, i = _pmv_elem(sl, t, i + 1)
            else:
                raise ValueError("N or S expected, got " + t[i])
        elif sl.kind == "r":
            if t[i] != "[":
                raise ValueError("[ expected, got " + t[i])
            i += 1
            v = []
            while t[i] != "]":
                x, i = _pmv_elem(sl, t, i)
                v.append(x)
            i += 1
        elif sl.kind == "m":
            if t[i] != "<":
                raise ValueError("< expected, got " + t[i])
            i += 1
            d = []
            while t[i] != ">":
                k = _model_scalar(sl.kty, t[i])
                x, i = _pmv_elem(sl, t, i + 1)
                d.append((k, x))
            i += 1
            d.sort(key=lambda kv: _key_sort(kv[0]))
            v = d
        elif sl.kind == "u":
            if t[i] == "N":
                v, i = None, i + 1
            elif t[i].startswith("O"):
                mi = int(t[i][1:])
                x, i = _pmv_elem(sl.members[mi], t, i + 1)
                v = (mi, x)
            else:
                raise ValueError("N or O<k> expected, got " + t[i])
        out.append(v)
    if t[i] != "}":
        raise ValueError("} expected, got " + t[i])
    return out, i + 1


def model_value_tokens(msg, v):
    """inverse of parse_model_value (used by the self test and handy for debugging the model)"""
    out = []
    def sc(ty, x):
        if ty in ("string", "bytes"):
            return "b" + (x.hex() if x else "-")
        if ty in ("float", "double"):
            return "i%d" % x[2]
        return "i%d" % x
    def el(s, x):
        if s.ty == "message":
            out.extend(model_value_tokens(s.ref, x))
        else:
            out.append(sc(s.ty, x))
    out.append("{")
    for sl, x in zip(msg.slots, v):
        if sl.kind in ("s", "w"):
            el(sl, x)
        elif sl.kind == "o":
            if x is None:
                out.append("N")
            else:
                out.append("S"); el(sl, x)
        elif sl.kind == "r":
            out.append("[")
            for y in x:
                el(sl, y)
            out.append("]")
        elif sl.kind == "m":
            out.append("<")
            for k, y in x:
                out.append(sc(sl.kty, k)); el(sl, y)
            out.append(">")
        elif sl.kind == "u":
            if x is None:
                out.append("N")
            else:
                out.append("O%d" % x[0]); el(sl.members[x[0]], x[1])
    out.append("}")
    return out


# ======================================================================================
# 7. running the driver, judging one line against the reference decoder
# ======================================================================================
#   An annotated case line is  "<driver line> ;; k=<kind> [key=value ...]"; the driver (and
#   strip_ann) ignore everything from ";;" on.  A *case* is one or more annotated lines joined by
#   "\n"; lines of a case that carry eq=1 must decode to equal values.
#   kinds:  valid      the bytes come from the reference encoder: pilota must decode them, to the
#                      value the reference decoder gives, and re-encode to bytes that mean the same
#           fuzz       arbitrary bytes: no panic, bounded memory; where pilota and the reference
#                      decoder both accept, they agree; pilota never rejects what the reference accepts
#           depth      nesting probes: verdict (ok / recursion) must be the reference decoder's
#           lenprefix  a length prefix exceeding the remaining input: ERR underflow, small peak
#           reenc      (second pass of C05) pilota's own bytes: decoding them reproduces value and bytes

def hx(b):
    return b.hex() if b else "-"


def unhx(s):
    return b"" if s == "-" else bytes.fromhex(s)


def ann(line, **kw):
    return line + " ;; " + " ".join("%s=%s" % (k, v) for k, v in kw.items())


def strip_ann(line):
    i = line.find(";;")
    return line if i < 0 else line[:i].rstrip()


def get_ann(line):
    i = line.find(";;")
    if i < 0:
        return {}
    return dict(t.split("=", 1) for t in line[i + 2:].split() if "=" in t)


class Out:
    """parsed result line of pv-gen-pb"""
    def __init__(self, text):
        self.text = text
        self.status, self.L, self.E, self.P, self.D, self.cls, self.oracle_fail = "CRASH", None, None, None, None, None, None
        self.layout_fail = None
        j = text.find(" ORACLE-FAIL chunked buffer ")
        if j >= 0:                                  # a non-contiguous layout of the same bytes was answered differently
            self.layout_fail = text[j + len(" ORACLE-FAIL "):]
            text = text[:j]
        t = text.split(" ", 4)
        if t[0] == "OK":
            self.status = "OK"
            self.L = int(t[1][1:])
            if len(t) > 2 and t[2].startswith("E"):
                self.E = unhx(t[2][1:])
                self.P = int(t[3][1:])
                rest = t[4] if len(t) > 4 else ""
            else:                                   # lendelim: OK L<n> P<n>
                self.P = int(t[2][1:])
                rest = ""
            j = rest.rfind("ORACLE-FAIL ")
            if j >= 0 and (j == 0 or rest[j - 1] == " "):
                self.oracle_fail = rest[j + len("ORACLE-FAIL "):]
                rest = rest[:j].rstrip()
            if rest.startswith("D "):
                self.D = rest[2:]
        elif t[0] == "ERR":
            self.status, self.cls = "ERR", t[1]
            self.P = int(t[2][1:]) if len(t) > 2 and t[2].startswith("P") else 0
        elif t[0] in ("PANIC", "BADCASE"):
            self.status = t[0]

    def canon(self, msg):
        return debug_to_canon(msg, parse_debug(self.D))


def gen_bin_path(feature=None, target=None):
    """where cargo puts pv-gen-pb (core.build_harness returns the path of pv-harness-pb next to it)"""
    t = target or os.path.join(CACHE, "target_pb" + ("_edv" if feature == "edv" else ""))
    return os.path.join(t, "debug", "pv-gen-pb")


def build_gen_bins(features=("plain", "edv")):
    """builds the harness crate once per feature set (own target directories so that both stay
    warm) through core.build_harness, so PV_REPO redirection applies.  -> (bins dict, log)"""
    from . import core
    fam = core.Family("pb")
    bins, logs = {}, []
    for f in features:
        fam2 = core.Family("pb")
        if f == "edv":
            fam2.target = fam.target + "_edv"
        ok, hb, log = core.build_harness(fam=fam2, features="edv" if f == "edv" else None)
        if ok:
            bins[f] = os.path.join(os.path.dirname(hb), "pv-gen-pb")
        else:
            logs.append("[%s] %s" % (f, log))
    return bins, "\n".join(logs)


def run_driver(binary, lines):
    from . import core
    return core.run_lines(binary, [strip_ann(l) for l in lines])


_SIZES = {}


def driver_sizes(binary, corpus):
    """size_of of every generated type, for the memory bound"""
    if binary not in _SIZES:
        outs = run_driver(binary, ["info %d" % m.idx for m in corpus])
        sz = {}
        for m, o in zip(corpus, outs):
            mm = re.search(r"SIZE (\d+)", o or "")
            sz[m.idx] = int(mm.group(1)) if mm else 2048
        _SIZES[binary] = sz
    return _SIZES[binary]


def mem_factor(msg, sizes):
    """bytes of heap a decoder may legitimately need per input byte: an element of a repeated
    message / a map entry costs two to four input bytes and size_of::<T>() in memory, growth doubles
    the allocation and the old block is live during the move"""
    s = max([sizes.get(m.idx, 0) for m in reachable(msg)] + [8])
    return max(64, 6 * s)


def mem_bound(msg, sizes, nbytes):
    return mem_factor(msg, sizes) * nbytes + 65536


def _fix_negzero(msg, v):
    """the value with -0.0 replaced by +0.0 in float/double MAP VALUES (what pilota's encoder without
    pb-encode-default-value makes of them: `val == default` is true for -0.0) and in the f32/f64
    wrapper pseudo messages (`*self != 0.0` is false for -0.0)"""
    out = []
    ch = False
    for sl, x in zip(msg.slots, v):
        if sl.kind == "w" and sl.ty in ("float", "double") and x[2] == (1 << (x[1] - 1)):
            out.append(("f", x[1], 0)); ch = True
        elif sl.kind == "m":
            items = []
            for k, y in x:
                if sl.ty in ("float", "double") and y[2] == (1 << (y[1] - 1)):
                    y = ("f", y[1], 0); ch = True
                elif sl.ty == "message":
                    y, c2 = _fix_negzero(sl.ref, y); ch |= c2
                items.append((k, y))
            out.append(items)
        elif sl.kind == "u" and x is not None and sl.members[x[0]].ty == "message":
            y, c2 = _fix_negzero(sl.members[x[0]].ref, x[1]); ch |= c2
            out.append((x[0], y))
        elif sl.ty == "message" and x is not None:
            if sl.kind == "r":
                ys = []
                for y in x:
                    y, c2 = _fix_negzero(sl.ref, y); ch |= c2
                    ys.append(y)
                out.append(ys)
            else:
                y, c2 = _fix_negzero(sl.ref, x); ch |= c2
                out.append(y)
        else:
            out.append(x)
    return out, ch


def _line_input(corpus, line):
    """(cmd, msg, data bytes or (a, b), reference verdict)"""
    t = strip_ann(line).split()
    cmd = t[0]
    if cmd == "lendelim":
        data = unhx(t[1])
        try:
            ref = ("ok", _Rd(data).varint())
        except RefError as e:
            ref = ("err", e.cls)
        return cmd, None, data, ref
    msg = corpus[int(t[1])]
    if cmd in ("dec", "decq"):
        data = unhx(t[2])
        return cmd, msg, data, ref_try(msg, data)
    if cmd in ("merge", "mergeq"):
        a, b = unhx(t[2]), unhx(t[3])
        r1 = ref_try(msg, a)
        if r1[0] == "ok":
            r1 = ref_try(msg, b, into=r1[1])
        return cmd, msg, (a, b), r1
    if cmd == "declen":
        data = unhx(t[2])
        try:
            rd = _Rd(data)
            n = rd.varint()
            body = rd.take(n)
            ref = ref_try(msg, body)
        except RefError as e:
            ref = ("err", e.cls)
        return cmd, msg, data, ref
    raise ValueError("unknown command in case line: " + cmd)


# how the known-finding classes were attributed in this run: confirmed = the model of the defect predicts the implementation's
# answer on that input exactly; refused = same symptom family but not what the defect predicts (reported as a violation);
# LENIENT = pilota decoded a value where the reference decoder rejects, per reference class (fuzz lines)
KNOWN_STATS = {"confirmed": {}, "refused": {}}
LENIENT = {}


def _known(kind, cls):
    KNOWN_STATS[kind][cls] = KNOWN_STATS[kind].get(cls, 0) + 1


UTF8_ORACLE = [False]        # C10 only: a decoded generated `string` field must hold UTF-8 (finding F-10b when it does not)


def _bad_utf8(msg, v, depth=0):
    """path of a `string` position of the canonical value v that is not UTF-8 (fields the implementation validates --
    the std String wrapper -- excluded), or None"""
    def bad(b):
        try:
            bytes(b).decode("utf-8")
            return False
        except UnicodeDecodeError:
            return True
    for sl, x in zip(msg.slots, v):
        def el(s, y):
            if s.ty == "message":
                return _bad_utf8(s.ref, y, depth + 1) if depth < 40 else None
            if s.ty == "string" and not getattr(s, "utf8", False) and isinstance(y, (bytes, bytearray)) and bad(y):
                return s.name
            return None
        r = None
        if sl.kind in ("s", "w"):
            r = el(sl, x)
        elif sl.kind == "o":
            r = None if x is None else el(sl, x)
        elif sl.kind == "r":
            for y in x:
                r = r or el(sl, y)
        elif sl.kind == "m":
            for k, y in x:
                if sl.kty == "string" and isinstance(k, (bytes, bytearray)) and bad(k):
                    r = r or (sl.name + ".key")
                r = r or el(sl, y)
        elif sl.kind == "u":
            r = None if x is None else el(sl.members[x[0]], x[1])
        if r:
            return r if r.startswith(msg.name) else "%s.%s" % (msg.name, r)
    return None


def judge(corpus, sizes, line, out_text, feature="plain"):
    """None, or (class, why): the verdict of the property oracles on ONE annotated line, from the
    implementation's output and the reference decoder alone"""
    if strip_ann(line).split(" ", 1)[0] in ("grp", "grpdec"):
        return judge_group(corpus, line, out_text, feature)
    a = get_ann(line)
    kind = a.get("k", "fuzz")
    o = Out(out_text)
    if o.status in ("CRASH", "PANIC", "BADCASE"):
        return ("panic" if o.status == "PANIC" else o.status.lower(), "the driver answered: " + out_text[:200])
    if o.layout_fail:
        return ("chunked-buffer", "the answer depends on the chunk layout of the input buffer: contiguous %s, %s" % (
            out_text[:60].split(" ORACLE-FAIL")[0], o.layout_fail[:200]))
    cmd, msg, data, ref = _line_input(corpus, line)
    nbytes = len(data) if isinstance(data, bytes) else len(data[0]) + len(data[1])
    if cmd == "lendelim":
        if ref[0] == "ok":
            if o.status != "OK" or o.L != ref[1]:
                return ("lendelim", "length delimiter %d expected, got %s" % (ref[1], out_text[:80]))
        elif o.status != "ERR":
            return ("lendelim", "malformed length delimiter (%s) accepted: %s" % (ref[1], out_text[:80]))
        if o.P is not None and o.P > 4096:
            return ("memory", "decode_length_delimiter allocated %d bytes" % o.P)
        return None
    # memory: every kind
    if o.P is not None and o.P > mem_bound(msg, sizes, nbytes):
        return ("memory", "peak %d bytes of heap for %d input bytes (bound %d*len+65536)" % (o.P, nbytes, mem_factor(msg, sizes)))
    if o.status == "OK":
        if o.oracle_fail:
            return ("encode-apis-disagree", o.oracle_fail[:300])
        if o.L != len(o.E):
            return ("encoded-len", "encoded_len() = %d but %d bytes were written" % (o.L, len(o.E)))
    if kind == "lenprefix":
        if not (o.status == "ERR" and o.cls == "underflow"):
            return ("lenprefix", "a length prefix beyond the end of the input must give ERR underflow, got " + out_text[:120])
        if a.get("small") == "1" and o.P > 4096:
            # nothing but the oversized prefix in the input: whatever is allocated is allocated for it
            return ("lenprefix-memory", "%d bytes allocated before the oversized length prefix was rejected" % o.P)
        return None
    if kind == "depth":
        if ref[0] == "err" and ref[1] != "recursion":
            return ("ref-bug", "depth probe is malformed for the reference decoder: " + ref[1])
        if ref[0] == "err":
            if not (o.status == "ERR" and o.cls == "recursion"):
                return ("recursion-limit", "nesting beyond %d must give ERR recursion, got %s" % (RECURSION_LIMIT, out_text[:120]))
            return None
        if o.status != "OK":
            return ("recursion-limit-early", "nesting within the limit of %d rejected: %s" % (RECURSION_LIMIT, out_text[:120]))
    if kind in ("valid", "reenc", "unk-at-limit"):
        if ref[0] != "ok":
            return ("ref-bug", "the reference decoder rejects its own encoder's bytes: " + ref[1])
        if o.status != "OK":
            # F-18a exactly: an unknown field right AT the nesting limit is answered `recursion limit reached`; any other
            # error class, or the same one at a lower level, is not that finding
            if kind == "unk-at-limit":
                if o.status == "ERR" and o.cls == "recursion" and a.get("lvl") == str(RECURSION_LIMIT):
                    _known("confirmed", "unknown-at-depth-limit")
                    return ("unknown-at-depth-limit", "a valid encoding is rejected: " + out_text[:120])
                _known("refused", "unknown-at-depth-limit")
            return ("rejects-valid", "a valid encoding is rejected: " + out_text[:120])
    # regression of F-10b (repaired): a `string` position with invalid UTF-8 is a decode error, in every check
    if o.status == "OK" and ref == ("err", "utf8"):
        return ("invalid-utf8-accepted", "a `string` that is not UTF-8 was decoded to a value (the reference decoder says: invalid UTF-8)")
    if a.get("g") == "bad-utf8" and not (o.status == "ERR" and o.cls == "utf8"):
        return ("invalid-utf8-accepted", "invalid UTF-8 in a string field must give ERR utf8, got " + out_text[:100])
    if o.status == "OK" and ref[0] == "ok" and msg is not None and UTF8_ORACLE[0]:
        where = _bad_utf8(msg, ref[1])
        if where:
            return ("invalid-utf8-accepted", "the decoded message holds a `string` that is not UTF-8 (%s)" % where)
    if o.status == "ERR":
        if ref[0] == "ok" and kind == "fuzz":
            return ("rejects-valid", "the reference decoder accepts these bytes, pilota says " + out_text[:80])
        return None
    # o.status == OK from here on
    if ref[0] == "err":
        if kind == "fuzz":
            LENIENT[ref[1]] = LENIENT.get(ref[1], 0) + 1
            if ref[1] in ("underflow", "delimited", "varint"):
                # an overrunning length / over-long varint is not leniency: the bytes are not a sequence of records
                return ("accepts-invalid", "reference verdict %s, pilota decoded a value" % ref[1])
            return None            # other leniency (wire type of map records, ..) is not part of these properties: counted
        return ("accepts-invalid", "reference verdict %s, pilota decoded a value" % ref[1])
    want = ref[1]
    if o.D is not None:
        try:
            got = o.canon(msg)
        except DebugParseError as e:
            return ("debug-parse", "cannot interpret the {:?} rendering: %s" % e)
        d = compare(want, got)
        if d:
            return ("decode-value", "decoded value differs from the reference decoder's at %s" % d)
    # out direction: pilota's bytes, read by the reference decoder
    back = ref_try(msg, o.E)
    if back[0] != "ok":
        return ("encode-invalid", "pilota's encoding is rejected by the reference decoder: " + back[1])
    d = _cmp_strict(want, back[1])
    if d:
        fixed, changed = _fix_negzero(msg, want)
        if changed and msg.wrapper is not None and _cmp_strict(fixed, back[1]) is None:
            _known("confirmed", "wrapper-negzero-default")
            return ("wrapper-negzero-default", "the %s wrapper leaves -0.0 off the wire, it reads back as +0.0" % msg.wrapper)
        if changed and feature != "edv" and _cmp_strict(fixed, back[1]) is None:
            _known("confirmed", "map-negzero-default")
            return ("map-negzero-default", "a -0.0 map value is left off the wire and reads back as +0.0 (%s)" % d)
        if changed:
            _known("refused", "negzero-default")
        return ("encode-value", "pilota's encoding of the decoded value means something else at %s" % d)
    return None


def _cmp_strict(a, b):
    """bit-exact comparison (NaN payloads included): both sides come from wire bytes"""
    if a == b:
        return None
    return compare(a, b) or "NaN payload differs"


def _same_value(corpus, l1, o1, l2, o2):
    """cross-line check: the two lines decode to equal values (compared through {:?} if rendered,
    else through the reference decoding of the re-encoded bytes)"""
    a, b = Out(o1), Out(o2)
    if a.status != b.status:
        return "one is %s the other %s" % (a.status, b.status)
    if a.status != "OK":
        return None
    msg = corpus[int(strip_ann(l1).split()[1])]
    try:
        if a.D is not None and b.D is not None:
            return compare(a.canon(msg), b.canon(msg))
        return compare(ref_decode(msg, a.E), ref_decode(msg, b.E))
    except (DebugParseError, RefError) as e:
        return "cannot compare: %s" % e


def run_cases(corpus, gen_bins, cases, reenc=False):
    """runs every case (one or more "\\n"-joined annotated lines) on every build.
    -> (failing [(case, why, impl_output)], outputs {feature: {case_index: [out lines]}})"""
    flat, owner = [], []
    for ci, c in enumerate(cases):
        for l in c.split("\n"):
            flat.append(l); owner.append(ci)
    failing, outputs = [], {}
    for feat, b in gen_bins.items():
        sizes = driver_sizes(b, corpus)
        outs = run_driver(b, flat)
        per = {}
        for l, o, ci in zip(flat, outs, owner):
            per.setdefault(ci, []).append((l, o))
        outputs[feat] = per
        bad = set()
        for ci, los in per.items():
            for l, o in los:
                v = judge(corpus, sizes, l, o, feat)
                if v:
                    failing.append((cases[ci], "%s: %s [%s build]" % (v[0], v[1], feat), o[:2000]))
                    if v[0] in ROUNDTRIP_ONLY:
                        continue            # a confirmed round-trip deviation: recorded; the other lines and checks of the case still run
                    bad.add(ci)
                    break
            if ci in bad:
                continue
            eq = [(l, o) for l, o in los if get_ann(l).get("eq") == "1"]
            for l, o in eq[1:]:
                d = _same_value(corpus, eq[0][0], eq[0][1], l, o)
                if d:
                    failing.append((cases[ci], "merge-semantics: lines of one case that must decode to the same value differ: %s [%s build]" % (d, feat), o[:2000]))
                    bad.add(ci)
                    break
        if reenc:
            # second pass: pilota's own bytes decode to the same rendering and the same bytes
            l2, src = [], []
            for ci, los in per.items():
                if ci in bad:
                    continue
                for l, o in los:
                    t = strip_ann(l).split()
                    oo = Out(o)
                    if t[0] == "dec" and oo.status == "OK":
                        l2.append(ann("dec %s %s" % (t[1], hx(oo.E)), k="reenc")); src.append((ci, oo))
            outs2 = run_driver(b, l2)
            for l, o, (ci, first) in zip(l2, outs2, src):
                v = judge(corpus, sizes, l, o, feat)
                o2 = Out(o)
                why = None
                if v and v[0] not in ("map-negzero-default", "wrapper-negzero-default"):
                    why = "%s: %s" % v
                elif o2.status == "OK":
                    if o2.E != first.E and not _has_multi_map(corpus[int(l.split()[1])], first):
                        why = "reencode-unstable: encode(decode(E)) != E"
                    elif len(o2.E) != len(first.E):
                        why = "reencode-unstable: encode(decode(E)) has another length than E"
                    elif v is None and o2.D != first.D and not _has_multi_map(corpus[int(l.split()[1])], first):
                        why = "reencode-unstable: decode(E) renders differently from the value E was made from"
                if why:
                    failing.append((cases[ci] + "\n" + l, "%s [%s build]" % (why, feat), o[:2000]))
    return failing, outputs


def _has_multi_map(msg, out):
    """hash map iteration order is not stable across instances: byte/text equality is only required
    when no map of the value has two or more entries"""
    try:
        v = ref_decode(msg, out.E)
    except RefError:
        return False
    return _multi_map(msg, v)


def _multi_map(msg, v):
    for sl, x in zip(msg.slots, v):
        if sl.kind == "m":
            if len(x) > 1:
                return True
            if sl.ty == "message" and any(_multi_map(sl.ref, y) for _, y in x):
                return True
        elif sl.kind == "u":
            if x is not None and sl.members[x[0]].ty == "message" and _multi_map(sl.members[x[0]].ref, x[1]):
                return True
        elif sl.ty == "message" and x is not None:
            if sl.kind == "r":
                if any(_multi_map(sl.ref, y) for y in x):
                    return True
            elif _multi_map(sl.ref, x):
                return True
    return False


# ---- model side

_MODEL_L = re.compile(r"^L\d+$")


def parse_model_out(msg, text):
    """dict(status, value, L, E, cls) of the model runner's answer"""
    t = text.split()
    r = dict(status="BAD", value=None, L=None, E=None, cls=None, text=text)
    if not t:
        return r
    if t[0] == "OK":
        i = 1
        while i < len(t) and not _MODEL_L.match(t[i]):
            i += 1
        if i >= len(t):
            return r
        r["status"] = "OK"
        if i > 1 and msg is not None:
            r["value"] = parse_model_value(msg, t[1:i])
        r["L"] = int(t[i][1:])
        for x in t[i + 1:]:
            if x.startswith("E"):
                r["E"] = unhx(x[1:])
    elif t[0] == "ERR":
        r["status"], r["cls"] = "ERR", t[1] if len(t) > 1 else "?"
    elif t[0] == "PANIC":
        r["status"] = "PANIC"
    return r


def compare_model(corpus, line, impl_text, model_text):
    """None or a description of the disagreement between the model's and the implementation's answer"""
    t = strip_ann(line).split()
    if t[0] in ("grp", "grpdec"):
        return compare_model_group(corpus, line, impl_text, model_text)
    msg = corpus[int(t[1])] if t[0] != "lendelim" else None
    o = Out(impl_text)
    try:
        m = parse_model_out(msg, model_text)
    except (ValueError, IndexError) as e:
        return "model output not understood: %s" % e
    if o.status != m["status"]:
        return "implementation %s, model %s" % (o.status + (" " + o.cls if o.cls else ""), m["status"] + (" " + m["cls"] if m["cls"] else ""))
    if o.status == "ERR":
        return None if o.cls == m["cls"] else "error class %s vs model %s" % (o.cls, m["cls"])
    if o.status != "OK":
        return None
    if o.L != m["L"]:
        return "L %d vs model %d" % (o.L, m["L"])
    if msg is None:
        return None
    try:
        iv = o.canon(msg) if o.D is not None else ref_decode(msg, o.E)
    except (DebugParseError, RefError) as e:
        return "implementation output not understood: %s" % e
    if m["value"] is not None and o.D is not None:
        # (quiet lines carry no rendering: the implementation's value is only known through its re-encoding
        # E, which loses what pilota's encoder loses -- e.g. -0.0 map values, F-05a -- so there the bytes
        # E are compared below, not the value)
        d = compare(iv, m["value"])
        if d:
            return "value differs at " + d
    if m["E"] is not None and m["E"] != o.E:
        # hash map iteration order is the only licence for different bytes
        try:
            mv = ref_decode(msg, m["E"])
        except RefError as e:
            return "model's E is not valid wire format: %s" % e.cls
        try:
            ov = ref_decode(msg, o.E)
        except RefError as e:
            return "the implementation's re-encoding E is not valid wire format: %s" % e.cls
        if len(m["E"]) != len(o.E) or compare(mv, ov) or not _multi_map(msg, mv):
            return "E differs"
    return None



# ======================================================================================
# 7b. the group codec (pilota::prost::encoding::group) through the hand-written GroupHolder<M>
#     of the driver: struct GroupHolder<M> { opt: Option<M> /*group 3*/, req: M /*group 4*/,
#     many: Vec<M> /*group 1000*/, tail: u32 /*1001*/ }   (pilota-build cannot emit group fields)
# ======================================================================================
GH_OPT, GH_REQ, GH_MANY, GH_TAIL = 3, 4, 1000, 1001
_GRP_RE = re.compile(r"^OK L(\d+) E(\S+) P(\d+)(?: I (\S+) (\S+) (\S+) (\d+))? B (?:(\S+) (\S+) (\S+) (\d+)|ERR (\w+))")


def ref_group(number, body):
    return enc_tag(number, WT_SGROUP) + body + enc_tag(number, WT_EGROUP)


def _parts_of(opt, req, many, tail):
    """(opt bytes | None, req bytes, [bytes], int) from the driver's tokens"""
    return (None if opt == "~" else unhx(opt), unhx(req), [] if many == "~" else [unhx(x) for x in many.split(",")], int(tail))


def ref_holder_encode(parts):
    opt, req, many, tail = parts
    return ((ref_group(GH_OPT, opt) if opt is not None else b"") + ref_group(GH_REQ, req)
            + b"".join(ref_group(GH_MANY, b) for b in many) + enc_tag(GH_TAIL, WT_VARINT) + enc_varint(tail))


def ref_holder_decode(msg, data, limit=RECURSION_LIMIT):
    """reference reading of a GroupHolder<msg> encoding -> (opt value | None, req value, [values], tail): the bodies of
    the group records of one field merge (= concatenate), repeated groups append, unknown fields are skipped"""
    rd = _Rd(bytes(data))
    opt, req, many, tail = None, b"", [], 0
    while rd.more():
        n, wt = rd.key()
        if n in (GH_OPT, GH_REQ, GH_MANY):
            if wt != WT_SGROUP:
                raise RefError("wiretype", "group field %d with wire type %d" % (n, wt))
            start = rd.p
            _skip(rd, n, WT_SGROUP, limit)
            body = bytes(rd.d[start:rd.p - len(enc_tag(n, WT_EGROUP))])
            if n == GH_OPT:
                opt = (opt or b"") + body
            elif n == GH_REQ:
                req += body
            else:
                many.append(body)
        elif n == GH_TAIL:
            tail = _dec_scalar("uint32", wt, rd)
        else:
            _skip(rd, n, wt, limit)
    # a group costs one unit of the nesting budget
    dec = lambda b: ref_decode(msg, b, limit=limit - 1)
    return (None if opt is None else dec(opt), dec(req), [dec(b) for b in many], tail)


def _holder_sem(msg, parts):
    """the parts of a holder as values of the reference decoder (map entries have no order)"""
    opt, req, many, tail = parts
    return (None if opt is None else ref_decode(msg, opt), ref_decode(msg, req), [ref_decode(msg, b) for b in many], tail)


def _holder_diff(a, b):
    """None, or where two semantic holders differ"""
    if (a[0] is None) != (b[0] is None):
        return "the optional group is %s on one side, %s on the other" % ("absent" if a[0] is None else "present", "absent" if b[0] is None else "present")
    if len(a[2]) != len(b[2]):
        return "%d repeated groups on one side, %d on the other" % (len(a[2]), len(b[2]))
    if a[3] != b[3]:
        return "tail %d vs %d" % (a[3], b[3])
    for x, y in [(a[0], b[0])] * (a[0] is not None) + [(a[1], b[1])] + list(zip(a[2], b[2])):
        d = _cmp_strict(x, y)
        if d:
            return "a group body differs at %s" % d
    return None


def gen_group_cases(corpus, rng, tier):
    """grp lines: holders over every corpus message as group body -- empty bodies in optional / required / repeated
    position included -- ; grpdec lines: reference-built holder encodings in other styles (records shuffled, the optional
    and the required group split over two records, unknown fields in between)"""
    cases, kinds = [], {}
    def add(line, k, **kw):
        cases.append(ann(line, k=k, **kw)); kinds[k] = kinds.get(k, 0) + 1
    per = _n(tier, 5, 60)
    for m in corpus:
        if m.wrapper is not None:
            continue
        empty = default_value(m)
        can_be_empty = ref_encode(m, empty, rng, PILOTA_LIKE) == b""
        vals = gen_cover(m, rng)[:3] + [gen_value(m, rng, rng.choice([0, 1, 2]), 0.6) for _ in range(per)]
        def enc(v):
            return ref_encode(m, v, rng, rng.choice([CANONICAL, PILOTA_LIKE]))
        combos = [(None, empty, []), (empty, empty, [empty]), (empty, empty, [empty, empty, empty])]
        for v in vals:
            w = rng.choice(vals)
            combos += [(rng.choice([None, empty, v]), rng.choice([empty, w]), rng.choice([[], [v], [v, empty, w], [empty, v], [w, w, empty, empty]]))]
        for opt, req, many in combos:
            tail = rng.choice([0, 1, 127, 128, 300, M32])
            line = "grp %d %s %s %s %d" % (m.idx, "~" if opt is None else hx(enc(opt)), hx(enc(req)),
                                            "~" if not many else ",".join(hx(enc(x)) for x in many), tail)
            if len(line) > 6000:
                continue
            add(line, "grp-valid", e=int(can_be_empty))
        # in direction: other conforming layouts of the same holder
        for v in vals[:max(2, per // 2)]:
            w = rng.choice(vals)
            opt, req, many, tail = rng.choice([None, v]), w, rng.choice([[], [v, w], [empty, v]]), rng.choice([0, 5, 300])
            recs = []
            def grp_recs(number, x, split):
                if split and rng.random() < 0.6:
                    a, b = split_value(m, x, rng)
                    return [ref_group(number, ref_encode(m, a, rng, CANONICAL)), ref_group(number, ref_encode(m, b, rng, CANONICAL))]
                return [ref_group(number, ref_encode(m, x, rng, rng.choice(STYLES)))]
            groups = []
            if opt is not None:
                groups.append(grp_recs(GH_OPT, opt, True))
            groups.append(grp_recs(GH_REQ, req, False))        # (a split required group: bare fields of the 2nd record win; kept whole)
            groups.append([r for x in many for r in grp_recs(GH_MANY, x, False)])
            groups.append([enc_tag(GH_TAIL, 0) + enc_varint(9), enc_tag(GH_TAIL, 0) + enc_varint(tail)])
            # interleave the per-field record lists keeping each list's order; unknown fields in between
            il = []
            idx = [0] * len(groups)
            while any(i < len(g) for i, g in zip(idx, groups)):
                k = rng.choice([j for j in range(len(groups)) if idx[j] < len(groups[j])])
                if rng.random() < 0.3:
                    il.append(_unknown_record(rng.choice([1, 2, 7, 999, 5000]), rng, 1))
                il.append(groups[k][idx[k]]); idx[k] += 1
            data = b"".join(il)
            if len(data) <= 3000:
                add("grpdec %d %s" % (m.idx, hx(data)), "grp-in")
    return cases, kinds


def gen_group_malformed(corpus, rng, tier):
    """grpdec on arbitrary / damaged holder encodings (C10): truncations, byte replacements, wrong end-group numbers,
    groups nested to depth 1..120, unterminated groups"""
    cases = []
    msgs = [m for m in corpus if m.wrapper is None]
    n = _n(tier, 6, 80)
    for m in msgs:
        for _ in range(n):
            v = gen_value(m, rng, rng.choice([0, 1, 2]), 0.5)
            body = ref_encode(m, v, rng, CANONICAL)
            e = ref_holder_encode((rng.choice([None, body]), body, rng.choice([[], [body, b""]]), rng.choice([0, 300])))
            if len(e) > 1500:
                continue
            k = rng.random()
            if k < 0.3 and len(e) > 1:
                e = e[:rng.randrange(len(e))]
            elif k < 0.6 and e:
                i = rng.randrange(len(e))
                e = e[:i] + bytes([rng.choice([0x00, 0x07, 0xff, e[i] ^ 0x80, 0x1c, 0x24, 0x1b])]) + e[i + 1:]
            elif k < 0.7:
                e = e + enc_tag(GH_OPT, WT_SGROUP) + body + enc_tag(GH_REQ, WT_EGROUP)          # closed by the wrong number
            elif k < 0.8:
                e = enc_tag(GH_MANY, WT_SGROUP) + body                                            # unterminated
            cases.append(ann("grpdec %d %s" % (m.idx, hx(e)), k="grp-fuzz"))
    m = msgs[0]
    for d in sorted(set([1, 2, 50, 98, 99, 100, 101, 120] + [rng.randrange(1, 121) for _ in range(6)])):
        # unknown groups nested d deep inside the required group's body
        inner = enc_tag(77, WT_SGROUP) * d + enc_tag(77, WT_EGROUP) * d
        cases.append(ann("grpdec %d %s" % (m.idx, hx(ref_group(GH_REQ, inner))), k="grp-fuzz"))
    return cases


def _diff_mod_negzero(msg, want, got, feature):
    """None if got is want, or want with exactly its -0.0 map values read as +0.0 on a build without pb-encode-default-value
    (F-05a, counted as confirmed); else where they differ"""
    d = _cmp_strict(want, got)
    if d is None:
        return None
    fixed, changed = _fix_negzero(msg, want)
    if changed and feature != "edv" and _cmp_strict(fixed, got) is None:
        _known("confirmed", "map-negzero-default")
        return None
    if changed:
        _known("refused", "negzero-default")
    return d


def judge_group(corpus, line, out_text, feature="plain"):
    """verdict on a grp / grpdec line from the implementation's answer and the reference codec alone"""
    a = get_ann(line)
    t = strip_ann(line).split()
    msg = corpus[int(t[1])]
    o = Out(out_text) if not out_text.startswith("OK") else None
    if out_text.startswith(("PANIC", "CRASH", "HANG", "BADCASE")):
        return ("panic" if out_text.startswith("PANIC") else "no-answer", "the driver answered: " + out_text[:200])
    j = out_text.find(" ORACLE-FAIL ")
    if j >= 0:
        what = out_text[j + len(" ORACLE-FAIL "):]
        return ("chunked-buffer" if what.startswith("chunked buffer") else "group-len", what[:300])
    if t[0] == "grp":
        mm = _GRP_RE.match(out_text)
        if not mm or mm.group(4) is None:
            return ("group-output", "answer not understood: " + out_text[:160])
        L, E = int(mm.group(1)), unhx(mm.group(2))
        inp = _parts_of(t[2], t[3], t[4], t[5])
        I = _parts_of(*mm.group(4, 5, 6, 7))
        if (inp[0] is None) != (I[0] is None) or len(inp[2]) != len(I[2]) or inp[3] != I[3]:
            return ("group-build", "the holder was not built from the parts: " + out_text[:160])
        try:
            for x, y in [(inp[0], I[0])] * (inp[0] is not None) + [(inp[1], I[1])] + list(zip(inp[2], I[2])):
                d = _diff_mod_negzero(msg, ref_decode(msg, x), ref_decode(msg, y), feature)
                if d:
                    return ("group-part", "pilota's re-encoding of a part means something else: %s" % d)
        except RefError as e:
            return ("ref-bug", "the reference decoder rejects a part: %s" % e)
        want = ref_holder_encode(I)
        if E != want:
            return ("group-encode", "the holder's bytes are not [StartGroup key, body, EndGroup key] per group field: %s written, %s expected" % (hx(E)[:160], hx(want)[:160]))
        if L != len(E):
            return ("encoded-len", "encoded_len() = %d but %d bytes were written" % (L, len(E)))
        if mm.group(12) is not None:
            return ("group-roundtrip", "decoding the holder's own bytes failed: ERR " + mm.group(12))
        B = _parts_of(*mm.group(8, 9, 10, 11))
        try:
            d = _holder_diff(_holder_sem(msg, I), _holder_sem(msg, B))
        except RefError as e:
            return ("encode-invalid", "a group body pilota wrote is rejected by the reference decoder: %s" % e)
        if d:
            return ("group-roundtrip", "round trip (written -> read back) changed the value: " + d)
        return None
    # grpdec
    try:
        ref = ("ok", ref_holder_decode(msg, unhx(t[2])))
    except RefError as e:
        ref = ("err", e.cls)
    if out_text.startswith("ERR"):
        if a.get("k") == "grp-in":
            return ("rejects-valid", "a conforming holder encoding is rejected: " + out_text[:100])
        return None
    mm = _GRP_RE.match(out_text)
    if not mm:
        return ("group-output", "answer not understood: " + out_text[:160])
    L, E = int(mm.group(1)), unhx(mm.group(2))
    if L != len(E):
        return ("encoded-len", "encoded_len() = %d but %d bytes were written" % (L, len(E)))
    if a.get("k") == "grp-in":
        if ref[0] != "ok":
            return ("ref-bug", "the reference holder decoder rejects its own input: " + ref[1])
        B = _parts_of(*mm.group(8, 9, 10, 11))
        want = ref[1]
        try:
            got = (None if B[0] is None else ref_decode(msg, B[0]), ref_decode(msg, B[1]), [ref_decode(msg, b) for b in B[2]], B[3])
        except RefError as e:
            return ("encode-invalid", "a group body pilota wrote is rejected by the reference decoder: %s" % e)
        if (got[0] is None) != (want[0] is None) or len(got[2]) != len(want[2]) or got[3] != want[3]:
            return ("group-decode", "presence / count / scalar differ from the reference reading")
        for x, y in [(want[0], got[0])] * (want[0] is not None) + [(want[1], got[1])] + list(zip(want[2], got[2])):
            d = _diff_mod_negzero(msg, x, y, feature) and compare(x, y)
            if d:
                return ("group-decode", "a group body differs from the reference reading at %s" % d)
    return None


def compare_model_group(corpus, line, impl_text, model_text):
    """implementation vs model on a grp / grpdec line: outcome, error class, L, and the values (bytes are not compared:
    the entries of a hash map are written in the iteration order of that map instance)"""
    def cut(s):
        j = s.find(" ORACLE-FAIL")
        return s[:j] if j >= 0 else s
    a, b = cut(impl_text), cut(model_text)
    if a.split(" ", 1)[0] != b.split(" ", 1)[0]:
        return "implementation `%s` vs model `%s`" % (a[:120], b[:120])
    if a.startswith("ERR"):
        return None if a.split()[1] == b.split()[1] else "error class %s vs model %s" % (a.split()[1], b.split()[1])
    if not a.startswith("OK"):
        return None
    msg = corpus[int(strip_ann(line).split()[1])]
    ta, tb = a.split(), b.split()
    if ta[1] != tb[1]:
        return "%s vs model %s" % (ta[1], tb[1])
    try:
        ha, hb = ref_holder_decode(msg, unhx(ta[2][1:])), ref_holder_decode(msg, unhx(tb[2][1:]))
        d = _holder_diff(ha, hb)
        if d:
            return "the bytes written mean different holders: " + d
        def back(tk):
            k = tk.index("B")
            return tk[k + 1:k + 5]
        pa, pb = back(ta), back(tb)
        if (pa[0] == "ERR") != (pb[0] == "ERR"):
            return "read back: %s vs model %s" % (" ".join(pa[:2]), " ".join(pb[:2]))
        if pa[0] != "ERR":
            d = _holder_diff(_holder_sem(msg, _parts_of(*pa)), _holder_sem(msg, _parts_of(*pb)))
            if d:
                return "read back: " + d
    except (RefError, ValueError, IndexError) as e:
        return "cannot compare: %r" % (e,)
    return None


# what the model runner understands beyond `dec` / `merge` on corpus messages (the pb builder flips
# these when the runner learns more); decq / mergeq are sent to the model as dec / merge
MODEL_SUPPORTS = dict(wrappers=True, declen=True, lendelim=True)
MODEL_EDV_ARGS = ["--edv"]        # extra runner arguments for the pb-encode-default-value build
MODEL_MAX_HEX, MODEL_HARD_MAX_HEX, MODEL_LONG_EVERY = 6000, 40000, 6
MODEL_STATS = dict(lines=0, skipped_long=0)


def model_line(corpus, line):
    """the line the model runner gets for an annotated driver line, or None if it cannot take it"""
    t = strip_ann(line).split()
    if t[0] in ("grp", "grpdec"):
        return " ".join(t)
    if t[0] == "lendelim":
        return " ".join(t) if MODEL_SUPPORTS["lendelim"] else None
    if corpus[int(t[1])].wrapper is not None and not MODEL_SUPPORTS["wrappers"]:
        return None
    if t[0] == "declen":
        return " ".join(t) if MODEL_SUPPORTS["declen"] else None
    t[0] = {"decq": "dec", "mergeq": "merge"}.get(t[0], t[0])
    return " ".join(t)


def write_model_schema(corpus, path=None):
    os.makedirs(CACHE, exist_ok=True)
    path = path or os.path.join(CACHE, "pb_model_schema.txt")
    with open(path + ".tmp", "w") as f:
        f.write(model_schema_text(corpus, include_wrappers=MODEL_SUPPORTS["wrappers"]))
    os.replace(path + ".tmp", path)
    return path


def run_model(corpus, model_runner, cases, outputs):
    """feeds the same lines to the extracted model (`runner --schema <file> [--edv]`);
    -> mismatches [(annotated line, impl output, model output + "   <- " + what differs, build)]"""
    if not model_runner or not os.path.exists(model_runner):
        return []
    from . import core
    schema = write_model_schema(corpus)
    mism = []
    for feat, per in outputs.items():
        args = ["--schema", schema] + (MODEL_EDV_ARGS if feat == "edv" else [])
        flat, idx = [], []
        nlong = 0
        for ci in sorted(per):
            for l, o in per[ci]:
                ml = model_line(corpus, l)
                if ml is None:
                    continue
                # the extracted model works on unary naturals and byte lists: its cost is quadratic in the input
                # length (10 s for 60 KB).  Inputs beyond MODEL_MAX_HEX hex digits go to the model only every
                # MODEL_LONG_EVERY-th time (deterministic), never beyond MODEL_HARD_MAX_HEX; the implementation and
                # the reference oracles see all of them.
                if len(ml) > MODEL_MAX_HEX:
                    nlong += 1
                    if len(ml) > MODEL_HARD_MAX_HEX or nlong % MODEL_LONG_EVERY:
                        MODEL_STATS["skipped_long"] += 1
                        continue
                flat.append(ml); idx.append((l, o))
        MODEL_STATS["lines"] += len(flat)
        mouts = core.run_lines(model_runner, flat, args=args)
        for (l, o), mo in zip(idx, mouts):
            d = compare_model(corpus, l, o, mo or "")
            if d:
                mism.append((l, o[:2000], (mo or "")[:2000] + "   <- " + d, feat))
    return mism


# ======================================================================================
# 8. case generators and the oracle entry points of the checks
# ======================================================================================

def _n(tier, quick, thorough=None):
    return quick if tier == "quick" else (thorough if thorough is not None else quick * 20)


def _values(msg, rng, n, depth=3):
    vals = gen_cover(msg, rng)
    while len(vals) < n:
        vals.append(gen_value(msg, rng, rng.choice([0, 1, 2, depth, depth])))
    return vals


def _replay_cases(replay):
    if "cases" in replay:
        return ["\n".join(replay["cases"])] if all("\n" not in c for c in replay["cases"]) else list(replay["cases"])
    return [replay["case"]]


# round-trip deviations of the unchanged tree (see KNOWN_DEVIATION_CLASSES) belong to C05 / C06; the
# totality and merge oracles see them too (they compare values wherever both decoders accept) but only
# count them
ROUNDTRIP_ONLY = ("map-negzero-default", "wrapper-negzero-default")


def _finish(chk, corpus, gen_bins, model_runner, cases, nontrivial, reenc, dist, suppress=()):
    failing, outputs = run_cases(corpus, gen_bins, cases, reenc=reenc)
    if suppress:
        kept = [f for f in failing if f[1].split(":", 1)[0] not in suppress]
        dist = dict(dist, suppressed_roundtrip_deviations=len(failing) - len(kept))
        failing = kept
    mism = run_model(corpus, model_runner, cases, outputs)
    for c, nt in zip(cases, nontrivial):
        chk.count(c, nt)
    for c in (cases[:1] + cases[len(cases) // 2:len(cases) // 2 + 1] + cases[-1:]):
        chk.sample(c[:300])
    statuses = {}
    for feat, per in outputs.items():
        for los in per.values():
            for l, o in los:
                k = o.split(" ", 2)
                key = k[0] + ((" " + k[1]) if k[0] == "ERR" and len(k) > 1 else "")
                statuses[key] = statuses.get(key, 0) + 1
    dist = dict(dist)
    dist["driver_lines"] = sum(len(c.split("\n")) for c in cases)
    dist["builds"] = sorted(gen_bins)
    dist["outcomes"] = statuses
    dist["known_finding_attribution"] = {k: dict(v) for k, v in KNOWN_STATS.items()}
    dist["accepted_where_reference_rejects"] = dict(LENIENT)
    dist["model_lines_compared"] = MODEL_STATS["lines"]
    dist["model_lines_skipped_long_input"] = MODEL_STATS["skipped_long"]
    chk.cov.setdefault("distribution", {}).update(dist)
    chk.cov["disagreements_checked"] = chk.cov.get("disagreements_checked", 0) + dist["driver_lines"] * len(gen_bins)
    return failing, mism, len(cases)


def _pos_table(acc):
    out = {}
    for (pos, ty), n in sorted(acc.items()):
        out.setdefault(pos, {})[ty] = n
    return out


REQUIRED_POSITIONS = (
    [("singular", t) for t in SCALARS + ["enum", "message"]] +
    [("optional", t) for t in SCALARS + ["enum", "message"]] +
    [("repeated-packed-decl", t) for t in NUMERIC + ["enum"]] +
    [("repeated-unpacked-decl", t) for t in NUMERIC + ["enum"]] +
    [("repeated", t) for t in ["string", "bytes", "message"]] +
    [("map-key", t) for t in MAP_KEY_TYPES] +
    [("map-value", t) for t in SCALARS + ["enum", "message"]] +
    [("oneof", t) for t in SCALARS + ["enum", "message"]])


def run_c05(chk, prop, corpus, gen_bins, model_runner, rng, tier, replay=None):
    """C05 round trip through the generated code: value -> reference encoder (canonical) -> pilota
    decode -> {:?} == value; pilota's re-encoding E reference-decodes to the value; L == len(E); the
    encode APIs agree; decoding E with pilota again reproduces the rendering and the bytes.
    Both feature builds.  -> (failing, mismatches, ncases)"""
    acc = {}
    if replay is not None:
        cases = _replay_cases(replay)
        nt = [True] * len(cases)
    else:
        cases, nt = [], []
        per = _n(tier, 45, 900)
        for m in corpus:
            for v in _values(m, rng, per if m.wrapper is None else max(12, per // 3)):
                st = rng.choice([CANONICAL, CANONICAL, PILOTA_LIKE])
                cases.append(ann("dec %d %s" % (m.idx, hx(ref_encode(m, v, rng, st))), k="valid", s=st.name))
                nt.append(v != default_value(m))
                positions(m, v, acc)
        gcases, gkinds = gen_group_cases(corpus, rng, tier)
        cases += gcases; nt += [True] * len(gcases)
        acc_g = gkinds
    dist = dict(positions=_pos_table(acc), messages=len(corpus),
                rule_note="k=valid lines + a second pass decoding pilota's own bytes; grp / grpdec lines = the group codec through GroupHolder<M>")
    if replay is None:
        dist["group_codec"] = acc_g
    return _finish(chk, corpus, gen_bins, model_runner, cases, nt, True, dist)


def run_c06(chk, prop, corpus, gen_bins, model_runner, rng, tier, replay=None):
    """C06 interop.  in: every style of the reference encoder (field order shuffled, packed /
    unpacked / mixed chunks, defaults present or omitted, map entry variations) decodes via pilota to
    the value.  out: pilota's bytes E reference-decode to the value (part of the verdict on every
    line).  The per-position counts of every scalar type are recorded in the distribution and
    positions that were never exercised are listed under positions_missing."""
    acc, styles = {}, {}
    if replay is not None:
        cases = _replay_cases(replay)
        nt = [True] * len(cases)
    else:
        cases, nt = [], []
        per = _n(tier, 10, 200)
        for m in corpus:
            for v in _values(m, rng, per if m.wrapper is None else max(6, per // 3)):
                positions(m, v, acc)
                seen = set()
                for st in STYLES:
                    e = ref_encode(m, v, rng, st)
                    if e in seen and st.name != "canonical":
                        continue                       # this style changes nothing for this value
                    seen.add(e)
                    styles[st.name] = styles.get(st.name, 0) + 1
                    cases.append(ann("dec %d %s" % (m.idx, hx(e)), k="valid", s=st.name))
                    nt.append(v != default_value(m))
        gcases, gkinds = gen_group_cases(corpus, rng, tier)
        gsel = [c for c in gcases if get_ann(c).get("k") == "grp-in"]
        cases += gsel; nt += [True] * len(gsel)
        styles["group-holder-in"] = len(gsel)
    missing = ["%s/%s" % p for p in REQUIRED_POSITIONS if not acc.get(p)] if replay is None else []
    dist = dict(positions=_pos_table(acc), positions_missing=missing, styles=styles, messages=len(corpus))
    return _finish(chk, corpus, gen_bins, model_runner, cases, nt, False, dist)


# ---- C10 inputs

def len_prefix_sites(msg, data, base=0, out=None, depth=0):
    """(offset, size, value) of the length varint of every LEN record of a VALID encoding, at every
    nesting level the schema describes"""
    out = [] if out is None else out
    rd = _Rd(data)
    try:
        while rd.more():
            n, wt = rd.key()
            if wt == WT_LEN:
                p0 = rd.p
                ln = rd.varint()
                out.append((base + p0, rd.p - p0, ln))
                body_at = rd.p
                body = rd.take(ln)
                ent = msg.by_number.get(n) if msg is not None else None
                if ent is not None and depth < 8:
                    sl = msg.slots[ent[0]]
                    x = sl.members[ent[1]] if sl.kind == "u" else sl
                    if sl.kind == "m":
                        # the entry: value field 2 may be a message
                        r2 = _Rd(body)
                        while r2.more():
                            n2, wt2 = r2.key()
                            if wt2 == WT_LEN:
                                q0 = r2.p
                                l2 = r2.varint()
                                out.append((base + body_at + q0, r2.p - q0, l2))
                                b2_at = r2.p
                                b2 = r2.take(l2)
                                if n2 == 2 and sl.ty == "message":
                                    len_prefix_sites(sl.ref, b2, base + body_at + b2_at, out, depth + 1)
                            else:
                                _skip(r2, n2, wt2, 50)
                    elif x.ty == "message":
                        len_prefix_sites(x.ref, body, base + body_at, out, depth + 1)
            else:
                _skip(rd, n, wt, 50)
    except RefError:
        pass
    return out


def nest_message(field_path, depth, leaf=b""):
    """depth levels of embedded messages: field_path is a list of field numbers used cyclically"""
    body = leaf
    for i in range(depth - 1, -1, -1):
        body = enc_tag(field_path[i % len(field_path)], 2) + enc_varint(len(body)) + body
    return body


def nest_map(field, depth, key=b"", leaf=b""):
    """depth levels of map<_, Msg> entries: field { [key] value(2) = { field {...} } }"""
    body = leaf
    for _ in range(depth):
        val = enc_tag(2, 2) + enc_varint(len(body)) + body
        entry = key + val
        body = enc_tag(field, 2) + enc_varint(len(entry)) + entry
    return body


def nest_group(number, depth, leaf=b""):
    return b"".join(enc_tag(number, 3) for _ in range(depth)) + leaf + b"".join(enc_tag(number, 4) for _ in range(depth))


def recursion_paths(corpus):
    """(msg, kind, field numbers) for every way the corpus can nest without bound"""
    by = {m.name: m for m in corpus}
    P = []
    def add(name, kind, nums):
        P.append((by[name], kind, nums))
    add("pv.nest.deep.Tree", "msg", [2])                # optional self
    add("pv.nest.deep.Tree", "msg", [3])                # repeated self
    add("pv.nest.deep.Tree", "map", [4])                # map value self
    add("pv.nest.deep.Ping", "msg", [1, 1])             # Ping.pong / Pong.ping
    add("pv.nest.deep.Ping", "msg", [3, 1])             # repeated Pong / Pong.ping
    add("pv.maps.MapVals", "map", [2048])
    add("Opt2", "msg", [MAX_FIELD])
    add("pv2.rec.Node", "msg", [3])
    add("pv2.rec.Node", "msg", [2, 2])                  # edges / Edge.target
    add("pv2.rec.Node", "map", [5])
    add("pv2.rec.Chain", "msg", [1, 1])
    return P


def _c10_cases(corpus, rng, tier):
    cases, kinds = [], {}
    def add(line, **kw):
        cases.append(ann(line, **kw))
        kinds[kw["k"] + ":" + kw.get("g", "")] = kinds.get(kw["k"] + ":" + kw.get("g", ""), 0) + 1
    msgs = corpus
    # (a) arbitrary bytes
    for _ in range(_n(tier, 600)):
        m = rng.choice(msgs)
        n = rng.choice([0, 1, 2, 3, 4, 8, 16, 40, 100, 400])
        add("decq %d %s" % (m.idx, hx(bytes(rng.getrandbits(8) for _ in range(n)))), k="fuzz", g="random")
    # (b) plausible records: declared field numbers, any wire type, random payloads
    for _ in range(_n(tier, 600)):
        m = rng.choice(msgs)
        nums = list(m.by_number) or [1]
        b = bytearray()
        for _ in range(rng.choice([1, 2, 3, 6])):
            b += enc_tag(rng.choice(nums + [rng.randrange(1, 50)]), rng.choice([0, 1, 2, 2, 2, 3, 4, 5, 6, 7]))
            b += bytes(rng.getrandbits(8) if rng.random() < 0.7 else rng.choice([0, 1, 0x80, 0xff]) for _ in range(rng.choice([0, 1, 2, 4, 8, 12])))
        add("decq %d %s" % (m.idx, hx(bytes(b))), k="fuzz", g="records")
    # (c) mutations of valid encodings
    for _ in range(_n(tier, 260)):
        m = rng.choice(msgs)
        v = gen_value(m, rng, rng.choice([1, 2, 3]), 0.6)
        e = ref_encode(m, v, rng, rng.choice(STYLES))
        if not e:
            continue
        cmd = rng.choice(["decq", "decq", "decq", "mergeq"])
        def emit(b, g, k="fuzz"):
            if cmd == "mergeq":
                cut = rng.randrange(len(e) + 1)
                add("mergeq %d %s %s" % (m.idx, hx(e), hx(b)), k=k, g=g)
            else:
                add("decq %d %s" % (m.idx, hx(b)), k=k, g=g)
        if len(e) <= 24:
            for i in range(len(e)):
                emit(e[:i], "truncate")
        else:
            for i in sorted(rng.sample(range(len(e)), 6)):
                emit(e[:i], "truncate")
        for _ in range(4):
            b = bytearray(e)
            for _ in range(rng.choice([1, 1, 2, 3])):
                b[rng.randrange(len(b))] ^= 1 << rng.randrange(8)
            emit(bytes(b), "bitflip")
        b = bytearray(e); b[rng.randrange(len(b))] = rng.choice([0, 0x7f, 0x80, 0xff]); emit(bytes(b), "byte")
        i = rng.randrange(len(e) + 1); emit(e[:i] + bytes(rng.getrandbits(8) for _ in range(rng.choice([1, 2, 5]))) + e[i:], "insert")
        sites = len_prefix_sites(m, e)
        for (off, sz, ln) in (rng.sample(sites, min(3, len(sites)))):
            remaining = len(e) - (off + sz)
            for newlen in (ln + 1, max(0, ln - 1), rng.choice([0, 127, 128])):
                emit(e[:off] + enc_varint(newlen) + e[off + sz:], "len-off-by")
            for newlen in (remaining + 1, rng.choice([(1 << 31) - 1, 1 << 31, 1 << 32, (1 << 35) + 3, 1 << 63, M64])):
                if cmd == "decq":
                    # the rest of the input is shorter than the prefix claims -> underflow, nothing copied
                    add("decq %d %s" % (m.idx, hx(e[:off] + enc_varint(newlen) + e[off + sz:])), k="lenprefix", g="len-beyond-end")
    # a lone length prefix with nothing (or too little) behind it, for every LEN-typed field
    for m in msgs:
        for num, (si, mi) in sorted(m.by_number.items()):
            sl = m.slots[si]
            x = sl.members[mi] if sl.kind == "u" else sl
            if sl.kind == "m" or x.ty in ("string", "bytes", "message") or (sl.kind == "r" and _packable(sl.ty)):
                for claim, have in ((1, 0), (5, 4), (M32, 3), (M64, 0)):
                    add("decq %d %s" % (m.idx, hx(enc_tag(num, 2) + enc_varint(claim) + b"\x00" * have)), k="lenprefix", g="lone-prefix", small=1)
        add("decq %d %s" % (m.idx, hx(enc_tag(MAX_FIELD - 1 if (MAX_FIELD - 1) not in m.by_number else 77, 2) + enc_varint(1 << 40))), k="lenprefix", g="unknown-prefix", small=1)
        add("declen %d %s" % (m.idx, hx(enc_varint(rng.choice([1, 200, 1 << 33])))), k="lenprefix", g="declen-prefix", small=1)
    # (d) nesting depth 1..300
    depths = sorted(set([1, 2, 3, 49, 50, 51, 52, 98, 99, 100, 101, 102, 103, 150, 199, 200, 201, 299, 300] +
                        [rng.randrange(1, 301) for _ in range(_n(tier, 10, 120))]))
    if tier != "quick":
        depths = list(range(1, 301))
    for (m, kind, nums) in recursion_paths(corpus):
        for d in depths:
            if kind == "msg":
                b = nest_message(nums, d)
            else:
                b = nest_map(nums[0], d)
            add("decq %d %s" % (m.idx, hx(b)), k="depth", g=kind, d=d)
    for m in rng.sample(msgs, _n(tier, 5, len(msgs))):
        unk = next(n for n in (9, 77, 1234, MAX_FIELD - 3) if n not in m.by_number)
        for d in depths:
            add("decq %d %s" % (m.idx, hx(nest_group(unk, d))), k="depth", g="group", d=d)
    # groups below messages: the budget is shared
    tree = msg_by_name(corpus, "pv.nest.deep.Tree")
    for a in (1, 30, 50, 99, 100):
        for g in (1, 2, 50, 51, 70, 71, 100 - a, 101 - a, 102 - a, 200):
            if g > 0:
                add("decq %d %s" % (tree.idx, hx(nest_message([2], a, nest_group(77, g)))), k="depth", g="msg+group", d=a + g)
    # (d') valid but non-canonical scalars a parser has to accept: 32-bit types carrying more than 32
    # bits (truncated), bool > 1, varints padded with continuation bytes (value, tag and length)
    def pad(n, k=2):
        b = bytearray(enc_varint(n)); b[-1] |= 0x80
        return bytes(b) + b"\x80" * (k - 1) + b"\x00"
    for m in msgs:
        for num, (si, mi) in sorted(m.by_number.items()):
            sl = m.slots[si]
            x = sl.members[mi] if sl.kind == "u" else sl
            if sl.kind == "m" or x.ty == "message" or rng.random() > (0.35 if tier == "quick" else 1.0):
                continue
            if WIRE_TYPE[x.ty] == 0:
                val = rng.getrandbits(32)
                wide = val | (rng.getrandbits(31) << 32) | (rng.getrandbits(1) << 63)
                for body in (enc_varint(wide), pad(val), pad(val, rng.choice([1, 3, 5])) if val < (1 << 28) else pad(val & 0xff), enc_varint(rng.choice([2, 256, 1 << 63, M64]))):
                    add("decq %d %s" % (m.idx, hx(enc_tag(num, 0) + body)), k="fuzz", g="noncanonical")
                add("decq %d %s" % (m.idx, hx(pad((num << 3) | 0) + enc_varint(val & 0x7f))), k="fuzz", g="noncanonical")
            elif x.ty in ("string", "bytes"):
                add("decq %d %s" % (m.idx, hx(enc_tag(num, 2) + pad(3) + b"abc")), k="fuzz", g="noncanonical")
                add("decq %d %s" % (m.idx, hx(enc_tag(num, 2) + b"\x04\xff\xfe\xc3\x28")), k="fuzz", g="invalid-utf8")
    # (e) length-delimited framing
    for _ in range(_n(tier, 150)):
        m = rng.choice(msgs)
        v = gen_value(m, rng, 2, 0.5)
        e = ref_encode(m, v, rng)
        add("declen %d %s" % (m.idx, hx(enc_varint(len(e)) + e + bytes(rng.getrandbits(8) for _ in range(rng.choice([0, 0, 3]))))), k="fuzz", g="declen-valid")
        add("declen %d %s" % (m.idx, hx(enc_varint(len(e) + rng.choice([1, 2, 1000])) + e)), k="lenprefix", g="declen-short")
        add("declen %d %s" % (m.idx, hx(bytes(rng.getrandbits(8) for _ in range(rng.choice([0, 1, 3, 10, 30]))))), k="fuzz", g="declen-random")
    for _ in range(_n(tier, 120)):
        n = rng.choice([0, 1, 2, 5, 9, 10, 11, 12])
        b = bytes((rng.getrandbits(8) | (0x80 if rng.random() < 0.7 else 0)) for _ in range(n))
        add("lendelim %s" % hx(b), k="fuzz", g="lendelim")
    for b in (b"", b"\x00", b"\x7f", b"\x80", b"\x80\x01", b"\xff" * 9 + b"\x01", b"\xff" * 9 + b"\x02", b"\xff" * 10, b"\x80" * 9 + b"\x00",
              b"\x80" * 10 + b"\x00", b"\xff" * 9 + b"\x7f", b"\x80\x80\x80\x80\x80\x80\x80\x80\x80\x01", enc_varint(M64), enc_varint(1 << 63)):
        add("lendelim %s" % hx(b), k="fuzz", g="lendelim")
    return cases, kinds


def run_c10(chk, prop, corpus, gen_bins, model_runner, rng, tier, replay=None):
    """C10 totality / boundedness of the generated decoders: arbitrary bytes, truncations, bit
    flips, length-prefix corruptions of valid encodings, nesting depth 1..300 (messages, map-value
    messages, unknown groups, mixed), length-delimited framing.  Never PANIC / crash, peak heap
    <= K*len + 65536 (K = max(64, 6 * largest reachable size_of)), nesting beyond 100 -> ERR recursion
    (and within 100 accepted), a length prefix beyond the end of the input -> ERR underflow (peak
    <= 4096 when the input is nothing but the prefix)."""
    if replay is not None:
        cases = _replay_cases(replay)
        kinds = {}
    else:
        cases, kinds = _c10_cases(corpus, rng, tier)
        g = gen_group_malformed(corpus, rng, tier)
        cases += g; kinds["group-holder"] = len(g)
        # invalid UTF-8 in every `string` position (F-10b): a two-byte string ff fe in the first string field of each message
        nutf = 0
        for m in corpus:
            if m.wrapper is not None:
                continue
            for sl in m.slots:
                if sl.kind in ("s", "o", "r") and sl.ty == "string":
                    cases.append(ann("decq %d %s" % (m.idx, hx(enc_tag(sl.number, WT_LEN) + b"\x02\xff\xfe")), k="fuzz", g="bad-utf8"))
                    nutf += 1
                    break
        kinds["invalid-utf8-string"] = nutf
    nt = [len(strip_ann(c)) > 12 for c in cases]
    UTF8_ORACLE[0] = True
    try:
        return _finish(chk, corpus, gen_bins, model_runner, cases, nt, False, dict(kinds=kinds), suppress=ROUNDTRIP_ONLY)
    finally:
        UTF8_ORACLE[0] = False


# ---- C18

def _c18_cases(corpus, rng, tier):
    cases, kinds = [], {}
    def add(lines, g):
        cases.append("\n".join(lines))
        kinds[g] = kinds.get(g, 0) + 1
    per = _n(tier, 14, 280)
    for m in corpus:
        for _ in range(per if m.wrapper is None else max(4, per // 4)):
            d = rng.choice([0, 1, 2, 3])
            x, y = gen_value(m, rng, d, 0.6), gen_value(m, rng, d, 0.6)
            sx, sy = rng.choice([CANONICAL, PILOTA_LIKE, STYLE_BY_NAME["wild"]]), rng.choice([CANONICAL, PILOTA_LIKE, STYLE_BY_NAME["wild"]])
            rx, ry = ref_records(m, x, rng, sx), ref_records(m, y, rng, sy)
            e1, e2 = b"".join(b for _, b in rx), b"".join(b for _, b in ry)
            lines = [ann("dec %d %s" % (m.idx, hx(e1 + e2)), k="valid", eq=1, g="concat"),
                     ann("merge %d %s %s" % (m.idx, hx(e1), hx(e2)), k="valid", eq=1, g="merge")]
            # interleavings that keep, per field (per oneof), x's records before y's and each side's order
            for _ in range(2):
                il = _interleave_groups([(0, g, b) for g, b in rx] + [(0, g, b) for g, b in ry], rng)
                lines.append(ann("dec %d %s" % (m.idx, hx(b"".join(b for _, _, b in il))), k="valid", eq=1, g="interleave"))
            # ... and the same with an unknown field at every record boundary
            st_u = Style("u", unknowns="all")
            il = _with_unknowns(m, [b for _, b in rx] + [b for _, b in ry], rng, st_u)
            lines.append(ann("dec %d %s" % (m.idx, hx(b"".join(il))), k="valid", eq=1, g="concat+unknowns"))
            add(lines, "pair")
            # the value-level statement of merge, checked on the reference side (and thereby on pilota)
            if sy is PILOTA_LIKE or sy is CANONICAL:
                want = ref_merge_spec(m, x, y, omit_defaults=(sy is CANONICAL))
                got = ref_decode(m, e1 + e2)
                dd = compare(want, got)
                if dd:
                    raise AssertionError("reference codec inconsistent with ref_merge_spec on %s: %s" % (m.name, dd))
        # unknown fields at every boundary of every level, single value
        for _ in range(_n(tier, 6, 120) if m.wrapper is None else 2):
            x = gen_value(m, rng, rng.choice([1, 2, 3]), 0.5)
            e = ref_encode(m, x, rng, CANONICAL)
            eu = ref_encode(m, x, rng, UNKNOWN_ALL)
            es = ref_encode(m, x, rng, Style("split", split=0.7, order="shuffle"))
            add([ann("dec %d %s" % (m.idx, hx(e)), k="valid", eq=1, g="plain"),
                 ann("dec %d %s" % (m.idx, hx(eu)), k="valid", eq=1, g="unknowns-everywhere"),
                 ann("dec %d %s" % (m.idx, hx(es)), k="valid", eq=1, g="split-embedded"),
                 ann("merge %d - %s" % (m.idx, hx(eu)), k="valid", eq=1, g="merge-into-default")], "unknowns")
    # unknown fields right at the nesting limit: level 100 is legal, so an unknown field there must
    # be skipped like anywhere else
    tree = msg_by_name(corpus, "pv.nest.deep.Tree")
    for lvl in (1, 50, 98, 99, 100):
        for unk in (enc_tag(77, 0) + b"\x05", enc_tag(77, 5) + b"\0\0\0\0", enc_tag(77, 2) + b"\x01x", enc_tag(77, 1) + b"\0" * 8):
            add([ann("dec %d %s" % (tree.idx, hx(nest_message([2], lvl, enc_tag(1, 0) + b"\x07"))), k="valid", eq=1, g="deep-plain"),
                 ann("dec %d %s" % (tree.idx, hx(nest_message([2], lvl, unk + enc_tag(1, 0) + b"\x07"))), k="unk-at-limit", eq=1, g="deep-unknown", lvl=lvl)],
                "unknown-at-level-%d" % lvl)
    for lvl in (1, 98, 99, 100):
        add([ann("dec 0 %s" % hx(nest_group(5, lvl)), k="valid", eq=1, g="groups"),
             ann("dec 0 %s" % hx(nest_group(5, lvl, enc_tag(6, 0) + b"\x01")), k="unk-at-limit", eq=1, g="groups+scalar", lvl=lvl)],
            "scalar-in-group-level-%d" % lvl)
    return cases, kinds


def run_c18(chk, prop, corpus, gen_bins, model_runner, rng, tier, replay=None):
    """C18 merge semantics: for pairs of values, decode(e1 ++ e2) == merge(decode e1, e2) == the
    reference decoding (== ref_merge_spec); interleavings that preserve the per-field record order
    and an unknown field (every wire type, groups included) at every record boundary of every
    nesting level leave the decoded value unchanged."""
    if replay is not None:
        cases, kinds = _replay_cases(replay), {}
    else:
        cases, kinds = _c18_cases(corpus, rng, tier)
    nt = [True] * len(cases)
    return _finish(chk, corpus, gen_bins, model_runner, cases, nt, False, dict(kinds=kinds), suppress=ROUNDTRIP_ONLY)


# ======================================================================================
# 9. self test:  python3 -m pv.pbgen --selftest [--tier quick|thorough] [--seed N]
# ======================================================================================

class _FakeChk:
    def __init__(self):
        self.cov = dict(samples=[], distribution={})
        self.n = 0
        self.nontrivial = 0
    def count(self, case, nontrivial=True):
        self.n += 1
        self.nontrivial += 1 if nontrivial else 0
    def sample(self, x):
        self.cov["samples"].append(x)


def selftest(tier="quick", seed=1, build=True, model_runner=None, verbose=True):
    import time
    t0 = time.time()
    stale = schemas_stale()
    if stale:
        print("schema JSON out of date (run python3 -m pv.pbgen --write-schemas):", stale)
        return 1
    corpus = load_corpus()
    rng = random.Random(seed)
    # reference codec against itself and against the model token syntax
    n = 0
    for m in corpus:
        for v in _values(m, rng, 40):
            for st in STYLES + [UNKNOWN_ALL, PILOTA_LIKE, Style("split", split=0.7)]:
                d = compare(v, ref_decode(m, ref_encode(m, v, rng, st)))
                if d:
                    print("reference codec does not round trip: %s style %s: %s" % (m.name, st.name, d))
                    return 1
                n += 1
            if compare(parse_model_value(m, model_value_tokens(m, v)), v):
                print("model value syntax does not round trip for", m.name)
                return 1
    if verbose:
        print("reference codec self-consistent on %d encodings (%.1fs)" % (n, time.time() - t0))
    if build:
        bins, log = build_gen_bins()
        if log:
            print("build failed:\n" + log)
            return 1
    else:
        bins = {f: gen_bin_path(f) for f in ("plain", "edv")}
    if verbose:
        print("driver binaries:", bins, "(%.1fs)" % (time.time() - t0))
    rc = 0
    for name, fn in (("C05", run_c05), ("C06", run_c06), ("C10", run_c10), ("C18", run_c18)):
        t1 = time.time()
        chk = _FakeChk()
        failing, mism, ncases = fn(chk, name, corpus, bins, model_runner, random.Random(seed), tier, None)
        classes = {}
        for c, why, o in failing:
            k = why.split(":", 1)[0]
            classes.setdefault(k, []).append((c, why, o))
        print("%s: %d cases, %d driver lines, %d failing %s, %d model mismatches, %.1fs" % (
            name, ncases, chk.cov["distribution"].get("driver_lines", 0), len(failing),
            {k: len(v) for k, v in classes.items()}, len(mism), time.time() - t1))
        if verbose:
            d = chk.cov["distribution"]
            print("   outcomes:", d.get("outcomes"))
            if d.get("positions_missing"):
                print("   positions never exercised:", d["positions_missing"])
            for k, v in classes.items():
                c, why, o = v[0]
                print("   e.g. [%s] %s\n        case: %s\n        out:  %s" % (k, why[:300], c[:400].replace("\n", "\n              "), o[:300]))
            for l, o, mo, feat in mism[:3]:
                print("   model mismatch [%s]: %s\n      impl  %s\n      model %s" % (feat, l[:200], o[:200], mo[:300]))
        unexpected = [k for k in classes if k not in KNOWN_DEVIATION_CLASSES]
        if unexpected:
            rc = 1
    print("selftest %s (%.1fs)" % ("FAILED" if rc else "passed (only known deviation classes reported)", time.time() - t0))
    return rc


# deviations of the unchanged tree from the protobuf spec that the oracles report under a stable
# class name (first word of `why`); the checks map them to known findings
KNOWN_DEVIATION_CLASSES = {
    "wrapper-negzero-default": "Message for f32 / f64 (pilota/src/prost/types.rs, FloatValue / DoubleValue) encodes nothing when "
                               "`*self != 0.0` is false, which it is for -0.0: the sign is lost on a round trip (both feature builds)",
    "map-negzero-default": "a -0.0 float/double map value is treated as the default and left off the wire "
                           "(pilota/src/prost/encoding.rs, map encode_with_default: `val == val_default`), so it reads back as +0.0; "
                           "only without feature pb-encode-default-value",
    "unknown-at-depth-limit": "skip_field checks the recursion budget for EVERY unknown field, scalars included "
                              "(pilota/src/prost/encoding.rs skip_field: ctx.limit_reached()?), so an unknown field inside the "
                              "100th nesting level (which is accepted) is rejected with `recursion limit reached`",
}


def main(argv):
    import argparse
    ap = argparse.ArgumentParser(prog="python3 -m pv.pbgen")
    ap.add_argument("--selftest", action="store_true")
    ap.add_argument("--write-schemas", action="store_true")
    ap.add_argument("--model-schema", action="store_true", help="print the schema text for the model runner")
    ap.add_argument("--list", action="store_true")
    ap.add_argument("--no-build", action="store_true")
    ap.add_argument("--tier", default="quick")
    ap.add_argument("--seed", type=int, default=1)
    ap.add_argument("--model-runner", default=None)
    a = ap.parse_args(argv)
    if a.write_schemas:
        for f in write_schemas():
            print("wrote", f)
        return 0
    if a.model_schema:
        sys.stdout.write(model_schema_text(load_corpus(), include_wrappers=True))
        return 0
    if a.list:
        for m in load_corpus():
            print(m.idx, m.name, m.rust_path, "".join(s.kind for s in m.slots))
        return 0
    if a.selftest:
        return selftest(a.tier, a.seed, build=not a.no_build, model_runner=a.model_runner)
    ap.print_help()
    return 2


if __name__ == "__main__":
    sys.exit(main(sys.argv[1:]))
