(* Schedule independence, for real: every primitive read of the async protocols, written through poll_read over an event
   list (chunks, empty chunks, Pending tokens, EOF), returns what the read of the concatenated bytes returns -- value, error,
   and the bytes consumed (the remaining events deliver exactly the remaining bytes) -- and so does every decoder that uses
   the stream only through these reads. *)
From Coq Require Import Lia.
From PV Require Import Thrift.AsyncEv Proofs.AsyncEvP.
From PVGen Require Import GenAsync GenEvents.
Open Scope Z_scope.

(* the lemmas about the stream itself (poll_*, ev_take_spec, ev_rd_var_spec, ev_read_to_end_spec, ev_read_exact_to_vec_spec) are in
   PV.Proofs.AsyncEvP, with the definitions *)

Theorem ev_varint_spec m es :
  match ev_varint m es with
  | Ok (z, es') => a_varint m (mkS (bytes_of es) r0) = Ok (z, mkS (bytes_of es') r0)
  | Err e => a_varint m (mkS (bytes_of es) r0) = Err e
  | Panic st => a_varint m (mkS (bytes_of es) r0) = Panic st
  end.
Proof.
  unfold ev_varint, a_varint, read_var_u64. cbn [rbuf]. pose proof (ev_rd_var_spec m 0 0 es) as H.
  destruct (ev_rd_var m 0 0 es) as [[z es']|e|st]; rewrite H; reflexivity.
Qed.

(* ---------- every decoder that uses the stream only through these reads ---------- *)
Theorem run_schedule_free {A} step : forall (q : sprog A) es,
  match run_e step q es with
  | Ok (a, es') => run_b q (bytes_of es) = Ok (a, bytes_of es')
  | Err e => run_b q (bytes_of es) = Err e
  | Panic st => run_b q (bytes_of es) = Panic st
  end.
Proof.
  induction q as [a|e|n k IH|m k IH|n k IH]; intros es; cbn [run_e run_b]; try reflexivity.
  - pose proof (ev_take_spec n es) as H. destruct (ev_take n es) as [[a es']|]; rewrite H; [apply IH|reflexivity].
  - pose proof (ev_varint_spec m es) as H. unfold a_varint in H. cbn [rbuf] in H.
    destruct (ev_varint m es) as [[z es']|e|st]; destruct (read_var_u64 m (bytes_of es)) as [[z0 r0']|e0|st0]; try discriminate H.
    + cbn in H. inversion H; subst. apply IH.
    + injection H as <-. reflexivity.
    + injection H as ->. reflexivity.
  - pose proof (ev_read_exact_to_vec_spec step n es) as H. destruct (ev_read_exact_to_vec step n es) as [[a es']|]; rewrite H; [apply IH|reflexivity].
Qed.

(* any two delivery schedules of the same bytes: same value / error, same bytes left in the stream *)
Corollary run_two_schedules {A} step1 step2 (q : sprog A) es1 es2 : bytes_of es1 = bytes_of es2 ->
  match run_e step1 q es1, run_e step2 q es2 with
  | Ok (a1, r1), Ok (a2, r2) => a1 = a2 /\ bytes_of r1 = bytes_of r2
  | Err e1, Err e2 => e1 = e2
  | Panic s1, Panic s2 => s1 = s2
  | _, _ => False
  end.
Proof.
  intros Hb. pose proof (run_schedule_free step1 q es1) as H1. pose proof (run_schedule_free step2 q es2) as H2. rewrite Hb in H1.
  destruct (run_e step1 q es1) as [[a1 r1]|e1|s1]; destruct (run_e step2 q es2) as [[a2 r2]|e2|s2]; rewrite H1 in H2; try discriminate H2.
  - injection H2 as -> ->. split; reflexivity.
  - injection H2 as ->. reflexivity.
  - injection H2 as ->. reflexivity.
Qed.

(* the reads ARE the primitives of PV.Thrift.Async on the delivered bytes *)
Lemma run_b_take n l rc : a_take n (mkS l rc) = match run_b (STake n SRet) l with Ok (a, r) => Ok (a, mkS r rc) | Err e => Err e | Panic st => Panic st end.
Proof. unfold a_take. cbn [rbuf run_b]. destruct (take n l) as [[a r]|]; reflexivity. Qed.
Lemma run_b_varint m l rc : a_varint m (mkS l rc) = match run_b (SVarint m SRet) l with Ok (a, r) => Ok (a, mkS r rc) | Err e => Err e | Panic st => Panic st end.
Proof. unfold a_varint. cbn [rbuf run_b]. destruct (read_var_u64 m l) as [[a r]|e|st]; reflexivity. Qed.

(* ---------- non-vacuity, and the seeded variants FAIL the lemma ---------- *)
Definition es_x : stream := [Chunk [x01]; Pend; Chunk []; Chunk [x02; x03]; Pend; Chunk [x04]].

Example ev_take_nonvacuous :
  bytes_of es_x = [x01; x02; x03; x04] /\
  ev_take 2 es_x = Some ([x01; x02], [Chunk [x03]; Pend; Chunk [x04]]) /\
  ev_take 4 es_x = Some ([x01; x02; x03; x04], []) /\ ev_take 5 es_x = None.
Proof. repeat split; vm_compute; reflexivity. Qed.

(* seeded C12d: what arrived before a Pending is lost -- the read returns other bytes than the stream's first two *)
Example lossy_read_refuted :
  ev_read_exact_lossy (ev_fuel 2 es_x) 2 2 [] es_x = Some ([x02; x03], [Pend; Chunk [x04]]) /\
  take 2 (bytes_of es_x) = Some ([x01; x02], [x03; x04]).
Proof. split; vm_compute; reflexivity. Qed.

(* seeded C12b: without the Take limit a poll hands out bytes that belong to what FOLLOWS the value: bytes are consumed past the message *)
Example overread_refuted :
  let es := [Chunk [x01; x02; x03; x04; x05; x06]] in
  ev_read_vec_overread (fun _ => 4%nat) 2 es = Some ([x01; x02], []) /\
  take 2 (bytes_of es) = Some ([x01; x02], [x03; x04; x05; x06]).
Proof. split; vm_compute; reflexivity. Qed.
