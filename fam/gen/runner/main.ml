(* gen model runner: `runner <schema.txt>`; one case line per stdin line, one result line per stdout line
   (formats: fam/gen/FORMAT.md).  Hand-written glue around the extracted model (trusted). *)
open Model
open Util

(* ---------- schema file ---------- *)
let names : (string, int) Hashtbl.t = Hashtbl.create 64

let rec parse_ty (t : toks) : ty =
  match next t with
  | "bool" -> TyBool | "i8" -> TyI8 | "i16" -> TyI16 | "i32" -> TyI32 | "i64" -> TyI64 | "double" -> TyDouble
  | "string" -> TyString | "binary" -> TyBinary | "uuid" -> TyUuid | "void" -> TyVoid
  | "list" -> let a = parse_ty t in TyList a
  | "set" -> let a = parse_ty t in TySet a
  | "map" -> let a = parse_ty t in let b = parse_ty t in TyMap (a, b)
  | "ref" -> let n = next t in
    (try TyRef (nat_of_int (Hashtbl.find names n)) with Not_found -> failwith ("unknown type " ^ n))
  | s -> failwith ("bad type " ^ s)

let rec rep n f = if n <= 0 then [] else let x = f () in x :: rep (n - 1) f

let rec parse_val (t : toks) : gval =
  let tok = next t in
  let arg = String.sub tok 1 (String.length tok - 1) in
  match tok.[0] with
  | 'b' -> GBool (arg = "1")
  | 'y' -> GI8 (z_of_string arg)
  | 'h' -> GI16 (z_of_string arg)
  | 'i' -> GI32 (z_of_string arg)
  | 'l' -> GI64 (z_of_string arg)
  | 'd' -> GDouble (z_of_string arg)
  | 's' -> GBytes (bytes_of_hex arg)
  | 'u' -> GUuid (bytes_of_hex arg)
  | 'e' -> GEnum (z_of_string arg)
  | 'V' -> GVoid
  | 'L' -> GList (rep (int_of_string arg) (fun () -> parse_val t))
  | 'T' -> GSet (rep (int_of_string arg) (fun () -> parse_val t))
  | 'M' -> GMap (rep (int_of_string arg) (fun () -> let a = parse_val t in let b = parse_val t in (a, b)))
  | 'S' ->
    let fs = rep (int_of_string arg) (fun () ->
        let f = next t in
        if f.[0] <> 'f' then failwith "expected field";
        let id = z_of_string (String.sub f 1 (String.length f - 1)) in
        let v = parse_val t in (id, v)) in
    let unk = (match t.rest with
        | x :: r when String.length x > 0 && x.[0] = 'X' -> t.rest <- r; [bytes_of_hex (String.sub x 1 (String.length x - 1))]
        | _ -> []) in
    GStruct (fs, unk)
  | 'U' ->
    if arg = "?" then begin
      match t.rest with
      | x :: r when String.length x > 0 && x.[0] = 'X' -> t.rest <- r; GUnionUnknown (bytes_of_hex (String.sub x 1 (String.length x - 1)))
      | _ -> GUnionUnknown []
    end else let v = parse_val t in GUnion (z_of_string arg, v)
  | _ -> failwith ("bad value token " ^ tok)

let has c s = String.contains s c

let load_schema (path : string) : decl list =
  let ic = open_in path in
  let lines = ref [] in
  (try while true do
       let l = String.trim (input_line ic) in
       if l <> "" then lines := l :: !lines
     done with End_of_file -> ());
  close_in ic;
  let lines = List.rev !lines in
  List.iteri (fun i l ->
      match String.split_on_char ' ' l with
      | _ :: n :: _ -> Hashtbl.replace names n i
      | _ -> failwith "bad schema line") lines;
  List.map (fun l ->
      let t = { rest = String.split_on_char ' ' l } in
      match next t with
      | "struct" ->
        let _ = next t in
        let fl = next t in
        let n = next_int t in
        let fs = rep n (fun () ->
            let id = next_z t in
            let rq = (match next t with "req" -> Required | "opt" -> Optional | s -> failwith ("bad requiredness " ^ s)) in
            let ty = parse_ty t in
            let d = next t in
            let dflt =
              if d = "-" then None
              else begin
                let c = d.[0] = 'C' in
                let body = String.sub d 2 (String.length d - 2) in
                let vt = { rest = String.split_on_char ',' body } in
                Some (c, parse_val vt)
              end in
            { f_id = id; f_req = rq; f_ty = ty; f_dflt = dflt }) in
        DStruct (fs, not (has 'k' fl), has 'a' fl)
      | "union" ->
        let _ = next t in
        let fl = next t in
        let n = next_int t in
        let vs = rep n (fun () -> let id = next_z t in let ty = parse_ty t in (id, ty)) in
        DUnion (vs, has 'v' fl, not (has 'k' fl))
      | "enum" ->
        let _ = next t in
        let n = next_int t in
        DEnum (rep n (fun () -> next_z t))
      | "typedef" ->
        let _ = next t in
        DTypedef (parse_ty t)
      | s -> failwith ("bad schema line kind " ^ s)) lines

(* ---------- Arc boxes (C19, Own.v): pilota.rust_wrapper_arc ---------- *)
(* The lowered schema treats Arc as the identity (it is, for every value-level property).  For OWNERSHIP an Arc is an
   allocation: the ownership model takes, next to the schema, the list A of schema indices that stand for `Arc<..>` boxes.
   Glue (trusted): from lschema.txt (the rir types with their `arc` wrappers, same item order as schema.txt) every `arc X` inside
   a struct field type becomes a reference to a fresh typedef box `DTypedef X` appended to the schema (transparent for decoding)
   and its index goes into A.  Fields without an Arc keep the type schema.txt gives them. *)
let arc_lowered : (decl list * nat list) ref = ref ([], [])
let load_arcs (sch : decl list) (path : string) : decl list * nat list =
  let base = List.length sch in
  let boxes = ref [] and arcs = ref [] in
  let rec conv (t : toks) : ty * bool =
    match next t with
    | "vec" -> let (a, x) = conv t in (TyList a, x)
    | "set" | "btreeset" -> let (a, x) = conv t in (TySet a, x)
    | "map" | "btreemap" -> let (a, x) = conv t in let (b, y) = conv t in (TyMap (a, b), x || y)
    | "arc" ->
      let (u, _) = conv t in
      let k = base + List.length !boxes in
      boxes := !boxes @ [DTypedef u]; arcs := !arcs @ [nat_of_int k]; (TyRef (nat_of_int k), true)
    | "path" -> let n = next t in
      ((try TyRef (nat_of_int (Hashtbl.find names n)) with Not_found -> failwith ("unknown type " ^ n)), false)
    | "string" | "stdstring" -> (TyString, false) | "bytes" | "bytesvec" -> (TyBinary, false)
    | "bool" -> (TyBool, false) | "i8" -> (TyI8, false) | "i16" -> (TyI16, false) | "i32" -> (TyI32, false) | "i64" -> (TyI64, false)
    | "f64" | "of64" -> (TyDouble, false) | "uuid" -> (TyUuid, false) | "void" -> (TyVoid, false)
    | s -> failwith ("bad rir type " ^ s) in
  let repl : (int * z, ty) Hashtbl.t = Hashtbl.create 16 in
  let ic = open_in path in
  (try while true do
       let l = String.trim (input_line ic) in
       let t = { rest = String.split_on_char ' ' l } in
       if l <> "" && next t = "lstruct" then begin
         let sname = next t in
         let _fl = next t in
         let n = next_int t in
         let idx = (try Hashtbl.find names sname with Not_found -> failwith ("unknown type " ^ sname)) in
         for _i = 1 to n do
           let id = next_z t in
           let _rq = next t in let _name = next t in
           let (ty, has_arc) = conv t in
           let _lit = next t in
           if has_arc then Hashtbl.replace repl (idx, id) ty
         done
       end
     done with End_of_file -> ());
  close_in ic;
  let sch' = List.mapi (fun i d -> match d with
      | DStruct (fs, kp, ia) ->
        DStruct (List.map (fun f -> match Hashtbl.find_opt repl (i, f.f_id) with Some ty -> { f with f_ty = ty } | None -> f) fs, kp, ia)
      | d -> d) sch in
  (sch' @ !boxes, !arcs)

(* ---------- printing ---------- *)
let rec show (v : gval) : string =
  match v with
  | GBool b -> if b then "b1" else "b0"
  | GI8 z -> "y" ^ string_of_z z
  | GI16 z -> "h" ^ string_of_z z
  | GI32 z -> "i" ^ string_of_z z
  | GI64 z -> "l" ^ string_of_z z
  | GDouble z -> "d" ^ string_of_z z
  | GBytes l -> "s" ^ hex_of_bytes l
  | GUuid l -> "u" ^ hex_of_bytes l
  | GVoid -> "V"
  | GEnum z -> "e" ^ string_of_z z
  | GList l -> String.concat " " (("L" ^ string_of_int (List.length l)) :: List.map show l)
  | GSet l ->
    (* HashSet::insert keeps the first of equal elements; canonical: distinct element texts, sorted *)
    let xs = List.sort_uniq compare (List.map show l) in
    String.concat " " (("T" ^ string_of_int (List.length xs)) :: xs)
  | GMap l ->
    (* HashMap::insert: the last value of equal keys wins *)
    let tbl = Hashtbl.create 16 in
    List.iter (fun (a, b) -> Hashtbl.replace tbl (show a) (show b)) l;
    let xs = List.sort compare (Hashtbl.fold (fun a b acc -> (a, b) :: acc) tbl []) in
    String.concat " " (("M" ^ string_of_int (List.length xs)) :: List.map (fun (a, b) -> a ^ " " ^ b) xs)
  | GStruct (fs, unk) ->
    let body = List.map (fun (id, x) -> "f" ^ string_of_z id ^ " " ^ show x) fs in
    let u = List.concat unk in
    String.concat " " ((("S" ^ string_of_int (List.length fs)) :: body) @ (if u = [] then [] else ["X" ^ hex_of_bytes u]))
  | GUnion (id, x) -> "U" ^ string_of_z id ^ " " ^ show x
  | GUnionUnknown u -> if u = [] then "U?" else "U? X" ^ hex_of_bytes u

let err_class = function
  | EInvalidData -> "invalid_data" | EBadVersion -> "bad_version" | EDepthLimit -> "depth_limit"
  | ENegativeSize -> "negative_size" | ESizeLimit -> "size_limit" | ETransport -> "transport"
  | EOutOfFuel -> "fuel" | EOther -> "other"

let pk_of_string = function
  | "binary" | "unchecked" -> PBinary | "binary_le" -> PBinaryLE | "compact" -> PCompact
  | s -> failwith ("bad protocol " ^ s)

let schema : decl list ref = ref []

let ty_of_name n =
  try TyRef (nat_of_int (Hashtbl.find names n)) with Not_found -> failwith ("unknown type " ^ n)

let keep_cfg cfg = (cfg = "keep" || cfg = "keepsplit")

(* `async:*` cases are answered by the model of the decode_async templates (GenAsync.v: no TLengthProtocol calls,
   TAsyncInputProtocol::skip, no retention -- decode_async of a keep build is the plain template); the model of a
   stream is the byte string it delivers, so the schedule is ignored *)
let decode cfg mode p ty bytes =
  let is_async = String.length mode >= 5 && String.sub mode 0 5 = "async" in
  if is_async then gen_decode_async_top !schema p ty bytes
  else if keep_cfg cfg then gen_decode_keep_top !schema p ty bytes else gen_decode_top !schema p ty bytes

(* the value tree the bytes carry, read by the runtime's self-describing reader (Interp.read_val, C01) at the wire type
   of the declared type: the argument of the specifications view / viewk / reenc *)
let tree_of p ty bytes =
  let fuel = nat_of_int (List.length bytes + 80) in
  read_val p fuel (ttype_of_ty !schema ty) { rbuf = bytes; rc = r0 }

let show_spec (r : gval res) (rest : byte list) =
  match r with
  | Ok v -> "ok " ^ show v ^ " REM " ^ string_of_int (List.length rest)
  | Err e -> "err " ^ err_class e
  | Panic s -> "panic " ^ string_of_site s

let no_tree r =
  match r with
  | Err e -> "BADTREE err " ^ err_class e
  | Panic s -> "BADTREE panic " ^ string_of_site s
  | Ok _ -> "BADTREE"

let show_dec r =
  match r with
  | Ok (v, rest) -> "ok " ^ show v ^ " REM " ^ string_of_int (List.length rest)
  | Err e -> "err " ^ err_class e
  | Panic s -> "panic " ^ string_of_site s

let size_enc p ty v =
  match gen_size !schema p ty v, gen_encode !schema p BContig ty v with
  | Ok n, Ok b -> "SIZE " ^ string_of_z n ^ " ENC " ^ hex_of_bytes b
  | Panic s, _ | _, Panic s -> "ENCPANIC " ^ string_of_site s
  | Err e, _ | _, Err e -> "ENCERR " ^ err_class e

(* C19, message level (Own.own_message): envelope + body on one protocol object.  `<Type>` may be `@appex`: the body is
   the runtime's ApplicationException.  Prints the outcome, the stage reached, the values never dropped, what the
   identifier owned, what objects outliving the call still hold, and whether the returned value contains byte strings *)
let run_ownmsg (t : toks) : string =
  let cfg = next t in
  let tyname = next t in
  let b = if tyname = "@appex" then BAppEx else BType (ty_of_name tyname) in
  let p = pk_of_string (next t) in
  let mode = next t in
  let is_async = String.length mode >= 5 && String.sub mode 0 5 = "async" in
  let bytes = bytes_of_hex (next t) in
  let o = own_message_top (if is_async then MAsync else MSync) (keep_cfg cfg) (snd !arc_lowered) (fst !arc_lowered) p b bytes in
  let k = (match o.mo_outcome with Ok _ -> "ok" | Err e -> "err " ^ err_class e | Panic s -> "panic " ^ string_of_site s) in
  let vref = (match o.mo_outcome with Ok ((_, v), _) -> if bytes_val v then 1 else 0 | _ -> 0) in
  let nat_int n = List.length (List.init 0 (fun _ -> ())) + (let rec go k = function O -> k | S m -> go (k + 1) m in go 0 n) in
  let count h l = List.length (List.filter (fun x -> x = h) l) in
  k ^ " STAGE " ^ string_of_int (nat_int o.mo_stage)
  ^ " LEAK " ^ string_of_int (List.length o.mo_leaked) ^ " HEAP " ^ string_of_int (List.length (List.filter heap_val o.mo_leaked))
  ^ " IDENT " ^ string_of_int (count HInputRef o.mo_ident) ^ "/" ^ string_of_int (count HHeap o.mo_ident)
  ^ " RETAIN " ^ string_of_int (List.length o.mo_retained) ^ " VREF " ^ string_of_int vref

let rec int_of_nat (n : nat) : int = match n with O -> 0 | S m -> 1 + int_of_nat m

(* C09, memory (GenAlloc.v): the ghost allocation counter of the plain templates and, when the type has a certificate of
   bounded weight (the class of C09_gen_alloc), the explicit constants of the bound  alloc <= a * |input| + b.
   The certificate is computed here (glue: least weights by iteration) and VALIDATED by the extracted alloc_class. *)
let alloc_cert : (bool * bool * string, (int * z) list option) Hashtbl.t = Hashtbl.create 16
let certificate md kb tyname ty =
  let key = ((md = MSync), kb, tyname) in
  match Hashtbl.find_opt alloc_cert key with
  | Some c -> c
  | None ->
    let n = List.length !schema in
    let w = Array.make n None in      (* None: not reached yet *)
    let rec refs (t : ty) = match t with
      | TyList a | TySet a -> refs a | TyMap (a, b) -> refs a @ refs b
      | TyRef k -> [int_of_nat k] | _ -> [] in
    let members k = match List.nth_opt !schema k with
      | Some (DStruct (fs, _, _)) -> List.map (fun f -> f.f_ty) fs
      | Some (DUnion (vs, _, _)) -> List.map snd vs
      | Some (DTypedef t) -> [t]
      | _ -> [] in
    let rec reach k = if k < n && w.(k) = None then begin
        w.(k) <- Some (match List.nth_opt !schema k with
            | Some (DStruct _) | Some (DUnion _) -> frame_cost md kb !schema (nat_of_int k)
            | _ -> Z0);
        List.iter (fun t -> List.iter reach (refs t)) (members k) end in
    List.iter reach (refs ty);
    let wl () = List.concat (List.mapi (fun k o -> match o with Some z -> [(nat_of_int k, z)] | None -> []) (Array.to_list w)) in
    let ok = ref true in
    (try
       for _round = 0 to n + 1 do
         let cur = wl () in
         Array.iteri (fun k o -> match o with
             | None -> ()
             | Some z ->
               List.iter (fun t -> match gw md kb !schema cur t with
                   | None -> ok := false; raise Exit
                   | Some g -> (match w.(k) with Some z' -> w.(k) <- Some (Z.max z' g) | None -> ())) (members k);
               ignore z) w
       done
     with Exit -> ());
    let cert = wl () in
    let res = if !ok && alloc_class md kb !schema cert ty then Some (List.map (fun (k, z) -> (int_of_nat k, z)) cert) else None in
    Hashtbl.replace alloc_cert key res; res

let run_alloc (t : toks) : string =
  let cfg = next t in
  let tyname = next t in
  let ty = ty_of_name tyname in
  let p = pk_of_string (next t) in
  let mode = next t in
  let is_async = String.length mode >= 5 && String.sub mode 0 5 = "async" in
  let bytes = bytes_of_hex (next t) in
  let kb = keep_cfg cfg in
  let md = if is_async then MAsync else MSync in
  (* the sync templates of keep_unknown_fields builds have their own decoder (retained chunks); async has no retention *)
  let (r, a) = if kb && not is_async then alloc_decode_keep_top !schema p ty bytes
    else alloc_decode_top md kb !schema p ty bytes in
  let k = (match r with Ok _ -> "ok" | Err e -> "err " ^ err_class e | Panic s -> "panic " ^ string_of_site s) in
  let cls = (match certificate md kb tyname ty with
      | None -> " CLASS 0"
      | Some c ->
        let cert = List.map (fun (k, z) -> (nat_of_int k, z)) c in
        " CLASS 1 A " ^ string_of_z (alloc_a md kb !schema cert ty) ^ " B " ^ string_of_z (Z.add (alloc_b md kb !schema cert ty) (top_const md))) in
  k ^ " ALLOC " ^ string_of_z a ^ cls

let run_case (t : toks) : string =
  let op = next t in
  if op = "ownmsg" then run_ownmsg t else
  if op = "alloc" then run_alloc t else
  let cfg = next t in
  let ty = ty_of_name (next t) in
  let p = pk_of_string (next t) in
  match op with
  | "dec" ->
    let mode = next t in
    show_dec (decode cfg mode p ty (bytes_of_hex (next t)))
  | "renc" ->
    let mode = next t in
    (match decode cfg mode p ty (bytes_of_hex (next t)) with
     | Ok (v, rest) -> "ok " ^ show v ^ " REM " ^ string_of_int (List.length rest) ^ " " ^ size_enc p ty v
     | r -> show_dec r)
  | "dflt" ->
    (match default_of !schema ty with
     | None -> "DEF none"
     | Some d ->
       let b0 = byte_of_int 0 in
       "DEF " ^ show d ^ " " ^ size_enc p ty d ^ " EMPTY " ^ show_dec (decode cfg "sync" p ty [b0]))
  | "view" ->
    (* EvoSpec.view: what a tolerant reader with this schema must make of the tree (C08) *)
    let _mode = next t in
    (match tree_of p ty (bytes_of_hex (next t)) with
     | Ok (tv, s) -> show_spec (view !schema ty tv) s.rbuf
     | r -> no_tree r)
  | "viewk" ->
    (* KeepSpec.viewk: the same with the encodings of the ignored fields retained (C13); the writer is a fresh
       runtime writer over a contiguous buffer *)
    let _mode = next t in
    (match tree_of p ty (bytes_of_hex (next t)) with
     | Ok (tv, s) -> show_spec (viewk !schema p BContig w0 ty tv) s.rbuf
     | r -> no_tree r)
  | "reenc" ->
    (* KeepSpec.reenc: the tree the re-encoded message must carry, written by the runtime writer *)
    let _mode = next t in
    (match tree_of p ty (bytes_of_hex (next t)) with
     | Ok (tv, _) ->
       (match write_val p BContig (reenc !schema ty tv) w0 with
        | Ok (ss, _) -> "ok ENC " ^ hex_of_bytes (flat ss)
        | Err e -> "err " ^ err_class e
        | Panic s -> "panic " ^ string_of_site s)
     | r -> no_tree r)
  | "adec" ->
    (* decode_async templates (GenAsync.v); the model of a stream is the byte string it delivers *)
    let _mode = next t in
    show_dec (gen_decode_async_top !schema p ty (bytes_of_hex (next t)))
  | "own" ->
    (* ownership-instrumented templates (Own.v): outcome, number of values that are never dropped, and how many
       of them visibly hold heap memory / an input reference. *)
    let mode = next t in
    let is_async = String.length mode >= 5 && String.sub mode 0 5 = "async" in
    let bytes = bytes_of_hex (next t) in
    (* retention is only emitted for the sync decoders of a keep build (GenKeep templates); everything else is an
       instance of the plain templates *)
    let (r, leaked) =
      if keep_cfg cfg && not is_async then own_decode_keep_top (snd !arc_lowered) (fst !arc_lowered) p ty bytes
      else own_decode_top (if is_async then MAsync else MSync) (snd !arc_lowered) (fst !arc_lowered) p ty bytes in
    let k = (match r with Ok _ -> "ok" | Err e -> "err " ^ err_class e | Panic s -> "panic " ^ string_of_site s) in
    k ^ " LEAK " ^ string_of_int (List.length leaked) ^ " HEAP " ^ string_of_int (List.length (List.filter heap_val leaked))
  | s -> failwith ("unknown op " ^ s)


(* ---------- literal schema (C20; FORMAT.md section 4): `runner <schema.txt> <lschema.txt>` ---------- *)
let lschema : lschema ref = ref { ls_items = []; ls_consts = [] }
let lfield_names : (string * string, lfield) Hashtbl.t = Hashtbl.create 64

let rec parse_rty (t : toks) : rty =
  match next t with
  | "string" -> RFastStr | "stdstring" -> RString | "void" -> RVoid | "bool" -> RBool | "bytesvec" -> RBytesVec
  | "bytes" -> RBytes | "i8" -> RI8 | "i16" -> RI16 | "i32" -> RI32 | "i64" -> RI64 | "f64" -> RF64 | "of64" -> ROrderedF64
  | "uuid" -> RUuid
  | "vec" -> let a = parse_rty t in RVec a
  | "set" -> let a = parse_rty t in RSet a
  | "btreeset" -> let a = parse_rty t in RBTreeSet a
  | "map" -> let a = parse_rty t in let b = parse_rty t in RMap (a, b)
  | "btreemap" -> let a = parse_rty t in let b = parse_rty t in RBTreeMap (a, b)
  | "arc" -> let a = parse_rty t in RArc a
  | "path" -> let n = next t in
    (try RPath (nat_of_int (Hashtbl.find names n)) with Not_found -> failwith ("unknown type " ^ n))
  | s -> failwith ("bad rir type " ^ s)

let rec parse_lit (t : toks) : lit =
  let tok = next t in
  let arg = String.sub tok 1 (String.length tok - 1) in
  match tok.[0] with
  | 'i' -> LInt (z_of_string arg)
  | 'b' -> LBool (arg = "1")
  | 'f' -> LFloat (bytes_of_hex arg)
  | 's' -> LString (bytes_of_hex arg)
  | 'c' -> LConst (nat_of_int (int_of_string arg))
  | 'm' ->
    (match String.split_on_char ':' tok with
     | [_; e; i] ->
       (try LMember (nat_of_int (Hashtbl.find names e), nat_of_int (int_of_string i))
        with Not_found -> failwith ("unknown enum " ^ e))
     | _ -> failwith ("bad member literal " ^ tok))
  | 'L' -> LList (rep (int_of_string arg) (fun () -> parse_lit t))
  | 'M' -> LMap (rep (int_of_string arg) (fun () -> let a = parse_lit t in let b = parse_lit t in (a, b)))
  | _ -> failwith ("bad literal token " ^ tok)

let load_lschema (path : string) : lschema =
  let ic = open_in path in
  let lines = ref [] in
  (try while true do
       let l = String.trim (input_line ic) in
       if l <> "" then lines := l :: !lines
     done with End_of_file -> ());
  close_in ic;
  let lines = List.rev !lines in
  let items = ref [] and consts = ref [] in
  List.iter (fun l ->
      let t = { rest = String.split_on_char ' ' l } in
      match next t with
      | "lstruct" ->
        let sname = next t in
        let fl = next t in
        let n = next_int t in
        let fs = rep n (fun () ->
            let id = next_z t in
            let rq = (match next t with "req" -> Required | "opt" -> Optional | s -> failwith ("bad requiredness " ^ s)) in
            let name = bytes_of_hex (next t) in
            let ty = parse_rty t in
            let d = next t in
            let dflt = if d = "-" then None else Some (parse_lit { rest = String.split_on_char ',' d }) in
            let f = { lf_name = name; lf_id = id; lf_req = rq; lf_ty = ty; lf_dflt = dflt } in
            Hashtbl.replace lfield_names (sname, string_of_z id) f;
            f) in
        items := IStruct (fs, not (has 'k' fl), has 'a' fl) :: !items
      | "lunion" ->
        let _ = next t in
        let fl = next t in
        let n = next_int t in
        let vs = rep n (fun () -> let id = next_z t in let ty = parse_rty t in (id, ty)) in
        items := IUnion (vs, has 'v' fl, not (has 'k' fl)) :: !items
      | "lenum" ->
        let _ = next t in
        let n = next_int t in
        items := IEnum (rep n (fun () -> next_z t)) :: !items
      | "ltypedef" ->
        let _ = next t in
        items := INewType (parse_rty t) :: !items
      | "lconst" ->
        let _ = next t in
        let ty = parse_rty t in
        let l = parse_lit { rest = String.split_on_char ',' (next t) } in
        consts := (ty, l) :: !consts
      | s -> failwith ("bad lschema line kind " ^ s)) lines;
  { ls_items = List.rev !items; ls_consts = List.rev !consts }

(* decimal text -> bits of the nearest double: OCaml's float_of_string (strtod; correctly rounded) on the texts the IDL
   grammar admits (sign, digits, '.', exponent) -- the [parse_f64] parameter of Lit.v / LitSpec.v (trusted) *)
let parse_f64 (bs : byte list) : z option =
  let s = String.init (List.length bs) (fun i -> Char.chr (int_of_byte (List.nth bs i))) in
  let ok = s <> "" && String.for_all (fun c -> (c >= '0' && c <= '9') || c = '.' || c = 'e' || c = 'E' || c = '-' || c = '+') s in
  if not ok then None else
    match float_of_string_opt s with
    | None -> None
    | Some f ->
      let b = Int64.bits_of_float f in
      let lo = Int64.to_int (Int64.logand b 0xFFFFFFFFL) and hi = Int64.to_int (Int64.shift_right_logical b 32) in
      Some (Z.add (Z.mul (z_of_int hi) (z_of_string "4294967296")) (z_of_int lo))

let string_of_lsite = function
  | PUnexpectedLiteral -> "UnexpectedLiteral" | PInvalidConvert -> "InvalidConvert" | PInvalidEnum -> "InvalidEnum"
  | PInvalidEnumValue -> "InvalidEnumValue" | PInvalidMapType -> "InvalidMapType" | PAssertEmpty -> "AssertEmpty"
  | PParseFloat -> "ParseFloat" | PNotMessage -> "NotMessage" | PKeyNotString -> "KeyNotString" | PUnwrap -> "Unwrap"
let string_of_lerr = function EFuel -> "fuel" | ENoValue -> "novalue"
let string_of_pclass = function
  | None -> "none"
  | Some PCPathConvert -> "path-convert" | Some PCNestedMap -> "nested-map" | Some PCNoArm -> "no-arm"
  | Some PCConstContainer -> "const-container" | Some PCDangling -> "dangling"
  | Some PCFloatSigns -> "float-signs" | Some PCFloatExp -> "float-exponent"
let show_opt = function Some v -> show v | None -> "none"
let show_lres f = function LOk x -> "ok " ^ f x | LErr e -> "err " ^ string_of_lerr e | LPanic s -> "panic " ^ string_of_lsite s

let run_lit_case (t : toks) : string =
  match next t with
  | "lit" ->
    (* lit <Struct> <field id>: the lowering of the field's default (value, const flag), its IDL meaning, its class *)
    let sname = next t in
    let fid = next t in
    let f = (try Hashtbl.find lfield_names (sname, fid) with Not_found -> failwith ("unknown field " ^ sname ^ "." ^ fid)) in
    (match f.lf_dflt with
     | None -> "LIT none"
     | Some l ->
       let low = default_val_lit parse_f64 !lschema f.lf_ty l in
       "LIT " ^ show_lres (fun (v, c) -> (if c then "C " else "N ") ^ show v) low
       ^ " WT " ^ (if well_typed_lit parse_f64 !lschema (erase f.lf_ty) l then "1" else "0")
       ^ " CLASS " ^ string_of_pclass (pclass_top !lschema l (item_cty f.lf_ty))
       ^ " SPEC " ^ show_opt (lit_value_top parse_f64 !lschema (erase f.lf_ty) l))
  | "ldflt" ->
    (* ldflt <Type>: Default::default() three ways: ImplDefaultPlugin model inside Lit.v, Defaults.default_of over the
       projected schema, the expected default from the IDL alone *)
    let n = (try Hashtbl.find names (next t) with Not_found -> failwith "unknown type") in
    "LDFLT MODEL " ^ show_lres show (rust_default parse_f64 !lschema (RPath (nat_of_int n)))
    ^ " PROJ " ^ show_opt (default_of (proj parse_f64 !lschema) (TyRef (nat_of_int n)))
    ^ " SPEC " ^ show_opt (expected_default parse_f64 !lschema (nat_of_int n))
  | "lconst" ->
    "LCONST " ^ show_lres show (const_value parse_f64 !lschema (nat_of_int (next_int t)))
  | "lschema" ->
    "LSCHEMA class_free " ^ (if class_free_schema !lschema then "1" else "0")
    ^ " lits_typed " ^ (if lits_typed parse_f64 !lschema then "1" else "0")
    ^ " items " ^ string_of_int (List.length !lschema.ls_items) ^ " consts " ^ string_of_int (List.length !lschema.ls_consts)
    (* hypotheses of C20_default_encoding_conforms on the projected schema *)
    ^ " wf_proj " ^ (if wf_schema (proj parse_f64 !lschema) then "1" else "0")
    ^ " elems_proj " ^ (if elems_ok (proj parse_f64 !lschema) then "1" else "0")
  | s -> failwith ("unknown literal op " ^ s)

let is_lit_op = function "lit" | "ldflt" | "lconst" | "lschema" -> true | _ -> false

let () =
  if Array.length Sys.argv < 2 then (prerr_endline "usage: runner <schema.txt>"; exit 2);
  schema := load_schema Sys.argv.(1);
  if Array.length Sys.argv >= 3 then lschema := load_lschema Sys.argv.(2);
  (let lpath = if Array.length Sys.argv >= 3 then Sys.argv.(2) else Filename.concat (Filename.dirname Sys.argv.(1)) "lschema.txt" in
   arc_lowered := if Sys.file_exists lpath then load_arcs !schema lpath else (!schema, []));
  (try
     while true do
       let line = input_line stdin in
       let out =
         match String.split_on_char ' ' (String.trim line) with
         | [] | [""] -> ""
         | toks ->
           (try (if is_lit_op (List.hd toks) then run_lit_case { rest = toks } else run_case { rest = toks }) with
            | Not_found -> "BADCASE not found"
            | Failure m -> "BADCASE " ^ m
            | Stack_overflow -> "BADCASE stack overflow"
            | Invalid_argument m -> "BADCASE " ^ m)
       in
       print_string out; print_char '\n'
     done
   with End_of_file -> ());
  flush stdout
