(* Round-trip laws of the primitive protocol operations. *)
From PV Require Import Thrift.Interp Proofs.VarintP.
From Coq Require Import ZifyN ZifyNat ZifyBool.
Open Scope Z_scope.

Lemma wrap_s_id bits z : 0 < bits -> in_s bits z -> wrap_s bits z = z.
Proof.
  intros Hb Hz. rewrite <- (wrap_s_wrap_u bits z Hb Hz) at 2.
  unfold wrap_s, wrap_u. rewrite Z.mod_mod; auto.
  assert (0 < 2 ^ bits) by (apply Z.pow_pos_nonneg; lia). lia.
Qed.

Lemma pow256 n : 256 ^ Z.of_nat n = 2 ^ (8 * Z.of_nat n).
Proof. rewrite Z.pow_mul_r by lia. reflexivity. Qed.

Lemma r_take_app n a r c : length a = n -> r_take n (mkS (a ++ r) c) = Ok (a, mkS r c).
Proof. intros H. unfold r_take. cbn [rbuf]. rewrite take_app by auto. reflexivity. Qed.

Lemma fx_length p n z : length (fx p n z) = n.
Proof. destruct p; cbn [fx]; auto using be_bytes_length, le_bytes_length. Qed.

Lemma unfx_fx p n z : 0 <= z < 256 ^ Z.of_nat n -> unfx p (fx p n z) = z.
Proof. destruct p; cbn [fx unfx]; auto using of_be_be_bytes, of_le_le_bytes. Qed.

Lemma r_fixed_rt p n bits z r c :
  bits = 8 * Z.of_nat n -> (0 < n)%nat -> in_s bits z ->
  r_fixed p n bits (mkS (fx p n (wrap_u bits z) ++ r) c) = Ok (z, mkS r c).
Proof.
  intros Hb Hn Hz. unfold r_fixed.
  rewrite r_take_app by apply fx_length. cbn [bind].
  rewrite unfx_fx.
  - rewrite wrap_s_wrap_u; [reflexivity | lia | assumption].
  - rewrite pow256, <- Hb. apply wrap_u_range. lia.
Qed.

Lemma z2b_b2z_small z : 0 <= z < 256 -> b2z (z2b z) = z.
Proof. intros. rewrite b2z_z2b. apply Z.mod_small; auto. Qed.

Lemma of_le_single b : of_le [b] = b2z b.
Proof. cbn [of_le]. lia. Qed.

Lemma r_byte_rt z r c : 0 <= z < 256 -> r_byte (mkS (z2b z :: r) c) = Ok (z, mkS r c).
Proof.
  intros Hz. unfold r_byte.
  change (z2b z :: r) with ([z2b z] ++ r). rewrite r_take_app by reflexivity. cbn [bind].
  rewrite of_le_single, z2b_b2z_small by auto. reflexivity.
Qed.

Lemma r_i8_rt z r c : in_s 8 z -> r_i8 (mkS (z2b z :: r) c) = Ok (z, mkS r c).
Proof.
  intros Hz. unfold r_i8.
  change (z2b z :: r) with ([z2b z] ++ r). rewrite r_take_app by reflexivity. cbn [bind].
  rewrite of_le_single, b2z_z2b.
  change (z mod 256) with (wrap_u 8 z). rewrite wrap_s_wrap_u; [reflexivity | lia | assumption].
Qed.

Lemma zigzag_bound bits z : 0 < bits -> in_s bits z -> 0 <= zigzag z < 2 ^ bits.
Proof.
  intros Hb [H1 H2]. unfold zigzag.
  assert (E : 2 ^ bits = 2 * 2 ^ (bits - 1)).
  { replace bits with (Z.succ (bits - 1)) at 1 by lia. rewrite Z.pow_succ_r by lia. lia. }
  destruct (Z.ltb_spec z 0); lia.
Qed.

Lemma r_varint_rt k n r c :
  (1 <= k <= 10)%nat -> 0 <= n < 128 ^ Z.of_nat k -> n < two64 ->
  r_varint k (mkS (encode_var n ++ r) c) = Ok (n, mkS r c).
Proof.
  intros. unfold r_varint. cbn [rbuf]. rewrite read_encode_var by auto. reflexivity.
Qed.

Lemma r_zz_rt bits k z r c :
  0 < bits <= 64 -> (1 <= k <= 10)%nat -> 2 ^ bits <= 128 ^ Z.of_nat k -> in_s bits z ->
  (let* (n, s) := r_varint k (mkS (encode_var (zigzag z) ++ r) c) in Ok (wrap_s bits (unzigzag n), s))
  = Ok (z, mkS r c).
Proof.
  intros Hb Hk Hp Hz.
  pose proof (zigzag_bound bits z ltac:(lia) Hz) as Hzz.
  assert (2 ^ bits <= two64) by (unfold two64; apply Z.pow_le_mono_r; lia).
  rewrite r_varint_rt by lia. cbn [bind].
  rewrite unzigzag_zigzag, wrap_s_id; [reflexivity | lia | assumption].
Qed.

(* --- integers, every protocol --- *)
Lemma w_i16_ok p z c : exists l, w_i16 p z c = Ok ([Copy l], c) /\
  (in_s 16 z -> forall r rcx, r_i16 p (mkS (l ++ r) rcx) = Ok (z, mkS r rcx)).
Proof.
  destruct p; cbn [w_i16 r_i16]; eexists; (split; [reflexivity|]); intros Hz r rcx.
  1,2: apply r_fixed_rt; auto; lia.
  apply (r_zz_rt 16 maxsize_16); auto; try (unfold maxsize_16; lia); try (vm_compute; discriminate).
Qed.

Lemma w_i32_ok p z c : exists l, w_i32 p z c = Ok ([Copy l], c) /\
  (in_s 32 z -> forall r rcx, r_i32 p (mkS (l ++ r) rcx) = Ok (z, mkS r rcx)).
Proof.
  destruct p; cbn [w_i32 r_i32]; eexists; (split; [reflexivity|]); intros Hz r rcx.
  1,2: apply r_fixed_rt; auto; lia.
  apply (r_zz_rt 32 maxsize_32); auto; try (unfold maxsize_32; lia); try (vm_compute; discriminate).
Qed.

Lemma w_i64_ok p z c : exists l, w_i64 p z c = Ok ([Copy l], c) /\
  (in_s 64 z -> forall r rcx, r_i64 p (mkS (l ++ r) rcx) = Ok (z, mkS r rcx)).
Proof.
  destruct p; cbn [w_i64 r_i64]; eexists; (split; [reflexivity|]); intros Hz r rcx.
  1,2: apply r_fixed_rt; auto; lia.
  apply (r_zz_rt 64 maxsize_64); auto; try (unfold maxsize_64; lia); try (vm_compute; discriminate).
Qed.

Lemma w_double_ok p z c : exists l, w_double p z c = Ok ([Copy l], c) /\
  (0 <= z < 2 ^ 64 -> forall r rcx, r_double p (mkS (l ++ r) rcx) = Ok (z, mkS r rcx)).
Proof.
  destruct p; cbn [w_double]; eexists; (split; [reflexivity|]); intros Hz r rcx; unfold r_double.
  - rewrite r_take_app by apply be_bytes_length. cbn [bind]. rewrite of_be_be_bytes; auto.
  - rewrite r_take_app by apply le_bytes_length. cbn [bind]. rewrite of_le_le_bytes; auto.
  - rewrite r_take_app by apply le_bytes_length. cbn [bind]. rewrite of_le_le_bytes; auto.
Qed.

(* --- sequencing / flattening --- *)
Lemma flat_app a b : flat (a ++ b) = flat a ++ flat b.
Proof. unfold flat. rewrite map_app, concat_app. reflexivity. Qed.

Lemma flat_copy l : flat [Copy l] = l.
Proof. unfold flat. cbn. apply app_nil_r. Qed.

Lemma flat_nil : flat [] = [].
Proof. reflexivity. Qed.

Lemma wseq_ok (a b : wm) c s1 c1 s2 c2 :
  a c = Ok (s1, c1) -> b c1 = Ok (s2, c2) -> (a ;; b) c = Ok (s1 ++ s2, c2).
Proof. intros Ha Hb. unfold wseq. rewrite Ha. cbn [bind]. rewrite Hb. reflexivity. Qed.

Lemma len_ok_bound n : len_ok n = true -> 0 <= Z.of_nat n < 2 ^ 31.
Proof. unfold len_ok. lia. Qed.

Lemma r_split_app l r c : r_split (Z.of_nat (length l)) (mkS (l ++ r) c) = Ok (l, mkS r c).
Proof.
  unfold r_split. cbn [rbuf]. rewrite app_length.
  replace (Z.of_nat (length l) <=? Z.of_nat (length l + length r)) with true by lia.
  rewrite Nat2Z.id. apply r_take_app. reflexivity.
Qed.

Lemma w_len_ok p n c : exists l, w_len p n c = Ok ([Copy l], c) /\
  (0 <= n < 2 ^ 31 -> forall r rcx, r_len p (mkS (l ++ r) rcx) = Ok (n, mkS r rcx)).
Proof.
  destruct p; cbn [w_len r_len].
  1,2: match goal with |- context [w_i32 ?p ?z ?c0] => destruct (w_i32_ok p z c0) as (l & Hw & Hr) end;
       exists l; split; [exact Hw|]; intros Hn r rcx;
       (assert (Hs : in_s 32 n) by (unfold in_s; change (2 ^ (32 - 1)) with (2 ^ 31); lia));
       (rewrite wrap_s_id in Hr; [|lia|assumption]);
       rewrite Hr by auto; cbn [bind];
       unfold wrap_u; rewrite Z.mod_small; [reflexivity|];
       (assert (2 ^ 31 < 2 ^ 64) by (apply Z.pow_lt_mono_r; lia)); lia.
  eexists; split; [reflexivity|]. intros Hn r rcx.
  assert (E : wrap_u 32 n = n).
  { unfold wrap_u. apply Z.mod_small. assert (2 ^ 31 < 2 ^ 32) by (apply Z.pow_lt_mono_r; lia). lia. }
  rewrite E. rewrite r_varint_rt.
  - cbn [bind]. rewrite E. reflexivity.
  - unfold maxsize_32; lia.
  - change (128 ^ Z.of_nat maxsize_32) with (2 ^ 35).
    assert (2 ^ 31 < 2 ^ 35) by (apply Z.pow_lt_mono_r; lia). lia.
  - unfold two64. assert (2 ^ 31 < 2 ^ 64) by (apply Z.pow_lt_mono_r; lia). lia.
Qed.

Lemma w_bwl_ok k l c : exists s, w_bytes_without_len k l c = Ok ([s], c) /\ seg_bytes s = l.
Proof.
  unfold w_bytes_without_len. destruct k as [|[|]].
  - eexists; split; reflexivity.
  - destruct (zero_copy_threshold <=? Z.of_nat (length l)); eexists; split; reflexivity.
  - eexists; split; reflexivity.
Qed.

Lemma w_bytes_ok p k l c : exists ss, w_bytes p k l c = Ok (ss, c) /\
  (len_ok (length l) = true -> forall r rcx, r_bytes p (mkS (flat ss ++ r) rcx) = Ok (l, mkS r rcx)).
Proof.
  unfold w_bytes.
  destruct (w_len_ok p (Z.of_nat (length l)) c) as (lb & Hw & Hr).
  destruct (w_bwl_ok k l c) as (s & Hs & Hsb).
  eexists. split; [eapply wseq_ok; eauto|].
  intros Hl r rcx. apply len_ok_bound in Hl.
  unfold r_bytes. rewrite flat_app, flat_copy. unfold flat. cbn [map concat].
  rewrite Hsb, app_nil_r, <- app_assoc.
  rewrite Hr by auto. cbn [bind]. apply r_split_app.
Qed.

Lemma w_uuid_ok l c : w_uuid l c = Ok ([Copy l], c) /\
  (length l = 16%nat -> forall r rcx, r_uuid (mkS (l ++ r) rcx) = Ok (l, mkS r rcx)).
Proof. split; [reflexivity|]. intros H r rcx. apply r_take_app; auto. Qed.
