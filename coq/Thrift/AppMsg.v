(* Less used entry points of the runtime (round 4 of the seeded changes):
   - the hand-written Message impl of the runtime crate, ApplicationException (pilota/src/thrift/error/application.rs):
     encode / size / decode / decode_async (the Box<M> / Arc<M> impls of mod.rs forward to it);
   - message envelopes in SEQUENCES on one protocol object: write_message_begin + value + write_message_end, several
     messages back to back; read_message_begin of the asynchronous readers (binary.rs / binary_le.rs / compact.rs) and of
     the unchecked codec (binary_unsafe.rs; its writer's write_message_begin as well).
   No proofs here (Proofs/AppMsgP.v). *)
From PV Require Export Thrift.Skip Thrift.Msg Thrift.Len Thrift.Unsafe.
Open Scope Z_scope.

(* ------------------------------------------------------------------ *)
(* ApplicationException { 1: string message, 2: i32 type } *)

Definition app_val (msg : list byte) (kind : Z) : tval := VStruct [(1, VBinary msg); (2, VI32 kind)].

(* encode: write_struct_begin; field 1 (Binary): write_string; field 2 (I32): write_i32; stop; write_struct_end --
   the value interpreter's walk of the struct (write_string always copies: same bytes as write_bytes) *)
Definition app_encode (p : pk) (k : bk) (msg : list byte) (kind : Z) : wm := write_val p k (app_val msg kind).
(* size: struct_begin_len + field_begin_len(Binary, 1) + string_len + field_end_len + field_begin_len(I32, 2) + i32_len
   + field_end_len + field_stop_len + struct_end_len, evaluated left to right *)
Definition app_size (p : pk) (msg : list byte) (kind : Z) : lm := len_val p (app_val msg kind).

Definition app_default_msg : list byte :=
  (* "general remote error" *)
  [x67; x65; x6e; x65; x72; x61; x6c; x20; x72; x65; x6d; x6f; x74; x65; x20; x65; x72; x72; x6f; x72].

Section AppDecode.
  Variable p : pk.
  Variable fuel : nat.       (* for the skipper of unknown fields *)

  (* decode: id 1 -> read_string (whatever the announced type), id 2 -> read_i32, anything else -> skip(field type);
     read_field_end is called for ids 1 and 2 only (a no-op in every reader) *)
  Fixpoint app_fields (n : nat) (msg : list byte) (kind : Z) (s : rst) {struct n} : res ((list byte * Z) * rst) :=
    match n with
    | O => Err EOutOfFuel
    | S n' =>
        let* (h, s1) := r_field_begin p s in
        if ttype_eqb (fst h) TStop then Ok ((msg, kind), s1)
        else
          match snd h with
          | None => Panic SUnwrap              (* id.expect(..): every non-stop header carries an id *)
          | Some id =>
              if id =? 1 then let* (m, s2) := r_bytes p s1 in app_fields n' m kind s2
              else if id =? 2 then let* (k, s2) := r_i32 p s1 in app_fields n' msg k s2
              else let* (_, s2) := skip p fuel (fst h) s1 in app_fields n' msg kind s2
          end
    end.

  Definition app_decode (s : rst) : res ((list byte * Z) * rst) :=
    let* (_, s) := r_struct_begin p s in
    let* (r, s) := app_fields fuel app_default_msg 0 s in
    let* (_, s) := r_struct_end p s in
    Ok (r, s).

  Fixpoint aapp_fields (n : nat) (msg : list byte) (kind : Z) (s : rst) {struct n} : res ((list byte * Z) * rst) :=
    match n with
    | O => Err EOutOfFuel
    | S n' =>
        let* (h, s1) := a_field_begin p s in
        if ttype_eqb (fst h) TStop then Ok ((msg, kind), s1)
        else
          match snd h with
          | None => Panic SUnwrap
          | Some id =>
              if id =? 1 then let* (m, s2) := a_bytes p s1 in aapp_fields n' m kind s2
              else if id =? 2 then let* (k, s2) := a_i32 p s1 in aapp_fields n' msg k s2
              else let* (_, s2) := askip p fuel (fst h) s1 in aapp_fields n' msg kind s2
          end
    end.

  Definition app_decode_async (s : rst) : res ((list byte * Z) * rst) :=
    let* (_, s) := a_struct_begin p s in
    let* (r, s) := aapp_fields fuel app_default_msg 0 s in
    let* (_, s) := a_struct_end p s in
    Ok (r, s).
End AppDecode.

(* ------------------------------------------------------------------ *)
(* message envelopes *)

(* write_message_end: Ok(()) ; compact: assert_no_pending_bool_write *)
Definition w_message_end (p : pk) : wm := assert_no_pending_w p.

(* TAsync*Protocol::read_message_begin: the same decisions as the in-memory readers; a short stream is an io error;
   the compact one reports a bad protocol id / version as BadVersion (the in-memory reader says InvalidData) *)
Definition a_message_begin (p : pk) : rm msgid :=
  match p with
  | PCompact => fun s =>
      let* (id, s) := a_byte s in
      if negb (id =? compact_protocol_id) then Err EBadVersion else
      let* (tb, s) := a_byte s in
      if negb (Z.land tb compact_version_mask =? compact_version) then Err EBadVersion else
      match mtype_of_code (Z.shiftr tb compact_type_shift_amount) with
      | None => Err EInvalidData
      | Some mt =>
          let* (n, s) := a_varint maxsize_32 s in
          let seq := wrap_s 32 (wrap_u 32 n) in
          let* (name, s) := a_bytes PCompact s in
          Ok (mkMsg name mt seq, s)
      end
  | _ => fun s =>
      let* (size, s) := a_i32 p s in
      if 0 <? size then Err EBadVersion else
      match mtype_of_code (Z.land size 15) with
      | None => Err EInvalidData
      | Some mt =>
          if negb (Z.land size (wrap_s 32 (version_mask_of p)) =? wrap_s 32 (version_of p)) then Err EBadVersion else
          let* (name, s) := a_bytes p s in
          let* (seq, s) := a_i32 p s in
          Ok (mkMsg name mt seq, s)
      end
  end.

(* messages back to back with ONE writer / ONE reader *)
Fixpoint write_msgs (p : pk) (k : bk) (l : list (msgid * tval)) : wm :=
  match l with
  | [] => wnop
  | (m, v) :: t => w_message_begin p k m ;; write_val p k v ;; w_message_end p ;; write_msgs p k t
  end.

Fixpoint read_msgs (p : pk) (fuel : nat) (tys : list ttype) (s : rst) : res (list (msgid * tval) * rst) :=
  match tys with
  | [] => Ok ([], s)
  | ty :: t =>
      let* (m, s) := r_message_begin p s in
      let* (v, s) := read_val p fuel ty s in        (* read_message_end: Ok(()) *)
      let* (r, s) := read_msgs p fuel t s in
      Ok ((m, v) :: r, s)
  end.

Fixpoint aread_msgs (p : pk) (fuel : nat) (tys : list ttype) (s : rst) : res (list (msgid * tval) * rst) :=
  match tys with
  | [] => Ok ([], s)
  | ty :: t =>
      let* (m, s) := a_message_begin p s in
      let* (v, s) := aread_val p fuel ty s in
      let* (r, s) := aread_msgs p fuel t s in
      Ok ((m, v) :: r, s)
  end.

(* ---- the unchecked codec's envelope (binary_unsafe.rs) ---- *)
(* write_message_begin: write_i32(version | type); write_faststr(name); write_i32(seq); LinkedBytes: advance_mut(index) *)
Definition uw_message_begin (zc : bool) (m : msgid) : uwm :=
  uw_i32 (wrap_s 32 (Z.lor binary_version_1 (mtype_code (m_type m)))) ;;;
  uw_bytes zc (m_name m) ;;;
  uw_i32 (m_seq m) ;;;
  uw_commit.

(* read_message_begin: read_i32; the checks of the checked reader; read_faststr (read_i32().unwrap_unchecked(),
   advance(index), split_to(len), re-window); read_i32; advance(index) *)
Definition u_message_begin : um msgid := fun s =>
  let* (size, s) := u_i32 s in
  if 0 <? size then Err EBadVersion else
  match mtype_of_code (Z.land size 15) with
  | None => Err EInvalidData
  | Some mt =>
      if negb (Z.land size (wrap_s 32 binary_version_mask) =? wrap_s 32 binary_version_1) then Err EBadVersion else
      let* (name, s) := u_bytes s in
      let* (seq, s) := u_i32 s in
      let* (_, s) := u_rewindow s in
      Ok (mkMsg name mt seq, s)
  end.

Fixpoint uwrite_msgs (zc : bool) (l : list (msgid * tval)) : uwm :=
  match l with
  | [] => uwnop
  | (m, v) :: t => uw_message_begin zc m ;;; uwrite_val zc v ;;; uwrite_msgs zc t
  end.

Fixpoint uread_msgs (fuel : nat) (tys : list ttype) (s : ust) : res (list (msgid * tval) * ust) :=
  match tys with
  | [] => Ok ([], s)
  | ty :: t =>
      let* (m, s) := u_message_begin s in
      let* (v, s) := uread_val fuel ty s in
      let* (r, s) := uread_msgs fuel t s in
      Ok ((m, v) :: r, s)
  end.
