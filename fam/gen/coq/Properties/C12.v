(* C12 at the generated-code level -- asynchronous decoding equals in-memory decoding for every delivery
   schedule: the emitted decode_async (GenAsync.gen_decode_async: no TLengthProtocol calls, push-based lists, no
   unknown-field retention, TAsyncInputProtocol::skip) against the emitted decode (Gen.gen_decode), on top of the
   asynchronous primitive readers of PV.Thrift.Async (primitive level: PV.Properties.C12).  A stream is a list of
   delivery events (GenEvents.v); the primitive reads are written through poll_read and proved to be functions of the
   delivered bytes, whatever the chunk boundaries and however many Pending wake-ups occur in between (below);
   gen_decode_async itself is written over the delivered bytes.  Statements only; lemmas in Proofs/AsyncGenP.v.  Every schema, every declared type, binary /
   binary-LE / compact. *)
From PV Require Import Proofs.HeaderP Proofs.PrefixP.
From PVGen Require Import Gen GenSpec GenAsync GenEvents ErrSpec Proofs.TotalGenP Proofs.AsyncGenP Proofs.AsyncErrGenP Proofs.AsyncFuelP Proofs.EventsP.
From PV Require Import Thrift.AsyncEv Proofs.AsyncEvP.
From PVGen Require Import GenAsyncEv Proofs.AsyncEvGenP.
Open Scope Z_scope.

(* ---------- delivery schedules (GenEvents.v, Proofs/EventsP.v) ----------
   A stream is a list of events: chunks of bytes, empty chunks, Pending tokens; the end of the list is EOF.  The primitive
   reads are written THROUGH poll_read as tokio / rw_ext.rs write them (read_exact keeps what has arrived across Pending;
   read_varint_async goes byte by byte; read_exact_to_vec has its small path and, above PREALLOC_LIMIT, Take::read_to_end
   with ANY positive poll size).  Each returns what the read of the concatenated bytes returns -- value, error, and the bytes
   consumed: the remaining events deliver exactly the remaining bytes (nothing is read past what was asked for). *)
Theorem C12_read_exact_events : forall n es,
  match ev_take n es with
  | Some (a, es') => take n (bytes_of es) = Some (a, bytes_of es')
  | None => take n (bytes_of es) = None
  end.
Proof. exact ev_take_spec. Qed.
Print Assumptions C12_read_exact_events.

Theorem C12_read_varint_events : forall m es,
  match ev_varint m es with
  | Ok (z, es') => a_varint m (mkS (bytes_of es) r0) = Ok (z, mkS (bytes_of es') r0)
  | Err e => a_varint m (mkS (bytes_of es) r0) = Err e
  | Panic st => a_varint m (mkS (bytes_of es) r0) = Panic st
  end.
Proof. exact ev_varint_spec. Qed.
Print Assumptions C12_read_varint_events.

Theorem C12_read_exact_to_vec_events : forall step len es,
  match ev_read_exact_to_vec step len es with
  | Some (a, es') => take len (bytes_of es) = Some (a, bytes_of es')
  | None => take len (bytes_of es) = None
  end.
Proof. exact ev_read_exact_to_vec_spec. Qed.
Print Assumptions C12_read_exact_to_vec_events.

(* ---------- the emitted decode_async over a delivery schedule (GenAsyncEv.v, Proofs/AsyncEvGenP.v) ----------
   gen_decode_async_ev is GenAsync.gen_decode_async clause for clause with every read going through the event-level
   primitives of PV.Thrift.AsyncEv (the same stream definitions): scalars, strings / binaries (read_exact_to_vec, both paths,
   any poll size), the field / list / map headers, containers, nested structs and unions, the asynchronous skipper.
   For EVERY schema, declared type, protocol, fuel and reader context, for every event list whose chunks concatenate to l --
   any chunking, empty chunks, Pending tokens anywhere, EOF anywhere -- it returns what gen_decode_async returns on l:
   the same value, the same error, and the events left deliver exactly the bytes gen_decode_async leaves unread. *)
Theorem C12_gen_schedule_free : forall S step p fuel t es l rcx, bytes_of es = l ->
  match gen_decode_async_ev S step p fuel t (mkE es rcx) with
  | Ok (v, s') => gen_decode_async S p fuel t (mkS l rcx) = Ok (v, mkS (bytes_of (ebuf s')) (erc s'))
  | Err e => gen_decode_async S p fuel t (mkS l rcx) = Err e
  | Panic st => gen_decode_async S p fuel t (mkS l rcx) = Panic st
  end.
Proof. exact gen_async_schedule_free_ev. Qed.
Print Assumptions C12_gen_schedule_free.

(* any two delivery schedules of the same bytes, any poll sizes: same value / error, same bytes left, same reader context *)
Theorem C12_gen_two_schedules : forall S step1 step2 p fuel t es1 es2 rcx, bytes_of es1 = bytes_of es2 ->
  match gen_decode_async_ev S step1 p fuel t (mkE es1 rcx), gen_decode_async_ev S step2 p fuel t (mkE es2 rcx) with
  | Ok (v1, s1), Ok (v2, s2) => v1 = v2 /\ bytes_of (ebuf s1) = bytes_of (ebuf s2) /\ erc s1 = erc s2
  | Err e1, Err e2 => e1 = e2
  | Panic q1, Panic q2 => q1 = q2
  | _, _ => False
  end.
Proof. exact gen_async_two_schedules. Qed.
Print Assumptions C12_gen_two_schedules.

(* the asynchronous skipper alone *)
Theorem C12_gen_skip_schedule_free : forall step p f ty s,
  ev_eq (e_askip step p f ty s) (askip p f ty (abs s)).
Proof. exact e_askip_eq. Qed.
Print Assumptions C12_gen_skip_schedule_free.

(* lifted: EVERY decoder that uses the stream only through these reads (sprog: any continuation-passing composition of
   read_exact / read_varint_async / read_exact_to_vec, failures and returns; the reader context travels in the
   continuations) gives, on every delivery schedule, what it gives on the delivered bytes: value, error, bytes left.
   (The statement about gen_decode_async itself is C12_gen_schedule_free above; this one is about the whole class of
   decoders composed of the three reads.) *)
Theorem C12_gen_schedule_free_partial : forall A step (q : sprog A) es,
  match run_e step q es with
  | Ok (a, es') => run_b q (bytes_of es) = Ok (a, bytes_of es')
  | Err e => run_b q (bytes_of es) = Err e
  | Panic st => run_b q (bytes_of es) = Panic st
  end.
Proof. exact @run_schedule_free. Qed.
Print Assumptions C12_gen_schedule_free_partial.

(* any two schedules of the same bytes (any chunking, any number of Pending tokens anywhere, any poll sizes) *)
Theorem C12_two_schedules_partial : forall A step1 step2 (q : sprog A) es1 es2, bytes_of es1 = bytes_of es2 ->
  match run_e step1 q es1, run_e step2 q es2 with
  | Ok (a1, r1), Ok (a2, r2) => a1 = a2 /\ bytes_of r1 = bytes_of r2
  | Err e1, Err e2 => e1 = e2
  | Panic s1, Panic s2 => s1 = s2
  | _, _ => False
  end.
Proof. exact @run_two_schedules. Qed.
Print Assumptions C12_two_schedules_partial.

(* the seeded changes are variants of the event-level reads that FAIL the lemma: C12d (the buffer is rebuilt on every poll:
   what arrived before a Pending is lost) returns bytes 2..3 where the stream's first two were asked for; C12b / C02d
   (read_buf without the Take limit) consumes bytes that follow the value *)
Theorem C12_lossy_read_refuted :
  ev_read_exact_lossy (ev_fuel 2 es_x) 2 2 [] es_x = Some ([x02; x03], [Pend; Chunk [x04]]) /\
  take 2 (bytes_of es_x) = Some ([x01; x02], [x03; x04]).
Proof. exact lossy_read_refuted. Qed.
Print Assumptions C12_lossy_read_refuted.

Theorem C12_overread_refuted :
  let es := [Chunk [x01; x02; x03; x04; x05; x06]] in
  ev_read_vec_overread (fun _ => 4%nat) 2 es = Some ([x01; x02], []) /\
  take 2 (bytes_of es) = Some ([x01; x02], [x03; x04; x05; x06]).
Proof. exact overread_refuted. Qed.
Print Assumptions C12_overread_refuted.

(* same value, same stopping position: whenever the in-memory decoder returns [v] leaving state [s'] (in particular
   the unread rest of the buffer and the field-id context), the asynchronous decoder returns [v] and stops in the
   same state -- up to the pending-bool-field flag of the sync compact reader, which the async readers do not have
   ([erase] clears it).  It has pulled exactly the bytes the in-memory decoder consumed. *)
Theorem C12_gen_value : forall S p f t l rcx v s',
  r_pfield rcx = false -> Z.of_nat (length l) < 2 ^ 63 ->
  gen_decode S p f t (mkS l rcx) = Ok (v, s') ->
  gen_decode_async S p f t (mkS l rcx) = Ok (v, erase s').
Proof. exact gen_async_value. Qed.
Print Assumptions C12_gen_value.

Theorem C12_gen_value_top : forall S p t l v rest,
  Z.of_nat (length l) < 2 ^ 63 ->
  gen_decode_top S p t l = Ok (v, rest) -> gen_decode_async_top S p t l = Ok (v, rest).
Proof. exact gen_async_value_top. Qed.
Print Assumptions C12_gen_value_top.

(* composed with C02: every value of a declared type written by the emitted encoder is decoded asynchronously to
   the value (IDL defaults filled in), pulling exactly the bytes of the message and nothing of what follows *)
Theorem C12_gen_roundtrip : forall S p k t v,
  wf_schema S = true -> has_type S t v = true ->
  forall c, w_pend c = None ->
  exists ss, enc_ty S p k t v c = Ok (ss, c) /\
    forall fuel r rcx, (vsize (to_tval S t v) <= fuel)%nat -> idle rcx -> Z.of_nat (length (flat ss ++ r)) < 2 ^ 63 ->
      gen_decode_async S p fuel t (mkS (flat ss ++ r) rcx) = Ok (fill_defaults S t v, mkS r rcx).
Proof. exact gen_async_roundtrip. Qed.
Print Assumptions C12_gen_roundtrip.

(* the asynchronous decoders are monotone in what the stream delivers: a decode that succeeds when the stream ends
   after [rbuf s] succeeds with the same value when more bytes follow, and leaves them unpulled *)
Theorem C12_gen_async_monotone : forall S p f t s v s' tl,
  gen_decode_async S p f t s = Ok (v, s') -> gen_decode_async S p f t (PrefixP.ext s tl) = Ok (v, PrefixP.ext s' tl).
Proof. exact gen_decode_async_monotone. Qed.
Print Assumptions C12_gen_async_monotone.

(* the asynchronous decoders have no panic outcome in the model (the capacity-overflow panic / allocation abort of
   `with_capacity(wire count)` -- finding F-09e -- is an allocation effect the outcome type does not carry) *)
Theorem C12_gen_async_no_panic : forall S p f t s st, gen_decode_async S p f t s <> Panic st.
Proof. exact (fun S p f t => NP_gen_decode_async S p f t). Qed.
Print Assumptions C12_gen_async_no_panic.

(* (gen-B; superseded by C12_gen_error below -- both missing parts are now proved -- kept because C09 / C02 use it)
   FULL STATEMENT (C12_gen_error):  forall l, gen_decode S p f t (mkS l rcx) = Err e ->
                                     exists e', gen_decode_async S p f t (mkS l rcx) = Err e' /\ e' <> EOutOfFuel.
   Proved part: the inputs the property names -- "prefixes of valid input: async sees EOF": when the stream ends
   strictly inside a message written by the emitted encoder (where the in-memory decoder reports an error,
   C09_gen_prefix), the asynchronous decoder does not return a value, it returns an error.
   Missing: (1) arbitrary corrupted inputs: the async readers do not validate container counts against the
   remaining length (they cannot), so "sync error => async error" needs a progress argument per element type
   (every element consumes a byte, except a bool riding in a compact field header); (2) the statement does not
   exclude that the error is the model's fuel exhaustion (that needs the converse of C12_gen_async_monotone:
   a run on a truncated stream follows the run on the full stream up to the first EOF). *)
Theorem C12_gen_error_partial : forall S p k t v,
  wf_schema S = true -> has_type S t v = true ->
  forall c, w_pend c = None ->
  exists ss, enc_ty S p k t v c = Ok (ss, c) /\
    forall n fuel rcx, (n < length (flat ss))%nat -> (vsize (to_tval S t v) <= fuel)%nat -> idle rcx ->
      Z.of_nat (length (flat ss)) < 2 ^ 63 ->
      exists e, gen_decode_async S p fuel t (mkS (firstn n (flat ss)) rcx) = Err e.
Proof. exact gen_async_prefix_error. Qed.
Print Assumptions C12_gen_error_partial.

(* ---------- the error direction on ARBITRARY input (gen-C; lemmas in Proofs/AsyncErrGenP.v) ----------

   From an idle reader, on ANY byte string (corrupted counts and lengths, wrong wire types, truncations, garbage),
   binary / binary-LE / compact: whenever the emitted in-memory decoder of a struct or union (the types that have a
   `decode_async`; is_message, ErrSpec.v) returns an error, the emitted asynchronous decoder returns an error -- never a
   value.  elems_ok S (decidable): no container of the schema has a void element type (not writable in IDL).

   The invariant is the potential  phi = bytes left + (1 if a bool value is pending):  the union template matches a
   variant on the id only (F-08a), so a compact bool field header can be followed by the reader of another type and its
   value stays pending (the primitive-level invariant "nothing is pending except right after a bool header" fails); but
   every successful read of a non-void value lowers phi by at least 1 and no header raises it, so an asynchronous
   decoder that runs past a count the in-memory reader rejected ends with an error or STARVED (phi = 0) -- and the
   Stop header every struct / union still owes cannot be read from a starved state. *)
Theorem C12_gen_error_anyfuel : forall S p f t l rcx e,
  elems_ok S = true -> is_message S t = true ->
  idle rcx -> Z.of_nat (length l) < 2 ^ 63 ->
  gen_decode S p f t (mkS l rcx) = Err e ->
  exists e', gen_decode_async S p f t (mkS l rcx) = Err e'.
Proof. exact gen_async_error. Qed.
Print Assumptions C12_gen_error_anyfuel.

(* ---------- fuel adequacy (lemmas in Proofs/AsyncFuelP.v) ----------
   The fuel of the model decoders bounds recursion depth and loops; the emitted code does not count.  fuel_bound n = n + 2
   (ErrSpec.v).  With fuel >= fuel_bound |input| the asynchronous model decoder NEVER returns the out-of-fuel outcome:
   on any byte string, for every declared type, from any reader state (a stale pending bool value included), all three
   protocols -- and never panics, and a value leaves at most the input unread.  Every level of recursion costs a byte
   (field header, container header); every container-loop iteration costs a byte or the one pending bool (potential
   phi); every struct-loop iteration costs a byte. *)
Theorem C12_gen_fuel_adequate : forall S p f t l rcx,
  elems_ok S = true -> ty_elems_ok S t = true -> (fuel_bound (length l) <= f)%nat ->
  gen_decode_async S p f t (mkS l rcx) <> Err EOutOfFuel /\
  (forall st, gen_decode_async S p f t (mkS l rcx) <> Panic st) /\
  (forall v s', gen_decode_async S p f t (mkS l rcx) = Ok (v, s') -> (blen s' <= length l)%nat).
Proof. exact gen_async_fuel_adequate. Qed.
Print Assumptions C12_gen_fuel_adequate.

(* ... the asynchronous skipper likewise *)
Theorem C12_gen_fuel_adequate_skip : forall p f ty l rcx,
  (fuel_bound (length l) <= f)%nat -> PV.Thrift.Skip.askip p f ty (mkS l rcx) <> Err EOutOfFuel.
Proof. exact askip_fuel_adequate. Qed.
Print Assumptions C12_gen_fuel_adequate_skip.

(* ... and above the bound the fuel is not observable at all: same outcome for any two adequate fuels *)
Theorem C12_gen_fuel_irrelevant : forall S p f1 f2 t l rcx,
  elems_ok S = true -> ty_elems_ok S t = true ->
  (fuel_bound (length l) <= f1)%nat -> (fuel_bound (length l) <= f2)%nat ->
  gen_decode_async S p f2 t (mkS l rcx) = gen_decode_async S p f1 t (mkS l rcx).
Proof. exact gen_async_fuel_irrelevant. Qed.
Print Assumptions C12_gen_fuel_irrelevant.

(* the runner's entry point (fuel |input| + 80) is adequate *)
Theorem C12_gen_async_top_total : forall S p t l,
  elems_ok S = true -> ty_elems_ok S t = true ->
  gen_decode_async_top S p t l <> Err EOutOfFuel /\ forall st, gen_decode_async_top S p t l <> Panic st.
Proof. exact gen_async_top_adequate. Qed.
Print Assumptions C12_gen_async_top_total.

(* C12_gen_error at full strength: under adequate fuel both errors are errors of the DECODERS -- neither the in-memory
   error (C09_gen_total_fuel) nor the asynchronous one is the model's fuel exhaustion *)
Theorem C12_gen_error : forall S p f t l rcx e,
  elems_ok S = true -> is_message S t = true ->
  idle rcx -> Z.of_nat (length l) < 2 ^ 63 -> (fuel_bound (length l) <= f)%nat ->
  gen_decode S p f t (mkS l rcx) = Err e ->
  e <> EOutOfFuel /\ exists e', gen_decode_async S p f t (mkS l rcx) = Err e' /\ e' <> EOutOfFuel.
Proof. exact gen_async_error_strong. Qed.
Print Assumptions C12_gen_error.

(* value and error direction in one statement, under adequate fuel: the same value and stopping position (C12_gen_value),
   or two genuine errors *)
Theorem C12_gen_outcome : forall S p f t l rcx,
  elems_ok S = true -> is_message S t = true ->
  idle rcx -> Z.of_nat (length l) < 2 ^ 63 -> (fuel_bound (length l) <= f)%nat ->
  match gen_decode S p f t (mkS l rcx) with
  | Ok (v, s') => gen_decode_async S p f t (mkS l rcx) = Ok (v, erase s')
  | Err e => e <> EOutOfFuel /\ exists e', gen_decode_async S p f t (mkS l rcx) = Err e' /\ e' <> EOutOfFuel
  | Panic _ => True
  end.
Proof. exact gen_async_outcome. Qed.
Print Assumptions C12_gen_outcome.

Theorem C12_gen_error_top : forall S p t l e,
  elems_ok S = true -> is_message S t = true -> Z.of_nat (length l) < 2 ^ 63 ->
  gen_decode_top S p t l = Err e -> exists e', gen_decode_async_top S p t l = Err e'.
Proof. exact gen_async_error_top. Qed.
Print Assumptions C12_gen_error_top.

(* every declared type, message or not: the asynchronous decoder fails, or returns with the stream exhausted and no bool
   value pending *)
Theorem C12_gen_error_any : forall S p f t l rcx e,
  elems_ok S = true -> ty_elems_ok S t = true ->
  idle rcx -> Z.of_nat (length l) < 2 ^ 63 ->
  gen_decode S p f t (mkS l rcx) = Err e ->
  (exists e', gen_decode_async S p f t (mkS l rcx) = Err e') \/
  (exists v s2, gen_decode_async S p f t (mkS l rcx) = Ok (v, s2) /\ rbuf s2 = [] /\ r_pbool (rc s2) = None).
Proof. exact gen_async_error_any. Qed.
Print Assumptions C12_gen_error_any.

(* the restriction to message types is needed in the model: for the bare container map<U, list<bool>>, U = union {1: i32},
   compact, the in-memory decoder rejects the list count and the asynchronous decoder returns a value (the free pending
   bool).  Not observable on the emitted code: no decode entry point takes a bare container, and inside a struct the
   Stop header is owed (AsyncErrGenP.gen_async_error_nonvacuous replays the same bytes inside a struct). *)
Theorem C12_gen_error_container_refuted :
  wf_schema Sx = true /\ elems_ok Sx = true /\ ty_elems_ok Sx Tx = true /\ is_message Sx Tx = false /\
  gen_decode Sx PCompact 40 Tx (mkS bx r0) = Err ESizeLimit /\
  gen_decode_async Sx PCompact 40 Tx (mkS bx r0) = Ok (GMap [(GUnion 1 (GI32 0), GList [GBool true])], mkS [] r0).
Proof. exact gen_async_error_container_refuted. Qed.
Print Assumptions C12_gen_error_container_refuted.

(* ---------- the EMITTED decode_async bodies, lowered (tools/emitted_ops.py, on every run; see Properties/C02.v) ---------- *)
From PVGen Require Import EmitOps Generated.EmittedOps Proofs.EmitTableP.

(* the table lemma for decode_async, by computation, plain and keep_unknown_fields configurations: the regenerated async
   decoder of every type of the corpus is the one the template prescribes (GenAsync.v's shape) *)
Theorem C12_emitted_async_match :
  aops_match schema_plain false emitted_plain_async /\ aops_match schema_keep true emitted_keep_async /\
  length emitted_plain_async = length schema_plain /\ length emitted_keep_async = length schema_keep.
Proof. exact emitted_async_match. Qed.
Print Assumptions C12_emitted_async_match.

(* per type: the arms of the sync decoder read with .await; no length calls, no countdown and NO retention statement -- also
   in the keep configuration, where the sync decoder of the same type has them (the structural content of finding F-12a) *)
Theorem C12_emitted_async_arms : forall n r ck em S,
  (ck = false /\ em = emitted_plain_async /\ S = schema_plain) \/ (ck = true /\ em = emitted_keep_async /\ S = schema_keep) ->
  nth_error em n = Some r ->
  (forall fs keep ia, lookup S n = Some (DStruct fs keep ia) ->
     exists d, r = AStruct d /\ norm_ds d = presc_dstruct_async S ck fs keep /\
               ds_unk d = false /\ ds_push d = false /\ ds_skip_all d = false /\ ds_count d = false) /\
  (forall vs vo keep, lookup S n = Some (DUnion vs vo keep) ->
     exists d, r = AUnion d /\ norm_du d = presc_dunion_async S vs vo /\ du_unknown d = false).
Proof. exact emitted_async_arms. Qed.
Print Assumptions C12_emitted_async_arms.
