(* LEB128 varints and zigzag, as implemented by integer-encoding 4.0.2 and
   pilota's VarIntProcessor (pilota/src/thrift/varint_ext.rs). *)
From PV Require Export Base.Res.
From Coq Require Import ZifyN ZifyNat ZifyBool.
Open Scope Z_scope.

Definition two64 : Z := 2 ^ 64.

(* u64::encode_var: while n >= 0x80 { MSB | n as u8; n >>= 7 }; n as u8 *)
Fixpoint enc_var (fuel : nat) (n : Z) : list byte :=
  match fuel with
  | O => [z2b n]
  | S f => if n <? 128 then [z2b n] else z2b (128 + n mod 128) :: enc_var f (n / 128)
  end.

Definition encode_var (n : Z) : list byte := enc_var 9 n.

(* zigzag_encode / zigzag_decode on i64/u64 *)
Definition zigzag (v : Z) : Z := if v <? 0 then - 2 * v - 1 else 2 * v.
Definition unzigzag (n : Z) : Z := if n mod 2 =? 0 then n / 2 else - (n / 2) - 1.

(* required_encoded_space_unsigned *)
Fixpoint req_loop (fuel : nat) (v : Z) : Z :=
  match fuel with
  | O => 0
  | S f => if v <=? 0 then 0 else 1 + req_loop f (v / 128)
  end.
Definition required_space_u (v : Z) : Z := if v =? 0 then 1 else req_loop 10 v.
Definition required_space_s (v : Z) : Z := required_space_u (zigzag v).

(* VarIntProcessor + read loop: at most [k] bytes are accepted; a further
   byte is consumed before "Unterminated varint" is reported. *)
Fixpoint rd_var (k : nat) (shift acc : Z) (buf : list byte) : res (Z * list byte) :=
  match k with
  | O => match buf with
         | [] => Err EInvalidData
         | _ :: _ => Err ETransport
         end
  | S k' =>
      match buf with
      | [] => Err EInvalidData
      | b :: rest =>
          let d := b2z b in
          let acc' := acc + (d mod 128) * 2 ^ shift in
          if d <? 128 then Ok (acc' mod two64, rest) else rd_var k' (shift + 7) acc' rest
      end
  end.

Definition read_var_u64 (maxsize : nat) (buf : list byte) : res (Z * list byte) :=
  rd_var maxsize 0 0 buf.

(* maxsize per Rust type: (size_of * 8 + 7) / 7 *)
Definition maxsize_16 : nat := 3.
Definition maxsize_32 : nat := 5.
Definition maxsize_64 : nat := 10.
