(* C13: the statements of the property assembled from KeepP (decode), KeepViewP (known fields unchanged, uuids),
   KeepSizeP (size), EvoTopP (C08 for the plain build). *)
From PVGen Require Import Gen GenKeep GenSpec EvoSpec KeepSpec Proofs.GenBase Proofs.EncP Proofs.EvoBase Proofs.EvoP
  Proofs.EvoErrP Proofs.EvoTopP Proofs.KeepBase Proofs.KeepP Proofs.KeepSizeP Proofs.KeepViewP.
From PV Require Import Proofs.TablesP Proofs.PrimP Proofs.HeaderP Proofs.RoundtripP.
Open Scope Z_scope.

(* the keep build and the plain build on the same message: same outcome, same end position, and the decoded values
   differ only by the retained chunks *)
Theorem keep_known_unchanged : forall S p k T tv,
  wf_schema S = true -> no_keep_arg S = true -> p <> PCompact ->
  wt tv = true -> ttype_of tv = ttype_of_ty S T ->
  evo_dom S T tv = true -> no_retyped_variant S T tv = true -> unions_single S T tv = true ->
  forall c, w_pend c = None ->
  exists ss, write_val p k tv c = Ok (ss, c) /\
    forall fuel r rcx, (vsize tv <= fuel)%nat -> idle rcx ->
      gen_decode S p fuel T (mkS (flat ss ++ r) rcx) =
      match gen_decode_keep S p fuel T (mkS (flat ss ++ r) rcx) with
      | Ok (g, s) => Ok (strip g, s)
      | Err e => Err e
      | Panic q => Panic q
      end.
Proof.
  intros S p k T tv Hwf Hnka Hbin Hwt Hty Hd Hn Hu c Hc.
  destruct (keep_decode S p k T tv Hnka Hbin Hwt Hty Hd Hn c Hc) as (ss & Hw & Hk).
  destruct (evo_tolerant S p k T tv Hwt Hty Hd Hn c Hc) as (ss' & Hw' & Hv).
  rewrite Hw in Hw'. injection Hw' as <-.
  exists ss. split; [exact Hw|]. intros fuel r rcx Hf Hi.
  rewrite (Hk fuel r rcx Hf Hi), (Hv fuel r rcx Hf Hi), (viewk_strip S p k c tv T Hwf Hn Hu). unfold rmap.
  destruct (viewk S p k c T tv); reflexivity.
Qed.

(* size() of whatever the keep decoder returned is the number of bytes encode() writes for it *)
Theorem keep_decoded_size : forall S p k c T tv g b,
  wf_schema S = true -> p <> PCompact -> wt tv = true ->
  viewk S p k c T tv = Ok g -> gen_encode S p k T g = Ok b -> gen_size S p T g = Ok (Z.of_nat (length b)).
Proof.
  intros S p k c T tv g b Hwf Hbin Hwt Hv He.
  exact (keep_size_exact S p k T g b Hbin (viewk_uuids S p k c tv T g Hwf Hwt Hv) He).
Qed.
