(* C15 -- the Thrift IDL parser inverts printing, independent of layout.
   Only statements, each closed by [exact] of a lemma proved in Proofs/, with Print Assumptions beneath.

   Print.v defines the printer: a layout is a concrete syntax tree (the document plus, at every slot, the blank,
   separator and quote style chosen there); [pr_* c k] is the text of c followed by k, [erase_* c] the document.

   FULL STATEMENT (DESIGN.md 5.15), not yet proved for the whole grammar:
     C15_roundtrip   : wf_file c -> parse_file (pr_file c []) = POk [] (erase_file c)
     C15_layout_free : wf_file c1 -> wf_file c2 -> erase_file c1 = erase_file c2 ->
                       parse_file (pr_file c1 []) = parse_file (pr_file c2 [])
   What is proved is listed below, production by production (the theorems C15_roundtrip_partial_xxx); the productions that are
   not listed (see fam/idl/NOTES.md) are carried by the three-way correspondence of pv/props/c15.py. *)
From PVIdl Require Import Comb Ast Parser Print Proofs.Total Proofs.RoundTok Proofs.RoundPath Proofs.RoundAnn Proofs.RoundTy
  Proofs.RoundKit Proofs.RoundNum Proofs.RoundConst Proofs.RoundItem.

(* identifiers, followed by anything that does not continue a word *)
Theorem C15_roundtrip_partial_ident : forall s k,
  is_ident s = true -> hd_sat (fun b => negb (identch b)) k = true -> p_ident (s ++ k) = POk k s.
Proof. exact rt_ident. Qed.
Print Assumptions C15_roundtrip_partial_ident.

(* a keyword is read as the keyword only as a whole word ... *)
Theorem C15_keyword_whole_word : forall kw k, wordend k = true -> p_keyword kw (kw ++ k) = POk k tt.
Proof. exact rt_keyword. Qed.
Print Assumptions C15_keyword_whole_word.

(* ... and an identifier that merely begins with a keyword (optionalFoo, trueish, i32x, required_t), or does not
   begin with it, is not read as the keyword *)
Theorem C15_keyword_prefix : forall kw s k,
  forallb identch kw = true -> is_ident s = true -> hd_sat (fun b => negb (identch b)) k = true ->
  bytes_eq s kw = false -> is_perr (p_keyword kw (s ++ k)).
Proof. exact keyword_not_ident. Qed.
Print Assumptions C15_keyword_prefix.

(* blanks: any non-empty sequence of white-space runs and comments in the three styles *)
Theorem C15_roundtrip_partial_blank : forall lf bl k,
  wf_blank bl = true -> bl <> [] -> nb k = true -> (length (pr_blank bl k) < lf)%nat ->
  p_blank lf (pr_blank bl k) = POk k tt.
Proof. exact rt_blank. Qed.
Print Assumptions C15_roundtrip_partial_blank.

(* optional blank slots, empty or not *)
Theorem C15_roundtrip_partial_opt_blank : forall lf bl k,
  wf_blank bl = true -> nb k = true -> (length (pr_blank bl k) < lf)%nat ->
  exists o, opt (p_blank lf) (pr_blank bl k) = POk k o.
Proof. exact rt_oblank. Qed.
Print Assumptions C15_roundtrip_partial_opt_blank.

(* optional list separators: none, ',' or ';' (followed by an optional blank) *)
Theorem C15_roundtrip_partial_separator : forall lf s k,
  wf_sep s = true -> nb k = true -> hd_sat (fun b => negb (bmem b set_list_separator)) k = true ->
  (length (pr_sep s k) < lf)%nat ->
  exists o, opt (p_list_separator lf) (pr_sep s k) = POk k o.
Proof. exact rt_sep. Qed.
Print Assumptions C15_roundtrip_partial_separator.

(* literals in both quote styles, with the four escapes; followed by anything *)
Theorem C15_roundtrip_partial_literal : forall lf l k,
  wf_lit l = true -> (length (pr_lit l k) < lf)%nat -> p_literal lf (pr_lit l k) = POk k (erase_lit l).
Proof. exact rt_literal. Qed.
Print Assumptions C15_roundtrip_partial_literal.

(* paths: identifiers separated by '.', with any blanks around the dots; followed by something that does not
   continue the last word and is not (after a blank) a dot *)
Theorem C15_roundtrip_partial_path : forall lf whole, (length whole < lf)%nat -> forall p k,
  wf_path p = true -> pfollow lf k -> sfx (pr_path p k) whole ->
  p_path lf (pr_path p k) = POk k (erase_path p).
Proof. exact rt_path. Qed.
Print Assumptions C15_roundtrip_partial_path.

(* annotation lists  ( key = 'value' [,;] ... )  with every blank slot, both quote styles, optional separators; followed
   by anything *)
Theorem C15_roundtrip_partial_annotations : forall lf whole, (length whole < lf)%nat -> forall l k,
  wf_anns l = true -> sfx (pr_anns l k) whole -> p_annotations lf (pr_anns l k) = POk k (erase_anns l).
Proof. exact rt_anns. Qed.
Print Assumptions C15_roundtrip_partial_annotations.

(* the cpp_type clause of a container type *)
Theorem C15_roundtrip_partial_cpp_type : forall lf whole, (length whole < lf)%nat -> forall c k,
  wf_cpp c = true -> sfx (pr_cpp c k) whole ->
  (fun i => pbind (p_blank lf i) (fun i _ => p_cpp_type lf i)) (pr_cpp c k) = POk k (erase_lit (cc_lit c)).
Proof. exact rt_cpp. Qed.
Print Assumptions C15_roundtrip_partial_cpp_type.

(* TYPES, recursive to any depth (base types, list / set / map with cpp_type clauses, paths incl. keyword-prefixed
   names, annotation lists on every type), every layout: Type::parse inverts printing.  The parser tries a cpp_type
   clause, a '.' and an annotation list after every type; [tyfollow] says the text that follows is not mistaken for them.
   [whole] is any text the printed type is a suffix of, [lf] any loop fuel above its length (parse_file uses |s|+1),
   [df] any depth fuel above the nesting of the type. *)
Theorem C15_roundtrip_partial_type : forall lf whole, (length whole < lf)%nat -> forall df t k,
  (type_depth t < df)%nat -> wf_type t = true -> tyfollow lf (type_ends_word t) k ->
  sfx (pr_type t k) whole ->
  p_type lf df (pr_type t k) = POk k (erase_type t).
Proof. exact rt_type. Qed.
Print Assumptions C15_roundtrip_partial_type.

(* layout independence, for the part proved: two layouts of the same type give the same tree *)
Theorem C15_layout_free_partial_type : forall lf whole1 whole2 df t1 t2 k1 k2,
  (length whole1 < lf)%nat -> (length whole2 < lf)%nat ->
  (type_depth t1 < df)%nat -> wf_type t1 = true -> tyfollow lf (type_ends_word t1) k1 -> sfx (pr_type t1 k1) whole1 ->
  (type_depth t2 < df)%nat -> wf_type t2 = true -> tyfollow lf (type_ends_word t2) k2 -> sfx (pr_type t2 k2) whole2 ->
  erase_type t1 = erase_type t2 ->
  exists a, p_type lf df (pr_type t1 k1) = POk k1 a /\ p_type lf df (pr_type t2 k2) = POk k2 a.
Proof. exact type_layout_free. Qed.
Print Assumptions C15_layout_free_partial_type.

(* integer constants as spelled by the layout: any number of minus signs, decimal or 0x hexadecimal digits, magnitude
   within i64; the value is positional notation, negated for an odd number of signs *)
Theorem C15_roundtrip_partial_int : forall lf i k,
  wf_int i = true -> nid k = true -> (length (pr_int i k) < lf)%nat ->
  p_int_constant lf (pr_int i k) = POk k (erase_int i).
Proof. exact rt_int. Qed.
Print Assumptions C15_roundtrip_partial_int.

(* double constants (the parser keeps the text): optional '-', optional '+', the three body forms, exponents that are
   integer constants *)
Theorem C15_roundtrip_partial_double : forall lf d k,
  wf_dbl d = true -> nid k = true -> (length (pr_dbl d k) < lf)%nat ->
  p_double_constant lf (pr_dbl d k) = POk k (erase_dbl d).
Proof. exact rt_dbl. Qed.
Print Assumptions C15_roundtrip_partial_double.

(* CONSTANT VALUES: ConstValue::parse with its eight alternatives, lists and maps nested to any depth, every blank slot,
   separators ',' ';' or none between the elements.  [cvfollow]: a value that ends with a word or a number is followed by
   (a blank and) something that does not continue it *)
Theorem C15_roundtrip_partial_const_value : forall lf whole, (length whole < lf)%nat -> forall d v k,
  (cv_depth v < d)%nat -> wf_const v = true -> cvfollow (const_ends_word v) (const_is_path v) k ->
  sfx (pr_const v k) whole ->
  p_const_value lf d (pr_const v k) = POk k (erase_const v).
Proof. exact rt_const. Qed.
Print Assumptions C15_roundtrip_partial_const_value.

(* the typedef production (typedef <blank> T <blank> alias [blank] [annotations] [separator]); [stop k]: what follows is
   not a blank start, a separator, '(' or a quote; if the declaration ends with a word, what follows ends the word *)
Theorem C15_roundtrip_partial_typedef : forall lf whole, (length whole < lf)%nat -> forall df c k,
  wf_typedef c = true -> (type_depth (ctd_type c) < df)%nat ->
  stop k = true -> (typedef_ends_word c = true -> wstop k = true) -> sfx (pr_typedef c k) whole ->
  p_typedef lf df (pr_typedef c k) = POk k (erase_typedef c).
Proof. exact rt_typedef. Qed.
Print Assumptions C15_roundtrip_partial_typedef.
