(* C06 -- Protobuf wire format conforms to the protobuf encoding spec (interop).
   Spec.v is written from the encoding guide, independently of pilota's code.  Only statements. *)
From PVPb Require Import Wire Codec Msg Spec Proofs.SpecP.
Open Scope Z_scope.

(* The link between "declared sint32" and "uses the sint32 codec": for all 16 declared scalar types
   (15 scalars + enum) the module selected by the REGENERATED tables -- parser/protobuf lower_ty,
   resolve.rs lower_type, ProtobufBackend::ty_module and ty_category arms, first match wins -- is the
   one the encoding guide prescribes.  By computation over the regenerated tables. *)
Theorem C06_module_table : forall t, In t declared_scalars ->
  scalar_module t = spec_module t /\ spec_module t <> None.
Proof. exact module_table. Qed.
Print Assumptions C06_module_table.

Theorem C06_message_table : module_of_decl TYPE_MESSAGE = Some MMessage /\ category_of_decl TYPE_MESSAGE = Some CatMessage /\
  scalar_module TYPE_MESSAGE = None /\ module_of_decl TYPE_GROUP = None.
Proof. exact message_table. Qed.
Print Assumptions C06_message_table.

(* out direction, field level: for every declared scalar type, every field number and every value of the
   type, the bytes pilota's selected codec writes ARE the bytes the guide prescribes (ZigZag for sint,
   little-endian fixed widths, sign-extended negative int32, length-delimited strings) *)
Theorem C06_scalar_out : forall t m tag v, In t declared_scalars -> scalar_module t = Some m -> tag_ok tag ->
  spec_value_ok t v = true ->
  encode_scalar m tag v = spec_encode_field t tag v.
Proof. exact spec_scalar_bytes. Qed.
Print Assumptions C06_scalar_out.

(* in direction, field level: what a conforming encoder writes, pilota's selected codec reads back,
   consuming exactly the record *)
Theorem C06_scalar_in : forall t m tag v r a, In t declared_scalars -> scalar_module t = Some m -> tag_ok tag ->
  spec_value_ok t v = true ->
  bind decode_key (fun k => merge_scalar m (snd k)) (mkR (spec_encode_field t tag v ++ r) a)
  = OOk v (mkR r (a + payload_cost m v)).
Proof. exact spec_scalar_in. Qed.
Print Assumptions C06_scalar_in.

(* repeated numeric fields: the packed record of a conforming encoder is accepted (pilota itself writes
   the unpacked form, C05_repeated_rt; both are accepted by merge_repeated) *)
Theorem C06_packed_in : forall t m tag vs acc r a, In t declared_scalars -> scalar_module t = Some m ->
  numeric_mod m = true -> tag_ok tag -> vs <> [] -> Forall (fun v => spec_value_ok t v = true) vs ->
  zlen (flat_map (spec_payload t) vs) < two64 ->
  bind decode_key (fun k => merge_repeated m (snd k) acc) (mkR (spec_encode_packed t tag vs ++ r) a)
  = OOk (acc ++ vs) (mkR r (a + Z.of_nat (length vs))).
Proof. exact spec_packed_in. Qed.
Print Assumptions C06_packed_in.

(* NOT PROVED (message level; validated by the correspondence runs model = reference decoder = implementation):
   C06_out : schema_ok sc -> wt_msg d sc i x = true ->
             spec_decode_msg sc i (enc_msg edv d sc i x) = Some (norm x)
   C06_in  : pb_legal sc i x l -> msg_decode sc i (mkR l 0) = OOk x (mkR [] _)
   for every order of records, packed/unpacked/mixed repeated scalars and defaults present or omitted. *)
