(* C19, protobuf half: ownership view of the protobuf decoders.
   The generated protobuf decoders and the prost runtime build values with safe Rust only -- every container is filled
   through push / insert / assignment, so an error return drops whatever was built (this is what the regenerated
   inventory records: there is no set_len, no ManuallyDrop, no from_raw_parts, no into_raw, no Box::leak, and no
   raw-pointer write).  The single ownership-relevant escape hatch is string::merge: it lets bytes::merge_one_copy
   write into the Vec behind a fresh String (String::as_mut_vec) under a drop guard that clears the Vec on every exit
   except the one where the bytes were checked to be UTF-8, where the guard is forgotten and the String is moved into
   the field.  Model only -- lemmas live in Proofs/GuardP.v. *)
From PVPb Require Export Codec GuardTypes Generated.PbUnsafe.
Open Scope Z_scope.

(* the sites this model accounts for, in source order *)
Definition accounted_sites : list (pb_src * usite) :=
  map (fun i => (SrcEncoding, UGetUnchecked i)) [0; 1; 2; 3; 4; 5; 6; 7; 8; 9]
  ++ [(SrcEncoding, UStringGuardBlock); (SrcEncoding, UForgetDropGuard)].
  (* (faststr::merge went through `unsafe { FastStr::from_bytes_unchecked(bytes) }` until the repair of F-10b; the checked
     FastStr::from_bytes it calls now is safe code: a reappearing UFastStrUnchecked site breaks C19_pb_inventory) *)

Fixpoint sites_eqb (a b : list (pb_src * usite)) : bool :=
  match a, b with
  | [], [] => true
  | (s, u) :: a', (t, v) :: b' => pb_src_eqb s t && usite_eqb u v && sites_eqb a' b'
  | _, _ => false
  end.

(* string::merge with the local String `empty` made explicit.  [junk] = whatever a panicking Buf implementation
   managed to write into the Vec before unwinding (arbitrary).  The second component is the content of `empty`'s Vec
   at the moment the function is left (normally, by `?`, or by unwinding) -- i.e. what a String with that backing Vec
   would expose if anyone could still see it. *)
Definition string_merge_own (drop_clears forgotten_on_ok forgotten_elsewhere : bool) (junk : list byte)
           (wt : wire_type) (s : rd) : out val * list byte :=
  let cleared (content : list byte) := if forgotten_elsewhere then content else if drop_clears then [] else content in
  match bytes_merge_one_copy wt s with
  | OOk v s' =>
      let bs := vbytes v in
      if utf8_valid bs then
        (* Ok arm: mem::forget(drop_guard); *value = S::from(empty) *)
        (OOk v s', if forgotten_on_ok then bs else if drop_clears then [] else bs)
      else (OErr PUtf8 s', cleared bs)          (* Err arm: the guard is dropped *)
  | OErr e s' => (OErr e s', cleared [])        (* `?`: nothing was written yet, the guard is dropped *)
  | OPanic p => (OPanic p, cleared junk)        (* unwinding drops the guard *)
  end.

(* the instance the source describes (flags regenerated from the text of string::merge) *)
Definition string_merge_src (junk : list byte) (wt : wire_type) (s : rd) : out val * list byte :=
  string_merge_own guard_drop_clears guard_forgotten_on_ok guard_forgotten_elsewhere junk wt s.
