(* C09 (last sentence): every strict prefix of a valid encoding is rejected with an error.
   Key lemma: the readers are monotone in the input -- if a read succeeds on a buffer, it succeeds
   with the same value on any extension of that buffer, leaving the extension unread. *)
From PV Require Import Thrift.Interp Proofs.VarintP Proofs.TablesP Proofs.PrimP Proofs.HeaderP Proofs.RoundtripP Proofs.TotalP Proofs.SkipP.
From Coq Require Import ZifyN ZifyNat ZifyBool.
Open Scope Z_scope.

Definition ext (s : rst) (t : list byte) : rst := mkS (rbuf s ++ t) (rc s).

Definition EXT {A} (m : rm A) : Prop :=
  forall s x s' t, m s = Ok (x, s') -> m (ext s t) = Ok (x, ext s' t).

Lemma EXT_bind {A B} (m : rm A) (f : A -> rm B) :
  EXT m -> (forall x, EXT (f x)) -> EXT (fun s => let* (x, s1) := m s in f x s1).
Proof.
  intros Hm Hf s y s' t H. binv H. rewrite (Hm _ _ _ t E). cbn [bind]. apply Hf, H.
Qed.

Lemma EXT_ret {A} (x : A) : EXT (fun s => Ok (x, s)).
Proof. intros s y s' t H. injection H as <- <-. reflexivity. Qed.

Lemma EXT_map {A B} (m : rm A) (g : A -> B) : EXT m -> EXT (fun s => let* (x, s1) := m s in Ok (g x, s1)).
Proof. intros H. apply (EXT_bind m (fun x s1 => Ok (g x, s1))); auto. intros x. apply EXT_ret. Qed.

Lemma ext_set_rc s c t : ext (set_rc s c) t = set_rc (ext s t) c.
Proof. reflexivity. Qed.

Lemma EXT_take n : EXT (r_take n).
Proof.
  intros s a s' t H. unfold r_take in *. cbn [ext rbuf].
  destruct (take n (rbuf s)) as [[a' r]|] eqn:E; [|discriminate]. injection H as <- <-.
  apply take_some in E as [E1 E2]. rewrite E1, <- app_assoc, take_app by exact E2.
  unfold set_buf, ext. cbn [rbuf rc]. reflexivity.
Qed.

Lemma rd_var_ext : forall k sh acc buf n rest t,
  rd_var k sh acc buf = Ok (n, rest) -> rd_var k sh acc (buf ++ t) = Ok (n, rest ++ t).
Proof.
  induction k as [|k IH]; intros sh acc buf n rest t H; cbn [rd_var] in *.
  - destruct buf; discriminate.
  - destruct buf as [|b r]; [discriminate|]. cbn [app].
    destruct (b2z b <? 128); [injection H as <- <-; reflexivity|]. apply IH, H.
Qed.

Lemma EXT_varint m : EXT (r_varint m).
Proof.
  intros s n s' t H. unfold r_varint, read_var_u64 in *. cbn [ext rbuf].
  destruct (rd_var m 0 0 (rbuf s)) as [[n' r]| |] eqn:E; cbn [bind] in *; try discriminate.
  injection H as <- <-. rewrite (rd_var_ext _ _ _ _ _ _ t E). reflexivity.
Qed.

Lemma EXT_byte : EXT r_byte.
Proof. apply (EXT_map _ of_le), EXT_take. Qed.
Lemma EXT_i8 : EXT r_i8.
Proof. apply (EXT_map _ (fun a => wrap_s 8 (of_le a))), EXT_take. Qed.
Lemma EXT_fixed p n b : EXT (r_fixed p n b).
Proof. apply (EXT_map _ (fun a => wrap_s b (unfx p a))), EXT_take. Qed.
Lemma EXT_i16 p : EXT (r_i16 p).
Proof. destruct p; cbn [r_i16]; try apply EXT_fixed. apply (EXT_map _ (fun n => wrap_s 16 (unzigzag n))), EXT_varint. Qed.
Lemma EXT_i32 p : EXT (r_i32 p).
Proof. destruct p; cbn [r_i32]; try apply EXT_fixed. apply (EXT_map _ (fun n => wrap_s 32 (unzigzag n))), EXT_varint. Qed.
Lemma EXT_i64 p : EXT (r_i64 p).
Proof. destruct p; cbn [r_i64]; try apply EXT_fixed. apply (EXT_map _ (fun n => wrap_s 64 (unzigzag n))), EXT_varint. Qed.
Lemma EXT_double p : EXT (r_double p).
Proof. apply (EXT_map _ (fun a => match p with PBinary => of_be a | _ => of_le a end)), EXT_take. Qed.
Lemma EXT_uuid : EXT r_uuid.
Proof. apply EXT_take. Qed.

Lemma EXT_len p : EXT (r_len p).
Proof.
  destruct p; cbn [r_len].
  1,2: apply (EXT_map _ (wrap_u 64)), EXT_i32.
  apply (EXT_map _ (wrap_u 32)), EXT_varint.
Qed.

Lemma EXT_split n : EXT (r_split n).
Proof.
  intros s a s' t H. unfold r_split in *. cbn [ext rbuf]. rewrite app_length.
  destruct (n <=? Z.of_nat (length (rbuf s))) eqn:E; [|discriminate].
  replace (n <=? Z.of_nat (length (rbuf s) + length t)) with true by lia.
  apply EXT_take, H.
Qed.

Lemma EXT_bytes p : EXT (r_bytes p).
Proof. unfold r_bytes. apply EXT_bind; [apply EXT_len|]. intros n. apply EXT_split. Qed.

Lemma EXT_ttype : EXT r_ttype.
Proof.
  unfold r_ttype. apply EXT_bind; [apply EXT_byte|]. intros b. destruct (ttype_of_byte b); [apply EXT_ret|].
  intros s x s' t H. discriminate.
Qed.

Lemma EXT_bool p : EXT (r_bool p).
Proof.
  destruct p; cbn [r_bool].
  1,2: apply (EXT_map _ (fun b => negb (b =? 0))), EXT_i8.
  intros s b s' t H. cbn [ext rc] in *.
  destruct (r_pbool (rc s)); [injection H as <- <-; reflexivity|].
  rewrite <- ext_set_rc. revert H.
  generalize (set_rc s {| r_last := r_last (rc s); r_stack := r_stack (rc s); r_pbool := None; r_pfield := false |}).
  intros s1 H. binv H. rewrite (EXT_byte _ _ _ t E). cbn [bind].
  destruct (ctype_of_code x) as [[]|]; try discriminate; injection H as <- <-; reflexivity.
Qed.

Lemma EXT_struct_begin p : EXT (r_struct_begin p).
Proof. intros s x s' t H. destruct p; cbn [r_struct_begin] in *; injection H as <- <-; reflexivity. Qed.
Lemma EXT_struct_end p : EXT (r_struct_end p).
Proof.
  intros s x s' t H. destruct p; cbn [r_struct_end ext rc] in *; try (injection H as <- <-; reflexivity).
  destruct (r_stack (rc s)); [discriminate|]. injection H as <- <-. reflexivity.
Qed.

Lemma EXT_fail {A} e : EXT (fun _ : rst => @Err (A * rst) e).
Proof. intros s x s' t H. discriminate. Qed.

Lemma EXT_field_begin p : EXT (r_field_begin p).
Proof.
  destruct p; cbn [r_field_begin].
  1,2: apply EXT_bind; [apply EXT_ttype|]; intros ty; destruct ty; try apply EXT_ret;
       apply (EXT_map _ (fun id => (_, Some id))); first [apply (EXT_i16 PBinary) | apply (EXT_i16 PBinaryLE)].
  (* compact *)
  intros s h s' t H. change (clear_pfield (ext s t)) with (ext (clear_pfield s) t).
  binv H. rewrite (EXT_byte _ _ _ t E). cbn [bind].
  set (lo := x mod 16) in *. set (delta := x / 16) in *.
  assert (Hty : forall (o : res (ttype * rst)) ty s1,
             (if lo =? ctype_code CBooleanTrue
              then Ok (TBool, set_rc s0 {| r_last := r_last (rc s0); r_stack := r_stack (rc s0); r_pbool := Some true; r_pfield := r_pfield (rc s0) |})
              else if lo =? ctype_code CBooleanFalse
              then Ok (TBool, set_rc s0 {| r_last := r_last (rc s0); r_stack := r_stack (rc s0); r_pbool := Some false; r_pfield := r_pfield (rc s0) |})
              else match ctype_of_code lo with
                   | Some ct => match ttype_of_ctype ct with Some t0 => Ok (t0, s0) | None => Err EInvalidData end
                   | None => Err EInvalidData
                   end) = Ok (ty, s1) ->
             (if lo =? ctype_code CBooleanTrue
              then Ok (TBool, set_rc (ext s0 t) {| r_last := r_last (rc (ext s0 t)); r_stack := r_stack (rc (ext s0 t)); r_pbool := Some true; r_pfield := r_pfield (rc (ext s0 t)) |})
              else if lo =? ctype_code CBooleanFalse
              then Ok (TBool, set_rc (ext s0 t) {| r_last := r_last (rc (ext s0 t)); r_stack := r_stack (rc (ext s0 t)); r_pbool := Some false; r_pfield := r_pfield (rc (ext s0 t)) |})
              else match ctype_of_code lo with
                   | Some ct => match ttype_of_ctype ct with Some t0 => Ok (t0, ext s0 t) | None => Err EInvalidData end
                   | None => Err EInvalidData
                   end) = Ok (ty, ext s1 t)).
  { intros _ ty s1 Hq.
    destruct (lo =? ctype_code CBooleanTrue); [injection Hq as <- <-; reflexivity|].
    destruct (lo =? ctype_code CBooleanFalse); [injection Hq as <- <-; reflexivity|].
    destruct (ctype_of_code lo) as [ct|]; [|discriminate].
    destruct (ttype_of_ctype ct); [|discriminate]. injection Hq as <- <-. reflexivity. }
  binv H. rewrite (Hty (Ok (x0, s1)) _ _ E0). cbn [bind].
  destruct x0; try (injection H as <- <-; reflexivity);
    (destruct (negb (delta =? 0));
     [injection H as <- <-; reflexivity
     |binv H; rewrite (EXT_i16 PCompact _ _ _ t E1); cbn [bind]; injection H as <- <-; reflexivity]).
Qed.

Lemma check_size_ext n s m t : check_size n s = Ok m -> check_size n (ext s t) = Ok m.
Proof.
  unfold check_size. cbn [ext rbuf]. rewrite app_length.
  destruct (n <? 0); [discriminate|]. destruct (Z.of_nat (length (rbuf s)) <? n) eqn:E; [discriminate|].
  replace (Z.of_nat (length (rbuf s) + length t) <? n) with false by lia. auto.
Qed.

Lemma EXT_coll_begin p : EXT (r_coll_begin p).
Proof.
  intros s h s' t H. destruct p; cbn [r_coll_begin] in *.
  1,2: binv H; rewrite (EXT_ttype _ _ _ t E); cbn [bind]; binv H;
       first [rewrite (EXT_i32 PBinary _ _ _ t E0) | rewrite (EXT_i32 PBinaryLE _ _ _ t E0)]; cbn [bind];
       destruct (check_size x0 s1) as [m| |] eqn:Ec; cbn [bind] in H; try discriminate;
       rewrite (check_size_ext _ _ _ t Ec); cbn [bind]; injection H as <- <-; reflexivity.
  binv H. rewrite (EXT_byte _ _ _ t E). cbn [bind].
  destruct (ttype_of_nibble (x mod 16)) as [et| |]; cbn [bind] in *; try discriminate.
  destruct (negb (x / 16 =? 15)).
  - destruct (check_size (x / 16) s0) as [m| |] eqn:Ec; cbn [bind] in H; try discriminate.
    rewrite (check_size_ext _ _ _ t Ec). cbn [bind]. injection H as <- <-. reflexivity.
  - binv H. rewrite (EXT_varint _ _ _ _ t E0). cbn [bind].
    destruct (check_size (wrap_s 32 x0) s1) as [m| |] eqn:Ec; cbn [bind] in H; try discriminate.
    rewrite (check_size_ext _ _ _ t Ec). cbn [bind]. injection H as <- <-. reflexivity.
Qed.

Lemma EXT_map_begin p : EXT (r_map_begin p).
Proof.
  intros s h s' t H. destruct p; cbn [r_map_begin] in *.
  1,2: binv H; rewrite (EXT_ttype _ _ _ t E); cbn [bind]; binv H; rewrite (EXT_ttype _ _ _ t E0); cbn [bind]; binv H;
       first [rewrite (EXT_i32 PBinary _ _ _ t E1) | rewrite (EXT_i32 PBinaryLE _ _ _ t E1)]; cbn [bind];
       destruct (check_size x1 s2) as [m| |] eqn:Ec; cbn [bind] in H; try discriminate;
       rewrite (check_size_ext _ _ _ t Ec); cbn [bind]; injection H as <- <-; reflexivity.
  binv H. rewrite (EXT_varint _ _ _ _ t E). cbn [bind].
  destruct (wrap_s 32 x =? 0); [injection H as <- <-; reflexivity|].
  binv H. rewrite (EXT_byte _ _ _ t E0). cbn [bind].
  destruct (ttype_of_nibble (x0 / 16)) as [kt| |]; cbn [bind] in *; try discriminate.
  destruct (ttype_of_nibble (x0 mod 16)) as [vt| |]; cbn [bind] in *; try discriminate.
  destruct (check_size (wrap_s 32 x) s1) as [m| |] eqn:Ec; cbn [bind] in H; try discriminate.
  rewrite (check_size_ext _ _ _ t Ec). cbn [bind]. injection H as <- <-. reflexivity.
Qed.

Section LoopsExt.
  Variable p : pk.
  Variable rec : ttype -> rm tval.
  Hypothesis Hrec : forall ty, EXT (rec ty).

  Lemma EXT_fields : forall n acc, EXT (fun s => fields_loop p rec n s acc).
  Proof.
    induction n as [|n IH]; intros acc s x s' t H; [discriminate|]. cbn [fields_loop] in *.
    binv H. rewrite (EXT_field_begin p _ _ _ t E). cbn [bind].
    destruct (ttype_eqb (fst x0) TStop); [injection H as <- <-; reflexivity|].
    binv H. rewrite (Hrec _ _ _ _ t E0). cbn [bind]. apply IH, H.
  Qed.

  Lemma EXT_elems : forall m et n acc, EXT (fun s => elems_loop rec m et n s acc).
  Proof.
    induction m as [|m IH]; intros et n acc s x s' t H; cbn [elems_loop] in *.
    - destruct (n <=? 0); [injection H as <- <-; reflexivity|discriminate].
    - destruct (n <=? 0); [injection H as <- <-; reflexivity|].
      binv H. rewrite (Hrec _ _ _ _ t E). cbn [bind]. apply IH, H.
  Qed.

  Lemma EXT_pairs : forall m kt vt n acc, EXT (fun s => pairs_loop rec m kt vt n s acc).
  Proof.
    induction m as [|m IH]; intros kt vt n acc s x s' t H; cbn [pairs_loop] in *.
    - destruct (n <=? 0); [injection H as <- <-; reflexivity|discriminate].
    - destruct (n <=? 0); [injection H as <- <-; reflexivity|].
      binv H. rewrite (Hrec _ _ _ _ t E). cbn [bind]. binv H. rewrite (Hrec _ _ _ _ t E0). cbn [bind]. apply IH, H.
  Qed.
End LoopsExt.

Theorem EXT_read_val p : forall f ty, EXT (read_val p f ty).
Proof.
  induction f as [|f IH]; intros ty s v s' t H; [discriminate|].
  rewrite read_val_S in *. destruct ty; try discriminate.
  - eapply (EXT_map _ VBool (EXT_bool p)); eauto.
  - eapply (EXT_map _ VI8 EXT_i8); eauto.
  - eapply (EXT_map _ VDouble (EXT_double p)); eauto.
  - eapply (EXT_map _ VI16 (EXT_i16 p)); eauto.
  - eapply (EXT_map _ VI32 (EXT_i32 p)); eauto.
  - eapply (EXT_map _ VI64 (EXT_i64 p)); eauto.
  - eapply (EXT_map _ VBinary (EXT_bytes p)); eauto.
  - binv H. rewrite (EXT_struct_begin p _ _ _ t E). cbn [bind]. binv H.
    rewrite (EXT_fields p _ IH _ _ _ _ _ t E0). cbn [bind]. binv H.
    rewrite (EXT_struct_end p _ _ _ t E1). cbn [bind]. injection H as <- <-. reflexivity.
  - binv H. rewrite (EXT_map_begin p _ _ _ t E). cbn [bind]. binv H.
    rewrite (EXT_pairs _ IH _ _ _ _ _ _ _ _ t E0). cbn [bind]. injection H as <- <-. reflexivity.
  - binv H. rewrite (EXT_coll_begin p _ _ _ t E). cbn [bind]. binv H.
    rewrite (EXT_elems _ IH _ _ _ _ _ _ _ t E0). cbn [bind]. injection H as <- <-. reflexivity.
  - binv H. rewrite (EXT_coll_begin p _ _ _ t E). cbn [bind]. binv H.
    rewrite (EXT_elems _ IH _ _ _ _ _ _ _ t E0). cbn [bind]. injection H as <- <-. reflexivity.
  - eapply (EXT_map _ VUuid EXT_uuid); eauto.
Qed.

(* every strict prefix of what pilota wrote for a well-typed value (struct or not) is rejected with
   a genuine error: not accepted, no panic, no fuel exhaustion *)
Theorem prefix_rejected p k v c :
  wt v = true -> w_pend c = None ->
  exists ss, write_val p k v c = Ok (ss, c) /\
    forall n fuel rcx, (n < length (flat ss))%nat -> (vsize v <= fuel)%nat -> (n < fuel)%nat -> idle rcx ->
      exists e, read_val p fuel (ttype_of v) (mkS (firstn n (flat ss)) rcx) = Err e /\ e <> EOutOfFuel.
Proof.
  intros Hwt Hp. destruct (roundtrip_val p k v Hwt c Hp) as (ss & Hw & _ & Hr).
  exists ss. split; [exact Hw|]. intros n fuel rcx Hn Hv Hf Hi.
  pose proof (read_val_good p fuel (ttype_of v) (mkS (firstn n (flat ss)) rcx)) as G.
  assert (Hlen : length (firstn n (flat ss)) = n) by (apply firstn_length_le; lia).
  specialize (G ltac:(unfold blen; cbn [rbuf]; lia)).
  destruct (read_val p fuel (ttype_of v) (mkS (firstn n (flat ss)) rcx)) as [[v' s']| |] eqn:E; cbn [good] in G.
  - exfalso. pose proof (EXT_read_val p fuel _ _ _ _ (skipn n (flat ss)) E) as X.
    unfold ext in X. cbn [rbuf rc] in X. rewrite firstn_skipn in X.
    specialize (Hr fuel [] rcx Hv Hi). rewrite app_nil_r in Hr. rewrite Hr in X.
    injection X as _ X.
    symmetry in X. apply app_eq_nil in X as [_ X].
    apply (f_equal (@length byte)) in X. rewrite skipn_length in X. cbn in X. lia.
  - exists e. auto.
  - destruct G.
Qed.
