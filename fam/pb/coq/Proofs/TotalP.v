(* C10: the protobuf decoders are total and bounded on arbitrary bytes.
   The invariant [sound] of WireP.v (no panic, no fuel exhaustion, the buffer only shrinks, ghost
   allocation + remaining bytes never grows) is extended to every codec module, to the repeated and
   packed forms, to message / map-entry merging and to the schema-directed decoder of Msg.v, for EVERY
   input state.  [sound_strict] (a success lowers allocation + remaining STRICTLY) is what pays for
   the one ghost unit of a Vec::push / map insert that follows a decoded element. *)
From PVPb Require Import Msg Proofs.BitsP Proofs.VarintP Proofs.WireP Proofs.CastP Proofs.CodecP.
From Coq Require Import ZifyN ZifyNat ZifyBool.
Open Scope Z_scope.

(* ------------------------------------------------------------------ strict soundness *)
Definition st_lts (s' s : rd) : Prop := (length (rb s') < length (rb s))%nat /\ pot s' < pot s /\ ra s <= ra s'.

Definition sound_strict {A} (s : rd) (r : out A) : Prop :=
  match r with
  | OOk _ s' => st_lts s' s
  | OErr e s' => e <> POutOfFuel /\ st_le s' s
  | OPanic _ => False
  end.

Lemma sound_strict_prog {A} s (r : out A) : sound_strict s r -> sound_prog s r.
Proof. destruct r; cbn; auto. unfold st_lts, st_lt. lia. Qed.

Lemma sound_strict_sound {A} s (r : out A) : sound_strict s r -> sound s r.
Proof. intros. apply sound_prog_sound, sound_strict_prog. assumption. Qed.

Lemma sound_strict_bind_l {A B} (m : M A) (f : A -> M B) s :
  sound_strict s (m s) -> (forall a s', m s = OOk a s' -> sound s' (f a s')) -> sound_strict s (bind m f s).
Proof.
  unfold bind. destruct (m s) as [a s'|e s'|p]; cbn; auto.
  intros H1 H2. specialize (H2 a s' eq_refl).
  destruct (f a s') as [b s''|e s''|p]; cbn in *; auto.
  - unfold st_lts, st_le in *. lia.
  - destruct H2; split; auto. unfold st_lts, st_le in *. lia.
Qed.

Lemma sound_strict_bind_r {A B} (m : M A) (f : A -> M B) s :
  sound s (m s) -> (forall a s', m s = OOk a s' -> sound_strict s' (f a s')) -> sound_strict s (bind m f s).
Proof.
  unfold bind. destruct (m s) as [a s'|e s'|p]; cbn; auto.
  intros H1 H2. specialize (H2 a s' eq_refl).
  destruct (f a s') as [b s''|e s''|p]; cbn in *; auto.
  - unfold st_lts, st_le in *. lia.
  - destruct H2; split; auto. unfold st_lts, st_le in *. lia.
Qed.

Lemma sound_strict_fail {A} e s : e <> POutOfFuel -> sound_strict s (@fail A e s).
Proof. cbn. auto using st_le_refl. Qed.

Lemma sound_strict_decode_varint s : sound_strict s (decode_varint s).
Proof.
  destruct (decode_varint_cases s) as [(v & s' & E)|E]; rewrite E; cbn.
  - apply decode_varint_ok_inv in E. destruct E as (_ & Ha & Hl & _). unfold st_lts, pot. lia.
  - split; [discriminate|apply st_le_refl].
Qed.

Lemma sound_strict_decode_key s : sound_strict s (decode_key s).
Proof.
  unfold decode_key. apply sound_strict_bind_l; [apply sound_strict_decode_varint|].
  intros key s' _. destruct (_ <? _); [apply sound_fail; discriminate|].
  destruct (wire_type_of_code _); [|apply sound_fail; discriminate].
  destruct (_ <? _); [apply sound_fail; discriminate|apply sound_ret].
Qed.

(* a strictly progressing step followed by one ghost unit (Vec::push, map insert) still progresses *)
Lemma sound_prog_then_charge1 {A B} (m : M A) (g : A -> B) s :
  sound_strict s (m s) -> sound_prog s (bind m (fun a => bind (charge 1) (fun _ => ret (g a))) s).
Proof.
  unfold bind, charge, ret. destruct (m s) as [a s'|e s'|p]; cbn; auto.
  unfold st_lts, st_lt, pot. cbn [rb ra]. lia.
Qed.

Lemma merge_loop_strict {T} (body : T -> M T) v s :
  (forall v s, sound_prog s (body v s)) -> sound_strict s (merge_loop body v s).
Proof.
  intros Hb. unfold merge_loop. apply sound_strict_bind_l; [apply sound_strict_decode_varint|].
  intros len s1 _. apply sound_bind; [apply sound_remaining|]. intros rem s2 E. inversion E; subst.
  destruct (_ <? _); [apply sound_fail; discriminate|].
  apply sound_bind; [apply while_rem_sound; auto|]. intros v' s3 _.
  apply sound_bind; [apply sound_remaining|]. intros rem' s4 E'. inversion E'; subst.
  destruct (Nat.eqb _ _); [apply sound_ret|apply sound_fail; discriminate].
Qed.

(* ------------------------------------------------------------------ scalar codec modules *)
Lemma merge_varint_value_strict m s : sound_strict s (merge_varint_value m s).
Proof.
  unfold merge_varint_value. apply sound_strict_bind_l; [apply sound_strict_decode_varint|].
  intros; apply sound_ret.
Qed.

Lemma take_bytes_strict n s : (1 <= n <= length (rb s))%nat ->
  sound_strict s (bind (take_bytes n) (fun bs => ret (VI (of_le bs))) s) /\
  forall (g : list byte -> val), sound_strict s (bind (take_bytes n) (fun bs => ret (g bs)) s).
Proof.
  intros H.
  assert (G : forall (g : list byte -> val), sound_strict s (bind (take_bytes n) (fun bs => ret (g bs)) s)).
  { intros g. unfold bind, take_bytes, ret.
    replace (Nat.ltb (length (rb s)) n) with false by (symmetry; apply Nat.ltb_ge; lia).
    cbn [sound_strict]. unfold st_lts, pot. cbn [rb ra]. rewrite skipn_length. lia. }
  split; [apply G|exact G].
Qed.

Lemma merge_fixed_value_strict t w s : 1 <= w -> sound_strict s (merge_fixed_value t w s).
Proof.
  intros Hw. unfold merge_fixed_value.
  apply sound_strict_bind_r; [apply sound_remaining|]. intros rem s' E. inversion E; subst.
  destruct (Z.ltb_spec (Z.of_nat (length (rb s'))) w); [apply sound_strict_fail; discriminate|].
  apply (proj2 (take_bytes_strict (Z.to_nat w) s' ltac:(lia)) (fun bs => VI (fixed_value t w bs))).
Qed.

(* the length-delimited family: varint length, `len > remaining` test, then the copy of len bytes is
   charged and those len bytes are consumed *)
Lemma charge_take_sound len s : 0 <= len <= Z.of_nat (length (rb s)) ->
  sound s (bind (charge len) (fun _ => bind (take_bytes (Z.to_nat len)) (fun bs => ret (VB bs))) s).
Proof.
  intros H. unfold bind, charge, take_bytes, ret. cbn [rb ra].
  replace (Nat.ltb (length (rb s)) (Z.to_nat len)) with false by (symmetry; apply Nat.ltb_ge; lia).
  cbn [sound]. unfold st_le, pot. cbn [rb ra]. rewrite skipn_length. lia.
Qed.

Lemma len_tail_strict wt s :
  sound_strict s
    (bind (check_wire_type LengthDelimited wt) (fun _ =>
     bind decode_varint (fun len => bind remaining (fun rem =>
       if Z.of_nat rem <? len then fail PUnderflow else
       bind (charge len) (fun _ => bind (take_bytes (Z.to_nat len)) (fun bs => ret (VB bs)))))) s).
Proof.
  apply sound_strict_bind_r; [apply sound_check_wire_type|]. intros _ s0 _.
  apply sound_strict_bind_l; [apply sound_strict_decode_varint|]. intros len s1 E.
  apply decode_varint_ok_inv in E. destruct E as (Hv & _).
  apply sound_bind; [apply sound_remaining|]. intros rem s2 E2. inversion E2; subst.
  destruct (Z.ltb_spec (Z.of_nat (length (rb s2))) len); [apply sound_fail; discriminate|].
  apply charge_take_sound. lia.
Qed.

Lemma bytes_merge_strict wt s : sound_strict s (bytes_merge wt s).
Proof. apply len_tail_strict. Qed.

Lemma bytes_merge_one_copy_strict wt s : sound_strict s (bytes_merge_one_copy wt s).
Proof. apply len_tail_strict. Qed.

Lemma string_merge_strict wt s : sound_strict s (string_merge wt s).
Proof.
  unfold string_merge. apply sound_strict_bind_l; [apply bytes_merge_one_copy_strict|].
  intros v s' _. destruct (utf8_valid _); [apply sound_ret|apply sound_fail; discriminate].
Qed.

Lemma fixed_of_width m t w wt : fixed_of m = Some (t, w, wt) -> 1 <= w.
Proof. intros E. destruct m; vm_compute in E; try discriminate E; inversion E; lia. Qed.

(* EVERY module name, EVERY wire type, every input state *)
Theorem merge_scalar_strict m wt s : sound_strict s (merge_scalar m wt s).
Proof.
  unfold merge_scalar. destruct (is_varint_mod m).
  - apply sound_strict_bind_r; [apply sound_check_wire_type|]. intros; apply merge_varint_value_strict.
  - destruct (fixed_of m) as [[[t w] fwt]|] eqn:Ef.
    + apply sound_strict_bind_r; [apply sound_check_wire_type|]. intros.
      apply merge_fixed_value_strict. eapply fixed_of_width; eauto.
    + destruct m; try (apply sound_strict_fail; discriminate).
      * apply string_merge_strict.
      * change (faststr_merge wt s) with (string_merge wt s). apply string_merge_strict.
      * apply bytes_merge_strict.
Qed.

Lemma push_after_strict {A} (m : M A) (g : A -> val) vs s :
  sound_strict s (m s) -> sound_prog s (bind m (fun a => push vs (g a)) s).
Proof. intros H. unfold push. apply (sound_prog_then_charge1 m (fun a => vs ++ [g a])). exact H. Qed.

Theorem merge_repeated_prog m wt vs s : sound_prog s (merge_repeated m wt vs s).
Proof.
  unfold merge_repeated. destruct (is_len_mod m).
  - apply sound_prog_bind_r; [apply sound_check_wire_type|]. intros _ s' _.
    apply (push_after_strict (merge_scalar m wt) (fun v => v)). apply merge_scalar_strict.
  - assert (Hunp : sound_prog s (bind (check_wire_type (mod_wire_type m) wt)
                      (fun _ => bind (merge_scalar m wt) (fun v => push vs v)) s)).
    { apply sound_prog_bind_r; [apply sound_check_wire_type|]. intros _ s' _.
      apply (push_after_strict (merge_scalar m wt) (fun v => v)). apply merge_scalar_strict. }
    destruct wt; try exact Hunp.
    apply sound_strict_prog, merge_loop_strict. intros vs' s'.
    apply (push_after_strict (merge_scalar m (mod_wire_type m)) (fun v => v)). apply merge_scalar_strict.
Qed.

Lemma decode_length_delimiter_strict s : sound_strict s (decode_length_delimiter s).
Proof.
  unfold decode_length_delimiter. apply sound_strict_bind_l; [apply sound_strict_decode_varint|].
  intros len s' _. destruct (_ <? _); [apply sound_fail; discriminate|apply sound_ret].
Qed.

(* ------------------------------------------------------------------ message, group, map entry *)
Lemma ctx_default_range : 0 <= ctx_default <= recursion_limit /\ ctx_default < Z.of_nat depth_fuel.
Proof. unfold ctx_default, depth_fuel. pose proof (Z.le_refl recursion_limit). vm_compute. split; [split|]; congruence. Qed.

Lemma recursion_limit_nonneg : 0 <= recursion_limit.
Proof. vm_compute. congruence. Qed.

Lemma skip_field_budget wt tag ctx s : 0 <= ctx <= recursion_limit -> sound s (skip_field depth_fuel wt tag ctx s).
Proof. intros H. apply skip_field_sound. unfold depth_fuel. lia. Qed.

Section Generic.
  Context {T : Type}.
  Variable mf : T -> Z -> wire_type -> Z -> M T.
  Variable c : Z.       (* the budget handed to merge_field *)
  Hypothesis mf_sound : forall x tag wt s, sound s (mf x tag wt c s).

  (* message::merge at budget c + 1: the limit test makes the checked decrement safe *)
  Lemma message_merge_strict wt x s : 0 <= c -> sound_strict s (message_merge mf wt x (c + 1) s).
  Proof.
    intros Hc. unfold message_merge.
    apply sound_strict_bind_r; [apply sound_check_wire_type|]. intros _ s1 _.
    apply sound_strict_bind_r; [apply sound_limit_reached|]. intros _ s2 _.
    apply sound_strict_bind_r; [apply sound_enter_recursion; lia|]. intros c' s3 E.
    apply enter_recursion_ok in E. destruct E as [-> ->]. replace (c + 1 - 1) with c by lia.
    apply merge_loop_strict. intros msg s'.
    apply sound_prog_bind_l; [apply sound_prog_decode_key|]. intros [tag fwt] s'' _. apply mf_sound.
  Qed.

  Lemma group_merge_sound tag wt x s : 0 <= c -> sound s (group_merge mf tag wt x (c + 1) s).
  Proof.
    intros Hc. unfold group_merge.
    apply sound_bind; [apply sound_check_wire_type|]. intros _ s1 _.
    apply sound_bind; [apply sound_limit_reached|]. intros _ s2 _.
    apply group_loop_sound. intros msg ftag fwt s'.
    apply sound_bind; [apply sound_enter_recursion; lia|]. intros c' s3 E.
    apply enter_recursion_ok in E. destruct E as [-> ->]. replace (c + 1 - 1) with c by lia. apply mf_sound.
  Qed.
End Generic.

(* budget 0: rejected by the limit test (never reaches the decrement) *)
Lemma message_merge_zero {T} (mf : T -> Z -> wire_type -> Z -> M T) wt x s :
  sound_strict s (message_merge mf wt x 0 s).
Proof.
  unfold message_merge. apply sound_strict_bind_r; [apply sound_check_wire_type|]. intros _ s1 _.
  unfold bind, limit_reached. cbn. split; [discriminate|apply st_le_refl].
Qed.

Lemma message_merge_any {T} (mf : T -> Z -> wire_type -> Z -> M T) wt x ctx s :
  0 <= ctx -> (0 < ctx -> forall x tag wt s, sound s (mf x tag wt (ctx - 1) s)) -> sound_strict s (message_merge mf wt x ctx s).
Proof.
  intros Hc Hm. destruct (Z.eq_dec ctx 0) as [->|Hn]; [apply message_merge_zero|].
  replace ctx with (ctx - 1 + 1) by lia. apply message_merge_strict; [|lia].
  apply Hm. lia.
Qed.

Lemma map_entry_merge_strict {K V} (km : wire_type -> K -> Z -> M K) (vm : wire_type -> V -> Z -> M V) kd vd ctx s :
  0 <= ctx <= recursion_limit ->
  (0 < ctx -> forall wt k s, sound s (km wt k (ctx - 1) s)) -> (0 < ctx -> forall wt v s, sound s (vm wt v (ctx - 1) s)) ->
  sound_strict s (map_entry_merge km vm kd vd ctx s).
Proof.
  intros Hc Hk Hv. unfold map_entry_merge.
  apply sound_strict_bind_r; [apply sound_limit_reached|]. intros u s1 E1.
  apply limit_reached_ok in E1. destruct E1 as [Hnz ->].
  apply sound_strict_bind_r; [apply sound_enter_recursion; lia|]. intros c' s2 E.
  apply enter_recursion_ok in E. destruct E as [-> ->].
  apply merge_loop_strict. intros [k v] s'.
  apply sound_prog_bind_l; [apply sound_prog_decode_key|]. intros [tag wt] s'' _.
  destruct (tag =? 1).
  - apply sound_bind; [apply Hk; lia|]. intros; apply sound_ret.
  - destruct (tag =? 2).
    + apply sound_bind; [apply Hv; lia|]. intros; apply sound_ret.
    + apply sound_bind; [apply skip_field_budget; lia|]. intros; apply sound_ret.
Qed.

(* ------------------------------------------------------------------ the schema-directed decoder *)
Lemma find_member_some ms tag : forall k, existsb (Z.eqb tag) (map fst ms) = true -> find_member ms tag k <> None.
Proof.
  induction ms as [|[t ty] ms IH]; intros k H; cbn in H; [discriminate|].
  cbn [find_member]. destruct (Z.eqb_spec t tag); [discriminate|].
  destruct (Z.eqb_spec tag t); [congruence|]. cbn in H. apply IH. exact H.
Qed.

Section Step.
  Variable rec : nat -> val -> Z -> wire_type -> Z -> M val.
  Variable dflt : ty -> val.
  Variable ctx : Z.
  Hypothesis Hctx : 0 <= ctx <= recursion_limit.
  (* merge_field of every message is sound at every budget below the current one *)
  Hypothesis rec_sound : forall c i x tag wt s, 0 <= c < ctx -> sound s (rec i x tag wt c s).

  Lemma merge_ty_strict_at c t wt x s : 0 <= c <= ctx -> sound_strict s (merge_ty rec t wt x c s).
  Proof.
    intros Hc. destruct t as [p|i]; cbn [merge_ty].
    - destruct (scalar_module p); [apply merge_scalar_strict|apply sound_strict_fail; discriminate].
    - apply message_merge_any; [lia|]. intros. apply rec_sound. lia.
  Qed.

  Lemma merge_rep_prog t wt xs s : sound_prog s (merge_rep rec dflt t wt xs ctx s).
  Proof.
    destruct t as [p|i]; cbn [merge_rep].
    - destruct (scalar_module p); [apply merge_repeated_prog|apply sound_strict_prog, sound_strict_fail; discriminate].
    - apply sound_prog_bind_r; [apply sound_check_wire_type|]. intros _ s' _.
      apply (push_after_strict (message_merge (rec i) LengthDelimited (dflt (TMsg i)) ctx) (fun v => v)).
      apply message_merge_any; [lia|]. intros. apply rec_sound. lia.
  Qed.

  Lemma merge_map_prog k vt es s : sound_prog s (merge_map rec dflt k vt es ctx s).
  Proof.
    unfold merge_map.
    apply (sound_prog_then_charge1
             (map_entry_merge (fun wt x c => merge_ty rec (TScalar k) wt x c) (fun wt x c => merge_ty rec vt wt x c)
                              (dflt (TScalar k)) (dflt vt) ctx)
             (fun kv => map_insert (fst kv) (snd kv) es)).
    apply map_entry_merge_strict; [exact Hctx| |].
    - intros _ wt x s'. cbn [merge_ty].
      destruct (scalar_module k); [apply sound_strict_sound, merge_scalar_strict|apply sound_fail; discriminate].
    - intros Hpos wt x s'. apply sound_strict_sound, merge_ty_strict_at. lia.
  Qed.

  Lemma merge_oneof_sound ms cur tag wt s : existsb (Z.eqb tag) (map fst ms) = true ->
    sound s (merge_oneof rec dflt ms cur tag wt ctx s).
  Proof.
    intros Hin. unfold merge_oneof. pose proof (find_member_some ms tag 0%nat Hin) as Hf.
    destruct (find_member ms tag 0) as [[idx t]|]; [|congruence].
    apply sound_bind; [apply sound_strict_sound, merge_ty_strict_at; lia|]. intros; apply sound_ret.
  Qed.

  Lemma merge_fieldval_sound f x tag wt s : existsb (Z.eqb tag) (field_tags f) = true ->
    sound s (merge_fieldval rec dflt f x tag wt ctx s).
  Proof.
    intros Hin. destruct f as [t ty|t ty|t ty|t k vt|ms]; cbn [merge_fieldval].
    - apply sound_strict_sound, merge_ty_strict_at; lia.
    - apply sound_bind; [apply sound_strict_sound, merge_ty_strict_at; lia|]. intros; apply sound_ret.
    - destruct x as [z|l|k l]; try (apply sound_fail; discriminate).
      destruct k; try (apply sound_fail; discriminate).
      apply sound_bind; [apply sound_prog_sound, merge_rep_prog|]. intros; apply sound_ret.
    - destruct x as [z|l|k' l]; try (apply sound_fail; discriminate).
      destruct k'; try (apply sound_fail; discriminate).
      apply sound_bind; [apply sound_prog_sound, merge_map_prog|]. intros; apply sound_ret.
    - apply merge_oneof_sound. exact Hin.
  Qed.

  Lemma merge_in_fields_sound : forall fs xs tag wt s, sound s (merge_in_fields rec dflt fs xs tag wt ctx s).
  Proof.
    induction fs as [|f fs IH]; intros xs tag wt s; cbn [merge_in_fields].
    - apply sound_bind; [apply skip_field_budget; exact Hctx|]. intros; apply sound_ret.
    - destruct xs as [|x xs].
      + apply sound_bind; [apply skip_field_budget; exact Hctx|]. intros; apply sound_ret.
      + destruct (existsb (Z.eqb tag) (field_tags f)) eqn:E.
        * apply sound_bind; [apply merge_fieldval_sound; exact E|]. intros; apply sound_ret.
        * apply sound_bind; [apply IH|]. intros; apply sound_ret.
  Qed.
End Step.

(* Message::merge_field of every message of every schema, for every value, tag, wire type, and every
   budget 0 <= ctx <= RECURSION_LIMIT: a native depth of ctx + 1 activations suffices *)
Theorem merge_field_sound : forall d sc i x tag wt ctx s,
  0 <= ctx <= recursion_limit -> ctx < Z.of_nat d -> sound s (merge_field d sc i x tag wt ctx s).
Proof.
  induction d as [|d IH]; intros sc i x tag wt ctx s Hc Hd; [lia|].
  cbn [merge_field]. destruct (nth_error sc i) as [fs|]; [|apply sound_fail; discriminate].
  destruct x as [z|l|k xs]; try (apply sound_fail; discriminate).
  destruct k; try (apply sound_fail; discriminate).
  apply sound_bind; [|intros; apply sound_ret].
  apply merge_in_fields_sound; [exact Hc|]. intros c j y t w s' Hlt. apply IH; lia.
Qed.

Lemma top_body_prog sc i x s :
  sound_prog s (bind decode_key (fun '(tag, wt) => merge_field depth_fuel sc i x tag wt ctx_default) s).
Proof.
  apply sound_prog_bind_l; [apply sound_prog_decode_key|]. intros [tag wt] s' _.
  destruct ctx_default_range. apply merge_field_sound; assumption.
Qed.

Theorem msg_merge_sound sc i x s : sound s (msg_merge sc i x s).
Proof. unfold msg_merge. apply while_rem_sound. intros v s'. apply top_body_prog. Qed.

Theorem msg_decode_sound sc i s : sound s (msg_decode sc i s).
Proof. apply msg_merge_sound. Qed.

Theorem msg_decode_length_delimited_sound sc i s : sound s (msg_decode_length_delimited sc i s).
Proof.
  unfold msg_decode_length_delimited. apply sound_strict_sound. destruct ctx_default_range as [H1 H2].
  apply message_merge_any; [lia|]. intros Hp x tag wt s'. apply merge_field_sound; lia.
Qed.

(* ------------------------------------------------------------------ well-known wrapper impls (types.rs) *)
Lemma wrapper_merge_field_sound m x tag wt ctx s : 0 <= ctx <= recursion_limit ->
  sound s (wrapper_merge_field m x tag wt ctx s).
Proof.
  intros Hc. unfold wrapper_merge_field.
  assert (Hs : sound s (bind (skip_field depth_fuel wt tag ctx) (fun _ => ret x) s)).
  { apply sound_bind; [apply skip_field_budget; exact Hc|]. intros; apply sound_ret. }
  destruct m as [m'|]; [|exact Hs]. destruct (tag =? 1); [apply sound_strict_sound, merge_scalar_strict|exact Hs].
Qed.

Theorem wrapper_merge_sound m x s : sound s (wrapper_merge m x s).
Proof.
  unfold wrapper_merge. apply while_rem_sound. intros v s'.
  apply sound_prog_bind_l; [apply sound_prog_decode_key|]. intros [tag wt] s'' _.
  apply wrapper_merge_field_sound. apply ctx_default_range.
Qed.

Theorem wrapper_decode_length_delimited_sound m s : sound s (wrapper_decode_length_delimited m s).
Proof.
  unfold wrapper_decode_length_delimited. apply sound_strict_sound. destruct ctx_default_range as [H1 H2].
  apply message_merge_any; [lia|]. intros Hp x tag wt s'. apply wrapper_merge_field_sound. lia.
Qed.

(* ================================================================== the statements of C10 *)
(* every decoder entry point of the family *)
Inductive decoder :=
| DVarint | DVarintSlow | DVarintChunk (clen_minus_1 : nat)        (* the three paths of decode_varint *)
| DKey | DLengthDelimiter
| DScalar (m : codec_module) (wt : wire_type)                        (* <module>::merge *)
| DRepeated (m : codec_module) (wt : wire_type) (acc : list val)     (* <module>::merge_repeated (packed and unpacked) *)
| DSkip (wt : wire_type) (tag : Z)                                   (* skip_field, groups included *)
| DMessage (sc : schema) (i : nat)                                   (* Message::decode of generated message #i *)
| DMessageMerge (sc : schema) (i : nat) (x : val)                    (* Message::merge into any value *)
| DMessageLenDelim (sc : schema) (i : nat)                           (* decode_length_delimited *)
| DWrapper (m : option codec_module) | DWrapperMerge (m : option codec_module) (x : val)
| DWrapperLenDelim (m : option codec_module).                        (* types.rs *)

Definition forget {A} (m : M A) : M unit :=
  fun s => match m s with OOk _ s' => OOk tt s' | OErr e s' => OErr e s' | OPanic p => OPanic p end.

Definition run (d : decoder) : M unit :=
  match d with
  | DVarint => forget decode_varint
  | DVarintSlow => forget decode_varint_slow
  | DVarintChunk c => forget (decode_varint_chunk (S c))
  | DKey => forget decode_key
  | DLengthDelimiter => forget decode_length_delimiter
  | DScalar m wt => forget (merge_scalar m wt)
  | DRepeated m wt acc => forget (merge_repeated m wt acc)
  | DSkip wt tag => forget (skip_field depth_fuel wt tag ctx_default)
  | DMessage sc i => forget (msg_decode sc i)
  | DMessageMerge sc i x => forget (msg_merge sc i x)
  | DMessageLenDelim sc i => forget (msg_decode_length_delimited sc i)
  | DWrapper m => forget (wrapper_decode m)
  | DWrapperMerge m x => forget (wrapper_merge m x)
  | DWrapperLenDelim m => forget (wrapper_decode_length_delimited m)
  end.

(* a value or a DecodeError: not a panic, not the model's out-of-fuel artefact *)
Definition total {A} (r : out A) : Prop :=
  match r with OOk _ _ => True | OErr e _ => e <> POutOfFuel | OPanic _ => False end.
(* the ghost allocation counter on exit (success or error) *)
Definition alloc_le {A} (bound : Z) (r : out A) : Prop :=
  match r with OOk _ s' | OErr _ s' => ra s' <= bound | OPanic _ => True end.

Lemma sound_forget {A} (m : M A) s : sound s (m s) -> sound s (forget m s).
Proof. unfold forget. destruct (m s); cbn; auto. Qed.

Theorem run_sound d s : sound s (run d s).
Proof.
  destruct d; cbn [run]; apply sound_forget.
  - apply sound_strict_sound, sound_strict_decode_varint.
  - rewrite (proj2 (decode_varint_paths_agree 1 s ltac:(lia))). apply sound_strict_sound, sound_strict_decode_varint.
  - rewrite (proj1 (decode_varint_paths_agree (S clen_minus_1) s ltac:(lia))). apply sound_strict_sound, sound_strict_decode_varint.
  - apply sound_strict_sound, sound_strict_decode_key.
  - apply sound_strict_sound, decode_length_delimiter_strict.
  - apply sound_strict_sound, merge_scalar_strict.
  - apply sound_prog_sound, merge_repeated_prog.
  - apply skip_field_budget. apply ctx_default_range.
  - apply msg_decode_sound.
  - apply msg_merge_sound.
  - apply msg_decode_length_delimited_sound.
  - apply wrapper_merge_sound.
  - apply wrapper_merge_sound.
  - apply wrapper_decode_length_delimited_sound.
Qed.

Lemma sound_total {A} s (r : out A) : sound s r -> total r.
Proof. destruct r; cbn; tauto. Qed.

Lemma sound_alloc {A} s (r : out A) : sound s r -> alloc_le (ra s + Z.of_nat (length (rb s))) r.
Proof. destruct r; cbn; unfold st_le, pot; intros; lia. Qed.

(* C10_total: every decoder, every byte string (and every start value of the ghost counter) *)
Theorem total_all : forall (d : decoder) (l : list byte) (a : Z), total (run d (mkR l a)).
Proof. intros. eapply sound_total, run_sound. Qed.

(* C10_alloc: on exit the ghost counter is at most the number of input bytes (c = 1), and what is left
   of the buffer is no longer than the input *)
Theorem alloc_all : forall (d : decoder) (l : list byte),
  alloc_le (Z.of_nat (length l)) (run d (mkR l 0)) /\
  match run d (mkR l 0) with OOk _ s' | OErr _ s' => (length (rb s') <= length l)%nat | OPanic _ => False end.
Proof.
  intros d l. pose proof (run_sound d (mkR l 0)) as H. split.
  - apply sound_alloc in H. cbn [ra rb] in H. exact H.
  - destruct (run d (mkR l 0)); cbn in H; unfold st_le in H; cbn [rb] in H; try tauto; lia.
Qed.

Example total_nonvacuous :
  run (DScalar MString LengthDelimited) (mkR [x02; xc3; x28] 0) = OErr PUtf8 (mkR [] 2) /\
  run (DRepeated MSInt32 LengthDelimited []) (mkR [x03; x01; x02; x03; xff] 0) = OOk tt (mkR [xff] 3) /\
  run (DSkip StartGroup 1) (mkR [x0b; x08; x05; x0c; x0c] 0) = OOk tt (mkR [] 0) /\
  run (DMessage [[FRepeated 1 (TScalar TYPE_INT32); FOptional 2 (TMsg 0)]] 0) (mkR [x12; x02; x08; x07; x08] 0) = OErr PVarint (mkR [] 1).
Proof. vm_compute. auto. Qed.

(* ================================================================== C10_len_before_copy *)
(* the next thing in the buffer is a length prefix that exceeds what remains after it *)
Definition oversized (s : rd) : Prop :=
  exists len s1, decode_varint s = OOk len s1 /\ Z.of_nat (length (rb s1)) < len.
(* a DecodeError, and the ghost allocation counter is where it was: nothing was reserved or copied *)
Definition rejected_uncopied {A} (s : rd) (r : out A) : Prop := exists e s', r = OErr e s' /\ ra s' = ra s.

Lemma rejected_bind {A B} (m : M A) (f : A -> M B) s : rejected_uncopied s (m s) -> rejected_uncopied s (bind m f s).
Proof. intros (e & s' & E & Ha). unfold bind. rewrite E. exists e, s'. auto. Qed.

(* steps that only test (wire type check, limit test, checked decrement above zero) *)
Definition pure_test {A} (m : M A) : Prop := forall s, (exists a, m s = OOk a s) \/ (exists e, m s = OErr e s).

Lemma rejected_bind_pure {A B} (m : M A) (f : A -> M B) s :
  pure_test m -> (forall a, rejected_uncopied s (f a s)) -> rejected_uncopied s (bind m f s).
Proof.
  intros Hp Hf. unfold bind. destruct (Hp s) as [[a E]|[e E]]; rewrite E; [apply Hf|].
  exists e, s. auto.
Qed.

Lemma pure_check e a : pure_test (check_wire_type e a).
Proof. intros s. unfold check_wire_type. destruct (wire_type_eqb e a); [left; exists tt|right; exists PWireType]; reflexivity. Qed.
Lemma pure_limit c : pure_test (limit_reached c).
Proof. intros s. unfold limit_reached. destruct (c =? 0); [right; exists PRecursion|left; exists tt]; reflexivity. Qed.

Lemma rejected_fail {A} e s : rejected_uncopied s (@fail A e s).
Proof. exists e, s. auto. Qed.

(* the common tail: varint length, then the `len > remaining` test *)
Lemma oversized_tail {A} (k : Z -> nat -> M A) s : oversized s ->
  rejected_uncopied s (bind decode_varint (fun len => bind remaining (fun rem =>
                          if Z.of_nat rem <? len then fail PUnderflow else k len rem)) s).
Proof.
  intros (len & s1 & E & Hlt). unfold bind at 1. rewrite E. unfold bind, remaining.
  replace (Z.of_nat (length (rb s1)) <? len) with true by lia.
  exists PUnderflow, s1. split; [reflexivity|]. apply decode_varint_ok_inv in E. tauto.
Qed.

Lemma merge_loop_rejects {T} (body : T -> M T) v s : oversized s -> rejected_uncopied s (merge_loop body v s).
Proof. intros H. unfold merge_loop. apply (oversized_tail (fun len rem => _) s H). Qed.

Lemma len_module_rejects wt s : oversized s ->
  rejected_uncopied s (bytes_merge wt s) /\ rejected_uncopied s (bytes_merge_one_copy wt s) /\
  rejected_uncopied s (string_merge wt s) /\ rejected_uncopied s (faststr_merge wt s).
Proof.
  intros H.
  assert (H1 : rejected_uncopied s (bytes_merge wt s)).
  { unfold bytes_merge. apply rejected_bind_pure; [apply pure_check|]. intros _. apply (oversized_tail (fun len rem => _) s H). }
  assert (H2 : rejected_uncopied s (bytes_merge_one_copy wt s)).
  { unfold bytes_merge_one_copy. apply rejected_bind_pure; [apply pure_check|]. intros _. apply (oversized_tail (fun len rem => _) s H). }
  assert (H3 : rejected_uncopied s (string_merge wt s)) by (unfold string_merge; apply rejected_bind; exact H2).
  repeat split; auto.
Qed.

(* <module>::merge with wire type LengthDelimited, for EVERY module: the string / bytes family rejects on
   the length test, the numeric modules on the wire type check -- in no case is anything allocated *)
Theorem merge_scalar_rejects m s : oversized s -> rejected_uncopied s (merge_scalar m LengthDelimited s).
Proof.
  intros H. unfold merge_scalar. destruct (is_varint_mod m).
  - apply rejected_bind. exists PWireType, s. auto.
  - destruct (fixed_of m) as [[[t w] fwt]|] eqn:Ef.
    + apply rejected_bind. assert (fwt <> LengthDelimited) by (destruct m; vm_compute in Ef; try discriminate Ef; inversion Ef; discriminate).
      unfold check_wire_type. destruct fwt; try congruence; cbn; exists PWireType, s; auto.
    + destruct (len_module_rejects LengthDelimited s H) as (H1 & H2 & H3 & H4).
      destruct m; try apply rejected_fail; assumption.
Qed.

(* packed repeated fields and repeated strings / bytes *)
Theorem merge_repeated_rejects m vs s : oversized s -> rejected_uncopied s (merge_repeated m LengthDelimited vs s).
Proof.
  intros H. unfold merge_repeated. destruct (is_len_mod m).
  - apply rejected_bind_pure; [apply pure_check|]. intros _. apply rejected_bind. apply merge_scalar_rejects. exact H.
  - apply merge_loop_rejects. exact H.
Qed.

Lemma pure_enter c : 0 < c -> pure_test (enter_recursion c).
Proof. intros Hc s. unfold enter_recursion. replace (c <? 1) with false by lia. left. exists (c - 1). reflexivity. Qed.

(* embedded messages *)
Theorem message_merge_rejects {T} (mf : T -> Z -> wire_type -> Z -> M T) x ctx s : 0 <= ctx -> oversized s ->
  rejected_uncopied s (message_merge mf LengthDelimited x ctx s).
Proof.
  intros Hc H. unfold message_merge. apply rejected_bind_pure; [apply pure_check|]. intros _.
  destruct (Z.eq_dec ctx 0) as [->|Hn].
  - apply rejected_bind. exists PRecursion, s. auto.
  - apply rejected_bind_pure; [apply pure_limit|]. intros _.
    apply rejected_bind_pure; [apply pure_enter; lia|]. intros c'. apply merge_loop_rejects. exact H.
Qed.

(* map entries *)
Theorem map_entry_merge_rejects {K V} (km : wire_type -> K -> Z -> M K) (vm : wire_type -> V -> Z -> M V) kd vd ctx s :
  0 <= ctx -> oversized s -> rejected_uncopied s (map_entry_merge km vm kd vd ctx s).
Proof.
  intros Hc H. unfold map_entry_merge. destruct (Z.eq_dec ctx 0) as [->|Hn].
  - apply rejected_bind. exists PRecursion, s. auto.
  - apply rejected_bind_pure; [apply pure_limit|]. intros _.
    apply rejected_bind_pure; [apply pure_enter; lia|]. intros c'. apply merge_loop_rejects. exact H.
Qed.

(* unknown length-delimited fields *)
Theorem skip_field_rejects d tag ctx s : oversized s -> rejected_uncopied s (skip_field d LengthDelimited tag ctx s).
Proof.
  intros H. destruct d as [|d]; [apply rejected_fail|]. cbn [skip_field].
  apply rejected_bind_pure; [apply pure_limit|]. intros _.
  destruct H as (len & s1 & E & Hlt). unfold bind at 1. rewrite E. unfold bind, remaining.
  replace (Z.of_nat (length (rb s1)) <? len) with true by lia.
  exists PUnderflow, s1. split; [reflexivity|]. apply decode_varint_ok_inv in E. tauto.
Qed.

(* ... and therefore Message::merge_field of every message of every schema, whatever the field number
   turns out to be (scalar of any type, string, bytes, message, repeated / packed, map, oneof, unknown) *)
Section StepRejects.
  Variable rec : nat -> val -> Z -> wire_type -> Z -> M val.
  Variable dflt : ty -> val.
  Variable ctx : Z.
  Hypothesis Hctx : 0 <= ctx.

  Lemma merge_ty_rejects t x s : oversized s -> rejected_uncopied s (merge_ty rec t LengthDelimited x ctx s).
  Proof.
    intros H. destruct t as [p|i]; cbn [merge_ty].
    - destruct (scalar_module p); [apply merge_scalar_rejects; exact H|apply rejected_fail].
    - apply message_merge_rejects; assumption.
  Qed.

  Lemma merge_fieldval_rejects f x tag s : existsb (Z.eqb tag) (field_tags f) = true -> oversized s ->
    rejected_uncopied s (merge_fieldval rec dflt f x tag LengthDelimited ctx s).
  Proof.
    intros Hin H. destruct f as [t ty|t ty|t ty|t k vt|ms]; cbn [merge_fieldval].
    - apply merge_ty_rejects; exact H.
    - apply rejected_bind, merge_ty_rejects; exact H.
    - destruct x as [z|l|k l]; try apply rejected_fail. destruct k; try apply rejected_fail.
      apply rejected_bind. destruct ty as [p|i]; cbn [merge_rep].
      + destruct (scalar_module p); [apply merge_repeated_rejects; exact H|apply rejected_fail].
      + apply rejected_bind_pure; [apply pure_check|]. intros _. apply rejected_bind, message_merge_rejects; assumption.
    - destruct x as [z|l|k' l]; try apply rejected_fail. destruct k'; try apply rejected_fail.
      apply rejected_bind. unfold merge_map. apply rejected_bind, map_entry_merge_rejects; assumption.
    - unfold merge_oneof. pose proof (find_member_some ms tag 0%nat Hin) as Hf.
      destruct (find_member ms tag 0) as [[idx t]|]; [|congruence].
      apply rejected_bind, merge_ty_rejects; exact H.
  Qed.

  Lemma merge_in_fields_rejects : forall fs xs tag s, oversized s ->
    rejected_uncopied s (merge_in_fields rec dflt fs xs tag LengthDelimited ctx s).
  Proof.
    induction fs as [|f fs IH]; intros xs tag s H; cbn [merge_in_fields].
    - apply rejected_bind, skip_field_rejects; exact H.
    - destruct xs as [|x xs]; [apply rejected_bind, skip_field_rejects; exact H|].
      destruct (existsb (Z.eqb tag) (field_tags f)) eqn:E.
      + apply rejected_bind, merge_fieldval_rejects; assumption.
      + apply rejected_bind, IH; exact H.
  Qed.
End StepRejects.

Theorem merge_field_rejects d sc i x tag ctx s : 0 <= ctx -> oversized s ->
  rejected_uncopied s (merge_field d sc i x tag LengthDelimited ctx s).
Proof.
  intros Hc H. destruct d as [|d]; [apply rejected_fail|]. cbn [merge_field].
  destruct (nth_error sc i) as [fs|]; [|apply rejected_fail].
  destruct x as [z|l|k xs]; try apply rejected_fail. destruct k; try apply rejected_fail.
  apply rejected_bind, merge_in_fields_rejects; assumption.
Qed.

Example oversized_nonvacuous : oversized (mkR [x05; x01; x02] 7) /\
  merge_scalar MBytes LengthDelimited (mkR [x05; x01; x02] 7) = OErr PUnderflow (mkR [x01; x02] 7).
Proof. split; [exists 5, (mkR [x01; x02] 7); vm_compute; auto|vm_compute; reflexivity]. Qed.
