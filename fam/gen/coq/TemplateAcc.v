(* C19 / C09, generated level: the sites of the EMITTED TEXT the models account for, with a disposition each.
   Generated/TemplateSites.v is regenerated from pilota-build/src/codegen/thrift/*.rs (every string literal = emitted text) and the
   `fn get_bytes` bodies of the runtime on every run (tools/gen_template_inventory.py); Proofs/TemplateAccP.v proves
   accounted = regenerated AS LISTS of (file, generator function, kind, line text).  A new unsafe block, raw-pointer call, unwrap /
   expect / index / arithmetic operation / with_capacity in the emitted text breaks that obligation until this file says what the
   models do about it.  The dispositions are a closed enumeration (no free text); what each one claims: *)
From Coq Require Import String List.
Import ListNotations.
Local Open Scope string_scope.

(* ---------- ownership (C19) ---------- *)
Inductive odisp :=
| OListArm      (* the raw-pointer arm of the sync list decoder: Own.own_elems with raw = true (the leak of F-19a) *)
| OSliceCopy    (* `as_ptr()` of the reader's chunk + get_bytes(Some(ptr), offset): the runtime COPIES offset bytes from the pointer
                   (Bytes::copy_from_slice(from_raw_parts(ptr, len))): the result is an owned Bytes held by a local (LinkedBytes), dropped on
                   failure -- no leak site.  The read is in bounds iff offset counts exactly the bytes consumed since the pointer was
                   taken: the models totalise it (GenKeep: firstn (n1 + n2) (rbuf s0)); exactness of the count is C13's len theorems *)
| OSliceSplit   (* get_bytes(None, n): split_to_checked -- an owned slice or an error *)
| ORuntime.     (* body of a runtime get_bytes: reached only through the two calls above; unsafe = the from_raw_parts of OSliceCopy
                   (binary_unsafe: the re-borrow of its own buffer after split_to) *)

(* ---------- panics / aborts (C09) ---------- *)
Inductive pdisp :=
| PModelPanic      (* the model has a Panic outcome exactly here: `remaining - 2` of keep + args structs (GenKeep: Panic SOverflow, F-13a) *)
| PRuntimeLen      (* `__pilota_offset += __protocol.<x>_len(..)`: a TLengthProtocol call on the READER; the compact reader's versions can panic
                      (pending-bool asserts, unwraps): modelled by Gen.r_field_begin_len / r_field_end_len / r_field_stop_len with the sites
                      SPendingBoolTwice / SPendingBoolRead / SUnwrap (unreachable after the repair of F-09g: C09_gen_total); the addition
                      itself sums lengths of bytes already consumed (bounded by the input length) *)
| PAllocClause     (* with_capacity(wire count): capacity overflow / allocation failure -- the memory clause (C09_gen_alloc; F-09e, F-09h) *)
| PGuardedCounter  (* __pilota_fields_num: `+= 1` a schema-constant number of times before the loop; `-= 1` only in an iteration that
                      passed the loop-top test `__pilota_fields_num == 0 { .. break }` (GenKeep.dec_fields_keep tests num =? 0 first) *)
| PEncodeSize      (* `+` of the emitted size() expression: encode side, no decoder operation (C04) *)
| PNotAnOperation. (* the token belongs to a type (`+ Send`), not to an operation *)

Definition accounted_own_sites : list ((string * string * string * string) * odisp) :=
  [(("mod.rs", "codegen_decode_fields", "as_ptr", "let __pilota_begin_ptr = __protocol.buf().chunk().as_ptr();"), OSliceCopy);
   (("mod.rs", "codegen_decode_fields", "get_bytes", "_unknown_fields.push_back(__protocol.get_bytes(Some(__pilota_begin_ptr), __pilota_offset)?);"), OSliceCopy);
   (("mod.rs", "codegen_decode_fields", "get_bytes", "_unknown_fields.push_back(__protocol.get_bytes(None, __pilota_remaining - 2)?);"), OSliceSplit);
   (("mod.rs", "codegen_enum_impl", "as_ptr", "let __pilota_begin_ptr = __protocol.buf().chunk().as_ptr();"), OSliceCopy);
   (("mod.rs", "codegen_enum_impl", "unsafe", "unsafe {{"), OSliceCopy);
   (("mod.rs", "codegen_enum_impl", "get_bytes", "__pilota_linked_bytes.push_back(__protocol.get_bytes(Some(__pilota_begin_ptr), __pilota_offset)?);"), OSliceCopy);
   (("ty.rs", "codegen_decode_ty", "unsafe", "unsafe {{"), OListArm);
   (("ty.rs", "codegen_decode_ty", "as_mut_ptr", "val.as_mut_ptr().offset(i as isize).write({read_el});"), OListArm);
   (("ty.rs", "codegen_decode_ty", "ptr_offset", "val.as_mut_ptr().offset(i as isize).write({read_el});"), OListArm);
   (("ty.rs", "codegen_decode_ty", "ptr_write", "val.as_mut_ptr().offset(i as isize).write({read_el});"), OListArm);
   (("ty.rs", "codegen_decode_ty", "set_len", "val.set_len(list_ident.size);"), OListArm);
   (("runtime/binary.rs", "get_bytes", "unsafe", "Ok(Bytes::copy_from_slice(unsafe {"), ORuntime);
   (("runtime/binary.rs", "get_bytes", "copy_from_slice", "Ok(Bytes::copy_from_slice(unsafe {"), ORuntime);
   (("runtime/binary.rs", "get_bytes", "from_raw_parts", "std::slice::from_raw_parts(ptr, len)"), ORuntime);
   (("runtime/binary.rs", "get_bytes", "split_to", "Ok(split_to_checked(self.trans, len)?)"), ORuntime);
   (("runtime/binary_le.rs", "get_bytes", "unsafe", "Ok(Bytes::copy_from_slice(unsafe {"), ORuntime);
   (("runtime/binary_le.rs", "get_bytes", "copy_from_slice", "Ok(Bytes::copy_from_slice(unsafe {"), ORuntime);
   (("runtime/binary_le.rs", "get_bytes", "from_raw_parts", "std::slice::from_raw_parts(ptr, len)"), ORuntime);
   (("runtime/binary_le.rs", "get_bytes", "split_to", "Ok(split_to_checked(self.trans, len)?)"), ORuntime);
   (("runtime/binary_unsafe.rs", "get_bytes", "advance", "self.advance(self.index);"), ORuntime);
   (("runtime/binary_unsafe.rs", "get_bytes", "split_to", "let val = self.trans.split_to(len);"), ORuntime);
   (("runtime/binary_unsafe.rs", "get_bytes", "unsafe", "self.buf = unsafe { slice::from_raw_parts(self.trans.as_ptr(), self.trans.len()) };"), ORuntime);
   (("runtime/binary_unsafe.rs", "get_bytes", "as_ptr", "self.buf = unsafe { slice::from_raw_parts(self.trans.as_ptr(), self.trans.len()) };"), ORuntime);
   (("runtime/binary_unsafe.rs", "get_bytes", "from_raw_parts", "self.buf = unsafe { slice::from_raw_parts(self.trans.as_ptr(), self.trans.len()) };"), ORuntime);
   (("runtime/compact.rs", "get_bytes", "unsafe", "Ok(Bytes::copy_from_slice(unsafe {"), ORuntime);
   (("runtime/compact.rs", "get_bytes", "copy_from_slice", "Ok(Bytes::copy_from_slice(unsafe {"), ORuntime);
   (("runtime/compact.rs", "get_bytes", "from_raw_parts", "std::slice::from_raw_parts(ptr, len)"), ORuntime);
   (("runtime/compact.rs", "get_bytes", "split_to", "Ok(split_to_checked(self.trans, len)?)"), ORuntime)].

Definition accounted_panic_sites : list ((string * string * string * string) * pdisp) :=
  [(("decode_helper.rs", "new", "arith", "__pilota_offset += __protocol.{}();"), PRuntimeLen);
   (("decode_helper.rs", "codegen_field_begin_len", "arith", "__pilota_offset += __protocol.field_begin_len(field_ident.field_type, field_ident.id);"), PRuntimeLen);
   (("mod.rs", "codegen_impl_message", "arith", ") -> ::std::pin::Pin<::std::boxed::Box<dyn ::std::future::Future<Output = ::std::result::Result<Self, ::pilota::thrift::ThriftException>> + Send + 'a>> {{"), PNotAnOperation);
   (("mod.rs", "codegen_decode", "arith", "__pilota_fields_num += 1;"), PGuardedCounter);
   (("mod.rs", "codegen_decode_fields", "arith", "__pilota_fields_num -= 1;"), PGuardedCounter);
   (("mod.rs", "codegen_decode_fields", "arith", "__pilota_offset += {skip_ttype}"), PRuntimeLen);
   (("mod.rs", "codegen_decode_fields", "arith", "_unknown_fields.push_back(__protocol.get_bytes(None, __pilota_remaining - 2)?);"), PModelPanic);
   (("mod.rs", "codegen_struct_impl", "arith", "}}) + {encode_fields_size} __protocol.field_stop_len() + __protocol.struct_end_len()"), PEncodeSize);
   (("mod.rs", "codegen_enum_impl", "arith", "}}) + match self {{"), PEncodeSize);
   (("mod.rs", "codegen_enum_impl", "arith", "}} + __protocol.field_stop_len() + __protocol.struct_end_len()"), PEncodeSize);
   (("mod.rs", "codegen_enum_impl", "arith", "__pilota_offset += {skip}"), PRuntimeLen);
   (("mod.rs", "codegen_enum_impl", "arith", "__pilota_offset += {size};"), PRuntimeLen);
   (("ty.rs", "codegen_decode_ty", "alloc", "let mut val: ::std::vec::Vec<{ty_rust_name}> = ::std::vec::Vec::with_capacity(list_ident.size);"), PAllocClause);
   (("ty.rs", "codegen_decode_ty", "alloc", "let mut val = ::std::vec::Vec::with_capacity(list_ident.size);"), PAllocClause);
   (("ty.rs", "codegen_decode_ty", "alloc", "::pilota::AHashSet::with_capacity(list_ident.size)"), PAllocClause);
   (("ty.rs", "codegen_decode_ty", "alloc", "::pilota::AHashMap::with_capacity(map_ident.size)"), PAllocClause)].
