//! The value interpreter over pilota's real primitive protocol API
//! (mirror of coq/Thrift/Interp.v).
use bytes::Bytes;
use pilota::thrift::{
    ProtocolExceptionKind, TInputProtocol, TLengthProtocol, TListIdentifier, TMapIdentifier,
    TOutputProtocol, TSetIdentifier, TStructIdentifier, TType, ThriftException,
};

use crate::val::{ttype_code, TVal};

pub fn tt(code: u8) -> TType {
    TType::try_from(code).expect("harness: invalid ttype code in a case line")
}

static IDENT: TStructIdentifier = TStructIdentifier { name: "S" };

/// which API flavour to use for binaries (all must produce the same bytes)
#[derive(Clone, Copy, PartialEq, Debug)]
pub enum BinApi {
    Bytes,
    BytesVec,
    Str,
    FastStr,
}

pub fn write_val<P: TOutputProtocol>(p: &mut P, v: &TVal, api: BinApi) -> Result<(), ThriftException> {
    match v {
        TVal::Bool(b) => p.write_bool(*b),
        TVal::I8(z) => p.write_i8(*z),
        TVal::I16(z) => p.write_i16(*z),
        TVal::I32(z) => p.write_i32(*z),
        TVal::I64(z) => p.write_i64(*z),
        TVal::Double(bits) => p.write_double(f64::from_bits(*bits)),
        TVal::Binary(b) => match api {
            BinApi::Bytes => p.write_bytes(Bytes::copy_from_slice(b)),
            BinApi::BytesVec => p.write_bytes_vec(b),
            BinApi::Str => p.write_string(unsafe { std::str::from_utf8_unchecked(b) }),
            BinApi::FastStr => p.write_faststr(unsafe {
                faststr::FastStr::from_bytes_unchecked(Bytes::copy_from_slice(b))
            }),
        },
        TVal::Uuid(u) => p.write_uuid(*u),
        TVal::Struct(fs) => {
            p.write_struct_begin(&IDENT)?;
            for (id, x) in fs {
                p.write_field_begin(tt(ttype_code(x)), *id)?;
                write_val(p, x, api)?;
                p.write_field_end()?;
            }
            p.write_field_stop()?;
            p.write_struct_end()
        }
        TVal::List(et, l) => {
            p.write_list_begin(TListIdentifier { element_type: tt(*et), size: l.len() })?;
            for x in l {
                write_val(p, x, api)?;
            }
            p.write_list_end()
        }
        TVal::Set(et, l) => {
            p.write_set_begin(TSetIdentifier { element_type: tt(*et), size: l.len() })?;
            for x in l {
                write_val(p, x, api)?;
            }
            p.write_set_end()
        }
        TVal::Map(kt, vt, l) => {
            p.write_map_begin(TMapIdentifier { key_type: tt(*kt), value_type: tt(*vt), size: l.len() })?;
            for (k, x) in l {
                write_val(p, k, api)?;
                write_val(p, x, api)?;
            }
            p.write_map_end()
        }
    }
}

fn refuse(msg: &str) -> ThriftException {
    pilota::thrift::new_protocol_exception(ProtocolExceptionKind::InvalidData, msg.to_string())
}

pub fn read_val<P: TInputProtocol>(p: &mut P, ty: u8, api: BinApi) -> Result<TVal, ThriftException> {
    Ok(match ty {
        2 => TVal::Bool(p.read_bool()?),
        3 => TVal::I8(p.read_i8()?),
        6 => TVal::I16(p.read_i16()?),
        8 => TVal::I32(p.read_i32()?),
        10 => TVal::I64(p.read_i64()?),
        4 => TVal::Double(p.read_double()?.to_bits()),
        11 => TVal::Binary(match api {
            BinApi::Bytes => p.read_bytes()?.to_vec(),
            BinApi::BytesVec => p.read_bytes_vec()?,
            BinApi::Str => p.read_string()?.into_bytes(),
            BinApi::FastStr => p.read_faststr()?.as_bytes().to_vec(),
        }),
        16 => TVal::Uuid(p.read_uuid()?),
        12 => {
            p.read_struct_begin()?;
            let mut fs = Vec::new();
            loop {
                let f = p.read_field_begin()?;
                if f.field_type == TType::Stop {
                    break;
                }
                let x = read_val(p, f.field_type as u8, api)?;
                p.read_field_end()?;
                fs.push((f.id.unwrap_or(0), x));
            }
            p.read_struct_end()?;
            TVal::Struct(fs)
        }
        15 => {
            let h = p.read_list_begin()?;
            let mut l = Vec::new();
            for _ in 0..h.size {
                l.push(read_val(p, h.element_type as u8, api)?);
            }
            p.read_list_end()?;
            TVal::List(h.element_type as u8, l)
        }
        14 => {
            let h = p.read_set_begin()?;
            let mut l = Vec::new();
            for _ in 0..h.size {
                l.push(read_val(p, h.element_type as u8, api)?);
            }
            p.read_set_end()?;
            TVal::Set(h.element_type as u8, l)
        }
        13 => {
            let h = p.read_map_begin()?;
            let mut l = Vec::new();
            for _ in 0..h.size {
                let k = read_val(p, h.key_type as u8, api)?;
                let x = read_val(p, h.value_type as u8, api)?;
                l.push((k, x));
            }
            p.read_map_end()?;
            TVal::Map(h.key_type as u8, h.value_type as u8, l)
        }
        _ => return Err(refuse("interpreter: type cannot be read")),
    })
}

pub fn err_class(e: &ThriftException) -> String {
    match e {
        ThriftException::Protocol(p) => format!("{:?}", p.kind()),
        ThriftException::Transport(_) => "Transport".to_string(),
        ThriftException::Application(_) => "Application".to_string(),
    }
}

/// the size pass of the interpreter: same walk as write_val, over the TLengthProtocol methods
pub fn len_val<P: TLengthProtocol>(p: &mut P, v: &TVal) -> usize {
    match v {
        TVal::Bool(b) => p.bool_len(*b),
        TVal::I8(z) => p.i8_len(*z),
        TVal::I16(z) => p.i16_len(*z),
        TVal::I32(z) => p.i32_len(*z),
        TVal::I64(z) => p.i64_len(*z),
        TVal::Double(bits) => p.double_len(f64::from_bits(*bits)),
        TVal::Binary(b) => p.bytes_len(b),
        TVal::Uuid(u) => p.uuid_len(*u),
        TVal::Struct(fs) => {
            let mut n = p.struct_begin_len(&IDENT);
            for (id, x) in fs {
                n += p.field_begin_len(tt(ttype_code(x)), Some(*id));
                n += len_val(p, x);
                n += p.field_end_len();
            }
            n += p.field_stop_len();
            n + p.struct_end_len()
        }
        TVal::List(et, l) => {
            let mut n = p.list_begin_len(TListIdentifier { element_type: tt(*et), size: l.len() });
            for x in l {
                n += len_val(p, x);
            }
            n + p.list_end_len()
        }
        TVal::Set(et, l) => {
            let mut n = p.set_begin_len(TSetIdentifier { element_type: tt(*et), size: l.len() });
            for x in l {
                n += len_val(p, x);
            }
            n + p.set_end_len()
        }
        TVal::Map(kt, vt, l) => {
            let mut n = p.map_begin_len(TMapIdentifier { key_type: tt(*kt), value_type: tt(*vt), size: l.len() });
            for (k, x) in l {
                n += len_val(p, k);
                n += len_val(p, x);
            }
            n + p.map_end_len()
        }
    }
}

/// all flavours of the binary length methods must agree
pub fn len_flavours_agree<P: TLengthProtocol>(p: &mut P, b: &[u8]) -> bool {
    let a = p.bytes_len(b);
    let s = unsafe { std::str::from_utf8_unchecked(b) };
    let fs = unsafe { faststr::FastStr::from_bytes_unchecked(Bytes::copy_from_slice(b)) };
    a == p.bytes_vec_len(b) && a == p.string_len(s) && a == p.faststr_len(&fs)
}
