#!/bin/sh
# MANIFEST.setup_cmd: build the framework from files on disk only (offline).
set -e
cd "$(dirname "$0")"
export CARGO_NET_OFFLINE=true
mkdir -p .cache out evidence
python3 tools/extract.py --repo "${PV_REPO:-/repo}"
( cd coq && coq_makefile -f _CoqProject -o Makefile >/dev/null && timeout 3000 make -j"$(nproc)" )
sh model_runner/build.sh
cp "${PV_REPO:-/repo}/Cargo.lock" harness/Cargo.lock
( cd harness && CARGO_TARGET_DIR=../.cache/target cargo build --offline --quiet 2>/dev/null || CARGO_TARGET_DIR=../.cache/target cargo build --offline )
echo "setup ok"
