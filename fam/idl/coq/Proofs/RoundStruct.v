(* C15, stage 5c: struct / union / exception bodies, enum values and enums. *)
From PVIdl Require Import Comb Ast Parser Print Proofs.Total Proofs.RoundTok Proofs.RoundPath Proofs.RoundAnn Proofs.RoundTy
  Proofs.RoundKit Proofs.Lex Proofs.RoundNum Proofs.RoundConst Proofs.RoundDecl Proofs.RoundField.
From Coq Require Import ZifyN ZifyNat ZifyBool.
From Coq Require String.
Import String.StringSyntax.
Open Scope nat_scope.

Section Struct.
Variable lf : nat.
Variable whole : list byte.
Hypothesis Hlf : length whole < lf.
Variable df : nat.
Hypothesis Hdf : length whole < df.

Lemma p_struct_like_eq i : p_struct_like lf df i =
  (do i, name <- p_ident i ;; do i, _ <- opt (p_blank lf) i ;; do i, _ <- tag sym_struct_open i ;;
   do i, fields <- many0 lf (fld lf df) i ;; do i, _ <- opt (p_blank lf) i ;; do i, _ <- tag sym_struct_close i ;;
   do i, _ <- opt (p_blank lf) i ;; do i, an <- opt (p_annotations lf) i ;; do i, _ <- opt (p_list_separator lf) i ;;
   POk i (mkStructLike name fields (unwrap_or_default an))).
Proof. reflexivity. Qed.

(* name [blank] { [blank] fields } [blank] [annotations] [separator] *)
Theorem rt_struct_like eof c k : wf_struct eof c = true -> (eof = true -> k = []) -> nosep k = true ->
  (tail_open (cs_tail c) = true -> stop k = true) -> sfx (pr_struct_like c k) whole ->
  p_struct_like lf df (pr_struct_like c k) = POk k (erase_struct c).
Proof.
  intros Hw He Hns Hop S. destruct c as [name b1 b0 fs tl]. unfold wf_struct, pr_struct_like, erase_struct in *.
  cbn [cs_name cs_b1 cs_b0 cs_fields cs_tail] in *. bsplit Hw. rewrite p_struct_like_eq.
  rewrite (rt_ident name) by (assumption || (apply blank_then; auto with bsdb)). cbn [pbind].
  obk lf whole Hlf S ltac:(reflexivity). tg sym_struct_open (txt "{").
  change (txt "}" ++ pr_tail tl k) with (x7d :: pr_tail tl k) in *.
  rewrite (fields_loop lf whole Hlf df Hdf fs b0 (pr_tail tl k) lf x7d (or_introl eq_refl) ltac:(assumption) ltac:(assumption))
    by (first [solve [sfx_of S] | eapply sfx_lt; [exact Hlf|sfx_of S]]).
  cbn [pbind].
  assert (E : exists o, opt (p_blank lf) (match fs with [] => pr_blank b0 (x7d :: pr_tail tl k) | _ :: _ => x7d :: pr_tail tl k end)
                        = POk (x7d :: pr_tail tl k) o).
  { destruct fs; [apply (oblank lf whole Hlf); auto; sfx_of S|]. exists None. apply opt_err, blank_err. reflexivity. }
  destruct E as [o1 ->]. cbn [pbind].
  change (x7d :: pr_tail tl k) with (sym_struct_close ++ pr_tail tl k). rewrite tag_ok. cbn [pbind].
  destruct (tail_steps lf whole Hlf eof tl k ltac:(assumption) He Hns Hop ltac:(sfx_of S)) as (o2 & o3 & E1 & E2 & E3).
  rewrite E1. cbn [pbind]. rewrite E2. cbn [pbind]. rewrite E3. cbn [pbind]. rewrite unwrap_oanns. reflexivity.
Qed.

(* ---------- enum values ---------- *)
Definition p_evalue : parser Z :=
  fun i => do i, _ <- tag sym_enum_eq i ;; do i, _ <- opt (p_blank lf) i ;; p_int_constant lf i.
Lemma p_enum_value_eq i : p_enum_value lf i =
  (do i, name <- p_ident i ;; do i, _ <- opt (p_blank lf) i ;; do i, value <- opt p_evalue i ;;
   do i, _ <- opt (p_blank lf) i ;; do i, an <- opt (p_annotations lf) i ;; do i, _ <- opt (p_list_separator lf) i ;;
   do i, _ <- opt (p_blank lf) i ;; POk i (mkEnumValue name value (unwrap_or_default an))).
Proof. reflexivity. Qed.

Definition evalue_rest (v : option (blank * cint * blank)) (X : list byte) : list byte :=
  match v with Some (_, _, b2) => pr_blank b2 X | None => X end.

Lemma evalue_steps v X : match v with Some (b1, i, b2) => wf_blank b1 && wf_int i && wf_blank b2 | None => true end = true ->
  nb X = true -> noeq X = true -> (match v with Some (_, i, b2) => int_stops i (pr_blank b2 X) = true | None => True end) ->
  sfx (pr_evalue v X) whole ->
  exists o, opt p_evalue (pr_evalue v X) = POk (evalue_rest v X) (match v with Some (_, i, _) => Some (erase_int i) | None => None end) /\
            opt (p_blank lf) (evalue_rest v X) = POk X o.
Proof.
  intros Hw Hn Hq Hi S. destruct v as [[[b1 i] b2]|]; cbn [pr_evalue evalue_rest] in *.
  - bsplit Hw. destruct (oblank lf whole Hlf b2 X ltac:(assumption) Hn ltac:(sfx_of S)) as [o E]. exists o. split; [|exact E].
    apply opt_ok. unfold p_evalue. tg sym_enum_eq (txt "=").
    obk lf whole Hlf S ltac:(apply int_head; auto; intros c Hc; apply stop_nb with (k := [c]); cbn; now apply digit_stop).
    apply rt_int; auto. eapply sfx_lt; [exact Hlf|sfx_of S].
  - exists None. split.
    + apply opt_err. unfold p_evalue. apply pbind_err. destruct X as [|c X]; [exact I|]. apply tag_hd_ne.
      cbn in Hq. now apply negb_true_iff in Hq.
    + apply opt_err, blank_err, Hn.
Qed.

Lemma bs_endc' b : blank_start b = true -> endc b = true.
Proof. destruct b; vm_compute; intro H; try reflexivity; discriminate H. Qed.

(* [enumval_ends_word e]: the text of the value ends with its name or with its number; then K must not continue it *)
Theorem rt_enumval e K : wf_enumval e = true -> stop K = true ->
  (enumval_ends_word e = true -> match ev_val e with Some (_, i, _) => int_stops i K = true | None => wstop K = true end) ->
  sfx (pr_enumval e K) whole -> p_enum_value lf (pr_enumval e K) = POk K (erase_enumval e).
Proof.
  intros Hw Hk Hew S. destruct e as [name b1 v a sp b4]. unfold wf_enumval, pr_enumval, erase_enumval, enumval_ends_word in *.
  cbn [ev_cname ev_b1 ev_val ev_canns ev_sep ev_b4] in *. bsplit Hw.
  assert (B4 : is_nil b4 || (negb (is_none a) && sep_none sp) = true) by assumption.
  (* what follows the optional value *)
  set (X := pr_oanns a (pr_sep sp (pr_blank b4 K))) in *.
  assert (HX : forall g : byte -> bool, g x28 = true -> g x2c = true -> g x3b = true -> hd_sat g K = true -> hd_sat g X = true).
  { intros g G1 G2 G3 GK. unfold X. destruct a as [l|]; cbn [pr_oanns pr_anns]; [exact G1|].
    destruct sp as [|[|] bl]; cbn [pr_sep sep_byte]; auto. cbn in B4. rewrite orb_false_r in B4. destruct b4; [exact GK|discriminate]. }
  assert (NX : nb X = true) by (apply HX; try reflexivity; apply stop_nb, Hk).
  rewrite p_enum_value_eq.
  rewrite (rt_ident name).
  2: assumption.
  2:{ apply blank_then; auto with bsdb. intros ->. destruct v as [[[? ?] ?]|]; cbn [pr_evalue]; [reflexivity|].
      unfold X. destruct a as [l|]; cbn [pr_oanns pr_anns]; [reflexivity|]. destruct sp as [|[|] bl]; cbn [pr_sep sep_byte]; try reflexivity.
      cbn in B4. rewrite orb_false_r in B4. destruct b4; [|discriminate]. cbn [pr_blank]. apply wstop_nid, Hew. reflexivity. }
  cbn [pbind].
  obk lf whole Hlf S ltac:(destruct v as [[[? ?] ?]|]; cbn [pr_evalue]; [reflexivity|exact NX]).
  destruct (evalue_steps v X ltac:(assumption) NX) as [ov [E1 E2]].
  { apply HX; try reflexivity. apply stop_noeq, Hk. }
  { destruct v as [[[bv i] b3]|]; [|exact I]. match goal with H : wf_blank bv && wf_int i && wf_blank b3 = true |- _ => bsplit H end.
    destruct b3 as [|a3 b3].
    - cbn [pr_blank]. unfold X. destruct a as [l|]; cbn [pr_oanns pr_anns]; [apply int_stops_end; reflexivity|].
      destruct sp as [|[|] bl]; cbn [pr_sep sep_byte]; try (apply int_stops_end; reflexivity). cbn in B4. rewrite orb_false_r in B4.
      destruct b4; [|discriminate]. cbn [pr_blank]. apply Hew. reflexivity.
    - apply int_stops_end. unfold endk. apply blank_then; [assumption|exact bs_endc'|discriminate]. }
  { sfx_of S. }
  change (fun i => do i0, _ <- tag sym_enum_eq i;; do i1, _ <- opt (p_blank lf) i0;; p_int_constant lf i1) with p_evalue.
  rewrite E1. cbn [pbind]. rewrite E2. cbn [pbind]. subst X.
  rewrite (oanns_ok lf whole Hlf a (pr_sep sp (pr_blank b4 K)) ltac:(assumption)); [| |sfx_of S].
  2:{ intros ->. destruct sp as [|[|] bl]; cbn [pr_sep sep_byte]; try reflexivity. cbn in B4. rewrite orb_false_r in B4.
      destruct b4; [|discriminate]. apply stop_noparen, Hk. }
  cbn [pbind].
  assert (E3 : exists o, opt (p_list_separator lf) (pr_sep sp (pr_blank b4 K)) = POk (pr_blank b4 K) o).
  { destruct sp as [|semi bl].
    - exists None. apply opt_err. unfold p_list_separator. apply pbind_err. cbn [pr_sep].
      assert (N : nosep (pr_blank b4 K) = true) by (apply blank_then; auto with bsdb; intros _; apply stop_nosep, Hk).
      destruct (pr_blank b4 K) as [|c r]; [exact I|]. unfold nosep in N. cbn [hd_sat] in N. cbn [one_of].
      destruct (bmem c set_list_separator); [discriminate|exact I].
    - cbn in B4. rewrite andb_false_r, orb_false_r in B4. destruct b4; [|discriminate]. cbn [pr_blank].
      apply (osep_ok lf whole Hlf); auto using stop_nb, stop_nosep. sfx_of S. }
  destruct E3 as [o3 ->]. cbn [pbind].
  obk lf whole Hlf S ltac:(apply stop_nb, Hk).
  rewrite unwrap_oanns. reflexivity.
Qed.

Lemma enumval_head (g : byte -> bool) e K : wf_enumval e = true -> (forall b, (is_alpha b || is_underscore b) = true -> g b = true) ->
  hd_sat g (pr_enumval e K) = true.
Proof.
  intros Hw Hg. unfold wf_enumval in Hw. bsplit Hw. unfold pr_enumval.
  assert (I : is_ident (ev_cname e) = true) by assumption. destruct (ev_cname e) as [|c s]; [discriminate|].
  cbn [is_ident] in I. apply andb_prop in I. destruct I. cbn [app hd_sat]. auto.
Qed.

Lemma len_enumval e K : wf_enumval e = true -> length K < length (pr_enumval e K).
Proof.
  intros Hw. unfold wf_enumval in Hw. bsplit Hw. unfold pr_enumval. rewrite app_length.
  assert (I : is_ident (ev_cname e) = true) by assumption. destruct (ev_cname e); [discriminate|]. cbn [length].
  match goal with |- _ < _ + length ?X => assert (L : length K <= length X) by (apply sfx_len; repeat sfx_step) end.
  clear - L. lia.
Qed.

(* what follows the name of a value is no word character, no '-', no '.' *)
Lemma lstopc_bs b : blank_start b = true -> lstopc b = true.
Proof. destruct b; vm_compute; intro H; try reflexivity; discriminate H. Qed.
Lemma enumvals_after_name e rest k : wf_enumvals (e :: rest) = true ->
  exists Y, pr_enumvals (e :: rest) (x7d :: k) = ev_cname e ++ Y /\ lstopk Y = true.
Proof.
  cbn [wf_enumvals pr_enumvals]. intros Hw. bsplit Hw. unfold pr_enumval. eexists. split; [reflexivity|].
  destruct e as [name b1 v a sp b4]. unfold wf_enumval in Hw. cbn [ev_cname ev_b1 ev_val ev_canns ev_sep ev_b4] in *. bsplit Hw.
  assert (B4 : is_nil b4 || (negb (is_none a) && sep_none sp) = true) by assumption.
  unfold lstopk. apply blank_then; auto using lstopc_bs. intros ->.
  destruct v as [[[bv i] b3]|]; cbn [pr_evalue]; [reflexivity|].
  destruct a as [l|]; cbn [pr_oanns pr_anns]; [reflexivity|]. destruct sp as [|[|] bl]; cbn [pr_sep sep_byte]; try reflexivity.
  cbn in B4. rewrite orb_false_r in B4. destruct b4; [|discriminate]. cbn [pr_blank].
  destruct rest as [|e2 rest2]; [reflexivity|]. exfalso.
  match goal with H : enumval_glue _ _ = true |- _ => unfold enumval_glue, enumval_ends_word in H; cbn in H; discriminate H end.
Qed.

Lemma enumvals_loop : forall vs k fuel, wf_enumvals vs = true -> sfx (pr_enumvals vs (x7d :: k)) whole ->
  length (pr_enumvals vs (x7d :: k)) < fuel ->
  many0 fuel (p_enum_value lf) (pr_enumvals vs (x7d :: k)) = POk (x7d :: k) (map erase_enumval vs).
Proof.
  induction vs as [|e rest IH]; intros k fuel Hw S Hf; (destruct fuel as [|fu]; [lia|]); cbn [pr_enumvals wf_enumvals map] in *.
  - apply many0_stop. rewrite p_enum_value_eq. apply pbind_err. apply ident_err. reflexivity.
  - bsplit Hw. remember (pr_enumvals rest (x7d :: k)) as K eqn:EK.
    assert (SK : stop K = true).
    { subst K. destruct rest as [|e2 rest]; [reflexivity|]. cbn [pr_enumvals wf_enumvals] in *. bsplit W. apply enumval_head; auto using idh_stop. }
    assert (EW : enumval_ends_word e = true -> match ev_val e with Some (_, i, _) => int_stops i K = true | None => wstop K = true end).
    { intros E. destruct rest as [|e2 rest2].
      - subst K. cbn [pr_enumvals]. destruct (ev_val e) as [[[? i] ?]|]; [apply int_stops_end|]; reflexivity.
      - match goal with H : enumval_glue e (ev_cname e2) = true |- _ => unfold enumval_glue in H; rewrite E in H; cbn [negb orb] in H end.
        destruct (ev_val e) as [[[? i] ?]|]; [|discriminate].
        destruct (enumvals_after_name e2 rest2 k ltac:(assumption)) as [Y [EY HY]]. rewrite EK, EY.
        now rewrite (int_stops_local i (ev_cname e2) Y HY). }
    pose proof (len_enumval e K ltac:(assumption)) as L.
    rewrite (many0_step _ fu _ K (erase_enumval e) (rt_enumval e K ltac:(assumption) SK EW S) L).
    rewrite EK. rewrite (IH k fu ltac:(assumption)); [reflexivity|rewrite <- EK; sfx_of S|rewrite <- EK; clear - L Hf; lia].
Qed.

(* enum <blank> name [blank] { [blank] values } [blank] [annotations] *)
Theorem rt_enum eof c k : wf_enum eof c = true -> (eof = true -> k = []) -> (ce_anns c = None -> stop k = true) ->
  sfx (pr_enum c k) whole -> p_enum lf (pr_enum c k) = POk k (erase_enum c).
Proof.
  intros Hw He Hop S. destruct c as [b1 name b2 b0 vs b3 a]. unfold wf_enum, pr_enum, erase_enum in *.
  cbn [ce_b1 ce_name ce_b2 ce_b0 ce_vals ce_b3 ce_anns] in *. bsplit Hw.
  unfold p_enum. tg kw_enum (txt "enum").
  mbk lf whole Hlf S ltac:(now apply ident_nb).
  rewrite (rt_ident name) by (assumption || (apply blank_then; auto with bsdb)). cbn [pbind].
  obk lf whole Hlf S ltac:(reflexivity). tg sym_enum_open (txt "{").
  change (txt "}" ++ pr_blank b3 (pr_oanns a k)) with (x7d :: pr_blank b3 (pr_oanns a k)) in *.
  obk lf whole Hlf S ltac:(destruct vs as [|e vs]; [reflexivity|]; cbn [pr_enumvals wf_enumvals] in *;
                           match goal with H : wf_enumval e && _ && _ = true |- _ => bsplit H end;
                           apply enumval_head; auto; intros b Hb; apply stop_nb with (k := [b]); cbn; now apply idh_stop).
  rewrite (enumvals_loop vs _ lf ltac:(assumption)) by (first [solve [sfx_of S] | eapply sfx_lt; [exact Hlf|sfx_of S]]).
  cbn [pbind]. rewrite (opt_err (p_blank lf)) by (apply blank_err; reflexivity). cbn [pbind].
  change (x7d :: pr_blank b3 (pr_oanns a k)) with (sym_enum_close ++ pr_blank b3 (pr_oanns a k)). rewrite tag_ok. cbn [pbind].
  assert (E : exists o, opt (p_blank lf) (pr_blank b3 (pr_oanns a k)) = POk (pr_oanns a k) o).
  { destruct a as [l|]; cbn [is_none pr_oanns] in *.
    - rewrite andb_false_r in *. apply (oblank lf whole Hlf); auto. sfx_of S.
    - rewrite andb_true_r in *. apply (oblank_e lf whole Hlf eof); auto; [apply stop_nb; auto|sfx_of S]. }
  destruct E as [ob3 ->]. cbn [pbind].
  rewrite (oanns_ok lf whole Hlf a k ltac:(assumption)); [| |sfx_of S].
  2:{ intros E. apply stop_noparen. auto. }
  cbn [pbind]. rewrite unwrap_oanns. reflexivity.
Qed.

End Struct.

(* non-vacuity *)
Example rt_enum_example :
  let vs := [ mkCEnumVal (txt "e5") [BWs (txt " ")] (Some ([], mkCInt 0 true (txt "10"), [])) None (SepSome false [BWs (txt " ")]) [];
              mkCEnumVal (txt "E10") [] None (Some [mkCAnn [] (txt "a") [] [] (mkLit false (txt "b")) [] SepNone]) SepNone [BHash []; BWs [x0a]];
              mkCEnumVal (txt "_x") [] (Some ([BWs (txt " ")], mkCInt 1 false (txt "3"), [BWs (txt " ")])) None SepNone [] ] in
  let c := mkCEnum [BWs (txt " ")] (txt "enumerate") [] [BWs (txt " ")] vs [] None in
  wf_enum true c = true /\ p_enum 200 (pr_enum c []) = POk [] (erase_enum c) /\
  pr_enum c [] = txt "enum enumerate{ e5 =0x10, E10(a='b')#" ++ x0a :: txt "_x= -3 }".
Proof. vm_compute. repeat split. Qed.
