(* Default::default() of the generated structs: terminates exactly when no by-value cycle of REQUIRED message fields exists
   (finding F-10a).  The model's default_msg carries a fuel; under [required_acyclic] the fuel is never used up, so the
   model's default IS the derived Default; without it the defaults grow with the fuel: the Rust function does not return. *)
From PVPb Require Import Msg.
From Coq Require Import Lia.
Open Scope Z_scope.

Lemma default_fuel_irrelevant sc : forall f i d d', req_ok f sc i = true -> (f <= d)%nat -> (f <= d')%nat ->
  default_msg d sc i = default_msg d' sc i.
Proof.
  induction f as [|f IH]; intros i d d' Hr Hd Hd'; [discriminate Hr|].
  destruct d as [|d]; [lia|]. destruct d' as [|d']; [lia|]. cbn [req_ok default_msg] in *.
  destruct (nth_error sc i) as [fs|]; [|reflexivity]. f_equal.
  induction fs as [|fld fs IHf]; cbn [map forallb] in *; [reflexivity|].
  apply andb_prop in Hr. destruct Hr as [H1 H2]. f_equal; [|apply IHf; exact H2].
  destruct fld as [t ty|t ty|t ty|t k vt|ms]; cbn [default_field]; try reflexivity.
  destruct ty as [p|j]; [reflexivity|]. apply IH; [exact H1|lia|lia].
Qed.

(* for a well-formed schema every fuel above |sc| gives the same default: the recursion of the derived Default is finite *)
Theorem default_terminates sc i d d' : schema_ok sc = true -> (i < length sc)%nat -> (length sc < d)%nat -> (length sc < d')%nat ->
  default_msg d sc i = default_msg d' sc i.
Proof.
  intros Hs Hi Hd Hd'. unfold schema_ok in Hs. apply andb_prop in Hs. destruct Hs as [_ Hr].
  unfold required_acyclic in Hr. rewrite forallb_forall in Hr.
  apply (default_fuel_irrelevant sc (S (length sc))); [|lia|lia]. apply Hr. apply in_seq. lia.
Qed.

(* F-10a as a statement about the model: message A { required A a = 1; } passes every other clause of schema_ok, is not
   required_acyclic, and its default has no fixpoint -- one more level for every unit of fuel *)
Fixpoint vdepth (v : val) : nat :=
  match v with
  | VL _ l => S ((fix mx (l : list val) : nat := match l with [] => O | x :: r => Nat.max (vdepth x) (mx r) end) l)
  | _ => O
  end.

Theorem required_cycle_refuted :
  let sc := [[FSingular 1 (TMsg 0)]] in
  forallb (msgdesc_ok sc) sc = true /\ required_acyclic sc = false /\ schema_ok sc = false /\
  forall d, vdepth (default_msg d sc 0) = S d.
Proof.
  cbv zeta. split; [vm_compute; reflexivity|]. split; [vm_compute; reflexivity|]. split; [vm_compute; reflexivity|].
  induction d as [|d IH]; [reflexivity|]. cbn [default_msg nth_error map default_field]. cbn [vdepth]. rewrite IH. lia.
Qed.

(* non-vacuity of default_terminates: a recursive OPTIONAL field and a required chain A -> B are fine *)
Example required_acyclic_nonvacuous :
  schema_ok [[FSingular 1 (TMsg 1); FOptional 2 (TMsg 0)]; [FSingular 1 (TScalar TYPE_INT32); FRepeated 2 (TMsg 0)]] = true.
Proof. vm_compute. reflexivity. Qed.

(* ------------------------------------------------------------------ F-10b repaired: generated `string` fields hold UTF-8 *)
(* faststr::merge now validates like string::merge: same outcome on every input *)
Theorem faststr_merge_is_string_merge :
  faststr_validates = true /\ forall wt s, merge_scalar MFastStr wt s = merge_scalar MString wt s.
Proof. split; reflexivity. Qed.

(* whatever the bytes and the wire type: a decoded FastStr / String is valid UTF-8 *)
Theorem decoded_string_utf8 m wt s v s' : m = MFastStr \/ m = MString -> merge_scalar m wt s = OOk v s' -> utf8_valid (vbytes v) = true.
Proof.
  intros Hm H. assert (E : merge_scalar m wt s = string_merge wt s) by (destruct Hm as [-> | ->]; reflexivity).
  rewrite E in H. unfold string_merge, bind in H. destruct (bytes_merge_one_copy wt s) as [v0 s0|e s0|p]; try discriminate H.
  destruct (utf8_valid (vbytes v0)) eqn:Eu; [|discriminate H]. inversion H; subst. exact Eu.
Qed.

(* the witness of the finding, now rejected -- by the module and by a generated message *)
Theorem faststr_rejects_invalid_utf8 :
  scalar_module TYPE_STRING = Some MFastStr /\
  utf8_valid [xff; xfe] = false /\
  (exists s, merge_scalar MFastStr LengthDelimited (mkR [x02; xff; xfe] 0) = OErr PUtf8 s) /\
  (exists s, msg_decode [[FOptional 1 (TScalar TYPE_STRING)]] 0 (mkR [x0a; x02; xff; xfe] 0) = OErr PUtf8 s) /\
  (exists s, msg_decode [[FOptional 1 (TScalar TYPE_STRING)]] 0 (mkR [x0a; x02; xc3; xa9] 0)
             = OOk (VL NMsg [VL NSome [VB [xc3; xa9]]]) s).
Proof. repeat split; try (vm_compute; reflexivity); eexists; vm_compute; reflexivity. Qed.
