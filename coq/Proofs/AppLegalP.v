(* C03 (audit C03.2): ApplicationException::decode on EVERY spec-legal encoding of an exception struct
   -- any of the alternative header forms the specifications leave to the writer (long / short compact
   field headers, any non-zero byte for a binary `true`, long / short list headers, ...), fields 1 and 2
   in any order, any further well-typed fields around them -- not only on the bytes pilota writes
   (C07_app_exception_tolerant). *)
From PV Require Import Thrift.Skip Thrift.Spec Thrift.AppMsg Proofs.VarintP Proofs.TablesP Proofs.PrimP Proofs.HeaderP
  Proofs.RoundtripP Proofs.SkipP Proofs.SpecP Proofs.SpecTreeP Proofs.FieldLoopP.
From Coq Require Import ZifyN ZifyNat ZifyBool.
Open Scope Z_scope.

(* a field loop that returned k fields needed only k + 1 turns *)
Lemma fields_loop_count p rec : forall n s acc fs s',
  fields_loop p rec n s acc = Ok (fs, s') ->
  (length acc <= length fs)%nat /\
  forall m, (length fs - length acc < m)%nat -> fields_loop p rec m s acc = Ok (fs, s').
Proof.
  induction n as [|n IH]; intros s acc fs s' H; [discriminate|].
  cbn [fields_loop] in H. binv H.
  destruct (ttype_eqb (fst x) TStop) eqn:Es.
  - injection H as <- <-. rewrite rev_length. split; [lia|]. intros m Hm. destruct m as [|m]; [lia|].
    cbn [fields_loop]. rewrite E. cbn [bind]. rewrite Es. reflexivity.
  - binv H. destruct (IH _ _ _ _ H) as [Hl Hm]. cbn [length] in Hl. split; [lia|].
    intros m Hlt. destruct m as [|m]; [lia|]. cbn [fields_loop]. rewrite E. cbn [bind]. rewrite Es, E0. cbn [bind].
    apply Hm. cbn [length]. lia.
Qed.

Lemma canonf_length p fs : length (canonf p fs) = length fs.
Proof. unfold canonf. apply map_length. Qed.

Theorem app_exception_legal p fs l :
  p <> PBinaryLE -> legal p (VStruct fs) l -> Forall app_field_ok fs ->
  forall fuel r rcx, (vsize (VStruct fs) <= fuel)%nat -> idle rcx ->
    app_decode p fuel (mkS (l ++ r) rcx) = Ok (app_pick fs app_default_msg 0, mkS r rcx).
Proof.
  intros Hp Hleg Hok fuel r rcx Hf Hi.
  pose proof (legal_read_back_rel p (VStruct fs) l Hp Hleg (S fuel) r rcx ltac:(lia) Hi) as Hr.
  cbn [ttype_of] in Hr. rewrite read_val_S in Hr. binv Hr. binv Hr. binv Hr.
  injection Hr as Hfs <-. cbn [canon] in Hfs. fold (canonf p fs) in Hfs. subst x0.
  destruct (fields_loop_count _ _ _ _ _ _ _ E0) as [_ Hm].
  specialize (Hm fuel). rewrite canonf_length in Hm. cbn [length] in Hm.
  pose proof (vsize_struct_len fs) as Hlen.
  specialize (Hm ltac:(lia)).
  destruct (app_fields_sim p fuel _ _ _ _ _ Hm) as (new & Hnew & Hn). cbn [rev app] in Hnew. subst new.
  unfold app_decode. rewrite E. cbn [bind]. rewrite Hn by (apply app_field_ok_canonf; exact Hok).
  cbn [bind]. rewrite E1. cbn [bind]. destruct x1. rewrite app_pick_canonf. reflexivity.
Qed.

(* the exception proper: message and kind, in either order *)
Corollary app_exception_legal_12 p m k l :
  p <> PBinaryLE ->
  legal p (VStruct [(1, VBinary m); (2, VI32 k)]) l \/ legal p (VStruct [(2, VI32 k); (1, VBinary m)]) l ->
  forall fuel r rcx, (5 <= fuel)%nat -> idle rcx ->
    app_decode p fuel (mkS (l ++ r) rcx) = Ok ((m, k), mkS r rcx).
Proof.
  intros Hp Hl fuel r rcx Hf Hi.
  assert (Ok1 : app_field_ok (1, VBinary m)) by (repeat split; cbn [fst snd]; intros; try lia; eauto).
  assert (Ok2 : app_field_ok (2, VI32 k)) by (repeat split; cbn [fst snd]; intros; try lia; eauto).
  destruct Hl as [Hl|Hl].
  - rewrite (app_exception_legal p _ l Hp Hl (Forall_cons _ Ok1 (Forall_cons _ Ok2 (Forall_nil _))) fuel r rcx); [reflexivity|cbn; lia|exact Hi].
  - rewrite (app_exception_legal p _ l Hp Hl (Forall_cons _ Ok2 (Forall_cons _ Ok1 (Forall_nil _))) fuel r rcx); [reflexivity|cbn; lia|exact Hi].
Qed.

(* non-vacuity: kind before message, long-form compact field headers, a bool field written as 0x05 in
   binary, an unknown list field -- not what pilota's writer produces, legal, decoded *)
Example app_exception_legal_example :
  let msg := [x62; x6f; x6f; x6d] in
  let sv := SStruct [(2, true, SI32 6); (9, false, SBool true x05); (300, true, SList TBool true true [SBool false x00]); (1, true, SBinary msg)] in
  forall p, p <> PBinaryLE ->
    legal p (erase sv) (sp p sv) /\
    (forall ss c, write_val p BContig (erase sv) w0 = Ok (ss, c) -> flat ss <> sp p sv) /\
    app_decode p 12 (mkS (sp p sv ++ [xff]) r0) = Ok ((msg, 6), mkS [xff] r0).
Proof.
  cbv zeta. intros p Hp. destruct p; [|congruence|].
  all: split; [eexists; split; [reflexivity|split; [vm_compute; reflexivity|reflexivity]]|];
       split; [intros ss c H; vm_compute in H; injection H as <- _; vm_compute; discriminate|vm_compute; reflexivity].
Qed.
