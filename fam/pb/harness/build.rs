//! Runs the REAL pilota-build on every .proto of the pb corpus and writes, next to the generated
//! code, a dispatch table (from the corpus' schema JSONs) that maps a global message index to the
//! monomorphic driver functions of src/bin/gen.rs.
//!
//! Global index order (pv/pbgen.py load_corpus uses the same): schema files sorted by name,
//! messages of a file in the order of the JSON (declaration order, nested declarations pre-order),
//! then the well-known wrapper impls of pilota/src/prost/types.rs.
use std::{fmt::Write as _, fs, path::PathBuf};

fn corpus_dir() -> PathBuf {
    let md = PathBuf::from(std::env::var("CARGO_MANIFEST_DIR").unwrap());
    let d = md.join("..").join("proto");
    if d.is_dir() {
        return d.canonicalize().unwrap();
    }
    // the crate has been copied elsewhere (PV_REPO runs build a copy of the harness crate)
    PathBuf::from("/verif/fam/pb/proto")
}

fn main() {
    let out = PathBuf::from(std::env::var("OUT_DIR").unwrap());
    let dir = corpus_dir();
    println!("cargo:rerun-if-changed={}", dir.display());
    println!("cargo:rerun-if-changed=build.rs");

    let mut names: Vec<String> = fs::read_dir(&dir)
        .unwrap()
        .filter_map(|e| e.ok())
        .filter(|e| e.path().is_file())
        .map(|e| e.file_name().to_string_lossy().to_string())
        .collect();
    names.sort();

    let mut all = String::new();
    for n in names.iter().filter(|n| n.ends_with(".proto")) {
        let p = dir.join(n);
        println!("cargo:rerun-if-changed={}", p.display());
        let stem = n.trim_end_matches(".proto");
        let target = out.join(format!("{stem}.rs"));
        pilota_build::Builder::protobuf()
            .ignore_unused(false)
            .include_dirs(vec![dir.clone()])
            .compile_with_config(
                vec![pilota_build::IdlService::from_path(p)],
                pilota_build::Output::File(target.clone()),
            );
        writeln!(all, "include!({:?});", target.display().to_string()).unwrap();
    }
    fs::write(out.join("pb_generated.rs"), all).unwrap();

    // dispatch table
    let mut paths: Vec<(String, String)> = Vec::new(); // (proto name, rust path)
    for n in names.iter().filter(|n| n.ends_with(".schema.json")) {
        let p = dir.join(n);
        println!("cargo:rerun-if-changed={}", p.display());
        let v: serde_json::Value = serde_json::from_str(&fs::read_to_string(&p).unwrap())
            .unwrap_or_else(|e| panic!("{}: {e}", p.display()));
        for m in v["messages"].as_array().unwrap() {
            paths.push((
                m["proto_name"].as_str().unwrap().to_string(),
                format!("generated::{}", m["rust_path"].as_str().unwrap()),
            ));
        }
    }
    for (name, ty) in [
        ("wrapper.bool", "bool"),
        ("wrapper.u32", "u32"),
        ("wrapper.u64", "u64"),
        ("wrapper.i32", "i32"),
        ("wrapper.i64", "i64"),
        ("wrapper.f32", "f32"),
        ("wrapper.f64", "f64"),
        ("wrapper.String", "::std::string::String"),
        ("wrapper.Vec<u8>", "::std::vec::Vec<u8>"),
        ("wrapper.Bytes", "::bytes::Bytes"),
        ("wrapper.()", "()"),
    ] {
        paths.push((name.to_string(), ty.to_string()));
    }
    let mut d = String::new();
    writeln!(d, "pub const MESSAGE_NAMES: &[&str] = &[").unwrap();
    for (name, _) in &paths {
        writeln!(d, "    {name:?},").unwrap();
    }
    writeln!(d, "];").unwrap();
    writeln!(d, "pub fn dispatch(idx: usize, op: &Op) -> Option<String> {{").unwrap();
    writeln!(d, "    Some(match idx {{").unwrap();
    for (i, (_, ty)) in paths.iter().enumerate() {
        writeln!(d, "        {i} => run_op::<{ty}>(op),").unwrap();
    }
    writeln!(d, "        _ => return None,").unwrap();
    writeln!(d, "    }})").unwrap();
    writeln!(d, "}}").unwrap();
    fs::write(out.join("pb_dispatch.rs"), d).unwrap();
}
