"""C04 -- reported Thrift size equals the number of bytes encoding writes (primitive level)."""
from . import c01


def oracle(case, out):
    """size (computed just before each value is written, on the same protocol object) summed over
    the values == number of bytes written"""
    if not out.startswith("W "):
        return "writing a well-typed value failed: " + out
    t = out.split(" ")
    try:
        hexs, ln = t[1], t[t.index("L") + 1]
    except ValueError:
        return "malformed output"
    nbytes = 0 if hexs == "-" else len(hexs) // 2
    if not ln.lstrip("-").isdigit():
        return "size pass did not return a number: " + ln
    if int(ln) != nbytes:
        return "size pass reported %s bytes, encoding wrote %d" % (ln, nbytes)
    return None


def run_prim(chk, replay=None):
    return c01.run_rt(chk, replay, oracle, "C04")


def run(chk, replay=None):
    """primitive level + generated-code level (emitted size() vs emitted encode(), gen family)"""
    from .. import genextra
    is_gen = replay is not None and isinstance(replay.get("case"), dict)
    parts = []
    if replay is None or not is_gen:
        parts.append(("primitive", lambda c: run_prim(c, replay)))
    if replay is None or is_gen:
        parts.append(("generated", lambda c: genextra.run_c04g(c, replay, prop="C04")))
    return chk.run_parts(parts)
