(* Delivery schedules.  A stream is a list of EVENTS: chunks of bytes (a poll_read hands out at most one chunk, cut to the
   room the caller offers) interleaved with Pending tokens (the reader has nothing now; the task is woken later).  An empty
   chunk is a wake-up without data.  The end of the list is EOF.  The primitive reads of the async protocols are written
   THROUGH [poll_read], as tokio / rw_ext.rs write them:
     read_exact(n), read_u8 ...   loop { poll_read(rest of the buffer) }: what has arrived is kept across Pending; 0 bytes = UnexpectedEof
     read_varint_async            byte by byte through read_u8
     read_exact_to_vec(len)       len <= PREALLOC_LIMIT: read_exact into vec![0; len];
                                  otherwise reader.take(len).read_to_end(&mut v): polls with the spare capacity of the vector
                                  (any positive step), never more than what is left of the limit; short count = UnexpectedEof
   No proofs in this file. *)
From PV Require Export Thrift.AsyncEv.
From PVGen Require Export GenAsync.
Open Scope Z_scope.

(* the stream definitions (event, stream, bytes_of, poll_read, ev_read_exact / ev_take, ev_rd_var / ev_varint, ev_read_to_end,
   ev_read_exact_to_vec) are those of PV.Thrift.AsyncEv (the main family copied them from here; this file now imports them) *)

(* the variant of seeded change C12d: the buffer is rebuilt on every poll, so what arrived before a Pending is lost *)
Fixpoint ev_read_exact_lossy (fuel n0 n : nat) (acc : list byte) (es : stream) {struct fuel} : option (list byte * stream) :=
  match n with
  | O => Some (acc, es)
  | Datatypes.S _ =>
      match fuel with
      | O => None
      | Datatypes.S f =>
          match poll_read n es with
          | Eof => None
          | NotReady r => ev_read_exact_lossy f n0 n0 [] r
          | Ready got r => ev_read_exact_lossy f n0 (n - length got) (acc ++ got) r
          end
      end
  end.

(* the variant of seeded change C12b: read_buf without the Take limit -- a poll may hand out more than is wanted *)
Definition ev_read_vec_overread (step : nat -> nat) (len : nat) (es : stream) : option (list byte * stream) :=
  let '(v, es') := ev_read_to_end (ev_fuel (len + step 0%nat) es) (fun _ => step 0%nat) (len + step 0%nat) [] es in
  if Nat.leb len (length v) then Some (firstn len v, es') else None.

(* ---------- decoders that use the stream only through these reads ---------- *)
Inductive sprog (A : Type) : Type :=
| SRet (a : A)
| SErr (e : err)
| STake (n : nat) (k : list byte -> sprog A)            (* read_exact / read_u8 / read_i32 ... *)
| SVarint (maxsize : nat) (k : Z -> sprog A)            (* read_varint_async *)
| SVec (len : nat) (k : list byte -> sprog A).          (* read_exact_to_vec *)
Arguments SRet {A}. Arguments SErr {A}. Arguments STake {A}. Arguments SVarint {A}. Arguments SVec {A}.

(* over the bytes the stream will deliver (the model of PV.Thrift.Async / GenAsync) *)
Fixpoint run_b {A} (q : sprog A) (l : list byte) : res (A * list byte) :=
  match q with
  | SRet a => Ok (a, l)
  | SErr e => Err e
  | STake n k => match take n l with Some (a, r) => run_b (k a) r | None => Err ETransport end
  | SVarint m k => match read_var_u64 m l with Ok (z, r) => run_b (k z) r | Err _ => Err ETransport | Panic st => Panic st end
  | SVec n k => match take n l with Some (a, r) => run_b (k a) r | None => Err ETransport end
  end.

(* over a delivery schedule *)
Fixpoint run_e {A} (step : nat -> nat) (q : sprog A) (es : stream) : res (A * stream) :=
  match q with
  | SRet a => Ok (a, es)
  | SErr e => Err e
  | STake n k => match ev_take n es with Some (a, r) => run_e step (k a) r | None => Err ETransport end
  | SVarint m k => match ev_varint m es with Ok (z, r) => run_e step (k z) r | Err e => Err e | Panic st => Panic st end
  | SVec n k => match ev_read_exact_to_vec step n es with Some (a, r) => run_e step (k a) r | None => Err ETransport end
  end.
