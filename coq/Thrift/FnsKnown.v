(* C09, completeness side of the reader-site inventory.  The inventory (Generated/ReaderSites.v) scans an explicit
   list of blocks of the Thrift protocol files; Generated/ThriftFns.v is REGENERATED on every run and lists EVERY top-level
   impl / trait / macro / fn item of mod.rs, rw_ext.rs, varint_ext.rs, binary.rs, binary_le.rs, compact.rs and binary_unsafe.rs
   with the fns it contains and whether the inventory scans it.  THIS file is written by hand: the same list, each item with its
   class.  Proofs/FnsP.v compares the two by computation: a new helper fn, a new impl block or a new macro in any of these
   files -- or a fn added to an existing item -- breaks C09_fn_inventory until it is either put into a scanned block (and its
   sites accounted in Thrift/Sites.v) or classified here.  No proofs here. *)
From Coq Require Import String List Bool.
Import ListNotations.
Open Scope string_scope.

Inductive fcls :=
| Scanned                      (* inside a block of the site inventory: every site accounted in Thrift/Sites.v *)
| Writer (why : string)        (* output / length side *)
| Unchecked                    (* binary_unsafe.rs: the unchecked codec; its accesses are modelled one by one in Thrift/Unsafe.v (Panic SOob), C11 *)
| NoRead (why : string).       (* reads no input *)

Definition is_scanned (c : fcls) : bool := match c with Scanned => true | _ => false end.

Definition known_items : list (string * string * list string * fcls) :=
  [("mod.rs", "pub trait Message: Sized + Send",
    ["encode"; "decode"; "decode_async"; "size"], NoRead "generated-level entry points (encode / decode / size of a Message): call the protocol methods, read nothing themselves");
   ("mod.rs", "impl<M: Message> Message for Box<M>",
    ["encode"; "decode"; "decode_async"; "size"], NoRead "generated-level entry points (encode / decode / size of a Message): call the protocol methods, read nothing themselves");
   ("mod.rs", "impl<M: Message + Send + Sync> Message for Arc<M>",
    ["encode"; "decode"; "decode_async"; "size"], NoRead "generated-level entry points (encode / decode / size of a Message): call the protocol methods, read nothing themselves");
   ("mod.rs", "pub trait TInputProtocol: TLengthProtocol",
    ["read_message_begin"; "read_message_end"; "read_struct_begin"; "read_struct_end"; "read_field_begin"; "read_field_end"; "read_bool"; "read_bytes"; "read_uuid"; "read_i8"; "read_i16"; "read_i32"; "read_i64"; "read_double"; "read_string"; "read_faststr"; "read_list_begin"; "read_list_end"; "read_set_begin"; "read_set_end"; "read_map_begin"; "read_map_end"; "skip"; "skip_till_depth"; "read_byte"; "read_bytes_vec"; "get_bytes"; "buf"], Scanned);
   ("mod.rs", "macro_rules! field_len",
    [], Writer "writer / length side: no input is read");
   ("mod.rs", "macro_rules! set_field_len",
    [], Writer "writer / length side: no input is read");
   ("mod.rs", "macro_rules! map_field_len",
    [], Writer "writer / length side: no input is read");
   ("mod.rs", "pub trait TLengthProtocolExt: TLengthProtocol + Sized",
    ["list_field_len"; "list_len"; "message_len"; "void_len"; "struct_field_len"; "struct_len"], Writer "writer / length side: no input is read");
   ("mod.rs", "impl<T> TLengthProtocolExt for T where T: TLengthProtocol",
    [], Writer "writer / length side: no input is read");
   ("mod.rs", "pub trait TLengthProtocol",
    ["message_begin_len"; "message_end_len"; "struct_begin_len"; "struct_end_len"; "field_begin_len"; "field_end_len"; "field_stop_len"; "bool_len"; "bytes_len"; "bytes_vec_len"; "byte_len"; "uuid_len"; "i8_len"; "i16_len"; "i32_len"; "i64_len"; "double_len"; "string_len"; "faststr_len"; "list_begin_len"; "list_end_len"; "set_begin_len"; "set_end_len"; "map_begin_len"; "map_end_len"; "zero_copy_len"; "reset"], Writer "writer / length side: no input is read");
   ("mod.rs", "macro_rules! write_field",
    [], Writer "writer / length side: no input is read");
   ("mod.rs", "macro_rules! write_set_field",
    [], Writer "writer / length side: no input is read");
   ("mod.rs", "macro_rules! write_map_field",
    [], Writer "writer / length side: no input is read");
   ("mod.rs", "pub trait TOutputProtocolExt: TOutputProtocol + Sized",
    ["write_list_field"; "write_list"; "write_struct_field"; "write_struct"; "write_void"], Writer "writer / length side: no input is read");
   ("mod.rs", "impl<T> TOutputProtocolExt for T where T: TOutputProtocol",
    [], Writer "writer / length side: no input is read");
   ("mod.rs", "pub trait TOutputProtocol: TLengthProtocol",
    ["write_message_begin"; "write_message_end"; "write_struct_begin"; "write_struct_end"; "write_field_begin"; "write_field_end"; "write_field_stop"; "write_bool"; "write_bytes"; "write_bytes_without_len"; "write_uuid"; "write_bytes_vec"; "write_byte"; "write_i8"; "write_i16"; "write_i32"; "write_i64"; "write_double"; "write_string"; "write_faststr"; "write_list_begin"; "write_list_end"; "write_set_begin"; "write_set_end"; "write_map_begin"; "write_map_end"; "flush"; "buf_mut"], Writer "writer / length side: no input is read");
   ("mod.rs", "pub trait TAsyncInputProtocol: Send",
    ["read_message_begin"; "read_message_end"; "read_struct_begin"; "read_struct_end"; "read_field_begin"; "read_field_end"; "read_bool"; "read_bytes"; "read_bytes_vec"; "read_uuid"; "read_string"; "read_faststr"; "read_byte"; "read_i8"; "read_i16"; "read_i32"; "read_i64"; "read_double"; "read_list_begin"; "read_list_end"; "read_set_begin"; "read_set_end"; "read_map_begin"; "read_map_end"; "skip"; "skip_till_depth"], Scanned);
   ("mod.rs", "impl TStructIdentifier",
    ["new"], NoRead "constructor / error conversion: no buffer access");
   ("mod.rs", "impl From<TType> for u8",
    ["from"], Writer "writer / length side: no input is read");
   ("mod.rs", "impl TryFrom<u8> for TType",
    ["try_from"], Scanned);
   ("mod.rs", "impl TryFrom<u8> for TMessageType",
    ["try_from"], NoRead "a total match returning Err for unknown codes; regenerated as mtype_of_code (Generated/ThriftConsts.v)");
   ("mod.rs", "impl From<TMessageType> for u8",
    ["from"], Writer "writer / length side: no input is read");
   ("mod.rs", "impl TMessageIdentifier",
    ["new"], NoRead "constructor / error conversion: no buffer access");
   ("mod.rs", "impl TListIdentifier",
    ["new"], NoRead "constructor / error conversion: no buffer access");
   ("mod.rs", "impl TSetIdentifier",
    ["new"], NoRead "constructor / error conversion: no buffer access");
   ("mod.rs", "impl TFieldIdentifier",
    ["new"], NoRead "constructor / error conversion: no buffer access");
   ("mod.rs", "impl TMapIdentifier",
    ["new"], NoRead "constructor / error conversion: no buffer access");
   ("rw_ext.rs", "impl From<IOError> for ThriftException",
    ["from"], NoRead "constructor / error conversion: no buffer access");
   ("rw_ext.rs", "macro_rules! io_read_impl",
    [], Scanned);
   ("rw_ext.rs", "macro_rules! assert_remaining",
    [], Scanned);
   ("rw_ext.rs", "pub trait WriteExt",
    ["write_slice"; "write_u8"; "write_i8"; "write_u16"; "write_u16_le"; "write_i16"; "write_i16_le"; "write_u32"; "write_u32_le"; "write_i32"; "write_i32_le"; "write_u64"; "write_u64_le"; "write_i64"; "write_i64_le"; "write_u128"; "write_u128_le"; "write_i128"; "write_i128_le"; "write_uint"; "write_uint_le"; "write_int"; "write_int_le"; "write_f32"; "write_f32_le"; "write_f64"; "write_f64_le"], Writer "writer / length side: no input is read");
   ("rw_ext.rs", "impl WriteExt for BytesMut",
    ["write_slice"; "write_u8"; "write_i8"; "write_u16"; "write_u16_le"; "write_i16"; "write_i16_le"; "write_u32"; "write_u32_le"; "write_i32"; "write_i32_le"; "write_u64"; "write_u64_le"; "write_i64"; "write_i64_le"; "write_u128"; "write_u128_le"; "write_i128"; "write_i128_le"; "write_uint"; "write_uint_le"; "write_int"; "write_int_le"; "write_f32"; "write_f32_le"; "write_f64"; "write_f64_le"], Writer "writer / length side: no input is read");
   ("rw_ext.rs", "pub trait ReadExt",
    ["read_to_bytes"; "read_to_string"; "read_to_slice"; "read_u8"; "read_i8"; "read_u16"; "read_u16_le"; "read_i16"; "read_i16_le"; "read_u32"; "read_u32_le"; "read_i32"; "read_i32_le"; "read_u64"; "read_u64_le"; "read_i64"; "read_i64_le"; "read_u128"; "read_u128_le"; "read_i128"; "read_i128_le"; "read_uint"; "read_uint_le"; "read_int"; "read_int_le"; "read_f32"; "read_f32_le"; "read_f64"; "read_f64_le"], NoRead "trait declaration without bodies; its impl is scanned");
   ("rw_ext.rs", "pub(crate) fn split_to_checked( buf: &mut bytes::Bytes, len: usize, ) -> Result<bytes::Bytes, IOError>",
    ["split_to_checked"], Scanned);
   ("rw_ext.rs", "pub(crate) fn checked_container_size( size: i32, remaining: usize, ) -> Result<usize, ThriftException>",
    ["checked_container_size"], Scanned);
   ("rw_ext.rs", "pub(crate) async fn read_exact_to_vec<R>(reader: &mut R, len: usize) -> std::io::Result<Vec<u8>> where R: tokio::io::AsyncRead + Unpin,",
    ["read_exact_to_vec"], Scanned);
   ("rw_ext.rs", "impl<B> ReadExt for B where B: bytes::Buf,",
    ["read_to_bytes"; "read_to_string"; "read_to_slice"; "read_u8"; "read_i8"; "read_u16"; "read_u16_le"; "read_i16"; "read_i16_le"; "read_u32"; "read_u32_le"; "read_i32"; "read_i32_le"; "read_u64"; "read_u64_le"; "read_i64"; "read_i64_le"; "read_u128"; "read_u128_le"; "read_i128"; "read_i128_le"; "read_uint"; "read_uint_le"; "read_int"; "read_int_le"; "read_f32"; "read_f32_le"; "read_f64"; "read_f64_le"], Scanned);
   ("varint_ext.rs", "pub trait VarIntExt",
    ["varint_max_size"], NoRead "trait declaration without bodies; its impl is scanned");
   ("varint_ext.rs", "impl<VI: VarInt> VarIntExt for VI",
    ["varint_max_size"], Scanned);
   ("varint_ext.rs", "impl VarIntProcessor",
    ["new"; "push"; "finished"; "decode"], Scanned);
   ("binary.rs", "impl<T> TBinaryProtocol<T>",
    ["new"], NoRead "constructor / error conversion: no buffer access");
   ("binary.rs", "fn field_type_from_u8(ttype: u8) -> Result<TType, ProtocolException>",
    ["field_type_from_u8"], Scanned);
   ("binary.rs", "impl<T> TLengthProtocol for TBinaryProtocol<T>",
    ["message_begin_len"; "message_end_len"; "struct_begin_len"; "struct_end_len"; "field_begin_len"; "field_end_len"; "field_stop_len"; "bool_len"; "bytes_len"; "byte_len"; "uuid_len"; "i8_len"; "i16_len"; "i32_len"; "i64_len"; "double_len"; "string_len"; "faststr_len"; "list_begin_len"; "list_end_len"; "set_begin_len"; "set_end_len"; "map_begin_len"; "map_end_len"; "bytes_vec_len"; "zero_copy_len"; "reset"], Scanned);
   ("binary.rs", "impl TOutputProtocol for TBinaryProtocol<&mut BytesMut>",
    ["write_message_begin"; "write_message_end"; "write_struct_begin"; "write_struct_end"; "write_field_begin"; "write_field_end"; "write_field_stop"; "write_bool"; "write_bytes"; "write_bytes_without_len"; "write_byte"; "write_uuid"; "write_i8"; "write_i16"; "write_i32"; "write_i64"; "write_double"; "write_string"; "write_faststr"; "write_list_begin"; "write_list_end"; "write_set_begin"; "write_set_end"; "write_map_begin"; "write_map_end"; "flush"; "write_bytes_vec"; "buf_mut"], Writer "writer / length side: no input is read");
   ("binary.rs", "impl TOutputProtocol for TBinaryProtocol<&mut LinkedBytes>",
    ["write_message_begin"; "write_message_end"; "write_struct_begin"; "write_struct_end"; "write_field_begin"; "write_field_end"; "write_field_stop"; "write_bool"; "write_bytes"; "write_bytes_without_len"; "write_byte"; "write_uuid"; "write_i8"; "write_i16"; "write_i32"; "write_i64"; "write_double"; "write_string"; "write_faststr"; "write_list_begin"; "write_list_end"; "write_set_begin"; "write_set_end"; "write_map_begin"; "write_map_end"; "flush"; "write_bytes_vec"; "buf_mut"], Writer "writer / length side: no input is read");
   ("binary.rs", "impl TInputProtocol for TBinaryProtocol<&mut Bytes>",
    ["read_message_begin"; "read_message_end"; "read_struct_begin"; "read_struct_end"; "read_field_begin"; "read_field_end"; "read_bool"; "read_bytes"; "get_bytes"; "read_uuid"; "read_i8"; "read_i16"; "read_i32"; "read_i64"; "read_double"; "read_string"; "read_faststr"; "read_list_begin"; "read_list_end"; "read_set_begin"; "read_set_end"; "read_map_begin"; "read_map_end"; "read_byte"; "read_bytes_vec"; "buf"], Scanned);
   ("binary.rs", "impl<R> TAsyncBinaryProtocol<R> where R: AsyncRead + Unpin + Send,",
    ["new"], Scanned);
   ("binary.rs", "impl<R> TAsyncInputProtocol for TAsyncBinaryProtocol<R> where R: AsyncRead + Unpin + Send,",
    ["read_message_begin"; "read_message_end"; "read_struct_begin"; "read_struct_end"; "read_field_begin"; "read_field_end"; "read_bool"; "read_bytes"; "read_bytes_vec"; "read_uuid"; "read_string"; "read_faststr"; "read_byte"; "read_i8"; "read_i16"; "read_i32"; "read_i64"; "read_double"; "read_list_begin"; "read_list_end"; "read_set_begin"; "read_set_end"; "read_map_begin"; "read_map_end"], Scanned);
   ("binary_le.rs", "impl<T> TBinaryProtocol<T>",
    ["new"], NoRead "constructor / error conversion: no buffer access");
   ("binary_le.rs", "fn field_type_from_u8(ttype: u8) -> Result<TType, ProtocolException>",
    ["field_type_from_u8"], Scanned);
   ("binary_le.rs", "impl<T> TLengthProtocol for TBinaryProtocol<T>",
    ["message_begin_len"; "message_end_len"; "struct_begin_len"; "struct_end_len"; "field_begin_len"; "field_end_len"; "field_stop_len"; "bool_len"; "bytes_len"; "byte_len"; "uuid_len"; "i8_len"; "i16_len"; "i32_len"; "i64_len"; "double_len"; "string_len"; "faststr_len"; "list_begin_len"; "list_end_len"; "set_begin_len"; "set_end_len"; "map_begin_len"; "map_end_len"; "bytes_vec_len"; "zero_copy_len"; "reset"], Scanned);
   ("binary_le.rs", "impl TOutputProtocol for TBinaryProtocol<&mut BytesMut>",
    ["write_message_begin"; "write_message_end"; "write_struct_begin"; "write_struct_end"; "write_field_begin"; "write_field_end"; "write_field_stop"; "write_bool"; "write_bytes"; "write_bytes_without_len"; "write_byte"; "write_uuid"; "write_i8"; "write_i16"; "write_i32"; "write_i64"; "write_double"; "write_string"; "write_faststr"; "write_list_begin"; "write_list_end"; "write_set_begin"; "write_set_end"; "write_map_begin"; "write_map_end"; "flush"; "write_bytes_vec"; "buf_mut"], Writer "writer / length side: no input is read");
   ("binary_le.rs", "impl TOutputProtocol for TBinaryProtocol<&mut LinkedBytes>",
    ["write_message_begin"; "write_message_end"; "write_struct_begin"; "write_struct_end"; "write_field_begin"; "write_field_end"; "write_field_stop"; "write_bool"; "write_bytes"; "write_bytes_without_len"; "write_byte"; "write_uuid"; "write_i8"; "write_i16"; "write_i32"; "write_i64"; "write_double"; "write_string"; "write_faststr"; "write_list_begin"; "write_list_end"; "write_set_begin"; "write_set_end"; "write_map_begin"; "write_map_end"; "flush"; "write_bytes_vec"; "buf_mut"], Writer "writer / length side: no input is read");
   ("binary_le.rs", "impl<R> TAsyncInputProtocol for TAsyncBinaryProtocol<R> where R: AsyncRead + Unpin + Send,",
    ["read_message_begin"; "read_message_end"; "read_struct_begin"; "read_struct_end"; "read_field_begin"; "read_field_end"; "read_bool"; "read_bytes"; "read_bytes_vec"; "read_uuid"; "read_string"; "read_faststr"; "read_byte"; "read_i8"; "read_i16"; "read_i32"; "read_i64"; "read_double"; "read_list_begin"; "read_list_end"; "read_set_begin"; "read_set_end"; "read_map_begin"; "read_map_end"], Scanned);
   ("binary_le.rs", "impl<R> TAsyncBinaryProtocol<R> where R: AsyncRead + Unpin + Send,",
    ["new"], Scanned);
   ("binary_le.rs", "impl TInputProtocol for TBinaryProtocol<&mut Bytes>",
    ["read_message_begin"; "read_message_end"; "read_struct_begin"; "read_struct_end"; "read_field_begin"; "read_field_end"; "read_bool"; "read_bytes"; "get_bytes"; "read_uuid"; "read_i8"; "read_i16"; "read_i32"; "read_i64"; "read_double"; "read_string"; "read_faststr"; "read_list_begin"; "read_list_end"; "read_set_begin"; "read_set_end"; "read_map_begin"; "read_map_end"; "read_byte"; "read_bytes_vec"; "buf"], Scanned);
   ("compact.rs", "impl TryFrom<u8> for TCompactType",
    ["try_from"], Scanned);
   ("compact.rs", "impl TryFrom<TType> for TCompactType",
    ["try_from"], Writer "writer / length side: no input is read");
   ("compact.rs", "impl TryFrom<TCompactType> for TType",
    ["try_from"], Scanned);
   ("compact.rs", "fn tcompact_get_ttype(ct: TCompactType) -> Result<TType, ProtocolException>",
    ["tcompact_get_ttype"], Scanned);
   ("compact.rs", "fn tcompact_get_compact(tt: TType) -> Result<TCompactType, ProtocolException>",
    ["tcompact_get_compact"], Writer "writer / length side: no input is read");
   ("compact.rs", "impl<T> TCompactOutputProtocol<T>",
    ["new"; "assert_no_pending_bool_write"], Writer "writer / length side: no input is read");
   ("compact.rs", "macro_rules! write_field_header_len",
    [], Writer "writer / length side: no input is read");
   ("compact.rs", "impl<T> TLengthProtocol for TCompactOutputProtocol<T>",
    ["message_begin_len"; "message_end_len"; "struct_begin_len"; "struct_end_len"; "field_begin_len"; "field_end_len"; "field_stop_len"; "bool_len"; "bytes_len"; "byte_len"; "uuid_len"; "i8_len"; "i16_len"; "i32_len"; "i64_len"; "double_len"; "string_len"; "faststr_len"; "list_begin_len"; "list_end_len"; "set_begin_len"; "set_end_len"; "map_begin_len"; "map_end_len"; "bytes_vec_len"; "zero_copy_len"; "reset"], Writer "writer / length side: no input is read");
   ("compact.rs", "impl TCompactOutputProtocol<&mut BytesMut>",
    ["write_varint"; "write_field_header"; "write_collection_begin"], Writer "writer / length side: no input is read");
   ("compact.rs", "impl TOutputProtocol for TCompactOutputProtocol<&mut BytesMut>",
    ["write_message_begin"; "write_message_end"; "write_struct_begin"; "write_struct_end"; "write_field_begin"; "write_field_end"; "write_field_stop"; "write_bool"; "write_bytes"; "write_bytes_without_len"; "write_byte"; "write_uuid"; "write_i8"; "write_i16"; "write_i32"; "write_i64"; "write_double"; "write_string"; "write_faststr"; "write_list_begin"; "write_list_end"; "write_set_begin"; "write_set_end"; "write_map_begin"; "write_map_end"; "flush"; "write_bytes_vec"; "buf_mut"], Writer "writer / length side: no input is read");
   ("compact.rs", "impl TCompactOutputProtocol<&mut LinkedBytes>",
    ["write_varint"; "write_field_header"; "write_collection_begin"], Writer "writer / length side: no input is read");
   ("compact.rs", "impl TOutputProtocol for TCompactOutputProtocol<&mut LinkedBytes>",
    ["write_message_begin"; "write_message_end"; "write_struct_begin"; "write_struct_end"; "write_field_begin"; "write_field_end"; "write_field_stop"; "write_bool"; "write_bytes"; "write_bytes_without_len"; "write_byte"; "write_uuid"; "write_i8"; "write_i16"; "write_i32"; "write_i64"; "write_double"; "write_string"; "write_faststr"; "write_list_begin"; "write_list_end"; "write_set_begin"; "write_set_end"; "write_map_begin"; "write_map_end"; "flush"; "write_bytes_vec"; "buf_mut"], Writer "writer / length side: no input is read");
   ("compact.rs", "impl<R> TAsyncInputProtocol for TAsyncCompactProtocol<R> where R: AsyncRead + Unpin + Send,",
    ["read_message_begin"; "read_message_end"; "read_struct_begin"; "read_struct_end"; "read_field_begin"; "read_field_end"; "read_bool"; "read_bytes"; "read_bytes_vec"; "read_uuid"; "read_string"; "read_faststr"; "read_byte"; "read_i8"; "read_i16"; "read_i32"; "read_i64"; "read_double"; "read_list_begin"; "read_list_end"; "read_set_begin"; "read_set_end"; "read_map_begin"; "read_map_end"], Scanned);
   ("compact.rs", "impl<R> TAsyncCompactProtocol<R> where R: AsyncRead + Unpin + Send,",
    ["new"; "read_collection_begin"; "read_varint_async"], Scanned);
   ("compact.rs", "impl<T> TCompactInputProtocol<T>",
    ["new"; "assert_no_pending_bool_read"], Scanned);
   ("compact.rs", "impl TCompactInputProtocol<&mut Bytes>",
    ["read_varint"; "read_collection_begin"], Scanned);
   ("compact.rs", "macro_rules! read_field_header_len",
    [], Scanned);
   ("compact.rs", "impl<T> TLengthProtocol for TCompactInputProtocol<T>",
    ["message_begin_len"; "message_end_len"; "struct_begin_len"; "struct_end_len"; "field_begin_len"; "field_end_len"; "field_stop_len"; "bool_len"; "bytes_len"; "byte_len"; "uuid_len"; "i8_len"; "i16_len"; "i32_len"; "i64_len"; "double_len"; "string_len"; "faststr_len"; "list_begin_len"; "list_end_len"; "set_begin_len"; "set_end_len"; "map_begin_len"; "map_end_len"; "bytes_vec_len"; "zero_copy_len"; "reset"], Scanned);
   ("compact.rs", "impl TInputProtocol for TCompactInputProtocol<&mut Bytes>",
    ["read_message_begin"; "read_message_end"; "read_struct_begin"; "read_struct_end"; "read_field_begin"; "read_field_end"; "read_bool"; "read_bytes"; "get_bytes"; "read_uuid"; "read_string"; "read_faststr"; "skip_till_depth"; "read_byte"; "read_i8"; "read_i16"; "read_i32"; "read_i64"; "read_double"; "read_list_begin"; "read_list_end"; "read_set_begin"; "read_set_end"; "read_map_begin"; "read_map_end"; "read_bytes_vec"; "buf"], Scanned);
   ("binary_unsafe.rs", "impl<T> TBinaryUnsafeOutputProtocol<T>",
    ["new"; "index"], Unchecked);
   ("binary_unsafe.rs", "fn field_type_from_u8(ttype: u8) -> Result<TType, ProtocolException>",
    ["field_type_from_u8"], Unchecked);
   ("binary_unsafe.rs", "impl<T> TLengthProtocol for TBinaryUnsafeOutputProtocol<T>",
    ["message_begin_len"; "message_end_len"; "struct_begin_len"; "struct_end_len"; "field_begin_len"; "field_end_len"; "field_stop_len"; "bool_len"; "bytes_len"; "byte_len"; "uuid_len"; "i8_len"; "i16_len"; "i32_len"; "i64_len"; "double_len"; "string_len"; "faststr_len"; "list_begin_len"; "list_end_len"; "set_begin_len"; "set_end_len"; "map_begin_len"; "map_end_len"; "bytes_vec_len"; "zero_copy_len"; "reset"], Unchecked);
   ("binary_unsafe.rs", "impl TOutputProtocol for TBinaryUnsafeOutputProtocol<&mut BytesMut>",
    ["write_message_begin"; "write_message_end"; "write_struct_begin"; "write_struct_end"; "write_field_begin"; "write_field_end"; "write_field_stop"; "write_bool"; "write_bytes"; "write_bytes_without_len"; "write_byte"; "write_uuid"; "write_i8"; "write_i16"; "write_i32"; "write_i64"; "write_double"; "write_string"; "write_faststr"; "write_list_begin"; "write_list_end"; "write_set_begin"; "write_set_end"; "write_map_begin"; "write_map_end"; "flush"; "write_bytes_vec"; "buf_mut"], Unchecked);
   ("binary_unsafe.rs", "impl TBinaryUnsafeOutputProtocol<&mut LinkedBytes>",
    ["advance_mut"], Unchecked);
   ("binary_unsafe.rs", "impl TOutputProtocol for TBinaryUnsafeOutputProtocol<&mut LinkedBytes>",
    ["write_message_begin"; "write_message_end"; "write_struct_begin"; "write_struct_end"; "write_field_begin"; "write_field_end"; "write_field_stop"; "write_bool"; "write_bytes"; "write_bytes_without_len"; "write_byte"; "write_uuid"; "write_i8"; "write_i16"; "write_i32"; "write_i64"; "write_double"; "write_string"; "write_faststr"; "write_list_begin"; "write_list_end"; "write_set_begin"; "write_set_end"; "write_map_begin"; "write_map_end"; "flush"; "write_bytes_vec"; "buf_mut"], Unchecked);
   ("binary_unsafe.rs", "impl<'a> TBinaryUnsafeInputProtocol<'a>",
    ["new"; "index"; "advance"], Unchecked);
   ("binary_unsafe.rs", "impl<'a> TLengthProtocol for TBinaryUnsafeInputProtocol<'a>",
    ["message_begin_len"; "message_end_len"; "struct_begin_len"; "struct_end_len"; "field_begin_len"; "field_end_len"; "field_stop_len"; "bool_len"; "bytes_len"; "byte_len"; "uuid_len"; "i8_len"; "i16_len"; "i32_len"; "i64_len"; "double_len"; "string_len"; "faststr_len"; "list_begin_len"; "list_end_len"; "set_begin_len"; "set_end_len"; "map_begin_len"; "map_end_len"; "bytes_vec_len"], Unchecked);
   ("binary_unsafe.rs", "macro_rules! skip_stack_pop",
    [], Unchecked);
   ("binary_unsafe.rs", "impl<'a> TInputProtocol for TBinaryUnsafeInputProtocol<'a>",
    ["read_message_begin"; "read_message_end"; "read_struct_begin"; "read_struct_end"; "read_field_begin"; "read_field_end"; "read_bool"; "read_bytes"; "get_bytes"; "read_uuid"; "read_i8"; "read_i16"; "read_i32"; "read_i64"; "read_double"; "read_string"; "read_faststr"; "read_list_begin"; "read_list_end"; "read_set_begin"; "read_set_end"; "read_map_begin"; "read_map_end"; "read_byte"; "read_bytes_vec"; "buf"; "skip"; "skip_till_depth"], Unchecked)].
