(* Denotation of the language of Thrift/PrimOp.v over the byte model, for the checked writers and the length
   methods (what Generated/PrimOps.v rows are made of).

   Values are dynamically typed ([val]); an ill-typed or unknown construct is STUCK = [Panic SOtherPanic], an
   outcome no primitive of Proto.v / Len.v produces, so "row denotes the primitive" excludes it.
   Arithmetic is exact on Z; the casts wrap.  (u8 / i32 arithmetic of the Rust bodies wraps at the operand width;
   for + - * << | & that commutes with the final truncation, and every result here ends in a cast, a u8 parameter
   of write_byte ([z2b]) or a fixed-width put.)

   Calls to sibling methods (self.write_i32(..), self.write_field_header(..), self.i32_len(0) ...) are interpreted by
   the MODEL primitive of the callee ([wcall], [lcall]): each method is checked against its own primitive assuming
   its callees meet theirs -- which is what their own rows establish (no recursion among these methods).

   The writer context is Proto.wctx (last_write_field_id, write_field_id_stack, pending bool field id); zero_copy is the
   buffer kind's flag; `self.zero_copy_len += n` has no counterpart (Proto.zc_len derives it from the inserted nodes) and
   is a no-op here.  No proofs in this file. *)
From Coq Require Import String.
From PV Require Import Thrift.Len Thrift.Msg Thrift.PrimOp.
Open Scope string_scope.
Open Scope Z_scope.

Inductive val :=
| VZ (z : Z)                 (* integers, bools as 0 / 1, f64 as its bit pattern *)
| VT (t : ttype)
| VC (c : ctype)
| VM (m : mtype)
| VB (l : list byte)
| VO (o : option Z)          (* Option<i16> *)
| VTup (l : list val).       (* a tuple / identifier returned by a reader *)

Definition env := list (string * val).
Fixpoint lookup (x : string) (e : env) : option val :=
  match e with
  | [] => None
  | (y, v) :: t => if String.eqb x y then Some v else lookup x t
  end.

Definition stuck {A} : res A := Panic SOtherPanic.

Definition seqb (a b : string) : bool := String.eqb a b.

Definition named (c : string) : option val :=
  if seqb c "TType::Stop" then Some (VT TStop)
  else if seqb c "TType::Bool" then Some (VT TBool)
  else if seqb c "TCompactType::BooleanTrue" then Some (VC CBooleanTrue)
  else if seqb c "TCompactType::BooleanFalse" then Some (VC CBooleanFalse)
  else if seqb c "COMPACT_PROTOCOL_ID" then Some (VZ compact_protocol_id)
  else if seqb c "COMPACT_VERSION" then Some (VZ compact_version)
  else if seqb c "COMPACT_VERSION_MASK" then Some (VZ compact_version_mask)
  else if seqb c "COMPACT_TYPE_SHIFT_AMOUNT" then Some (VZ compact_type_shift_amount)
  else if seqb c "COMPACT_TYPE_MASK" then Some (VZ compact_type_mask)
  else if seqb c "ZERO_COPY_THRESHOLD" then Some (VZ zero_copy_threshold)
  else if seqb c "VERSION_1" then Some (VZ binary_version_1)
  else if seqb c "VERSION_LE" then Some (VZ binary_le_version)
  else None.

Definition cast (t : string) (v : val) : res val :=
  match v with
  | VZ z =>
      if seqb t "u8" then Ok (VZ (wrap_u 8 z))
      else if seqb t "i8" then Ok (VZ (wrap_s 8 z))
      else if seqb t "i16" then Ok (VZ (wrap_s 16 z))
      else if seqb t "i32" then Ok (VZ (wrap_s 32 z))
      else if seqb t "u32" then Ok (VZ (wrap_u 32 z))
      else if seqb t "i64" then Ok (VZ (wrap_s 64 z))
      else if seqb t "u64" then Ok (VZ (wrap_u 64 z))
      else if seqb t "usize" then Ok (VZ (wrap_u 64 z))
      else stuck
  | VT ty => if seqb t "u8" || seqb t "into" then Ok (VZ (ttype_code ty)) else stuck
  | VC c => if seqb t "u8" then Ok (VZ (ctype_code c)) else stuck
  | VM m => if seqb t "u8" || seqb t "into" then Ok (VZ (mtype_code m)) else stuck
  | _ => stuck
  end.

Definition b2v (b : bool) : val := VZ (if b then 1 else 0).

Definition binop (o : string) (x y : val) : res val :=
  match x, y with
  | VZ a, VZ b =>
      if seqb o "+" then Ok (VZ (a + b))
      else if seqb o "-" then Ok (VZ (a - b))
      else if seqb o "|" then Ok (VZ (Z.lor a b))
      else if seqb o "&" then Ok (VZ (Z.land a b))
      else if seqb o "<<" then Ok (VZ (Z.shiftl a b))
      else if seqb o "==" then Ok (b2v (a =? b))
      else if seqb o "!=" then Ok (b2v (negb (a =? b)))
      else if seqb o "<" then Ok (b2v (a <? b))
      else if seqb o "<=" then Ok (b2v (a <=? b))
      else if seqb o ">" then Ok (b2v (b <? a))
      else if seqb o ">=" then Ok (b2v (b <=? a))
      else if seqb o "&&" then Ok (b2v (negb (a =? 0) && negb (b =? 0)))
      else if seqb o "||" then Ok (b2v (negb (a =? 0) || negb (b =? 0)))
      else stuck
  | VT a, VT b => if seqb o "==" then Ok (b2v (ttype_eqb a b)) else stuck
  | _, _ => stuck
  end.

Definition bytes_of (en : string) (w : Z) (z : Z) : list byte :=
  if seqb en "be" then be_bytes (Z.to_nat w) (wrap_u (8 * w) z) else le_bytes (Z.to_nat w) (wrap_u (8 * w) z).

Definition signed_ty (t : string) : bool := seqb t "i16" || seqb t "i32" || seqb t "i64".

(* the pure length methods an expression may call *)
Definition lcall (p : pk) (m : string) (args : list val) : option lm :=
  if seqb m "byte_len" then match args with [VZ _] => Some (lret 1) | _ => None end
  else if seqb m "i8_len" then match args with [VZ _] => Some l_i8 | _ => None end
  else if seqb m "i16_len" then match args with [VZ z] => Some (l_i16 p z) | _ => None end
  else if seqb m "i32_len" then match args with [VZ z] => Some (l_i32 p z) | _ => None end
  else if seqb m "i64_len" then match args with [VZ z] => Some (l_i64 p z) | _ => None end
  else if seqb m "faststr_len" || seqb m "bytes_len" || seqb m "string_len"
       then match args with [VB l] => Some (l_bytes p (Z.of_nat (length l))) | _ => None end
  else None.

(* the sibling writer methods a body may call *)
Definition wcall (p : pk) (k : bk) (m : string) (args : list val) : option wm :=
  if seqb m "write_byte" then match args with [VZ b] => Some (w_byte b) | _ => None end
  else if seqb m "write_i8" then match args with [VZ z] => Some (w_i8 z) | _ => None end
  else if seqb m "write_i16" then match args with [VZ z] => Some (w_i16 p z) | _ => None end
  else if seqb m "write_i32" then match args with [VZ z] => Some (w_i32 p z) | _ => None end
  else if seqb m "write_i64" then match args with [VZ z] => Some (w_i64 p z) | _ => None end
  else if seqb m "write_faststr" then match args with [VB l] => Some (w_bytes p k l) | _ => None end
  else if seqb m "write_bytes_without_len" then match args with [VB l] => Some (w_bytes_without_len k l) | _ => None end
  else if seqb m "write_field_header" then match args with [VC ct; VZ id] => Some (w_field_header ct id) | _ => None end
  else if seqb m "write_collection_begin" then match args with [VT et; VZ n] => Some (w_coll_begin p et n) | _ => None end
  else None.

Section Eval.
  Variable p : pk.
  Variable k : bk.

  Fixpoint ev (c : wctx) (en : env) (e : expr) {struct e} : res val :=
    let fix evs (l : list expr) {struct l} : res (list val) :=
      match l with
      | [] => Ok []
      | x :: t => match ev c en x with
                  | Ok v => match evs t with Ok vs => Ok (v :: vs) | Err e => Err e | Panic s => Panic s end
                  | Err e => Err e
                  | Panic s => Panic s
                  end
      end in
    match e with
    | EVar x => match lookup x en with Some v => Ok v | None => stuck end
    | ESelf f =>
        if seqb f "last_write_field_id" then Ok (VZ (w_last c))
        else if seqb f "zero_copy" then Ok (b2v (match k with BLinked true => true | _ => false end))
        else if seqb f "pending_write_bool_field_identifier" then Ok (VO (w_pend c))
        else stuck
    | EK z => Ok (VZ z)
    | ENamed n => match named n with Some v => Ok v | None => stuck end
    | ELen a => match ev c en a with
                | Ok (VB l) => Ok (VZ (Z.of_nat (length l)))
                | Ok _ => stuck | Err e => Err e | Panic s => Panic s
                end
    | ECast t a => match ev c en a with Ok v => cast t v | Err e => Err e | Panic s => Panic s end
    | ETyped _ a => ev c en a
    | EBin o a b => match ev c en a with
                    | Ok x => match ev c en b with Ok y => binop o x y | Err e => Err e | Panic s => Panic s end
                    | Err e => Err e | Panic s => Panic s
                    end
    | ENot a => match ev c en a with Ok (VZ z) => Ok (b2v (z =? 0)) | Ok _ => stuck | Err e => Err e | Panic s => Panic s end
    | EIfE q a b => match ev c en q with
                    | Ok (VZ z) => if z =? 0 then ev c en b else ev c en a
                    | Ok _ => stuck | Err e => Err e | Panic s => Panic s
                    end
    | ECompact a => match ev c en a with
                    | Ok (VT t) => match ctype_of_ttype t with Some ct => Ok (VC ct) | None => Err EInvalidData end
                    | Ok _ => stuck | Err e => Err e | Panic s => Panic s
                    end
    | ECompactU a => match ev c en a with
                     | Ok (VT t) => match ctype_of_ttype t with Some ct => Ok (VC ct) | None => Panic SUnwrap end
                     | Ok _ => stuck | Err e => Err e | Panic s => Panic s
                     end
    | EUnwrap a => match ev c en a with
                   | Ok (VO (Some z)) => Ok (VZ z)
                   | Ok (VO None) => Panic SUnwrap
                   | Ok _ => stuck | Err e => Err e | Panic s => Panic s
                   end
    | EIsSome a => match ev c en a with
                   | Ok (VO o) => Ok (b2v (match o with Some _ => true | None => false end))
                   | Ok _ => stuck | Err e => Err e | Panic s => Panic s
                   end
    | EReqSpace a =>
        match a with
        | ETyped t x => if signed_ty t
                        then match ev c en x with Ok (VZ z) => Ok (VZ (required_space_s z)) | Ok _ => stuck | Err e => Err e | Panic s => Panic s end
                        else stuck
        | ECast t _ => if seqb t "u32"
                       then match ev c en a with Ok (VZ z) => Ok (VZ (required_space_u z)) | Ok _ => stuck | Err e => Err e | Panic s => Panic s end
                       else stuck
        | _ => stuck
        end
    | ECallLen m args =>
        match evs args with
        | Ok vs => match lcall p m vs with
                   | Some f => match f c with Ok (n, _) => Ok (VZ n) | Err e => Err e | Panic s => Panic s end
                   | None => stuck
                   end
        | Err e => Err e | Panic s => Panic s
        end
    | EByteOf en' w i a => match ev c en a with
                           | Ok (VZ z) => Ok (VZ (b2z (nth (Z.to_nat i) (bytes_of en' w z) x00)))
                           | Ok _ => stuck | Err e => Err e | Panic s => Panic s
                           end
    | EBytes en' w a => match ev c en a with
                        | Ok (VZ z) => Ok (VB (bytes_of en' w z))
                        | Ok _ => stuck | Err e => Err e | Panic s => Panic s
                        end
    | _ => stuck        (* reader constructs: Thrift/PrimOpsRSem.v *)
    end.

  Fixpoint evs (c : wctx) (en : env) (l : list expr) : res (list val) :=
    match l with
    | [] => Ok []
    | x :: t => match ev c en x with
                | Ok v => match evs c en t with Ok vs => Ok (v :: vs) | Err e => Err e | Panic s => Panic s end
                | Err e => Err e
                | Panic s => Panic s
                end
    end.

  Record est := mkE { e_env : env; e_ctx : wctx; e_out : list seg; e_ret : bool }.

  Definition emit (w : wm) (st : est) : res est :=
    match w (e_ctx st) with
    | Ok (ss, c') => Ok (mkE (e_env st) c' (e_out st ++ ss)%list (e_ret st))
    | Err e => Err e
    | Panic s => Panic s
    end.

  Definition with_ctx (st : est) (c : wctx) : est := mkE (e_env st) c (e_out st) (e_ret st).
  Definition bindv (st : est) (x : string) (v : val) : est := mkE ((x, v) :: e_env st) (e_ctx st) (e_out st) (e_ret st).

  Fixpoint zs_of (vs : list val) : option (list Z) :=
    match vs with
    | [] => Some []
    | VZ z :: t => match zs_of t with Some l => Some (z :: l) | None => None end
    | _ => None
    end.

  Definition put_bytes (kd : string) (v : val) : option (list byte) :=
    match v with
    | VZ z =>
        if seqb kd "u8" || seqb kd "i8" then Some [z2b z]
        else if seqb kd "i16" then Some (be_bytes 2 (wrap_u 16 z))
        else if seqb kd "i16_le" then Some (le_bytes 2 (wrap_u 16 z))
        else if seqb kd "i32" then Some (be_bytes 4 (wrap_u 32 z))
        else if seqb kd "i32_le" then Some (le_bytes 4 (wrap_u 32 z))
        else if seqb kd "i64" then Some (be_bytes 8 (wrap_u 64 z))
        else if seqb kd "i64_le" then Some (le_bytes 8 (wrap_u 64 z))
        else if seqb kd "f64" then Some (be_bytes 8 z)
        else if seqb kd "f64_le" then Some (le_bytes 8 z)
        else None
    | VB l => if seqb kd "slice" then Some l else None
    | _ => None
    end.

  Definition rbind {A B} (r : res A) (f : A -> res B) : res B :=
    match r with Ok a => f a | Err e => Err e | Panic s => Panic s end.

  Fixpoint exec (s : stmt) (st : est) {struct s} : res est :=
    let fix execs (l : list stmt) (st : est) {struct l} : res est :=
      match l with
      | [] => Ok st
      | x :: t => match exec x st with
                  | Ok st' => if e_ret st' then Ok st' else execs t st'
                  | Err e => Err e
                  | Panic sx => Panic sx
                  end
      end in
    let c := e_ctx st in
    let en := e_env st in
    match s with
    | SPut kd e =>
        rbind (ev c en e) (fun v => match put_bytes kd v with Some l => emit (wret l) st | None => stuck end)
    | SPutArr es =>
        rbind (evs c en es) (fun vs => match zs_of vs with Some zs => emit (wret (map z2b zs)) st | None => stuck end)
    | SVarint e =>
        rbind (ev c en e) (fun v => match v with VZ z => emit (wret (encode_var z)) st | _ => stuck end)
    | SCall m args =>
        if seqb m "write_varint" then
          match args with
          | [ETyped t x] =>
              if signed_ty t
              then rbind (ev c en x) (fun v => match v with VZ z => emit (wret (encode_var (zigzag z))) st | _ => stuck end)
              else stuck
          | [ECast t x] =>
              if seqb t "u32"
              then rbind (ev c en (ECast t x)) (fun v => match v with VZ z => emit (wret (encode_var z)) st | _ => stuck end)
              else stuck
          | _ => stuck
          end
        else rbind (evs c en args) (fun vs => match wcall p k m vs with Some w => emit w st | None => stuck end)
    | SLet x e => rbind (ev c en e) (fun v => Ok (bindv st x v))
    | SIf q t f =>
        rbind (ev c en q) (fun v => match v with VZ z => if z =? 0 then execs f st else execs t st | _ => stuck end)
    | SIfV q t tv f fv =>
        let fin (bv : expr) (r : res est) : res est :=
          rbind r (fun st' =>
            if e_ret st' then Ok st'
            else rbind (ev (e_ctx st') (e_env st') bv) (fun v => Ok (bindv st' "$match" v))) in
        rbind (ev c en q) (fun v =>
          match v with
          | VZ z => if z =? 0 then fin fv (execs f st) else fin tv (execs t st)
          | _ => stuck
          end)
    | SSet f e =>
        if seqb f "last_write_field_id"
        then rbind (ev c en e) (fun v => match v with VZ z => Ok (with_ctx st (mkW z (w_stack c) (w_pend c))) | _ => stuck end)
        else stuck
    | SAdd f e => if seqb f "zero_copy_len" then rbind (ev c en e) (fun _ => Ok st) else stuck
    | SAddVar x e =>
        rbind (ev c en e) (fun v =>
          match v, lookup x en with
          | VZ z, Some (VZ old) => Ok (bindv st x (VZ (old + z)))
          | _, _ => stuck
          end)
    | SPushLast => Ok (with_ctx st (mkW (w_last c) (w_last c :: w_stack c) (w_pend c)))
    | SPopLast =>
        match w_stack c with
        | [] => Err EInvalidData
        | x :: t => Ok (with_ctx st (mkW x t (w_pend c)))
        end
    | SPopLastUnwrap =>
        match w_stack c with
        | [] => Panic SUnwrap
        | x :: t => Ok (with_ctx st (mkW x t (w_pend c)))
        end
    | SAssertNoPending => match w_pend c with Some _ => Panic SPendingBoolWrite | None => Ok st end
    | SPanic => Panic SPendingBoolTwice      (* the one panic! of these bodies: a bool field begun while one is pending *)
    | SSetPending e =>
        rbind (ev c en e) (fun v => match v with VZ z => Ok (with_ctx st (mkW (w_last c) (w_stack c) (Some z))) | _ => stuck end)
    | SSetPendingOpt e =>
        rbind (ev c en e) (fun v => match v with VO (Some z) => Ok (with_ctx st (mkW (w_last c) (w_stack c) (Some z))) | _ => stuck end)
    | STakePending x sm nn =>
        match w_pend c with
        | Some id => execs sm (bindv (with_ctx st (mkW (w_last c) (w_stack c) None)) (x ++ ".id")%string (VO (Some id)))
        | None => execs nn st
        end
    | STakePendingV x sm sv nn nv =>
        let fin (bv : expr) (r : res est) : res est :=
          rbind r (fun st' =>
            if e_ret st' then Ok st'
            else rbind (ev (e_ctx st') (e_env st') bv) (fun v => Ok (bindv st' "$match" v))) in
        match w_pend c with
        | Some id => fin sv (execs sm (bindv (with_ctx st (mkW (w_last c) (w_stack c) None)) (x ++ ".id")%string (VO (Some id))))
        | None => fin nv (execs nn st)
        end
    | SHeaderLen ax t id =>
        rbind (ev c en t) (fun _ =>
        rbind (ev c en id) (fun v =>
          match v, lookup ax en with
          | VZ idz, Some (VZ old) =>
              match l_field_header idz c with
              | Ok (n, c') => Ok (bindv (with_ctx st c') ax (VZ (old + n)))
              | Err e => Err e
              | Panic sx => Panic sx
              end
          | _, _ => stuck
          end))
    | SInsert e =>
        rbind (ev c en e) (fun v => match v with VB l => Ok (mkE en c (e_out st ++ [Node l])%list (e_ret st)) | _ => stuck end)
    | SReturnOk => Ok (mkE en c (e_out st) true)
    | _ => stuck
    end.

  Fixpoint execs (l : list stmt) (st : est) : res est :=
    match l with
    | [] => Ok st
    | x :: t => match exec x st with
                | Ok st' => if e_ret st' then Ok st' else execs t st'
                | Err e => Err e
                | Panic sx => Panic sx
                end
    end.
End Eval.

(* ---- arguments of a method, and the environment they are bound in ---- *)
Record margs := mkA {
  a_z : Z;                   (* the integer argument (i, n, d, size, ax ...) *)
  a_id : Z;                  (* a field id *)
  a_bool : bool;
  a_bytes : list byte;       (* b, s, u *)
  a_ty : ttype;              (* field_type / element_type / key_type *)
  a_ty2 : ttype;             (* value_type *)
  a_ct : ctype;              (* field_type of write_field_header *)
  a_msg : msgid
}.

Definition is_any (m : string) (l : list string) : bool := existsb (seqb m) l.

Definition env_of (m : string) (a : margs) : env :=
  [("i", VZ (a_z a)); ("n", VZ (a_z a)); ("d", VZ (a_z a)); ("size", VZ (a_z a)); ("ax", VZ (a_z a));
   ("id", if seqb m "field_begin_len" then VO (Some (a_id a)) else VZ (a_id a));
   ("b", if is_any m ["write_bool"; "bool_len"] then b2v (a_bool a)
         else if is_any m ["write_byte"; "byte_len"] then VZ (a_z a)
         else VB (a_bytes a));
   ("s", VB (a_bytes a)); ("u", VB (a_bytes a));
   ("field_type", if is_any m ["write_field_header"; "macro write_field_header_len"] then VC (a_ct a) else VT (a_ty a));
   ("element_type", VT (a_ty a));
   ("identifier.element_type", VT (a_ty a)); ("identifier.size", VZ (a_z a));
   ("identifier.key_type", VT (a_ty a)); ("identifier.value_type", VT (a_ty2 a));
   ("identifier.message_type", VM (m_type (a_msg a))); ("identifier.sequence_number", VZ (m_seq (a_msg a)));
   ("identifier.name", VB (m_name (a_msg a)));
   ("ident.sequence_number", VZ (m_seq (a_msg a))); ("ident.name", VB (m_name (a_msg a)))].

Definition pk_of (proto : string) : option pk :=
  if seqb proto "binary" then Some PBinary
  else if seqb proto "binary_le" then Some PBinaryLE
  else if seqb proto "compact" then Some PCompact
  else None.

(* running a writer row / a length row *)
Definition run_w (p : pk) (k : bk) (r : prow) (a : margs) : wm := fun c =>
  match execs p k (r_body r) (mkE (env_of (r_method r) a) c [] false) with
  | Ok st => Ok (e_out st, e_ctx st)
  | Err e => Err e
  | Panic s => Panic s
  end.

Definition run_l (p : pk) (r : prow) (a : margs) : lm := fun c =>
  match execs p BContig (r_body r) (mkE (env_of (r_method r) a) c [] false) with
  | Ok st =>
      match r_value r with
      | Some e => match ev p BContig (e_ctx st) (e_env st) e with
                  | Ok (VZ n) => Ok (n, e_ctx st)
                  | Ok _ => stuck
                  | Err e' => Err e'
                  | Panic s => Panic s
                  end
      | None => match lookup "ax" (e_env st) with Some (VZ n) => Ok (n, e_ctx st) | _ => stuck end
      end
  | Err e => Err e
  | Panic s => Panic s
  end.

(* ---- the primitive of the model each method is compared with ---- *)
Definition wspec (p : pk) (k : bk) (m : string) (a : margs) : option wm :=
  let z := a_z a in let l := a_bytes a in
  if seqb m "write_message_begin" then Some (w_message_begin p k (a_msg a))
  else if seqb m "write_message_end" then Some (assert_no_pending_w p)
  else if seqb m "write_struct_begin" then Some (w_struct_begin p)
  else if seqb m "write_struct_end" then Some (w_struct_end p)
  else if seqb m "write_field_begin" then Some (w_field_begin p (a_ty a) (a_id a))
  else if seqb m "write_field_end" then Some (w_field_end p)
  else if seqb m "write_field_stop" then Some (w_field_stop p)
  else if seqb m "write_bool" then Some (w_bool p (a_bool a))
  else if is_any m ["write_bytes"; "write_string"; "write_faststr"; "write_bytes_vec"] then Some (w_bytes p k l)
  else if seqb m "write_bytes_without_len" then Some (w_bytes_without_len k l)
  else if seqb m "write_byte" then Some (w_byte z)
  else if seqb m "write_uuid" then Some (w_uuid l)
  else if seqb m "write_i8" then Some (w_i8 z)
  else if seqb m "write_i16" then Some (w_i16 p z)
  else if seqb m "write_i32" then Some (w_i32 p z)
  else if seqb m "write_i64" then Some (w_i64 p z)
  else if seqb m "write_double" then Some (w_double p z)
  else if is_any m ["write_list_begin"; "write_set_begin"; "write_collection_begin"] then Some (w_coll_begin p (a_ty a) z)
  else if seqb m "write_map_begin" then Some (w_map_begin p (a_ty a) (a_ty2 a) z)
  else if is_any m ["write_list_end"; "write_set_end"; "write_map_end"] then Some wnop
  else if seqb m "write_varint" then Some (wret (encode_var z))
  else if seqb m "write_field_header" then Some (w_field_header (a_ct a) (a_id a))
  else None.

Definition lspec (p : pk) (m : string) (a : margs) : option lm :=
  let z := a_z a in let n := Z.of_nat (length (a_bytes a)) in
  if seqb m "message_begin_len"
  then let nn := Z.of_nat (length (m_name (a_msg a))) in
       Some (match p with
             | PCompact => lret (2 + required_space_u (wrap_u 32 (m_seq (a_msg a))) + (required_space_u (wrap_u 32 nn) + nn))
             | _ => lret (4 + (4 + nn) + 4)
             end)
  else if seqb m "message_end_len" then Some (assert_no_pending_l p 0)
  else if seqb m "struct_begin_len" then Some (l_struct_begin p)
  else if seqb m "struct_end_len" then Some (l_struct_end p)
  else if seqb m "field_begin_len" then Some (l_field_begin p (a_ty a) (a_id a))
  else if seqb m "field_end_len" then Some (l_field_end p)
  else if seqb m "field_stop_len" then Some (l_field_stop p)
  else if seqb m "bool_len" then Some (l_bool p)
  else if is_any m ["bytes_len"; "string_len"; "faststr_len"; "bytes_vec_len"] then Some (l_bytes p n)
  else if seqb m "byte_len" then Some (lret 1)
  else if seqb m "uuid_len" then Some l_uuid
  else if seqb m "i8_len" then Some l_i8
  else if seqb m "i16_len" then Some (l_i16 p z)
  else if seqb m "i32_len" then Some (l_i32 p z)
  else if seqb m "i64_len" then Some (l_i64 p z)
  else if seqb m "double_len" then Some l_double
  else if is_any m ["list_begin_len"; "set_begin_len"] then Some (l_coll_begin p (a_ty a) z)
  else if seqb m "map_begin_len" then Some (l_map_begin p (a_ty a) (a_ty2 a) z)
  else if is_any m ["list_end_len"; "set_end_len"; "map_end_len"] then Some (lret 0)
  else if seqb m "macro write_field_header_len"
       then Some (fun c => match l_field_header (a_id a) c with Ok (k, c') => Ok (z + k, c') | Err e => Err e | Panic s => Panic s end)
  else None.

(* the buffer kinds a flavour stands for *)
Definition kinds_of (flavour : string) : list bk :=
  if seqb flavour "bytesmut" then [BContig]
  else if seqb flavour "linked" then [BLinked false; BLinked true]
  else [BContig; BLinked false; BLinked true].
